/-
  Cholesky solver (`AdjCholDec`): the trace hypothesis `Chol.UnambiguousF (cholFact p)` ("the
  pivot the column loop rejects is exactly 0 or > s_tol"; the model rejects `pivot ≤ s_tol`)
  DERIVED from the order-independent gap hypothesis on the design matrix (`ComposeGap.lean`):

      `GapAll p.A s_tol → UnambiguousF (cholFact p)`        (`unambiguousF_of_gap`)

  Proof.  When the loop rejects a pivot it is in a state `LDLInv n s_tol N perm a c`
  (`N = L D Lᵀ + trailing block` after `c` accepted pivots, `CholLDL.lean`) and the rejected
  value is the diagonal entry `d = a(u,u)`, `u = perm c`, of the trailing block (`factor_rej`).
  `schur_vector` (the construction inside `trail_zero`, `CholKernel.lean`): there is a vector `y`
  with `y u = 1`, `y v = 0` at every other not yet eliminated unknown, and `N y = ` column `u` of the
  trailing block — in particular `(N y) z = 0` at every eliminated unknown `z`, i.e. the residual
  `A y` is orthogonal to the eliminated columns, and `‖A y‖² = yᵀ N y = d`.  `GapAll` applied to
  `k = u`, `β = y` gives `d = 0 ∨ s_tol < d`.
  The pivot order (largest remaining diagonal first) depends on the data — this is why the
  hypothesis must be the order-independent `GapAll`.
-/
import Gama.Lemmas.Ls.ComposeGap
import Gama.Lemmas.Ls.CholC20

namespace Gama.Ls
open Finset Dn Chol Matrix Gama.LS

set_option linter.unusedSectionVars false
set_option linter.unusedVariables false

section
variable {K : Type} [Field K] [LinearOrder K] [IsStrictOrderedRing K] [SqrtFn K]
attribute [local instance 2000] scalarOfField

/-- the vector that realises column `u` of the Schur complement: `y u = 1`, `y = 0` at the other
    unknowns not yet eliminated, `N y = trail(·, u)` -/
theorem schur_vector {n N0 : Nat} {tol : K} {Nf : Nat → Nat → K} {perm : Array Nat} {a : DMat K}
    (h : LDLInv n tol Nf perm a N0) (u : Nat) (hu : u < n) (hqu' : N0 ≤ qq n perm u) :
    ∃ y : Nat → K, y u = 1 ∧ (∀ v, v < n → N0 ≤ qq n perm v → v ≠ u → y v = 0) ∧
      ∀ z, z < n → ∑ v ∈ range n, Nf z v * y v = trail n perm a N0 z u := by
  have hP := h.isPerm
  have hN0 := h.le
  obtain ⟨hqun, hpu⟩ := qq_spec hP u hu
  let x : Array K := vmk n fun v => if qq n perm v < N0 then - sget a v u else if v = u then 1 else 0
  obtain ⟨hsz, hrec, hfr⟩ := backSub_spec hP hN0 a x (vmk_size _ _)
  set yv := backSub N0 perm a x with hyv
  let y : Nat → K := fun v => vget yv v
  have hytrail : ∀ jj, N0 ≤ jj → jj < n → y (pget perm jj) = if jj = qq n perm u then 1 else 0 := by
    intro jj h1 h2
    show vget yv (pget perm jj) = _
    rw [hfr jj h1 h2, vget_vmk, if_pos (hP.lt jj h2), qq_perm hP jj h2, if_neg (by omega)]
    by_cases e : jj = qq n perm u
    · rw [if_pos e, if_pos (by rw [e, hpu])]
    · rw [if_neg e, if_neg (fun e' => e (by rw [← qq_perm hP jj h2, e']))]
  have hyrec : ∀ ii, ii < N0 → y (pget perm ii)
      = - ∑ jj ∈ Ico (ii + 1) n, sget a (pget perm ii) (pget perm jj) * y (pget perm jj) := by
    intro ii hii
    show vget yv (pget perm ii) = _
    rw [hrec ii hii, vget_vmk, if_pos (hP.lt ii (by omega)), qq_perm hP ii (by omega), if_pos hii,
      ← Finset.sum_Ico_consecutive _ (by omega : ii + 1 ≤ N0) hN0]
    have : ∑ jj ∈ Ico N0 n, sget a (pget perm ii) (pget perm jj) * y (pget perm jj)
        = sget a (pget perm ii) u := by
      rw [Finset.sum_eq_single (qq n perm u)]
      · rw [hytrail _ hqu' hqun, if_pos rfl, hpu, mul_one]
      · intro jj hjj hne
        have := Finset.mem_Ico.1 hjj
        rw [hytrail jj this.1 this.2, if_neg hne, mul_zero]
      · intro hnot
        exact absurd (Finset.mem_Ico.2 ⟨hqu', hqun⟩) hnot
    rw [this]
    ring
  have hell := ell_dot_zero hP hN0 a y hyrec
  have hNy := normal_mul_trail h y hell
  have hyu : y u = 1 := by
    have := hytrail (qq n perm u) hqu' hqun
    rw [hpu] at this; rw [this, if_pos rfl]
  have hy0 : ∀ v, v < n → N0 ≤ qq n perm v → v ≠ u → y v = 0 := by
    intro v hvn hqv hne
    obtain ⟨hqvn, hpv⟩ := qq_spec hP v hvn
    have := hytrail (qq n perm v) hqv hqvn
    rw [hpv] at this
    rw [this, if_neg (fun e => hne (by rw [← hpv, e, hpu]))]
  refine ⟨y, hyu, hy0, ?_⟩
  intro z' hz'
  rw [hNy z' hz', Finset.sum_eq_single u]
  · rw [hyu, mul_one]
  · intro v hv hne
    have hvn := Finset.mem_range.1 hv
    by_cases hqv : N0 ≤ qq n perm v
    · rw [hy0 v hvn hqv hne, mul_zero]
    · unfold trail; rw [if_neg (fun h' => hqv h'.2), zero_mul]
  · intro hnot; exact absurd (Finset.mem_range.2 hu) hnot

theorem mulVec_toMatrix_extend (m n : Nat) (A : DMat K) (g : Fin n → K) (k : Fin m) :
    (toMatrix m n A *ᵥ g) k = ∑ v ∈ range n, mget A k.val v * extend g v := by
  unfold Matrix.mulVec dotProduct
  rw [← Fin.sum_univ_eq_sum_range (fun v => mget A k.val v * extend g v) n]
  refine Finset.sum_congr rfl fun v _ => ?_
  unfold extend; rw [dif_pos v.isLt]; rfl

/-- **a diagonal entry of the Schur complement of a Gram matrix obeys the gap dichotomy** -/
theorem schur_diag_gap {m n N0 : Nat} {tol τ : K} {A : DMat K} {perm : Array Nat} {a : DMat K}
    (h : LDLInv n tol (normalF m A) perm a N0) (hG : GapAll (toMatrix m n A) τ)
    (c : Nat) (hc1 : N0 ≤ c) (hc : c < n) : dd perm a c = 0 ∨ τ < dd perm a c := by
  have hP := h.isPerm
  set u := pget perm c with hu_def
  have hu : u < n := hP.lt c hc
  have hqu : qq n perm u = c := qq_perm hP c hc
  obtain ⟨y, hyu, hy0, hNy⟩ := schur_vector h u hu (by rw [hqu]; exact hc1)
  let g : Fin n → K := fun i => y i.val
  have hext : ∀ v, v < n → extend g v = y v := fun v hv => by unfold extend; rw [dif_pos hv]
  have hAg : ∀ k : Fin m, (toMatrix m n A *ᵥ g) k = ∑ v ∈ range n, mget A k.val v * y v := by
    intro k
    rw [mulVec_toMatrix_extend]
    exact Finset.sum_congr rfl fun v hv => by rw [hext v (Finset.mem_range.1 hv)]
  -- `Aᵀ A g = N y`
  have hNg : ∀ j : Fin n, ((toMatrix m n A)ᵀ *ᵥ (toMatrix m n A *ᵥ g)) j
      = ∑ v ∈ range n, normalF m A j.val v * y v := by
    intro j
    rw [gram_mul]
    show ∑ k : Fin m, (toMatrix m n A)ᵀ j k * (toMatrix m n A *ᵥ g) k = _
    rw [← Fin.sum_univ_eq_sum_range (fun k => mget A k j.val * ∑ v ∈ range n, mget A k v * y v) m]
    refine Finset.sum_congr rfl fun k _ => ?_
    rw [hAg k]; rfl
  -- `‖A g‖² = yᵀ N y = trail u u = d`
  have hquad : (toMatrix m n A *ᵥ g) ⬝ᵥ (toMatrix m n A *ᵥ g) = dd perm a c := by
    have h1 : (toMatrix m n A *ᵥ g) ⬝ᵥ (toMatrix m n A *ᵥ g)
        = ∑ z ∈ range n, y z * ∑ v ∈ range n, normalF m A z v * y v := by
      rw [gram_quad]
      show ∑ k : Fin m, (toMatrix m n A *ᵥ g) k * (toMatrix m n A *ᵥ g) k = _
      rw [← Fin.sum_univ_eq_sum_range
        (fun k => (∑ v ∈ range n, mget A k v * y v) * (∑ v ∈ range n, mget A k v * y v)) m]
      exact Finset.sum_congr rfl fun k _ => by rw [hAg k]
    rw [h1]
    have h2 : ∀ z ∈ range n, y z * ∑ v ∈ range n, normalF m A z v * y v = y z * trail n perm a N0 z u :=
      fun z hz => by rw [hNy z (Finset.mem_range.1 hz)]
    rw [Finset.sum_congr rfl h2, Finset.sum_eq_single u]
    · rw [hyu, one_mul]
      unfold trail dd
      rw [if_pos ⟨by rw [hqu]; exact hc1, by rw [hqu]; exact hc1⟩]
    · intro v hv hne
      have hvn := Finset.mem_range.1 hv
      by_cases hqv : N0 ≤ qq n perm v
      · rw [hy0 v hvn hqv hne, zero_mul]
      · unfold trail; rw [if_neg (fun h' => hqv h'.1), mul_zero]
    · intro hnot; exact absurd (Finset.mem_range.2 hu) hnot
  rw [← hquad]
  refine hG ⟨u, hu⟩ g hyu ?_
  intro j hj hβ
  rw [hNg j, hNy j.val j.isLt]
  have hjne : j.val ≠ u := fun e => hj (Fin.ext e)
  have hqj : ¬ N0 ≤ qq n perm j.val := fun hq => hβ (hy0 j.val j.isLt hq hjne)
  unfold trail
  rw [if_neg (fun h' => hqj h'.1)]

/-- the value the column loop records as rejected is the diagonal entry, at the current position,
    of a state that satisfies the loop invariant -/
theorem factor_rej {n : Nat} {Nf : Nat → Nat → K} :
    ∀ (fuel c : Nat) (perm : Array Nat) (a : DMat K), LDLInv n (sTol : K) Nf perm a c → fuel = n - c →
      ∀ t, (factor n fuel c perm a).rej = some t →
        ∃ perm' a' c', LDLInv n (sTol : K) Nf perm' a' c' ∧ c' < n ∧ t = dd perm' a' c' ∧ t ≤ (sTol : K) := by
  intro fuel
  induction fuel with
  | zero =>
    intro c perm a h hf t ht
    simp [factor] at ht
  | succ fuel ih =>
    intro c perm a h hf t ht
    have hc : c < n := by omega
    obtain ⟨h1, h2, h3⟩ := pivot_step h hc
    unfold factor at ht
    simp only [] at ht
    change (if (pivotSearch n a perm c).1 ≤ (sTol : K) then _ else _ : Fact K).rej = some t at ht
    by_cases hp : (pivotSearch n a perm c).1 ≤ (sTol : K)
    · rw [if_pos hp] at ht
      have e : (pivotSearch n a perm c).1 = t := Option.some.inj ht
      exact ⟨permAfter n a perm c, a, c, h1, hc, by rw [h2, e], by rw [← e]; exact hp⟩
    · rw [if_neg hp] at ht
      have hpiv : (sTol : K) < dd (permAfter n a perm c) a c := by rw [h2]; exact not_le.1 hp
      have hstep := h1.step hc (le_of_lt sTol_pos) hpiv
      rw [h2] at hstep
      exact ih (c + 1) _ _ hstep (by omega) t ht

/-- **cholesky**: the trace hypothesis from the gap hypothesis on `A` -/
theorem unambiguousF_of_gap (p : Problem K) (hG : GapAll p.A (sTol : K)) :
    Chol.UnambiguousF (cholFact p) := by
  intro t ht
  obtain ⟨perm', a', c', hI, hc, rfl, -⟩ := factor_rej (Nf := normalF p.m p.dense) p.n 0 (pmk p.n id)
    (normalMat p.m p.n p.dense)
    (LDLInv.init p.n _ _ _ (fun u v hu hv => normalMat_spec p.m p.n p.dense u v hu hv)) (by omega) t ht
  exact schur_diag_gap hI hG c' (le_refl _) hc

end
end Gama.Ls
