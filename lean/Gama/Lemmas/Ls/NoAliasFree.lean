/-
  Networks whose sparse rows may store SEVERAL coefficients with the same column index (an observation whose two
  end points are the same point: `NoAlias` of `Lemmas/ProjectEquations.lean` fails, `RowsOK.Nodup` fails).

  `project_equations()` assembles the dense design matrix with `A(row, col) += a` (repo fix 52e994b; `Net.denseA`,
  `Net.rowSum`), so on the dense path (gso, svd, cholesky) a repeated column index means the SUM of its coefficients.
  `Net.mergeRows np` is the same network with every row rewritten as the full list `(1, A(i,1)), …, (n, A(i,n))` of the
  summed dense row — distinct in-range columns, so `RowsOK` holds BY CONSTRUCTION — and

      denseA (mergeRows np) = denseA np,   prepare (mergeRows np) = prepare np,   netFull alg (mergeRows np) = netFull alg np:

  `LocalNetwork` configured with a full solver cannot tell the two networks apart.  Hence every network-level theorem stated
  under `RowsOK (toProblem np)` transfers to ANY `np` for gso / svd / cholesky, as a statement about the summed design
  matrix `(toProblem (mergeRows np)).A` (`mergeRows_A`: its entries are those of `denseA np`).

  NOT covered: `--algorithm envelope` on aliased rows.  The C++ sparse path now sums too (`Homogenization::run`
  `T(i,perm[c]) += a` since 6d0f7107, `Envelope::set` since 52e994b; C10's `Cov.Hom.run` follows), but the LS-side model the
  envelope THEOREMS are about (`Ls.Env.homogenize` → `Problem.dense`, `Lemmas/Ls/AdjDense.rowDense`) still reads a repeated
  column as last-write-wins; making it a sum is a change of `Model/Ls/Common.lean` under every solver proof.
-/
import Gama.Lemmas.Ls.NetFacade
namespace Gama.Ls.Net
open Finset Matrix Gama.LS Gama.Ls.AdjM Dn Gama.Ls.Env

set_option linter.unusedSectionVars false
set_option linter.unusedVariables false

section
variable {K : Type} [Field K] [LinearOrder K] [IsStrictOrderedRing K] [SqrtFn K]
attribute [local instance 2000] scalarOfField

/-- every row rewritten as the full summed dense row (the rows `AdjM.dotProblem` builds from a dense matrix) -/
def mergeRows (np : NetProblem K) : NetProblem K :=
  { np with rows := (AdjM.dotProblem (toProblem np) (denseA np) np.rhs .none).rows }

theorem mergeRows_row (np : NetProblem K) (i : Nat) (hi : i < np.m) :
    (mergeRows np).rows.getD i #[] = ((List.range np.n).map fun j => (j + 1, Dn.mget (denseA np) i j)).toArray := by
  show (AdjM.dotProblem (toProblem np) (denseA np) np.rhs .none).rows.getD i #[] = _
  unfold AdjM.dotProblem
  simp only []
  rw [getD_ofFn', dif_pos (show i < (toProblem np).m from hi)]
  rfl

/-- the merged rows have distinct column indices inside `1..n`: `RowsOK` by construction -/
theorem mergeRows_rowsOK (np : NetProblem K) : RowsOK (toProblem (mergeRows np)) := by
  apply RowsOK.of_nodup
  intro i hi
  have hi' : i < np.m := hi
  have e : (toProblem (mergeRows np)).rows.getD i #[]
      = ((List.range np.n).map fun j => (j + 1, Dn.mget (denseA np) i j)).toArray := mergeRows_row np i hi'
  rw [e]
  constructor
  · simp only [List.map_map]
    have : ((fun x : Nat × K => x.1) ∘ fun j => (j + 1, Dn.mget (denseA np) i j)) = fun j => j + 1 := rfl
    rw [this]
    exact (List.nodup_range (n := np.n)).map (fun a b h => Nat.succ.inj h)
  · intro cv hcv
    simp only [List.mem_map, List.mem_range] at hcv
    obtain ⟨j, hj, rfl⟩ := hcv
    exact ⟨Nat.succ_le_succ (Nat.zero_le j), hj⟩

theorem mmk_congr (r c : Nat) (f g : Nat → Nat → K) (h : ∀ i j, i < r → j < c → f i j = g i j) :
    mmk r c f = mmk r c g := by
  unfold mmk
  congr 1
  funext i
  congr 1
  funext j
  exact h i.val j.val i.isLt j.isLt

/-- **the dense design matrix does not see the merge**: `A(row, col) += a` over the merged row gives the same row -/
theorem denseA_mergeRows (np : NetProblem K) : denseA (mergeRows np) = denseA np := by
  show mmk np.m np.n _ = mmk np.m np.n _
  apply mmk_congr
  intro i j hi hj
  have hrow := mergeRows_row np i hi
  show Dn.vget (rowSum np.n ((mergeRows np).rows.getD i #[])) j = Dn.vget (rowSum np.n (np.rows.getD i #[])) j
  have e1 : rowSum np.n ((mergeRows np).rows.getD i #[]) = rowDense np.n ((mergeRows np).rows.getD i #[]).toList := by
    unfold rowSum
    rw [← Array.foldl_toList]
    rfl
  rw [e1, hrow]
  have := rowDense_full np.n (fun j => Dn.mget (denseA np) i j) j hj
  rw [show (((List.range np.n).map fun j => (j + 1, Dn.mget (denseA np) i j)).toArray).toList
      = (List.range np.n).map fun j => (j + 1, Dn.mget (denseA np) i j) from rfl, this]
  unfold denseA
  rw [mget_mmk, if_pos ⟨hi, hj⟩]

/-- `prepareProjectEquations()` does not see the merge -/
theorem prepare_mergeRows (np : NetProblem K) : prepare (mergeRows np) = prepare np := by
  unfold prepare
  rw [denseA_mergeRows]
  rfl

/-- **a `LocalNetwork` with a full solver (gso, svd, cholesky) does not see the merge** -/
theorem netFull_mergeRows (alg : Alg) (np : NetProblem K) : netFull alg (mergeRows np) = netFull alg np := by
  unfold netFull
  rw [prepare_mergeRows]
  rfl

theorem netSolve_mergeRows (alg : Alg) (halg : alg ≠ .env) (np : NetProblem K) :
    netSolve alg (mergeRows np) = netSolve alg np := by
  cases alg with
  | env => exact absurd rfl halg
  | chol => exact netFull_mergeRows .chol np
  | gso => exact netFull_mergeRows .gso np
  | svd => exact netFull_mergeRows .svd np

/-- **the design matrix of the merged network is the summed one**: entry `(i,j)` is `denseA np (i,j)`, the sum of all
    coefficients row `i` stores with column `j+1` (`C10_repeated_columns_dense_sums`) -/
theorem mergeRows_A (np : NetProblem K) (i : Fin (toProblem (mergeRows np)).m) (j : Fin (toProblem (mergeRows np)).n) :
    (toProblem (mergeRows np)).A i j = Dn.mget (denseA np) i.val j.val := by
  rw [← denseA_eq (mergeRows np) (mergeRows_rowsOK np), denseA_mergeRows]
  rfl

/-- for a network that already satisfies `RowsOK` the summed matrix is the original one -/
theorem mergeRows_A_of_rowsOK (np : NetProblem K) (hrows : RowsOK (toProblem np))
    (i : Fin (toProblem np).m) (j : Fin (toProblem np).n) :
    (toProblem (mergeRows np)).A i j = (toProblem np).A i j := by
  rw [mergeRows_A np i j, ← denseA_eq np hrows]
  rfl

end

end Gama.Ls.Net
