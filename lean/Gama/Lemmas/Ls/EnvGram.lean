/-
  Envelope solver, the singular case: for a Gram matrix `N = MᵀM` over an ordered field the
  row-wise `L D Lᵀ` with zeroed pivots is the (unnormalised) Gram–Schmidt process on the
  columns of `M`:  with `q_k = m_k − Σ_{j<k} L(k,j) q_j`
      `⟨m_i, q_k⟩ = y(i,k)`,  `⟨q_j, q_k⟩ = 0 (j ≠ k)`,  `⟨q_k, q_k⟩ = D(k)`.
  Hence `D(k) = 0 → q_k = 0 →` the whole Schur column vanishes (`ZeroCols`) — this is where
  positivity (`Σ squares = 0 → each = 0`) is used — and the forward-substituted right-hand
  side `Mᵀb` vanishes on the zero pivots.
-/
import Gama.Lemmas.Ls.EnvFactor
import Mathlib.Algebra.BigOperators.Fin

namespace Gama.Ls.Env
open Finset

variable {K : Type} [Field K] [LinearOrder K] [IsStrictOrderedRing K]

/-- inner product over the first `m` rows -/
def ip (m : ℕ) (a b : ℕ → K) : K := ∑ r ∈ range m, a r * b r

/-- unnormalised Gram–Schmidt vectors of the columns of `M` with the multipliers `L` -/
def gsq (M : ℕ → ℕ → K) (L : ℕ → ℕ → K) (k : ℕ) (r : ℕ) : K :=
  M r k - ∑ j : Fin k, L k j * gsq M L j r
termination_by k
decreasing_by exact j.2

theorem gsq_eq (M L : ℕ → ℕ → K) (k r : ℕ) :
    gsq M L k r = M r k - ∑ j ∈ range k, L k j * gsq M L j r := by
  rw [gsq, Fin.sum_univ_eq_sum_range (fun j => L k j * gsq M L j r)]

theorem ip_comm (m : ℕ) (a b : ℕ → K) : ip m a b = ip m b a :=
  sum_congr rfl fun _ _ => mul_comm _ _

theorem ip_gsq (m : ℕ) (M L : ℕ → ℕ → K) (a : ℕ → K) (k : ℕ) :
    ip m a (gsq M L k) = ip m a (fun r => M r k) - ∑ j ∈ range k, L k j * ip m a (gsq M L j) := by
  unfold ip
  have : ∀ r, a r * gsq M L k r = a r * M r k - ∑ j ∈ range k, L k j * (a r * gsq M L j r) := by
    intro r
    rw [gsq_eq, mul_sub, mul_sum]
    congr 1
    exact sum_congr rfl fun j _ => by ring
  simp only [this, sum_sub_distrib]
  congr 1
  rw [sum_comm]
  exact sum_congr rfl fun j _ => by rw [mul_sum]

theorem ip_self_eq_zero {m : ℕ} {a : ℕ → K} (h : ip m a a = 0) : ∀ r < m, a r = 0 := by
  intro r hr
  have := (sum_eq_zero_iff_of_nonneg (fun i _ => mul_self_nonneg (a i))).1 h r (mem_range.2 hr)
  exact mul_self_eq_zero.1 this

theorem ip_zero_right {m : ℕ} (a : ℕ → K) {b : ℕ → K} (h : ∀ r < m, b r = 0) : ip m a b = 0 :=
  sum_eq_zero fun r hr => by rw [h r (mem_range.1 hr), mul_zero]

section
variable {m n : ℕ} {M : ℕ → ℕ → K} {N : ℕ → ℕ → K} {L : ℕ → ℕ → K} {D : ℕ → K} {y : ℕ → ℕ → K}

/-- the Gram–Schmidt reading of the factorisation -/
theorem gram_invariant (hN : ∀ i < n, ∀ j < n, N i j = ip m (fun r => M r i) (fun r => M r j))
    (h : IsLDL N n L D y) :
    ∀ k < n, (∀ i, k < i → i < n → ip m (fun r => M r i) (gsq M L k) = y i k)
      ∧ ip m (fun r => M r k) (gsq M L k) = D k
      ∧ (∀ j < k, ip m (gsq M L j) (gsq M L k) = 0)
      ∧ ip m (gsq M L k) (gsq M L k) = D k := by
  intro k
  induction k using Nat.strong_induction_on with
  | _ k ih =>
  intro hk
  -- consequences of the induction hypothesis for j < k
  have hyLD : ∀ j < k, ∀ i, j < i → i < n → y i j = L i j * D j := by
    intro j hj i hji hi
    rw [h.L_eq i hi j hji]
    by_cases h0 : D j = 0
    · obtain ⟨h1, -, -, h4⟩ := ih j hj (hj.trans hk)
      rw [h0] at h4
      have hq := ip_self_eq_zero h4
      rw [← h1 i hji hi, ip_zero_right _ hq]; simp [h0]
    · simp [h0]
  have hmq : ∀ j < k, ∀ i, j < i → i < n → ip m (fun r => M r i) (gsq M L j) = L i j * D j := by
    intro j hj i hji hi
    rw [(ih j hj (hj.trans hk)).1 i hji hi, hyLD j hj i hji hi]
  have hA : ∀ i, k < i → i < n → ip m (fun r => M r i) (gsq M L k) = y i k := by
    intro i hki hi
    rw [ip_gsq, ← hN i hi k hk, h.y_eq i hi k hki]
    congr 1
    refine sum_congr rfl fun j hj => ?_
    have hj' := mem_range.1 hj
    rw [(ih j hj' (hj'.trans hk)).1 i (hj'.trans hki) hi]
  have hB : ip m (fun r => M r k) (gsq M L k) = D k := by
    rw [ip_gsq, ← hN k hk k hk, h.D_eq k hk]
    congr 1
    refine sum_congr rfl fun j hj => ?_
    have hj' := mem_range.1 hj
    rw [hmq j hj' k hj' hk]; ring
  have hC : ∀ j < k, ip m (gsq M L j) (gsq M L k) = 0 := by
    intro j hj
    rw [ip_gsq, ip_comm, hmq j hj k hj hk, sum_eq_single j]
    · rw [(ih j hj (hj.trans hk)).2.2.2]; ring
    · intro l hl hlj
      have hl' := mem_range.1 hl
      rcases Nat.lt_or_gt_of_ne hlj with hlt | hgt
      · rw [ip_comm, (ih j hj (hj.trans hk)).2.2.1 l hlt, mul_zero]
      · rw [(ih l hl' (hl'.trans hk)).2.2.1 j hgt, mul_zero]
    · intro hnot; exact absurd (mem_range.2 hj) hnot
  refine ⟨hA, hB, hC, ?_⟩
  rw [ip_gsq, ip_comm, hB]
  have : ∑ j ∈ range k, L k j * ip m (gsq M L k) (gsq M L j) = 0 := by
    refine sum_eq_zero fun j hj => ?_
    rw [ip_comm, hC j (mem_range.1 hj), mul_zero]
  rw [this, sub_zero]

/-- a zero pivot ⇔ the Gram–Schmidt vector vanishes -/
theorem gram_pivot_zero_iff (hN : ∀ i < n, ∀ j < n, N i j = ip m (fun r => M r i) (fun r => M r j))
    (h : IsLDL N n L D y) {k : ℕ} (hk : k < n) : D k = 0 ↔ ∀ r < m, gsq M L k r = 0 := by
  obtain ⟨-, -, -, h4⟩ := gram_invariant hN h k hk
  constructor
  · intro h0; rw [h0] at h4; exact ip_self_eq_zero h4
  · intro hq; rw [← h4]; exact ip_zero_right _ hq

theorem gram_pivot_nonneg (hN : ∀ i < n, ∀ j < n, N i j = ip m (fun r => M r i) (fun r => M r j))
    (h : IsLDL N n L D y) {k : ℕ} (hk : k < n) : 0 ≤ D k := by
  rw [← (gram_invariant hN h k hk).2.2.2]
  exact sum_nonneg fun r _ => mul_self_nonneg _

/-- **a zero pivot of a Gram matrix has a vanishing Schur column** -/
theorem gram_zeroCols (hN : ∀ i < n, ∀ j < n, N i j = ip m (fun r => M r i) (fun r => M r j))
    (h : IsLDL N n L D y) : ZeroCols n D y := by
  intro i hi j hj h0
  have hjn : j < n := hj.trans hi
  rw [← (gram_invariant hN h j hjn).1 i hj hi]
  exact ip_zero_right _ ((gram_pivot_zero_iff hN h hjn).1 h0)

/-- the forward-substituted `Mᵀb` is `⟨q_k, b⟩`; it vanishes on the zero pivots -/
theorem gram_lower_rhs (b : ℕ → K) {z : ℕ → K}
    (hl : IsLower L n (fun i => ip m (fun r => M r i) b) z) : ∀ k < n, z k = ip m b (gsq M L k) := by
  intro k
  induction k using Nat.strong_induction_on with
  | _ k ih =>
  intro hk
  rw [hl k hk, ip_gsq, ip_comm]
  congr 1
  refine sum_congr rfl fun j hj => ?_
  have hj' := mem_range.1 hj
  rw [ih j hj' (hj'.trans hk)]

theorem gram_lower_rhs_zero (hN : ∀ i < n, ∀ j < n, N i j = ip m (fun r => M r i) (fun r => M r j))
    (h : IsLDL N n L D y) (b : ℕ → K) {z : ℕ → K}
    (hl : IsLower L n (fun i => ip m (fun r => M r i) b) z) : ∀ k < n, D k = 0 → z k = 0 := by
  intro k hk h0
  rw [gram_lower_rhs b hl k hk]
  exact ip_zero_right _ ((gram_pivot_zero_iff hN h hk).1 h0)

end
end Gama.Ls.Env
