/-
  Interfaces between the four loops of `Svd.decompose` (pieces: `SvdDecompStruct.lean`), for the proof
  that a run that returns has produced a factorisation `A = U diag(W) Vᵀ` (`SvdDecompCert.lean`).

  Setting: `K` a linearly ordered field, the model at `𝕊 = fieldScalar sq` (every operation is the
  field's, `==` is equality, so "negligible" means "exactly zero"), `sq` a square root on the
  non-negative elements.  Indices are 1-based as in the code (`mg U i j`, `g1 W i`).

  Householder data left in the arrays by the bidiagonalisation:
    left  step `i`: `uL i` = column `i` of `U` from row `i` down, `bL i = U[i][i]·W[i]`,
                    `PL i = 1 + (bL i)⁻¹ uL uLᵀ`  (`m × m`; the identity when `W[i] = 0`)
    right step `i`: `uR i` = row `i` of `U` from column `i+1` on, `bR i = U[i][i+1]·rv1[i+1]`,
                    `QRm i = 1 + (bR i)⁻¹ uR uRᵀ` (`n × n`; the identity when `rv1[i+1] = 0`)
  (`bL`, `bR` are `h·scale²` of the code; the accumulation loops divide by exactly these products.)

    `Phase1Post` : after the Householder loop   A = (P₁⋯Pₙ) · bidiag(W, rv1) · (Q₁⋯Qₙ)ᵀ
    `Phase2Stmt` : the V-accumulation returns   V = Q₁⋯Qₙ
    `Phase3Stmt` : the U-accumulation returns   U = (P₁⋯P_mn) · [I; 0]
    `QRInv`      : invariant of the diagonalisation   A = U · bidiag(W, rv1) · Vᵀ, VᵀV = 1,
                   UᵀU + ZᵀZ = 1 with Z · bidiag = 0 (ghost `Z`: covers `m < n`, where `U` has
                   `n − m` zero columns that the rotations mix with the others)
    `SearchStmt`, `CancelStmt`, `SweepStmt` : the three inner loops of one pass.
-/
import Gama.Lemmas.Ls.SvdDecompBasic

namespace Gama.Ls.Svd
open Matrix Finset Gama.LS Gama.Ls

set_option linter.unusedSectionVars false
set_option linter.unusedVariables false

variable {K : Type} [Field K] [LinearOrder K] [IsStrictOrderedRing K] (sq : K → K)

local notation "𝕊" => (Gama.LS.fieldScalar sq)

/-! ### Householder data stored in the arrays -/

/-- stored left Householder vector of step `i`: column `i` from row `i` down -/
def uL (m : Nat) (U : DMat K) (i : Nat) : Fin m → K :=
  fun r => if i ≤ r.val + 1 then @mg K 𝕊 U (r.val + 1) i else 0

/-- `h·scale²` of the left step `i`: `U[i][i]·W[i]` -/
def bL (U : DMat K) (w : Nat → K) (i : Nat) : K := @mg K 𝕊 U i i * w i

/-- left reflector of step `i` -/
def PL (m : Nat) (U : DMat K) (w : Nat → K) (i : Nat) : Matrix (Fin m) (Fin m) K :=
  hh (uL sq m U i) (bL sq U w i)

/-- stored right Householder vector of step `i`: row `i` from column `i+1` on -/
def uR (n : Nat) (U : DMat K) (i : Nat) : Fin n → K :=
  fun c => if i + 1 ≤ c.val + 1 then @mg K 𝕊 U i (c.val + 1) else 0

/-- `h·scale²` of the right step `i`: `U[i][i+1]·rv1[i+1]` -/
def bR (U : DMat K) (e : Nat → K) (i : Nat) : K := @mg K 𝕊 U i (i + 1) * e (i + 1)

/-- right reflector of step `i` -/
def QRm (n : Nat) (U : DMat K) (e : Nat → K) (i : Nat) : Matrix (Fin n) (Fin n) K :=
  hh (uR sq n U i) (bR sq U e i)

/-! ### the two Householder half-steps (function level) -/

/-- result of the LEFT half-step `i` (`hhCol`): `U'` the array after it, `w = scale·g` the value
    stored in `W[i]`.  With `u` = column `i` of `U'` from row `i` down and `β = U'[i][i]·w`:
    every column `b > i` of the trailing block has been multiplied by `1 + β⁻¹ u uᵀ`, and the same
    reflection sends column `i` of `U` to `w·e_i` (the code does not store that column). -/
structure HhColPost (m n i : Nat) (U U' : DMat K) (w : K) : Prop where
  wf : MWF m n U'
  frame : ∀ a b, (a < i ∨ b < i) → @mg K 𝕊 U' a b = @mg K 𝕊 U a b
  orth : @mg K 𝕊 U' i i * w = 0 ∨
    ∑ a ∈ Icc i m, @mg K 𝕊 U' a i * @mg K 𝕊 U' a i = -2 * (@mg K 𝕊 U' i i * w)
  nz : w ≠ 0 → @mg K 𝕊 U' i i ≠ 0
  cols : ∀ a b, i ≤ a → a ≤ m → i + 1 ≤ b → b ≤ n →
    @mg K 𝕊 U' a b = @mg K 𝕊 U a b
      + (@mg K 𝕊 U' i i * w)⁻¹ * (∑ r ∈ Icc i m, @mg K 𝕊 U' r i * @mg K 𝕊 U r b) * @mg K 𝕊 U' a i
  coli : ∀ a, i ≤ a → a ≤ m →
    @mg K 𝕊 U a i
      + (@mg K 𝕊 U' i i * w)⁻¹ * (∑ r ∈ Icc i m, @mg K 𝕊 U' r i * @mg K 𝕊 U r i) * @mg K 𝕊 U' a i
      = if a = i then w else 0
  wz : m < i → w = 0

/-- **left half-step** (file `SvdDecompHhCol.lean`); `r = (U', g, scale, s, f, h)` -/
def HhColStmt : Prop :=
  (∀ x : K, 0 ≤ x → sq x * sq x = x) → (∀ x : K, 0 ≤ x → 0 ≤ sq x) →
  ∀ (m n i : Nat) (U : DMat K) (f0 h0 : K) (r : DMat K × K × K × K × K × K),
    MWF m n U → 1 ≤ i → i ≤ n →
    @hhCol K 𝕊 m n i (i + 1) U f0 h0 = .ok r →
    HhColPost sq m n i U r.1 (r.2.2.1 * r.2.1)

/-- result of the RIGHT half-step `i` (`hhRow`): `w = scale·g` is the value that the next iteration
    stores in `rv1[i+1]`; `rv1` is used as scratch in positions `i+1..n` -/
structure HhRowPost (m n i : Nat) (U U' : DMat K) (rv1 rv1' : Array K) (w : K) : Prop where
  wf : MWF m n U'
  wfr : rv1'.size = n
  frame : ∀ a b, (a < i ∨ b < i + 1) → @mg K 𝕊 U' a b = @mg K 𝕊 U a b
  framer : ∀ c, c ≤ i → @g1 K 𝕊 rv1' c = @g1 K 𝕊 rv1 c
  orth : @mg K 𝕊 U' i (i + 1) * w = 0 ∨
    ∑ b ∈ Icc (i + 1) n, @mg K 𝕊 U' i b * @mg K 𝕊 U' i b = -2 * (@mg K 𝕊 U' i (i + 1) * w)
  rows : ∀ a b, i + 1 ≤ a → a ≤ m → i + 1 ≤ b → b ≤ n →
    @mg K 𝕊 U' a b = @mg K 𝕊 U a b
      + (@mg K 𝕊 U' i (i + 1) * w)⁻¹ * (∑ c ∈ Icc (i + 1) n, @mg K 𝕊 U a c * @mg K 𝕊 U' i c) * @mg K 𝕊 U' i b
  rowi : ∀ b, i + 1 ≤ b → b ≤ n →
    @mg K 𝕊 U i b
      + (@mg K 𝕊 U' i (i + 1) * w)⁻¹ * (∑ c ∈ Icc (i + 1) n, @mg K 𝕊 U i c * @mg K 𝕊 U' i c) * @mg K 𝕊 U' i b
      = if b = i + 1 then w else 0
  wz : (m < i ∨ i = n) → w = 0

/-- **right half-step** (file `SvdDecompHhRow.lean`); `r = (U', rv1', g, scale, s, f, h)` -/
def HhRowStmt : Prop :=
  (∀ x : K, 0 ≤ x → sq x * sq x = x) → (∀ x : K, 0 ≤ x → 0 ≤ sq x) →
  ∀ (m n i : Nat) (U : DMat K) (rv1 : Array K) (f0 h0 : K) (r : DMat K × Array K × K × K × K × K × K),
    MWF m n U → rv1.size = n → 1 ≤ i → i ≤ n →
    @hhRow K 𝕊 m n i (i + 1) U rv1 f0 h0 = .ok r →
    HhRowPost sq m n i U r.1 rv1 r.2.1 (r.2.2.2.1 * r.2.2.1)

/-! ### phase 1 -/

/-- what the Householder loop leaves behind (`U`, `W`, `rv1` of its final state) -/
structure Phase1Post (m n : Nat) (A U : DMat K) (W rv1 : Array K) : Prop where
  wfU : MWF m n U
  wfW : W.size = n
  wfr : rv1.size = n
  r1 : @g1 K 𝕊 rv1 1 = 0
  hL : ∀ i, 1 ≤ i → i ≤ n → bL sq U (@g1 K 𝕊 W) i = 0 ∨
    uL sq m U i ⬝ᵥ uL sq m U i = -2 * bL sq U (@g1 K 𝕊 W) i
  hL0 : ∀ i, 1 ≤ i → i ≤ n → @g1 K 𝕊 W i ≠ 0 → @mg K 𝕊 U i i ≠ 0
  hR : ∀ i, 1 ≤ i → i ≤ n → bR sq U (@g1 K 𝕊 rv1) i = 0 ∨
    uR sq n U i ⬝ᵥ uR sq n U i = -2 * bR sq U (@g1 K 𝕊 rv1) i
  Wz : ∀ i, m < i → @g1 K 𝕊 W i = 0
  rz : ∀ i, m + 1 < i → @g1 K 𝕊 rv1 i = 0
  fact : toMatrix m n A
    = prodFrom (PL sq m U (@g1 K 𝕊 W)) 1 n * bidiagMN m n (@g1 K 𝕊 W) (@g1 K 𝕊 rv1)
        * (prodFrom (QRm sq n U (@g1 K 𝕊 rv1)) 1 n)ᵀ

/-- initial state of the Householder loop -/
def init1 (m n : Nat) (A : DMat K) : St1 K :=
  (@mmk K m n (@mget K 𝕊 A), Array.replicate n 0, Array.replicate n 0, 0, 0, 0, 0, 0, 0, 0)

/-- **phase 1** (file `SvdDecompBidiag.lean`) -/
def Phase1Stmt : Prop :=
  (∀ x : K, 0 ≤ x → sq x * sq x = x) → (∀ x : K, 0 ≤ x → 0 ≤ sq x) →
  ∀ (m n : Nat) (A : DMat K) (st : St1 K),
    forIn [1:n+1] (init1 sq m n A) (@bidiagBody K 𝕊 m n) = .ok st →
    Phase1Post sq m n A st.1 st.2.1 st.2.2.1

/-! ### phases 2 and 3 -/

/-- **phase 2** (file `SvdDecompAccV.lean`): the accumulation of the right-hand transformations
    computes `Q₁ ⋯ Qₙ` from the stored vectors -/
def Phase2Stmt : Prop :=
  ∀ (m n : Nat) (U : DMat K) (rv1 : Array K) (g0 s0 : K) (L0 : Nat) (st : DMat K × K × K × Nat),
    MWF m n U → rv1.size = n →
    forIn [0:n] ((Array.replicate n (Array.replicate n (0 : K)), g0, s0, L0) : DMat K × K × K × Nat)
      (@accVBody K 𝕊 n U rv1) = .ok st →
    MWF n n st.1 ∧ toMatrix n n st.1 = prodFrom (QRm sq n U (@g1 K 𝕊 rv1)) 1 n

/-- **phase 3** (file `SvdDecompAccU.lean`): the accumulation of the left-hand transformations
    computes the first `n` columns of `P₁ ⋯ P_mn`, `mn = min m n` -/
def Phase3Stmt : Prop :=
  ∀ (m n : Nat) (U : DMat K) (W : Array K) (g0 s0 f0 : K) (L0 : Nat) (st : DMat K × K × K × K × Nat),
    MWF m n U → W.size = n →
    (∀ i, 1 ≤ i → i ≤ n → @g1 K 𝕊 W i ≠ 0 → @mg K 𝕊 U i i ≠ 0) →
    forIn [0:(if m < n then m else n)] ((U, g0, s0, f0, L0) : DMat K × K × K × K × Nat)
      (@accUBody K 𝕊 m n (if m < n then m else n) W) = .ok st →
    MWF m n st.1 ∧
      toMatrix m n st.1 = prodFrom (PL sq m U (@g1 K 𝕊 W)) 1 (if m < n then m else n) * eyeMN m n

/-! ### phase 4 -/

/-- invariant of the diagonalisation -/
structure QRInv (m n : Nat) (A U : DMat K) (W : Array K) (V : DMat K) (rv1 : Array K) : Prop where
  wfU : MWF m n U
  wfV : MWF n n V
  wfW : W.size = n
  wfr : rv1.size = n
  r1 : @g1 K 𝕊 rv1 1 = 0
  fact : toMatrix m n A = toMatrix m n U * bidiagN n (@g1 K 𝕊 W) (@g1 K 𝕊 rv1) * (toMatrix n n V)ᵀ
  vtv : (toMatrix n n V)ᵀ * toMatrix n n V = 1
  utu : ∃ Z : Matrix (Fin n) (Fin n) K, (toMatrix m n U)ᵀ * toMatrix m n U + Zᵀ * Z = 1 ∧
    Z * bidiagN n (@g1 K 𝕊 W) (@g1 K 𝕊 rv1) = 0

/-- **test for splitting** (file `SvdDecompCancel.lean`): the search returns the largest `L ≤ k` with
    `rv1[L] = 0` (`viaGoto`) or `W[L-1] = 0` -/
def SearchStmt : Prop :=
  ∀ (k : Nat) (sOne : K) (W rv1 : Array K) (L10 : Nat) (r : Nat × Nat × Bool × Bool),
    1 ≤ k → @g1 K 𝕊 rv1 1 = 0 →
    forIn [0:k] ((0, L10, false, false) : Nat × Nat × Bool × Bool) (@searchBody K 𝕊 k sOne W rv1) = .ok r →
    1 ≤ r.1 ∧ r.1 ≤ k ∧
    (∀ j, r.1 < j → j ≤ k → @g1 K 𝕊 rv1 j ≠ 0 ∧ @g1 K 𝕊 W (j - 1) ≠ 0) ∧
    (r.2.2.1 = true → @g1 K 𝕊 rv1 r.1 = 0) ∧
    (r.2.2.1 = false → @g1 K 𝕊 rv1 r.1 ≠ 0 ∧ @g1 K 𝕊 W (r.1 - 1) = 0 ∧ r.2.1 = r.1 - 1 ∧ 2 ≤ r.1)

/-- **cancellation** (file `SvdDecompCancel.lean`): with `W[L-1] = 0` the rotations of columns `L-1`, `i`
    (`i = L..k`) of `U` annihilate `rv1[L]` and keep the invariant; nothing outside `L..k` changes -/
def CancelStmt : Prop :=
  (∀ x : K, 0 ≤ x → sq x * sq x = x) → (∀ x : K, 0 ≤ x → 0 ≤ sq x) →
  ∀ (m n : Nat) (A U : DMat K) (W : Array K) (V : DMat K) (rv1 : Array K) (k L : Nat) (sOne g f h : K) (r : StC K),
    QRInv sq m n A U W V rv1 → 2 ≤ L → L ≤ k → k ≤ n →
    @g1 K 𝕊 W (L - 1) = 0 → @g1 K 𝕊 rv1 (k + 1) = 0 → @g1 K 𝕊 rv1 L ≠ 0 →
    (∀ j, L < j → j ≤ k → @g1 K 𝕊 rv1 j ≠ 0 ∧ @g1 K 𝕊 W (j - 1) ≠ 0) →
    forIn [L:k+1] ((U, W, rv1, g, 1, f, h, 0, false) : StC K) (@cancelBody K 𝕊 m (L - 1) sOne) = .ok r →
    QRInv sq m n A r.1 r.2.1 V r.2.2.1 ∧
    @g1 K 𝕊 r.2.2.1 L = 0 ∧
    (∀ j, (j < L ∨ k < j) → @g1 K 𝕊 r.2.2.1 j = @g1 K 𝕊 rv1 j ∧ @g1 K 𝕊 r.2.1 j = @g1 K 𝕊 W j) ∧
    (∀ j, L < j → j ≤ k → @g1 K 𝕊 r.2.2.1 j ≠ 0 ∧ @g1 K 𝕊 r.2.1 (j - 1) ≠ 0)

/-- **sign flip** (file `SvdDecompCancel.lean`): `W[k] < 0`, `rv1[k] = 0`: negating `W[k]` and column `k`
    of `V` keeps the invariant -/
def FlipStmt : Prop :=
  ∀ (m n : Nat) (A U : DMat K) (W : Array K) (V : DMat K) (rv1 : Array K) (k : Nat) (V' : DMat K),
    QRInv sq m n A U W V rv1 → 1 ≤ k → k ≤ n → @g1 K 𝕊 rv1 k = 0 →
    forIn [1:n+1] V (fun j V =>
      (pure (ForInStep.yield (ms V j k (-(@mg K 𝕊 V j k)))) : Except ErrKind (ForInStep (DMat K)))) = .ok V' →
    QRInv sq m n A U (s1 W k (-(@g1 K 𝕊 W k))) V' rv1

/-- **one QR sweep** (file `SvdDecompSweep.lean`) on the unreduced block `L..k` (`rv1[L] = 0`,
    `rv1[L+1..k] ≠ 0`, `W[L..k-1] ≠ 0`), whatever the shift `f0`: after the final assignments
    `rv1[L] = 0; rv1[k] = f; W[k] = x` the invariant holds again; nothing beyond `k` changes -/
def SweepStmt : Prop :=
  (∀ x : K, 0 ≤ x → sq x * sq x = x) → (∀ x : K, 0 ≤ x → 0 ≤ sq x) →
  ∀ (m n : Nat) (A U : DMat K) (W : Array K) (V : DMat K) (rv1 : Array K) (k L : Nat) (g0 f0 h0 y0 z0 : K)
    (r : StQ K),
    QRInv sq m n A U W V rv1 → 1 ≤ L → L < k → k ≤ n →
    @g1 K 𝕊 rv1 L = 0 → @g1 K 𝕊 rv1 (k + 1) = 0 →
    (∀ j, L < j → j ≤ k → @g1 K 𝕊 rv1 j ≠ 0 ∧ @g1 K 𝕊 W (j - 1) ≠ 0) →
    forIn [L:k-1+1] ((U, W, V, rv1, g0, 1, f0, h0, 1, @g1 K 𝕊 W L, y0, z0) : StQ K) (@sweepBody K 𝕊 m n) = .ok r →
    QRInv sq m n A r.1 (s1 r.2.1 k r.2.2.2.2.2.2.2.2.2.1) r.2.2.1
        (s1 (s1 r.2.2.2.1 L 0) k r.2.2.2.2.2.2.1) ∧
    (∀ j, k < j →
      @g1 K 𝕊 (s1 (s1 r.2.2.2.1 L 0) k r.2.2.2.2.2.2.1) j = @g1 K 𝕊 rv1 j ∧
      @g1 K 𝕊 (s1 r.2.1 k r.2.2.2.2.2.2.2.2.2.1) j = @g1 K 𝕊 W j)

end Gama.Ls.Svd
