/-
  The single hypothesis `RankGap A P S τ` on the ORIGINAL `(A, P, S)` lifted through the façades
  (gap #6, second half; C01 row 9 "Missing 2"):

    * envelope as run (`envSolve`: `Env.homogenize` + reverse Cuthill–McKee + `envCore`):
      `Env.SolveUnambiguous p ∧ Env.SolveGSUnambiguous p`;
    * class `Adj` (`AdjM.homogenise`, then the solver on `dotProblem p Ad bd (regOf p.reg)`): the
      system the solver gets is `(W A, W b)` with `WᵀW = P`, `W` injective and the SAME subset, so
      `GapAll (W A) τ ∧ SMargin (W A) S τ` (`GapAllP.whiten`, `SMargin.whiten`) — hence the trace
      hypotheses of cholesky (`UnambiguousF`, `GsUnamb`, also for the list of all unknowns) and of
      gso (`Gso.Unambiguous`) on that system.

  The `LocalNetwork` façade (`Net.prepare`) is lifted in `Props/C01/Gap2.lean` from
  `C01_net_prepare` (same shape).
-/
import Gama.Lemmas.Ls.Gap2Env
import Gama.Lemmas.Ls.Gap2Chol
import Gama.Lemmas.Ls.Gap2Gso
import Gama.Lemmas.Ls.ComposeGapChol
import Gama.Lemmas.Ls.ComposeAdj
import Gama.Lemmas.Ls.AdjCov

namespace Gama.Ls
open Finset Matrix Gama.LS Gama.Ls.AdjM Gama.Ls.Env

set_option linter.unusedSectionVars false
set_option linter.unusedVariables false

section sqrtFn
variable {K : Type} [Field K] [LinearOrder K] [IsStrictOrderedRing K] [SqrtFn K]
attribute [local instance 2000] scalarOfField

theorem GapAllP.mono {m n : ℕ} {A : Matrix (Fin m) (Fin n) K} {P : Matrix (Fin m) (Fin m) K} {τ τ' : K}
    (h : GapAllP A P τ) (hτ : τ' ≤ τ) : GapAllP A P τ' := by
  intro k β hk ho
  rcases h k β hk ho with h0 | hgt
  · exact Or.inl h0
  · exact Or.inr (lt_of_le_of_lt hτ hgt)

/-- **envelope as run: both trace premises from ONE hypothesis on `(A, P, S)`** -/
theorem Env.solve_unambiguous_of_rankGap (hsq : IsSqrt (SqrtFn.sq : K → K)) (p : Problem K)
    (hin : Env.InputOK p) (hreg : Env.RegListOK p) (P : Matrix (Fin p.m) (Fin p.m) K) (hP : p.C * P = 1)
    {τ : K} (hτ : (Env.sqrtEps : K) ≤ τ) (h : RankGap p.A P p.S τ) :
    Env.SolveUnambiguous p ∧ Env.SolveGSUnambiguous p := by
  have hU : Env.SolveUnambiguous p := Env.solveUnambiguous_of_gap hsq p hin P hP (h.1.mono hτ)
  refine ⟨hU, ?_⟩
  intro hh hhom
  obtain ⟨hO, W, hW, hWinj, hAt, -, -⟩ := Env.solve_setup hsq p hin P hP hh hhom
  exact gsUnambiguous_of_margin (SqrtFn.sq : K → K) (Env.sqrtEps : K) (Env.sqrtEps : K) p.m hh.At hh.bt _ hsq
    p.dense p.reg hO (hU hh hhom) hWinj hAt (Env.regOK_of p hreg hO) hτ h.2

/-- what `Adj` hands a full solver: `(W A, ·)` with `WᵀW = P`, `W` injective, same subset -/
theorem adj_dot_whitened (p : Problem K) (hsq : SqrtExactP p) (hdim : (dimsOf p).sum = p.m)
    (P : Matrix (Fin p.m) (Fin p.m) K) (hP : p.C * P = 1) (Ad : DMat K) (bd : Array K)
    (hh : homogenise p = .ok (Ad, bd)) :
    ∃ W : Matrix (Fin p.m) (Fin p.m) K, Wᵀ * W = P ∧ (∀ d, W *ᵥ d = 0 → d = 0) ∧
      (dotProblem p Ad bd (regOf p.reg)).A = W * p.A ∧ (dotProblem p Ad bd (regOf p.reg)).S = p.S := by
  obtain ⟨Lg, hC, hLA, -⟩ := homogenise_spec p hsq hdim Ad bd hh
  rw [Cadj_eq_C p hdim] at hC
  set Linv := Lgᵀ * P with hLinv
  have h1 : Lg * Linv = 1 := by rw [hLinv, ← Matrix.mul_assoc, hC, hP]
  have h2 : Linv * Lg = 1 := mul_eq_one_comm.1 h1
  refine ⟨Linv, whiten_of_chol hC.symm h2 hP, ?_, ?_, regOf_toFinset p.n p.reg⟩
  · intro d hd
    have : Lg *ᵥ (Linv *ᵥ d) = d := by rw [mulVec_mulVec, h1, one_mulVec]
    rw [← this, hd, mulVec_zero]
  · rw [dotProblem_A, ← hLA, ← Matrix.mul_assoc, h2, Matrix.one_mul]

/-- the hypothesis on `(A, P, S)` becomes the unweighted one of the system `Adj` hands over -/
theorem adj_dot_rankGap (p : Problem K) (hsq : SqrtExactP p) (hdim : (dimsOf p).sum = p.m)
    (P : Matrix (Fin p.m) (Fin p.m) K) (hP : p.C * P = 1) {τ : K} (h : RankGap p.A P p.S τ)
    (Ad : DMat K) (bd : Array K) (hh : homogenise p = .ok (Ad, bd)) :
    GapAll (dotProblem p Ad bd (regOf p.reg)).A τ ∧
      SMargin (dotProblem p Ad bd (regOf p.reg)).A (dotProblem p Ad bd (regOf p.reg)).S τ := by
  obtain ⟨W, hW, hWinj, hA, hS⟩ := adj_dot_whitened p hsq hdim P hP Ad bd hh
  rw [hA, hS]
  exact h.whiten hW hWinj

/-- the same problem with all unknowns in the list: the margin holds for every `τ² < 1` -/
theorem sMargin_all (p : Problem K) {τ : K} (hτ : τ * τ < 1) :
    SMargin ({ p with reg := .all } : Problem K).A ({ p with reg := .all } : Problem K).S τ := by
  have e : ({ p with reg := .all } : Problem K).S = Finset.univ := by
    ext i; simp [Problem.S, Reg.toFinset]
  rw [e]
  exact SMargin.univ hτ

/-- **cholesky, both stages, from the unweighted hypothesis on the system it is given** -/
theorem chol_unambiguous_of_gap2 (p : Problem K) (hsq : Chol.GsSqrtExact p) {τ : K}
    (hτ1 : (Chol.sTol : K) ≤ τ) (hτ2 : (Chol.sTol : K) ≤ τ * τ) (hG : GapAll p.A τ) (hM : SMargin p.A p.S τ) :
    Chol.UnambiguousF (cholFact p) ∧ Chol.GsUnamb p := by
  have hU := unambiguousF_of_gap p (hG.mono hτ1)
  exact ⟨hU, Chol.gsUnamb_of_margin p hU hsq hτ2 hM⟩

end sqrtFn

section sqrtField
variable {K : Type} [Field K] [LinearOrder K] [IsStrictOrderedRing K] [Gso.SqrtField K]
attribute [local instance] sqrtFnOfSqrtField
attribute [local instance 2000] scalarOfField

/-- **gso, both orthogonalisations, from the unweighted hypothesis** (`τ ≤ 1`: the first phase
    compares norms with the tolerance, the hypothesis is on squared norms) -/
theorem gso_unambiguous_of_gap2 (p : Problem K) {τ : K} (hτ0 : 0 ≤ τ) (hτg : (Gso.tolerance : K) ≤ τ)
    (hτ1 : τ ≤ 1) (hG : GapAll p.A τ) (hM : SMargin p.A p.S τ) : Gso.Unambiguous p :=
  Gso.gso_unambiguous_of_gapAll_margin p τ hτ0 hτg
    (hG.mono (by calc τ * τ ≤ τ * 1 := mul_le_mul_of_nonneg_left hτ1 hτ0
                    _ = τ := mul_one τ)) hM

/-- the thresholds one `τ` has to dominate so that `RankGap A P S τ` feeds all three solvers:
    the envelope's `sqrt(eps)` (factorisation pivots and Gram–Schmidt norms), cholesky's `s_tol`
    (pivots, and SQUARED `S`-norms — hence `s_tol ≤ τ²`), the tolerance of `ICGS` (norms), and
    `τ ≤ 1` (gso's first phase compares norms, the gap is on squared norms) -/
structure GapThresholds (τ : K) : Prop where
  env : (Env.sqrtEps : K) ≤ τ
  chol : (Chol.sTol : K) ≤ τ * τ
  gso : (Gso.tolerance : K) ≤ τ
  le_one : τ ≤ 1

theorem GapThresholds.nonneg {τ : K} (h : GapThresholds τ) : 0 ≤ τ :=
  le_trans (le_of_lt Env.sqrtEps_pos) h.env

theorem GapThresholds.chol1 {τ : K} (h : GapThresholds τ) : (Chol.sTol : K) ≤ τ :=
  le_trans h.chol (by calc τ * τ ≤ τ * 1 := mul_le_mul_of_nonneg_left h.le_one h.nonneg
                         _ = τ := mul_one τ)

theorem GapThresholds.lt_one_sq {τ : K} (h : GapThresholds τ) (h1 : τ < 1) : τ * τ < 1 := by
  calc τ * τ ≤ τ * 1 := mul_le_mul_of_nonneg_left h.le_one h.nonneg
    _ = τ := mul_one τ
    _ < 1 := h1

/-- `τ = 2⁻¹³` meets all thresholds with the codes' default tolerances (`s_tol = sqrt(eps) = 2⁻²⁶`,
    `ICGS` tolerance `2⁻⁵²·10⁵`), over every ordered field -/
theorem gapThresholds_default : GapThresholds (1 / 8192 : K) := by
  refine ⟨?_, ?_, ?_, ?_⟩
  · show (1 : K) / ((67108864 : ℕ) : K) ≤ 1 / 8192
    norm_num
  · show ((1 : ℕ) : K) / ((67108864 : ℕ) : K) ≤ 1 / 8192 * (1 / 8192)
    norm_num
  · show (1 / ((2 ^ 52 : ℕ) : K) * ((100000 : ℕ) : K)) ≤ 1 / 8192
    norm_num
  · norm_num

/-- so does `τ = 1/2` -/
theorem gapThresholds_half : GapThresholds (1 / 2 : K) := by
  refine ⟨?_, ?_, ?_, ?_⟩
  · show (1 : K) / ((67108864 : ℕ) : K) ≤ 1 / 2
    norm_num
  · show ((1 : ℕ) : K) / ((67108864 : ℕ) : K) ≤ 1 / 2 * (1 / 2)
    norm_num
  · show (1 / ((2 ^ 52 : ℕ) : K) * ((100000 : ℕ) : K)) ≤ 1 / 2
    norm_num
  · norm_num

end sqrtField
end Gama.Ls
