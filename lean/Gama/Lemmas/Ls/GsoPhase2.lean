/-
  Gram–Schmidt invariant library (DESIGN §5.2), part 3: `icgs2` — the column-pointer moves,
  the second orthogonalisation over the rows in `minx`, the zeroing; and the state after
  `icgs1(); icgs2();` (`Final`).
-/
import Gama.Lemmas.Ls.GsoPhase1
import Mathlib.Data.List.Nodup
import Mathlib.LinearAlgebra.Span.Basic

namespace Gama.Ls.Gso
open Gama Finset

set_option linter.unusedSectionVars false

-- ------------------------------------------------------------------ pointer moves

section Ptr
variable {α : Type}

theorem swapAt_eq (l : List α) {i j : Nat} (hi : i < l.length) (hj : j < l.length) :
    swapAt l i j = (l.set i l[j]).set j l[i] := by
  simp [swapAt, List.getElem?_eq_getElem hi, List.getElem?_eq_getElem hj]

theorem swapAt_perm (l : List α) (i j : Nat) : (swapAt l i j).Perm l := by
  by_cases hi : i < l.length
  · by_cases hj : j < l.length
    · rw [swapAt_eq l hi hj]; exact List.set_set_perm hi hj
    · simp [swapAt, List.getElem?_eq_none (Nat.le_of_not_lt hj)]
  · simp [swapAt, List.getElem?_eq_none (Nat.le_of_not_lt hi)]

theorem length_swapAt (l : List α) (i j : Nat) : (swapAt l i j).length = l.length :=
  (swapAt_perm l i j).length_eq

theorem getElem?_swapAt_left (l : List α) {i j : Nat} (hi : i < l.length) (hj : j < l.length) :
    (swapAt l i j)[i]? = l[j]? := by
  rw [swapAt_eq l hi hj, List.getElem?_set]
  by_cases h : j = i
  · subst h; simp [hj]
  · rw [if_neg h, List.getElem?_set]; simp [hi, List.getElem?_eq_getElem hj]

theorem getElem?_swapAt_of_ne (l : List α) {i j k : Nat} (hk1 : k ≠ i) (hk2 : k ≠ j) :
    (swapAt l i j)[k]? = l[k]? := by
  by_cases hi : i < l.length
  · by_cases hj : j < l.length
    · rw [swapAt_eq l hi hj, List.getElem?_set, if_neg (Ne.symm hk2), List.getElem?_set,
        if_neg (Ne.symm hk1)]
    · simp [swapAt, List.getElem?_eq_none (Nat.le_of_not_lt hj)]
  · simp [swapAt, List.getElem?_eq_none (Nat.le_of_not_lt hi)]

theorem movePtrsAux_spec (zs : List Nat) : ∀ (t : Nat) (l : List α), zs.Pairwise (· < ·) →
    (∀ z ∈ zs, t + 1 ≤ z ∧ z ≤ l.length) →
    (movePtrsAux t l zs).Perm l ∧ (∀ i, i < t → (movePtrsAux t l zs)[i]? = l[i]?) ∧
    (∀ k z, zs[k]? = some z → (movePtrsAux t l zs)[t + k]? = l[z - 1]?) := by
  induction zs with
  | nil => intro t l _ _; simp [movePtrsAux]
  | cons z zs ih =>
    intro t l hs hz
    have hz0 := hz z (by simp)
    have hpw := List.pairwise_cons.1 hs
    have ht : t < l.length := by omega
    have hz1 : z - 1 < l.length := by omega
    simp only [movePtrsAux]
    obtain ⟨h1, h2, h3⟩ := ih (t + 1) (swapAt l t (z - 1)) hpw.2 (by
      intro z' hz'
      have := hpw.1 z' hz'
      have := hz z' (by simp [hz'])
      rw [length_swapAt]; omega)
    refine ⟨h1.trans (swapAt_perm _ _ _), ?_, ?_⟩
    · intro i hi
      rw [h2 i (by omega), getElem?_swapAt_of_ne l (by omega) (by omega)]
    · intro k z' hk
      cases k with
      | zero =>
        simp only [List.getElem?_cons_zero, Option.some.injEq] at hk
        subst hk
        show (movePtrsAux (t + 1) (swapAt l t (z - 1)) zs)[t]? = l[z - 1]?
        rw [h2 t (by omega), getElem?_swapAt_left l ht hz1]
      | succ k =>
        simp only [List.getElem?_cons_succ] at hk
        have hmem : z' ∈ zs := List.mem_of_getElem? hk
        have := hpw.1 z' hmem
        rw [show t + (k + 1) = t + 1 + k by omega, h3 k z' hk,
          getElem?_swapAt_of_ne l (by omega) (by omega)]

theorem movePtrs_spec (l : List α) (zs : List Nat) (hs : zs.Pairwise (· < ·))
    (hz : ∀ z ∈ zs, 1 ≤ z ∧ z ≤ l.length) :
    (movePtrs l zs).Perm l ∧ (∀ (k z : Nat), zs[k]? = some z → (movePtrs l zs)[k]? = l[z - 1]?) := by
  obtain ⟨h1, _, h3⟩ := movePtrsAux_spec zs 0 l hs (by simpa using hz)
  exact ⟨h1, fun k z hk => by simpa [movePtrs] using h3 k z hk⟩

end Ptr

variable {K : Type} [Field K] [LinearOrder K] [IsStrictOrderedRing K] [SqrtField K]

-- ------------------------------------------------------------------ second orthogonalisation

/-- `A · k = 0`, row by row -/
def KerA (a : Nat → Nat → K) (M N : Nat) (k : List K) : Prop :=
  ∀ r, r < M → ∑ j ∈ range N, a r j * k.getD j 0 = 0

theorem lin_rowA (a : Nat → Nat → K) (N r : Nat) (p q : List K) (s : K)
    (hp : p.length = N) (hq : q.length = N) :
    (∑ j ∈ range N, a r j * (vaxpy p s q).getD j 0)
      = (∑ j ∈ range N, a r j * p.getD j 0) - s * ∑ j ∈ range N, a r j * q.getD j 0 := by
  rw [mul_sum, ← sum_sub_distrib]
  refine sum_congr rfl fun j _ => ?_
  rw [getD_vaxpy _ _ _ _ (hp.trans hq.symm)]; ring

theorem getD_of_all_zero {l : List K} (h : ∀ x ∈ l, x = 0) (i : Nat) : l.getD i 0 = 0 := by
  by_cases hi : i < l.length
  · simp only [List.getD_eq_getElem?_getD, List.getElem?_eq_getElem hi, Option.getD_some]
    exact h _ (List.getElem_mem hi)
  · simp [List.getD_eq_getElem?_getD, List.getElem?_eq_none (Nat.le_of_not_lt hi)]

theorem length_orth2 {N : Nat} (mask : List Bool) (ks : List (List K)) (p : List K)
    (hp : p.length = N) (hk : ∀ k ∈ ks, k.length = N) : (orth2 mask ks p).length = N := by
  unfold orth2 cgs2
  exact length_subAllB _ _ _ (length_subAllB _ _ _ hp hk) hk

theorem orth2_orth {N : Nat} (mask : List Bool) (ks : List (List K))
    (h : GSOk N (dotM mask) ks) (p : List K) (hp : p.length = N) :
    ∀ k ∈ ks, dotM mask (orth2 mask ks p) k = 0 := by
  unfold orth2
  have hp1 : (cgs2 mask ks p).length = N := by
    unfold cgs2; exact length_subAllB _ _ _ hp h.len
  show ∀ k ∈ ks, dotM mask (subAllB (cgs2 mask ks p) (ks.map (dotM mask (cgs2 mask ks p))) ks) k = 0
  exact cgs_orth (isForm_dotM N mask) ks h _ hp1 _ (fun _ _ => rfl)

theorem lin_orth2 {N : Nat} (mask : List Bool) (φ : List K → K)
    (hφ : ∀ p q r, p.length = N → q.length = N → φ (vaxpy p r q) = φ p - r * φ q)
    (ks : List (List K)) (p : List K) (hp : p.length = N)
    (hk : ∀ k ∈ ks, k.length = N ∧ φ k = 0) : φ (orth2 mask ks p) = φ p := by
  unfold orth2 cgs2
  rw [lin_subAllB φ hφ _ _ _ (length_subAllB _ _ _ hp fun k hk' => (hk k hk').1) hk,
    lin_subAllB φ hφ _ _ _ hp hk]

theorem KerA.orth2 {a : Nat → Nat → K} {M N : Nat} (mask : List Bool) (ks : List (List K))
    (p : List K) (hp : p.length = N) (hk : ∀ k ∈ ks, k.length = N ∧ KerA a M N k) (r : Nat)
    (hr : r < M) :
    ∑ j ∈ range N, a r j * (Gso.orth2 mask ks p).getD j 0 = ∑ j ∈ range N, a r j * p.getD j 0 :=
  lin_orth2 mask (fun v => ∑ j ∈ range N, a r j * v.getD j 0)
    (fun p q s hp hq => lin_rowA a N r p q s hp hq) ks p hp fun k hk' => ⟨(hk k hk').1, (hk k hk').2 r hr⟩

/-- a list vector as a function on `Fin N` -/
def toFn (N : Nat) (l : List K) : Fin N → K := fun i => l.getD i 0
/-- the vectors of a list, as a set of functions -/
def fnSet (N : Nat) (ks : List (List K)) : Set (Fin N → K) := {f | ∃ k ∈ ks, f = toFn N k}

theorem toFn_vaxpy (N : Nat) (p q : List K) (r : K) (h : p.length = q.length) :
    toFn N (vaxpy p r q) = toFn N p - r • toFn N q := by
  funext i
  simp only [toFn, Pi.sub_apply, Pi.smul_apply, smul_eq_mul]
  exact getD_vaxpy p q r i h

theorem toFn_vscale (N : Nat) (p : List K) (s : K) : toFn N (vscale p s) = s • toFn N p := by
  funext i
  simp only [toFn, Pi.smul_apply, smul_eq_mul, getD_vscale, mul_comm]

theorem fnSet_mono {N : Nat} {ks ks' : List (List K)} (h : ∀ k ∈ ks, k ∈ ks') :
    Submodule.span K (fnSet N ks) ≤ Submodule.span K (fnSet N ks') :=
  Submodule.span_mono fun _ ⟨k, hk, hf⟩ => ⟨k, h k hk, hf⟩

theorem subAllB_sub_mem {N n : Nat} (p : List K) (rs : List K) (qs : List (List K))
    (hp : p.length = n) (hq : ∀ q ∈ qs, q.length = n) :
    toFn N p - toFn N (subAllB p rs qs) ∈ Submodule.span K (fnSet N qs) := by
  induction qs generalizing p rs with
  | nil => cases rs <;> simp [subAllB]
  | cons q qs ih =>
    cases rs with
    | nil => simp [subAllB]
    | cons r rs =>
      simp only [subAllB]
      have hq0 := hq q (by simp)
      have h1 : toFn N p - toFn N (subAllB (vaxpy p r q) rs qs)
          = r • toFn N q + (toFn N (vaxpy p r q) - toFn N (subAllB (vaxpy p r q) rs qs)) := by
        rw [toFn_vaxpy N p q r (hp.trans hq0.symm)]; abel
      rw [h1]
      refine Submodule.add_mem _ (Submodule.smul_mem _ _ (Submodule.subset_span ⟨q, by simp, rfl⟩)) ?_
      exact fnSet_mono (fun k hk => by simp [hk])
        (ih _ rs (by simp [hp, hq0]) fun q' hq' => hq q' (by simp [hq']))

theorem orth2_sub_mem {N : Nat} (mask : List Bool) (ks : List (List K)) (p : List K)
    (hp : p.length = N) (hk : ∀ k ∈ ks, k.length = N) :
    toFn N p - toFn N (orth2 mask ks p) ∈ Submodule.span K (fnSet N ks) := by
  unfold orth2 cgs2
  have h1 := subAllB_sub_mem (N := N) p (ks.map fun q => dotM mask p q) ks hp hk
  have h2 := subAllB_sub_mem (N := N) (subAllB p (ks.map fun q => dotM mask p q) ks)
    (ks.map fun q => dotM mask (subAllB p (ks.map fun q => dotM mask p q) ks) q) ks
    (length_subAllB _ _ _ hp hk) hk
  have := Submodule.add_mem _ h1 h2
  convert this using 1
  abel

/-- state of the second orthogonalisation after the kernel columns `us` -/
structure Inv2 (a : Nat → Nat → K) (M N : Nat) (mask : List Bool) (us : List (List K))
    (s : S2 K) : Prop where
  len : s.ks.length = us.length
  ker : ∀ k ∈ s.ks, KerA a M N k
  gs : GSOk N (dotM mask) s.ks
  span : ∀ w, (∀ k ∈ s.ks, dotM mask k w = 0) → ∀ u ∈ us, dotM mask u w = 0
  err : s.err = 0 ↔ ∀ k ∈ s.ks, dotM mask k k = 1
  /-- primal form of `span`: every processed kernel column is a combination of the `ks` -/
  prim : ∀ u ∈ us, toFn N u ∈ Submodule.span K (fnSet N s.ks)
  rprim : ∀ k ∈ s.ks, toFn N k ∈ Submodule.span K (fnSet N us)
  /-- no kernel column of the second phase is the zero vector -/
  nz : ∀ k ∈ s.ks, toFn N k ≠ 0

theorem inv2_nil (a : Nat → Nat → K) (M N : Nat) (mask : List Bool) :
    Inv2 a M N mask [] ({} : S2 K) where
  len := rfl
  ker := by simp
  gs := GSOk.nil
  span := by simp
  err := by simp
  prim := by simp
  rprim := by simp
  nz := by simp

theorem inv2_step {a : Nat → Nat → K} {M N : Nat} {mask : List Bool} {tol : K} (htol : 0 ≤ tol)
    {us : List (List K)} {s : S2 K} (h : Inv2 a M N mask us s) (u : List K) (hu : u.length = N)
    (huk : KerA a M N u) (hnew : toFn N u ∉ Submodule.span K (fnSet N us))
    (hU : norm2 mask (orth2 mask s.ks u) = 0 ∨ tol < norm2 mask (orth2 mask s.ks u)) :
    Inv2 a M N mask (us ++ [u]) (step2 tol mask s u) := by
  set p := orth2 mask s.ks u with hpdef
  have hdiff : toFn N u - toFn N p ∈ Submodule.span K (fnSet N us) :=
    (Submodule.span_le.2 (by rintro f ⟨k, hk, rfl⟩; exact h.rprim k hk))
      (orth2_sub_mem mask s.ks u hu h.gs.len)
  have hmonoU : Submodule.span K (fnSet N us) ≤ Submodule.span K (fnSet N (us ++ [u])) :=
    fnSet_mono (fun k hk => by simp [hk])
  have hpmem : toFn N p ∈ Submodule.span K (fnSet N (us ++ [u])) := by
    have h1 : toFn N u ∈ Submodule.span K (fnSet N (us ++ [u])) :=
      Submodule.subset_span ⟨u, by simp, rfl⟩
    have := Submodule.sub_mem _ h1 (hmonoU hdiff)
    rwa [sub_sub_cancel] at this
  have hpnz : toFn N p ≠ 0 := fun h0 => hnew (by rw [h0, sub_zero] at hdiff; exact hdiff)
  have F := isForm_dotM (K := K) N mask
  have hplen : p.length = N := length_orth2 mask s.ks u hu h.gs.len
  have hpker : KerA a M N p := fun r hr => by
    rw [hpdef, KerA.orth2 mask s.ks u hu (fun k hk => ⟨h.gs.len k hk, h.ker k hk⟩) r hr]
    exact huk r hr
  have hporth : ∀ k ∈ s.ks, dotM mask p k = 0 := orth2_orth mask s.ks h.gs u hu
  have hsq : norm2 mask p * norm2 mask p = dotM mask p p :=
    SqrtField.sqrt_mul_self (dotM_self_nonneg mask p)
  have hP : ∀ w, (∀ k ∈ s.ks, dotM mask k w = 0) → dotM mask p w = dotM mask u w := fun w hw =>
    lin_orth2 mask (fun v => dotM mask v w)
      (fun a b r ha hb => dotM_vaxpy mask a b w r (ha.trans hb.symm)) s.ks u hu
      fun k hk => ⟨h.gs.len k hk, hw k hk⟩
  by_cases hb : tol < norm2 mask p
  · have hr0 : norm2 mask p ≠ 0 := ne_of_gt (lt_of_le_of_lt htol hb)
    have hstep : step2 tol mask s u = S2.mk (s.ks ++ [vscale p (1 / norm2 mask p)]) s.err
        (s.tested ++ [norm2 mask p]) := by
      simp only [step2, ← hpdef, if_pos hb]
    rw [hstep]
    have hunit := F.unit_of_scale p hsq hr0
    refine ⟨by simp [h.len], ?_, ?_, ?_, ?_, ?_, ?_, ?_⟩
    · intro k hk
      rcases List.mem_append.1 hk with hk | hk
      · exact h.ker k hk
      · rw [List.mem_singleton.1 hk]
        intro r hr
        have : ∀ j ∈ range N, a r j * (vscale p (1 / norm2 mask p)).getD j 0
            = (a r j * p.getD j 0) * (1 / norm2 mask p) := fun j _ => by
          rw [getD_vscale]; ring
        rw [sum_congr rfl this, ← sum_mul, hpker r hr, zero_mul]
    · refine h.gs.snoc F (by simp [hplen]) ?_ (Or.inl hunit)
      intro k hk
      rw [dotM_vscale, hporth k hk, mul_zero]
    · intro w hw u' hu'
      have hw' : ∀ k ∈ s.ks, dotM mask k w = 0 := fun k hk => hw k (by simp [hk])
      rcases List.mem_append.1 hu' with hu' | hu'
      · exact h.span w hw' u' hu'
      · rw [List.mem_singleton.1 hu', ← hP w hw']
        have := hw (vscale p (1 / norm2 mask p)) (by simp)
        rw [dotM_vscale] at this
        rcases mul_eq_zero.1 this with h1 | h1
        · exact absurd h1 (one_div_ne_zero hr0)
        · exact h1
    · show s.err = 0 ↔ _
      rw [h.err]
      constructor
      · intro hall k hk
        rcases List.mem_append.1 hk with hk | hk
        · exact hall k hk
        · rw [List.mem_singleton.1 hk]; exact hunit
      · intro hall k hk
        exact hall k (by simp [hk])
    · intro u' hu'
      have hmono : Submodule.span K (fnSet N s.ks)
          ≤ Submodule.span K (fnSet N (s.ks ++ [vscale p (1 / norm2 mask p)])) :=
        fnSet_mono (fun k hk => by simp [hk])
      rcases List.mem_append.1 hu' with hu' | hu'
      · exact hmono (h.prim u' hu')
      · rw [List.mem_singleton.1 hu']
        have h1 := hmono (orth2_sub_mem mask s.ks u hu h.gs.len)
        have h2 : toFn N p ∈ Submodule.span K (fnSet N (s.ks ++ [vscale p (1 / norm2 mask p)])) := by
          have : toFn N p = norm2 mask p • toFn N (vscale p (1 / norm2 mask p)) := by
            rw [toFn_vscale, smul_smul, mul_one_div_cancel hr0, one_smul]
          rw [this]
          exact Submodule.smul_mem _ _ (Submodule.subset_span ⟨_, by simp, rfl⟩)
        have := Submodule.add_mem _ h1 h2
        rwa [sub_add_cancel] at this
    · intro k hk
      rcases List.mem_append.1 hk with hk | hk
      · exact hmonoU (h.rprim k hk)
      · rw [List.mem_singleton.1 hk, toFn_vscale]
        exact Submodule.smul_mem _ _ hpmem
    · intro k hk
      rcases List.mem_append.1 hk with hk | hk
      · exact h.nz k hk
      · rw [List.mem_singleton.1 hk, toFn_vscale]
        exact smul_ne_zero (one_div_ne_zero hr0) hpnz
  · have hr0 : norm2 mask p = 0 := by
      rcases hU with h0 | h1
      · exact h0
      · exact absurd h1 hb
    have hzero : dotM mask p p = 0 := by rw [← hsq, hr0, mul_zero]
    have hstep : step2 tol mask s u = S2.mk (s.ks ++ [p]) (s.err + 1)
        (s.tested ++ [norm2 mask p]) := by
      simp only [step2, ← hpdef, if_neg hb]
    rw [hstep]
    refine ⟨by simp [h.len], ?_, ?_, ?_, ?_, ?_, ?_, ?_⟩
    · intro k hk
      rcases List.mem_append.1 hk with hk | hk
      · exact h.ker k hk
      · rw [List.mem_singleton.1 hk]; exact hpker
    · exact h.gs.snoc F hplen hporth (Or.inr hzero)
    · intro w hw u' hu'
      have hw' : ∀ k ∈ s.ks, dotM mask k w = 0 := fun k hk => hw k (by simp [hk])
      rcases List.mem_append.1 hu' with hu' | hu'
      · exact h.span w hw' u' hu'
      · rw [List.mem_singleton.1 hu', ← hP w hw']
        exact hw p (by simp)
    · show s.err + 1 = 0 ↔ _
      constructor
      · intro h1; omega
      · intro hall
        have := hall p (by simp)
        rw [hzero] at this
        exact absurd this zero_ne_one
    · intro u' hu'
      have hmono : Submodule.span K (fnSet N s.ks) ≤ Submodule.span K (fnSet N (s.ks ++ [p])) :=
        fnSet_mono (fun k hk => by simp [hk])
      rcases List.mem_append.1 hu' with hu' | hu'
      · exact hmono (h.prim u' hu')
      · rw [List.mem_singleton.1 hu']
        have h1 := hmono (orth2_sub_mem mask s.ks u hu h.gs.len)
        have h2 : toFn N p ∈ Submodule.span K (fnSet N (s.ks ++ [p])) :=
          Submodule.subset_span ⟨p, by simp, rfl⟩
        have := Submodule.add_mem _ h1 h2
        rwa [sub_add_cancel] at this
    · intro k hk
      rcases List.mem_append.1 hk with hk | hk
      · exact hmonoU (h.rprim k hk)
      · rw [List.mem_singleton.1 hk]; exact hpmem
    · intro k hk
      rcases List.mem_append.1 hk with hk | hk
      · exact h.nz k hk
      · rw [List.mem_singleton.1 hk]; exact hpnz

theorem step2_tested (tol : K) (mask : List Bool) (s : S2 K) (u : List K) :
    (step2 tol mask s u).tested = s.tested ++ [norm2 mask (orth2 mask s.ks u)] := by
  simp only [step2]
  split <;> rfl

theorem inv2_foldl {a : Nat → Nat → K} {M N : Nat} {mask : List Bool} {tol : K} (htol : 0 ≤ tol)
    (us : List (List K)) (hus : ∀ u ∈ us, u.length = N ∧ KerA a M N u)
    (hind : ∀ pre u post, us = pre ++ u :: post → toFn N u ∉ Submodule.span K (fnSet N pre))
    (hU : ∀ r ∈ (us.foldl (step2 tol mask) {}).tested, r = 0 ∨ tol < r) :
    Inv2 a M N mask us (us.foldl (step2 tol mask) {}) := by
  induction us using List.reverseRecOn with
  | nil => exact inv2_nil a M N mask
  | append_singleton us u ih =>
    rw [List.foldl_append, List.foldl_cons, List.foldl_nil] at hU ⊢
    rw [step2_tested] at hU
    have ih' := ih (fun v hv => hus v (by simp [hv]))
      (fun pre u0 post h => hind pre u0 (post ++ [u]) (by rw [h]; simp)) fun r hr => hU r (by simp [hr])
    exact inv2_step htol ih' u (hus u (by simp)).1 (hus u (by simp)).2 (hind us u [] rfl)
      (hU _ (by simp))

-- ------------------------------------------------------------------ icgs2 after the pointer moves

theorem KerA.of_zero_top {a : Nat → Nat → K} {M N : Nat} {c : Col K} (hc : Aug a M N c)
    (h0 : dot c.top c.top = 0) : KerA a M N c.bot := by
  intro r hr
  have := hc.eq r hr
  rw [getD_of_all_zero (dot_self_eq_zero h0) r] at this
  simp only [sub_zero] at this
  exact this.symm

theorem phase2_spec {a : Nat → Nat → K} {b : Nat → K} {M N : Nat} {mask : List Bool} {tol : K}
    (htol : 0 ≤ tol) (d : Nat) (ord : List (Nat × Col K)) (rhs : Col K)
    (H1 : ∀ x ∈ ord, Aug a M N x.2)
    (H2 : ∀ x ∈ ord.take d, dot x.2.top x.2.top = 0)
    (H3 : d ≤ ord.length)
    (H4 : ∀ x ∈ ord.drop d, dot x.2.top x.2.top ≠ 0)
    (hrhs : AugG a b M N rhs)
    (H5 : ∀ pre u post, (ord.take d).map (·.2.bot) = pre ++ u :: post →
      toFn N u ∉ Submodule.span K (fnSet N pre))
    (hU : ∀ r ∈ (phase2 tol mask d ord rhs).1.tested, r = 0 ∨ tol < r) :
    Inv2 a M N mask ((ord.take d).map (·.2.bot)) (phase2 tol mask d ord rhs).1 ∧
    AugG a b M N (phase2 tol mask d ord rhs).2.2 ∧ (phase2 tol mask d ord rhs).2.2.top = rhs.top ∧
    (∀ x ∈ ord.take d, dotM mask x.2.bot (phase2 tol mask d ord rhs).2.2.bot = 0) ∧
    (∀ y ∈ (phase2 tol mask d ord rhs).2.1, Aug a M N y.2) ∧
    ((phase2 tol mask d ord rhs).2.1.map (·.2.top) = ord.map (·.2.top)) ∧
    (∀ y ∈ (phase2 tol mask d ord rhs).2.1, dot y.2.top y.2.top = 0 → ∀ e ∈ y.2.bot, e = 0) ∧
    (∀ y ∈ (phase2 tol mask d ord rhs).2.1, ∀ x ∈ ord.take d, dotM mask x.2.bot y.2.bot = 0) := by
  have hfold : (ord.take d).foldl (fun s c => step2 tol mask s c.2.bot) {}
      = ((ord.take d).map (·.2.bot)).foldl (step2 tol mask) {} := by rw [List.foldl_map]
  simp only [phase2, hfold] at hU ⊢
  set us := (ord.take d).map (·.2.bot) with hus
  set s := us.foldl (step2 tol mask) {} with hs
  have husk : ∀ u ∈ us, u.length = N ∧ KerA a M N u := by
    intro u hu
    obtain ⟨x, hx, rfl⟩ := List.mem_map.1 hu
    have hx1 := H1 x (List.mem_of_mem_take hx)
    exact ⟨hx1.lbot, KerA.of_zero_top hx1 (H2 x hx)⟩
  have I2 : Inv2 a M N mask us s := inv2_foldl htol us husk H5 hU
  have hkk : ∀ k ∈ s.ks, k.length = N ∧ KerA a M N k := fun k hk => ⟨I2.gs.len k hk, I2.ker k hk⟩
  have hklen : s.ks.length = (ord.take d).length := by rw [I2.len, hus, List.length_map]
  refine ⟨I2, ?_, trivial, ?_, ?_, ?_, ?_, ?_⟩
  · -- the right-hand side keeps `top = A·bottom − b`
    refine ⟨hrhs.ltop, length_orth2 mask s.ks rhs.bot hrhs.lbot I2.gs.len, ?_⟩
    intro r hr
    show rhs.top.getD r 0 = _
    rw [KerA.orth2 mask s.ks rhs.bot hrhs.lbot hkk r hr]
    exact hrhs.eq r hr
  · intro x hx
    have ho := orth2_orth mask s.ks I2.gs rhs.bot hrhs.lbot
    refine I2.span _ (fun k hk => ?_) x.2.bot (List.mem_map.2 ⟨x, hx, rfl⟩)
    rw [dotM_comm]; exact ho k hk
  · intro y hy
    rcases List.mem_append.1 hy with hy | hy
    · obtain ⟨⟨c, k⟩, hck, rfl⟩ := List.mem_map.1 hy
      have hc : c ∈ ord.take d := (List.of_mem_zip hck).1
      have hk : k ∈ s.ks := (List.of_mem_zip hck).2
      have hc1 := H1 c (List.mem_of_mem_take hc)
      refine ⟨hc1.ltop, by simp [(hkk k hk).1], ?_⟩
      intro r _
      show c.2.top.getD r 0 = _
      rw [getD_of_all_zero (dot_self_eq_zero (H2 c hc)) r]
      have : ∀ j ∈ range N, a r j * (vscale k 0).getD j 0 = 0 := fun j _ => by
        rw [getD_vscale]; ring
      rw [sum_congr rfl this]; simp
    · obtain ⟨c, hc, rfl⟩ := List.mem_map.1 hy
      have hc1 := H1 c (List.mem_of_mem_drop hc)
      refine ⟨hc1.ltop, length_orth2 mask s.ks c.2.bot hc1.lbot I2.gs.len, ?_⟩
      intro r hr
      show c.2.top.getD r 0 = _
      rw [KerA.orth2 mask s.ks c.2.bot hc1.lbot hkk r hr]
      exact hc1.eq r hr
  · rw [List.map_append, List.map_map, List.map_map]
    have h1 : (List.zip (ord.take d) s.ks).map
        ((fun (x : Nat × Col K) => x.2.top) ∘ fun (x : (Nat × Col K) × List K) =>
          (x.1.1, ({ top := x.1.2.top, bot := vscale x.2 0 } : Col K)))
        = (ord.take d).map (·.2.top) := by
      have : ((fun (x : Nat × Col K) => x.2.top) ∘ fun (x : (Nat × Col K) × List K) =>
          (x.1.1, ({ top := x.1.2.top, bot := vscale x.2 0 } : Col K)))
          = (fun (x : Nat × Col K) => x.2.top) ∘ Prod.fst := by
        funext x; rfl
      rw [this, ← List.map_map, List.map_fst_zip (by omega)]
    have h2 : (ord.drop d).map ((fun (x : Nat × Col K) => x.2.top) ∘ fun (c : Nat × Col K) =>
          (c.1, ({ top := c.2.top, bot := orth2 mask s.ks c.2.bot } : Col K)))
        = (ord.drop d).map (·.2.top) := by
      apply List.map_congr_left; intro x _; rfl
    rw [h1, h2, ← List.map_append, List.take_append_drop]
  · intro y hy h0
    rcases List.mem_append.1 hy with hy | hy
    · obtain ⟨⟨c, k⟩, _, rfl⟩ := List.mem_map.1 hy
      intro e he
      simp only [vscale, List.mem_map] at he
      obtain ⟨x, _, rfl⟩ := he
      ring
    · obtain ⟨c, hc, rfl⟩ := List.mem_map.1 hy
      exact absurd h0 (H4 c hc)
  · intro y hy x hx
    rcases List.mem_append.1 hy with hy | hy
    · obtain ⟨⟨c, k⟩, _, rfl⟩ := List.mem_map.1 hy
      show dotM mask x.2.bot (vscale k 0) = 0
      rw [dotM_comm, dotM_vscale, zero_mul]
    · obtain ⟨c, hc, rfl⟩ := List.mem_map.1 hy
      have hc1 := H1 c (List.mem_of_mem_drop hc)
      have ho := orth2_orth mask s.ks I2.gs c.2.bot hc1.lbot
      refine I2.span _ (fun k hk => ?_) x.2.bot (List.mem_map.2 ⟨x, hx, rfl⟩)
      rw [dotM_comm]; exact ho k hk

-- ------------------------------------------------------------------ state after icgs1(); icgs2()

theorem GSOk.perm {n : Nat} {ip : List K → List K → K} (F : IsForm n ip) {l₁ l₂ : List (List K)}
    (hp : l₁.Perm l₂) (h : GSOk n ip l₁) : GSOk n ip l₂ :=
  ⟨(List.Perm.pairwise_iff (fun {x y} hxy => by rw [F.comm]; exact hxy) hp).1 h.pw,
   fun v hv => h.uz v (hp.mem_iff.2 hv)⟩

/-- what the theorems use of the object after `icgs1(); icgs2();` -/
structure Final (a : Nat → Nat → K) (b : Nat → K) (M N : Nat) (mask : List Bool)
    (inCols : List (Col K)) (P : R1 K) (R : R2 K) : Prop where
  dep : R.dep = P.dep
  rhsAug : AugG a b M N R.rhs
  rhsTop : R.rhs.top = P.rhs.top
  normal : ∀ c ∈ inCols, dot c.top R.rhs.top = 0
  sOrth : ∀ z ∈ R.dep, ∀ q : Col K, P.cols[z - 1]? = some q → dotM mask q.bot R.rhs.bot = 0
  colsAug : ∀ c ∈ R.cols, Aug a M N c
  colsGS : GSOk M dot (R.cols.map (·.top))
  colsZero : ∀ c ∈ R.cols, dot c.top c.top = 0 → ∀ x ∈ c.bot, x = 0
  colsSpan : ∀ w, (∀ c ∈ R.cols, dot c.top w = 0) → ∀ c ∈ inCols, dot c.top w = 0
  colsLen : R.cols.length = N
  /-- every column of the lower block is S-orthogonal to the flagged bottoms of the first phase -/
  colsSOrth : ∀ c ∈ R.cols, ∀ z ∈ R.dep, ∀ q : Col K, P.cols[z - 1]? = some q →
    dotM mask q.bot c.bot = 0
  errReg : R.dep = [] → R.err = 0
  /-- the second orthogonalisation (singular systems): its invariant, over the flagged bottoms -/
  second : R.dep ≠ [] → ∃ (us : List (List K)) (s : S2 K), s.ks = R.ks ∧ s.err = R.err ∧
    Inv2 a M N mask us s ∧ ∀ z ∈ R.dep, ∀ q : Col K, P.cols[z - 1]? = some q → q.bot ∈ us

theorem icgs1_cols (tol : K) (cs : List (Col K)) (rhs : Col K) :
    (icgs1 tol cs rhs).cols = (cs.foldl (step1 tol) {}).qs := rfl
theorem icgs1_dep (tol : K) (cs : List (Col K)) (rhs : Col K) :
    (icgs1 tol cs rhs).dep = (cs.foldl (step1 tol) {}).dep := rfl
theorem icgs1_tested (tol : K) (cs : List (Col K)) (rhs : Col K) :
    (icgs1 tol cs rhs).tested = (cs.foldl (step1 tol) {}).tested := rfl
theorem icgs1_rhs (tol : K) (cs : List (Col K)) (rhs : Col K) :
    (icgs1 tol cs rhs).rhs = orth1 (cs.foldl (step1 tol) {}).qs rhs := rfl

theorem icgs2_tested_sub (tol : K) (mask : List Bool) (P : R1 K) :
    ∀ r ∈ P.tested, r ∈ (icgs2 tol mask P).tested := by
  intro r hr
  unfold icgs2
  split
  · exact hr
  · simp [hr]

theorem getElem?_zip_range {α : Type} (l : List α) (i : Nat) (x : Nat × α) :
    ((List.range l.length).zip l)[i]? = some x ↔ x.1 = i ∧ l[i]? = some x.2 := by
  rw [List.getElem?_zip_eq_some]
  constructor
  · rintro ⟨h1, h2⟩
    have hi : i < l.length := (List.getElem?_eq_some_iff.1 h2).1
    rw [List.getElem?_range hi] at h1
    exact ⟨(Option.some.inj h1).symm, h2⟩
  · rintro ⟨h1, h2⟩
    have hi : i < l.length := (List.getElem?_eq_some_iff.1 h2).1
    rw [List.getElem?_range hi, h1]
    exact ⟨rfl, h2⟩

theorem final_icgs {a : Nat → Nat → K} {b : Nat → K} {M N : Nat} {mask : List Bool} {tol : K}
    (htol : 0 ≤ tol) (cs : List (Col K)) (rhs : Col K) (hcs : InCols a M N cs) (hN : cs.length = N)
    (hrhs : AugG a b M N rhs)
    (hU : ∀ r ∈ (icgs2 tol mask (icgs1 tol cs rhs)).tested, r = 0 ∨ tol < r) :
    Inv1 a M N cs (cs.foldl (step1 tol) {}) ∧
    Final a b M N mask cs (icgs1 tol cs rhs) (icgs2 tol mask (icgs1 tol cs rhs)) := by
  have hU1 : ∀ r ∈ (cs.foldl (step1 tol) {}).tested, r = 0 ∨ tol < r := fun r hr =>
    hU r (icgs2_tested_sub tol mask _ r (by rw [icgs1_tested]; exact hr))
  have I1 := inv1_foldl htol cs hcs hU1
  refine ⟨I1, ?_⟩
  set s1 := cs.foldl (step1 tol) {} with hs1
  set rhs1 := orth1 s1.qs rhs with hrhs1
  have hrhs1aug : AugG a b M N rhs1 := AugG.orth1 rhs s1.qs hrhs I1.aug
  have hnormal : ∀ c ∈ cs, dot c.top rhs1.top = 0 := by
    refine I1.spanTop rhs1.top fun q hq => ?_
    rw [dot_comm]
    exact orth1_top_orth s1.qs I1.gs rhs hrhs.ltop q hq
  have hP : icgs1 tol cs rhs = ⟨s1.qs, rhs1, s1.dep, s1.tested⟩ := rfl
  rw [hP] at hU ⊢
  by_cases hd : s1.dep = []
  · -- regular system: icgs2 returns immediately
    have hR : icgs2 tol mask ⟨s1.qs, rhs1, s1.dep, s1.tested⟩
        = ⟨s1.qs, rhs1, s1.dep, 0, s1.tested, []⟩ := by
      simp [icgs2, hd]
    rw [hR]
    refine ⟨rfl, hrhs1aug, rfl, hnormal, ?_, I1.aug, I1.gs, ?_, I1.spanTop, by rw [← hN]; exact I1.len,
      fun _ _ z hz => by simp [hd] at hz, fun _ => rfl, fun h => absurd hd h⟩
    · intro z hz; simp [hd] at hz
    · intro c hc h0
      obtain ⟨i, hi, rfl⟩ := List.getElem_of_mem hc
      have := (I1.flag i _ (List.getElem?_eq_getElem hi)).2 h0
      simp [hd] at this
  · -- singular system
    set idx := (List.range s1.qs.length).zip s1.qs with hidx
    have hidxlen : idx.length = s1.qs.length := by simp [hidx]
    obtain ⟨hperm, hget⟩ := movePtrs_spec idx s1.dep I1.depSorted (by rw [hidxlen]; exact I1.depLe)
    set ord := movePtrs idx s1.dep with hord
    set d := s1.dep.length with hdd
    have hne : s1.dep.isEmpty = false := by
      cases h : s1.dep with
      | nil => exact absurd h hd
      | cons _ _ => rfl
    have hidxmem : ∀ x ∈ idx, x.2 ∈ s1.qs := fun x hx => (List.of_mem_zip (a := x.1) (b := x.2) hx).2
    have hidxnodup : idx.Nodup := by
      apply List.Nodup.of_map Prod.fst
      rw [hidx, List.map_fst_zip (by simp)]
      exact List.nodup_range
    have hordnodup : ord.Nodup := hperm.symm.nodup hidxnodup
    have hordlen : ord.length = s1.qs.length := by rw [hperm.length_eq, hidxlen]
    have hdle : d ≤ ord.length := by
      rw [hordlen]
      -- a strictly increasing list of numbers in 1..n has at most n elements
      have hnd : s1.dep.Nodup := I1.depSorted.imp (fun h => Nat.ne_of_lt h)
      have hsub : s1.dep ⊆ (List.range (s1.qs.length + 1)) := fun z hz => by
        have := I1.depLe z hz; simp; omega
      have h0 : (0 : Nat) ∉ s1.dep := fun h => by have := (I1.depLe 0 h).1; omega
      have hsub' : s1.dep ⊆ (List.range (s1.qs.length + 1)).tail := fun z hz => by
        have h1 := hsub hz
        rw [List.range_succ_eq_map, List.tail_cons]
        rw [List.range_succ_eq_map] at h1
        rcases List.mem_cons.1 h1 with h1 | h1
        · subst h1; exact absurd hz h0
        · exact h1
      have := (List.subperm_of_subset hnd hsub').length_le
      simpa using this
    -- the pointer columns 1..d are the flagged columns
    have htake : ∀ x ∈ ord.take d, ∃ z ∈ s1.dep, 1 ≤ z ∧ x.1 = z - 1 ∧ s1.qs[z - 1]? = some x.2 := by
      intro x hx
      obtain ⟨k, hk⟩ := List.mem_iff_getElem?.1 hx
      rw [List.getElem?_take] at hk
      split at hk
      · rename_i hkd
        obtain ⟨z, hz⟩ : ∃ z, s1.dep[k]? = some z := ⟨s1.dep[k], List.getElem?_eq_getElem hkd⟩
        have hzmem : z ∈ s1.dep := List.mem_of_getElem? hz
        rw [hget k z hz] at hk
        have := (getElem?_zip_range s1.qs (z - 1) x).1 hk
        exact ⟨z, hzmem, (I1.depLe z hzmem).1, this.1, this.2⟩
      · exact absurd hk (by simp)
    have hflagged : ∀ z ∈ s1.dep, ∀ q : Col K, s1.qs[z - 1]? = some q → (z - 1, q) ∈ ord.take d := by
      intro z hz q hq
      obtain ⟨k, hk, hkz⟩ := List.getElem_of_mem hz
      have hkz' : s1.dep[k]? = some z := by rw [List.getElem?_eq_getElem hk, hkz]
      have h1 := hget k z hkz'
      rw [(getElem?_zip_range s1.qs (z - 1) (z - 1, q)).2 ⟨rfl, hq⟩] at h1
      refine List.mem_iff_getElem?.2 ⟨k, ?_⟩
      rw [List.getElem?_take, if_pos hk, h1]
    have H1 : ∀ x ∈ ord, Aug a M N x.2 := fun x hx => I1.aug _ (hidxmem x (hperm.mem_iff.1 hx))
    have H2 : ∀ x ∈ ord.take d, dot x.2.top x.2.top = 0 := by
      intro x hx
      obtain ⟨z, hz, hz1, _, hq⟩ := htake x hx
      have := (I1.flag (z - 1) x.2 hq).1 (by rw [Nat.sub_add_cancel hz1]; exact hz)
      exact this
    have H4 : ∀ x ∈ ord.drop d, dot x.2.top x.2.top ≠ 0 := by
      intro x hx h0
      have hxidx : x ∈ idx := hperm.mem_iff.1 (List.mem_of_mem_drop hx)
      obtain ⟨i, hi⟩ := List.mem_iff_getElem?.1 hxidx
      obtain ⟨hxi, hqi⟩ := (getElem?_zip_range s1.qs i x).1 hi
      have hmem : i + 1 ∈ s1.dep := (I1.flag i x.2 hqi).2 h0
      have h1 := hflagged (i + 1) hmem x.2 (by simpa using hqi)
      have hx' : (i + 1 - 1, x.2) = x := by
        cases x; simp at hxi ⊢; omega
      rw [hx'] at h1
      obtain ⟨k1, hk1⟩ := List.mem_iff_getElem?.1 h1
      obtain ⟨k2, hk2⟩ := List.mem_iff_getElem?.1 hx
      rw [List.getElem?_take] at hk1
      split at hk1
      · rename_i hk1d
        rw [List.getElem?_drop] at hk2
        have hk1len : k1 < ord.length := (List.getElem?_eq_some_iff.1 hk1).1
        have := (List.getElem?_inj hk1len hordnodup).1 (hk1.trans hk2.symm)
        omega
      · exact absurd hk1 (by simp)
    have hUs : ∀ r ∈ (phase2 tol mask d ord rhs1).1.tested, r = 0 ∨ tol < r := by
      intro r hr
      apply hU
      simp only [icgs2, hne, Bool.false_eq_true, if_false]
      simp [← hidx, ← hord, ← hdd, hr]
    have hNq : s1.qs.length = N := by rw [I1.len, hN]
    have H5 : ∀ pre u post, (ord.take d).map (·.2.bot) = pre ++ u :: post →
        toFn N u ∉ Submodule.span K (fnSet N pre) := by
      intro pre u post hdec hmem
      have hus : ∀ (k : Nat) (hk : k < s1.dep.length), ∃ q : Col K,
          s1.qs[s1.dep[k] - 1]? = some q ∧ ((ord.take d).map (·.2.bot))[k]? = some q.bot := by
        intro k hk
        have hz : s1.dep[k]? = some s1.dep[k] := List.getElem?_eq_getElem hk
        have hzle := I1.depLe _ (List.getElem_mem hk)
        have hzl : s1.dep[k] - 1 < s1.qs.length := by omega
        refine ⟨s1.qs[s1.dep[k] - 1], List.getElem?_eq_getElem hzl, ?_⟩
        rw [List.getElem?_map, List.getElem?_take, if_pos (by rw [hdd]; exact hk), hget k _ hz,
          (getElem?_zip_range s1.qs (s1.dep[k] - 1) (s1.dep[k] - 1, s1.qs[s1.dep[k] - 1])).2
            ⟨rfl, List.getElem?_eq_getElem hzl⟩]
        rfl
      have hlenus : ((ord.take d).map (·.2.bot)).length = d := by simp [hdle]
      have htd : pre.length < s1.dep.length := by
        have := congrArg List.length hdec
        rw [hlenus] at this
        simp at this
        omega
      obtain ⟨qt, hqt, hut⟩ := hus pre.length htd
      have hu_eq : u = qt.bot := by
        rw [hdec] at hut
        simpa using hut
      have hztmem : s1.dep[pre.length] ∈ s1.dep := List.getElem_mem htd
      have hztle := I1.depLe _ hztmem
      have hcoord : ∀ f ∈ Submodule.span K (fnSet N pre),
          f ⟨s1.dep[pre.length] - 1, by omega⟩ = 0 := by
        intro f hf
        refine Submodule.span_induction
          (p := fun x _ => x ⟨s1.dep[pre.length] - 1, by omega⟩ = 0) ?_ rfl ?_ ?_ hf
        · rintro x ⟨w, hw, rfl⟩
          obtain ⟨sidx, hs⟩ := List.mem_iff_getElem?.1 hw
          have hslt : sidx < pre.length := (List.getElem?_eq_some_iff.1 hs).1
          have hsd : sidx < s1.dep.length := by omega
          obtain ⟨qs', hqs', hus'⟩ := hus sidx hsd
          have hw_eq : w = qs'.bot := by
            rw [hdec, List.getElem?_append_left hslt, hs] at hus'
            exact Option.some.inj hus'
          have hlt : s1.dep[sidx] < s1.dep[pre.length] :=
            List.pairwise_iff_getElem.1 I1.depSorted sidx pre.length hsd htd hslt
          have h1 := (I1.depLe _ (List.getElem_mem hsd)).1
          show (toFn N w) ⟨s1.dep[pre.length] - 1, _⟩ = 0
          rw [hw_eq]
          exact I1.tri (s1.dep[sidx] - 1) qs' hqs' (s1.dep[pre.length] - 1) (by omega)
        · intro x y _ _ hx hy
          simp only [Pi.add_apply, hx, hy, add_zero]
        · intro c x _ hx
          simp only [Pi.smul_apply, hx, smul_zero]
      have h1 := hcoord _ hmem
      have h2 : toFn N u ⟨s1.dep[pre.length] - 1, by omega⟩ = 1 := by
        rw [hu_eq]
        exact I1.diag (s1.dep[pre.length] - 1) qt hqt (by rw [Nat.sub_add_cancel hztle.1]; exact hztmem)
      rw [h2] at h1
      exact one_ne_zero h1
    obtain ⟨I2, C1, C1', C2, C3, C4, C5, C6⟩ :=
      phase2_spec (b := b) htol d ord rhs1 H1 H2 hdle H4 hrhs1aug H5 hUs
    have hR : icgs2 tol mask ⟨s1.qs, rhs1, s1.dep, s1.tested⟩
        = ⟨(((phase2 tol mask d ord rhs1).2.1).mergeSort fun a b => a.1 ≤ b.1).map (·.2),
            (phase2 tol mask d ord rhs1).2.2, s1.dep, (phase2 tol mask d ord rhs1).1.err,
            s1.tested ++ (phase2 tol mask d ord rhs1).1.tested, (phase2 tol mask d ord rhs1).1.ks⟩ := by
      simp only [icgs2, hne, Bool.false_eq_true, if_false]
      rfl
    rw [hR]
    set out := (phase2 tol mask d ord rhs1).2.1 with hout
    have hsortperm := List.mergeSort_perm out (fun a b => decide (a.1 ≤ b.1))
    have htops : ((out.mergeSort fun a b => decide (a.1 ≤ b.1)).map (·.2)).map (·.top)
        |>.Perm (s1.qs.map (·.top)) := by
      rw [List.map_map]
      have e1 : ((fun (c : Col K) => c.top) ∘ fun (x : Nat × Col K) => x.2) = fun x => x.2.top := rfl
      rw [e1]
      refine (hsortperm.map _).trans ?_
      rw [C4]
      refine (hperm.map _).trans ?_
      have : idx.map (fun x => x.2.top) = (idx.map Prod.snd).map (·.top) := by
        rw [List.map_map]; rfl
      rw [this, hidx, List.map_snd_zip (by simp)]
    have hmemout : ∀ c ∈ (out.mergeSort fun a b => decide (a.1 ≤ b.1)).map (·.2), ∃ y ∈ out, y.2 = c := by
      intro c hc
      obtain ⟨y, hy, rfl⟩ := List.mem_map.1 hc
      exact ⟨y, hsortperm.mem_iff.1 hy, rfl⟩
    refine ⟨rfl, C1, C1', ?_, ?_, ?_, ?_, ?_, ?_, ?_, ?_, fun h => absurd h hd,
      fun _ => ⟨_, _, rfl, rfl, I2, fun z hz q hq => List.mem_map.2 ⟨_, hflagged z hz q hq, rfl⟩⟩⟩
    · intro c hc; rw [C1']; exact hnormal c hc
    · intro z hz q hq
      exact C2 _ (hflagged z hz q hq)
    · intro c hc
      obtain ⟨y, hy, rfl⟩ := hmemout c hc
      exact C3 y hy
    · exact GSOk.perm (isForm_dot M) htops.symm I1.gs
    · intro c hc h0
      obtain ⟨y, hy, rfl⟩ := hmemout c hc
      exact C5 y hy h0
    · intro w hw
      refine I1.spanTop w fun q hq => ?_
      have : q.top ∈ ((out.mergeSort fun a b => decide (a.1 ≤ b.1)).map (·.2)).map (·.top) :=
        htops.mem_iff.2 (List.mem_map.2 ⟨q, hq, rfl⟩)
      obtain ⟨c, hc, hct⟩ := List.mem_map.1 this
      rw [← hct]; exact hw c hc
    · have := htops.length_eq
      simp only [List.length_map] at this
      rw [← hN, ← I1.len]
      simpa using this
    · intro c hc z hz q hq
      obtain ⟨y, hy, rfl⟩ := hmemout c hc
      exact C6 y hy _ (hflagged z hz q hq)

end Gama.Ls.Gso
