/-
  Concrete problems used by the Gram–Schmidt property files.

  `Ex.pW` — the witness of finding F6: A = [1 1 0; 0 0 1; 1 1 1] (rank 2, kernel spanned by
  (1,−1,0)), b = (1,2,3), unit weights, regularisation subset S = {3}: S does not resolve the
  defect (the kernel vector vanishes on S), the code before f703dbb answered it (finding F6); the code since refuses it.
-/
import Gama.Lemmas.Ls.GsoCof
import Mathlib.Tactic.FinCases

namespace Gama.Ls.Gso.Ex
open Gama Gama.Ls Gama.LS Matrix Finset

variable {K : Type} [Field K] [LinearOrder K] [IsStrictOrderedRing K] [SqrtField K]

def pW : Problem K :=
  { m := 3, n := 3,
    rows := #[#[(1, 1), (2, 1)], #[(3, 1)], #[(1, 1), (2, 1), (3, 1)]],
    cov := #[⟨3, 0, #[1, 1, 1]⟩], rhs := #[1, 2, 3], reg := .subset [3] }

theorem pW_dense : (pW (K := K)).dense = #[#[1, 1, 0], #[0, 0, 1], #[1, 1, 1]] := by
  simp [Problem.dense, pW]
  refine ⟨?_, ?_, ?_⟩ <;> rfl

/-- the kernel vector (1, −1, 0) -/
def gW : Fin 3 → K := ![1, -1, 0]

theorem pW_A_apply (r c : Fin 3) : (pW (K := K)).A r c
    = ((#[#[1, 1, 0], #[0, 0, 1], #[1, 1, 1]] : DMat K).getD r #[]).getD c 0 := by
  show (((pW (K := K)).dense.getD r #[]).getD c 0) = _
  rw [pW_dense]

theorem pW_ker (i : Fin 3) : ∑ j : Fin 3, (pW (K := K)).A i j * gW j = 0 := by
  rw [Fin.sum_univ_three]
  simp only [pW_A_apply]
  fin_cases i <;> simp [gW]

theorem pW_vanish (i : Fin 3) (hi : i ∈ (pW (K := K)).S) : (gW i : K) = 0 := by
  have h1 : (i : Nat) + 1 ∈ [3] := (Reg.mem_toFinset_subset (n := 3) (l := [3]) (i := i)).1 hi
  have h2 : i = 2 := Fin.ext (by simp at h1; omega)
  rw [h2]; simp [gW]

theorem pW_not_resolves : ¬ Resolves (pW (K := K)).A (pW (K := K)).S := by
  intro h
  have := h (gW : Fin 3 → K) (by funext i; exact pW_ker i) pW_vanish
  have h0 : (gW (0 : Fin 3) : K) = 0 := by rw [this]; rfl
  simp [gW] at h0

end Gama.Ls.Gso.Ex
