/-
  Joint witness gso + svd on a problem whose svd factors are COMPUTED by the model's own iteration:
  `Ex.pCVdot` over ℝ (`A = [[6,8],[3,4],[6,8]]`, rank 1, kernel span (4, −3), `b = (1/2,1/2,3/2)`,
  regularisation subset S = {1}).  `Lemmas/Ls/SvdDecompWitness.lean` has the svd side
  (`pCVdot_decompose`, `pCVdot_hun`, `pCVdot_svdSolve`); here the Gram–Schmidt side (the run evaluated
  over ℝ by `norm_num`, as for `pCSdot` in `ComposeAdjExample.lean`), `Resolves`, and the second-stage
  premise `hgap` of `C02_refusal_svd` at `τ = Svd.wTol`.
-/
import Gama.Lemmas.Ls.SvdDecompWitness
import Gama.Lemmas.Ls.ComposeAdjExample

namespace Gama.Ls.Ex
open Gama Gama.Ls Gama.Ls.Dn Gama.Ls.AdjM Gama.LS Gama.Ls.Gso Matrix
attribute [local instance] sqrtFnOfSqrtField
attribute [local instance 2000] scalarOfField

theorem pCVdot_run : runOf pCVdot = run (tolerance : ℝ) 3 2 (entry #[#[6, 8], #[3, 4], #[6, 8]])
    (fun i => (#[1/2, 1/2, 3/2] : Array ℝ).getD i 0) [true, false] := by
  unfold runOf
  rw [pCVdot_dense]
  rfl

set_option maxRecDepth 8000 in
/-- the Gram–Schmidt run on `pCVdot`: tested norms 9, 0 (first orthogonalisation), 4/3 (second),
    unknown 2 flagged, no error, `x = (0, 1/8)` -/
theorem pCVdot_gso_result : (runOf pCVdot).tested = [9, 0, 4/3] ∧ (runOf pCVdot).rhs.bot = [0, 1/8]
    ∧ (runOf pCVdot).dep = [2] ∧ (runOf pCVdot).err = 0 := by
  have h0 : ¬ (tolerance : ℝ) < 0 := not_lt.2 (le_of_lt Gso.Ex.tol_pos)
  have h1 := Gso.Ex.tol_lt_one
  have h9 : (tolerance : ℝ) < 9 := by linarith
  have h43 : (tolerance : ℝ) < 4/3 := by linarith
  have s81 : Real.sqrt 81 = 9 := by
    rw [show (81 : ℝ) = 9 * 9 by norm_num]; exact Real.sqrt_mul_self (by norm_num)
  have s169 : Real.sqrt (16/9) = 4/3 := by
    rw [show (16/9 : ℝ) = (4/3) * (4/3) by norm_num]; exact Real.sqrt_mul_self (by norm_num)
  have q81 : (SqrtFn.sq (81 : ℝ) : ℝ) = 9 := s81
  have q169 : (SqrtFn.sq (16/9 : ℝ) : ℝ) = 4/3 := s169
  have q0 : (SqrtFn.sq (0 : ℝ) : ℝ) = 0 := Real.sqrt_zero
  rw [pCVdot_run]
  norm_num [run, augmented, entry, icgs1, icgs2, step1, orth1, cgs1, subAll,
    dot, dotAux, norm1, Col.axpy, Col.scale, vaxpy, vscale, phase2, step2, orth2, cgs2, subAllB,
    dotM, dotMAux, norm2, movePtrs, movePtrsAux, swapAt, sqS, h1, h9, h43, h0, s81, s169, q81, q169, q0,
    List.range, List.range.loop, List.replicate]

theorem pCVdot_gso_unambiguous : Unambiguous pCVdot := by
  intro r hr
  rw [pCVdot_gso_result.1] at hr
  simp only [List.mem_cons, List.not_mem_nil, or_false] at hr
  rcases hr with rfl | rfl | rfl
  · exact Or.inr (by linarith [Gso.Ex.tol_lt_one])
  · exact Or.inl rfl
  · exact Or.inr (by linarith [Gso.Ex.tol_lt_one])

theorem pCVdot_gso_answers : ∃ s, gsoSolve pCVdot = .ok s ∧ s.x = #[0, 1/8] ∧ s.defect = 1 := by
  obtain ⟨-, hx, hd, he⟩ := pCVdot_gso_result
  have hreg : regInRange pCVdot.n pCVdot.reg = true := by decide
  have h2 : ∃ a, gsoSolve pCVdot = .ok a := by
    simp [gsoSolve, gsoSolveWith, hreg, he]
  obtain ⟨a, ha⟩ := h2
  obtain ⟨ax, -, -, adef, -, -⟩ := gsoSolveWith_ok (refuse := true) ha
  exact ⟨a, ha, by rw [ax, hx], by rw [adef, hd]; rfl⟩

/-- the design matrix of `pCVdot` -/
theorem pCVdot_A : pCVdot.A = (!![6, 8; 3, 4; 6, 8] : Matrix (Fin 3) (Fin 2) ℝ) := by
  have h : pCVdot.A = toMatrix 3 2 pCVdot.dense := rfl
  rw [h, pCVdot_dense]
  ext i j; fin_cases i <;> fin_cases j <;> rfl

theorem pCVdot_S : pCVdot.S = ({0} : Finset (Fin 2)) := by
  show Reg.toFinset 2 (.subset [1]) = _
  decide

/-- a kernel vector of `pCVdot.A` satisfies `3 g₀ + 4 g₁ = 0` -/
theorem pCVdot_ker (g : Fin 2 → ℝ) (hg : (!![6, 8; 3, 4; 6, 8] : Matrix (Fin 3) (Fin 2) ℝ) *ᵥ g = 0) :
    3 * g 0 + 4 * g 1 = 0 := by
  have h1 := congrFun hg 1
  simpa [Matrix.mulVec, dotProduct, Fin.sum_univ_two] using h1

theorem pCVdot_resolves2 (g : Fin 2 → ℝ) (hg : (!![6, 8; 3, 4; 6, 8] : Matrix (Fin 3) (Fin 2) ℝ) *ᵥ g = 0)
    (hS : ∀ i ∈ ({0} : Finset (Fin 2)), g i = 0) : g = 0 := by
  have h0 : g 0 = 0 := hS 0 (by simp)
  have hk := pCVdot_ker g hg
  rw [h0] at hk
  have h1 : g 1 = 0 := by linarith
  funext i
  fin_cases i
  · exact h0
  · exact h1

/-- S = {1} resolves the defect of `pCVdot` -/
theorem pCVdot_resolves : Resolves pCVdot.A pCVdot.S := by
  rw [pCVdot_A, pCVdot_S]
  exact pCVdot_resolves2

theorem pCVdot_gap2 (g : Fin 2 → ℝ) (hg : (!![6, 8; 3, 4; 6, 8] : Matrix (Fin 3) (Fin 2) ℝ) *ᵥ g = 0)
    (hne : g ≠ 0) :
    normS ({0} : Finset (Fin 2)) g = 0 ∨ (Svd.wTol : ℝ) * Svd.wTol * (g ⬝ᵥ g) < normS ({0} : Finset (Fin 2)) g := by
  right
  have hk := pCVdot_ker g hg
  have hS : normS ({0} : Finset (Fin 2)) g = g 0 * g 0 := by
    unfold normS; simp
  have hgg : g ⬝ᵥ g = g 0 * g 0 + g 1 * g 1 := by
    simp [dotProduct, Fin.sum_univ_two]
  have h1 : g 1 = -(3/4) * g 0 := by linarith
  have h0 : g 0 ≠ 0 := by
    intro h0
    apply hne
    funext i
    fin_cases i
    · exact h0
    · show g 1 = 0
      rw [h1, h0]; ring
  have hpos : 0 < g 0 * g 0 := mul_self_pos.mpr h0
  have ht0 : (0 : ℝ) ≤ Svd.wTol := Svd.wTol_nonneg
  have ht1 : (Svd.wTol : ℝ) ≤ 1 / 100 := Svd.wTol_le
  have htt : (Svd.wTol : ℝ) * Svd.wTol ≤ 1 / 10000 := by nlinarith
  rw [hS, hgg, h1]
  nlinarith

/-- the second-stage premise of `C02_refusal_svd` at `τ = Svd.wTol ≤ 1/100`: for `g = t·(4, −3)`,
    `‖g_S‖² = 16t²` and `τ²‖g‖² = 25τ²t²` -/
theorem pCVdot_gap (g : Fin pCVdot.n → ℝ) (hg : pCVdot.A *ᵥ g = 0) (hne : g ≠ 0) :
    normS pCVdot.S g = 0 ∨ (Svd.wTol : ℝ) * Svd.wTol * (g ⬝ᵥ g) < normS pCVdot.S g := by
  rw [pCVdot_A] at hg
  rw [pCVdot_S]
  exact pCVdot_gap2 g hg hne

end Gama.Ls.Ex
