/-
  Gram–Schmidt invariant library, part 8: consequences of "the flagged bottoms span ker A" and
  of the triangular shape of the lower block:
    * the last non-zero coordinate of a non-zero kernel vector is a flagged unknown
      (`ker_top_flagged`);
    * hence: an unknown is flagged IFF its column is a combination of the earlier columns, and
      the unflagged columns are linearly independent;
    * S-orthogonality to the flagged bottoms implies S-orthogonality to ker A (`sorth_ker`), used
      for every column of the lower block after `icgs2`: Q = C Cᵀ maps into the S-orthogonal
      complement of ker A ("belongs to the regularisation").
-/
import Gama.Lemmas.Ls.GsoRefuse

namespace Gama.Ls.Gso
open Gama Finset Matrix Gama.LS

set_option linter.unusedSectionVars false

variable {K : Type} [Field K] [LinearOrder K] [IsStrictOrderedRing K] [SqrtField K]

/-- the columns after `icgs1` -/
abbrev qsOf (p : Problem K) : List (Col K) := ((colsIn p).foldl (step1 (tolerance : K)) {}).qs

theorem qsOf_length (p : Problem K) (hU : Unambiguous p) : (qsOf p).length = p.n := by
  rw [(gso_final p hU).1.len]; exact augmented_length _ _ _ _

theorem gso_hsep (p : Problem K) (hU : Unambiguous p) :
    ∀ w : Fin p.n → K, (∀ j, ∑ i, matC p.n (qsOf p) i j * w i = 0) → w = 0 := by
  obtain ⟨I1, -⟩ := gso_final p hU
  have hql := qsOf_length p hU
  intro w hw
  have h1 : ∀ q ∈ qsOf p, dot q.bot (List.ofFn w) = 0 := by
    intro q hq
    obtain ⟨j, hj, rfl⟩ := List.getElem_of_mem hq
    rw [dot_ofFn _ (I1.aug _ (List.getElem_mem hj)).lbot]
    have := hw ⟨j, by rw [← hql]; exact hj⟩
    simp only [matC] at this
    have e : colAt (qsOf p) j = (qsOf p)[j] := by
      have := colAt_getElem? hj
      rw [List.getElem?_eq_getElem hj] at this
      exact (Option.some.inj this).symm
    rw [e] at this
    exact this
  have h2 := I1.spanBot _ h1
  funext k
  have hc : (colsIn p)[(k : Nat)]? = some
      { top := (List.range p.m).map fun r => aOf p r k,
        bot := (List.range p.n).map fun r => if r = (k : Nat) then 1 else 0 } := by
    simp [colsIn, augmented]
  have h3 := h2 _ (List.mem_of_getElem? hc)
  rw [dot_ofFn _ (by simp)] at h3
  rw [sum_eq_single_of_mem k (mem_univ k)] at h3
  · simpa [getD_map_range, k.2] using h3
  · intro i _ hik
    have : (i : Nat) ≠ (k : Nat) := fun h => hik (Fin.ext h)
    simp [i.2, this]

/-- every kernel vector is a combination of the flagged bottoms of the first phase -/
theorem gso_ker_span (p : Problem K) (hU : Unambiguous p) (g : Fin p.n → K) (hg : p.A *ᵥ g = 0) :
    ∃ c : Fin p.n → K, (∀ j, vecD p.n (qsOf p) j = 1 → c j = 0) ∧ g = matC p.n (qsOf p) *ᵥ c := by
  obtain ⟨I1, -⟩ := gso_final p hU
  have hql := qsOf_length p hU
  have hAC := matAC hql I1.aug
  rw [matA_eq] at hAC
  exact GsoAlg.ker_span hAC (matTT hql I1.gs) (gso_hsep p hU) g hg

theorem flag_iff_vecD (p : Problem K) (hU : Unambiguous p) (j : Fin p.n) :
    (j : Nat) + 1 ∈ (runOf p).dep ↔ vecD p.n (qsOf p) j = 0 := by
  obtain ⟨I1, F⟩ := gso_final p hU
  rw [F.dep]
  exact I1.flag j _ (colAt_getElem? (by rw [qsOf_length p hU]; exact j.2))

/-- upper-triangular `C`, coefficients vanishing beyond `J` with unit diagonal there:
    `(C c)_J = c_J` and `(C c)_i = 0` beyond `J` -/
theorem tri_top {N : Nat} (C : Matrix (Fin N) (Fin N) K) (htri : ∀ i j : Fin N, j < i → C i j = 0)
    (c : Fin N → K) (J : Fin N) (hmax : ∀ j, J < j → c j = 0) (hdiag : C J J = 1) :
    (C *ᵥ c) J = c J ∧ ∀ i, J < i → (C *ᵥ c) i = 0 := by
  constructor
  · simp only [mulVec, dotProduct]
    rw [sum_eq_single_of_mem J (mem_univ J)]
    · rw [hdiag, one_mul]
    · intro j _ hj
      rcases lt_or_gt_of_ne hj with h | h
      · rw [htri J j h, zero_mul]
      · rw [hmax j h, mul_zero]
  · intro i hi
    simp only [mulVec, dotProduct]
    refine sum_eq_zero fun j _ => ?_
    by_cases h : j < i
    · rw [htri i j h, zero_mul]
    · rw [hmax j (lt_of_lt_of_le hi (not_lt.1 h)), mul_zero]

/-- the last non-zero coordinate of a kernel vector is a flagged unknown -/
theorem ker_top_flagged (p : Problem K) (hU : Unambiguous p) (g : Fin p.n → K)
    (hg : p.A *ᵥ g = 0) (J : Fin p.n) (hJ : g J ≠ 0) (hmax : ∀ i, J < i → g i = 0) :
    (J : Nat) + 1 ∈ (runOf p).dep := by
  obtain ⟨I1, F⟩ := gso_final p hU
  have hql := qsOf_length p hU
  obtain ⟨c, hc1, hc2⟩ := gso_ker_span p hU g hg
  have htri : ∀ i j : Fin p.n, j < i → matC p.n (qsOf p) i j = 0 := fun i j hji =>
    I1.tri j _ (colAt_getElem? (by rw [hql]; exact j.2)) i hji
  have hcne : (univ.filter fun j : Fin p.n => c j ≠ 0).Nonempty := by
    by_contra hne
    rw [not_nonempty_iff_eq_empty] at hne
    have hc0 : c = 0 := by
      funext j
      by_contra hj
      have hj' : c j ≠ 0 := by simpa using hj
      have : j ∈ (univ.filter fun j : Fin p.n => c j ≠ 0) := by simp [hj']
      rw [hne] at this
      simp at this
    rw [hc2, hc0, mulVec_zero] at hJ
    exact hJ rfl
  set J' := (univ.filter fun j : Fin p.n => c j ≠ 0).max' hcne with hJ'
  have hcJ' : c J' ≠ 0 := (mem_filter.1 (max'_mem _ hcne)).2
  have hmax' : ∀ j, J' < j → c j = 0 := by
    intro j hj
    by_contra hcj
    have := le_max' (univ.filter fun j : Fin p.n => c j ≠ 0) j (by simp [hcj])
    exact absurd (lt_of_lt_of_le hj this) (lt_irrefl _)
  -- J' is flagged (its coefficient is non-zero), so the diagonal entry is 1
  have hflag' : vecD p.n (qsOf p) J' = 0 := by
    rcases vecD_01 hql I1.gs J' with h1 | h0
    · exact absurd (hc1 J' h1) hcJ'
    · exact h0
  have hmem' : (J' : Nat) + 1 ∈ (runOf p).dep := (flag_iff_vecD p hU J').2 hflag'
  have hdiag : matC p.n (qsOf p) J' J' = 1 := by
    rw [F.dep] at hmem'
    exact I1.diag J' _ (colAt_getElem? (by rw [hql]; exact J'.2)) hmem'
  obtain ⟨h1, h2⟩ := tri_top (matC p.n (qsOf p)) htri c J' hmax' hdiag
  rw [← hc2] at h1 h2
  rcases lt_trichotomy J J' with h | h | h
  · exact absurd (hmax J' h) (by rw [h1]; exact hcJ')
  · rw [h]; exact hmem'
  · exact absurd (h2 J h) hJ

/-- an unknown whose column is a combination of the earlier columns is flagged -/
theorem gso_lindep_conv {refuse : Bool} (p : Problem K) (hU : Unambiguous p) {ans : Answer K}
    (h : gsoSolveWith refuse p = .ok ans) (i : Nat) (hi : 1 ≤ i ∧ i ≤ p.n) (γ : Fin p.n → K)
    (hγ : ∀ j : Fin p.n, i - 1 ≤ j → γ j = 0)
    (hcol : ∀ r, p.A r ⟨i - 1, by omega⟩ = ∑ j, p.A r j * γ j) :
    ans.lindep i = .ok true := by
  obtain ⟨-, -, -, -, hlin, -⟩ := gsoSolveWith_ok h
  set J : Fin p.n := ⟨i - 1, by omega⟩ with hJdef
  let g : Fin p.n → K := fun j => if j = J then 1 else - γ j
  have hgJ : g J = 1 := by simp [g]
  have hg : p.A *ᵥ g = 0 := by
    funext r
    simp only [mulVec, dotProduct, Pi.zero_apply]
    have hsplit : ∀ j : Fin p.n, p.A r j * g j
        = (if j = J then p.A r J else 0) - p.A r j * γ j := by
      intro j
      by_cases hj : j = J
      · subst hj
        have : γ J = 0 := hγ J (le_refl _)
        simp [g, this]
      · simp [g, hj]
    rw [sum_congr rfl (fun j _ => hsplit j), sum_sub_distrib, sum_ite_eq' univ J]
    simp only [mem_univ, if_true]
    rw [hcol r]; exact sub_self _
  have hmax : ∀ j, J < j → g j = 0 := by
    intro j hj
    have hne : j ≠ J := ne_of_gt hj
    have : γ j = 0 := hγ j (by have : (J : Nat) < j := hj; simp [hJdef] at this; omega)
    simp [g, hne, this]
  have hmem := ker_top_flagged p hU g hg J (by rw [hgJ]; exact one_ne_zero) hmax
  rw [hlin i]
  have : (runOf p).dep.contains i = true := by
    apply List.contains_iff_mem.2
    have e : (J : Nat) + 1 = i := by simp [hJdef]; omega
    rw [← e]; exact hmem
  rw [this]

/-- the unflagged columns of `A` are linearly independent -/
theorem gso_removal_full_rank {refuse : Bool} (p : Problem K) (hU : Unambiguous p) {ans : Answer K}
    (h : gsoSolveWith refuse p = .ok ans) (γ : Fin p.n → K)
    (hγ : ∀ j : Fin p.n, ans.lindep (j + 1) = .ok true → γ j = 0) (hA : p.A *ᵥ γ = 0) : γ = 0 := by
  obtain ⟨-, -, -, -, hlin, -⟩ := gsoSolveWith_ok h
  by_contra hne
  have hsupp : (univ.filter fun j : Fin p.n => γ j ≠ 0).Nonempty := by
    by_contra hemp
    rw [not_nonempty_iff_eq_empty] at hemp
    apply hne
    funext j
    by_contra hj
    have hj' : γ j ≠ 0 := by simpa using hj
    have : j ∈ (univ.filter fun j : Fin p.n => γ j ≠ 0) := by simp [hj']
    rw [hemp] at this
    simp at this
  set J := (univ.filter fun j : Fin p.n => γ j ≠ 0).max' hsupp with hJ
  have hγJ : γ J ≠ 0 := (mem_filter.1 (max'_mem _ hsupp)).2
  have hmax : ∀ j, J < j → γ j = 0 := by
    intro j hj
    by_contra hcj
    have := le_max' (univ.filter fun j : Fin p.n => γ j ≠ 0) j (by simp [hcj])
    exact absurd (lt_of_lt_of_le hj this) (lt_irrefl _)
  have hmem := ker_top_flagged p hU γ hA J hγJ hmax
  apply hγJ
  apply hγ J
  rw [hlin]
  have := List.contains_iff_mem.2 hmem
  rw [this]

/-- S-orthogonality to the flagged bottoms implies S-orthogonality to the kernel of `A` -/
theorem sorth_ker (p : Problem K) (hU : Unambiguous p) (x : List K) (hx : x.length = p.n)
    (hxo : ∀ z ∈ (runOf p).dep, ∀ q : Col K, (stage1 p).cols[z - 1]? = some q →
      dotM (maskOf p.n p.reg) q.bot x = 0) :
    ∀ g, p.A *ᵥ g = 0 → ∑ i ∈ p.S, x.getD i 0 * g i = 0 := by
  intro g hg
  obtain ⟨I1, F⟩ := gso_final p hU
  have hql := qsOf_length p hU
  obtain ⟨c, hc1, hc2⟩ := gso_ker_span p hU g hg
  have hflag : ∀ j : Fin p.n, vecD p.n (qsOf p) j = 0 →
      ∑ i ∈ p.S, x.getD i 0 * matC p.n (qsOf p) i j = 0 := by
    intro j hj
    have hjl : (j : Nat) < (qsOf p).length := by rw [hql]; exact j.2
    have hmem := (flag_iff_vecD p hU j).2 hj
    have := hxo _ hmem (colAt (qsOf p) j) (by
      show (qsOf p)[(j : Nat) + 1 - 1]? = some (colAt (qsOf p) j)
      rw [Nat.add_sub_cancel]; exact colAt_getElem? hjl)
    rw [dotM_eq_sum p.n _ _ _ (length_maskOf _ _) (I1.aug _ (colAt_mem hjl)).lbot hx,
      sum_mask p (fun i => (colAt (qsOf p) j).bot.getD i 0 * x.getD i 0)] at this
    refine Eq.trans (sum_congr rfl fun i _ => ?_) this
    rw [mul_comm]; rfl
  rw [hc2]
  have : ∑ i ∈ p.S, x.getD i 0 * (matC p.n (qsOf p) *ᵥ c) i
      = ∑ j, c j * ∑ i ∈ p.S, x.getD i 0 * matC p.n (qsOf p) i j := by
    simp only [mulVec, dotProduct, mul_sum]
    rw [sum_comm]
    refine sum_congr rfl fun j _ => sum_congr rfl fun i _ => by ring
  rw [this]
  refine sum_eq_zero fun j _ => ?_
  rcases vecD_01 hql I1.gs j with h1 | h0
  · rw [hc1 j h1, zero_mul]
  · rw [hflag j h0, mul_zero]

/-- **Q belongs to the regularisation**: every column of the lower block after `icgs2`, hence
    every vector `Q y` with `Q = C Cᵀ`, is S-orthogonal to the kernel of `A` -/
theorem gso_Q_belongs (p : Problem K) (hU : Unambiguous p) (y g : Fin p.n → K) (hg : p.A *ᵥ g = 0) :
    ∑ i ∈ p.S, ((gsoC p * (gsoC p)ᵀ) *ᵥ y) i * g i = 0 := by
  obtain ⟨-, F⟩ := gso_final p hU
  have hl := F.colsLen
  have hcol : ∀ k : Fin p.n, ∑ i ∈ p.S, gsoC p i k * g i = 0 := by
    intro k
    have hkl : (k : Nat) < (runOf p).cols.length := by rw [hl]; exact k.2
    have hmem := colAt_mem hkl
    exact sorth_ker p hU (colAt (runOf p).cols k).bot (F.colsAug _ hmem).lbot
      (fun z hz q hq => F.colsSOrth _ hmem z hz q hq) g hg
  rw [← mulVec_mulVec]
  generalize (gsoC p)ᵀ *ᵥ y = w
  have : ∑ i ∈ p.S, (gsoC p *ᵥ w) i * g i = ∑ k, w k * ∑ i ∈ p.S, gsoC p i k * g i := by
    simp only [mulVec, dotProduct, sum_mul, mul_sum]
    rw [sum_comm]
    refine sum_congr rfl fun k _ => sum_congr rfl fun i _ => by ring
  rw [this]
  exact sum_eq_zero fun k _ => by rw [hcol k, mul_zero]

end Gama.Ls.Gso
