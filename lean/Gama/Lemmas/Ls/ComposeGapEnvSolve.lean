/-
  ONE hypothesis on the problem data for the envelope solver as run: the weighted gap condition
  `GapAllP A P τ` — every exact Schur-complement pivot of `N = AᵀPA`, in ANY pivot order, is 0 or
  larger than `τ` — implies `Env.SolveUnambiguous p` for `τ = sqrt(eps)` (the code's tolerance),
  whatever ordering reverse Cuthill–McKee picks and whatever factor `W` the homogenisation computes
  (`(W A β)·(W A β) = (A β)ᵀ P (A β)` for `WᵀW = P`).
-/
import Gama.Lemmas.Ls.ComposeEnvSolve
import Gama.Lemmas.Ls.ComposeGapEnv
import Gama.Lemmas.LS.Transform

namespace Gama.Ls
open Finset Matrix Gama.LS Gama.Ls.AdjM Gama.Ls.Env

set_option linter.unusedSectionVars false

section
variable {K : Type} [Field K] [LinearOrder K] [IsStrictOrderedRing K] {m n : ℕ}

/-- weighted gap condition: for every column `k` and every `β` with `β k = 1` whose weighted
    residual `A β` is `P`-orthogonal to every other column it uses, `(Aβ)ᵀP(Aβ)` is exactly 0 or `> τ`
    (a statement about `A` and `P` only: the Schur-complement pivots of `AᵀPA` in every order) -/
def GapAllP (A : Matrix (Fin m) (Fin n) K) (P : Matrix (Fin m) (Fin m) K) (τ : K) : Prop :=
  ∀ (k : Fin n) (β : Fin n → K), β k = 1 →
    (∀ j, j ≠ k → β j ≠ 0 → (Aᵀ *ᵥ (P *ᵥ (A *ᵥ β))) j = 0) →
    (A *ᵥ β) ⬝ᵥ P *ᵥ (A *ᵥ β) = 0 ∨ τ < (A *ᵥ β) ⬝ᵥ P *ᵥ (A *ᵥ β)

theorem GapAllP.one {A : Matrix (Fin m) (Fin n) K} {τ : K} : GapAllP A 1 τ ↔ GapAll A τ := by
  unfold GapAllP GapAll
  simp only [one_mulVec]

/-- the gap condition of the whitened matrix `W A` is the weighted one of `A` with `P = WᵀW` -/
theorem GapAllP.whiten {A : Matrix (Fin m) (Fin n) K} {P W : Matrix (Fin m) (Fin m) K} {τ : K}
    (hW : Wᵀ * W = P) (h : GapAllP A P τ) : GapAll (W * A) τ := by
  intro k β hk horth
  have e1 : ∀ β : Fin n → K, (W * A)ᵀ *ᵥ ((W * A) *ᵥ β) = Aᵀ *ᵥ (P *ᵥ (A *ᵥ β)) := by
    intro β
    rw [← hW, transpose_mul, ← mulVec_mulVec, ← mulVec_mulVec, ← mulVec_mulVec]
  have e2 : ∀ β : Fin n → K, ((W * A) *ᵥ β) ⬝ᵥ ((W * A) *ᵥ β) = (A *ᵥ β) ⬝ᵥ P *ᵥ (A *ᵥ β) := by
    intro β
    rw [← hW, gram_dot, mulVec_mulVec]
  rw [e2]
  exact h k β hk fun j hj hb => by rw [← e1]; exact horth j hj hb

end

variable {K : Type} [Field K] [LinearOrder K] [IsStrictOrderedRing K] [SqrtFn K]
attribute [local instance 2000] scalarOfField

/-- **"rank numerically unambiguous" for `envSolve` from ONE condition on `(A, P)`** -/
theorem Env.solveUnambiguous_of_gap (hsq : IsSqrt (SqrtFn.sq : K → K)) (p : Problem K) (hin : Env.InputOK p)
    (P : Matrix (Fin p.m) (Fin p.m) K) (hP : p.C * P = 1)
    (hG : GapAllP p.A P (Env.sqrtEps : K)) : Env.SolveUnambiguous p := by
  intro hh hhom
  obtain ⟨hO, W, hW, -, hAt, -, -⟩ := Env.solve_setup hsq p hin P hP hh hhom
  refine factUnambiguous_of_gapAll (SqrtFn.sq : K → K) (Env.sqrtEps : K) p.m p.n hh.At hh.bt _ hO ?_
  rw [hAt]
  exact GapAllP.whiten hW hG

end Gama.Ls
