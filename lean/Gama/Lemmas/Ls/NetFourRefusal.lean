/-
  Lifting the four-solver "answered ⇔ the subset resolves the defect" statement (`Props/C02SvdGap.lean`, solver-class
  level) to `LocalNetwork`: what is needed besides the solver-class theorem.

    * `netFull_answers_iff`   gso / cholesky / svd behind `LocalNetwork`: `netSolve alg np` answers ⇔ the solver class
                              answers the homogenised dense system `dotProblem np hh` (none of the three full solvers
                              returns a record with `xErr` set: they throw)
    * `netSparse_answers_iff` envelope: `netSolve .env np` answers ⇔ `envSolve (toProblem np)` returns a record whose
                              `unknowns()` did not throw
    * `envSolve_answers_resolves`  the ⇒ half of `envSolve_refusal` WITHOUT the second-stage premise
                              `SolveGSUnambiguous` (through `Env.envCore_answers_resolves`, b-W7d)
    * `resolves_whiten`, `SDich.whiten`  both conditions only see `ker A`, which an injective whitening keeps
-/
import Gama.Lemmas.Ls.SvdGapRefusal
import Gama.Lemmas.Ls.ComposeAdjExample
import Gama.Lemmas.Ls.ComposeEnvSolve
import Gama.Lemmas.Ls.NetFacade
namespace Gama.Ls
open Gama Gama.LS Matrix

set_option linter.unusedSectionVars false
set_option linter.unusedVariables false

section ker
variable {K : Type} [Field K] [LinearOrder K] [IsStrictOrderedRing K] {m n : ℕ}
  {A : Matrix (Fin m) (Fin n) K} {W : Matrix (Fin m) (Fin m) K} {S : Finset (Fin n)} {τ : K}

theorem ker_whiten_iff (hW : ∀ d, W *ᵥ d = 0 → d = 0) (g : Fin n → K) : (W * A) *ᵥ g = 0 ↔ A *ᵥ g = 0 := by
  rw [← mulVec_mulVec]
  exact ⟨fun h => hW _ h, fun h => by rw [h, mulVec_zero]⟩

theorem resolves_whiten (hW : ∀ d, W *ᵥ d = 0 → d = 0) : Resolves (W * A) S ↔ Resolves A S :=
  ⟨fun h g hg hS => h g ((ker_whiten_iff hW g).2 hg) hS, fun h g hg hS => h g ((ker_whiten_iff hW g).1 hg) hS⟩

theorem SDich.whiten (hW : ∀ d, W *ᵥ d = 0 → d = 0) : SDich (W * A) S τ ↔ SDich A S τ :=
  ⟨fun h g hg hne => h g ((ker_whiten_iff hW g).2 hg) hne, fun h g hg hne => h g ((ker_whiten_iff hW g).1 hg) hne⟩

end ker

section scalar
variable {K : Type} [Scalar K]

theorem cholSolve_xErr {p : Problem K} {a : Answer K} (h : cholSolve p = .ok a) : a.xErr = none := by
  unfold cholSolve at h
  cases hs : Chol.solve p with
  | error e => rw [hs] at h; cases h
  | ok s => rw [hs] at h; cases h; rfl

theorem svdSolve_xErr' {p : Problem K} {s : Answer K} (h : svdSolve p = .ok s) : s.xErr = none := by
  have h' : svdSolveWith true p = .ok s := h
  unfold svdSolveWith at h'
  split at h'
  · cases h'
  · exact Ex.answerOf_xErr h'

/-- no full solver returns a record with the deferred error set -/
theorem full_xErr (alg : Alg) (halg : alg ≠ .env) {p : Problem K} {s : Answer K} (h : solverOf alg p = .ok s) :
    s.xErr = none := by
  cases alg with
  | env => exact absurd rfl halg
  | chol => exact cholSolve_xErr h
  | gso => exact gsoSolveWith_xErr h
  | svd => exact svdSolve_xErr' h

open Net in
/-- gso / cholesky / svd behind `LocalNetwork` answer exactly when the solver class answers the homogenised system -/
theorem netFull_answers_iff (alg : Alg) (halg : alg ≠ .env) (np : NetProblem K) (hh : Hom K) (hp : prepare np = .ok hh) :
    (∃ a, netSolve alg np = .ok a) ↔ ∃ s, solverOf alg (Net.dotProblem np hh) = .ok s := by
  have e : netSolve alg np = netFull alg np := by cases alg <;> first | rfl | exact absurd rfl halg
  rw [e]
  unfold netFull
  simp only [hp]
  cases hs : solverOf alg (Net.dotProblem np hh) with
  | error e0 => exact ⟨fun ⟨a, ha⟩ => (by cases ha), fun ⟨s, h⟩ => (by cases h)⟩
  | ok s =>
    have hx := full_xErr alg halg hs
    simp only [hx]
    exact ⟨fun _ => ⟨s, rfl⟩, fun _ => ⟨_, rfl⟩⟩

open Net in
/-- the envelope behind `LocalNetwork` answers exactly when `envSolve` returns and its `unknowns()` did not throw -/
theorem netSparse_answers_iff (np : NetProblem K) (hh : Hom K) (hp : prepare np = .ok hh) :
    (∃ a, netSolve .env np = .ok a) ↔ ∃ s, envSolve (toProblem np) = .ok s ∧ s.xErr = none := by
  show (∃ a, netSparse np = .ok a) ↔ _
  unfold netSparse
  simp only [hp]
  have e : solverOf (K := K) .env (toProblem np) = envSolve (toProblem np) := rfl
  rw [e]
  cases hs : envSolve (toProblem np) with
  | error e0 => exact ⟨fun ⟨a, ha⟩ => (by cases ha), fun ⟨s, h, _⟩ => (by cases h)⟩
  | ok s =>
    cases hx : s.xErr with
    | some e1 =>
      simp only [hx]
      exact ⟨fun ⟨a, ha⟩ => (by cases ha), fun ⟨s', h, hx'⟩ => (by cases h; rw [hx] at hx'; cases hx')⟩
    | none =>
      simp only [hx]
      exact ⟨fun _ => ⟨s, rfl, hx⟩, fun _ => ⟨_, rfl⟩⟩

end scalar

section env
variable {K : Type} [Field K] [LinearOrder K] [IsStrictOrderedRing K] [SqrtFn K]
attribute [local instance 2000] scalarOfField

/-- **`envSolve` answered ⇒ the subset resolves the defect** — factorisation premise only (the ⇒ half of
    `envSolve_refusal` without `SolveGSUnambiguous`) -/
theorem envSolve_answers_resolves (hsq : IsSqrt (SqrtFn.sq : K → K)) (p : Problem K) (hin : Env.InputOK p)
    (hreg : Env.RegListOK p) (hU : Env.SolveUnambiguous p)
    (P : Matrix (Fin p.m) (Fin p.m) K) (hP : p.C * P = 1)
    (a : Answer K) (h : envSolve p = .ok a) (hx : a.xErr = none) : Resolves p.A p.S := by
  obtain ⟨hh, hhom, -, -, -, -, -, -, -, hxs⟩ := envSolve_shape p a h
  obtain ⟨hO, W, hW, hWinj, hAt, hbt, -⟩ := Env.solve_setup hsq p hin P hP hh hhom
  rcases hxs with ⟨x, hcx, -, -⟩ | ⟨e, -, hae⟩
  · exact Env.envCore_answers_resolves (SqrtFn.sq : K → K) (Env.sqrtEps : K) (Env.sqrtEps : K) p.m p.n p.dense p.rhs
      hh.At hh.bt p.reg _ hsq hO (hU hh hhom) Env.sqrtEps_pos Env.sqrtEps_pos hWinj hAt (Env.regOK_of p hreg hO) hcx
  · rw [hae] at hx; cases hx

end env

end Gama.Ls
