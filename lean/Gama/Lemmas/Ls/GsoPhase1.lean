/-
  Gram–Schmidt invariant library (DESIGN §5.2), part 2: the first orthogonalisation `icgs1`
  on the augmented matrix `[A -b; I 0]`.

  * augmented-matrix invariant `AugG`: `top(col) = A · bottom(col) − β` is kept by the two
    column operations (`Col.axpy` with a column of the homogeneous kind, `Col.scale`);
  * `Inv1`: after processing a prefix `cs` of the columns —
      the processed tops are pairwise orthogonal, of unit length (not flagged) or zero (flagged),
      `lindep` is strictly increasing,
      every original top lies in the span of the processed tops and every original bottom in
      the span of the processed bottoms (dual form: a vector orthogonal to all processed ones is
      orthogonal to the original ones),
      the processed bottoms are upper triangular, with diagonal 1 on flagged columns;
  * `inv1_foldl`: `Inv1` holds for the state after the loop, under `Unambiguous`
    (every tested norm is exactly 0 or > tolerance).
-/
import Gama.Lemmas.Ls.GsoVec
import Mathlib.Algebra.BigOperators.Ring.Finset
import Mathlib.Algebra.BigOperators.Group.Finset.Basic

namespace Gama.Ls.Gso
open Gama Finset

set_option linter.unusedSectionVars false

variable {K : Type} [Field K] [LinearOrder K] [IsStrictOrderedRing K] [SqrtField K]

-- ------------------------------------------------------------------ projections of the pass

theorem subAll_top (p : Col K) (rs : List K) (qs : List (Col K)) :
    (subAll p rs qs).top = subAllB p.top rs (qs.map (·.top)) := by
  induction qs generalizing p rs with
  | nil => cases rs <;> simp [subAll, subAllB]
  | cons q qs ih => cases rs with
    | nil => simp [subAll, subAllB]
    | cons r rs => simp [subAll, subAllB, ih, Col.axpy]

theorem subAll_bot (p : Col K) (rs : List K) (qs : List (Col K)) :
    (subAll p rs qs).bot = subAllB p.bot rs (qs.map (·.bot)) := by
  induction qs generalizing p rs with
  | nil => cases rs <;> simp [subAll, subAllB]
  | cons q qs ih => cases rs with
    | nil => simp [subAll, subAllB]
    | cons r rs => simp [subAll, subAllB, ih, Col.axpy]

-- ------------------------------------------------------------------ augmented invariant

/-- `top = A · bottom − β`, row by row, with the block dimensions -/
structure AugG (a : Nat → Nat → K) (β : Nat → K) (M N : Nat) (c : Col K) : Prop where
  ltop : c.top.length = M
  lbot : c.bot.length = N
  eq : ∀ r, r < M → c.top.getD r 0 = (∑ j ∈ range N, a r j * c.bot.getD j 0) - β r

/-- homogeneous kind (columns 1..N): `top = A · bottom` -/
abbrev Aug (a : Nat → Nat → K) (M N : Nat) (c : Col K) : Prop := AugG a (fun _ => 0) M N c

theorem AugG.axpy {a : Nat → Nat → K} {β : Nat → K} {M N : Nat} {p q : Col K}
    (hp : AugG a β M N p) (hq : Aug a M N q) (r : K) : AugG a β M N (p.axpy r q) := by
  refine ⟨by simp [Col.axpy, hp.ltop, hq.ltop], by simp [Col.axpy, hp.lbot, hq.lbot], ?_⟩
  intro i hi
  simp only [Col.axpy]
  rw [getD_vaxpy _ _ _ _ (hp.ltop.trans hq.ltop.symm), hp.eq i hi, hq.eq i hi]
  have : ∀ j ∈ range N, a i j * (vaxpy p.bot r q.bot).getD j 0
      = a i j * p.bot.getD j 0 - r * (a i j * q.bot.getD j 0) := by
    intro j _
    rw [getD_vaxpy _ _ _ _ (hp.lbot.trans hq.lbot.symm)]; ring
  rw [sum_congr rfl this, sum_sub_distrib, ← mul_sum]; ring

theorem AugG.scale {a : Nat → Nat → K} {M N : Nat} {p : Col K} (hp : Aug a M N p) (s : K) :
    Aug a M N (p.scale s) := by
  refine ⟨by simp [Col.scale, hp.ltop], by simp [Col.scale, hp.lbot], ?_⟩
  intro i hi
  simp only [Col.scale, getD_vscale]
  rw [hp.eq i hi]
  simp only [sub_zero]
  rw [sum_mul]
  exact sum_congr rfl fun j _ => by ring

theorem AugG.subAll {a : Nat → Nat → K} {β : Nat → K} {M N : Nat} (p : Col K) (rs : List K)
    (qs : List (Col K)) (hp : AugG a β M N p) (hq : ∀ q ∈ qs, Aug a M N q) :
    AugG a β M N (subAll p rs qs) := by
  induction qs generalizing p rs with
  | nil => cases rs <;> simpa [Gso.subAll] using hp
  | cons q qs ih => cases rs with
    | nil => simpa [Gso.subAll] using hp
    | cons r rs =>
      simp only [Gso.subAll]
      exact ih _ _ (hp.axpy (hq q (by simp)) r) fun q' hq' => hq q' (by simp [hq'])

theorem AugG.orth1 {a : Nat → Nat → K} {β : Nat → K} {M N : Nat} (p : Col K)
    (qs : List (Col K)) (hp : AugG a β M N p) (hq : ∀ q ∈ qs, Aug a M N q) :
    AugG a β M N (orth1 qs p) := by
  unfold Gso.orth1 cgs1
  exact AugG.subAll _ _ _ (AugG.subAll _ _ _ hp hq) hq

-- ------------------------------------------------------------------ orthogonality of one step

theorem cgs1_top (qs : List (Col K)) (p : Col K) :
    (cgs1 qs p).top = subAllB p.top ((qs.map (·.top)).map (dot p.top)) (qs.map (·.top)) := by
  unfold cgs1
  rw [subAll_top, List.map_map]
  rfl

theorem cgs1_top_orth {M : Nat} (qs : List (Col K)) (h : GSOk M dot (qs.map (·.top))) (p : Col K)
    (hp : p.top.length = M) : ∀ q ∈ qs, dot (cgs1 qs p).top q.top = 0 := by
  intro q hq
  rw [cgs1_top]
  exact cgs_orth (isForm_dot M) _ h p.top hp (dot p.top) (fun _ _ => rfl) q.top
    (List.mem_map.2 ⟨q, hq, rfl⟩)

theorem cgs1_top_length {M : Nat} (qs : List (Col K)) (h : ∀ q ∈ qs, q.top.length = M) (p : Col K)
    (hp : p.top.length = M) : (cgs1 qs p).top.length = M := by
  rw [cgs1_top]
  apply length_subAllB _ _ _ hp
  intro t ht
  obtain ⟨q, hq, rfl⟩ := List.mem_map.1 ht
  exact h q hq

theorem orth1_top_orth {M : Nat} (qs : List (Col K)) (h : GSOk M dot (qs.map (·.top))) (p : Col K)
    (hp : p.top.length = M) : ∀ q ∈ qs, dot (orth1 qs p).top q.top = 0 := by
  unfold orth1
  apply cgs1_top_orth qs h
  exact cgs1_top_length qs (fun q hq => h.len _ (List.mem_map.2 ⟨q, hq, rfl⟩)) p hp

/-- the second pass of `icgs1` is the identity on the top block in exact arithmetic -/
theorem orth1_top_eq {M : Nat} (qs : List (Col K)) (h : GSOk M dot (qs.map (·.top))) (p : Col K)
    (hp : p.top.length = M) : (orth1 qs p).top = (cgs1 qs p).top := by
  unfold orth1
  rw [cgs1_top qs (cgs1 qs p), cgs1_top qs p]
  exact cgs_second_pass_id (isForm_dot M) _ h p.top hp

/-- a functional on tops, linear along `vaxpy`, vanishing on the processed tops, does not see
    the orthogonalisation -/
theorem lin_orth1_top {M : Nat} (φ : List K → K)
    (hφ : ∀ p q r, p.length = M → q.length = M → φ (vaxpy p r q) = φ p - r * φ q)
    (qs : List (Col K)) (p : Col K) (hp : p.top.length = M)
    (hq : ∀ q ∈ qs, q.top.length = M ∧ φ q.top = 0) : φ (orth1 qs p).top = φ p.top := by
  have hq' : ∀ t ∈ qs.map (·.top), t.length = M ∧ φ t = 0 := by
    intro t ht
    obtain ⟨q, hq1, rfl⟩ := List.mem_map.1 ht
    exact hq q hq1
  unfold orth1 cgs1
  rw [subAll_top, lin_subAllB φ hφ _ _ _ _ hq', subAll_top, lin_subAllB φ hφ _ _ _ hp hq']
  rw [subAll_top]
  exact length_subAllB _ _ _ hp fun t ht => (hq' t ht).1

theorem lin_orth1_bot {N : Nat} (φ : List K → K)
    (hφ : ∀ p q r, p.length = N → q.length = N → φ (vaxpy p r q) = φ p - r * φ q)
    (qs : List (Col K)) (p : Col K) (hp : p.bot.length = N)
    (hq : ∀ q ∈ qs, q.bot.length = N ∧ φ q.bot = 0) : φ (orth1 qs p).bot = φ p.bot := by
  have hq' : ∀ t ∈ qs.map (·.bot), t.length = N ∧ φ t = 0 := by
    intro t ht
    obtain ⟨q, hq1, rfl⟩ := List.mem_map.1 ht
    exact hq q hq1
  unfold orth1 cgs1
  rw [subAll_bot, lin_subAllB φ hφ _ _ _ _ hq', subAll_bot, lin_subAllB φ hφ _ _ _ hp hq']
  rw [subAll_bot]
  exact length_subAllB _ _ _ hp fun t ht => (hq' t ht).1

-- ------------------------------------------------------------------ the loop invariant

theorem getElem?_snoc_some {α : Type} {l : List α} {x q : α} {i : Nat}
    (h : (l ++ [x])[i]? = some q) : (i < l.length ∧ l[i]? = some q) ∨ (i = l.length ∧ q = x) := by
  rw [List.getElem?_append] at h
  split at h
  · left; exact ⟨by assumption, h⟩
  · right
    rename_i hi
    have hi' : l.length ≤ i := Nat.le_of_not_lt hi
    rcases Nat.eq_or_lt_of_le hi' with he | hl
    · subst he; simp at h; exact ⟨rfl, h.symm⟩
    · have : i - l.length ≠ 0 := by omega
      obtain ⟨k, hk⟩ := Nat.exists_eq_succ_of_ne_zero this
      rw [hk] at h; simp at h

/-- state of `icgs1` after the columns `cs` (a prefix of columns 1..N) -/
structure Inv1 (a : Nat → Nat → K) (M N : Nat) (cs : List (Col K)) (s : S1 K) : Prop where
  len : s.qs.length = cs.length
  aug : ∀ q ∈ s.qs, Aug a M N q
  gs : GSOk M dot (s.qs.map (·.top))
  flag : ∀ i (q : Col K), s.qs[i]? = some q → ((i + 1) ∈ s.dep ↔ dot q.top q.top = 0)
  depLe : ∀ z ∈ s.dep, 1 ≤ z ∧ z ≤ s.qs.length
  depSorted : s.dep.Pairwise (· < ·)
  spanTop : ∀ w, (∀ q ∈ s.qs, dot q.top w = 0) → ∀ c ∈ cs, dot c.top w = 0
  spanBot : ∀ w, (∀ q ∈ s.qs, dot q.bot w = 0) → ∀ c ∈ cs, dot c.bot w = 0
  tri : ∀ i (q : Col K), s.qs[i]? = some q → ∀ j, i < j → q.bot.getD j 0 = 0
  diag : ∀ i (q : Col K), s.qs[i]? = some q → (i + 1) ∈ s.dep → q.bot.getD i 0 = 1

theorem inv1_nil (a : Nat → Nat → K) (M N : Nat) : Inv1 a M N [] ({} : S1 K) where
  len := rfl
  aug := by simp
  gs := GSOk.nil
  flag := by simp
  depLe := by simp
  depSorted := List.Pairwise.nil
  spanTop := by simp
  spanBot := by simp
  tri := by simp
  diag := by simp

/-- one column of `icgs1` -/
theorem inv1_step {a : Nat → Nat → K} {M N : Nat} {tol : K} (htol : 0 ≤ tol)
    {cs : List (Col K)} {s : S1 K} (h : Inv1 a M N cs s) (c : Col K) (hc : Aug a M N c)
    (hctri : ∀ j, cs.length < j → c.bot.getD j 0 = 0) (hcdiag : c.bot.getD cs.length 0 = 1)
    (hU : norm1 (orth1 s.qs c) = 0 ∨ tol < norm1 (orth1 s.qs c)) :
    Inv1 a M N (cs ++ [c]) (step1 tol s c) := by
  set p := orth1 s.qs c with hpdef
  have hpaug : Aug a M N p := AugG.orth1 c s.qs hc h.aug
  have hporth : ∀ q ∈ s.qs, dot p.top q.top = 0 := orth1_top_orth s.qs h.gs c hc.ltop
  have hnn : 0 ≤ dot p.top p.top := dot_self_nonneg _
  have hsq : norm1 p * norm1 p = dot p.top p.top := SqrtField.sqrt_mul_self hnn
  have hlt : ∀ q ∈ s.qs, q.top.length = M := fun q hq => (h.aug q hq).ltop
  have hlb : ∀ q ∈ s.qs, q.bot.length = N := fun q hq => (h.aug q hq).lbot
  -- functionals unchanged by the orthogonalisation
  have hPtop : ∀ w, (∀ q ∈ s.qs, dot q.top w = 0) → dot p.top w = dot c.top w := fun w hw =>
    lin_orth1_top (fun v => dot v w) (fun a b r ha hb => dot_vaxpy a b w r (ha.trans hb.symm))
      s.qs c hc.ltop fun q hq => ⟨hlt q hq, hw q hq⟩
  have hPbot : ∀ w, (∀ q ∈ s.qs, dot q.bot w = 0) → dot p.bot w = dot c.bot w := fun w hw =>
    lin_orth1_bot (fun v => dot v w) (fun a b r ha hb => dot_vaxpy a b w r (ha.trans hb.symm))
      s.qs c hc.lbot fun q hq => ⟨hlb q hq, hw q hq⟩
  have hPget : ∀ j, cs.length ≤ j → p.bot.getD j 0 = c.bot.getD j 0 := fun j hj =>
    lin_orth1_bot (fun v => v.getD j 0) (fun a b r ha hb => getD_vaxpy a b r j (ha.trans hb.symm))
      s.qs c hc.lbot fun q hq => by
        refine ⟨hlb q hq, ?_⟩
        obtain ⟨i, hi, rfl⟩ := List.getElem_of_mem hq
        exact h.tri i _ (List.getElem?_eq_getElem hi) j (by rw [h.len] at hi; omega)
  have hlen : (s.qs ++ [p]).length = (cs ++ [c]).length := by simp [h.len]
  by_cases hb : tol < norm1 p
  · -- independent column: normalised
    have hr0 : norm1 p ≠ 0 := ne_of_gt (lt_of_le_of_lt htol hb)
    have hstep : step1 tol s c = S1.mk (s.qs ++ [p.scale (1 / norm1 p)]) s.dep
        (s.tested ++ [norm1 p]) := by
      simp only [step1, ← hpdef, if_pos hb]
    rw [hstep]
    have hunit : dot (p.scale (1 / norm1 p)).top (p.scale (1 / norm1 p)).top = 1 :=
      (isForm_dot M).unit_of_scale p.top hsq hr0
    refine ⟨by simp [h.len], ?_, ?_, ?_, ?_, h.depSorted, ?_, ?_, ?_, ?_⟩
    · intro q hq
      rcases List.mem_append.1 hq with hq | hq
      · exact h.aug q hq
      · rw [List.mem_singleton.1 hq]; exact hpaug.scale _
    · rw [List.map_append, List.map_singleton]
      refine h.gs.snoc (isForm_dot M) (by simp [Col.scale, hpaug.ltop]) ?_ (Or.inl hunit)
      intro t ht
      obtain ⟨q, hq, rfl⟩ := List.mem_map.1 ht
      simp only [Col.scale, dot_vscale, hporth q hq, mul_zero]
    · intro i q hq
      rcases getElem?_snoc_some hq with ⟨_, hq⟩ | ⟨hi, rfl⟩
      · exact h.flag i q hq
      · constructor
        · intro hmem
          have := (h.depLe _ hmem).2
          omega
        · intro h0; rw [hunit] at h0; exact absurd h0 one_ne_zero
    · intro z hz
      have := h.depLe z hz
      simp only [List.length_append, List.length_singleton]
      omega
    · intro w hw c' hc'
      have hw' : ∀ q ∈ s.qs, dot q.top w = 0 := fun q hq => hw q (by simp [hq])
      rcases List.mem_append.1 hc' with hc' | hc'
      · exact h.spanTop w hw' c' hc'
      · rw [List.mem_singleton.1 hc', ← hPtop w hw']
        have := hw (p.scale (1 / norm1 p)) (by simp)
        simp only [Col.scale, dot_vscale] at this
        rcases mul_eq_zero.1 this with h1 | h1
        · exact absurd h1 (one_div_ne_zero hr0)
        · exact h1
    · intro w hw c' hc'
      have hw' : ∀ q ∈ s.qs, dot q.bot w = 0 := fun q hq => hw q (by simp [hq])
      rcases List.mem_append.1 hc' with hc' | hc'
      · exact h.spanBot w hw' c' hc'
      · rw [List.mem_singleton.1 hc', ← hPbot w hw']
        have := hw (p.scale (1 / norm1 p)) (by simp)
        simp only [Col.scale, dot_vscale] at this
        rcases mul_eq_zero.1 this with h1 | h1
        · exact absurd h1 (one_div_ne_zero hr0)
        · exact h1
    · intro i q hq j hij
      rcases getElem?_snoc_some hq with ⟨_, hq⟩ | ⟨hi, rfl⟩
      · exact h.tri i q hq j hij
      · simp only [Col.scale, getD_vscale]
        rw [hPget j (by rw [← h.len]; omega), hctri j (by rw [← h.len]; omega), zero_mul]
    · intro i q hq hmem
      rcases getElem?_snoc_some hq with ⟨_, hq⟩ | ⟨hi, rfl⟩
      · exact h.diag i q hq hmem
      · have := (h.depLe _ hmem).2
        omega
  · -- dependent column: flagged, left as it is
    have hr0 : norm1 p = 0 := by
      rcases hU with h0 | h1
      · exact h0
      · exact absurd h1 hb
    have hzero : dot p.top p.top = 0 := by rw [← hsq, hr0, mul_zero]
    have hstep : step1 tol s c = S1.mk (s.qs ++ [p]) (s.dep ++ [s.qs.length + 1])
        (s.tested ++ [norm1 p]) := by
      simp only [step1, ← hpdef, if_neg hb]
    rw [hstep]
    refine ⟨by simp [h.len], ?_, ?_, ?_, ?_, ?_, ?_, ?_, ?_, ?_⟩
    · intro q hq
      rcases List.mem_append.1 hq with hq | hq
      · exact h.aug q hq
      · rw [List.mem_singleton.1 hq]; exact hpaug
    · rw [List.map_append, List.map_singleton]
      refine h.gs.snoc (isForm_dot M) hpaug.ltop ?_ (Or.inr hzero)
      intro t ht
      obtain ⟨q, hq, rfl⟩ := List.mem_map.1 ht
      exact hporth q hq
    · intro i q hq
      rcases getElem?_snoc_some hq with ⟨hi, hq⟩ | ⟨hi, rfl⟩
      · rw [← h.flag i q hq]
        simp only [List.mem_append, List.mem_singleton]
        constructor
        · rintro (h1 | h1)
          · exact h1
          · omega
        · exact Or.inl
      · simp [hi, hzero]
    · intro z hz
      simp only [List.length_append, List.length_singleton]
      rcases List.mem_append.1 hz with hz | hz
      · have := h.depLe z hz; omega
      · rw [List.mem_singleton.1 hz]; omega
    · rw [List.pairwise_append]
      refine ⟨h.depSorted, by simp, ?_⟩
      intro z hz y hy
      rw [List.mem_singleton.1 hy]
      have := (h.depLe z hz).2
      omega
    · intro w hw c' hc'
      have hw' : ∀ q ∈ s.qs, dot q.top w = 0 := fun q hq => hw q (by simp [hq])
      rcases List.mem_append.1 hc' with hc' | hc'
      · exact h.spanTop w hw' c' hc'
      · rw [List.mem_singleton.1 hc', ← hPtop w hw']
        exact hw p (by simp)
    · intro w hw c' hc'
      have hw' : ∀ q ∈ s.qs, dot q.bot w = 0 := fun q hq => hw q (by simp [hq])
      rcases List.mem_append.1 hc' with hc' | hc'
      · exact h.spanBot w hw' c' hc'
      · rw [List.mem_singleton.1 hc', ← hPbot w hw']
        exact hw p (by simp)
    · intro i q hq j hij
      rcases getElem?_snoc_some hq with ⟨_, hq⟩ | ⟨hi, rfl⟩
      · exact h.tri i q hq j hij
      · rw [hPget j (by rw [← h.len]; omega), hctri j (by rw [← h.len]; omega)]
    · intro i q hq hmem
      rcases getElem?_snoc_some hq with ⟨hi, hq⟩ | ⟨hi, rfl⟩
      · refine h.diag i q hq ?_
        rcases List.mem_append.1 hmem with h1 | h1
        · exact h1
        · have := List.mem_singleton.1 h1; omega
      · rw [hi, hPget _ (by rw [h.len]), h.len, hcdiag]

theorem step1_tested (tol : K) (s : S1 K) (c : Col K) :
    (step1 tol s c).tested = s.tested ++ [norm1 (orth1 s.qs c)] := by
  simp only [step1]
  split <;> rfl

/-- input columns 1..k of the augmented matrix: homogeneous kind, unit lower block -/
structure InCols (a : Nat → Nat → K) (M N : Nat) (cs : List (Col K)) : Prop where
  aug : ∀ c ∈ cs, Aug a M N c
  tri : ∀ i (c : Col K), cs[i]? = some c → ∀ j, i < j → c.bot.getD j 0 = 0
  diag : ∀ i (c : Col K), cs[i]? = some c → c.bot.getD i 0 = 1

theorem InCols.init {a : Nat → Nat → K} {M N : Nat} {cs : List (Col K)} {c : Col K}
    (h : InCols a M N (cs ++ [c])) : InCols a M N cs where
  aug := fun q hq => h.aug q (by simp [hq])
  tri := fun i q hq => h.tri i q (by
    rw [List.getElem?_append_left (List.getElem?_eq_some_iff.1 hq).1]; exact hq)
  diag := fun i q hq => h.diag i q (by
    rw [List.getElem?_append_left (List.getElem?_eq_some_iff.1 hq).1]; exact hq)

/-- the loop of `icgs1` over the columns 1..N -/
theorem inv1_foldl {a : Nat → Nat → K} {M N : Nat} {tol : K} (htol : 0 ≤ tol)
    (cs : List (Col K)) (hcs : InCols a M N cs)
    (hU : ∀ r ∈ (cs.foldl (step1 tol) {}).tested, r = 0 ∨ tol < r) :
    Inv1 a M N cs (cs.foldl (step1 tol) {}) := by
  induction cs using List.reverseRecOn with
  | nil => exact inv1_nil a M N
  | append_singleton cs c ih =>
    rw [List.foldl_append, List.foldl_cons, List.foldl_nil] at hU ⊢
    rw [step1_tested] at hU
    have ih' := ih hcs.init fun r hr => hU r (by simp [hr])
    have hlast : (cs ++ [c])[cs.length]? = some c := by simp
    refine inv1_step htol ih' c (hcs.aug c (by simp)) (fun j hj => hcs.tri _ c hlast j hj)
      (hcs.diag _ c hlast) (hU _ (by simp))

end Gama.Ls.Gso
