/-
  Envelope solver: from the new numbering back to the unknowns of the problem, and from the
  homogenised system back to the original one.  Regular case: the answer record of
  `envCore` is the least-squares solution of `(A, b, P)`.

  The ordering is any pair of mutually inverse index maps (`OrdOK`); the homogenisation is
  any `W` with `WᵀW = P`, `Ã = W A`, `b̃ = W b` (computing such a `W` from the covariance
  blocks is `Homogenization::run`, property C10).
-/
import Gama.Lemmas.Ls.EnvSolution
import Gama.Lemmas.Ls.EnvDefect
import Gama.Lemmas.LS.Transform

namespace Gama.Ls.Env
open Finset Matrix Gama.LS

set_option linter.unusedSectionVars false

variable {K : Type} [Field K] [LinearOrder K] [IsStrictOrderedRing K] (sq : K → K)
local notation "𝔽" => fieldScalar sq

/-- `perm`/`invp` are mutually inverse maps on `0..n-1` -/
structure OrdOK (n : ℕ) (o : EnvOrd) : Prop where
  perm_lt : ∀ i < n, o.perm.getD i 0 < n
  invp_lt : ∀ j < n, o.invp.getD j 0 < n
  left : ∀ i < n, o.invp.getD (o.perm.getD i 0) 0 = i
  right : ∀ j < n, o.perm.getD (o.invp.getD j 0) 0 = j

/-- new number ↦ original unknown -/
def OrdOK.equiv {n : ℕ} {o : EnvOrd} (h : OrdOK n o) : Fin n ≃ Fin n where
  toFun i := ⟨o.perm.getD i 0, h.perm_lt i i.2⟩
  invFun j := ⟨o.invp.getD j 0, h.invp_lt j j.2⟩
  left_inv i := Fin.ext (h.left i i.2)
  right_inv j := Fin.ext (h.right j j.2)

variable (tol stol : K) (m n : ℕ) (A : DMat K) (b : Array K) (At : DMat K) (bt : Array K)
  (reg : Reg) (o : EnvOrd)

theorem ApM_eq_submatrix (hO : OrdOK n o) :
    ApM sq tol m n At bt o = (toMatrix m n At).submatrix id hO.equiv := rfl

theorem btV_eq : btV sq tol m n At bt o = toVec m bt := rfl

/-- `Ã y = Ap (y ∘ perm)` -/
theorem At_mulVec (hO : OrdOK n o) (y : Fin n → K) :
    toMatrix m n At *ᵥ y = ApM sq tol m n At bt o *ᵥ (y ∘ hO.equiv) := by
  rw [ApM_eq_submatrix sq tol m n At bt o hO]
  exact (perm_mulVec (toMatrix m n At) (Equiv.refl _) hO.equiv y).symm

/-- `(Ãᵀ u) ∘ perm = Apᵀ u` -/
theorem At_transpose_mulVec (hO : OrdOK n o) (u : Fin m → K) :
    ((toMatrix m n At)ᵀ *ᵥ u) ∘ hO.equiv = (ApM sq tol m n At bt o)ᵀ *ᵥ u := by
  rw [ApM_eq_submatrix sq tol m n At bt o hO, transpose_submatrix]
  exact (perm_mulVec (toMatrix m n At)ᵀ hO.equiv (Equiv.refl _) u).symm

/-- the unknowns in the numbering of the problem -/
def xOrig (hO : OrdOK n o) : Fin n → K := x0V sq tol m n At bt o ∘ hO.equiv.symm

theorem xOrig_comp (hO : OrdOK n o) : xOrig sq tol m n At bt o hO ∘ hO.equiv = x0V sq tol m n At bt o := by
  ext i; simp [xOrig]

/-- **regular case, homogenised system, numbering of the problem** -/
theorem xOrig_isLS_regular (hO : OrdOK n o) (hR : FactRegular sq tol m n At bt o) (htol : 0 < tol)
    (S : Finset (Fin n)) :
    IsLSSolution (toMatrix m n At) (toVec m bt) 1 S (xOrig sq tol m n At bt o hO)
      (toMatrix m n At *ᵥ xOrig sq tol m n At bt o hO - toVec m bt)
      (@squares K 𝔽 (@factor K 𝔽 tol m n At bt o)) := by
  have hmv : toMatrix m n At *ᵥ xOrig sq tol m n At bt o hO
      = ApM sq tol m n At bt o *ᵥ x0V sq tol m n At bt o := by
    rw [At_mulVec sq tol m n At bt o hO, xOrig_comp]
  refine IsLSSolution.of_regular ?_ rfl ?_ ?_
  · intro g hg
    rw [At_mulVec sq tol m n At bt o hO] at hg
    have := regular_ker_A sq tol m n At bt o hR htol _ hg
    ext j
    have h2 := congrFun this (hO.equiv.symm j)
    simpa using h2
  · rw [one_mulVec, hmv]
    have h0 := x0_normal sq tol m n At bt o hR.unambiguous
    rw [← At_transpose_mulVec sq tol m n At bt o hO] at h0
    ext j
    have h2 := congrFun h0 (hO.equiv.symm j)
    simpa [btV_eq] using h2
  · rw [one_mulVec, hmv, squares_eq]; rfl


/-! ### the answer record -/

theorem envCore_defect : (@envCore K 𝔽 tol stol m n A b At bt reg o).defect
    = @defectOf K (@ldl K 𝔽 (NF sq tol m n At bt o) tol n) := rfl

theorem envCore_rtr : (@envCore K 𝔽 tol stol m n A b At bt reg o).rtr
    = @squares K 𝔽 (@factor K 𝔽 tol m n At bt o) := rfl

include sq in
theorem toVec_vecOf (k : ℕ) (f : ℕ → K) : toVec k (@vecOf K k f) = vecFn k f := by
  ext i; exact vget_vecOf sq k f i.2

/-- `residuals()` : `A x0 − b` with the ORIGINAL `A`, `b` and `x0` in the numbering of the problem -/
theorem envCore_r (hO : OrdOK n o) :
    toVec m (@envCore K 𝔽 tol stol m n A b At bt reg o).r
      = toMatrix m n A *ᵥ xOrig sq tol m n At bt o hO - toVec m b := by
  ext i
  show @vget K 𝔽 (@vecOf K m fun i => @sumTo K 𝔽 n (fun j => @mget K 𝔽 A i j *
      @vget K 𝔽 (@vecOf K n fun j => @vget K 𝔽 (@factor K 𝔽 tol m n At bt o).x0p (o.invp.getD j 0)) j)
      - @vget K 𝔽 b i) i = _
  rw [vget_vecOf sq _ _ i.2, sumTo_eq]
  simp only [Pi.sub_apply, mulVec, dotProduct]
  rw [← Fin.sum_univ_eq_sum_range _ n]
  congr 1
  refine Finset.sum_congr rfl fun j _ => ?_
  rw [vget_vecOf sq _ _ j.2]
  rfl

/-- regular case: `unknowns()` returns `x0` in the numbering of the problem -/
theorem envCore_x_regular (hO : OrdOK n o)
    (hd : (@envCore K 𝔽 tol stol m n A b At bt reg o).defect = 0) :
    ∃ x, (@envCore K 𝔽 tol stol m n A b At bt reg o).x = .ok x ∧ toVec n x = xOrig sq tol m n At bt o hO := by
  refine ⟨@vecOf K n fun j => @vget K 𝔽 (@factor K 𝔽 tol m n At bt o).x0p (o.invp.getD j 0), ?_, ?_⟩
  · show (@solveX K 𝔽 (@factor K 𝔽 tol m n At bt o) (@regList n o reg) stol).map _ = _
    unfold solveX
    have hd' : @defectOf K (@factor K 𝔽 tol m n At bt o).rows = 0 := hd
    rw [if_pos hd']
    rfl
  · rw [toVec_vecOf sq]; rfl

/-- **C01, regular case**: the answers of the envelope solver are the least-squares solution
    of the original weighted problem `(A, b, P)`, `P = WᵀW`, whatever the ordering -/
theorem envCore_regular_isLS (hO : OrdOK n o) (htol : 0 < tol)
    {P W : Matrix (Fin m) (Fin m) K} (hW : Wᵀ * W = P)
    (hAt : toMatrix m n At = W * toMatrix m n A) (hbt : toVec m bt = W *ᵥ toVec m b)
    (hd : (@envCore K 𝔽 tol stol m n A b At bt reg o).defect = 0) (S : Finset (Fin n)) :
    ∃ x, (@envCore K 𝔽 tol stol m n A b At bt reg o).x = .ok x ∧
      IsLSSolution (toMatrix m n A) (toVec m b) P S (toVec n x)
        (toVec m (@envCore K 𝔽 tol stol m n A b At bt reg o).r)
        (@envCore K 𝔽 tol stol m n A b At bt reg o).rtr := by
  obtain ⟨x, hx, hxv⟩ := envCore_x_regular sq tol stol m n A b At bt reg o hO hd
  refine ⟨x, hx, ?_⟩
  have hR : FactRegular sq tol m n At bt o := (defect_zero_iff sq _ tol n).1 hd
  have h1 := xOrig_isLS_regular sq tol m n At bt o hO hR htol S
  rw [hAt, hbt] at h1
  have h2 := IsLSSolution.of_whitened hW h1
  rw [hxv, envCore_r sq tol stol m n A b At bt reg o hO, envCore_rtr]
  exact h2

end Gama.Ls.Env
