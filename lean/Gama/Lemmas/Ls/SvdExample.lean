/-
  Concrete instances for the svd solver (non-vacuity examples of Props/C01|C03|C20/Svd.lean and
  the witness of finding F7-svd):

  `Ex.pF, Ex.dF` (ℚ) / `Ex.pW, Ex.dW` (ℝ): A = [[0,0,1],[0,0,0],[0,0,0]] with the factors the REAL
      code computes (harness/svd_cert.cpp `factors`: U, V signed permutations, W = (0,1,0)).
      Unknown 3 is the only determined one, yet `lindep 3` holds and `lindep 2` does not.
  `Ex.pE, Ex.dE` (ℚ): A = [[9,12],[12,16],[0,0]] = U diag(25,0) Vᵀ with the rational rotations
      U = [[3/5,4/5],[4/5,−3/5],[0,0]], V = [[3/5,4/5],[4/5,−3/5]], subset regularisation S = {1}.
  Over ℚ the model is EVALUATED by the kernel (`decide +kernel`); `sqQ` is the square root on the
  values that occur.  Over ℝ (`Real.sqrt`, which satisfies `SqrtLaw`) the hypotheses are proved
  by `simp`/`norm_num`.
-/
import Gama.Lemmas.Ls.SvdProps
import Mathlib.Analysis.Real.Sqrt
import Mathlib.Tactic.NormNum
import Mathlib.Tactic.FinCases

namespace Gama.Ls.Svd.Ex
open Matrix Finset Gama.LS Gama.Ls Gama.Ls.Svd

set_option linter.unusedSimpArgs false

/-- square root on the rationals that occur in the examples, identity elsewhere -/
def sqQ (x : ℚ) : ℚ := if x = 16 / 25 then 4 / 5 else if x = 9 / 25 then 3 / 5 else x

/-! ### the F7 witness over ℚ -/

def pF : Problem ℚ :=
  { m := 3, n := 3, rows := #[#[(3, 1)], #[], #[]], cov := #[⟨3, 0, #[1, 1, 1]⟩], rhs := #[1, 0, 0], reg := .all }

def dF : Dec ℚ :=
  { U := #[#[0, -1, 0], #[1, 0, 0], #[0, 0, 1]], W := #[0, 1, 0], V := #[#[1, 0, 0], #[0, 0, -1], #[0, -1, 0]] }

theorem pF_cert : SvdCert sqQ (1 / 1000) pF.m pF.n (@Problem.dense ℚ (fieldScalar sqQ) pF) dF :=
  ⟨by decide +kernel, by decide +kernel, by decide +kernel, by unfold Unambiguous; decide +kernel⟩

/-- `lindep 3` holds, `lindep 1` holds, `lindep 2` does not; defect 2 -/
theorem pF_flags : ∃ a, @svdSolveCert ℚ (fieldScalar sqQ) true (1 / 1000) dF pF = .ok a ∧
    a.lindep 1 = .ok true ∧ a.lindep 2 = .ok false ∧ a.lindep 3 = .ok true ∧ a.defect = 2 := by
  refine ⟨_, rfl, ?_, ?_, ?_, ?_⟩ <;> decide +kernel

/-- the design matrix of `pF` -/
def AF : Matrix (Fin 3) (Fin 3) ℚ := toMatrix 3 3 (@Problem.dense ℚ (fieldScalar sqQ) pF)

theorem AF_eq : AF = @Problem.A ℚ (fieldScalar sqQ) pF := rfl

/-- unknown 3 is determined (every kernel vector vanishes there), unknown 2 is not -/
theorem pF_kernel :
    (∀ g : Fin 3 → ℚ, AF *ᵥ g = 0 → g 2 = 0) ∧ AF *ᵥ (fun i : Fin 3 => if i = 1 then 1 else 0) = 0 := by
  have hA : AF = !![0, 0, 1; 0, 0, 0; 0, 0, 0] := by
    unfold AF; decide +kernel
  rw [hA]
  constructor
  · intro g hg
    have := congrFun hg 0
    simpa [mulVec, dotProduct, Fin.sum_univ_three] using this
  · funext i
    fin_cases i <;> simp [mulVec, dotProduct, Fin.sum_univ_three]

/-! ### subset regularisation over ℚ -/

def pE : Problem ℚ :=
  { m := 3, n := 2, rows := #[#[(1, 9), (2, 12)], #[(1, 12), (2, 16)], #[]], cov := #[⟨3, 0, #[1, 1, 1]⟩]
    rhs := #[1, 2, 3], reg := .subset [1] }

def dE : Dec ℚ :=
  { U := #[#[3 / 5, 4 / 5], #[4 / 5, -3 / 5], #[0, 0]], W := #[25, 0], V := #[#[3 / 5, 4 / 5], #[4 / 5, -3 / 5]] }

theorem pE_cert : SvdCert sqQ (1 / 1000) pE.m pE.n (@Problem.dense ℚ (fieldScalar sqQ) pE) dE :=
  ⟨by decide +kernel, by decide +kernel, by decide +kernel, by unfold Unambiguous; decide +kernel⟩

theorem pE_regOK : RegOK pE.reg := by
  show List.Nodup [1]
  decide

theorem ok_of_toOption {α β : Type} {e : Except ErrKind α} {f : α → β} {v : β}
    (h : e.toOption.map f = some v) : ∃ a, e = .ok a ∧ f a = v := by
  cases e with
  | error err => simp [Except.toOption] at h
  | ok a => exact ⟨a, rfl, by simpa [Except.toOption] using h⟩

theorem pE_answer : ∃ a, @svdSolveCert ℚ (fieldScalar sqQ) true (1 / 1000) dE pE = .ok a ∧
    a.x = #[0, 11 / 100] ∧ a.defect = 1 := by
  have h : (@svdSolveCert ℚ (fieldScalar sqQ) true (1 / 1000) dE pE).toOption.map (fun a => (a.x, a.defect))
      = some (#[0, 11 / 100], 1) := by decide +kernel
  obtain ⟨a, h1, h2⟩ := ok_of_toOption h
  exact ⟨a, h1, congrArg Prod.fst h2, congrArg Prod.snd h2⟩

theorem pE_cofactors : ∃ a, @svdSolveCert ℚ (fieldScalar sqQ) true (1 / 1000) dE pE = .ok a ∧
    a.qxx 1 1 = .ok 0 ∧ a.qxx 2 2 = .ok (1 / 400) ∧ a.qbb 1 1 = .ok (9 / 25) := by
  have h : (@svdSolveCert ℚ (fieldScalar sqQ) true (1 / 1000) dE pE).toOption.map
      (fun a => ((a.qxx 1 1).toOption, (a.qxx 2 2).toOption, (a.qbb 1 1).toOption))
      = some (some 0, some (1 / 400), some (9 / 25)) := by decide +kernel
  obtain ⟨a, h1, h2⟩ := ok_of_toOption h
  have e1 := congrArg Prod.fst h2
  have e2 := congrArg (fun t => t.2.1) h2
  have e3 := congrArg (fun t => t.2.2) h2
  have conv : ∀ (e : Except ErrKind ℚ) (v : ℚ), e.toOption = some v → e = .ok v := by
    intro e v hh
    cases e with
    | error err => simp [Except.toOption] at hh
    | ok x => simp [Except.toOption] at hh; rw [hh]
  exact ⟨a, h1, conv _ _ e1, conv _ _ e2, conv _ _ e3⟩

/-! ### over ℝ: `Real.sqrt` satisfies the square-root law; the F7 matrix with `min_x()` -/

theorem sqrtLaw_real : SqrtLaw Real.sqrt := ⟨fun _ h => Real.mul_self_sqrt h, fun _ _ => Real.sqrt_nonneg _⟩

noncomputable def pW : Problem ℝ :=
  { m := 3, n := 3, rows := #[#[(3, 1)], #[], #[]], cov := #[⟨3, 0, #[1, 1, 1]⟩], rhs := #[1, 0, 0], reg := .all }

noncomputable def dW : Dec ℝ :=
  { U := #[#[0, -1, 0], #[1, 0, 0], #[0, 0, 1]], W := #[0, 1, 0], V := #[#[1, 0, 0], #[0, 0, -1], #[0, -1, 0]] }

theorem pW_dense : @Problem.dense ℝ (fieldScalar Real.sqrt) pW = #[#[0, 0, 1], #[0, 0, 0], #[0, 0, 0]] := by
  simp [Problem.dense, pW]
  refine ⟨?_, ?_⟩ <;> rfl

theorem pW_A : toMatrix 3 3 (@Problem.dense ℝ (fieldScalar Real.sqrt) pW) = !![0, 0, 1; 0, 0, 0; 0, 0, 0] := by
  rw [pW_dense]; ext i j; fin_cases i <;> fin_cases j <;> rfl
theorem dW_U : toMatrix 3 3 dW.U = !![0, -1, 0; 1, 0, 0; 0, 0, 1] := by
  ext i j; fin_cases i <;> fin_cases j <;> rfl
theorem dW_V : toMatrix 3 3 dW.V = !![1, 0, 0; 0, 0, -1; 0, -1, 0] := by
  ext i j; fin_cases i <;> fin_cases j <;> rfl
theorem dW_W : toVec 3 dW.W = ![0, 1, 0] := by
  funext i; fin_cases i <;> rfl

theorem pW_vmax : @vmaxOf ℝ (fieldScalar Real.sqrt) 3 (@vget ℝ (fieldScalar Real.sqrt) dW.W) = 1 := by
  have h0 : @vget ℝ (fieldScalar Real.sqrt) dW.W 0 = 0 := rfl
  have h1 : @vget ℝ (fieldScalar Real.sqrt) dW.W 1 = 1 := rfl
  have h2 : @vget ℝ (fieldScalar Real.sqrt) dW.W 2 = 0 := rfl
  show (([0, 1, 2] : List Nat).foldl (fun v k => if v < @vget ℝ (fieldScalar Real.sqrt) dW.W k
    then @vget ℝ (fieldScalar Real.sqrt) dW.W k else v) (0 : ℝ)) = 1
  simp only [List.foldl_cons, List.foldl_nil, h0, h1, h2]
  norm_num

theorem pW_cert : SvdCert Real.sqrt (1 / 1000) pW.m pW.n (@Problem.dense ℝ (fieldScalar Real.sqrt) pW) dW := by
  refine ⟨?_, ?_, ?_, ?_⟩
  · show toMatrix 3 3 _ = toMatrix 3 3 dW.U * diagonal (toVec 3 dW.W) * (toMatrix 3 3 dW.V)ᵀ
    rw [pW_A, dW_U, dW_V, dW_W]
    ext i j
    fin_cases i <;> fin_cases j <;>
      simp [Matrix.mul_apply, Fin.sum_univ_three, Matrix.diagonal_apply, Matrix.transpose_apply,
        Matrix.vecMul, dotProduct]
  · show (toMatrix 3 3 dW.V)ᵀ * toMatrix 3 3 dW.V = 1
    rw [dW_V]
    ext i j
    fin_cases i <;> fin_cases j <;>
      simp [Matrix.mul_apply, Fin.sum_univ_three, Matrix.transpose_apply, Matrix.one_apply]
  · show ∀ i j : Fin 3, toVec 3 dW.W i ≠ 0 → toVec 3 dW.W j ≠ 0 →
      ((toMatrix 3 3 dW.U)ᵀ * toMatrix 3 3 dW.U) i j = if i = j then 1 else 0
    rw [dW_U, dW_W]
    intro i j
    fin_cases i <;> fin_cases j <;>
      simp [Matrix.mul_apply, Fin.sum_univ_three, Matrix.transpose_apply]
  · show ∀ i, i < 3 → _
    intro i hi
    have e3 : pW.n = 3 := rfl
    rw [e3, pW_vmax]
    have h0 : @vget ℝ (fieldScalar Real.sqrt) dW.W 0 = 0 := rfl
    have h1 : @vget ℝ (fieldScalar Real.sqrt) dW.W 1 = 1 := rfl
    have h2 : @vget ℝ (fieldScalar Real.sqrt) dW.W 2 = 0 := rfl
    have : i = 0 ∨ i = 1 ∨ i = 2 := by omega
    rcases this with rfl | rfl | rfl
    · left; exact h0
    · right; rw [h1]; norm_num
    · left; exact h2

end Gama.Ls.Svd.Ex
