/-
  Gram–Schmidt solver: the hypothesis `GapCols p` of `Lemmas/Ls/GsoGap.lean` (first
  orthogonalisation: every unnormalised Gram–Schmidt vector of the columns, natural order, has
  NORM 0 or > tolerance) from the common gap hypothesis of `ComposeGap.lean` (SQUARED norms) with
  `τ = tolerance²`:

      `GapOrd p.A tolerance² refl → GapCols p`,   `GapAll p.A tolerance² → GapCols p`.

  (`sqrt` is the lawful square root of `SqrtField`: `sqrt 0 = 0`, and `t² < s` ⇒ `t < sqrt s`
  for `t ≥ 0`.)
-/
import Gama.Lemmas.Ls.ComposeGap
import Gama.Lemmas.Ls.GsoGap

namespace Gama.Ls.Gso
open Gama Finset Matrix Gama.LS Gama.Ls

set_option linter.unusedSectionVars false

variable {K : Type} [Field K] [LinearOrder K] [IsStrictOrderedRing K] [SqrtField K]

theorem sqrt_gap {τ s : K} (hτ : 0 ≤ τ) (hs : 0 ≤ s) (h : s = 0 ∨ τ * τ < s) :
    Scalar.sqrt s = 0 ∨ τ < Scalar.sqrt s := by
  have h1 := SqrtField.sqrt_mul_self hs
  have h2 := SqrtField.sqrt_nonneg hs
  rcases h with h0 | hgt
  · left
    rw [h0] at h1 ⊢
    exact mul_self_eq_zero.1 h1
  · right
    by_contra hle
    have hle' : Scalar.sqrt s ≤ τ := not_lt.1 hle
    have : Scalar.sqrt s * Scalar.sqrt s ≤ τ * τ := mul_le_mul hle' hle' h2 hτ
    rw [h1] at this
    exact absurd hgt (not_lt.2 this)

/-- **gso, first orthogonalisation**: `GapCols` from the gap hypothesis of the natural order -/
theorem gapCols_of_gapOrd (p : Problem K)
    (hG : GapOrd p.A ((tolerance : K) * tolerance) (Equiv.refl _)) : GapCols p := by
  intro k β h1 h2 h3
  exact sqrt_gap tolerance_nonneg (sqnorm_nonneg _) (hG k β h1 h2 h3)

theorem gapCols_of_gapAll (p : Problem K) (hG : GapAll p.A ((tolerance : K) * tolerance)) : GapCols p :=
  gapCols_of_gapOrd p (hG.ord _)

end Gama.Ls.Gso
