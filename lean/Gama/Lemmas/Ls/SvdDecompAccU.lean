/-
  Phase 3 of `Svd.decompose`: the accumulation of the left-hand transformations (`accUBody`,
  `SvdDecompStruct.lean`) overwrites the array that holds the Householder vectors of the
  bidiagonalisation by the first `n` columns of `P₁ ⋯ P_mn` (`Phase3Stmt`, `SvdDecompSpec.lean`).

    accU_sum / accU_colLoop / accU_rowFill / accU_jLoop   closed forms of the inner loops
    accU_body_spec     one iteration (index `i = mn - t`) as an explicit description of the new array
    accU_M             `P_{mn-t+1} ⋯ P_mn · [I; 0]`; `accU_M_eye`: it agrees with `[I; 0]` outside the
                       trailing block
    accU_step_alg      the described array holds `P_i · accU_M t` in the block of rows/columns `≥ i`
    accU_invariant     state after `t` iterations
    phase3_stmt        `Phase3Stmt sq`
-/
import Gama.Lemmas.Ls.SvdDecompSpec
namespace Gama.Ls.Svd
open Matrix Finset Gama.LS Gama.Ls

set_option linter.unusedSectionVars false
set_option linter.unusedVariables false
set_option linter.unusedSimpArgs false

variable {K : Type} [Field K] [LinearOrder K] [IsStrictOrderedRing K] (sq : K → K)
local notation "𝕊" => (Gama.LS.fieldScalar sq)

/-! ### closed forms of the inner loops -/

/-- the dot-product loop -/
theorem accU_sum (f : Nat → K) {a b : Nat} (hab : a ≤ b + 1) (s0 : K) :
    rfold (fun k s => s + f k) a (b + 1 - a) s0 = s0 + ∑ k ∈ Icc a b, f k := by
  have := rfold_range_inv (fun k s => s + f k) (fun k s => s = s0 + ∑ x ∈ Ico a k, f x) hab s0
    (by simp) (by
      intro i s h1 h2 hs
      rw [Finset.sum_Ico_succ_top h1, hs, add_assoc])
  rw [this, Finset.Ico_add_one_right_eq_Icc]

/-- a loop `for k in [i:m+1] do U[k][j] := val k U` whose values are known in advance -/
theorem accU_colLoop {m n i j : Nat} (hi : 1 ≤ i) (him : i ≤ m + 1) (hj : 1 ≤ j) (hjn : j ≤ n)
    {U : DMat K} (hU : MWF m n U) (val : Nat → DMat K → K) (G : Nat → K)
    (hval : ∀ k U', i ≤ k → k ≤ m → MWF m n U' →
      (∀ a b, @mg K 𝕊 U' a b = if b = j ∧ i ≤ a ∧ a < k then G a else @mg K 𝕊 U a b) → val k U' = G k) :
    MWF m n (rfold (fun k U' => ms U' k j (val k U')) i (m + 1 - i) U) ∧
    ∀ a b, @mg K 𝕊 (rfold (fun k U' => ms U' k j (val k U')) i (m + 1 - i) U) a b
      = if b = j ∧ i ≤ a ∧ a ≤ m then G a else @mg K 𝕊 U a b := by
  have := rfold_range_inv (fun k U' => ms U' k j (val k U'))
    (fun k U' => MWF m n U' ∧
      ∀ a b, @mg K 𝕊 U' a b = if b = j ∧ i ≤ a ∧ a < k then G a else @mg K 𝕊 U a b) him U
    ⟨hU, fun a b => by rw [if_neg (by omega)]⟩
    (by
      rintro k U' h1 h2 ⟨hw, hf⟩
      refine ⟨@MWF.ms K 𝕊 _ _ _ hw _ _ _, fun a b => ?_⟩
      rw [@mg_ms_in K 𝕊 _ _ _ hw _ _ (by omega) (by omega) hj hjn, hval k U' h1 (by omega) hw hf, hf]
      by_cases h : a = k ∧ b = j
      · rw [if_pos h, if_pos (by omega), h.1]
      · rw [if_neg h]
        by_cases h' : b = j ∧ i ≤ a ∧ a < k
        · rw [if_pos h', if_pos (by omega)]
        · rw [if_neg h', if_neg (by omega)])
  refine ⟨this.1, fun a b => ?_⟩
  rw [this.2]
  by_cases h : b = j ∧ i ≤ a ∧ a ≤ m
  · rw [if_pos h, if_pos (by omega)]
  · rw [if_neg h, if_neg (by omega)]

/-- the loop `for j in [L:n+1] do U[i][j] := c` -/
theorem accU_rowFill {m n i L : Nat} (hi : 1 ≤ i) (him : i ≤ m) (hL : 1 ≤ L) (hLn : L ≤ n + 1) (c : K)
    {U : DMat K} (hU : MWF m n U) :
    MWF m n (rfold (fun j U' => ms U' i j c) L (n + 1 - L) U) ∧
    ∀ a b, @mg K 𝕊 (rfold (fun j U' => ms U' i j c) L (n + 1 - L) U) a b
      = if a = i ∧ L ≤ b ∧ b ≤ n then c else @mg K 𝕊 U a b := by
  have := rfold_range_inv (fun j U' => ms U' i j c)
    (fun k U' => MWF m n U' ∧
      ∀ a b, @mg K 𝕊 U' a b = if a = i ∧ L ≤ b ∧ b < k then c else @mg K 𝕊 U a b) hLn U
    ⟨hU, fun a b => by rw [if_neg (by omega)]⟩
    (by
      rintro k U' h1 h2 ⟨hw, hf⟩
      refine ⟨@MWF.ms K 𝕊 _ _ _ hw _ _ _, fun a b => ?_⟩
      rw [@mg_ms_in K 𝕊 _ _ _ hw _ _ hi him (by omega) (by omega), hf]
      by_cases h : a = i ∧ b = k
      · rw [if_pos h, if_pos (by omega)]
      · rw [if_neg h]
        by_cases h' : a = i ∧ L ≤ b ∧ b < k
        · rw [if_pos h', if_pos (by omega)]
        · rw [if_neg h', if_neg (by omega)])
  refine ⟨this.1, fun a b => ?_⟩
  rw [this.2]
  by_cases h : a = i ∧ L ≤ b ∧ b ≤ n
  · rw [if_pos h, if_pos (by omega)]
  · rw [if_neg h, if_neg (by omega)]

theorem accU_forIn_pure {ε σ : Type} (a b : Nat) (init : σ) (F : Nat → σ → σ) :
    forIn [a:b] init (fun k s => (pure (ForInStep.yield (F k s)) : Except ε (ForInStep σ)))
      = pure (rfold F a (b - a) init) := forIn_range_pure a b init F

theorem accU_yield_inj {ε σ : Type} {a b : σ}
    (h : (pure (ForInStep.yield a) : Except ε (ForInStep σ)) = .ok (ForInStep.yield b)) : a = b := by
  have := ok_inj h
  injection this

theorem accU_yield_ne_done {ε σ : Type} {a b : σ}
    (h : (pure (ForInStep.yield a) : Except ε (ForInStep σ)) = .ok (ForInStep.done b)) : False := by
  have := ok_inj h
  injection this

/-- the update of the columns `L..n` (`L = i+1`): column `j` (rows `i..m`) gets
    `(s_j / U[i][i] / g) · column i` added, `s_j` the dot product of the two columns over rows `L..m` -/
theorem accU_jLoop {m n i : Nat} (g : K) (hi : 1 ≤ i) (him : i ≤ m) (hin : i ≤ n) {U : DMat K}
    (hU : MWF m n U) (s0 f0 : K) (R : DMat K × K × K)
    (h : forIn [i+1:n+1] ((U, s0, f0) : DMat K × K × K) (fun j st => do
        let s ← forIn [i+1:m+1] (0:K) fun k s =>
          (pure (ForInStep.yield (s + @mg K 𝕊 st.1 k i * @mg K 𝕊 st.1 k j)) : Except ErrKind _)
        let U2 ← forIn [i:m+1] st.1 fun k U2 =>
          (pure (ForInStep.yield (ms U2 k j
            (@mg K 𝕊 U2 k j + s / @mg K 𝕊 st.1 i i / g * @mg K 𝕊 U2 k i))) : Except ErrKind _)
        pure (ForInStep.yield (U2, s, s / @mg K 𝕊 st.1 i i / g))) = .ok R) :
    MWF m n R.1 ∧ ∀ a b, @mg K 𝕊 R.1 a b = if i + 1 ≤ b ∧ b ≤ n ∧ i ≤ a ∧ a ≤ m then
       @mg K 𝕊 U a b + (∑ k ∈ Icc (i+1) m, @mg K 𝕊 U k i * @mg K 𝕊 U k b) / @mg K 𝕊 U i i / g * @mg K 𝕊 U a i
      else @mg K 𝕊 U a b := by
  have key := forIn_range_inv' (by omega) h
    (fun j st => MWF m n st.1 ∧ ∀ a b, @mg K 𝕊 st.1 a b = if i + 1 ≤ b ∧ b < j ∧ i ≤ a ∧ a ≤ m then
       @mg K 𝕊 U a b + (∑ k ∈ Icc (i+1) m, @mg K 𝕊 U k i * @mg K 𝕊 U k b) / @mg K 𝕊 U i i / g * @mg K 𝕊 U a i
      else @mg K 𝕊 U a b)
    ⟨hU, fun a b => by rw [if_neg (by omega)]⟩
    (by
      rintro j st st' h1 h2 ⟨hw, hf⟩ hb
      simp only [accU_forIn_pure, pure_bind] at hb
      have hb := accU_yield_inj hb
      subst hb
      simp only []
      rw [accU_sum _ (by omega), zero_add]
      have hcol : ∀ k, i ≤ k → @mg K 𝕊 st.1 k i = @mg K 𝕊 U k i := fun k hk => by
        rw [hf, if_neg (by omega)]
      have hcolj : ∀ k, @mg K 𝕊 st.1 k j = @mg K 𝕊 U k j := fun k => by
        rw [hf, if_neg (by omega)]
      have hs : ∑ k ∈ Icc (i+1) m, @mg K 𝕊 st.1 k i * @mg K 𝕊 st.1 k j
          = ∑ k ∈ Icc (i+1) m, @mg K 𝕊 U k i * @mg K 𝕊 U k j := by
        refine Finset.sum_congr rfl fun k hk => ?_
        rw [Finset.mem_Icc] at hk
        rw [hcol k (by omega), hcolj k]
      rw [hs, hcol i (le_refl _)]
      obtain ⟨hw', hf'⟩ := accU_colLoop sq hi (by omega) (by omega : 1 ≤ j) (by omega : j ≤ n) hw
        (fun k U2 => @mg K 𝕊 U2 k j + (∑ k ∈ Icc (i+1) m, @mg K 𝕊 U k i * @mg K 𝕊 U k j) / @mg K 𝕊 U i i / g
            * @mg K 𝕊 U2 k i)
        (fun a => @mg K 𝕊 U a j + (∑ k ∈ Icc (i+1) m, @mg K 𝕊 U k i * @mg K 𝕊 U k j) / @mg K 𝕊 U i i / g
            * @mg K 𝕊 U a i)
        (by
          intro k U' hk1 hk2 hw' hf'
          rw [hf', hf', if_neg (by omega), if_neg (by omega), hcolj k, hcol k hk1])
      refine ⟨hw', fun a b => ?_⟩
      rw [hf']
      by_cases hbj : b = j
      · subst hbj
        by_cases hc : i ≤ a ∧ a ≤ m
        · rw [if_pos (by omega), if_pos (by omega)]
        · rw [if_neg (by omega), if_neg (by omega), hcolj]
      · rw [if_neg (by omega), hf]
        by_cases hc : i + 1 ≤ b ∧ b < j ∧ i ≤ a ∧ a ≤ m
        · rw [if_pos hc, if_pos (by omega)]
        · rw [if_neg hc, if_neg (by omega)])
    (by
      rintro j st st' h1 h2 _ hb
      simp only [accU_forIn_pure, pure_bind] at hb
      exact (accU_yield_ne_done hb).elim)
  refine ⟨key.1, fun a b => ?_⟩
  rw [key.2]
  by_cases hc : i + 1 ≤ b ∧ b ≤ n ∧ i ≤ a ∧ a ≤ m
  · rw [if_pos hc, if_pos (by omega)]
  · rw [if_neg hc, if_neg (by omega)]

theorem accU_split {ε α β : Type} {c : Prop} [Decidable c] {x : Except ε α} {k : α → Except ε β} {a : α} {r : β}
    (P : α → Prop) (h : (if c then x >>= k else k a) = .ok r)
    (h1 : c → ∀ a', x = .ok a' → P a') (h2 : ¬ c → P a) : ∃ a', P a' ∧ k a' = .ok r := by
  by_cases hc : c
  · rw [if_pos hc] at h
    obtain ⟨a', ha, hk⟩ := bind_eq_ok.mp h
    exact ⟨a', h1 hc a' ha, hk⟩
  · rw [if_neg hc] at h
    exact ⟨a, h2 hc, h⟩

/-- the last assignment `U[i][i] += 1` and the description of the whole iteration -/
theorem accU_final {m n i : Nat} (hi : 1 ≤ i) (him : i ≤ m) (hin : i ≤ n) {U U2 U3 : DMat K} (c : Nat → K)
    (e : Nat → Nat → K) (hw3 : MWF m n U3)
    (hf2 : ∀ a b, @mg K 𝕊 U2 a b = if i + 1 ≤ b ∧ b ≤ n ∧ i ≤ a ∧ a ≤ m then
      (if a = i then 0 else @mg K 𝕊 U a b) + e a b else @mg K 𝕊 U a b)
    (hf3 : ∀ a b, @mg K 𝕊 U3 a b = if b = i ∧ i ≤ a ∧ a ≤ m then c a else @mg K 𝕊 U2 a b) :
    MWF m n (ms U3 i i (@mg K 𝕊 U3 i i + 1)) ∧
    ∀ a b, @mg K 𝕊 (ms U3 i i (@mg K 𝕊 U3 i i + 1)) a b =
      if i ≤ a ∧ a ≤ m ∧ b = i then c a + (if a = i then 1 else 0)
      else if i ≤ a ∧ a ≤ m ∧ i < b ∧ b ≤ n then (if a = i then 0 else @mg K 𝕊 U a b) + e a b
      else @mg K 𝕊 U a b := by
  refine ⟨@MWF.ms K 𝕊 _ _ _ hw3 _ _ _, fun a b => ?_⟩
  rw [@mg_ms_in K 𝕊 _ _ _ hw3 _ _ hi him hi hin]
  by_cases h1 : a = i ∧ b = i
  · obtain ⟨rfl, rfl⟩ := h1
    rw [if_pos ⟨rfl, rfl⟩, if_pos ⟨le_refl _, him, rfl⟩, if_pos rfl, hf3, if_pos ⟨rfl, le_refl _, him⟩]
  · rw [if_neg h1, hf3]
    by_cases h2 : i ≤ a ∧ a ≤ m ∧ b = i
    · rw [if_pos (by omega), if_pos h2, if_neg (by omega), add_zero]
    · rw [if_neg (by omega), if_neg h2, hf2]
      by_cases h3 : i ≤ a ∧ a ≤ m ∧ i < b ∧ b ≤ n
      · rw [if_pos (by omega), if_pos h3]
      · rw [if_neg (by omega), if_neg h3]

/-- dot product of the columns `i` and `b` over the rows `i+1..m` -/
def accU_S (m : Nat) (U : DMat K) (i b : Nat) : K := ∑ k ∈ Icc (i + 1) m, @mg K 𝕊 U k i * @mg K 𝕊 U k b

theorem accU_body_spec {m n mn i : Nat} (W : Array K) (hmn1 : mn ≤ m) (hmn2 : mn ≤ n) (hmn3 : mn = m ∨ mn = n)
    (hi : 1 ≤ i) (himn : i ≤ mn)
    {U : DMat K} (hU : MWF m n U) (g0 s0 f0 : K) (L0 : Nat) (r : ForInStep (DMat K × K × K × K × Nat))
    (h : @accUBody K 𝕊 m n mn W (mn - i) (U, g0, s0, f0, L0) = .ok r) :
    ∃ st', r = ForInStep.yield st' ∧ MWF m n st'.1 ∧
      ∀ a b, @mg K 𝕊 st'.1 a b =
        if i ≤ a ∧ a ≤ m ∧ b = i then
          (if @g1 K 𝕊 W i ≠ 0 then @mg K 𝕊 U a i / @g1 K 𝕊 W i else 0) + (if a = i then 1 else 0)
        else if i ≤ a ∧ a ≤ m ∧ i < b ∧ b ≤ n then
          (if a = i then 0 else @mg K 𝕊 U a b) +
            (if @g1 K 𝕊 W i ≠ 0 then accU_S sq m U i b / @mg K 𝕊 U i i / @g1 K 𝕊 W i * @mg K 𝕊 U a i else 0)
        else @mg K 𝕊 U a b := by
  have him : i ≤ m := by omega
  have hin : i ≤ n := by omega
  unfold accUBody at h
  simp only [] at h
  have hii : mn - (mn - i) = i := by omega
  simp only [hii] at h
  obtain ⟨U1, ⟨hw1, hf1⟩, h'⟩ := accU_split
    (fun U1 => MWF m n U1 ∧ ∀ a b, @mg K 𝕊 U1 a b = if a = i ∧ i + 1 ≤ b ∧ b ≤ n then 0 else @mg K 𝕊 U a b) h
    (by
      intro _ U1 h1
      rw [accU_forIn_pure] at h1
      have := ok_inj h1
      subst this
      exact accU_rowFill sq hi him (by omega) (by omega) 0 hU)
    (by
      intro hn
      exact ⟨hU, fun a b => by rw [if_neg (by omega)]⟩)
  clear h
  rename' h' => h
  have hcoli : ∀ a, @mg K 𝕊 U1 a i = @mg K 𝕊 U a i := fun a => by rw [hf1, if_neg (by omega)]
  by_cases hg : @nz K 𝕊 (@g1 K 𝕊 W i) = true
  · have hg0 : @g1 K 𝕊 W i ≠ 0 := (nz_iff sq _).mp hg
    rw [if_pos hg] at h
    obtain ⟨st, ⟨hw2, hf2⟩, h⟩ := accU_split (a := (U1, s0, f0))
      (fun st : DMat K × K × K => MWF m n st.1 ∧ ∀ a b, @mg K 𝕊 st.1 a b =
        if i + 1 ≤ b ∧ b ≤ n ∧ i ≤ a ∧ a ≤ m then (if a = i then 0 else @mg K 𝕊 U a b) +
          (if @g1 K 𝕊 W i ≠ 0 then accU_S sq m U i b / @mg K 𝕊 U i i / @g1 K 𝕊 W i * @mg K 𝕊 U a i else 0)
        else @mg K 𝕊 U a b) h
      (by
        intro _ st hst
        obtain ⟨hw, hf⟩ := accU_jLoop sq (@g1 K 𝕊 W i) hi him hin hw1 s0 f0 st hst
        refine ⟨hw, fun a b => ?_⟩
        rw [hf]
        by_cases hc : i + 1 ≤ b ∧ b ≤ n ∧ i ≤ a ∧ a ≤ m
        · rw [if_pos hc, if_pos hc, if_pos hg0, hcoli, hcoli]
          have hS : ∑ k ∈ Icc (i + 1) m, @mg K 𝕊 U1 k i * @mg K 𝕊 U1 k b = accU_S sq m U i b := by
            unfold accU_S
            refine Finset.sum_congr rfl fun k hk => ?_
            rw [Finset.mem_Icc] at hk
            rw [hcoli, hf1, if_neg (by omega)]
          rw [hS, hf1]
          by_cases hai : a = i
          · rw [if_pos (by omega), if_pos hai]
          · rw [if_neg (by omega), if_neg hai]
        · rw [if_neg hc, if_neg hc, hf1, if_neg (by omega)])
      (by
        intro hmn
        refine ⟨hw1, fun a b => ?_⟩
        show @mg K 𝕊 U1 a b = _
        rw [hf1]
        by_cases hc : i + 1 ≤ b ∧ b ≤ n ∧ i ≤ a ∧ a ≤ m
        · rw [if_pos hc, if_pos hg0]
          have hS : accU_S sq m U i b = 0 := by
            unfold accU_S
            rw [Finset.Icc_eq_empty (by omega), Finset.sum_empty]
          rw [hS, zero_div, zero_div, zero_mul, add_zero]
          by_cases hai : a = i
          · rw [if_pos (by omega), if_pos hai]
          · rw [if_neg (by omega), if_neg hai]
        · rw [if_neg hc, if_neg (by omega)])
    obtain ⟨U3, h3, h⟩ := bind_eq_ok.mp h
    rw [accU_forIn_pure] at h3
    have h3 := ok_inj h3
    subst h3
    have hr := ok_inj h
    obtain ⟨hw3, hf3⟩ := accU_colLoop sq hi (by omega) hi hin hw2
      (fun k U' => @mg K 𝕊 U' k i / @g1 K 𝕊 W i)
      (fun a => if @g1 K 𝕊 W i ≠ 0 then @mg K 𝕊 U a i / @g1 K 𝕊 W i else 0)
      (by
        intro k U' hk1 hk2 hw' hf'
        rw [hf', if_neg (by omega), hf2, if_neg (by omega), if_pos hg0])
    obtain ⟨hw4, hf4⟩ := accU_final sq hi him hin _ _ hw3 hf2 hf3
    exact ⟨_, hr.symm, hw4, hf4⟩
  · have hg0 : ¬ @g1 K 𝕊 W i ≠ 0 := fun hne => hg ((nz_iff sq _).mpr hne)
    rw [if_neg hg] at h
    obtain ⟨U3, h3, h⟩ := bind_eq_ok.mp h
    rw [accU_forIn_pure] at h3
    have h3 := ok_inj h3
    subst h3
    have hr := ok_inj h
    have hf2 : ∀ a b, @mg K 𝕊 U1 a b =
        if i + 1 ≤ b ∧ b ≤ n ∧ i ≤ a ∧ a ≤ m then (if a = i then 0 else @mg K 𝕊 U a b) +
          (if @g1 K 𝕊 W i ≠ 0 then accU_S sq m U i b / @mg K 𝕊 U i i / @g1 K 𝕊 W i * @mg K 𝕊 U a i else 0)
        else @mg K 𝕊 U a b := by
      intro a b
      rw [hf1, if_neg hg0, add_zero]
      by_cases hc : i + 1 ≤ b ∧ b ≤ n ∧ i ≤ a ∧ a ≤ m
      · rw [if_pos hc]
        by_cases hai : a = i
        · rw [if_pos (by omega), if_pos hai]
        · rw [if_neg (by omega), if_neg hai]
      · rw [if_neg hc, if_neg (by omega)]
    obtain ⟨hw3, hf3⟩ := accU_colLoop sq hi (by omega) hi hin hw1
      (fun k U' => (0 : K))
      (fun a => if @g1 K 𝕊 W i ≠ 0 then @mg K 𝕊 U a i / @g1 K 𝕊 W i else 0)
      (by
        intro k U' hk1 hk2 hw' hf'
        rw [if_neg hg0])
    obtain ⟨hw4, hf4⟩ := accU_final sq hi him hin _ _ hw3 hf2 hf3
    exact ⟨_, hr.symm, hw4, hf4⟩

/-! ### algebra -/

theorem accU_hh_mul_apply {ι κ : Type} [Fintype ι] [DecidableEq ι] [Fintype κ] (u : ι → K) (β : K)
    (M : Matrix ι κ K) (r : ι) (c : κ) :
    (hh u β * M) r c = M r c + β⁻¹ * u r * ∑ k, u k * M k c := by
  rw [Matrix.mul_apply]
  simp only [hh_apply, add_mul, Finset.sum_add_distrib, ite_mul, one_mul, zero_mul, Finset.sum_ite_eq,
    Finset.mem_univ, if_true]
  congr 1
  rw [Finset.mul_sum]
  refine Finset.sum_congr rfl fun j _ => ?_
  ring

theorem accU_sum_Icc_fin (f : Nat → K) {i : Nat} (hi1 : 1 ≤ i) : ∀ m : Nat,
    ∑ k ∈ Icc i m, f k = ∑ k : Fin m, if i ≤ k.val + 1 then f (k.val + 1) else 0 := by
  intro m
  rw [Fin.sum_univ_eq_sum_range (fun k => if i ≤ k + 1 then f (k + 1) else 0) m]
  induction m with
  | zero =>
    rw [Finset.sum_range_zero]
    rw [Finset.Icc_eq_empty (by omega), Finset.sum_empty]
  | succ m ih =>
    rw [Finset.sum_range_succ, ← ih]
    by_cases hi : i ≤ m + 1
    · rw [if_pos hi, Finset.sum_Icc_succ_top hi]
    · rw [if_neg hi, Finset.Icc_eq_empty (by omega), Finset.Icc_eq_empty (by omega), Finset.sum_empty, add_zero]

/-- `P_{mn-t+1} ⋯ P_mn · [I; 0]` -/
def accU_M (m n mn : Nat) (U0 : DMat K) (W : Array K) (t : Nat) : Matrix (Fin m) (Fin n) K :=
  prodFrom (PL sq m U0 (@g1 K 𝕊 W)) (mn - t + 1) t * eyeMN m n

theorem accU_M_zero (m n mn : Nat) (U0 : DMat K) (W : Array K) : accU_M sq m n mn U0 W 0 = eyeMN m n := by
  unfold accU_M
  show 1 * _ = _
  rw [Matrix.one_mul]

theorem accU_M_succ (m n mn : Nat) (U0 : DMat K) (W : Array K) {t : Nat} (ht : t < mn) :
    accU_M sq m n mn U0 W (t + 1) = PL sq m U0 (@g1 K 𝕊 W) (mn - t) * accU_M sq m n mn U0 W t := by
  unfold accU_M
  have e1 : mn - (t + 1) + 1 = mn - t := by omega
  rw [e1]
  have e2 : prodFrom (PL sq m U0 (@g1 K 𝕊 W)) (mn - t) (t + 1)
      = PL sq m U0 (@g1 K 𝕊 W) (mn - t) * prodFrom (PL sq m U0 (@g1 K 𝕊 W)) (mn - t + 1) t := rfl
  rw [e2, Matrix.mul_assoc]

theorem accU_M_eye (m n mn : Nat) (U0 : DMat K) (W : Array K) : ∀ t, t ≤ mn → ∀ (r : Fin m) (c : Fin n),
    (r.val < mn - t ∨ c.val < mn - t) → accU_M sq m n mn U0 W t r c = eyeMN m n r c := by
  intro t
  induction t with
  | zero => intro _ r c _; rw [accU_M_zero]
  | succ t ih =>
    intro ht r c hrc
    rw [accU_M_succ sq m n mn U0 W (by omega : t < mn)]
    unfold PL
    rw [accU_hh_mul_apply, ih (by omega) r c (by omega)]
    suffices h : uL sq m U0 (mn - t) r * ∑ k, uL sq m U0 (mn - t) k * accU_M sq m n mn U0 W t k c = 0 by
      rw [mul_assoc, h, mul_zero, add_zero]
    by_cases hr : r.val < mn - (t + 1)
    · have : uL sq m U0 (mn - t) r = 0 := by unfold uL; rw [if_neg (by omega)]
      rw [this, zero_mul]
    · have hc : c.val < mn - (t + 1) := by omega
      rw [Finset.sum_eq_zero, mul_zero]
      intro k _
      rw [ih (by omega) k c (Or.inr (by omega))]
      unfold eyeMN uL
      by_cases hk : k.val = c.val
      · rw [if_neg (by omega), zero_mul]
      · rw [if_neg hk, mul_zero]

/-- one iteration, algebraically: the array described by `accU_body_spec` holds `P_i · M` in the block
    of the rows and columns `≥ i` -/
theorem accU_step_alg {m n i : Nat} (hi : 1 ≤ i) (him : i ≤ m) (hin : i ≤ n) (U0 U U' : DMat K) (W : Array K)
    (M : Matrix (Fin m) (Fin n) K)
    (hnz : @g1 K 𝕊 W i ≠ 0 → @mg K 𝕊 U0 i i ≠ 0)
    (hMe : ∀ (r : Fin m) (c : Fin n), (r.val < i ∨ c.val < i) → M r c = eyeMN m n r c)
    (hblk : ∀ (r : Fin m) (c : Fin n), i ≤ r.val → i ≤ c.val → @mg K 𝕊 U (r.val + 1) (c.val + 1) = M r c)
    (hcol : ∀ a, @mg K 𝕊 U a i = @mg K 𝕊 U0 a i)
    (hU' : ∀ a b, @mg K 𝕊 U' a b =
        if i ≤ a ∧ a ≤ m ∧ b = i then
          (if @g1 K 𝕊 W i ≠ 0 then @mg K 𝕊 U a i / @g1 K 𝕊 W i else 0) + (if a = i then 1 else 0)
        else if i ≤ a ∧ a ≤ m ∧ i < b ∧ b ≤ n then
          (if a = i then 0 else @mg K 𝕊 U a b) +
            (if @g1 K 𝕊 W i ≠ 0 then accU_S sq m U i b / @mg K 𝕊 U i i / @g1 K 𝕊 W i * @mg K 𝕊 U a i else 0)
        else @mg K 𝕊 U a b)
    (r : Fin m) (c : Fin n) (hr : i - 1 ≤ r.val) (hc : i - 1 ≤ c.val) :
    @mg K 𝕊 U' (r.val + 1) (c.val + 1) = (PL sq m U0 (@g1 K 𝕊 W) i * M) r c := by
  have hrm := r.2
  have hcn := c.2
  unfold PL
  rw [accU_hh_mul_apply, hU']
  have hur : uL sq m U0 i r = @mg K 𝕊 U0 (r.val + 1) i := by unfold uL; rw [if_pos (by omega)]
  by_cases hci : c.val + 1 = i
  · rw [if_pos ⟨by omega, by omega, hci⟩]
    have hsum : ∑ k, uL sq m U0 i k * M k c = @mg K 𝕊 U0 i i := by
      rw [Finset.sum_eq_single (⟨c.val, by omega⟩ : Fin m)]
      · rw [hMe _ _ (Or.inr (by omega))]
        unfold eyeMN uL
        simp only []
        rw [if_pos (by omega), if_pos trivial, mul_one, hci]
      · intro k _ hk
        have : k.val ≠ c.val := fun e => hk (Fin.ext e)
        rw [hMe k c (Or.inr (by omega))]
        unfold eyeMN
        rw [if_neg this, mul_zero]
      · intro h; exact absurd (Finset.mem_univ _) h
    rw [hsum, hMe r c (Or.inr (by omega)), hur, hcol]
    have he : (if r.val + 1 = i then (1 : K) else 0) = eyeMN m n r c := by
      unfold eyeMN
      by_cases h : r.val = c.val
      · rw [if_pos (by omega), if_pos h]
      · rw [if_neg (by omega), if_neg h]
    rw [he]
    unfold bL
    by_cases hg : @g1 K 𝕊 W i = 0
    · rw [if_neg (not_not.mpr hg), hg, mul_zero, _root_.inv_zero, zero_mul, zero_mul, zero_add, add_zero]
    · rw [if_pos hg]
      have hd := hnz hg
      rw [add_comm]
      congr 1
      field_simp
  · rw [if_neg (by omega), if_pos ⟨by omega, by omega, by omega, by omega⟩]
    have hsum : ∑ k, uL sq m U0 i k * M k c = accU_S sq m U i (c.val + 1) := by
      unfold accU_S
      rw [accU_sum_Icc_fin _ (by omega : 1 ≤ i + 1)]
      refine Finset.sum_congr rfl fun k _ => ?_
      unfold uL
      by_cases hk : i + 1 ≤ k.val + 1
      · rw [if_pos hk, if_pos (by omega), hcol, hblk k c (by omega) (by omega)]
      · rw [if_neg hk]
        by_cases hk' : i ≤ k.val + 1
        · rw [hMe k c (Or.inl (by omega))]
          unfold eyeMN
          rw [if_neg (show ¬ k.val = c.val by omega), mul_zero]
        · rw [if_neg hk', zero_mul]
    rw [hsum, hur, hcol, hcol]
    have hM : (if r.val + 1 = i then (0 : K) else @mg K 𝕊 U (r.val + 1) (c.val + 1)) = M r c := by
      by_cases h : r.val + 1 = i
      · rw [if_pos h, hMe r c (Or.inl (by omega))]
        unfold eyeMN
        rw [if_neg (by omega)]
      · rw [if_neg h, hblk r c (by omega) (by omega)]
    rw [hM]
    congr 1
    unfold bL
    by_cases hg : @g1 K 𝕊 W i = 0
    · rw [if_neg (not_not.mpr hg), hg, mul_zero, _root_.inv_zero, zero_mul, zero_mul]
    · rw [if_pos hg, div_div, div_eq_mul_inv]
      ring


/-! ### the loop -/

/-- invariant after `t` iterations (the indices `mn, mn-1, …, mn-t+1` have been processed): the block of
    the rows and columns `> mn - t` holds `P_{mn-t+1} ⋯ P_mn · [I; 0]`; the columns `≤ mn - t` (the
    Householder vectors still to be used) are those of the entry array -/
structure accU_Inv (m n mn : Nat) (U0 : DMat K) (W : Array K) (t : Nat) (U : DMat K) : Prop where
  wf : MWF m n U
  blk : ∀ (r : Fin m) (c : Fin n), mn - t ≤ r.val → mn - t ≤ c.val →
    @mg K 𝕊 U (r.val + 1) (c.val + 1) = accU_M sq m n mn U0 W t r c
  frame : ∀ a b, b ≤ mn - t → @mg K 𝕊 U a b = @mg K 𝕊 U0 a b

/-- **step invariant**: the state after `t ≤ mn` iterations of the accumulation loop -/
theorem accU_invariant {m n mn : Nat} (hmn1 : mn ≤ m) (hmn2 : mn ≤ n) (hmn3 : mn = m ∨ mn = n)
    {U0 : DMat K} {W : Array K} (hU0 : MWF m n U0)
    (hnz : ∀ i, 1 ≤ i → i ≤ n → @g1 K 𝕊 W i ≠ 0 → @mg K 𝕊 U0 i i ≠ 0)
    (g0 s0 f0 : K) (L0 : Nat) {t : Nat} (ht : t ≤ mn) (st : DMat K × K × K × K × Nat)
    (h : forIn [0:t] ((U0, g0, s0, f0, L0) : DMat K × K × K × K × Nat) (@accUBody K 𝕊 m n mn W) = .ok st) :
    accU_Inv sq m n mn U0 W t st.1 := by
  refine forIn_range_inv' (Nat.zero_le t) h (fun k st => accU_Inv sq m n mn U0 W k st.1) ?_ ?_ ?_
  · refine ⟨hU0, fun r c hr hc => ?_, fun a b _ => rfl⟩
    exfalso
    have := r.2
    have := c.2
    omega
  · rintro k ⟨U, g, s, f, L⟩ st' _ hk hinv hb
    have hb' : @accUBody K 𝕊 m n mn W (mn - (mn - k)) (U, g, s, f, L) = .ok (ForInStep.yield st') := by
      rw [show mn - (mn - k) = k by omega]; exact hb
    obtain ⟨st'', hst, hw', hf'⟩ := accU_body_spec sq W hmn1 hmn2 hmn3 (i := mn - k) (by omega) (by omega)
      hinv.wf g s f L _ hb'
    injection hst with hst
    subst hst
    refine ⟨hw', fun r c hr hc => ?_, fun a b hb => ?_⟩
    · rw [accU_M_succ sq m n mn U0 W (by omega : k < mn)]
      exact accU_step_alg sq (by omega) (by omega) (by omega) U0 U st'.1 W _
        (hnz (mn - k) (by omega) (by omega)) (accU_M_eye sq m n mn U0 W k (by omega)) hinv.blk
        (fun a => hinv.frame a (mn - k) (le_refl _)) hf' r c (by omega) (by omega)
    · rw [hf', if_neg (by omega), if_neg (by omega)]
      exact hinv.frame a b (by omega)
  · rintro k ⟨U, g, s, f, L⟩ st' _ hk hinv hb
    have hb' : @accUBody K 𝕊 m n mn W (mn - (mn - k)) (U, g, s, f, L) = .ok (ForInStep.done st') := by
      rw [show mn - (mn - k) = k by omega]; exact hb
    obtain ⟨st'', hst, _⟩ := accU_body_spec sq W hmn1 hmn2 hmn3 (i := mn - k) (by omega) (by omega)
      hinv.wf g s f L _ hb'
    injection hst

/-- **phase 3**: the accumulation of the left-hand transformations returns the first `n` columns of
    `P₁ ⋯ P_mn` -/
theorem phase3_stmt : Phase3Stmt sq := by
  intro m n U W g0 s0 f0 L0 st hU hW hnz h
  generalize hmn : (if m < n then m else n) = mn at h ⊢
  have hmn1 : mn ≤ m := by subst hmn; split <;> omega
  have hmn2 : mn ≤ n := by subst hmn; split <;> omega
  have hmn3 : mn = m ∨ mn = n := by subst hmn; split <;> omega
  have inv := accU_invariant sq hmn1 hmn2 hmn3 hU hnz g0 s0 f0 L0 (le_refl mn) st h
  refine ⟨inv.wf, ?_⟩
  ext r c
  rw [toMatrix_mg sq, inv.blk r c (by omega) (by omega)]
  unfold accU_M
  rw [show mn - mn + 1 = 1 by omega]

end Gama.Ls.Svd
