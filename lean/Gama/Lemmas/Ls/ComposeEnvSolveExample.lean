/-
  Concrete instance for the non-vacuity examples of the `envSolve`-level theorems
  (Props/C01/EnvSolve.lean, Props/C03/EnvSolve.lean): a 3×2 design matrix with two equal columns
  `A = [[1,1],[1,1],[2,2]]` (defect 1, kernel (1,−1)) with a CORRELATED covariance block
  `[[4,2],[2,10]]` (band width 1; Cholesky pivots 4 and 9) and a third observation of variance 1/4,
  regularisation over the first unknown only (a proper subset that resolves the defect).
  (Two unknowns keep the reverse Cuthill–McKee run free of `List.mergeSort` on more than one
  element, which the kernel cannot unfold.)  Everything is evaluated by the kernel over ℚ with the partial square root
  `Ex.sqQ` (exact on every value whose root is taken here: 4, 9, 1/4 and 1).
-/
import Gama.Lemmas.Ls.ComposeEnvSolve
import Gama.Lemmas.Ls.CholExample
import Gama.Lemmas.Ls.AdjExample

namespace Gama.Ls.Ex
open Gama Gama.Ls Gama.Ls.Env Gama.Ls.AdjM Gama.LS
attribute [local instance 2000] scalarOfField

def pEnvCorr : Problem ℚ :=
  { m := 3, n := 2
    rows := #[#[(1, 1), (2, 1)], #[(1, 1), (2, 1)], #[(1, 2), (2, 2)]]
    cov := #[⟨2, 1, #[4, 2, 10]⟩, ⟨1, 0, #[1/4]⟩]
    rhs := #[1, 2, 3]
    reg := .subset [1] }

/-- the weight matrix of `pEnvCorr`: inverse of `diag([[4,2],[2,10]], 1/4)` -/
def PEnvCorr : Matrix (Fin pEnvCorr.m) (Fin pEnvCorr.m) ℚ :=
  (!![5/18, -1/18, 0; -1/18, 1/9, 0; 0, 0, 4] : Matrix (Fin 3) (Fin 3) ℚ)

instance decFactUnambiguous (sq : ℚ → ℚ) (tol : ℚ) (m n : ℕ) (At : DMat ℚ) (bt : Array ℚ) (o : EnvOrd) :
    Decidable (FactUnambiguous sq tol m n At bt o) := by
  unfold FactUnambiguous Unambiguous; infer_instance

instance decGSUnambiguous (sq : ℚ → ℚ) (tol stol : ℚ) (m n : ℕ) (At : DMat ℚ) (bt : Array ℚ) (o : EnvOrd)
    (S : List ℕ) : Decidable (GSUnambiguous sq (n := n) tol stol m At bt o S) := by
  unfold GSUnambiguous; infer_instance

/-- executable form of `SolveUnambiguous ∧ SolveGSUnambiguous` -/
def chkUnamb (p : Problem ℚ) : Bool :=
  match homogenize p with
  | .ok hh =>
    decide (FactUnambiguous sqQ (sqrtEps : ℚ) p.m p.n hh.At hh.bt (rcmOrd p.n hh.pat)) &&
    decide (GSUnambiguous sqQ (n := p.n) (sqrtEps : ℚ) (sqrtEps : ℚ) p.m hh.At hh.bt (rcmOrd p.n hh.pat)
      (regList p.n (rcmOrd p.n hh.pat) p.reg))
  | .error _ => false

theorem unamb_of_chk (p : Problem ℚ) (h : chkUnamb p = true) :
    Env.SolveUnambiguous p ∧ Env.SolveGSUnambiguous p := by
  unfold chkUnamb at h
  constructor
  · intro hh hhom
    rw [hhom] at h
    simp only [Bool.and_eq_true, decide_eq_true_eq] at h
    exact h.1
  · intro hh hhom
    rw [hhom] at h
    simp only [Bool.and_eq_true, decide_eq_true_eq] at h
    exact h.2

theorem pEnvCorr_input : Env.InputOK pEnvCorr := by
  refine ⟨?_, by decide, ?_⟩
  · intro b hb
    have : b = ⟨2, 1, #[4, 2, 10]⟩ ∨ b = ⟨1, 0, #[1/4]⟩ := by simpa [pEnvCorr] using hb
    rcases this with rfl | rfl <;> exact ⟨by decide, by decide⟩
  · intro i hi
    have : i = 0 ∨ i = 1 ∨ i = 2 := by have : i < 3 := hi; omega
    rcases this with rfl | rfl | rfl <;> simp [pEnvCorr, Array.getD]

theorem pEnvCorr_reg : Env.RegListOK pEnvCorr := by
  intro l hl
  have : l = [1] := by
    have h : Reg.subset [1] = Reg.subset l := hl
    injection h with h'; exact h'.symm
  subst this
  exact ⟨by decide, by decide⟩

theorem pEnvCorr_unamb : Env.SolveUnambiguous pEnvCorr ∧ Env.SolveGSUnambiguous pEnvCorr :=
  unamb_of_chk pEnvCorr (by decide +kernel)

theorem pEnvCorr_weight : pEnvCorr.C * PEnvCorr = 1 := by
  rw [← Cadj_eq_C pEnvCorr (by decide)]
  show (Cadj pEnvCorr * PEnvCorr : Matrix (Fin 3) (Fin 3) ℚ) = 1
  decide +kernel

/-- the model's answer on `pEnvCorr`: defect 1, `unknowns()` answers, `x₁ = 0` -/
theorem pEnvCorr_answer : ∃ a, envSolve pEnvCorr = .ok a ∧ a.defect = 1 ∧ a.xErr = none
    ∧ a.x = #[0, 438/293] ∧ a.r = #[145/293, -148/293, -3/293] ∧ a.rtr = 73/586 := by
  have h : (envSolve pEnvCorr).toOption.map (fun a => (a.defect, a.xErr, a.x, a.r, a.rtr))
      = some (1, none, #[0, 438/293], #[145/293, -148/293, -3/293], 73/586) := by decide +kernel
  obtain ⟨a, h1, h2⟩ := ok_of_toOption h
  simp only [Prod.mk.injEq] at h2
  exact ⟨a, h1, h2.1, h2.2.1, h2.2.2.1, h2.2.2.2.1, h2.2.2.2.2⟩

/-- the same through class `Adj` (sparse branch) -/
theorem pEnvCorr_adj_answer : ∃ a, adjSolve .env pEnvCorr = .ok a ∧ a.defect = 1
    ∧ a.x = #[0, 438/293] ∧ a.rtr = 73/586 := by
  have h : (adjSolve .env pEnvCorr).toOption.map (fun a => (a.defect, a.x, a.rtr))
      = some (1, #[0, 438/293], 73/586) := by decide +kernel
  obtain ⟨a, h1, h2⟩ := ok_of_toOption h
  simp only [Prod.mk.injEq] at h2
  exact ⟨a, h1, h2.1, h2.2.1, h2.2.2⟩

/-- the subset `{1}` is proper -/
theorem pEnvCorr_S : pEnvCorr.S ≠ Finset.univ := by decide

end Gama.Ls.Ex
