/-
  `Problem.dense` (the dense design matrix every model reads) for the two kinds of sparse rows
  class `Adj` meets: the rows it builds for the full solvers (`AdjM.dotProblem`) and the original
  rows it multiplies `x` with (`AdjM.origResiduals`).
-/
import Gama.Lemmas.Ls.AdjChol

namespace Gama.Ls
open Finset Dn AdjM

set_option linter.unusedSectionVars false
set_option linter.unusedVariables false

section
variable {K : Type} [Field K] [LinearOrder K] [IsStrictOrderedRing K] [SqrtFn K]
attribute [local instance 2000] scalarOfField

/-- one dense row: `A_dot(k,*i) += *n` over the stored entries (starting from zeros) -/
def rowDense (n : Nat) (l : List (Nat × K)) : Array K :=
  l.foldl (fun (acc : Array K) (cv : Nat × K) => acc.setIfInBounds (cv.1 - 1) (acc.getD (cv.1 - 1) 0 + cv.2)) (Array.replicate n 0)

theorem rowDense_size (n : Nat) (l : List (Nat × K)) : (rowDense n l).size = n := by
  unfold rowDense
  have : ∀ (acc : Array K), acc.size = n →
      (l.foldl (fun (acc : Array K) (cv : Nat × K) => acc.setIfInBounds (cv.1 - 1) (acc.getD (cv.1 - 1) 0 + cv.2)) acc).size = n := by
    induction l with
    | nil => intro acc h; exact h
    | cons a l ih => intro acc h; rw [List.foldl_cons]; exact ih _ (by simp [h])
  exact this _ (by simp)

theorem rowDense_snoc (n : Nat) (l : List (Nat × K)) (cv : Nat × K) :
    rowDense n (l ++ [cv]) = (rowDense n l).setIfInBounds (cv.1 - 1) (vget (rowDense n l) (cv.1 - 1) + cv.2) := by
  unfold rowDense vget; rw [List.foldl_append]; rfl

theorem mget_dense (p : Problem K) (i j : Nat) :
    mget p.dense i j = vget (rowDense p.n (p.rows.getD i #[]).toList) j := by
  unfold mget Problem.dense vget rowDense
  by_cases hi : i < p.rows.size
  · have h1 : (Array.map (fun r => Array.foldl (fun (acc : Array K) (x : Nat × K) => acc.setIfInBounds (x.1 - 1) (acc.getD (x.1 - 1) 0 + x.2))
        (Array.replicate p.n 0) r) p.rows).getD i #[]
        = Array.foldl (fun (acc : Array K) (x : Nat × K) => acc.setIfInBounds (x.1 - 1) (acc.getD (x.1 - 1) 0 + x.2))
          (Array.replicate p.n 0) (p.rows.getD i #[]) := by
      simp [Array.getD, hi]
    rw [h1, ← Array.foldl_toList]
  · have h1 : (Array.map (fun r => Array.foldl (fun (acc : Array K) (x : Nat × K) => acc.setIfInBounds (x.1 - 1) (acc.getD (x.1 - 1) 0 + x.2))
        (Array.replicate p.n 0) r) p.rows).getD i #[] = #[] := by
      simp [Array.getD, hi]
    have h2 : p.rows.getD i #[] = #[] := by simp [Array.getD, hi]
    rw [h1, h2]
    simp [Array.getD]

/-- columns not mentioned in the row stay zero -/
theorem rowDense_zero (n : Nat) (l : List (Nat × K)) (j : Nat) (hj : ∀ cv ∈ l, cv.1 - 1 ≠ j) :
    vget (rowDense n l) j = 0 := by
  induction l using List.reverseRecOn with
  | nil =>
    unfold rowDense vget
    simp only [List.foldl_nil]
    by_cases h : j < n
    · simp [Array.getD, h]
    · simp [Array.getD, h]
  | append_singleton l cv ih =>
    rw [rowDense_snoc, vget_set]
    have h1 := hj cv (by simp)
    rw [if_neg (fun h => h1 h.1)]
    exact ih (fun cv' h => hj cv' (by simp [h]))

/-- `Σ_j dense(i,j)·x_j` equals the sum over the stored entries when the columns of the row are inside `1..n`
    (repeated column indices allowed: the dense row holds the SUM of their coefficients) -/
theorem rowDense_dot' (n : Nat) (l : List (Nat × K)) (x : Nat → K) (hr : ∀ cv ∈ l, 1 ≤ cv.1 ∧ cv.1 ≤ n) :
    ∑ j ∈ range n, vget (rowDense n l) j * x j
      = l.foldl (fun (s : K) (cv : Nat × K) => s + cv.2 * x (cv.1 - 1)) 0 := by
  induction l using List.reverseRecOn with
  | nil =>
    simp only [List.foldl_nil]
    refine Finset.sum_eq_zero fun j _ => ?_
    rw [rowDense_zero n [] j (by simp), zero_mul]
  | append_singleton l cv ih =>
    have hr1 : ∀ cv' ∈ l, 1 ≤ cv'.1 ∧ cv'.1 ≤ n := fun cv' h => hr cv' (by simp [h])
    obtain ⟨hc1, hc2⟩ := hr cv (by simp)
    rw [List.foldl_append, ← ih hr1, rowDense_snoc]
    simp only [List.foldl_cons, List.foldl_nil]
    have hcn : cv.1 - 1 < n := by omega
    have hsz := rowDense_size n l
    have : ∀ j ∈ range n,
        vget ((rowDense n l).setIfInBounds (cv.1 - 1) (vget (rowDense n l) (cv.1 - 1) + cv.2)) j * x j
        = vget (rowDense n l) j * x j + (if j = cv.1 - 1 then cv.2 * x (cv.1 - 1) else 0) := by
      intro j hj
      rw [vget_set]
      by_cases h : cv.1 - 1 = j
      · subst h
        rw [if_pos ⟨rfl, by rw [hsz]; exact hcn⟩, if_pos rfl]; ring
      · rw [if_neg (fun h' => h h'.1), if_neg (fun h' => h h'.symm), add_zero]
    rw [Finset.sum_congr rfl this, Finset.sum_add_distrib, Finset.sum_ite_eq' (range n) (cv.1 - 1)]
    rw [if_pos (Finset.mem_range.2 hcn)]

/-- the form with the (no longer needed) no-repeat hypothesis, kept for its callers -/
theorem rowDense_dot (n : Nat) (l : List (Nat × K)) (x : Nat → K)
    (hnd : (l.map (·.1)).Nodup) (hr : ∀ cv ∈ l, 1 ≤ cv.1 ∧ cv.1 ≤ n) :
    ∑ j ∈ range n, vget (rowDense n l) j * x j
      = l.foldl (fun (s : K) (cv : Nat × K) => s + cv.2 * x (cv.1 - 1)) 0 :=
  rowDense_dot' n l x hr

/-- the rows `Adj` builds for a full solver reproduce `A_dot` -/
theorem rowDense_full (n : Nat) (f : Nat → K) (j : Nat) (hj : j < n) :
    vget (rowDense n ((List.range n).map fun j => (j + 1, f j))) j = f j := by
  have key : ∀ n', n' ≤ n → ∀ j, vget (rowDense n ((List.range n').map fun j => (j + 1, f j))) j
      = if j < n' then f j else 0 := by
    intro n'
    induction n' with
    | zero =>
      intro _ j
      simp only [List.range_zero, List.map_nil, Nat.not_lt_zero, if_false]
      exact rowDense_zero n [] j (by simp)
    | succ n' ih =>
      intro hn j
      rw [List.range_succ, List.map_append, List.map_singleton, rowDense_snoc, vget_set]
      simp only [Nat.add_sub_cancel]
      by_cases h : n' = j
      · subst h
        rw [if_pos ⟨rfl, by rw [rowDense_size]; omega⟩, if_pos (by omega), ih (by omega) n', if_neg (lt_irrefl _),
          zero_add]
      · rw [if_neg (fun h' => h h'.1), ih (by omega) j]
        by_cases h2 : j < n'
        · rw [if_pos h2, if_pos (by omega)]
        · rw [if_neg h2, if_neg (by omega)]
  rw [key n (le_refl n) j, if_pos hj]

theorem mget_dense_dotProblem (p : Problem K) (Ad : DMat K) (bd : Array K) (reg : Reg) (i j : Nat)
    (hi : i < p.m) (hj : j < p.n) :
    mget (dotProblem p Ad bd reg).dense i j = mget Ad i j := by
  rw [mget_dense]
  have : (dotProblem p Ad bd reg).rows.getD i #[]
      = ((List.range p.n).map fun j => (j + 1, mget Ad i j)).toArray := by
    unfold dotProblem
    simp only []
    rw [getD_ofFn', dif_pos hi]
  rw [this]
  exact rowDense_full p.n (fun j => mget Ad i j) j hj

/-- sparse rows whose column indices are inside `1..n` (`AdjInputData` does not check it).  Round 11: NO no-repeat
    condition any more — several coefficients stored with the same column index add up in every consumer
    (`Problem.dense`), so a row of an observation from a point to itself is covered -/
def RowsOK (p : Problem K) : Prop :=
  ∀ i, i < p.m → ∀ cv ∈ (p.rows.getD i #[]).toList, 1 ≤ cv.1 ∧ cv.1 ≤ p.n

/-- the former, stronger form (distinct column indices in every row) -/
theorem RowsOK.of_nodup {p : Problem K}
    (h : ∀ i, i < p.m → ((p.rows.getD i #[]).toList.map (·.1)).Nodup ∧
      ∀ cv ∈ (p.rows.getD i #[]).toList, 1 ≤ cv.1 ∧ cv.1 ≤ p.n) : RowsOK p :=
  fun i hi => (h i hi).2

/-- `Adj`'s residuals with the original sparse rows are `A x - b` -/
theorem origResiduals_spec (p : Problem K) (hrows : RowsOK p) (x : Array K) (i : Nat) (hi : i < p.m) :
    vget (origResiduals p x) i = ∑ j ∈ range p.n, mget p.dense i j * vget x j - vget p.rhs i := by
  unfold origResiduals
  rw [vget_vmk, if_pos hi]
  congr 1
  have hr := hrows i hi
  rw [← Array.foldl_toList]
  rw [← rowDense_dot' p.n (p.rows.getD i #[]).toList (fun j => vget x j) hr]
  exact Finset.sum_congr rfl fun j _ => by rw [mget_dense]

end
end Gama.Ls
