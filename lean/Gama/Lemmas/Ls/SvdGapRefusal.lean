/-
  "answered ⇒ the regularisation subset resolves the defect" for envelope, cholesky and gso WITHOUT a
  second-stage premise (for `Props/C02SvdGap.lean`, the four-solver refusal/acceptance statement).

  `C02_refusal_env` / `C02_refusal_chol` / `C02_refusal_gso` ask the second-stage trace premise
  (`GSUnambiguous`, `GsUnamb`, the second half of `Gso.Unambiguous`) for BOTH directions, but the direction
  "answered ⇒ `Resolves A S`" needs the factorisation stage only:

    * envelope, cholesky: the proofs of `envCore_refusal` / `chol_refusal` do not use the second-stage
      premise in this direction (restated here without it);
    * gso: a run that is not refused has `error_icgs2_defect = 0`, i.e. EVERY norm the second
      orthogonalisation tested was found `> tolerance` (`icgs2_err_zero`) — so the second half of
      `Gso.Unambiguous` holds for that run by itself.

  Together with `SMargin ⇒ answered` (`C02_all_answer_of_gap`) this leaves exactly the band between
  `Resolves` and `SMargin` undecided — closed by the dichotomy `SDich` (`sMargin_of_dich`).
-/
import Gama.Lemmas.Ls.Gap2Facade
import Gama.Lemmas.Ls.GsoRefuse
import Gama.Lemmas.Ls.EnvRefusalFinal

namespace Gama.Ls
open Finset Matrix Gama.LS

set_option linter.unusedSectionVars false
set_option linter.unusedVariables false

/-! ### the second-stage dichotomy on `(A, S, τ)` -/

section
variable {K : Type} [Field K] [LinearOrder K] [IsStrictOrderedRing K] {m n : ℕ}

/-- every non-zero kernel vector (datum transformation) vanishes on `S` or has an `S`-part above the
    margin: `‖g_S‖² = 0 ∨ τ²‖g‖² < ‖g_S‖²` — the second-stage premise `hgap` of `C02_refusal_svd`, as a
    named condition on `(A, S, τ)`.  Antitone in `τ`; `SMargin` is its conjunction with `Resolves`. -/
def SDich (A : Matrix (Fin m) (Fin n) K) (S : Finset (Fin n)) (τ : K) : Prop :=
  ∀ g : Fin n → K, A *ᵥ g = 0 → g ≠ 0 → ∑ i ∈ S, g i * g i = 0 ∨ τ * τ * (g ⬝ᵥ g) < ∑ i ∈ S, g i * g i

variable {A : Matrix (Fin m) (Fin n) K} {S : Finset (Fin n)} {τ τ' : K}

theorem SDich.mono (h : SDich A S τ) (h0 : 0 ≤ τ') (hτ : τ' ≤ τ) : SDich A S τ' := by
  intro g hg hne
  rcases h g hg hne with h0' | hgt
  · exact Or.inl h0'
  · exact Or.inr (lt_of_le_of_lt
      (mul_le_mul_of_nonneg_right (mul_le_mul hτ hτ h0 (le_trans h0 hτ)) (sqnorm_nonneg g)) hgt)

theorem SMargin.dich (h : SMargin A S τ) : SDich A S τ := fun g hg hne => Or.inr (h g hg hne)

/-- under the dichotomy, a resolving subset resolves WITH MARGIN -/
theorem sMargin_of_dich (h : SDich A S τ) (hres : Resolves A S) : SMargin A S τ := by
  intro g hg hne
  rcases h g hg hne with h0 | hgt
  · exfalso
    apply hne
    refine hres g hg fun i hi => ?_
    have := (Finset.sum_eq_zero_iff_of_nonneg (fun j _ => mul_self_nonneg (g j))).1 h0 i hi
    exact mul_self_eq_zero.1 this
  · exact hgt

/-- the exact test (`τ = 0`) needs no premise -/
theorem sDich_zero : SDich A S 0 := by
  intro g _ _
  rcases (Finset.sum_nonneg fun i (_ : i ∈ S) => mul_self_nonneg (g i)).lt_or_eq with h | h
  · right; simpa using h
  · exact Or.inl h.symm

end

/-! ### envelope -/

namespace Env
variable {K : Type} [Field K] [LinearOrder K] [IsStrictOrderedRing K] (sq : K → K)
local notation "𝔽" => fieldScalar sq

variable (tol stol : K) (m n : ℕ) (A : DMat K) (b : Array K) (At : DMat K) (bt : Array K)
  (reg : Reg) (o : EnvOrd)

/-- `unknowns()` answered ⇒ the subset resolves the defect — factorisation premise only -/
theorem envCore_answers_resolves (hsq : IsSqrt sq) (hO : OrdOK n o) (hU : FactUnambiguous sq tol m n At bt o)
    (htol : 0 < tol) (hstol : 0 < stol)
    {W : Matrix (Fin m) (Fin m) K} (hWinj : ∀ d, W *ᵥ d = 0 → d = 0)
    (hAt : toMatrix m n At = W * toMatrix m n A)
    {Sorig : Finset (Fin n)} (hreg : RegOK n o reg Sorig) {x : Array K}
    (hx : (@envCore K 𝔽 tol stol m n A b At bt reg o).x = .ok x) : Resolves (toMatrix m n A) Sorig := by
  have hxdef : (@envCore K 𝔽 tol stol m n A b At bt reg o).x
      = (@solveX K 𝔽 (@factor K 𝔽 tol m n At bt o) (regList n o reg) stol).map
        (fun gx => @vecOf K n fun j => @vget K 𝔽 gx.2 (o.invp.getD j 0)) := rfl
  rw [hxdef] at hx
  cases hs : @solveX K 𝔽 (@factor K 𝔽 tol m n At bt o) (regList n o reg) stol with
  | ok gx =>
    obtain ⟨G, xn⟩ := gx
    intro g hg hgS
    have h1 := (ker_orig_iff sq tol m n A At bt o hO hWinj hAt g).1 hg
    have h2 := (vanish_iff n reg o hO hreg g).1 hgS
    have := solveX_ok_resolves sq tol stol m At bt o hsq hU htol hstol hreg.lt hs _ h1 h2
    ext j
    have hj := congrFun this (hO.equiv.symm j)
    simpa using hj
  | error e =>
    rw [hs] at hx
    cases hx

end Env

/-! ### cholesky -/

section
open Dn Chol
variable {K : Type} [Field K] [LinearOrder K] [IsStrictOrderedRing K] [SqrtFn K]
attribute [local instance 2000] scalarOfField

/-- `cholSolve` answered ⇒ the subset resolves the defect — factorisation premise only (the proof of
    `chol_refusal` in this direction, which never used `GsUnamb`) -/
theorem chol_answers_resolves (p : Problem K) (hU : Chol.UnambiguousF (cholFact p)) (hsq : Chol.GsSqrtExact p)
    (a : Answer K) (h : cholSolve p = .ok a) : Resolves p.A p.S := by
  unfold cholSolve at h
  cases hs : Chol.solve p with
  | error e => rw [hs] at h; simp [Except.map] at h
  | ok s =>
    obtain ⟨hm, hn, hA, hperm, hinvp, hmat, hnull, hN0, hx0, hr, _, hreg, _, hgs⟩ := solve_shape p s hs
    by_cases h0 : (cholFact p).nullity = 0
    · exact resolves_of_ker_trivial (cholFact_regular_ker p h0) p.S
    · obtain ⟨hloop, hx⟩ := hgs h0
      have hS := regList_lt p.n p.reg s.S hreg
      have hinit := chol_gsInv_init p hU s.S
      rw [← hx0] at hinit
      obtain ⟨gpf, hfin⟩ := gsLoop_inv hS (cholFact p).nullity 0 _ _ s.G hinit (by omega) (by
        have := hsq s.S hreg
        rw [← hx0] at this
        exact this) hloop
      intro g hg hgS
      have hk : ∀ k, k < p.m → ∑ v ∈ range p.n, mget p.dense k v * extend g v = 0 := by
        intro k hk
        rw [← mulVec_extend p g ⟨k, hk⟩, hg]; rfl
      have := resolves_of_gsInv hfin hS (extend g) hk (by
        intro r hr
        have hrn := hS r hr
        unfold extend; rw [dif_pos hrn]
        exact hgS ⟨r, hrn⟩ ((mem_S_iff p s.S hreg ⟨r, hrn⟩).2 hr))
      funext i
      have h1 := this i.val i.isLt
      unfold extend at h1; rw [dif_pos i.isLt] at h1
      exact h1

end

/-! ### gso -/

namespace Gso
variable {K : Type} [Field K] [LinearOrder K] [IsStrictOrderedRing K] [SqrtField K]
attribute [local instance 2000] scalarOfField

/-- a second orthogonalisation that counted no error found every tested norm above the tolerance -/
theorem step2_fold_err_zero (tol : K) (mask : List Bool) (cs : List (List K)) (s : S2 K)
    (hs : s.err = 0 → ∀ r ∈ s.tested, tol < r)
    (he : (cs.foldl (step2 tol mask) s).err = 0) : ∀ r ∈ (cs.foldl (step2 tol mask) s).tested, tol < r := by
  induction cs generalizing s with
  | nil => exact hs he
  | cons c cs ih =>
    rw [List.foldl_cons] at he ⊢
    refine ih _ ?_ he
    unfold step2
    dsimp only
    split
    · next hlt =>
      intro he' r hr
      rcases List.mem_append.1 hr with hr | hr
      · exact hs he' r hr
      · rw [List.mem_singleton.1 hr]; exact hlt
    · intro he'
      exact absurd he' (Nat.succ_ne_zero _)

theorem icgs2_err_zero (tol : K) (mask : List Bool) (r : R1 K) (he : (icgs2 tol mask r).err = 0) :
    ∃ t2, (icgs2 tol mask r).tested = r.tested ++ t2 ∧ ∀ x ∈ t2, tol < x := by
  unfold icgs2 at he ⊢
  split
  · exact ⟨[], by simp, by simp⟩
  · next hne =>
    rw [if_neg hne] at he
    refine ⟨_, rfl, ?_⟩
    have he' : (((((List.range r.cols.length).zip r.cols |> fun idx => movePtrs idx r.dep).take r.dep.length).map
        (fun c => c.2.bot)).foldl (step2 tol mask) {}).err = 0 := by
      rw [List.foldl_map]; exact he
    have := step2_fold_err_zero tol mask _ {} (fun _ r hr => absurd hr (by simp)) he'
    rw [List.foldl_map] at this
    exact this

/-- a run with `error_icgs2_defect = 0` meets the second half of `Gso.Unambiguous` by itself -/
theorem gso_phase2_of_err_zero (p : Problem K) (he : (runOf p).err = 0) :
    ∀ r ∈ (runOf p).tested.drop p.n, r = 0 ∨ (tolerance : K) < r := by
  have hlen : (stage1 p).tested.length = p.n := by
    show (icgs1 _ _ _).tested.length = p.n
    rw [icgs1_tested, step1_tested_length]; exact augmented_length _ _ _ _
  rw [runOf_eq] at he ⊢
  obtain ⟨t2, ht, hgt⟩ := icgs2_err_zero _ _ _ he
  rw [ht, List.drop_append_of_le_length (le_of_eq hlen.symm), ← hlen, List.drop_length]
  intro r hr
  exact Or.inr (hgt r (by simpa using hr))

end Gso

section
variable {K : Type} [Field K] [LinearOrder K] [IsStrictOrderedRing K] [Gso.SqrtField K]
attribute [local instance] sqrtFnOfSqrtField
attribute [local instance 2000] scalarOfField

/-- with the list in range `gsoSolve` answers or throws `BadRegularization`, decided by `error_icgs2_defect` -/
theorem gso_answer_or_refuse (p : Problem K) (hrr : Gso.regInRange p.n p.reg = true) :
    ((Gso.runOf p).err = 0 → ∃ a, gsoSolve p = .ok a)
      ∧ ((Gso.runOf p).err ≠ 0 → gsoSolve p = .error .BadRegularization) := by
  constructor
  · intro he; simp [gsoSolve, gsoSolveWith, hrr, he]
  · intro he; simp [gsoSolve, gsoSolveWith, hrr, he]

/-- `gsoSolve` answered ⇒ the subset resolves the defect — first-phase premise (`GapCols`) only -/
theorem gso_answers_resolves (p : Problem K) (hG : Gso.GapCols p) (a : Answer K) (h : gsoSolve p = .ok a) :
    Resolves p.A p.S := by
  have he : (Gso.runOf p).err = 0 := by
    by_contra hne
    unfold gsoSolve gsoSolveWith at h
    simp only [Bool.true_and] at h
    split at h
    · cases h
    · simp [hne] at h
  exact Gso.gso_resolves_of_err_zero p (Gso.gso_unambiguous_of_gap p hG (Gso.gso_phase2_of_err_zero p he)) he

end

end Gama.Ls
