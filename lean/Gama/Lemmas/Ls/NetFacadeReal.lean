/-
  Reduction lemmas that make the model of `LocalNetwork` (`Model/NetFacade.lean`) EVALUATE over ℝ
  (`Real.sqrt`) on a small network — `decide` is not available there, so every kernel the façade calls gets a
  symbolic lemma on the shapes that occur (2×2 band-1 block, 1×1 block), proved once by `simp`:

    * `Cov.activeCov`                      — `activeCov_3_2_tft`, `activeCov_1_0_t` (any carrier, any entries);
    * `CovMat::cholDec` (LDLᵀ)             — `cholDec_2_1`, `cholDec_1_0` (pivot tests as hypotheses);
    * the sqrt scaling of `Adj::choldec`   — `scaleToChol_2_1`, `scaleToChol_1_0`;
    * `Adj::forwardSubstitution`           — `forwardSubst_2_1`, `forwardSubst_1_0`;
    * `BlockDiagonal::cholDec`, the sweep of `Homogenization::run` (sparse path) — `bdChol_2_1`, `bdChol_1_0`,
      `sweep_2_1`, `sweep_1_0`.

  The network family `Ex.npW m0 minx : NetProblem ℝ` (the numbers of `Ex.npQ`, `Lemmas/Ls/NetFacadeExample.lean`):
    * a CORRELATED cluster of three observations, `covariance_matrix = [[16,3,8],[3,25,5],[8,5,40]]` (band 2), whose
      SECOND observation is passive — `activeCov()` = `[[16,8],[8,40]]`, band clipped to 1;
    * a cluster whose only observation is passive (skipped);
    * an uncorrelated cluster: one observation of variance 16;
    * `A = [[4,4],[5,5],[4,4]]` (two equal columns: rank defect 1, kernel (1,−1)), `rhs_ = (1,2,3)`.
  `Ex.npR := npW 2 [1]` (`m_0_apr_ = 2`, `min_x_ = [1]`): cofactor blocks `[[4,2],[2,10]]`, `[4]`; LDLᵀ pivots 4, 9, 4
  (perfect squares, so `Real.sqrt` evaluates); `prepareProjectEquations()` leaves `A = [[2,2],[1,1],[2,2]]`,
  `b = (1/2,1/2,3/2)` — the system `Ex.pCSdot` of `Lemmas/Ls/ComposeAdjExample.lean`.
  `Net.scaleM0 2 npR = npW (2*2) [1]` (cofactor blocks `[[1,1/2],[1/2,5/2]]`, `[1]`, pivots 1, 9/4, 1) and
  `{ npR with minx := [2] } = npW 2 [2]` are the second runs of the σ_apr-scaling and the datum theorems.

  Then (second half): `netSolve .gso`, `.chol`, `.env` on these networks over ℝ.
-/
import Gama.Lemmas.Ls.NetFacadeCof
import Gama.Lemmas.Ls.NetFacadeScale
import Gama.Lemmas.Ls.ComposeAdjExample
import Gama.Lemmas.Ls.ComposeJointEnvSolveExample
import Gama.Lemmas.Ls.Gap2Facade
import Mathlib.Tactic.NormNum.RealSqrt

namespace Gama.Ls.Ex
open Gama Gama.Ls Gama.Ls.Net Gama.Ls.AdjM Gama.LS Gama.Ls.Gso.Ex
attribute [local instance] sqrtFnOfSqrtField
attribute [local instance 2000] scalarOfField
set_option linter.unusedSimpArgs false
set_option linter.unusedVariables false

/-! ### symbolic kernels -/

/-- `Cluster::activeCov()` of a full 3×3 matrix whose second observation is passive: the principal sub-matrix at
    (1,3), band clipped to 1 -/
theorem activeCov_3_2_tft {K : Type} [Zero K] (a b c d e f : K) :
    Cov.activeCov ⟨3, 2, #[a, b, c, d, e, f]⟩ [⟨true, 1⟩, ⟨false, 1⟩, ⟨true, 1⟩] = ⟨2, 1, #[a, c, f]⟩ := by
  simp [Cov.activeCov, Cov.activeCovOf, Cov.activeIdx, Cov.CovMat.mk', Cov.Packed.size, Cov.CovMat.set, Cov.CovMat.get,
    Cov.Packed.idx, Cov.Packed.rowOff, Cov.CovMat.rawSet, Cov.CovMat.raw, Cov.CovMat.inBuf, List.range, List.range.loop,
    List.range'_succ, List.range'_zero]
  rfl

theorem activeCov_1_0_t {K : Type} [Zero K] (a : K) :
    Cov.activeCov ⟨1, 0, #[a]⟩ [⟨true, 1⟩] = ⟨1, 0, #[a]⟩ := by
  simp [Cov.activeCov, Cov.activeCovOf, Cov.activeIdx, Cov.CovMat.mk', Cov.Packed.size, Cov.CovMat.set, Cov.CovMat.get,
    Cov.Packed.idx, Cov.Packed.rowOff, Cov.CovMat.rawSet, Cov.CovMat.raw, Cov.CovMat.inBuf, List.range, List.range.loop,
    List.range'_succ, List.range'_zero]

theorem covEps_pos : (0 : ℝ) < (Cov.epsilon : ℝ) := by
  show (0 : ℝ) < ((1 : ℕ) : ℝ) / ((4503599627370496 : ℕ) : ℝ)
  positivity

theorem covEps_small : (Cov.epsilon : ℝ) < 1 / 1000 := by
  show ((1 : ℕ) : ℝ) / ((4503599627370496 : ℕ) : ℝ) < 1 / 1000
  norm_num

set_option maxRecDepth 8000 in
/-- `CovMat::cholDec` (LDLᵀ in the upper band storage) of a 2×2 band-1 block; the two pivot tests as hypotheses -/
theorem cholDec_2_1 (a b c : ℝ) (ha : ¬ a ≤ Cov.tolOf 2 (Scalar.max c (Scalar.max a 0)))
    (hc : ¬ c - b / a * b ≤ Cov.tolOf 2 (Scalar.max c (Scalar.max a 0))) :
    Cov.cholDec (⟨2, 1, #[a, b, c]⟩ : Cov.CovMat ℝ) = .ok ⟨2, 1, #[a, b / a, c - b / a * b]⟩ := by
  simp [Cov.cholDec, Cov.cholRows, Cov.cholStep, Cov.elimRow, Cov.scaleRow,
    Cov.maxDiag, Cov.CovMat.setU, Cov.CovMat.get, Cov.Packed.idx, Cov.Packed.rowOff, Cov.CovMat.rawSet, Cov.CovMat.raw,
    Cov.CovMat.inBuf, List.range'_succ, List.range'_zero, ha, hc]

set_option maxRecDepth 8000 in
/-- the scaling loop of `Adj::choldec` on a 2×2 band-1 factor -/
theorem scaleToChol_2_1 (a b c : ℝ) :
    Cov.scaleToChol (⟨2, 1, #[a, b, c]⟩ : Cov.CovMat ℝ) = ⟨2, 1, #[Real.sqrt a, b * Real.sqrt a, Real.sqrt c]⟩ := by
  simp [Cov.scaleToChol, Cov.CovMat.setU, Cov.CovMat.get, Cov.Packed.idx, Cov.Packed.rowOff, Cov.CovMat.rawSet,
    Cov.CovMat.raw, Cov.CovMat.inBuf, List.range'_succ, List.range'_zero, sqS]
  exact ⟨rfl, Or.inl rfl, rfl⟩

theorem cholDec_1_0 (a : ℝ) (ha : ¬ a ≤ Cov.tolOf 1 (Scalar.max a 0)) :
    Cov.cholDec (⟨1, 0, #[a]⟩ : Cov.CovMat ℝ) = .ok ⟨1, 0, #[a]⟩ := by
  simp [Cov.cholDec, Cov.cholRows, Cov.cholStep, Cov.elimRow, Cov.scaleRow,
    Cov.maxDiag, Cov.CovMat.setU, Cov.CovMat.get, Cov.Packed.idx, Cov.Packed.rowOff, Cov.CovMat.rawSet, Cov.CovMat.raw,
    Cov.CovMat.inBuf, List.range'_succ, List.range'_zero, ha]

theorem scaleToChol_1_0 (a : ℝ) :
    Cov.scaleToChol (⟨1, 0, #[a]⟩ : Cov.CovMat ℝ) = ⟨1, 0, #[Real.sqrt a]⟩ := by
  simp [Cov.scaleToChol, Cov.CovMat.setU, Cov.CovMat.get, Cov.Packed.idx, Cov.Packed.rowOff, Cov.CovMat.rawSet,
    Cov.CovMat.raw, Cov.CovMat.inBuf, List.range'_succ, List.range'_zero, sqS]
  rfl

set_option maxRecDepth 8000 in
/-- `Adj::forwardSubstitution` with a 2×2 band-1 factor (upper storage `[l11, l21; l22]`) -/
theorem forwardSubst_2_1 (l11 l21 l22 u v : ℝ) :
    Cov.forwardSubst (⟨2, 1, #[l11, l21, l22]⟩ : Cov.CovMat ℝ) #[u, v] = #[u / l11, (v - l21 * (u / l11)) / l22] := by
  simp [Cov.forwardSubst, Cov.CovMat.get, Cov.Packed.idx, Cov.Packed.rowOff, Cov.CovMat.raw, Cov.CovMat.inBuf,
    List.range'_succ, List.range'_zero]

theorem forwardSubst_1_0 (l u : ℝ) :
    Cov.forwardSubst (⟨1, 0, #[l]⟩ : Cov.CovMat ℝ) #[u] = #[u / l] := by
  simp [Cov.forwardSubst, Cov.CovMat.get, Cov.Packed.idx, Cov.Packed.rowOff, Cov.CovMat.raw, Cov.CovMat.inBuf,
    List.range'_succ, List.range'_zero]

theorem sqrt_sq' (x : ℝ) (hx : 0 ≤ x) : Real.sqrt (x * x) = x := Real.sqrt_mul_self hx

/-! ### the network family -/

/-- the numbers of `Ex.npQ` over ℝ, with the a priori reference standard deviation and the list `min_x_` free -/
noncomputable def npW (m0 : ℝ) (minx : List Nat) : NetProblem ℝ :=
  { m := 3, n := 2
    rows := #[#[(1, 4), (2, 4)], #[(1, 5), (2, 5)], #[(1, 4), (2, 4)]]
    rhs := #[1, 2, 3]
    clusters := [⟨⟨3, 2, #[16, 3, 8, 25, 5, 40]⟩, [true, false, true]⟩, ⟨⟨1, 0, #[1]⟩, [false]⟩,
      ⟨⟨1, 0, #[16]⟩, [true]⟩]
    m0 := m0
    minx := minx }

/-- THE example network: `m_0_apr_ = 2`, `min_x_ = [1]` -/
noncomputable def npR : NetProblem ℝ := npW 2 [1]

theorem npR_scale : scaleM0 2 npR = npW (2 * 2) [1] := rfl
theorem npR_minx2 : { npR with minx := [2] } = npW 2 [2] := rfl

/-- the cofactor blocks: the all-passive cluster is skipped, the passive observation's row and column are dropped -/
theorem npW_cofs (m0 : ℝ) (l : List Nat) : cofs (npW m0 l) =
    [⟨2, 1, #[16 * (1 / (m0 * m0)), 8 * (1 / (m0 * m0)), 40 * (1 / (m0 * m0))]⟩, ⟨1, 0, #[16 * (1 / (m0 * m0))]⟩] := by
  have hact : activeClusters (npW m0 l)
      = [⟨⟨3, 2, #[16, 3, 8, 25, 5, 40]⟩, [true, false, true]⟩, ⟨⟨1, 0, #[16]⟩, [true]⟩] := by
    simp [activeClusters, npW, Cluster.nAct]
  unfold cofs
  rw [hact]
  have e1 := activeCov_3_2_tft (K := ℝ) 16 3 8 25 5 40
  have e2 := activeCov_1_0_t (K := ℝ) 16
  have hm : (npW m0 l).m0 = m0 := rfl
  simp only [List.map_cons, List.map_nil, Cluster.cofactor, Cluster.obs, e1, e2, scaleBuf, hm,
    List.map_toArray]

theorem npW_dimsN (m0 : ℝ) (l : List Nat) : dimsN (npW m0 l) = [2, 1] := by
  unfold dimsN; rw [npW_cofs]; rfl

theorem npW_dims (m0 : ℝ) (l : List Nat) : (dimsN (npW m0 l)).sum = (npW m0 l).m := by
  rw [npW_dimsN]; rfl

theorem npW_rows (m0 : ℝ) (l : List Nat) : RowsOK (toProblem (npW m0 l)) := by
  apply RowsOK.of_nodup
  intro i hi
  have : i = 0 ∨ i = 1 ∨ i = 2 := by have : i < 3 := hi; omega
  rcases this with rfl | rfl | rfl <;> simp [toProblem, npW, Array.getD]

/-! ### `prepareProjectEquations()` over ℝ -/

/-- `Adj::choldec` of a 2×2 band-1 block -/
theorem adjCholdec_2_1 (a b c : ℝ) (ha : ¬ a ≤ Cov.tolOf 2 (Scalar.max c (Scalar.max a 0)))
    (hc : ¬ c - b / a * b ≤ Cov.tolOf 2 (Scalar.max c (Scalar.max a 0))) :
    Cov.adjCholdec (⟨2, 1, #[a, b, c]⟩ : Cov.CovMat ℝ)
      = .ok ⟨2, 1, #[Real.sqrt a, b / a * Real.sqrt a, Real.sqrt (c - b / a * b)]⟩ := by
  unfold Cov.adjCholdec
  rw [cholDec_2_1 a b c ha hc]
  show Except.ok (Cov.scaleToChol _) = _
  rw [scaleToChol_2_1]

theorem adjCholdec_1_0 (a : ℝ) (ha : ¬ a ≤ Cov.tolOf 1 (Scalar.max a 0)) :
    Cov.adjCholdec (⟨1, 0, #[a]⟩ : Cov.CovMat ℝ) = .ok ⟨1, 0, #[Real.sqrt a]⟩ := by
  unfold Cov.adjCholdec
  rw [cholDec_1_0 a ha]
  show Except.ok (Cov.scaleToChol _) = _
  rw [scaleToChol_1_0]

theorem sqrt4 : Real.sqrt 4 = 2 := by
  rw [show (4 : ℝ) = 2 * 2 by norm_num]; exact Real.sqrt_mul_self (by norm_num)
theorem sqrt9 : Real.sqrt 9 = 3 := by
  rw [show (9 : ℝ) = 3 * 3 by norm_num]; exact Real.sqrt_mul_self (by norm_num)
theorem sqrt94 : Real.sqrt (9 / 4) = 3 / 2 := by
  rw [show (9 / 4 : ℝ) = (3 / 2) * (3 / 2) by norm_num]; exact Real.sqrt_mul_self (by norm_num)

theorem tolOfS (N : Nat) (q : ℝ) : (Cov.tolOf N q : ℝ) = (N : ℝ) * Cov.epsilon * q := rfl
theorem maxS (a b : ℝ) : (Scalar.max a b : ℝ) = if a < b then b else a := rfl

/-- `m_0_apr_ = 2`: cofactor blocks `[[4,2],[2,10]]` (band 1) and `[4]` -/
theorem npW2_cofs (l : List Nat) : cofs (npW 2 l) = [⟨2, 1, #[4, 2, 10]⟩, ⟨1, 0, #[4]⟩] := by
  rw [npW_cofs]; norm_num

/-- `m_0_apr_ = 4`: cofactor blocks `[[1,1/2],[1/2,5/2]]` (band 1) and `[1]` -/
theorem npW4_cofs (l : List Nat) : cofs (npW (2 * 2) l) = [⟨2, 1, #[1, 1 / 2, 5 / 2]⟩, ⟨1, 0, #[1]⟩] := by
  rw [npW_cofs]; norm_num

/-- `Adj::choldec` of the two blocks, `m_0_apr_ = 2`: `L̃ = [[2,0],[1,3]]`, `[2]` (pivots 4, 9, 4) -/
theorem npW2_factors (l : List Nat) : factors (cofs (npW 2 l)) = .ok [⟨2, 1, #[2, 1, 3]⟩, ⟨1, 0, #[2]⟩] := by
  have e1 := covEps_pos
  have e2 := covEps_small
  have h1 : Cov.adjCholdec (⟨2, 1, #[4, 2, 10]⟩ : Cov.CovMat ℝ) = .ok ⟨2, 1, #[2, 1, 3]⟩ := by
    rw [adjCholdec_2_1 4 2 10 (by rw [tolOfS, maxS, maxS]; norm_num; linarith)
      (by rw [tolOfS, maxS, maxS]; norm_num; linarith)]
    rw [show (10 : ℝ) - 2 / 4 * 2 = 9 by norm_num, sqrt4, sqrt9]
    norm_num
  have h2 : Cov.adjCholdec (⟨1, 0, #[4]⟩ : Cov.CovMat ℝ) = .ok ⟨1, 0, #[2]⟩ := by
    rw [adjCholdec_1_0 4 (by rw [tolOfS, maxS]; norm_num; linarith), sqrt4]
  rw [npW2_cofs]
  simp only [factors, h1, h2]

/-- `m_0_apr_ = 4`: `L̃ = [[1,0],[1/2,3/2]]`, `[1]` (pivots 1, 9/4, 1) — half the factors of `m_0_apr_ = 2` -/
theorem npW4_factors (l : List Nat) :
    factors (cofs (npW (2 * 2) l)) = .ok [⟨2, 1, #[1, 1 / 2, 3 / 2]⟩, ⟨1, 0, #[1]⟩] := by
  have e1 := covEps_pos
  have e2 := covEps_small
  have h1 : Cov.adjCholdec (⟨2, 1, #[1, 1 / 2, 5 / 2]⟩ : Cov.CovMat ℝ) = .ok ⟨2, 1, #[1, 1 / 2, 3 / 2]⟩ := by
    rw [adjCholdec_2_1 1 (1 / 2) (5 / 2) (by rw [tolOfS, maxS, maxS]; norm_num; linarith)
      (by rw [tolOfS, maxS, maxS]; norm_num; linarith)]
    rw [show (5 / 2 : ℝ) - 1 / 2 / 1 * (1 / 2) = 9 / 4 by norm_num, Real.sqrt_one, sqrt94]
    norm_num
  have h2 : Cov.adjCholdec (⟨1, 0, #[1]⟩ : Cov.CovMat ℝ) = .ok ⟨1, 0, #[1]⟩ := by
    rw [adjCholdec_1_0 1 (by rw [tolOfS, maxS]; norm_num; linarith), Real.sqrt_one]
  rw [npW4_cofs]
  simp only [factors, h1, h2]

theorem mmk32 {K : Type} (f : Nat → Nat → K) :
    Dn.mmk 3 2 f = #[#[f 0 0, f 0 1], #[f 1 0, f 1 1], #[f 2 0, f 2 1]] := rfl
theorem vmk3 {K : Type} (f : Nat → K) : Dn.vmk 3 f = #[f 0, f 1, f 2] := rfl
theorem vmk2' {K : Type} (f : Nat → K) : Dn.vmk 2 f = #[f 0, f 1] := rfl
theorem vmk1' {K : Type} (f : Nat → K) : Dn.vmk 1 f = #[f 0] := rfl

/-- the dense design matrix -/
theorem npW_denseA (m0 : ℝ) (l : List Nat) : denseA (npW m0 l) = #[#[4, 4], #[5, 5], #[4, 4]] := by
  unfold denseA
  show Dn.mmk 3 2 _ = _
  rw [mmk32]
  simp [npW, rowSum, Dn.vget]

set_option maxRecDepth 8000 in
/-- `prepareProjectEquations()` given the two Cholesky factors `[[l11,0],[l21,l22]]`, `[l33]`: column-wise forward
    substitution per cluster (no column segment is all zero) -/
theorem npW_prepare (m0 : ℝ) (l : List Nat) (l11 l21 l22 l33 : ℝ)
    (hf : factors (cofs (npW m0 l)) = .ok [⟨2, 1, #[l11, l21, l22]⟩, ⟨1, 0, #[l33]⟩]) :
    prepare (npW m0 l) = .ok ⟨[⟨2, 1, #[l11, l21, l22]⟩, ⟨1, 0, #[l33]⟩],
      #[#[4 / l11, 4 / l11], #[(5 - l21 * (4 / l11)) / l22, (5 - l21 * (4 / l11)) / l22], #[4 / l33, 4 / l33]],
      #[1 / l11, (2 - l21 * (1 / l11)) / l22, 3 / l33]⟩ := by
  unfold prepare
  rw [hf]
  simp only [npW_denseA, npW_dimsN]
  have hm : (npW m0 l).m = 3 := rfl
  have hn : (npW m0 l).n = 2 := rfl
  have hr : (npW m0 l).rhs = #[1, 2, 3] := rfl
  rw [hm, hn, hr, mmk32, vmk3]
  simp [locate, homSeg, vmk2', vmk1', Dn.mget, Dn.vget, forwardSubst_2_1, forwardSubst_1_0]

/-! ### `netSolve` with the full solvers -/

theorem npR_prepare (l : List Nat) : prepare (npW 2 l) = .ok ⟨[⟨2, 1, #[2, 1, 3]⟩, ⟨1, 0, #[2]⟩],
    #[#[2, 2], #[1, 1], #[2, 2]], #[1 / 2, 1 / 2, 3 / 2]⟩ := by
  rw [npW_prepare 2 l 2 1 3 2 (npW2_factors l)]
  norm_num

theorem npR_dot (Us : List (Cov.CovMat ℝ)) :
    Net.dotProblem npR ⟨Us, #[#[2, 2], #[1, 1], #[2, 2]], #[1 / 2, 1 / 2, 3 / 2]⟩ = pCSdot := rfl

/-- the answer of a full solver through `LocalNetwork`, from the answer of the solver -/
theorem netFull_ok {alg : Alg} {np : NetProblem ℝ} {h : Hom ℝ} {s : Answer ℝ} (halg : alg ≠ .env)
    (hp : prepare np = .ok h) (hs : solverOf alg (Net.dotProblem np h) = .ok s) (hx : s.xErr = none) :
    ∃ a, netSolve alg np = .ok a ∧ a.x = s.x ∧ a.defect = s.defect ∧ a.pvv = sumSq np.m s.r := by
  have : netSolve alg np = netFull alg np := by cases alg <;> first | rfl | exact absurd rfl halg
  rw [this]
  unfold netFull
  simp only [hp, hs, hx]
  exact ⟨_, rfl, rfl, rfl, rfl⟩

/-- `LocalNetwork` + gso answers `npR`: `x = (0, 1/2)`, defect 1 -/
theorem npR_gso : ∃ a, netSolve .gso npR = .ok a ∧ a.x = #[0, 1 / 2] ∧ a.defect = 1 := by
  obtain ⟨s, hs, hx, hd, he⟩ := pCSdot_answers
  obtain ⟨a, ha, ax, ad, -⟩ := netFull_ok (alg := .gso) (by decide) (npR_prepare [1]) hs he
  exact ⟨a, ha, by rw [ax, hx], by rw [ad, hd]⟩

/-! ### cholesky on the homogenised system -/
section chol
open Gama.Ls.Chol Gama.Ls.Dn Gama.Ls.Gso.Ex

theorem pCSdot_cholFact : cholFact pCSdot = ⟨#[0, 1], #[#[9, 0], #[1, 0]], 1, some 0⟩ := by
  unfold cholFact
  rw [pCSdot_dense]
  show Chol.factor 2 2 0 (pmk 2 id) (normalMat 3 2 #[#[2, 2], #[1, 1], #[2, 2]]) = _
  have h1 : ¬ (9 : ℝ) ≤ sTol := not_le.2 (by linarith [sTol_lt_one])
  have h0 : (0 : ℝ) ≤ sTol := le_of_lt sTol_pos
  simp [Chol.factor, normalMat, mmk22, pmk2, pivotSearch, diagAt, Dn.mget, pget, sumFrom, elim,
    invPerm_id2, sget, junk, List.range']
  norm_num [h1, h0]

theorem pCSdot_chol_gs (x0 : Array ℝ) : ∃ G, gsLoop 2 1 [0] 1 0 (pmk 2 id)
    (gInit 2 1 1 #[0, 1] #[#[9, 0], #[1, 0]] x0) = .ok G := by
  have h1 : ¬ (1 : ℝ) < sTol := not_lt.2 (le_of_lt sTol_lt_one)
  simp [gsLoop, gInit, ofFn1, backSub, sweep, Chol.dotS, pmk2, vmk2, invPerm_id2, pget, Dn.vget, sget,
    Dn.mget, h1]

/-- the Cholesky model answers on the homogenised system of `npR` and reports defect 1 -/
theorem pCSdot_chol_answers : ∃ a', cholSolve pCSdot = .ok a' ∧ a'.defect = 1 ∧ a'.xErr = none := by
  have hf : Chol.factor pCSdot.n pCSdot.n 0 (pmk pCSdot.n id) (normalMat pCSdot.m pCSdot.n pCSdot.dense)
      = ⟨#[0, 1], #[#[9, 0], #[1, 0]], 1, some 0⟩ := pCSdot_cholFact
  have hr : Chol.regList pCSdot.n pCSdot.reg = some [0] := rfl
  unfold cholSolve Chol.solve
  simp only [hr, hf]
  obtain ⟨G, hG⟩ := pCSdot_chol_gs (solveX0 2 1 #[0, 1] #[#[9, 0], #[1, 0]]
    (normalRhs pCSdot.m pCSdot.n pCSdot.dense pCSdot.rhs))
  have hG' : gsLoop pCSdot.n 1 [0] 1 0 (pmk (1 + 1) id) (gInit pCSdot.n (pCSdot.n - 1) 1 #[0, 1] #[#[9, 0], #[1, 0]]
      (solveX0 pCSdot.n (pCSdot.n - 1) #[0, 1] #[#[9, 0], #[1, 0]]
        (normalRhs pCSdot.m pCSdot.n pCSdot.dense pCSdot.rhs))) = .ok G := hG
  rw [if_neg (by decide), hG']
  exact ⟨_, rfl, rfl, rfl⟩

/-- `LocalNetwork` + cholesky answers `npR`, defect 1 -/
theorem npR_chol : ∃ a, netSolve .chol npR = .ok a ∧ a.defect = 1 := by
  obtain ⟨s, hs, hd, he⟩ := pCSdot_chol_answers
  obtain ⟨a, ha, -, ad, -⟩ := netFull_ok (alg := .chol) (by decide) (npR_prepare [1]) hs he
  exact ⟨a, ha, by rw [ad, hd]⟩

end chol

/-! ### the sparse path: `Homogenization::run` + envelope -/
section envpath
open Gama.Ls.Env


set_option maxRecDepth 8000 in
/-- `BlockDiagonal::cholDec` on a 2×2 band-1 block: the upper factor `U`, `C = UᵀU` -/
theorem bdChol_2_1 (t a b c : ℝ) (ha : ¬ a < t) (hc : ¬ c - b / a * b < t) :
    Cov.bdCholBlock t (⟨2, 1, #[a, b, c]⟩ : Cov.CovMat ℝ)
      = .ok ⟨2, 1, #[Real.sqrt a, b / Real.sqrt a, Real.sqrt (c - b / a * b)]⟩ := by
  simp [Cov.bdCholBlock, List.range'_succ, List.range'_zero, List.foldlM_cons, List.foldlM_nil, Cov.CovMat.raw,
    Cov.CovMat.rawSet, Cov.CovMat.inBuf, Cov.elimPtr, Cov.scalePtr, ha, hc, bind, Except.bind, pure, Except.pure,
    Except.map, sqS]
  exact ⟨rfl, rfl, rfl⟩

theorem bdChol_1_0 (t a : ℝ) (ha : ¬ a < t) :
    Cov.bdCholBlock t (⟨1, 0, #[a]⟩ : Cov.CovMat ℝ) = .ok ⟨1, 0, #[Real.sqrt a]⟩ := by
  simp [Cov.bdCholBlock, List.range'_succ, List.range'_zero, List.foldlM_cons, List.foldlM_nil, Cov.CovMat.raw,
    Cov.CovMat.rawSet, Cov.CovMat.inBuf, Cov.elimPtr, Cov.scalePtr, ha, bind, Except.bind, pure, Except.pure,
    Except.map, sqS]
  rfl

/-- the forward substitution loop of `Homogenization::run` on a 2×2 band-1 factor -/
theorem sweep_2_1 (u11 u12 u22 x y : ℝ) :
    Cov.sweep (⟨2, 1, #[u11, u12, u22]⟩ : Cov.CovMat ℝ) #[x, y] = #[x / u11, (y - u12 * (x / u11)) / u22] := by
  simp [Cov.sweep, Cov.upperRows, List.range'_succ, List.range'_zero, Cov.CovMat.raw, Cov.CovMat.inBuf]

theorem sweep_1_0 (u x : ℝ) : Cov.sweep (⟨1, 0, #[u]⟩ : Cov.CovMat ℝ) #[x] = #[x / u] := by
  simp [Cov.sweep, Cov.upperRows, List.range'_succ, List.range'_zero, Cov.CovMat.raw, Cov.CovMat.inBuf]

theorem vecOf3 {K : Type} (f : Nat → K) : vecOf 3 f = #[f 0, f 1, f 2] := rfl
theorem ofFn3 {α : Type} (f : Fin 3 → α) : Array.ofFn f = #[f 0, f 1, f 2] := rfl

/-- the system `LocalNetwork` hands to `AdjInputData` on the sparse path, `m_0_apr_ = 2`, written out -/
noncomputable def pSp (l : List Nat) : Problem ℝ :=
  { m := 3, n := 2
    rows := #[#[(1, 4), (2, 4)], #[(1, 5), (2, 5)], #[(1, 4), (2, 4)]]
    cov := #[⟨2, 1, #[4, 2, 10]⟩, ⟨1, 0, #[4]⟩]
    rhs := #[1, 2, 3]
    reg := .subset l }

theorem npW2_toProblem (l : List Nat) : toProblem (npW 2 l) = pSp l := by
  unfold toProblem
  rw [npW2_cofs]
  rfl

theorem pSp_factorsU (l : List Nat) :
    factorsU (pSp l).cov.toList = some [⟨2, 1, #[2, 1, 3]⟩, ⟨1, 0, #[2]⟩] := by
  show factorsU [(⟨2, 1, #[4, 2, 10]⟩ : CovBlock ℝ), ⟨1, 0, #[4]⟩] = _
  have e1 := bdTol_lt_one
  have h1 : Cov.bdCholBlock (Env.bdTol : ℝ) ⟨2, 1, #[4, 2, 10]⟩ = .ok ⟨2, 1, #[2, 1, 3]⟩ := by
    rw [bdChol_2_1 _ 4 2 10 (by linarith) (by norm_num; linarith)]
    rw [show (10 : ℝ) - 2 / 4 * 2 = 9 by norm_num, sqrt4, sqrt9]
    norm_num
  have h2 : Cov.bdCholBlock (Env.bdTol : ℝ) ⟨1, 0, #[4]⟩ = .ok ⟨1, 0, #[2]⟩ := by
    rw [bdChol_1_0 _ 4 (by linarith), sqrt4]
  have b1 : blockMat (⟨2, 1, #[4, 2, 10]⟩ : CovBlock ℝ) = ⟨2, 1, #[4, 2, 10]⟩ := rfl
  have b2 : blockMat (⟨1, 0, #[4]⟩ : CovBlock ℝ) = ⟨1, 0, #[4]⟩ := rfl
  simp only [factorsU, b1, b2, h1, h2]

theorem pSp_dense (l : List Nat) : (pSp l).dense = #[#[4, 4], #[5, 5], #[4, 4]] := by
  simp [Problem.dense, pSp]
  refine ⟨?_, ?_, ?_⟩ <;> rfl

theorem npW2_homVec (v : Nat → ℝ) : homVec [2, 1] [(⟨2, 1, #[2, 1, 3]⟩ : Cov.CovMat ℝ), ⟨1, 0, #[2]⟩] 3 v
    = #[v 0 / 2, (v 1 - 1 * (v 0 / 2)) / 3, v 2 / 2] := by
  simp [homVec, vecOf3, vecOf2, vecOf1, Env.locate, sweep_2_1, sweep_1_0, Env.vget]

theorem ofFn_pSp_m {α : Type} (l : List Nat) (f : Fin (pSp l).m → α) :
    Array.ofFn f = #[f ⟨0, Nat.zero_lt_succ 2⟩, f ⟨1, Nat.succ_lt_succ (Nat.zero_lt_succ 1)⟩, f ⟨2, Nat.lt_succ_self 2⟩] := rfl
theorem ofFn_pSp_n {α : Type} (l : List Nat) (f : Fin (pSp l).n → α) :
    Array.ofFn f = #[f ⟨0, Nat.zero_lt_succ 1⟩, f ⟨1, Nat.lt_succ_self 1⟩] := rfl

set_option maxRecDepth 8000 in
/-- `Homogenization::run` inside the envelope solver on the system `LocalNetwork` hands over -/
theorem pSp_homogenize (l : List Nat) : homogenize (pSp l)
    = .ok ⟨#[#[2, 2], #[1, 1], #[2, 2]], #[1 / 2, 1 / 2, 3 / 2], #[[1, 2], [1, 2], [1, 2]]⟩ := by
  unfold homogenize
  rw [pSp_factorsU]
  have hd : ((pSp l).cov.toList.map (·.dim)) = [2, 1] := rfl
  have hm : (pSp l).m = 3 := rfl
  have hn : (pSp l).n = 2 := rfl
  have hr : (pSp l).rhs = #[1, 2, 3] := rfl
  have hc : (pSp l).cov.toList = [⟨2, 1, #[4, 2, 10]⟩, ⟨1, 0, #[4]⟩] := rfl
  have hrows : (pSp l).rows = #[#[(1, 4), (2, 4)], #[(1, 5), (2, 5)], #[(1, 4), (2, 4)]] := rfl
  simp only [hd, pSp_dense, hm, hn, hr, hc, npW2_homVec, ofFn3, ofFn2, Env.mget, Env.vget]
  simp [patOf, blockPat, occOf, hrows, Env.mget, List.range, List.range.loop, npW2_homVec, ofFn_pSp_m, ofFn_pSp_n, Env.vget]
  norm_num

theorem pat_rcm : rcmOrd 2 #[[1, 2], [1, 2], [1, 2]] = idOrd 2 := by
  have h1 : (rcmOrd 2 #[[1, 2], [1, 2], [1, 2]]).perm = #[0, 1] := by decide +kernel
  have h2 : (rcmOrd 2 #[[1, 2], [1, 2], [1, 2]]).invp = #[0, 1] := by decide +kernel
  have h3 : idOrd 2 = ⟨#[0, 1], #[0, 1]⟩ := rfl
  calc rcmOrd 2 #[[1, 2], [1, 2], [1, 2]]
      = ⟨(rcmOrd 2 #[[1, 2], [1, 2], [1, 2]]).perm, (rcmOrd 2 #[[1, 2], [1, 2], [1, 2]]).invp⟩ := rfl
    _ = ⟨#[0, 1], #[0, 1]⟩ := by rw [h1, h2]
    _ = idOrd 2 := h3.symm

/-- the normal matrix the envelope model builds from the homogenised system -/
theorem hom_envN : (factor (sqrtEps : ℝ) 3 2 #[#[2, 2], #[1, 1], #[2, 2]] #[1 / 2, 1 / 2, 3 / 2] (idOrd 2)).N
    = #[#[9, 9], #[9, 9]] := by
  simp [factor, ofFn2, vecOf2, sumTo, Env.mget, idOrd]
  norm_num

/-- `cholDec`: row 1 `d = 9`; row 2 `l = [1]`, pivot `9 − 1·9·1 = 0` → zero test fires -/
theorem hom_ldl : ldl (Env.mget (#[#[9, 9], #[9, 9]] : DMat ℝ)) (sqrtEps : ℝ) 2
    = #[⟨#[], 9, false⟩, ⟨#[1], 0, true⟩] := by
  have h1 : ¬ (9 : ℝ) < sqrtEps := not_lt.2 (by linarith [eps_lt_one])
  simp [Env.ldl, build2, rowStep, lRow, yRow, build1, build0, vecOf0, vecOf1, sumTo, Env.mget, Lget, Dget, h1,
    eps_pos]

theorem hom_rows : (factor (sqrtEps : ℝ) 3 2 #[#[2, 2], #[1, 1], #[2, 2]] #[1 / 2, 1 / 2, 3 / 2] (idOrd 2)).rows
    = #[⟨#[], 9, false⟩, ⟨#[1], 0, true⟩] := by
  show ldl (Env.mget (factor (sqrtEps : ℝ) 3 2 #[#[2, 2], #[1, 1], #[2, 2]] #[1 / 2, 1 / 2, 3 / 2] (idOrd 2)).N)
    (sqrtEps : ℝ) 2 = _
  rw [hom_envN, hom_ldl]

/-- `solve_x`: dependent column 2, kernel column `(1, −1)`, Gram–Schmidt pivot `√1 = 1 ≥ s_tol` — over `S = [0]`
    (`min_x_ = [1]`) and over `S = [1]` (`min_x_ = [2]`) -/
theorem hom_solveX (S : List Nat) (hS : S = [0] ∨ S = [1]) :
    ∃ gx, solveX (factor (sqrtEps : ℝ) 3 2 #[#[2, 2], #[1, 1], #[2, 2]] #[1 / 2, 1 / 2, 3 / 2] (idOrd 2)) S sqrtEps
    = .ok gx := by
  unfold solveX
  split
  · exact ⟨_, rfl⟩
  · rw [hom_rows]
    have h1 : ¬ (1 : ℝ) < sqrtEps := not_lt.2 (le_of_lt eps_lt_one)
    have hn : (factor (sqrtEps : ℝ) 3 2 #[#[2, 2], #[1, 1], #[2, 2]] #[1 / 2, 1 / 2, 3 / 2] (idOrd 2)).n = 2 := rfl
    rw [hn]
    have hs : Gso.SqrtField.sqrt (1 : ℝ) = 1 := Real.sqrt_one
    have hs' : (SqrtFn.sq (1 : ℝ) : ℝ) = 1 := Real.sqrt_one
    rcases hS with rfl | rfl <;>
    simp [gs, gsCols, depCols, kerCol, upper, upperRev, build2, vecOf2, orthAgainst, Env.dotS, Dget, Lget,
      sumTo, List.range_succ, hs, hs', h1, Except.map]

theorem pSp_envAnswer (l : List Nat) : envAnswer (pSp l)
    = .ok (envCore (sqrtEps : ℝ) sqrtEps 3 2 (pSp l).dense (pSp l).rhs #[#[2, 2], #[1, 1], #[2, 2]]
        #[1 / 2, 1 / 2, 3 / 2] (.subset l) (idOrd 2)) := by
  unfold envAnswer envAnswerOrd
  rw [pSp_homogenize]
  show Except.ok (envCore (sqrtEps : ℝ) sqrtEps 3 2 (pSp l).dense (pSp l).rhs #[#[2, 2], #[1, 1], #[2, 2]]
    #[1 / 2, 1 / 2, 3 / 2] (.subset l) (rcmOrd 2 #[[1, 2], [1, 2], [1, 2]])) = _
  rw [pat_rcm]

/-- the envelope solver as run (`Homogenization::run`, reverse Cuthill–McKee, `envCore`) answers the system of
    `npW 2 [1]` and of `npW 2 [2]`: `unknowns()` does not throw, defect 1 -/
theorem pSp_envSolve (l : List Nat) (hl : l = [1] ∨ l = [2]) :
    ∃ a, envSolve (pSp l) = .ok a ∧ a.xErr = none ∧ a.defect = 1 := by
  have hS : Env.regList 2 (idOrd 2) (.subset l) = [0] ∨ Env.regList 2 (idOrd 2) (.subset l) = [1] := by
    rcases hl with rfl | rfl
    · left; decide
    · right; decide
  obtain ⟨gx, hgx⟩ := hom_solveX _ hS
  have hx : ∃ x, (envCore (sqrtEps : ℝ) sqrtEps 3 2 (pSp l).dense (pSp l).rhs #[#[2, 2], #[1, 1], #[2, 2]]
      #[1 / 2, 1 / 2, 3 / 2] (.subset l) (idOrd 2)).x = .ok x := by
    show ∃ x, (solveX (factor (sqrtEps : ℝ) 3 2 #[#[2, 2], #[1, 1], #[2, 2]] #[1 / 2, 1 / 2, 3 / 2] (idOrd 2))
      (Env.regList 2 (idOrd 2) (.subset l)) sqrtEps).map _ = .ok x
    rw [hgx]
    exact ⟨_, rfl⟩
  obtain ⟨x, hx⟩ := hx
  have hd : (envCore (sqrtEps : ℝ) sqrtEps 3 2 (pSp l).dense (pSp l).rhs #[#[2, 2], #[1, 1], #[2, 2]]
      #[1 / 2, 1 / 2, 3 / 2] (.subset l) (idOrd 2)).defect = 1 := by
    show defectOf (factor (sqrtEps : ℝ) 3 2 #[#[2, 2], #[1, 1], #[2, 2]] #[1 / 2, 1 / 2, 3 / 2] (idOrd 2)).rows = 1
    rw [hom_rows]
    rfl
  unfold envSolve
  rw [pSp_envAnswer]
  simp only [hx]
  exact ⟨_, rfl, rfl, hd⟩


end envpath

section witness
open Matrix

/-- the answer of the sparse solver through `LocalNetwork`, from the answer of the solver -/
theorem netSparse_ok {np : NetProblem ℝ} {h : Hom ℝ} {s : Answer ℝ}
    (hp : prepare np = .ok h) (hs : envSolve (toProblem np) = .ok s) (hx : s.xErr = none) :
    ∃ a, netSolve .env np = .ok a ∧ a.x = s.x ∧ a.defect = s.defect ∧ a.pvv = s.rtr := by
  show ∃ a, netSparse np = .ok a ∧ _
  unfold netSparse
  have hs' : solverOf (K := ℝ) .env (toProblem np) = .ok s := hs
  simp only [hp, hs', hx]
  exact ⟨_, rfl, rfl, rfl, rfl⟩

/-- `LocalNetwork` + envelope answers `npW 2 [1]` (= `npR`) and `npW 2 [2]`, defect 1 -/
theorem npW2_env (l : List Nat) (hl : l = [1] ∨ l = [2]) : ∃ a, netSolve .env (npW 2 l) = .ok a ∧ a.defect = 1 := by
  obtain ⟨s, hs, hx, hd⟩ := pSp_envSolve l hl
  rw [← npW2_toProblem] at hs
  obtain ⟨a, ha, -, ad, -⟩ := netSparse_ok (npR_prepare l) hs hx
  exact ⟨a, ha, by rw [ad, hd]⟩

/-! ### the covariance matrix of the active observations, the design matrix -/

theorem npW_act (m0 : ℝ) (l : List Nat) : activeClusters (npW m0 l)
    = [⟨⟨3, 2, #[16, 3, 8, 25, 5, 40]⟩, [true, false, true]⟩, ⟨⟨1, 0, #[16]⟩, [true]⟩] := by
  simp [activeClusters, npW, Cluster.nAct]

theorem npW_Sigma (m0 : ℝ) (l : List Nat) :
    (Sigma (npW m0 l) : Matrix (Fin 3) (Fin 3) ℝ) = !![16, 8, 0; 8, 40, 0; 0, 0, 16] := by
  ext i j
  show sigmaF (npW m0 l) i.val j.val = _
  unfold sigmaF
  rw [npW_dimsN, npW_act]
  fin_cases i <;> fin_cases j <;>
    simp [AdjM.locate, Cluster.obs, Cov.activeIdx, Cov.CovMat.get, Cov.Packed.idx, Cov.Packed.rowOff, Cov.CovMat.raw,
      Cov.CovMat.inBuf, List.range, List.range.loop] <;> rfl

/-- the inverse of `Σ` -/
noncomputable def PcR : Matrix (Fin 3) (Fin 3) ℝ := !![5/72, -1/72, 0; -1/72, 1/36, 0; 0, 0, 1/16]

theorem sigma_inv : (!![16, 8, 0; 8, 40, 0; 0, 0, 16] : Matrix (Fin 3) (Fin 3) ℝ) * PcR = 1 := by
  ext i j
  fin_cases i <;> fin_cases j <;> simp [PcR, Matrix.mul_apply, Fin.sum_univ_three, Matrix.one_apply] <;> norm_num

/-- `Σ⁻¹` at the index type of the network -/
noncomputable def PcW (m0 : ℝ) (l : List Nat) :
    Matrix (Fin (toProblem (npW m0 l)).m) (Fin (toProblem (npW m0 l)).m) ℝ := PcR

theorem npW_sigma_inv (m0 : ℝ) (l : List Nat) : Sigma (npW m0 l) * PcW m0 l = 1 := by
  have h := npW_Sigma m0 l
  exact (congrArg (fun M : Matrix (Fin 3) (Fin 3) ℝ => M * PcR) h).trans sigma_inv

/-- `Σ⁻¹` at the index type of `npR` -/
noncomputable def PcN : Matrix (Fin (toProblem npR).m) (Fin (toProblem npR).m) ℝ := PcR

theorem npR_sigma_inv : Sigma npR * PcN = 1 := npW_sigma_inv 2 [1]

theorem npW_dense (m0 : ℝ) (l : List Nat) : (toProblem (npW m0 l)).dense = #[#[4, 4], #[5, 5], #[4, 4]] := by
  simp [Problem.dense, toProblem, npW]
  refine ⟨?_, ?_, ?_⟩ <;> rfl

theorem npW_A (m0 : ℝ) (l : List Nat) :
    ((toProblem (npW m0 l)).A : Matrix (Fin 3) (Fin 2) ℝ) = !![4, 4; 5, 5; 4, 4] := by
  have h : (toProblem (npW m0 l)).A = toMatrix 3 2 (toProblem (npW m0 l)).dense := rfl
  rw [h, npW_dense]
  ext i j; fin_cases i <;> fin_cases j <;> rfl

theorem npW_S1 (m0 : ℝ) : ((toProblem (npW m0 [1])).S : Finset (Fin 2)) = ({0} : Finset (Fin 2)) := by
  show Reg.toFinset 2 (.subset [1]) = _
  decide

theorem npW_S2 (m0 : ℝ) : ((toProblem (npW m0 [2])).S : Finset (Fin 2)) = ({1} : Finset (Fin 2)) := by
  show Reg.toFinset 2 (.subset [2]) = _
  decide

/-! ### "rank numerically unambiguous": the single hypothesis `RankGap` for the family -/

/-- `A β = (β₀ + β₁)·a` for the matrix with two equal columns `a = (4,5,4)` -/
theorem eqcols_mulVec (β : Fin 2 → ℝ) :
    (!![4, 4; 5, 5; 4, 4] : Matrix (Fin 3) (Fin 2) ℝ) *ᵥ β = (β 0 + β 1) • ![4, 5, 4] := by
  ext i
  fin_cases i <;> simp [Matrix.mulVec, dotProduct, Fin.sum_univ_two] <;> ring

/-- every Schur pivot of `AᵀPA` is `0` or `aᵀPa` (any order), for ANY weight matrix -/
theorem eqcols_gapAllP (P : Matrix (Fin 3) (Fin 3) ℝ) (τ : ℝ) (hc : τ < ![4, 5, 4] ⬝ᵥ P *ᵥ ![4, 5, 4]) :
    GapAllP (!![4, 4; 5, 5; 4, 4] : Matrix (Fin 3) (Fin 2) ℝ) P τ := by
  intro k β hk horth
  have hq : ((!![4, 4; 5, 5; 4, 4] : Matrix (Fin 3) (Fin 2) ℝ) *ᵥ β) ⬝ᵥ
      P *ᵥ ((!![4, 4; 5, 5; 4, 4] : Matrix (Fin 3) (Fin 2) ℝ) *ᵥ β)
      = (β 0 + β 1) * ((β 0 + β 1) * (![4, 5, 4] ⬝ᵥ P *ᵥ ![4, 5, 4])) := by
    rw [eqcols_mulVec, Matrix.mulVec_smul, smul_dotProduct, dotProduct_smul, smul_eq_mul, smul_eq_mul]
  have hN : ∀ j : Fin 2, ((!![4, 4; 5, 5; 4, 4] : Matrix (Fin 3) (Fin 2) ℝ)ᵀ *ᵥ
      (P *ᵥ ((!![4, 4; 5, 5; 4, 4] : Matrix (Fin 3) (Fin 2) ℝ) *ᵥ β))) j
      = (β 0 + β 1) * (![4, 5, 4] ⬝ᵥ P *ᵥ ![4, 5, 4]) := by
    intro j
    rw [eqcols_mulVec, Matrix.mulVec_smul]
    have : ∀ w : Fin 3 → ℝ, ((!![4, 4; 5, 5; 4, 4] : Matrix (Fin 3) (Fin 2) ℝ)ᵀ *ᵥ w) j = ![4, 5, 4] ⬝ᵥ w := by
      intro w
      fin_cases j <;> simp [Matrix.mulVec, dotProduct, Fin.sum_univ_three]
    rw [this, dotProduct_smul, smul_eq_mul]
  rw [hq]
  obtain ⟨j, hjk, hall⟩ : ∃ j : Fin 2, j ≠ k ∧ β 0 + β 1 = β k + β j := by
    fin_cases k
    · exact ⟨1, by decide, rfl⟩
    · exact ⟨0, by decide, add_comm _ _⟩
  by_cases hβ : β j = 0
  · right
    rw [hall, hk, hβ]; simpa using hc
  · left
    have := horth j hjk hβ
    rw [hN] at this
    rw [this, mul_zero]

/-- a kernel vector of `A` is `t·(1,−1)`: both one-element subsets resolve the defect with margin `τ = 1/2` -/
theorem eqcols_margin (S : Finset (Fin 2)) (hS : S = {0} ∨ S = {1}) :
    SMargin (!![4, 4; 5, 5; 4, 4] : Matrix (Fin 3) (Fin 2) ℝ) S (1 / 2) := by
  intro g hg hne
  have h0 : 4 * g 0 + 4 * g 1 = 0 := by
    have := congrFun hg 0
    simpa [Matrix.mulVec, dotProduct, Fin.sum_univ_two] using this
  have h1 : g 1 = - g 0 := by linarith
  have hg0 : g 0 ≠ 0 := by
    intro h
    apply hne
    funext i
    fin_cases i
    · exact h
    · show g 1 = 0
      rw [h1, h]; ring
  have hpos : 0 < g 0 * g 0 := mul_self_pos.mpr hg0
  have hgg : g ⬝ᵥ g = g 0 * g 0 + g 1 * g 1 := by simp [dotProduct, Fin.sum_univ_two]
  rw [hgg, h1]
  rcases hS with rfl | rfl
  · simp only [Finset.sum_singleton]
    nlinarith
  · simp only [Finset.sum_singleton, h1]
    nlinarith

/-- `aᵀ Σ⁻¹ a = 9/4` -/
theorem aPa : (![4, 5, 4] : Fin 3 → ℝ) ⬝ᵥ PcR *ᵥ ![4, 5, 4] = 9 / 4 := by
  simp [PcR, Matrix.mulVec, dotProduct, Fin.sum_univ_three]
  norm_num

theorem npW_rankGap (m0 : ℝ) (l : List Nat) (hl : l = [1] ∨ l = [2]) (hm : 1 / 2 < m0 * m0 * (9 / 4)) :
    RankGap (toProblem (npW m0 l)).A ((m0 * m0) • PcW m0 l) (toProblem (npW m0 l)).S (1 / 2) := by
  refine ⟨?_, ?_⟩
  · rw [npW_A]
    apply eqcols_gapAllP
    show 1 / 2 < ![4, 5, 4] ⬝ᵥ ((m0 * m0) • PcR) *ᵥ ![4, 5, 4]
    rw [Matrix.smul_mulVec, dotProduct_smul, aPa, smul_eq_mul]
    exact hm
  · rw [npW_A]
    rcases hl with rfl | rfl
    · rw [npW_S1]; exact eqcols_margin _ (Or.inl rfl)
    · rw [npW_S2]; exact eqcols_margin _ (Or.inr rfl)

theorem npR_rankGap : RankGap (toProblem npR).A ((npR.m0 * npR.m0) • PcN) (toProblem npR).S (1 / 2) :=
  npW_rankGap 2 [1] (Or.inl rfl) (by norm_num)

theorem npW_regListOK (m0 : ℝ) (l : List Nat) (hl : l = [1] ∨ l = [2]) : Env.RegListOK (toProblem (npW m0 l)) := by
  intro l' hl'
  have : l' = l := by
    have h : Reg.subset l = Reg.subset l' := hl'
    injection h with h'; exact h'.symm
  rw [this]
  have hn : (toProblem (npW m0 l)).n = 2 := rfl
  rw [hn]
  rcases hl with rfl | rfl <;> exact ⟨by decide, by decide⟩

/-! ### the second run of the σ_apr-scaling theorem: `m_0_apr_ = 4`, cholesky -/

theorem npR4_prepare (l : List Nat) : prepare (npW (2 * 2) l) = .ok ⟨[⟨2, 1, #[1, 1 / 2, 3 / 2]⟩, ⟨1, 0, #[1]⟩],
    #[#[4, 4], #[2, 2], #[4, 4]], #[1, 1, 3]⟩ := by
  rw [npW_prepare (2 * 2) l 1 (1 / 2) (3 / 2) 1 (npW4_factors l)]
  norm_num

/-- the homogenised problem `LocalNetwork` hands a full solver when `m_0_apr_ = 4` -/
noncomputable def pCSdot4 : Problem ℝ :=
  AdjM.dotProblem (pCS ℝ) #[#[4, 4], #[2, 2], #[4, 4]] #[1, 1, 3] (regOf (pCS ℝ).reg)

theorem npR4_dot (Us : List (Cov.CovMat ℝ)) :
    Net.dotProblem (npW (2 * 2) [1]) ⟨Us, #[#[4, 4], #[2, 2], #[4, 4]], #[1, 1, 3]⟩ = pCSdot4 := rfl

theorem pCSdot4_dense : pCSdot4.dense = #[#[4, 4], #[2, 2], #[4, 4]] := by
  simp [pCSdot4, AdjM.dotProblem, Problem.dense, pCS, Dn.mget, Array.ofFn_succ, List.range, List.range.loop]
  refine ⟨?_, ?_, ?_⟩ <;> rfl

section chol4
open Gama.Ls.Chol Gama.Ls.Dn

theorem pCSdot4_cholFact : cholFact pCSdot4 = ⟨#[0, 1], #[#[36, 0], #[1, 0]], 1, some 0⟩ := by
  unfold cholFact
  rw [pCSdot4_dense]
  show Chol.factor 2 2 0 (pmk 2 id) (normalMat 3 2 #[#[4, 4], #[2, 2], #[4, 4]]) = _
  have h1 : ¬ (36 : ℝ) ≤ sTol := not_le.2 (by linarith [sTol_lt_one])
  have h0 : (0 : ℝ) ≤ sTol := le_of_lt sTol_pos
  simp [Chol.factor, normalMat, mmk22, pmk2, pivotSearch, diagAt, Dn.mget, pget, sumFrom, elim,
    invPerm_id2, sget, junk, List.range']
  norm_num [h1, h0]

theorem pCSdot4_chol_gs (x0 : Array ℝ) : ∃ G, gsLoop 2 1 [0] 1 0 (pmk 2 id)
    (gInit 2 1 1 #[0, 1] #[#[36, 0], #[1, 0]] x0) = .ok G := by
  have h1 : ¬ (1 : ℝ) < sTol := not_lt.2 (le_of_lt sTol_lt_one)
  simp [gsLoop, gInit, ofFn1, backSub, sweep, Chol.dotS, pmk2, vmk2, invPerm_id2, pget, Dn.vget, sget,
    Dn.mget, h1]

theorem pCSdot4_chol_answers : ∃ a', cholSolve pCSdot4 = .ok a' ∧ a'.defect = 1 ∧ a'.xErr = none := by
  have hf : Chol.factor pCSdot4.n pCSdot4.n 0 (pmk pCSdot4.n id) (normalMat pCSdot4.m pCSdot4.n pCSdot4.dense)
      = ⟨#[0, 1], #[#[36, 0], #[1, 0]], 1, some 0⟩ := pCSdot4_cholFact
  have hr : Chol.regList pCSdot4.n pCSdot4.reg = some [0] := rfl
  unfold cholSolve Chol.solve
  simp only [hr, hf]
  obtain ⟨G, hG⟩ := pCSdot4_chol_gs (solveX0 2 1 #[0, 1] #[#[36, 0], #[1, 0]]
    (normalRhs pCSdot4.m pCSdot4.n pCSdot4.dense pCSdot4.rhs))
  have hG' : gsLoop pCSdot4.n 1 [0] 1 0 (pmk (1 + 1) id) (gInit pCSdot4.n (pCSdot4.n - 1) 1 #[0, 1] #[#[36, 0], #[1, 0]]
      (solveX0 pCSdot4.n (pCSdot4.n - 1) #[0, 1] #[#[36, 0], #[1, 0]]
        (normalRhs pCSdot4.m pCSdot4.n pCSdot4.dense pCSdot4.rhs))) = .ok G := hG
  rw [if_neg (by decide), hG']
  exact ⟨_, rfl, rfl, rfl⟩

/-- `LocalNetwork` + cholesky answers `scaleM0 2 npR` (`m_0_apr_ = 4`), defect 1 -/
theorem npR4_chol : ∃ a, netSolve .chol (scaleM0 2 npR) = .ok a ∧ a.defect = 1 := by
  rw [npR_scale]
  obtain ⟨s, hs, hd, he⟩ := pCSdot4_chol_answers
  obtain ⟨a, ha, -, ad, -⟩ := netFull_ok (alg := .chol) (by decide) (npR4_prepare [1]) hs he
  exact ⟨a, ha, by rw [ad, hd]⟩

end chol4

end witness

end Gama.Ls.Ex
