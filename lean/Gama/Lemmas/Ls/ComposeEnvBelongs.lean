/-
  Envelope solver, C03 clauses "positive semi-definite" and "belongs to the chosen
  regularisation" for the matrix of `q_xx`, regular and singular, in the numbering of the problem.

  * `refl_ginv_psd` (every solver): a symmetric reflexive g-inverse `Q` of a positive
    semi-definite `N` is positive semi-definite: `yᵀQy = yᵀQNQy = (Qy)ᵀN(Qy) ≥ 0`.
  * `QsM_belongs` (new numbering): `Q = T Q0 Tᵀ` with `T = I − G G_Sᵀ`; the normalised kernel
    columns `G` are `S`-orthonormal (`G_Sᵀ G = I`, `HtG_eq_one`), so `G_Sᵀ Q = 0`
    (`tq0t_mulVec_orth`), and every kernel vector is a combination of the columns of `G`.
  * `QsO_belongs` (numbering of the problem, original weighted system `A`, `W` injective).
  * `envCore_cofactors` : ONE matrix `Q` for both cases (defect = 0: `N⁻¹`; defect ≠ 0: `QsO`).
-/
import Gama.Lemmas.Ls.EnvQfinal
import Gama.Lemmas.Ls.EnvRefusalFinal
import Gama.Lemmas.Ls.ComposeGinvUnique
import Gama.Lemmas.LS.Example

namespace Gama.LS
open Matrix Finset

set_option linter.unusedSectionVars false

/-- **a symmetric reflexive g-inverse of a positive semi-definite matrix is positive
    semi-definite** (used for every solver) -/
theorem refl_ginv_psd {𝕜 : Type*} [Field 𝕜] [LinearOrder 𝕜] [IsStrictOrderedRing 𝕜]
    {n : Type*} [Fintype n] {N Q : Matrix n n 𝕜}
    (hN : ∀ d, 0 ≤ d ⬝ᵥ N *ᵥ d) (hs : Qᵀ = Q) (hr : Q * N * Q = Q) : ∀ y, 0 ≤ y ⬝ᵥ Q *ᵥ y := by
  intro y
  have e : y ⬝ᵥ Q *ᵥ y = (Q *ᵥ y) ⬝ᵥ N *ᵥ (Q *ᵥ y) := by
    conv_lhs => rw [← hr]
    rw [mulVec_dot, hs, mulVec_mulVec, mulVec_mulVec, Matrix.mul_assoc]
  rw [e]; exact hN _

/-- a regular normal matrix: `BelongsTo` holds for every `Q` and `S` (the kernel is trivial) -/
theorem belongs_of_ker_trivial {𝕜 : Type*} [Field 𝕜] {m n : Type*} [Fintype m] [Fintype n]
    {A : Matrix m n 𝕜} (hker : ∀ g, A *ᵥ g = 0 → g = 0) (S : Finset n) (Q : Matrix n n 𝕜) :
    BelongsTo A S Q := by
  intro y g hg
  rw [hker g hg]
  simp

end Gama.LS

namespace Gama.Ls.Env
open Finset Matrix Gama.LS

set_option linter.unusedSectionVars false

variable {K : Type} [Field K] [LinearOrder K] [IsStrictOrderedRing K] (sq : K → K)
local notation "𝔽" => fieldScalar sq

/-! ### `G_Sᵀ G = I` from `S`-orthonormality -/

/-- the list sum `dotS` of two columns as the `Finset` sum over the positions in `S` -/
theorem dotS_eq_sum {n : ℕ} {S : List ℕ} (hnd : S.Nodup) (hS : ∀ k ∈ S, k < n) (a b : Array K) :
    @dotS K 𝔽 S a b = ∑ i ∈ SfOf n S, @vget K 𝔽 a i * @vget K 𝔽 b i := by
  rw [dotS_eq]
  have h := dotL_eq_sum (n := n) hnd hS (Sf := SfOf n S) (fun i => by simp [SfOf])
    (@vget K 𝔽 a) (av sq n b)
  have h' : ∑ i ∈ SfOf n S, @vget K 𝔽 a i * @vget K 𝔽 b i
      = ∑ i ∈ SfOf n S, @vget K 𝔽 a i * av sq n b i := rfl
  rw [h', ← h]
  exact dotL_congr_right fun k hk => (ext0_av sq n b (hS k hk)).symm

/-- pairwise orthogonality by position -/
theorem orthoN_get {S : List ℕ} {G : List (Array K)} (ho : OrthoN sq S G) (c c' : Fin G.length) :
    @dotS K 𝔽 S (G.get c) (G.get c') = if c = c' then 1 else 0 := by
  by_cases h : c = c'
  · subst h; rw [if_pos rfl]; exact ho.2 _ (List.get_mem G c)
  · rw [if_neg h]
    rcases lt_or_gt_of_ne (fun e => h (Fin.ext e) : c.1 ≠ c'.1) with hlt | hgt
    · exact List.pairwise_iff_get.1 ho.1 c c' hlt
    · rw [dotS_comm]; exact List.pairwise_iff_get.1 ho.1 c' c hgt

/-- **`G_Sᵀ G = I`**: the normalisation `Hᵀ G = 1` of the `S`-projector -/
theorem HtG_eq_one {n : ℕ} {S : List ℕ} (hnd : S.Nodup) (hS : ∀ k ∈ S, k < n) {G : List (Array K)}
    (ho : OrthoN sq S G) :
    (restrictS (SfOf n S) (GmM sq n G))ᵀ * GmM sq n G = 1 := by
  ext c c'
  rw [Matrix.mul_apply, Matrix.one_apply, ← orthoN_get sq ho c c', dotS_eq_sum sq hnd hS]
  have e : ∀ i : Fin n, (restrictS (SfOf n S) (GmM sq n G))ᵀ c i * GmM sq n G i c'
      = if i ∈ SfOf n S then @vget K 𝔽 (G.get c) i * @vget K 𝔽 (G.get c') i else 0 := by
    intro i
    simp only [transpose_apply, restrictS, of_apply, GmM]
    split <;> simp
  rw [Finset.sum_congr rfl fun i _ => e i, Finset.sum_ite_mem, Finset.univ_inter]

/-! ### what `solve_x` returned, with the span clause -/

variable (tol stol : K) (m n : ℕ) (A : DMat K) (b : Array K) (At : DMat K) (bt : Array K)
  (reg : Reg) (o : EnvOrd)

/-- the normalised columns are `S`-orthonormal kernel vectors that span the kernel -/
theorem solveX_cols_span (hsq : IsSqrt sq) (hU : FactUnambiguous sq tol m n At bt o) (htol : 0 < tol)
    (hstol : 0 < stol) {S : List ℕ} (hS : ∀ k ∈ S, k < n) {G : List (Array K)} {x : Array K}
    (h : @solveX K 𝔽 (@factor K 𝔽 tol m n At bt o) S stol = .ok (G, x)) :
    OrthoN sq S G ∧ (∀ q ∈ G, av sq n q ∈ kerV sq tol m n At bt o)
      ∧ kerV sq tol m n At bt o ≤ Submodule.span K (av sq n '' {q | q ∈ G}) := by
  rw [solveX_eq sq tol stol m n At bt o hU htol] at h
  unfold gs at h
  cases hG : @gsCols K 𝔽 n S stol [] (kerCols sq tol m n At bt o) with
  | error e => rw [hG] at h; cases h
  | ok G' =>
    rw [hG] at h
    have hGx : (G', @orthAgainst K 𝔽 n S G' (@factor K 𝔽 tol m n At bt o).x0p) = (G, x) := by
      cases h; rfl
    obtain ⟨rfl, -⟩ := Prod.mk.inj hGx
    obtain ⟨r1, r2, -, r4⟩ := gsCols_spec sq hsq hS hstol (kerV sq tol m n At bt o)
      (kerCols sq tol m n At bt o) [] G' hG ⟨List.Pairwise.nil, fun q hq => by cases hq⟩
      (fun q hq => by cases hq) (kerCols_mem_kerV sq tol m n At bt o hU)
    refine ⟨r1, r2, fun g hg => ?_⟩
    have h2 : Submodule.span K (av sq n '' {q | q ∈ kerCols sq tol m n At bt o})
        ≤ Submodule.span K (av sq n '' {q | q ∈ G'}) :=
      Submodule.span_le.2 fun v ⟨q, hq, hv⟩ => hv ▸ r4 q hq
    exact h2 (kerV_le_span sq tol m n At bt o hU hg)

/-! ### "belongs", new numbering -/

/-- **`Q y` is `S`-orthogonal to the kernel** (new numbering): `Q = T Q0 Tᵀ` -/
theorem QsM_belongs {S : List ℕ} (hnd : S.Nodup) (hS : ∀ k ∈ S, k < n) {G : List (Array K)}
    (ho : OrthoN sq S G)
    (hspan : kerV sq tol m n At bt o ≤ Submodule.span K (av sq n '' {q | q ∈ G}))
    (y g : Fin n → K) (hg : g ∈ kerV sq tol m n At bt o) :
    ∑ i ∈ SfOf n S, (QsM sq tol m n At bt o S G *ᵥ y) i * g i = 0 := by
  have hQ : QsM sq tol m n At bt o S G
      = TM sq n S G * Q0M sq (NF sq tol m n At bt o) tol n * (TM sq n S G)ᵀ := by
    ext i j; exact qxxSing_eq sq (NF sq tol m n At bt o) tol i j
  have hHG := HtG_eq_one sq hnd hS ho
  have hcol : ∀ c : Fin G.length,
      ∑ i ∈ SfOf n S, (QsM sq tol m n At bt o S G *ᵥ y) i * GmM sq n G i c = 0 := by
    intro c
    rw [hQ]
    exact tq0t_mulVec_orth (G := GmM sq n G) (H := restrictS (SfOf n S) (GmM sq n G))
      (Q₀ := Q0M sq (NF sq tol m n At bt o) tol n) (SfOf n S) rfl hHG y c
  have hg' := hspan hg
  clear hg
  induction hg' using Submodule.span_induction with
  | mem v hv =>
    obtain ⟨q, hq, rfl⟩ := hv
    obtain ⟨c, rfl⟩ := List.mem_iff_get.1 hq
    exact hcol c
  | zero => simp
  | add v w _ _ hv hw =>
    simp only [Pi.add_apply, mul_add, Finset.sum_add_distrib]
    rw [hv, hw, add_zero]
  | smul r v _ hv =>
    have e : ∀ i, (QsM sq tol m n At bt o S G *ᵥ y) i * (r • v) i
        = r * ((QsM sq tol m n At bt o S G *ᵥ y) i * v i) := by
      intro i; rw [Pi.smul_apply, smul_eq_mul]; ring
    rw [Finset.sum_congr rfl fun i _ => e i, ← Finset.mul_sum, hv, mul_zero]

/-! ### "belongs", numbering of the problem -/

/-- `QsO y` through the ordering -/
theorem QsO_mulVec (hO : OrdOK n o) (S : List ℕ) (G : List (Array K)) (y : Fin n → K) (i : Fin n) :
    (QsO sq tol m n At bt o hO S G *ᵥ y) i
      = (QsM sq tol m n At bt o S G *ᵥ (y ∘ hO.equiv)) (hO.equiv.symm i) := by
  unfold QsO
  simp only [mulVec, dotProduct, submatrix_apply]
  rw [← Equiv.sum_comp hO.equiv]
  refine Finset.sum_congr rfl fun k _ => ?_
  simp

/-- **C03 clause 6 (envelope, defect > 0)**: the matrix of `q_xx` belongs to the configured
    regularisation subset — every `Q y` is `S`-orthogonal to the kernel of the design matrix -/
theorem QsO_belongs (hO : OrdOK n o) {W : Matrix (Fin m) (Fin m) K} (hWinj : ∀ d, W *ᵥ d = 0 → d = 0)
    (hAt : toMatrix m n At = W * toMatrix m n A)
    {Sorig : Finset (Fin n)} (hreg : RegOK n o reg Sorig) {G : List (Array K)}
    (ho : OrthoN sq (regList n o reg) G)
    (hspan : kerV sq tol m n At bt o ≤ Submodule.span K (av sq n '' {q | q ∈ G})) :
    BelongsTo (toMatrix m n A) Sorig (QsO sq tol m n At bt o hO (regList n o reg) G) := by
  intro y g hg
  have h1 := (ker_orig_iff sq tol m n A At bt o hO hWinj hAt g).1 hg
  have h2 := QsM_belongs sq tol m n At bt o hreg.nodup hreg.lt ho hspan (y ∘ hO.equiv) _ h1
  have hS : SfOf n (regList n o reg) = Sorig.map hO.equiv.symm.toEmbedding := by
    ext i
    rw [Finset.mem_map_equiv, Equiv.symm_symm, hreg.mem]
    have : o.invp.getD (hO.equiv i) 0 = i.1 := hO.left i i.2
    rw [this]; simp [SfOf]
  rw [hS, Finset.sum_map] at h2
  rw [← h2]
  refine Finset.sum_congr rfl fun i _ => ?_
  rw [QsO_mulVec]
  simp

/-! ### the normal matrix of the homogenised system -/

theorem NO_symm : (NO m n At : Matrix (Fin n) (Fin n) K)ᵀ = NO m n At := by
  rw [NO, transpose_mul, transpose_transpose]

theorem NO_psd : ∀ d : Fin n → K, 0 ≤ d ⬝ᵥ NO m n At *ᵥ d := gram_psd (toMatrix m n At)

/-- regular normal matrix: the design matrix has a trivial kernel -/
theorem ker_trivial_of_NO_isUnit {W : Matrix (Fin m) (Fin m) K} (hAt : toMatrix m n At = W * toMatrix m n A)
    (hu : IsUnit (NO m n At).det) (g : Fin n → K) (hg : toMatrix m n A *ᵥ g = 0) : g = 0 := by
  have h1 : NO m n At *ᵥ g = 0 := by
    rw [NO, ← mulVec_mulVec, hAt, ← mulVec_mulVec, hg, mulVec_zero, mulVec_zero]
  have := congrArg ((NO m n At)⁻¹ *ᵥ ·) h1
  simpa [mulVec_mulVec, nonsing_inv_mul _ hu] using this

/-! ### ONE cofactor matrix for both cases -/

/-- **C03 (envelope), clauses 1–4 and 6 together, regular or singular**: whenever `unknowns()`
    answers, the reported `q_xx(i,j)` for ALL index pairs are the entries of one matrix `Q` that
    is symmetric, a reflexive g-inverse of `N = ÃᵀÃ`, positive semi-definite, and belongs to the
    configured regularisation subset -/
theorem envCore_cofactors (hsq : IsSqrt sq) (hO : OrdOK n o) (hU : FactUnambiguous sq tol m n At bt o)
    (htol : 0 < tol) (hstol : 0 < stol)
    {W : Matrix (Fin m) (Fin m) K} (hWinj : ∀ d, W *ᵥ d = 0 → d = 0)
    (hAt : toMatrix m n At = W * toMatrix m n A)
    {Sorig : Finset (Fin n)} (hreg : RegOK n o reg Sorig) {x : Array K}
    (hx : (@envCore K 𝔽 tol stol m n A b At bt reg o).x = .ok x) :
    ∃ Q : Matrix (Fin n) (Fin n) K,
      (∀ i j : Fin n, (@envCore K 𝔽 tol stol m n A b At bt reg o).qxx (i + 1) (j + 1) = .ok (Q i j))
      ∧ Qᵀ = Q ∧ NO m n At * Q * NO m n At = NO m n At ∧ Q * NO m n At * Q = Q
      ∧ (∀ y, 0 ≤ y ⬝ᵥ Q *ᵥ y)
      ∧ BelongsTo (toMatrix m n A) Sorig Q
      ∧ ((@envCore K 𝔽 tol stol m n A b At bt reg o).defect = 0 → Q = (NO m n At)⁻¹) := by
  by_cases hd : (@envCore K 𝔽 tol stol m n A b At bt reg o).defect = 0
  · have hu := NO_isUnit sq tol m n At bt o hO ((defect_zero_iff sq _ tol n).1 hd) htol
    have hs : ((NO m n At)⁻¹)ᵀ = (NO m n At)⁻¹ := by rw [transpose_nonsing_inv, NO_symm]
    have hr : (NO m n At)⁻¹ * NO m n At * (NO m n At)⁻¹ = (NO m n At)⁻¹ := by
      rw [nonsing_inv_mul _ hu, Matrix.one_mul]
    refine ⟨(NO m n At)⁻¹, fun i j => (envCore_qxx_regular sq tol stol m n A b At bt reg o hO htol hd i j).1,
      hs, by rw [mul_nonsing_inv _ hu, Matrix.one_mul], hr,
      refl_ginv_psd (NO_psd m n At) hs hr,
      belongs_of_ker_trivial (ker_trivial_of_NO_isUnit m n A At hAt hu) _ _, fun _ => rfl⟩
  · have hx' : (@solveX K 𝔽 (@factor K 𝔽 tol m n At bt o) (regList n o reg) stol).map
        (fun gx => @vecOf K n fun j => @vget K 𝔽 gx.2 (o.invp.getD j 0)) = .ok x := hx
    cases hs : @solveX K 𝔽 (@factor K 𝔽 tol m n At bt o) (regList n o reg) stol with
    | error e => rw [hs] at hx'; cases hx'
    | ok gx =>
      obtain ⟨G, xn⟩ := gx
      obtain ⟨ho, hker, hspan⟩ := solveX_cols_span sq tol stol m n At bt o hsq hU htol hstol hreg.lt hs
      obtain ⟨p1, p2, p3⟩ := QsO_props sq tol m n At bt o hO hU (S := regList n o reg) hker
      exact ⟨QsO sq tol m n At bt o hO (regList n o reg) G,
        fun i j => envCore_qxx_singular sq tol stol m n A b At bt reg o hO hd hs i j, p1, p2, p3,
        refl_ginv_psd (NO_psd m n At) p1 p3,
        QsO_belongs sq tol m n A At bt reg o hO hWinj hAt hreg ho hspan, fun h => absurd h hd⟩

end Gama.Ls.Env

/-! ### the 3-unknown singular example of `Lemmas/LS/Example.lean`: two computations of the
    cofactor matrix that belongs to `S = {0,1}` (non-vacuity of `C02_same_cofactors`) -/

namespace Gama.LS.Ex
open Matrix Finset

set_option linter.unnecessarySeqFocus false

/-- `h hᵀ`, `h = (1,1,0)` the restriction of the kernel vector `g = (1,1,−1)` to `S` -/
def Hb : Matrix (Fin 3) (Fin 3) ℚ := !![1, 1, 0; 1, 1, 0; 0, 0, 0]
/-- `g hᵀ` -/
def GH : Matrix (Fin 3) (Fin 3) ℚ := !![1, 1, 0; 1, 1, 0; -1, -1, 0]
/-- `g gᵀ` -/
def GG : Matrix (Fin 3) (Fin 3) ℚ := !![1, 1, -1; 1, 1, -1; -1, -1, 1]

theorem Hb_eq : Hb = vecMulVec ![1, 1, 0] ![1, 1, 0] := by
  ext i j; fin_cases i <;> fin_cases j <;> simp [Hb, vecMulVec_apply]
theorem GH_eq : GH = vecMulVec g₀ ![1, 1, 0] := by
  ext i j; fin_cases i <;> fin_cases j <;> simp [GH, g₀, vecMulVec_apply]
theorem GG_eq : GG = vecMulVec g₀ g₀ := by
  ext i j; fin_cases i <;> fin_cases j <;> simp [GG, g₀, vecMulVec_apply]

/-- first computation: `T Q' Tᵀ`, `Q'` the g-inverse with `x₃` fixed, `T = I − g hᵀ/(hᵀg)` the
    `S`-projector (`hᵀg = 2`) -/
def Tm : Matrix (Fin 3) (Fin 3) ℚ := 1 - (1/2 : ℚ) • GH

theorem TQ'T_eq : Tm * Q' * Tmᵀ = Q := by
  ext i j
  fin_cases i <;> fin_cases j <;>
    simp [Tm, GH, Q, Q', Matrix.mul_apply, Fin.sum_univ_succ, transpose_apply, Matrix.one_apply] <;> norm_num

/-- second computation (the textbook "bordering" formula): `(N + h hᵀ)⁻¹ − g gᵀ/(hᵀg)²` -/
def Mb : Matrix (Fin 3) (Fin 3) ℚ := !![9/20, 1/20, -11/60; 1/20, 9/20, -19/60; -11/60, -19/60, 23/60]

theorem Mb_inv : (N + Hb) * Mb = 1 := by
  ext i j
  fin_cases i <;> fin_cases j <;>
    simp [N, Hb, Mb, Matrix.mul_apply, Fin.sum_univ_succ] <;> norm_num

theorem Mb_eq_inv : Mb = (N + Hb)⁻¹ := (inv_eq_right_inv Mb_inv).symm

theorem bordered_eq : (N + Hb)⁻¹ - (1/4 : ℚ) • GG = Q := by
  rw [← Mb_eq_inv]
  ext i j
  fin_cases i <;> fin_cases j <;> simp [Mb, Q, GG] <;> norm_num

theorem Q'_symm : Q'ᵀ = Q' := by
  ext i j; fin_cases i <;> fin_cases j <;> simp [Q', transpose_apply]

/-- `Q` belongs to `S = {0,1}`: rows 0 and 1 are opposite and kernel vectors have `g 0 = g 1` -/
theorem Q_belongs : BelongsTo A S Q := by
  intro y g hg
  obtain ⟨h0, h1⟩ := (ker_iff g).1 hg
  have h01 : g 1 = g 0 := by linarith
  have e : ∑ i ∈ S, (Q *ᵥ y) i * g i = (Q *ᵥ y) 0 * g 0 + (Q *ᵥ y) 1 * g 1 := by
    simp [S, sum_pair (show (0 : Fin 3) ≠ 1 by decide)]
  rw [e, h01]
  simp [Q, mulVec, dotProduct, Fin.sum_univ_succ]
  ring

/-- the other symmetric reflexive g-inverse `Q'` does NOT belong to `S` (it belongs to `S' = {2}`) -/
theorem Q'_not_belongs : ¬ BelongsTo A S Q' := by
  intro h
  have := h ![1, 0, 0] g₀ g₀_ker.1
  have e : ∑ i ∈ S, (Q' *ᵥ ![1, 0, 0]) i * g₀ i
      = (Q' *ᵥ ![1, 0, 0]) 0 * g₀ 0 + (Q' *ᵥ ![1, 0, 0]) 1 * g₀ 1 := by
    simp [S, sum_pair (show (0 : Fin 3) ≠ 1 by decide)]
  rw [e] at this
  simp [Q', g₀, mulVec, dotProduct, Fin.sum_univ_succ] at this
  norm_num at this

theorem Q'_belongs' : BelongsTo A S' Q' := by
  intro y g _
  simp [S', Q', mulVec, dotProduct, Fin.sum_univ_succ]

end Gama.LS.Ex
