/-
  `Homogenization::run` as `envSolve` executes it (`Ls.Env.homogenize`, Model/Ls/Env/Homog.lean):
  the homogenised system is `(W A, W b)` with `WᵀW = P` (`P` the inverse of the block diagonal
  covariance matrix of the problem) and `W` injective.

  The kernels are C10's (`Cov.bdCholBlock`, `Cov.sweep`), so the per-block facts are C10's theorems
  (`Lemmas/CovBd.lean`: `bdCholBlock_reproduces`, `sweep_spec`); this file only
    * identifies the scalar structure C10 states its theorems for (`Cov.fieldScalar K sq`) with the
      one the solver theorems use (`Gama.fieldScalar sq`): they are equal;
    * reads a `CovBlock` of the problem as the packed `CovMat` (`blockMat_get`: the same entries as
      the dense block `AdjM.blockDense` of the specification `Cadj p = p.C`);
    * assembles the blocks (`locate`, as for class `Adj`: `Lemmas/Ls/AdjFacade.lean`).
-/
import Gama.Lemmas.CovBd
import Gama.Lemmas.Ls.ScalarLaws
import Gama.Lemmas.Ls.AdjFacade
import Gama.Lemmas.Ls.AdjCov
import Gama.Lemmas.Ls.EnvAnswer
import Mathlib.Algebra.Field.Rat
import Mathlib.Tactic.NormNum.OfScientific

namespace Gama.Ls.Env
open Finset Matrix Gama.LS Gama.Ls.AdjM

set_option linter.unusedSectionVars false
set_option linter.unusedVariables false

variable {K : Type} [Field K] [LinearOrder K] [IsStrictOrderedRing K] (sq : K → K)

/-! ### the two field-scalar structures coincide -/

theorem covFieldScalar_lawful : LawfulScalar (Cov.fieldScalar K sq) where
  add _ _ := rfl
  sub _ _ := rfl
  mul _ _ := rfl
  div _ _ := rfl
  neg _ := rfl
  zero := rfl
  one := rfl
  lt _ _ := Iff.rfl
  le _ _ := Iff.rfl
  ofNat _ := rfl
  ofSci m s e := by
    show (if s then (m : K) / 10 ^ e else (m : K) * 10 ^ e) = OfScientific.ofScientific m s e
    rw [NNRatCast.ofScientific_eq_ite]
    cases s
    · simp
    · simp [NNRat.cast_divNat]
  beq _ _ := rfl
  abs _ := rfl

/-- C10's scalar structure of an ordered field IS the solver theorems' one -/
theorem covFieldScalar_eq : Cov.fieldScalar K sq = Gama.fieldScalar sq :=
  (covFieldScalar_lawful sq).eq_fieldScalar

/-! ### C10's theorems for an arbitrary name of that scalar structure -/

theorem bdChol_transfer (S : Scalar K) (hS : S = Cov.fieldScalar K sq)
    (hsq : ∀ x : K, 0 < x → sq x * sq x = x ∧ 0 < sq x)
    {C F : Cov.CovMat K} (hC : C.WF) (tol : K) (htol : 0 < tol) (h : @Cov.bdCholBlock K S tol C = .ok F) :
    F.WF ∧ F.dim = C.dim ∧ F.band = C.band ∧
    (∀ i, 1 ≤ i → i ≤ C.dim → 0 < @Cov.CovMat.get K S.toZero F i i) ∧
    (∀ i j, 1 ≤ i → i ≤ j → j ≤ C.dim → @Cov.CovMat.get K S.toZero C i j
        = ∑ r ∈ Icc 1 i, @Cov.CovMat.get K S.toZero F r i * @Cov.CovMat.get K S.toZero F r j) ∧
    (∀ i j, i ≤ j → j > i + C.band → @Cov.CovMat.get K S.toZero F i j = 0) := by
  subst hS
  letI : Gama.Cov.SqrtFn K := ⟨sq⟩
  exact Cov.bdCholBlock_reproduces hsq hC tol htol h

theorem sweep_transfer (S : Scalar K) (hS : S = Cov.fieldScalar K sq) (F : Cov.CovMat K) (hF : F.WF)
    (v : Array K) (hv : v.size = F.dim) (hd : ∀ i, 1 ≤ i → i ≤ F.dim → @Cov.CovMat.get K S.toZero F i i ≠ 0) :
    (@Cov.sweep K S F v).size = v.size ∧
    ∀ i, 1 ≤ i → i ≤ F.dim →
      (∑ j ∈ Icc 1 i, @Cov.CovMat.get K S.toZero F i j * (@Cov.sweep K S F v).getD (j - 1) 0) = v.getD (i - 1) 0 := by
  subst hS
  exact Cov.sweep_spec sq F hF v hv hd

end Gama.Ls.Env

namespace Gama.Ls
open Finset Matrix Gama.LS Gama.Ls.AdjM Dn Gama.Ls.Env

variable {K : Type} [Field K] [LinearOrder K] [IsStrictOrderedRing K] [SqrtFn K]
attribute [local instance 2000] scalarOfField

/-! ### one block -/

/-- class invariant of a `BlockDiagonal` block: `width ≤ dim`, buffer of `dim(width+1) − width(width+1)/2` cells -/
def Env.BlockWF (b : CovBlock K) : Prop := b.width ≤ b.dim ∧ (b.v.size : Int) = Cov.Packed.size b.dim b.width

theorem Env.blockMat_WF (b : CovBlock K) (h : Env.BlockWF b) : (blockMat b).WF := ⟨h.1, h.2⟩

theorem Env.locate_eq : ∀ (ds : List Nat) (s : Nat), Env.locate ds s = AdjM.locate ds s
  | [], _ => rfl
  | d :: ds, s => by
    show (if s < d then (0, 0) else ((Env.locate ds (s - d)).1 + 1, (Env.locate ds (s - d)).2 + d)) = _
    rw [Env.locate_eq ds (s - d)]; rfl

/-- the two row-offset functions (C++ `operator[]` arithmetic in `Int` / sum of row lengths) agree -/
theorem Env.packed_rowOff_eq (d w : Nat) (hw : w ≤ d) : ∀ r, r < d →
    Cov.Packed.rowOff d w (r + 1) = ((AdjM.rowOff d w r : Nat) : Int) := by
  intro r
  induction r with
  | zero => intro h; rw [Cov.Packed.rowOff_one d w (by omega) hw]; rfl
  | succ r ih =>
    intro h
    rw [Cov.Packed.rowOff_succ hw (by omega) (by omega), ih (by omega), Gama.Ls.rowOff_succ]
    unfold Cov.Packed.rowLen
    push_cast
    omega

/-- the packed block read through `CovMat::operator()` has the entries of the dense block of the
    specification (`AdjM.blockDense`, i.e. `Cadj p = p.C`) -/
theorem Env.blockMat_get (b : CovBlock K) (hb : Env.BlockWF b) (u v : Nat) (hvu : v ≤ u) (hu : u < b.dim) :
    (blockMat b).get (v + 1) (u + 1) = Dn.mget (blockDense b) u v := by
  rw [blockDense_entry b u v hu (by omega) hvu]
  by_cases hin : u ≤ v + b.width
  · rw [if_pos hin]
    have hband : Cov.Packed.InBand (blockMat b).dim (blockMat b).band (v + 1) (u + 1) :=
      ⟨by omega, by omega, by show u + 1 ≤ b.dim; omega, by show u + 1 ≤ v + 1 + b.width; omega⟩
    rw [Cov.CovMat.get_upper hband]
    have hoff : Cov.Packed.off (blockMat b).dim (blockMat b).band (v + 1) (u + 1)
        = ((AdjM.rowOff b.dim b.width v + (u - v) : Nat) : Int) := by
      unfold Cov.Packed.off
      show Cov.Packed.rowOff b.dim b.width (v + 1) + _ = _
      rw [Env.packed_rowOff_eq b.dim b.width hb.1 v (by omega)]
      push_cast
      omega
    have hinb := Cov.CovMat.inBuf_off (Env.blockMat_WF b hb) hband
    unfold Cov.CovMat.raw
    rw [if_pos hinb, hoff]
    rfl
  · rw [if_neg hin]
    exact Cov.CovMat.get_outside _ (by omega) (by show u + 1 > v + 1 + b.width; omega)

/-- the square-root law in the form C10 uses -/
theorem Env.hsq_of_isSqrt (h : IsSqrt (SqrtFn.sq : K → K)) :
    ∀ x : K, 0 < x → SqrtFn.sq x * SqrtFn.sq x = x ∧ 0 < SqrtFn.sq x := by
  intro x hx
  have h1 := h.mul_self x (le_of_lt hx)
  refine ⟨h1, lt_of_le_of_ne (h.nonneg x (le_of_lt hx)) ?_⟩
  intro h0
  rw [← h0, mul_zero] at h1
  exact absurd h1 (ne_of_lt hx)

theorem Env.bdTol_pos : (0 : K) < (Env.bdTol : K) := by
  show (0 : K) < OfScientific.ofScientific 1 true 14
  norm_num

/-- entries of the lower factor `L = Uᵀ` read from the factored block `U` -/
def Env.lowerEntry (F : Cov.CovMat K) (u v : Nat) : K := if v ≤ u then F.get (v + 1) (u + 1) else 0

theorem Env.sum_Icc_shift (f : Nat → K) (n : Nat) : ∑ r ∈ Icc 1 n, f r = ∑ k ∈ range n, f (k + 1) := by
  rw [← Finset.Ico_add_one_right_eq_Icc, Finset.sum_Ico_eq_sum_range]
  simp [add_comm]

theorem Env.sum_range_le (d v : Nat) (hv : v < d) (g : Nat → K) :
    ∑ k ∈ range d, (if k ≤ v then g k else 0) = ∑ k ∈ range (v + 1), g k := by
  rw [← Finset.sum_filter]
  congr 1
  ext x; simp only [Finset.mem_filter, Finset.mem_range]; omega

/-- **one block**: `BlockDiagonal::cholDec` + the sweep of `Homogenization::run` (C10's theorems)
    in the dense vocabulary of the assembly: `C_blk = L Lᵀ`, `L · sweep(v) = v` -/
theorem Env.block_facts (hsq : IsSqrt (SqrtFn.sq : K → K)) (b : CovBlock K) (hb : Env.BlockWF b) (F : Cov.CovMat K)
    (h : Cov.bdCholBlock (Env.bdTol : K) (Env.blockMat b) = .ok F) :
    (∀ u v, u < b.dim → v < b.dim →
      sget (blockDense b) u v = ∑ k ∈ range b.dim, Env.lowerEntry F u k * Env.lowerEntry F v k) ∧
    (∀ col : Array K, col.size = b.dim → ∀ u, u < b.dim →
      ∑ i ∈ range b.dim, Env.lowerEntry F u i * Dn.vget (Cov.sweep F col) i = Dn.vget col u) := by
  obtain ⟨hFw, hFd, hFb, hpos, hrep, hout⟩ :=
    bdChol_transfer (SqrtFn.sq : K → K) scalarOfField (covFieldScalar_eq (SqrtFn.sq : K → K)).symm
      (Env.hsq_of_isSqrt hsq) (Env.blockMat_WF b hb) (Env.bdTol : K) Env.bdTol_pos h
  have hFd' : F.dim = b.dim := hFd
  -- the case v ≤ u
  have key : ∀ u v, u < b.dim → v ≤ u →
      Dn.mget (blockDense b) u v = ∑ k ∈ range b.dim, Env.lowerEntry F u k * Env.lowerEntry F v k := by
    intro u v hu hvu
    rw [← Env.blockMat_get b hb u v hvu hu]
    have := hrep (v + 1) (u + 1) (by omega) (by omega) (by show u + 1 ≤ b.dim; omega)
    refine this.trans ?_
    rw [Env.sum_Icc_shift, ← Env.sum_range_le b.dim v (by omega)]
    refine Finset.sum_congr rfl fun k _ => ?_
    unfold Env.lowerEntry
    by_cases hk : k ≤ v
    · rw [if_pos hk, if_pos hk, if_pos (by omega : k ≤ u)]; exact mul_comm _ _
    · rw [if_neg hk, if_neg hk, mul_zero]
  refine ⟨fun u v hu hv => ?_, fun col hcol u hu => ?_⟩
  · unfold sget
    by_cases hvu : v ≤ u
    · rw [if_pos hvu]; exact key u v hu hvu
    · rw [if_neg hvu, key v u hv (by omega)]
      exact Finset.sum_congr rfl fun k _ => mul_comm _ _
  · have hd : ∀ i, 1 ≤ i → i ≤ F.dim → F.get i i ≠ 0 := fun i h1 h2 =>
      ne_of_gt (hpos i h1 (by show i ≤ b.dim; omega))
    obtain ⟨_, hs⟩ := sweep_transfer (SqrtFn.sq : K → K) scalarOfField (covFieldScalar_eq (SqrtFn.sq : K → K)).symm
      F hFw col (by rw [hcol, hFd']) hd
    have := hs (u + 1) (by omega) (by rw [hFd']; omega)
    rw [Env.sum_Icc_shift] at this
    rw [← Env.sum_range_le b.dim u hu]  at this
    refine Eq.trans ?_ this
    refine Finset.sum_congr rfl fun k _ => ?_
    unfold Env.lowerEntry
    by_cases hk : k ≤ u
    · rw [if_pos hk, if_pos hk, Cov.CovMat.get_symm F (u + 1) (k + 1)]; rfl
    · rw [if_neg hk, if_neg hk, zero_mul]

/-! ### assembly of the blocks -/

/-- block diagonal lower matrix assembled from per-block entry functions `ℓ k u v` -/
def Env.lgG (p : Problem K) (ℓ : Nat → Nat → Nat → K) (s t : Nat) : K :=
  if (AdjM.locate (dimsOf p) s).2 ≤ t ∧ t < (AdjM.locate (dimsOf p) s).2 + (dimsOf p).getD (AdjM.locate (dimsOf p) s).1 0 then
    ℓ (AdjM.locate (dimsOf p) s).1 (s - (AdjM.locate (dimsOf p) s).2) (t - (AdjM.locate (dimsOf p) s).2)
  else 0

/-- bookkeeping for the block containing observation `s` -/
theorem Env.block_index (p : Problem K) (hdim : (dimsOf p).sum = p.m) (s : Nat) (hs : s < p.m) :
    (AdjM.locate (dimsOf p) s).2 ≤ s ∧ s < (AdjM.locate (dimsOf p) s).2 + (dimsOf p).getD (AdjM.locate (dimsOf p) s).1 0 ∧
    (AdjM.locate (dimsOf p) s).2 + (dimsOf p).getD (AdjM.locate (dimsOf p) s).1 0 ≤ p.m ∧
    (∃ blk, p.cov.toList[(AdjM.locate (dimsOf p) s).1]? = some blk ∧ blk.dim = (dimsOf p).getD (AdjM.locate (dimsOf p) s).1 0) ∧
    (∀ t, (AdjM.locate (dimsOf p) s).2 ≤ t → t < (AdjM.locate (dimsOf p) s).2 + (dimsOf p).getD (AdjM.locate (dimsOf p) s).1 0 →
      AdjM.locate (dimsOf p) t = AdjM.locate (dimsOf p) s) := by
  obtain ⟨h1, h2, h3, h4, h5⟩ := locate_spec (dimsOf p) s (by rw [hdim]; exact hs)
  have hlen : (AdjM.locate (dimsOf p) s).1 < p.cov.toList.length := by
    have : (dimsOf p).length = p.cov.toList.length := by unfold dimsOf; simp
    rw [← this]; exact h1
  refine ⟨h2, h3, by rw [← hdim]; exact h4, ⟨p.cov.toList[(AdjM.locate (dimsOf p) s).1], ?_, ?_⟩, h5⟩
  · exact List.getElem?_eq_getElem hlen
  · have : ∀ k (hk : k < p.cov.toList.length), (p.cov.toList[k]).dim = (dimsOf p).getD k 0 := by
      intro k hk
      unfold dimsOf
      rw [List.getD_eq_getElem?_getD, List.getElem?_map, List.getElem?_eq_getElem hk]; rfl
    exact this _ hlen

theorem Env.lgG_mul_transpose (p : Problem K) (hdim : (dimsOf p).sum = p.m) (ℓ : Nat → Nat → Nat → K)
    (hfac : ∀ k blk, p.cov.toList[k]? = some blk → ∀ u v, u < blk.dim → v < blk.dim →
      sget (blockDense blk) u v = ∑ i ∈ range blk.dim, ℓ k u i * ℓ k v i) :
    (Matrix.of fun s t : Fin p.m => Env.lgG p ℓ s.val t.val) * (Matrix.of fun s t : Fin p.m => Env.lgG p ℓ s.val t.val)ᵀ
      = Cadj p := by
  funext s t
  rw [Matrix.mul_apply]
  show ∑ u : Fin p.m, Env.lgG p ℓ s.val u.val * Env.lgG p ℓ t.val u.val = covF p s.val t.val
  rw [Fin.sum_univ_eq_sum_range (fun u => Env.lgG p ℓ s.val u * Env.lgG p ℓ t.val u) p.m]
  obtain ⟨a1, a2, a3, ⟨blk, hblk, hd⟩, a5⟩ := Env.block_index p hdim s.val s.isLt
  obtain ⟨b1, b2, b3, _, b5⟩ := Env.block_index p hdim t.val t.isLt
  unfold covF
  simp only []
  by_cases hin : (AdjM.locate (dimsOf p) s.val).2 ≤ t.val ∧
      t.val < (AdjM.locate (dimsOf p) s.val).2 + (dimsOf p).getD (AdjM.locate (dimsOf p) s.val).1 0
  · rw [if_pos hin]
    have hkt := a5 t.val hin.1 hin.2
    have : ∀ u ∈ range p.m, Env.lgG p ℓ s.val u * Env.lgG p ℓ t.val u
        = if (AdjM.locate (dimsOf p) s.val).2 ≤ u ∧
            u < (AdjM.locate (dimsOf p) s.val).2 + (dimsOf p).getD (AdjM.locate (dimsOf p) s.val).1 0 then
            ℓ (AdjM.locate (dimsOf p) s.val).1 (s.val - (AdjM.locate (dimsOf p) s.val).2) (u - (AdjM.locate (dimsOf p) s.val).2) *
              ℓ (AdjM.locate (dimsOf p) s.val).1 (t.val - (AdjM.locate (dimsOf p) s.val).2) (u - (AdjM.locate (dimsOf p) s.val).2)
          else 0 := by
      intro u _
      unfold Env.lgG
      simp only [hkt]
      split <;> simp
    rw [Finset.sum_congr rfl this, sum_window p.m _ _ a3]
    have hgetD : p.cov.toList.getD (AdjM.locate (dimsOf p) s.val).1 ⟨0, 0, #[]⟩ = blk := by
      rw [List.getD_eq_getElem?_getD, hblk]; rfl
    rw [hgetD, hfac _ blk hblk _ _ (by omega) (by omega), hd]
    refine Finset.sum_congr rfl fun i _ => ?_
    simp only [Nat.add_sub_cancel_left]
  · rw [if_neg hin]
    refine Finset.sum_eq_zero fun u _ => ?_
    unfold Env.lgG
    by_cases hu1 : (AdjM.locate (dimsOf p) s.val).2 ≤ u ∧
        u < (AdjM.locate (dimsOf p) s.val).2 + (dimsOf p).getD (AdjM.locate (dimsOf p) s.val).1 0
    · by_cases hu2 : (AdjM.locate (dimsOf p) t.val).2 ≤ u ∧
          u < (AdjM.locate (dimsOf p) t.val).2 + (dimsOf p).getD (AdjM.locate (dimsOf p) t.val).1 0
      · exfalso
        have e1 := a5 u hu1.1 hu1.2
        have e2 := b5 u hu2.1 hu2.2
        have e : AdjM.locate (dimsOf p) t.val = AdjM.locate (dimsOf p) s.val := by rw [← e2, e1]
        rw [e] at b1 b2
        exact hin ⟨b1, b2⟩
      · rw [if_neg hu2, mul_zero]
    · rw [if_neg hu1, zero_mul]

theorem Env.lgG_mulVec (p : Problem K) (hdim : (dimsOf p).sum = p.m) (ℓ : Nat → Nat → Nat → K) (x y : Nat → K)
    (hsolve : ∀ s, s < p.m →
      ∑ i ∈ range ((dimsOf p).getD (AdjM.locate (dimsOf p) s).1 0),
        ℓ (AdjM.locate (dimsOf p) s).1 (s - (AdjM.locate (dimsOf p) s).2) i * y ((AdjM.locate (dimsOf p) s).2 + i) = x s)
    (s : Fin p.m) : ∑ u : Fin p.m, Env.lgG p ℓ s.val u.val * y u.val = x s.val := by
  rw [Fin.sum_univ_eq_sum_range (fun u => Env.lgG p ℓ s.val u * y u) p.m]
  obtain ⟨a1, a2, a3, _, a5⟩ := Env.block_index p hdim s.val s.isLt
  have : ∀ u ∈ range p.m, Env.lgG p ℓ s.val u * y u
      = if (AdjM.locate (dimsOf p) s.val).2 ≤ u ∧
          u < (AdjM.locate (dimsOf p) s.val).2 + (dimsOf p).getD (AdjM.locate (dimsOf p) s.val).1 0 then
          ℓ (AdjM.locate (dimsOf p) s.val).1 (s.val - (AdjM.locate (dimsOf p) s.val).2) (u - (AdjM.locate (dimsOf p) s.val).2) * y u
        else 0 := by
    intro u _
    unfold Env.lgG
    split
    · rfl
    · rw [zero_mul]
  rw [Finset.sum_congr rfl this, sum_window p.m _ _ a3, ← hsolve s.val s.isLt]
  refine Finset.sum_congr rfl fun i _ => ?_
  rw [Nat.add_sub_cancel_left]

/-! ### `Homogenization::run` -/

theorem Env.factorsU_spec : ∀ (bs : List (CovBlock K)) (Fs : List (Cov.CovMat K)), Env.factorsU bs = some Fs →
    ∀ k b, bs[k]? = some b →
      Cov.bdCholBlock (Env.bdTol : K) (Env.blockMat b) = .ok (Fs.getD k ⟨0, 0, #[]⟩) := by
  intro bs
  induction bs with
  | nil => intro Fs _ k b hb; simp at hb
  | cons b0 bs ih =>
    intro Fs h k b hb
    unfold Env.factorsU at h
    cases h0 : Cov.bdCholBlock (Env.bdTol : K) (Env.blockMat b0) with
    | error e => rw [h0] at h; cases h
    | ok F0 =>
      rw [h0] at h
      simp only at h
      cases h1 : Env.factorsU bs with
      | none => rw [h1] at h; cases h
      | some Fs' =>
        rw [h1] at h
        have := Option.some.inj h
        subst this
        cases k with
        | zero =>
          simp only [List.getElem?_cons_zero, Option.some.injEq] at hb
          subst hb
          simpa using h0
        | succ k =>
          simp only [List.getElem?_cons_succ] at hb
          simpa using ih Fs' h1 k b hb

/-- every covariance block of the problem is a well-formed `BlockDiagonal` block -/
def Env.BlocksWF (p : Problem K) : Prop := ∀ b ∈ p.cov.toList, Env.BlockWF b

theorem Env.homVec_get (dims : List Nat) (Fs : List (Cov.CovMat K)) (m : Nat) (x : Nat → K) (s : Nat) (hs : s < m) :
    Dn.vget (Env.homVec dims Fs m x) s
      = Dn.vget (Cov.sweep (Fs.getD (AdjM.locate dims s).1 ⟨0, 0, #[]⟩)
          (Env.vecOf (dims.getD (AdjM.locate dims s).1 0) fun i => x ((AdjM.locate dims s).2 + i)))
          (s - (AdjM.locate dims s).2) := by
  have hl : Env.locate = AdjM.locate := funext fun ds => funext fun s => Env.locate_eq ds s
  unfold Env.homVec
  rw [hl]
  show Dn.vget (Env.vecOf m _) s = _
  unfold Env.vecOf
  show (Array.ofFn _).getD s 0 = _
  rw [getD_ofFn', dif_pos hs]
  rfl

/-- the homogenised vector solves the block lower triangular system `L̃ · ṽ = v` -/
theorem Env.homVec_solve (hsq : IsSqrt (SqrtFn.sq : K → K)) (p : Problem K) (hwf : Env.BlocksWF p)
    (hdim : (dimsOf p).sum = p.m) (Fs : List (Cov.CovMat K)) (hF : Env.factorsU p.cov.toList = some Fs)
    (x : Nat → K) (s : Nat) (hs : s < p.m) :
    ∑ i ∈ range ((dimsOf p).getD (AdjM.locate (dimsOf p) s).1 0),
      Env.lowerEntry (Fs.getD (AdjM.locate (dimsOf p) s).1 ⟨0, 0, #[]⟩) (s - (AdjM.locate (dimsOf p) s).2) i
        * Dn.vget (Env.homVec (dimsOf p) Fs p.m x) ((AdjM.locate (dimsOf p) s).2 + i) = x s := by
  obtain ⟨a1, a2, a3, ⟨blk, hblk, hd⟩, a5⟩ := Env.block_index p hdim s hs
  have hch := Env.factorsU_spec p.cov.toList Fs hF _ blk hblk
  obtain ⟨_, hsw⟩ := Env.block_facts hsq blk (hwf blk (List.mem_of_getElem? hblk)) _ hch
  rw [← hd]
  have hcol : (Env.vecOf blk.dim fun i => x ((AdjM.locate (dimsOf p) s).2 + i)).size = blk.dim := by
    simp [Env.vecOf]
  have := hsw _ hcol (s - (AdjM.locate (dimsOf p) s).2) (by omega)
  have hx : Dn.vget (Env.vecOf blk.dim fun i => x ((AdjM.locate (dimsOf p) s).2 + i)) (s - (AdjM.locate (dimsOf p) s).2)
      = x s := by
    unfold Env.vecOf Dn.vget
    rw [getD_ofFn', dif_pos (by omega)]
    show x ((AdjM.locate (dimsOf p) s).2 + (s - (AdjM.locate (dimsOf p) s).2)) = x s
    congr 1; omega
  rw [hx] at this
  refine Eq.trans ?_ this
  refine Finset.sum_congr rfl fun i hi => ?_
  have hi' : i < blk.dim := Finset.mem_range.1 hi
  rw [Env.homVec_get _ _ _ _ _ (by omega : (AdjM.locate (dimsOf p) s).2 + i < p.m),
    a5 ((AdjM.locate (dimsOf p) s).2 + i) (by omega) (by omega), Nat.add_sub_cancel_left, hd]

/-- **`Homogenization::run`** (`Ls.Env.homogenize`): there is a block diagonal lower triangular `L̃`
    with `L̃ L̃ᵀ = C`, `L̃ · Ã = A`, `L̃ · b̃ = b` -/
theorem Env.homogenize_factor (hsq : IsSqrt (SqrtFn.sq : K → K)) (p : Problem K) (hwf : Env.BlocksWF p)
    (hdim : (dimsOf p).sum = p.m) (hh : Env.Homog K) (h : Env.homogenize p = .ok hh) :
    ∃ Lg : Matrix (Fin p.m) (Fin p.m) K, Lg * Lgᵀ = Cadj p ∧
      Lg * toMatrix p.m p.n hh.At = p.A ∧ Lg *ᵥ toVec p.m hh.bt = p.b := by
  unfold Env.homogenize at h
  cases hF : Env.factorsU p.cov.toList with
  | none => rw [hF] at h; cases h
  | some Fs =>
    rw [hF] at h
    simp only at h
    have hh' := (Except.ok.inj h).symm
    subst hh'
    refine ⟨Matrix.of fun s t : Fin p.m =>
      Env.lgG p (fun k u v => Env.lowerEntry (Fs.getD k ⟨0, 0, #[]⟩) u v) s.val t.val, ?_, ?_, ?_⟩
    · refine Env.lgG_mul_transpose p hdim _ ?_
      intro k blk hblk u v hu hv
      have hch := Env.factorsU_spec p.cov.toList Fs hF k blk hblk
      exact (Env.block_facts hsq blk (hwf blk (List.mem_of_getElem? hblk)) _ hch).1 u v hu hv
    · funext s j
      rw [Matrix.mul_apply]
      have key := Env.lgG_mulVec p hdim (fun k u v => Env.lowerEntry (Fs.getD k ⟨0, 0, #[]⟩) u v)
        (fun u => Env.mget p.dense u j.val)
        (fun u => Dn.vget (Env.homVec (dimsOf p) Fs p.m fun i => Env.mget p.dense i j.val) u)
        (fun s' hs' => Env.homVec_solve hsq p hwf hdim Fs hF (fun u => Env.mget p.dense u j.val) s' hs') s
      refine (Eq.trans ?_ key : _ = p.A s j)
      refine Finset.sum_congr rfl fun u _ => ?_
      congr 1
      simp only [toMatrix_apply]
      rw [getD_ofFn', dif_pos u.isLt, getD_ofFn', dif_pos j.isLt, getD_ofFn', dif_pos j.isLt]
      rfl
    · funext s
      have key := Env.lgG_mulVec p hdim (fun k u v => Env.lowerEntry (Fs.getD k ⟨0, 0, #[]⟩) u v)
        (fun u => Env.vget p.rhs u)
        (fun u => Dn.vget (Env.homVec (dimsOf p) Fs p.m (Env.vget p.rhs)) u)
        (fun s' hs' => Env.homVec_solve hsq p hwf hdim Fs hF (Env.vget p.rhs) s' hs') s
      exact key

/-- **`Homogenization::run` whitens** (C10 for what `envSolve` runs): the homogenised system is
    `(W A, W b)` with `WᵀW = P` — `P` the weight matrix, i.e. the inverse of the covariance matrix
    `p.C` of the problem — and `W` injective.  Hypotheses: the square-root law, well-formed blocks
    whose dimensions add up to `m`, and no block rejected (`homogenize p = .ok _`). -/
theorem Env.homogenize_spec (hsq : IsSqrt (SqrtFn.sq : K → K)) (p : Problem K) (hwf : Env.BlocksWF p)
    (hdim : (dimsOf p).sum = p.m) (hh : Env.Homog K) (h : Env.homogenize p = .ok hh)
    (P : Matrix (Fin p.m) (Fin p.m) K) (hP : p.C * P = 1) :
    ∃ W : Matrix (Fin p.m) (Fin p.m) K, Wᵀ * W = P ∧ (∀ d, W *ᵥ d = 0 → d = 0) ∧
      toMatrix p.m p.n hh.At = W * p.A ∧ toVec p.m hh.bt = W *ᵥ p.b ∧ IsUnit W.det := by
  obtain ⟨Lg, hC, hLA, hLb⟩ := Env.homogenize_factor hsq p hwf hdim hh h
  have hP' : Cadj p * P = 1 := by rw [Cadj_eq_C p hdim]; exact hP
  have h1 : Lg * (Lgᵀ * P) = 1 := by rw [← Matrix.mul_assoc, hC, hP']
  have h2 : (Lgᵀ * P) * Lg = 1 := mul_eq_one_comm.1 h1
  refine ⟨Lgᵀ * P, whiten_of_chol hC.symm h2 hP', ?_, ?_, ?_, ?_⟩
  · intro d hd
    have : Lg *ᵥ ((Lgᵀ * P) *ᵥ d) = d := by rw [mulVec_mulVec, h1, one_mulVec]
    rw [← this, hd, mulVec_zero]
  · rw [← hLA, ← Matrix.mul_assoc, h2, Matrix.one_mul]
  · rw [← hLb, mulVec_mulVec, h2, one_mulVec]
  · exact Matrix.isUnit_det_of_right_inverse h2

/-! ### the column pattern handed to the ordering -/

theorem Env.mem_occOf (c : Nat) : ∀ (rows : List (Array (Nat × K))) (init : List Nat),
    c ∈ rows.foldl (fun occ r => r.foldl (fun occ e => if occ.contains e.1 then occ else occ ++ [e.1]) occ) init →
    c ∈ init ∨ ∃ r ∈ rows, ∃ e ∈ r.toList, e.1 = c := by
  have inner : ∀ (l : List (Nat × K)) (init : List Nat),
      c ∈ l.foldl (fun occ e => if occ.contains e.1 then occ else occ ++ [e.1]) init →
      c ∈ init ∨ ∃ e ∈ l, e.1 = c := by
    intro l
    induction l with
    | nil => intro init h; exact Or.inl h
    | cons e l ih =>
      intro init h
      rw [List.foldl_cons] at h
      rcases ih _ h with h' | ⟨e', he', hc⟩
      · by_cases hcont : init.contains e.1 = true
        · rw [if_pos hcont] at h'; exact Or.inl h'
        · rw [if_neg hcont] at h'
          rcases List.mem_append.1 h' with h'' | h''
          · exact Or.inl h''
          · exact Or.inr ⟨e, List.mem_cons_self, (List.mem_singleton.1 h'').symm⟩
      · exact Or.inr ⟨e', List.mem_cons_of_mem _ he', hc⟩
  intro rows
  induction rows with
  | nil => intro init h; exact Or.inl h
  | cons r rows ih =>
    intro init h
    rw [List.foldl_cons] at h
    rcases ih _ h with h' | ⟨r', hr', e, he, hc⟩
    · rw [← Array.foldl_toList] at h'
      rcases inner _ _ h' with h'' | ⟨e, he, hc⟩
      · exact Or.inl h''
      · exact Or.inr ⟨r, List.mem_cons_self, e, he, hc⟩
    · exact Or.inr ⟨r', List.mem_cons_of_mem _ hr', e, he, hc⟩

theorem Env.patOf_range (p : Problem K) (hrows : RowsOK p) (At : DMat K) :
    ∀ (bs : List (CovBlock K)) (off : Nat), off + (bs.map (·.dim)).sum ≤ p.m →
      ∀ cols ∈ Env.patOf p At bs off, ∀ c ∈ cols, 1 ≤ c ∧ c ≤ p.n := by
  intro bs
  induction bs with
  | nil => intro off _ cols hc; simp [Env.patOf] at hc
  | cons b bs ih =>
    intro off hoff cols hc c hcc
    rw [List.map_cons, List.sum_cons] at hoff
    unfold Env.patOf at hc
    rcases List.mem_append.1 hc with hc | hc
    · unfold Env.blockPat at hc
      by_cases hw : (b.width == 0) = true
      · rw [if_pos hw] at hc
        obtain ⟨i, hi, rfl⟩ := List.mem_map.1 hc
        obtain ⟨cv, hcv, rfl⟩ := List.mem_map.1 hcc
        exact hrows (off + i) (by have := List.mem_range.1 hi; omega) cv hcv
      · rw [if_neg hw] at hc
        obtain ⟨i, hi, rfl⟩ := List.mem_map.1 hc
        have hocc := (List.mem_filter.1 hcc).1
        unfold Env.occOf at hocc
        rcases Env.mem_occOf c _ _ hocc with h0 | ⟨r, hr, e, he, rfl⟩
        · cases h0
        · obtain ⟨i', hi', rfl⟩ := List.mem_map.1 hr
          exact hrows (off + i') (by have := List.mem_range.1 hi'; omega) e he
    · exact ih (off + b.dim) (by omega) cols hc c hcc

/-- the pattern `Homogenization::run` leaves behind names columns in `1..n` only -/
theorem Env.homogenize_pat_range (p : Problem K) (hrows : RowsOK p) (hdim : (dimsOf p).sum = p.m)
    (hh : Env.Homog K) (h : Env.homogenize p = .ok hh) :
    ∀ cols ∈ hh.pat.toList, ∀ c ∈ cols, 1 ≤ c ∧ c ≤ p.n := by
  unfold Env.homogenize at h
  cases hF : Env.factorsU p.cov.toList with
  | none => rw [hF] at h; cases h
  | some Fs =>
    rw [hF] at h
    simp only at h
    have hh' := (Except.ok.inj h).symm
    subst hh'
    intro cols hc
    simp only [List.toList_toArray] at hc
    exact Env.patOf_range p hrows _ p.cov.toList 0 (by rw [Nat.zero_add]; exact le_of_eq hdim) cols hc

end Gama.Ls
