/-
  `Svd.decompose` (Model/Ls/Svd/Decomp.lean, the transliteration of `SVD::svd()` executed by
  `drv_ls`) cut into named pieces, and the proof that the pieces put together ARE `decompose`
  (`decompose_eq_struct`).  Nothing is re-modelled here: every piece is the corresponding block of
  the `do` program, with the variables that block reads as arguments and the variables it assigns
  as result; the glue theorem is proved by unfolding both sides.

      hhCol / hhRow      left / right Householder step `i` of the bidiagonalisation
      bidiagBody         body of `for i in [1:n+1]`
      accVBody           body of the accumulation of the right-hand transformations
      accUBody           body of the accumulation of the left-hand transformations
      searchBody         body of the test-for-splitting loop
      cancelBody         body of the cancellation loop
      sweepBody          body of one QR sweep (`for i1 in [L:k1+1]`)
      passBody           body of `for _ in [0:32]` (one pass: search, cancellation, convergence test
                         or shift + sweep)
      kBody              body of `for tk in [0:n]`
-/
import Gama.Model.Ls.Svd.Decomp
namespace Gama.Ls.Svd
variable {K : Type} [Scalar K]

/-! ### phase 1: Householder reduction to bidiagonal form -/

/-- left Householder step: column `i`, rows `i..m`; applied to columns `L..n` -/
def hhCol (m n i L : Nat) (U : DMat K) (f h : K) : Except ErrKind (DMat K × K × K × K × K × K) := do
  let ZERO : K := 0
  let mut U := U
  let mut g := ZERO
  let mut s := ZERO
  let mut scale := ZERO
  let mut f := f
  let mut h := h
  if i ≤ m then
    for k in [i:m+1] do scale := scale + absC (mg U k i)
    if nz scale then
      for k in [i:m+1] do
        let tmp1 := mg U k i / scale
        U := ms U k i tmp1
        s := s + tmp1 * tmp1
      f := mg U i i
      g := Scalar.sqrt s
      if ZERO ≤ f then g := -g
      h := f * g - s
      U := ms U i i (f - g)
      if i ≠ n then
        for j in [L:n+1] do
          s := ZERO
          for k in [i:m+1] do s := s + mg U k i * mg U k j
          f := s / h
          for k in [i:m+1] do U := ms U k j (mg U k j + f * mg U k i)
      for k in [i:m+1] do U := ms U k i (mg U k i * scale)
  return (U, g, scale, s, f, h)

/-- right Householder step: row `i`, columns `L..n`; applied to rows `L..m` -/
def hhRow (m n i L : Nat) (U : DMat K) (rv1 : Array K) (f h : K) :
    Except ErrKind (DMat K × Array K × K × K × K × K × K) := do
  let ZERO : K := 0
  let mut U := U
  let mut rv1 := rv1
  let mut g := ZERO
  let mut s := ZERO
  let mut scale := ZERO
  let mut f := f
  let mut h := h
  if i ≤ m ∧ i ≠ n then
    for k in [L:n+1] do scale := scale + absC (mg U i k)
    if nz scale then
      for k in [L:n+1] do
        let tmp1 := mg U i k / scale
        U := ms U i k tmp1
        s := s + tmp1 * tmp1
      f := mg U i L
      g := Scalar.sqrt s
      if ZERO ≤ f then g := -g
      h := f * g - s
      U := ms U i L (f - g)
      for k in [L:n+1] do rv1 := s1 rv1 k (mg U i k / h)
      if i ≠ m then
        for j in [L:m+1] do
          s := ZERO
          for k in [L:n+1] do s := s + mg U j k * mg U i k
          for k in [L:n+1] do U := ms U j k (mg U j k + s * g1 rv1 k)
      for k in [L:n+1] do U := ms U i k (mg U i k * scale)
  return (U, rv1, g, scale, s, f, h)

/-- state of the first loop: `(U, W, rv1, sOne, g, scale, s, f, h, L)` -/
abbrev St1 (K : Type) := DMat K × Array K × Array K × K × K × K × K × K × K × Nat

/-- body of `for i in [1:n+1]` (Householder reduction) -/
def bidiagBody (m n i : Nat) (st : St1 K) : Except ErrKind (ForInStep (St1 K)) := do
  let (U, W, rv1, sOne, g, scale, _, f, h, _) := st
  let L := i + 1
  let rv1 := s1 rv1 i (scale * g)
  let (U, g, scale, _, f, h) ← hhCol m n i L U f h
  let W := s1 W i (scale * g)
  let (U, rv1, g, scale, s, f, h) ← hhRow m n i L U rv1 f h
  let r := absC (g1 W i) + absC (g1 rv1 i)
  if sOne < r then return ForInStep.yield (U, W, rv1, r, g, scale, s, f, h, L)
  else return ForInStep.yield (U, W, rv1, sOne, g, scale, s, f, h, L)

/-! ### phase 2: accumulation of the right-hand transformations -/

/-- body of `for t in [0:n]`, `i = n - t`; state `(V, g, s, L)` -/
def accVBody (n : Nat) (U : DMat K) (rv1 : Array K) (t : Nat) (st : DMat K × K × K × Nat) :
    Except ErrKind (ForInStep (DMat K × K × K × Nat)) := do
  let ZERO : K := 0
  let ONE : K := 1
  let (V0, g0, s0, L0) := st
  let mut V := V0
  let mut g := g0
  let mut s := s0
  let mut L := L0
  let i := n - t
  if i ≠ n then
    if nz g then
      for j in [L:n+1] do V := ms V j i ((mg U i j / mg U i L) / g)
      for j in [L:n+1] do
        s := ZERO
        for k in [L:n+1] do s := s + mg U i k * mg V k j
        for k in [L:n+1] do V := ms V k j (mg V k j + s * mg V k i)
    for j in [L:n+1] do
      V := ms V i j ZERO
      V := ms V j i ZERO
  V := ms V i i ONE
  g := g1 rv1 i
  L := i
  return ForInStep.yield (V, g, s, L)

/-! ### phase 3: accumulation of the left-hand transformations -/

/-- body of `for t in [0:mn]`, `i = mn - t`; state `(U, g, s, f, L)` -/
def accUBody (m n mn : Nat) (W : Array K) (t : Nat) (st : DMat K × K × K × K × Nat) :
    Except ErrKind (ForInStep (DMat K × K × K × K × Nat)) := do
  let ZERO : K := 0
  let ONE : K := 1
  let (U0, _, s0, f0, _) := st
  let mut U := U0
  let mut s := s0
  let mut f := f0
  let i := mn - t
  let L := i + 1
  let g := g1 W i
  if i ≠ n then
    for j in [L:n+1] do U := ms U i j ZERO
  if nz g then
    if i ≠ mn then
      for j in [L:n+1] do
        s := ZERO
        for k in [L:m+1] do s := s + mg U k i * mg U k j
        f := (s / mg U i i) / g
        for k in [i:m+1] do U := ms U k j (mg U k j + f * mg U k i)
    for j in [i:m+1] do U := ms U j i (mg U j i / g)
  else
    for j in [i:m+1] do U := ms U j i ZERO
  U := ms U i i (mg U i i + ONE)
  return ForInStep.yield (U, g, s, f, L)

/-! ### phase 4: diagonalisation of the bidiagonal form -/

/-- body of the test-for-splitting loop `for tl in [0:k]`, `L' = k - tl`; state `(L, L1, viaGoto, found)` -/
def searchBody (k : Nat) (sOne : K) (W rv1 : Array K) (tl : Nat) (st : Nat × Nat × Bool × Bool) :
    Except ErrKind (ForInStep (Nat × Nat × Bool × Bool)) := do
  let (L, L1, viaGoto, found) := st
  if found then return ForInStep.done (L, L1, viaGoto, found)
  else
    let L' := k - tl
    let s2 := sOne + absC (g1 rv1 L')
    if Scalar.beq sOne s2 then
      return ForInStep.yield (L', L1, true, true)
    else
      let L1 := L' - 1
      let s2 := sOne + absC (g1 W L1)
      if Scalar.beq sOne s2 then
        return ForInStep.yield (L', L1, viaGoto, true)
      else return ForInStep.yield (L, L1, viaGoto, found)

/-- state of the cancellation loop: `(U, W, rv1, g, s, f, h, c, stop)` -/
abbrev StC (K : Type) := DMat K × Array K × Array K × K × K × K × K × K × Bool

/-- body of the cancellation loop `for i in [L:k+1]` -/
def cancelBody (m L1 : Nat) (sOne : K) (i : Nat) (st : StC K) : Except ErrKind (ForInStep (StC K)) := do
  let (U0, W0, rv10, g0, s0, f0, h0, c0, stop0) := st
  let mut U := U0
  let mut W := W0
  let mut rv1 := rv10
  let mut g := g0
  let mut s := s0
  let mut f := f0
  let mut h := h0
  let mut c := c0
  let mut stop := stop0
  if stop then return ForInStep.done (U, W, rv1, g, s, f, h, c, stop)
  else
    f := s * g1 rv1 i
    rv1 := s1 rv1 i (c * g1 rv1 i)
    let s2 := sOne + absC f
    if Scalar.beq sOne s2 then stop := true
    else
      g := g1 W i
      h := pythag f g
      W := s1 W i h
      c := g / h
      s := (-f) / h
      for j in [1:m+1] do
        let y' := mg U j L1
        let z' := mg U j i
        U := ms U j L1 (y' * c + z' * s)
        U := ms U j i ((-y') * s + z' * c)
    return ForInStep.yield (U, W, rv1, g, s, f, h, c, stop)

/-- state of one QR sweep: `(U, W, V, rv1, g, s, f, h, c, x, y, z)` -/
abbrev StQ (K : Type) := DMat K × Array K × DMat K × Array K × K × K × K × K × K × K × K × K

/-- body of the QR sweep `for i1 in [L:k1+1]`, `i = i1 + 1` -/
def sweepBody (m n : Nat) (i1 : Nat) (st : StQ K) : Except ErrKind (ForInStep (StQ K)) := do
  let (U0, W0, V0, rv10, _, s0, f0, _, c0, x0, _, _) := st
  let mut U := U0
  let mut W := W0
  let mut V := V0
  let mut rv1 := rv10
  let mut s := s0
  let mut f := f0
  let mut c := c0
  let mut x := x0
  let i := i1 + 1
  let mut g := g1 rv1 i
  let mut y := g1 W i
  let mut h := s * g
  g := c * g
  let mut z := pythag f h
  rv1 := s1 rv1 i1 z
  c := f / z
  s := h / z
  f := x * c + g * s
  g := (-x) * s + g * c
  h := y * s
  y := y * c
  for j in [1:n+1] do
    let x' := mg V j i1
    let z' := mg V j i
    V := ms V j i1 (x' * c + z' * s)
    V := ms V j i ((-x') * s + z' * c)
  z := pythag f h
  W := s1 W i1 z
  if nz z then
    c := f / z
    s := h / z
  f := c * g + s * y
  x := (-s) * g + c * y
  for j in [1:m+1] do
    let y' := mg U j i1
    let z' := mg U j i
    U := ms U j i1 (y' * c + z' * s)
    U := ms U j i ((-y') * s + z' * c)
  return ForInStep.yield (U, W, V, rv1, g, s, f, h, c, x, y, z)

/-- state of the pass loop:
    `(U, W, V, rv1, g, s, f, h, L, c, x, y, z, L1, its, done)` -/
abbrev StP (K : Type) :=
  DMat K × Array K × DMat K × Array K × K × K × K × K × Nat × K × K × K × K × Nat × Nat × Bool

/-- body of `for _ in [0:32]` for the singular value `k` (`k1 = k - 1`) -/
def passBody (m n k k1 : Nat) (sOne : K) (st : StP K) : Except ErrKind (ForInStep (StP K)) := do
  let ZERO : K := 0
  let ONE : K := 1
  let TWO : K := Scalar.ofNat 2
  let (U0, W0, V0, rv10, g0, s0, f0, h0, L0, c0, x0, y0, z0, L10, its0, done0) := st
  let mut U := U0
  let mut W := W0
  let mut V := V0
  let mut rv1 := rv10
  let mut g := g0
  let mut s := s0
  let mut f := f0
  let mut h := h0
  let mut L := L0
  let mut c := c0
  let mut x := x0
  let mut y := y0
  let mut z := z0
  let mut L1 := L10
  let mut its := its0
  let mut done := done0
  if done then return ForInStep.done (U, W, V, rv1, g, s, f, h, L, c, x, y, z, L1, its, done)
  else
    /- test for splitting -/
    let (La, L1a, viaGoto, _) ← forIn [0:k] ((0 : Nat), L1, false, false) (searchBody k sOne W rv1)
    L := La
    L1 := L1a
    if !viaGoto then
      /- cancellation of rv1[L], if L greater then 1 -/
      let (Ua, Wa, rv1a, ga, sa, fa, ha, ca, _) ←
        forIn [L:k+1] (U, W, rv1, g, ONE, f, h, ZERO, false) (cancelBody m L1 sOne)
      U := Ua; W := Wa; rv1 := rv1a; g := ga; s := sa; f := fa; h := ha; c := ca
    /- test_for_convergence: -/
    z := g1 W k
    if L = k then
      if z < ZERO then
        W := s1 W k (-z)
        for j in [1:n+1] do V := ms V j k (- mg V j k)
      done := true
    else
      if its = 30 then throw ErrKind.NoConvergence
      its := its + 1
      x := g1 W L
      y := g1 W k1
      g := g1 rv1 k1
      h := g1 rv1 k
      f := ((y - z) * (y + z) + (g - h) * (g + h)) / (TWO * h * y)
      g := pythag f ONE
      s := if ZERO ≤ f then g else -g
      f := ((x - z) * (x + z) + h * (y / (f + s) - h)) / x
      let (Ua, Wa, Va, rv1a, ga, sa, fa, ha, ca, xa, ya, za) ←
        forIn [L:k1+1] (U, W, V, rv1, g, ONE, f, h, ONE, x, y, z) (sweepBody m n)
      U := Ua; W := Wa; V := Va; rv1 := rv1a; g := ga; s := sa; f := fa; h := ha; c := ca
      x := xa; y := ya; z := za
      rv1 := s1 rv1 L ZERO
      rv1 := s1 rv1 k f
      W := s1 W k x
    return ForInStep.yield (U, W, V, rv1, g, s, f, h, L, c, x, y, z, L1, its, done)

/-- state of the loop over the singular values: `(U, W, V, rv1, g, s, f, h, L, c, x, y, z, L1)` -/
abbrev StK (K : Type) :=
  DMat K × Array K × DMat K × Array K × K × K × K × K × Nat × K × K × K × K × Nat

/-- body of `for tk in [0:n]`, `k = n - tk` -/
def kBody (m n : Nat) (sOne : K) (tk : Nat) (st : StK K) : Except ErrKind (ForInStep (StK K)) := do
  let (U, W, V, rv1, g, s, f, h, L, c, x, y, z, L1) := st
  let k := n - tk
  let k1 := k - 1
  let (U, W, V, rv1, g, s, f, h, L, c, x, y, z, L1, _, done) ←
    forIn [0:32] (U, W, V, rv1, g, s, f, h, L, c, x, y, z, L1, (0 : Nat), false) (fun _ => passBody m n k k1 sOne)
  if !done then throw ErrKind.NoConvergence
  return ForInStep.yield (U, W, V, rv1, g, s, f, h, L, c, x, y, z, L1)

/-- `decompose` as the composition of its four loops -/
def decomposeS (m n : Nat) (A : DMat K) : Except ErrKind (Dec K) := do
  let ZERO : K := 0
  let U : DMat K := mmk m n (mget A)
  let W : Array K := Array.replicate n ZERO
  let V : DMat K := Array.replicate n (Array.replicate n ZERO)
  let rv1 : Array K := Array.replicate n ZERO
  let (U, W, rv1, sOne, g, _, s, f, h, L) ←
    forIn [1:n+1] ((U, W, rv1, ZERO, ZERO, ZERO, ZERO, ZERO, ZERO, 0) : St1 K) (bidiagBody m n)
  let (V, g, s, L) ← forIn [0:n] (V, g, s, L) (accVBody n U rv1)
  let mn := if m < n then m else n
  let (U, g, s, f, L) ← forIn [0:mn] (U, g, s, f, L) (accUBody m n mn W)
  let (U, W, V, _) ←
    forIn [0:n] ((U, W, V, rv1, g, s, f, h, L, ZERO, ZERO, ZERO, ZERO, 0) : StK K) (kBody m n sOne)
  return { U := U, W := W, V := V }

/-! ### glue -/

set_option linter.unusedSimpArgs false

theorem ite_bind' {ε α β : Type} (c : Prop) [Decidable c] (x y : Except ε α) (k : α → Except ε β) :
    (if c then x else y) >>= k = if c then x >>= k else y >>= k := by split <;> rfl

theorem bind_congr2 {ε α β : Type} {x x' : Except ε α} {k k' : α → Except ε β} (h1 : x = x') (h2 : ∀ a, k a = k' a) :
    x >>= k = x' >>= k' := by subst h1; congr 1; funext a; exact h2 a

theorem forIn_congr_body {ε σ : Type} (r : Std.Legacy.Range) (init : σ) {b b' : Nat → σ → Except ε (ForInStep σ)}
    (h : ∀ i s, b i s = b' i s) : forIn r init b = forIn r init b' := by
  have : b = b' := by funext i s; exact h i s
  rw [this]

/-- **the pieces put together are `decompose`** -/
theorem decompose_eq_struct (m n : Nat) (A : DMat K) : decompose m n A = decomposeS m n A := by
  unfold decompose decomposeS
  refine bind_congr2 (forIn_congr_body _ _ ?_) ?_
  · intro i st
    rcases st with ⟨U, W, rv1, sOne, g, scale, s, f, h, L⟩
    simp only [bidiagBody, hhCol, hhRow, bind_assoc, pure_bind, ite_bind']
  intro st1
  rcases st1 with ⟨U, W, rv1, sOne, g, scale, s, f, h, L⟩
  refine bind_congr2 (forIn_congr_body _ _ ?_) ?_
  · intro t st
    rcases st with ⟨V, g, s, L⟩
    simp only [accVBody, bind_assoc, pure_bind, ite_bind']
  intro st2
  rcases st2 with ⟨V, g, s, L⟩
  refine bind_congr2 (forIn_congr_body _ _ ?_) ?_
  · intro t st
    rcases st with ⟨U, g, s, f, L⟩
    simp only [accUBody, bind_assoc, pure_bind, ite_bind']
  intro st3
  rcases st3 with ⟨U, g, s, f, L⟩
  refine bind_congr2 (forIn_congr_body _ _ ?_) ?_
  · intro tk st
    rcases st with ⟨U, W, V, rv1, g, s, f, h, L, c, x, y, z, L1⟩
    unfold kBody
    refine bind_congr2 (forIn_congr_body _ _ ?_) ?_
    · intro _ st
      rcases st with ⟨U, W, V, rv1, g, s, f, h, L, c, x, y, z, L1, its, done⟩
      unfold passBody
      cases done
      · simp only [Bool.false_eq_true, if_false]
        refine bind_congr2 (forIn_congr_body _ _ ?_) ?_
        · intro tl st
          rcases st with ⟨L, L1, viaGoto, found⟩
          simp only [searchBody]
        · intro st
          rcases st with ⟨L, L1, viaGoto, found⟩
          cases viaGoto
          · simp only [Bool.not_false, if_true]
            refine bind_congr2 (forIn_congr_body _ _ ?_) ?_
            · intro i st
              rcases st with ⟨U, W, rv1, g, s, f, h, c, stop⟩
              simp only [cancelBody, bind_assoc, pure_bind, ite_bind']
            · intro st
              rcases st with ⟨U, W, rv1, g, s, f, h, c, stop⟩
              by_cases hL : L = n - tk
              · simp only [if_pos hL]
                all_goals (by_cases hz : g1 W (n - tk) < 0 <;> simp only [hz, if_true, if_false, bind_assoc, pure_bind])
              · simp only [if_neg hL]
                by_cases hi : its = 30
                · simp only [if_pos hi]
                  all_goals rfl
                · simp only [if_neg hi, bind_assoc, pure_bind]
                  refine bind_congr2 (forIn_congr_body _ _ ?_) ?_
                  · intro i1 st
                    rcases st with ⟨U, W, V, rv1, g, s, f, h, c, x, y, z⟩
                    simp only [sweepBody, bind_assoc, pure_bind, ite_bind']
                  · intro st
                    rfl
          · simp only [Bool.not_true, Bool.false_eq_true, if_false]
            by_cases hL : L = n - tk
            · simp only [if_pos hL]
              all_goals (by_cases hz : g1 W (n - tk) < 0 <;> simp only [hz, if_true, if_false, bind_assoc, pure_bind])
            · simp only [if_neg hL]
              by_cases hi : its = 30
              · simp only [if_pos hi]
                all_goals rfl
              · simp only [if_neg hi, bind_assoc, pure_bind]
                refine bind_congr2 (forIn_congr_body _ _ ?_) ?_
                · intro i1 st
                  rcases st with ⟨U, W, V, rv1, g, s, f, h, c, x, y, z⟩
                  simp only [sweepBody, bind_assoc, pure_bind, ite_bind']
                · intro st
                  rfl
      · rfl
    · intro st5
      rfl
  intro st4
  rcases st4 with ⟨U, W, V, rv1, g, s, f, h, L, c, x, y, z, L1⟩
  rfl

end Gama.Ls.Svd
