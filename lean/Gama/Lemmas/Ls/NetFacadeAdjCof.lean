/-
  Cofactors and pair statements through the façade class `Adj` (model `Gama/Model/Ls/Adj.lean`,
  `adjSolve alg p`), all four algorithms — the `Adj` counterpart of the `LocalNetwork` section of
  `Lemmas/Ls/NetFacadeCof.lean`.

  `Adj::q_xx` delegates to the solver object.  `Adj::q_bb(i,j) = Σ a_j,jn (Σ a_i,in · q0_xx(in,jn))` over
  the ORIGINAL sparse rows `= (A Q0 Aᵀ)(i,j)` for the matrix `Q0` the solver's `q0_xx` reports
  (`adj_qbb_spec`): cofactors of the adjusted observations in ORIGINAL units.  For the full solvers
  `q0_xx` reports the same matrix `Q` as `q_xx`; for the envelope (`adjSparse`) `q0_xx` reports
  ANOTHER generalised inverse `Q0 = L⁻ᵀD⁺L⁻¹` of the normal matrix, and `A Q0 Aᵀ = A Q Aᵀ`
  (`aqat_invariant`).  With the whitening `W` (`WᵀW = P`) of the homogenisation, `W (A Q Aᵀ) Wᵀ =
  (WA) Q (WA)ᵀ` is the hat matrix (the solver object's own `q_bb`, which `Adj` does not expose).

  Scalars: sections `adjFn` (`[SqrtFn K]`, square-root law as a hypothesis where needed) and `adjField`
  (`Gso.SqrtField K`, all models on `fieldScalar SqrtField.sqrt`; see `Lemmas/Ls/ComposeAdj.lean`).
-/
import Gama.Lemmas.Ls.NetFacadeCof
import Gama.Lemmas.Ls.AdjCofactor
import Gama.Lemmas.Ls.ComposeGinvUnique
import Gama.Props.C01.AdjSolvers
import Gama.Props.C01.EnvSolve
import Gama.Props.C03.Env

namespace Gama.Ls
open Gama Gama.LS Matrix

set_option linter.unusedSectionVars false
set_option linter.unusedVariables false

namespace AdjM
open Dn Gama.Ls.Env

section adjFn
variable {K : Type} [Field K] [LinearOrder K] [IsStrictOrderedRing K] [SqrtFn K]
attribute [local instance 2000] scalarOfField

/-- what a successful `Adj` (sparse branch, envelope) answer is made of: everything is the solver's on
    `{p with reg := regOf p.reg}`, except `q_bb`, computed from the solver's `q0_xx` and the original rows -/
theorem adjSparse_shape (p : Problem K) (a : Answer K) (h : adjSparse .env p = .ok a) :
    ∃ s, envSolve { p with reg := regOf p.reg } = .ok s ∧ s.xErr = none ∧
      a.x = s.x ∧ a.r = s.r ∧ a.rtr = s.rtr ∧ a.defect = s.defect ∧ a.qxx = s.qxx ∧
      a.qbb = qbb p s.q0xx := by
  unfold adjSparse at h
  simp only [] at h
  cases hs : solverOf .env { p with reg := regOf p.reg } with
  | error e => rw [hs] at h; cases h
  | ok s =>
    rw [hs] at h
    simp only at h
    cases hx : s.xErr with
    | some e => rw [hx] at h; cases h
    | none =>
      rw [hx] at h
      have ha := (Except.ok.inj h).symm
      subst ha
      exact ⟨s, hs, hx, rfl, rfl, rfl, rfl, rfl, rfl⟩

/-- **the whitening of `Adj`'s homogenisation**, with its inverse: `W = L̃ᵀP`, `L̃ W = 1`, `WᵀW = P`,
    `(A_dot, b_dot) = (W A, W b)` (the content of `adjFull_isLS`) -/
theorem homogenise_whiten (p : Problem K) (hsq : SqrtExactP p) (hdim : (dimsOf p).sum = p.m)
    (P : Matrix (Fin p.m) (Fin p.m) K) (hP : p.C * P = 1) (Ad : DMat K) (bd : Array K)
    (hh : homogenise p = .ok (Ad, bd)) :
    ∃ Lg W : Matrix (Fin p.m) (Fin p.m) K, Lg * W = 1 ∧ Wᵀ * W = P ∧ (∀ d, W *ᵥ d = 0 → d = 0) ∧
      toMatrix p.m p.n Ad = W * p.A ∧ toVec p.m bd = W *ᵥ p.b := by
  obtain ⟨Lg, hC, hLA, hLb⟩ := homogenise_spec p hsq hdim Ad bd hh
  rw [Cadj_eq_C p hdim] at hC
  have h1 : Lg * (Lgᵀ * P) = 1 := by rw [← Matrix.mul_assoc, hC, hP]
  have h2 : (Lgᵀ * P) * Lg = 1 := mul_eq_one_comm.1 h1
  refine ⟨Lg, Lgᵀ * P, h1, whiten_of_chol hC.symm h2 hP, ?_, ?_, ?_⟩
  · intro d hd
    have : Lg *ᵥ ((Lgᵀ * P) *ᵥ d) = d := by rw [mulVec_mulVec, h1, one_mulVec]
    rw [← this, hd, mulVec_zero]
  · rw [← hLA, ← Matrix.mul_assoc, h2, Matrix.one_mul]
  · rw [← hLb, mulVec_mulVec, h2, one_mulVec]

/-- the conclusion shared by all algorithms.  `W`: the whitening of the homogenisation (`WᵀW = P`,
    injective); `Q`: the matrix of all `a.qxx(i,j)`; `fbb`, `B`: the solver object's own `q_bb` — the hat
    matrix `(WA) Q (WA)ᵀ` of the homogenised system — which `Adj` does not expose; what `Adj::q_bb`
    reports is `A Q Aᵀ` with the ORIGINAL `A`.  `CofFacts` is stated for the ORIGINAL design matrix. -/
def AdjCof (p : Problem K) (P : Matrix (Fin p.m) (Fin p.m) K) (a : Answer K) : Prop :=
  ∃ (W : Matrix (Fin p.m) (Fin p.m) K) (Q : Matrix (Fin p.n) (Fin p.n) K)
    (B : Matrix (Fin p.m) (Fin p.m) K) (fbb : Nat → Nat → Except ErrKind K),
    Wᵀ * W = P ∧ (∀ d, W *ᵥ d = 0 → d = 0) ∧
    CofFacts a.qxx fbb a.defect p.A W p.S Q B ∧
    ∀ i j : Fin p.m, a.qbb (i.val + 1) (j.val + 1) = .ok ((p.A * Q * p.Aᵀ) i j)

/-- `AdjCof` written out (the form `Props/C03/AdjCofactors.lean` states) -/
theorem AdjCof.spell {p : Problem K} {P : Matrix (Fin p.m) (Fin p.m) K} {a : Answer K} (h : AdjCof p P a) :
    ∃ (W : Matrix (Fin p.m) (Fin p.m) K) (Q : Matrix (Fin p.n) (Fin p.n) K),
      Wᵀ * W = P ∧ (∀ d, W *ᵥ d = 0 → d = 0) ∧
      (∀ i j : Fin p.n, a.qxx (i.val + 1) (j.val + 1) = .ok (Q i j)) ∧
      Qᵀ = Q ∧ (∀ y, 0 ≤ y ⬝ᵥ Q *ᵥ y) ∧
      (p.Aᵀ * P * p.A) * Q * (p.Aᵀ * P * p.A) = p.Aᵀ * P * p.A ∧
      Q * (p.Aᵀ * P * p.A) * Q = Q ∧
      BelongsTo p.A p.S Q ∧
      (a.defect = 0 → Q = (p.Aᵀ * P * p.A)⁻¹) ∧
      (∀ i j : Fin p.m, a.qbb (i.val + 1) (j.val + 1) = .ok ((p.A * Q * p.Aᵀ) i j)) ∧
      (p.A * Q * p.Aᵀ)ᵀ = p.A * Q * p.Aᵀ ∧
      (W * (p.A * Q * p.Aᵀ) * Wᵀ)ᵀ = W * (p.A * Q * p.Aᵀ) * Wᵀ ∧
      (W * (p.A * Q * p.Aᵀ) * Wᵀ) * (W * (p.A * Q * p.Aᵀ) * Wᵀ) = W * (p.A * Q * p.Aᵀ) * Wᵀ ∧
      (∀ i, 0 ≤ (W * (p.A * Q * p.Aᵀ) * Wᵀ) i i ∧ (W * (p.A * Q * p.Aᵀ) * Wᵀ) i i ≤ 1) ∧
      ∑ i, (1 - (W * (p.A * Q * p.Aᵀ) * Wᵀ) i i) = (p.m : K) - p.n + a.defect ∧
      a.defect + p.A.rank = p.n := by
  obtain ⟨W, Q, B, fbb, hW, hinj, hf, hb⟩ := h
  obtain ⟨n1, n2⟩ := hf.nqn' hW
  obtain ⟨p1, p2⟩ := hf.hat_proj
  have hB : B = W * (p.A * Q * p.Aᵀ) * Wᵀ := by
    rw [hf.hat, transpose_mul]; simp only [Matrix.mul_assoc]
  have hd := hf.hat_diag
  have hr := hf.redundancy
  rw [hB] at p1 p2 hd hr
  exact ⟨W, Q, hW, hinj, hf.qxx, hf.symm, hf.psd, n1, n2, hf.belongs, hf.inverse_of_regular hW hinj, hb,
    by rw [transpose_mul, transpose_mul, transpose_transpose, hf.symm, Matrix.mul_assoc],
    p1, p2, hd, hr, hf.defect_rank⟩

/-- **cofactors through `Adj`, full solvers (gso, svd, cholesky)**, generic in the solver: if the solver's
    accessors satisfy `CofFacts` for the whitened unit-weight system it is given and its `q0_xx` reports
    the same matrix as its `q_xx`, then `Adj`'s accessors satisfy `AdjCof` for the original system -/
theorem adj_cofFacts_full (alg : Alg) (halg : alg ≠ .env) (p : Problem K) (hsq : SqrtExactP p)
    (hdim : (dimsOf p).sum = p.m) (hrows : RowsOK p)
    (P : Matrix (Fin p.m) (Fin p.m) K) (hP : p.C * P = 1)
    (hfacts : ∀ Ad bd s, homogenise p = .ok (Ad, bd) →
      solverOf alg (dotProblem p Ad bd (regOf p.reg)) = .ok s →
      (∃ Q B, CofFacts s.qxx s.qbb s.defect (dotProblem p Ad bd (regOf p.reg)).A 1
        (dotProblem p Ad bd (regOf p.reg)).S Q B) ∧
      ∀ i j : Fin p.n, s.q0xx (i.val + 1) (j.val + 1) = s.qxx (i.val + 1) (j.val + 1))
    (a : Answer K) (h : adjSolve alg p = .ok a) : AdjCof p P a := by
  have h' : adjFull alg p = .ok a := by
    cases alg with
    | env => exact absurd rfl halg
    | chol => exact h
    | gso => exact h
    | svd => exact h
  obtain ⟨Ad, bd, s, hh, hs, -, -, -, edef, eqx, eqb⟩ := adjFull_shape alg p a h'
  obtain ⟨Lg, W, h1, hW, hinj, hA, -⟩ := homogenise_whiten p hsq hdim P hP Ad bd hh
  obtain ⟨⟨Q, B, hf⟩, hq0⟩ := hfacts Ad bd s hh hs
  have e1 : (dotProblem p Ad bd (regOf p.reg)).A = W * p.A := by rw [dotProblem_A, hA]
  have e3 : (dotProblem p Ad bd (regOf p.reg)).S = p.S := regOf_toFinset p.n p.reg
  rw [e1, e3] at hf
  refine ⟨W, Q, B, s.qbb, hW, hinj, ?_, ?_⟩
  · rw [eqx, edef]; exact hf.whiten h1
  · intro i j
    rw [eqb]
    exact adj_qbb_spec p hrows s.q0xx Q (fun i j => (hq0 i j).trans (hf.qxx i j)) i j

/-- **cofactors through `Adj` + cholesky** (hypotheses of `C01_adj_cholesky`) -/
theorem adj_cofFacts_chol (p : Problem K) (hsq : SqrtExactP p)
    (hdim : (dimsOf p).sum = p.m) (hrows : RowsOK p)
    (P : Matrix (Fin p.m) (Fin p.m) K) (hP : p.C * P = 1)
    (hchol : ∀ Ad bd, homogenise p = .ok (Ad, bd) →
      Chol.UnambiguousF (cholFact (dotProblem p Ad bd (regOf p.reg))) ∧
      Chol.GsSqrtExact (dotProblem p Ad bd (regOf p.reg)) ∧
      ∀ S, Chol.regList p.n (regOf p.reg) = some S → S.Nodup)
    (a : Answer K) (h : adjSolve .chol p = .ok a) : AdjCof p P a := by
  refine adj_cofFacts_full .chol (by decide) p hsq hdim hrows P hP ?_ a h
  intro Ad bd s hh hs
  obtain ⟨c1, c2, c3⟩ := hchol Ad bd hh
  refine ⟨cofFacts_chol (dotProblem p Ad bd (regOf p.reg)) c1 c2 c3 s hs, ?_⟩
  obtain ⟨Q, -, -, -, -, -, q6, -⟩ :=
    Props.C03.C03_cholesky_cofactors (dotProblem p Ad bd (regOf p.reg)) c1 c2 c3 s hs
  intro i j
  exact (q6 i j).2.trans (q6 i j).1.symm

/-- **cofactors through `Adj` + envelope** (sparse branch; hypotheses of `C01_adj_envelope`): the solver's
    `q0_xx` reports another generalised inverse `Q0` of `AᵀPA`, and `A Q0 Aᵀ = A Q Aᵀ` -/
theorem adj_cofFacts_env (hsq : IsSqrt (SqrtFn.sq : K → K)) (p : Problem K) (hrows : RowsOK p)
    (hin : Env.InputOK { p with reg := regOf p.reg }) (hreg : Env.RegListOK { p with reg := regOf p.reg })
    (hU : Env.SolveUnambiguous { p with reg := regOf p.reg })
    (P : Matrix (Fin p.m) (Fin p.m) K) (hP : p.C * P = 1)
    (a : Answer K) (h : adjSolve .env p = .ok a) : AdjCof p P a := by
  obtain ⟨s, hs, hx, -, -, -, edef, eqx, eqb⟩ := adjSparse_shape p a h
  obtain ⟨hh, hhom, -, -, -, -, hq0, -, -, -⟩ := envSolve_shape { p with reg := regOf p.reg } s hs
  obtain ⟨hO, W, hW, hinj, hAt, -, -⟩ := Env.solve_setup hsq { p with reg := regOf p.reg } hin P hP hh hhom
  obtain ⟨Q, B, hf⟩ := cofFacts_env hsq { p with reg := regOf p.reg } hin hreg hU P hP s hs hx hh hhom W hW hAt
  have hS : (Problem.S { p with reg := regOf p.reg }) = p.S := regOf_toFinset p.n p.reg
  have hf' : CofFacts s.qxx s.qbb s.defect p.A W p.S Q B := hS ▸ hf
  obtain ⟨Q0, q1, -, q3, -⟩ := Props.C03.C03_envelope_q0xx (SqrtFn.sq : K → K) (Env.sqrtEps : K) (Env.sqrtEps : K)
    p.m p.n p.dense p.rhs hh.At hh.bt (regOf p.reg) _ hO (hU hh hhom)
  have hAt' : toMatrix p.m p.n hh.At = W * p.A := hAt
  have hN : Env.NO p.m p.n hh.At = p.Aᵀ * P * p.A := by
    rw [Env.NO, hAt', transpose_mul, ← hW]; simp only [Matrix.mul_assoc]
  rw [hN] at q3
  have hsym : Pᵀ = P := hW ▸ gram_symm W
  have hpd : ∀ d, d ≠ 0 → 0 < d ⬝ᵥ P *ᵥ d := hW ▸ gram_pd W hinj
  have hinv : p.A * Q0 * p.Aᵀ = p.A * Q * p.Aᵀ := aqat_invariant hsym hpd q3 (hf'.nqn' hW).1
  refine ⟨W, Q, B, s.qbb, hW, hinj, by rw [eqx, edef]; exact hf', ?_⟩
  intro i j
  rw [eqb, ← hinv]
  exact adj_qbb_spec p hrows s.q0xx Q0 (fun i j => by rw [hq0]; exact q1 i j) i j

end adjFn

section adjField
variable {K : Type} [Field K] [LinearOrder K] [IsStrictOrderedRing K] [Gso.SqrtField K]
attribute [local instance] sqrtFnOfSqrtField
attribute [local instance 2000] scalarOfField

/-- the property's premise "rank numerically unambiguous" (and the static conditions on the regularisation
    list), per algorithm, asked of the system the solver object is actually given (`Adj` passes
    `regOf p.reg`) — exactly the hypotheses of `C01_adj_envelope`, `C01_adj_cholesky`, `C01_adj_gso`,
    `C01_adj_svd_cert` -/
def SolverHyp (alg : Alg) (p : Problem K) : Prop :=
  match alg with
  | .env => Env.InputOK { p with reg := regOf p.reg } ∧ Env.RegListOK { p with reg := regOf p.reg } ∧
      Env.SolveUnambiguous { p with reg := regOf p.reg }
  | .chol => ∀ Ad bd, homogenise p = .ok (Ad, bd) →
      Chol.UnambiguousF (cholFact (dotProblem p Ad bd (regOf p.reg))) ∧
      Chol.GsSqrtExact (dotProblem p Ad bd (regOf p.reg)) ∧
      ∀ S, Chol.regList p.n (regOf p.reg) = some S → S.Nodup
  | .gso => ∀ Ad bd, homogenise p = .ok (Ad, bd) → Gso.Unambiguous (dotProblem p Ad bd (regOf p.reg))
  | .svd => Svd.RegOK p.reg ∧ ∀ Ad bd d, homogenise p = .ok (Ad, bd) →
      Svd.decompose p.m p.n (dotProblem p Ad bd (regOf p.reg)).dense = .ok d →
      Svd.SvdCert (Gso.SqrtField.sqrt : K → K) Svd.wTol p.m p.n (dotProblem p Ad bd (regOf p.reg)).dense d

/-- svd as it runs: `q0_xx` is `q_xx` -/
theorem svd_q0xx_eq_qxx (q : Problem K) (hreg : Svd.RegOK q.reg)
    (hc : ∀ d, Svd.decompose q.m q.n q.dense = .ok d →
      Svd.SvdCert (Gso.SqrtField.sqrt : K → K) Svd.wTol q.m q.n q.dense d)
    (s : Answer K) (hs : svdSolve q = .ok s) (i j : Fin q.n) :
    s.q0xx (i.val + 1) (j.val + 1) = s.qxx (i.val + 1) (j.val + 1) := by
  unfold svdSolve svdSolveWith at hs
  cases hd : Svd.decompose q.m q.n q.dense with
  | error e => rw [hd] at hs; cases hs
  | ok d =>
    rw [hd] at hs
    have hs' : svdSolveCert true Svd.wTol d q = .ok s := hs
    obtain ⟨Q, B, X, s1, s2, -⟩ :=
      Props.C03.C03_svd_cert sqrtLaw_of_sqrtField true Svd.wTol_nonneg q d (hc d hd) hreg s hs'
    exact (s2 i j).trans (s1 i j).symm

/-- **cofactors through `Adj`, all four algorithms** -/
theorem adj_cofFacts (alg : Alg) (p : Problem K) (hdim : (dimsOf p).sum = p.m) (hrows : RowsOK p)
    (P : Matrix (Fin p.m) (Fin p.m) K) (hP : p.C * P = 1)
    (hyp : SolverHyp alg p) (a : Answer K) (h : adjSolve alg p = .ok a) : AdjCof p P a := by
  have hsq : IsSqrt (SqrtFn.sq : K → K) := isSqrt_of_sqrtField
  cases alg with
  | env => exact adj_cofFacts_env hsq p hrows hyp.1 hyp.2.1 hyp.2.2 P hP a h
  | chol => exact adj_cofFacts_chol p (sqrtExactP_of_sqrtField p) hdim hrows P hP hyp a h
  | gso =>
    refine adj_cofFacts_full .gso (by decide) p (sqrtExactP_of_sqrtField p) hdim hrows P hP ?_ a h
    intro Ad bd s hh hs
    exact ⟨cofFacts_gso (dotProblem p Ad bd (regOf p.reg)) (hyp Ad bd hh) s hs,
      (Props.C03.C03_gso_entries (dotProblem p Ad bd (regOf p.reg)) (hyp Ad bd hh) s hs).2.1⟩
  | svd =>
    refine adj_cofFacts_full .svd (by decide) p (sqrtExactP_of_sqrtField p) hdim hrows P hP ?_ a h
    intro Ad bd s hh hs
    exact ⟨cofFacts_svd (dotProblem p Ad bd (regOf p.reg)) (Svd.regOK_regOf hyp.1)
        (fun d hd => hyp.2 Ad bd d hh hd) s hs,
      svd_q0xx_eq_qxx (dotProblem p Ad bd (regOf p.reg)) (Svd.regOK_regOf hyp.1)
        (fun d hd => hyp.2 Ad bd d hh hd) s hs⟩

/-- **C01 through `Adj`, all four algorithms** (`C01_adj_envelope`, `C01_adj_cholesky`, `C01_adj_gso`,
    `C01_adj_svd_cert` in one statement) -/
theorem adj_isLS (alg : Alg) (p : Problem K) (hdim : (dimsOf p).sum = p.m) (hrows : RowsOK p)
    (P : Matrix (Fin p.m) (Fin p.m) K) (hP : p.C * P = 1)
    (hyp : SolverHyp alg p) (a : Answer K) (h : adjSolve alg p = .ok a) :
    IsLSSolution p.A p.b P p.S (toVec p.n a.x) (toVec p.m a.r) a.rtr := by
  cases alg with
  | env => exact Props.C01.C01_adj_envelope isSqrt_of_sqrtField p hyp.1 hyp.2.1 hyp.2.2 P hP a h
  | chol => exact Props.C01.C01_adj_cholesky p (sqrtExactP_of_sqrtField p) hdim hrows P hP hyp a h
  | gso => exact Props.C01.C01_adj_gso p hdim hrows P hP hyp a h
  | svd => exact Props.C01.C01_adj_svd_cert p hdim hrows P hP hyp.1 hyp.2 a h

/-- **two algorithms through `Adj`, same problem**: when the regularisation resolves the defect, the two
    answers coincide in unknowns, residuals, sum of squares, defect and ALL cofactor entries -/
theorem adj_same (alg alg' : Alg) (p : Problem K) (hdim : (dimsOf p).sum = p.m) (hrows : RowsOK p)
    (P : Matrix (Fin p.m) (Fin p.m) K) (hP : p.C * P = 1)
    (hyp : SolverHyp alg p) (hyp' : SolverHyp alg' p) (hS : Resolves p.A p.S)
    (a a' : Answer K) (h : adjSolve alg p = .ok a) (h' : adjSolve alg' p = .ok a') :
    toVec p.n a.x = toVec p.n a'.x ∧ toVec p.m a.r = toVec p.m a'.r ∧ a.rtr = a'.rtr ∧
    a.defect = a'.defect ∧
    (∀ i j : Fin p.n, a.qxx (i.val + 1) (j.val + 1) = a'.qxx (i.val + 1) (j.val + 1)) ∧
    (∀ i j : Fin p.m, a.qbb (i.val + 1) (j.val + 1) = a'.qbb (i.val + 1) (j.val + 1)) := by
  have l1 := adj_isLS alg p hdim hrows P hP hyp a h
  have l2 := adj_isLS alg' p hdim hrows P hP hyp' a' h'
  obtain ⟨W, Q, B, fbb, hW, hinj, hf, hb⟩ := adj_cofFacts alg p hdim hrows P hP hyp a h
  obtain ⟨W', Q', B', fbb', hW', hinj', hf', hb'⟩ := adj_cofFacts alg' p hdim hrows P hP hyp' a' h'
  have hsym : Pᵀ = P := hW ▸ gram_symm W
  have hpd : ∀ d, d ≠ 0 → 0 < d ⬝ᵥ P *ᵥ d := hW ▸ gram_pd W hinj
  obtain ⟨u1, u2, u3⟩ := l1.unique l2 hpd hS
  obtain ⟨n1, n2⟩ := hf.nqn' hW
  obtain ⟨n1', n2'⟩ := hf'.nqn' hW'
  have hQ : Q = Q' := ginv_belongs_unique hsym hpd hS n1 n2 hf.symm hf.belongs n1' n2' hf'.symm hf'.belongs
  have d1 := hf.defect_rank
  have d2 := hf'.defect_rank
  refine ⟨u1, u2, u3, by omega, fun i j => ?_, fun i j => ?_⟩
  · rw [hf.qxx i j, hf'.qxx i j, hQ]
  · rw [hb i j, hb' i j, hQ]

end adjField

end AdjM

/-! ### instances for the non-vacuity examples of `Props/C03/AdjCofactors.lean`, `Props/C02FacadesAdj.lean`

  `Ex.pCS K` (`Lemmas/Ls/ComposeAdjExample.lean`): A = [[4,4],[5,5],[4,4]] (defect 1, kernel (1,−1)),
  C = diag([[4,2],[2,10]], 4), S = {1}; `Adj` hands the full solvers `A_dot = [[2,2],[1,1],[2,2]]`.
  Over ℚ (`Ex.sqQ`, kernel evaluation) BOTH cholesky and the envelope meet their hypotheses on it, and
  both report `Q = [[0,0],[0,1/9]]`, `q_bb = A Q Aᵀ = (1/9)(4,5,4)ᵀ(4,5,4)`; the envelope's `q0_xx` is the
  DIFFERENT g-inverse `[[1/9,0],[0,0]]`. -/
namespace Ex
open Gama.Ls.AdjM Gama.Ls.Env Dn

/-- every cofactor entry `Adj` reports for a problem with 3 observations and 2 unknowns:
    `q_xx` (4 entries), then `q_bb` (9 entries), row by row -/
def adjCofTable (a : Answer ℚ) : List (Option ℚ) :=
  [a.qxx 1 1, a.qxx 1 2, a.qxx 2 1, a.qxx 2 2,
   a.qbb 1 1, a.qbb 1 2, a.qbb 1 3, a.qbb 2 1, a.qbb 2 2, a.qbb 2 3, a.qbb 3 1, a.qbb 3 2, a.qbb 3 3].map
    Except.toOption

/-- what both algorithms report on `pCS ℚ` -/
def adjCofTableQ : List (Option ℚ) :=
  [some 0, some 0, some 0, some (1/9),
   some (16/9), some (20/9), some (16/9), some (20/9), some (25/9), some (20/9), some (16/9), some (20/9), some (16/9)]

section generic
variable {K : Type} [Field K] [LinearOrder K] [IsStrictOrderedRing K] [SqrtFn K]
attribute [local instance 2000] scalarOfField

theorem pCS_denseK : (pCS K).dense = #[#[4, 4], #[5, 5], #[4, 4]] := by
  simp [Problem.dense, pCS]
  refine ⟨?_, ?_, ?_⟩ <;> rfl

/-- `(pCS K).A` at the literal index types -/
def pCSA3 : Matrix (Fin 3) (Fin 2) K := (pCS K).A

theorem pCSA3_row0 (j : Fin 2) : (pCSA3 : Matrix (Fin 3) (Fin 2) K) 0 j = 4 := by
  show (((pCS K).dense.getD (0 : Fin 3).val #[]).getD j.val 0 : K) = 4
  rw [pCS_denseK]
  fin_cases j <;> simp

/-- `S = {1}` resolves the defect of `pCS`: a kernel vector of `A` vanishing at unknown 1 is 0 -/
theorem pCS_resolvesK : Resolves (pCS K).A (pCS K).S := by
  show ∀ g : Fin 2 → K, (pCSA3 : Matrix (Fin 3) (Fin 2) K) *ᵥ g = 0 →
    (∀ i ∈ Reg.toFinset 2 (.subset [1]), g i = 0) → g = 0
  intro g hg hS
  have h0 : g 0 = 0 := hS 0 (by decide)
  have h1 := congrFun hg 0
  simp only [Matrix.mulVec, dotProduct, Fin.sum_univ_two, pCSA3_row0, h0, mul_zero, zero_add,
    Pi.zero_apply] at h1
  have h4 : (4 : K) ≠ 0 := by norm_num
  have h2 : g 1 = 0 := (mul_eq_zero.1 h1).resolve_left h4
  ext i
  fin_cases i
  · exact h0
  · exact h2

end generic

section rat
attribute [local instance 2000] scalarOfField

theorem pCSQ_env_input : Env.InputOK { pCS ℚ with reg := regOf (pCS ℚ).reg } := by
  refine ⟨?_, by decide, ?_⟩
  · intro b hb
    have : b = ⟨2, 1, #[4, 2, 10]⟩ ∨ b = ⟨1, 0, #[4]⟩ := by simpa [pCS] using hb
    rcases this with rfl | rfl <;> exact ⟨by decide, by decide⟩
  · intro i hi
    have : i = 0 ∨ i = 1 ∨ i = 2 := by have : i < 3 := hi; omega
    rcases this with rfl | rfl | rfl <;> simp [pCS, Array.getD]

theorem pCSQ_env_reg : Env.RegListOK { pCS ℚ with reg := regOf (pCS ℚ).reg } := by
  intro l hl
  have : l = [1] := by
    have h : Reg.subset [1] = Reg.subset l := hl
    injection h with h'; exact h'.symm
  subst this
  exact ⟨by decide, by decide⟩

theorem pCSQ_env_unamb : Env.SolveUnambiguous { pCS ℚ with reg := regOf (pCS ℚ).reg } ∧
    Env.SolveGSUnambiguous { pCS ℚ with reg := regOf (pCS ℚ).reg } :=
  unamb_of_chk _ (by decide +kernel)

theorem pCSQ_resolves : Resolves (pCS ℚ).A (pCS ℚ).S := pCS_resolvesK

/-- `Adj` + cholesky on `pCS ℚ`: the whole answer, all cofactor entries included -/
theorem pCSQ_adj_chol_cof : ∃ a, adjSolve .chol (pCS ℚ) = .ok a ∧ a.defect = 1 ∧ a.x = #[0, 1/2]
    ∧ a.r = #[1, 1/2, -1] ∧ a.rtr = 1/2 ∧ adjCofTable a = adjCofTableQ := by
  have h : (adjSolve .chol (pCS ℚ)).toOption.map (fun a => (a.defect, a.x, a.r, a.rtr))
      = some (1, #[0, 1/2], #[1, 1/2, -1], 1/2) := by decide +kernel
  have ht : (adjSolve .chol (pCS ℚ)).toOption.map adjCofTable = some adjCofTableQ := by decide +kernel
  obtain ⟨a, h1, h2⟩ := ok_of_toOption h
  obtain ⟨a', h1', h2'⟩ := ok_of_toOption ht
  have e : a' = a := Except.ok.inj (h1'.symm.trans h1)
  subst e
  simp only [Prod.mk.injEq] at h2
  exact ⟨a', h1, h2.1, h2.2.1, h2.2.2.1, h2.2.2.2, h2'⟩

/-- `Adj` + envelope on the same problem: the SAME answer -/
theorem pCSQ_adj_env_cof : ∃ a, adjSolve .env (pCS ℚ) = .ok a ∧ a.defect = 1 ∧ a.x = #[0, 1/2]
    ∧ a.r = #[1, 1/2, -1] ∧ a.rtr = 1/2 ∧ adjCofTable a = adjCofTableQ := by
  have h : (adjSolve .env (pCS ℚ)).toOption.map (fun a => (a.defect, a.x, a.r, a.rtr))
      = some (1, #[0, 1/2], #[1, 1/2, -1], 1/2) := by decide +kernel
  have ht : (adjSolve .env (pCS ℚ)).toOption.map adjCofTable = some adjCofTableQ := by decide +kernel
  obtain ⟨a, h1, h2⟩ := ok_of_toOption h
  obtain ⟨a', h1', h2'⟩ := ok_of_toOption ht
  have e : a' = a := Except.ok.inj (h1'.symm.trans h1)
  subst e
  simp only [Prod.mk.injEq] at h2
  exact ⟨a', h1, h2.1, h2.2.1, h2.2.2.1, h2.2.2.2, h2'⟩

/-- the envelope solver object inside `Adj`: its `q0_xx` is NOT its `q_xx` (another g-inverse of `AᵀPA`) -/
theorem pCSQ_env_q0 : ∃ s, envSolve { pCS ℚ with reg := regOf (pCS ℚ).reg } = .ok s ∧
    [s.q0xx 1 1, s.q0xx 1 2, s.q0xx 2 1, s.q0xx 2 2].map Except.toOption = [some (1/9), some 0, some 0, some 0] ∧
    [s.qxx 1 1, s.qxx 1 2, s.qxx 2 1, s.qxx 2 2].map Except.toOption = [some 0, some 0, some 0, some (1/9)] := by
  have h : (envSolve { pCS ℚ with reg := regOf (pCS ℚ).reg }).toOption.map (fun s =>
      ([s.q0xx 1 1, s.q0xx 1 2, s.q0xx 2 1, s.q0xx 2 2].map Except.toOption,
       [s.qxx 1 1, s.qxx 1 2, s.qxx 2 1, s.qxx 2 2].map Except.toOption))
      = some ([some (1/9), some 0, some 0, some 0], [some 0, some 0, some 0, some (1/9)]) := by decide +kernel
  obtain ⟨s, h1, h2⟩ := ok_of_toOption h
  simp only [Prod.mk.injEq] at h2
  exact ⟨s, h1, h2.1, h2.2⟩

/-- `Adj` + envelope on `pEnvCorr` (`A = [[1,1],[1,1],[2,2]]`, `C = diag([[4,2],[2,10]], 1/4)`, `S = {1}`):
    `Q = [[0,0],[0,18/293]]`, `q_bb = A Q Aᵀ = (18/293)(1,1,2)ᵀ(1,1,2)` -/
theorem pEnvCorr_adj_cof : ∃ a, adjSolve .env pEnvCorr = .ok a ∧ a.defect = 1 ∧ adjCofTable a =
    [some 0, some 0, some 0, some (18/293),
     some (18/293), some (18/293), some (36/293), some (18/293), some (18/293), some (36/293),
     some (36/293), some (36/293), some (72/293)] := by
  have h : (adjSolve .env pEnvCorr).toOption.map (fun a => (a.defect, adjCofTable a))
      = some (1, [some 0, some 0, some 0, some (18/293),
     some (18/293), some (18/293), some (36/293), some (18/293), some (18/293), some (36/293),
     some (36/293), some (36/293), some (72/293)]) := by decide +kernel
  obtain ⟨a, h1, h2⟩ := ok_of_toOption h
  simp only [Prod.mk.injEq] at h2
  exact ⟨a, h1, h2.1, h2.2⟩

end rat

section real
attribute [local instance] sqrtFnOfSqrtField
attribute [local instance 2000] scalarOfField

theorem pCS_resolves : Resolves (pCS ℝ).A (pCS ℝ).S := pCS_resolvesK

/-- the gso premise of `AdjM.SolverHyp` on `pCS ℝ` -/
theorem pCS_solverHyp_gso : AdjM.SolverHyp .gso (pCS ℝ) := pCS_gso_unambiguous

end real

end Ex
end Gama.Ls
