/-
  One implicit-shift QR sweep of `SVD::svd()` — helper lemmas for `SvdDecompSweep.lean`:

    * `sw_rot_cols_loop`  the inner loop `for j: (X[j][p], X[j][q]) := …` is `X := X * Grot p q c s`;
    * `sw_toM`, `sw_rotR`, `sw_rotL`  matrices given by 1-based entry functions `Nat → Nat → K`, and the
      entrywise effect of a right / (transposed) left plane rotation of neighbouring columns / rows;
    * `sw_Fact`  the factorisation `A = U M Vᵀ`, `VᵀV = 1`, `UᵀU + ZᵀZ = 1`, `Z M = 0` and its
      preservation by a pair of rotations (`sw_Fact.step`);
    * `sw_Mf`  the entrywise description of the true middle factor `M` at the top of iteration `i1`
      (final `W`, `rv1` above, the pending entries `x`, `f`, `c·rv1[i1+1]`, bulge `s·rv1[i1+1]`), and
      `sw_Mf_step_*`: one iteration maps `sw_Mf … i1` to `sw_Mf … (i1+1)`.
-/
import Gama.Lemmas.Ls.SvdDecompSpec
import Mathlib.Tactic.LinearCombination

namespace Gama.Ls.Svd
open Matrix Finset Gama.LS Gama.Ls

set_option linter.unusedSectionVars false
set_option linter.unusedVariables false
set_option linter.unusedSimpArgs false
set_option linter.unusedTactic false
set_option linter.unreachableTactic false

/-- decide nested `if`s on index conditions, outermost first -/
macro "sw_ifs_omega" : tactic => `(tactic| repeat (first | rw [if_pos (by omega)] | rw [if_neg (by omega)]))

section loop
variable {K : Type} [Field K] [LinearOrder K] [IsStrictOrderedRing K] (sq : K → K)

local notation "𝕊" => (Gama.LS.fieldScalar sq)

/-! ### the inner loop: a plane rotation of two columns -/

/-- one step (row `j`) of `for j: (X[j][p], X[j][q]) := (X[j][p]·c + X[j][q]·s, −X[j][p]·s + X[j][q]·c)` -/
def sw_rotF (p q : Nat) (c s : K) (j : Nat) (X : DMat K) : DMat K :=
  ms (ms X j p (@mg K 𝕊 X j p * c + @mg K 𝕊 X j q * s)) j q (-(@mg K 𝕊 X j p) * s + @mg K 𝕊 X j q * c)

/-- entrywise closed form of the column-rotation loop -/
theorem sw_rot_cols_entries (rows cols p q : Nat) (c s : K) (X : DMat K) (hX : MWF rows cols X)
    (hp : 1 ≤ p) (hp' : p ≤ cols) (hq : 1 ≤ q) (hq' : q ≤ cols) (hpq : p ≠ q) :
    MWF rows cols (rfold (sw_rotF sq p q c s) 1 (rows + 1 - 1) X) ∧
    ∀ a b, @mg K 𝕊 (rfold (sw_rotF sq p q c s) 1 (rows + 1 - 1) X) a b =
      if 1 ≤ a ∧ a < rows + 1 then
        (if b = p then @mg K 𝕊 X a p * c + @mg K 𝕊 X a q * s
         else if b = q then -(@mg K 𝕊 X a p) * s + @mg K 𝕊 X a q * c else @mg K 𝕊 X a b)
      else @mg K 𝕊 X a b := by
  refine rfold_range_inv (sw_rotF sq p q c s)
    (fun i X' => MWF rows cols X' ∧ ∀ a b, @mg K 𝕊 X' a b =
      if 1 ≤ a ∧ a < i then
        (if b = p then @mg K 𝕊 X a p * c + @mg K 𝕊 X a q * s
         else if b = q then -(@mg K 𝕊 X a p) * s + @mg K 𝕊 X a q * c else @mg K 𝕊 X a b)
      else @mg K 𝕊 X a b) (a := 1) (b := rows + 1) (by omega) X ⟨hX, fun a b => ?_⟩ ?_
  · rw [if_neg (by omega)]
  · rintro i X' hi1 hi2 ⟨hw, he⟩
    have hw1 : MWF rows cols (ms X' i p (@mg K 𝕊 X' i p * c + @mg K 𝕊 X' i q * s)) := @MWF.ms K 𝕊 _ _ _ hw _ _ _
    refine ⟨@MWF.ms K 𝕊 _ _ _ hw1 _ _ _, fun a b => ?_⟩
    unfold sw_rotF
    rw [@mg_ms_in K 𝕊 _ _ _ hw1 _ _ hi1 (by omega) hq hq', @mg_ms_in K 𝕊 _ _ _ hw _ _ hi1 (by omega) hp hp']
    have e1 : @mg K 𝕊 X' i p = @mg K 𝕊 X i p := by rw [he, if_neg (by omega)]
    have e2 : @mg K 𝕊 X' i q = @mg K 𝕊 X i q := by rw [he, if_neg (by omega)]
    rw [e1, e2, he a b]
    by_cases hai : a = i
    · subst hai
      by_cases hbq : b = q
      · subst hbq; sw_ifs_omega
      · by_cases hbp : b = p
        · subst hbp; sw_ifs_omega
        · sw_ifs_omega
    · by_cases hlt : 1 ≤ a ∧ a < i
      · sw_ifs_omega
        rw [if_pos (show 1 ≤ a ∧ a < i + 1 by omega)]
      · sw_ifs_omega

/-- **the column-rotation loop** is a right multiplication by a plane rotation -/
theorem sw_rot_cols_loop (rows cols p q : Nat) (c s : K) (X : DMat K) (hX : MWF rows cols X)
    (P Q : Fin cols) (hP : P.val + 1 = p) (hQ : Q.val + 1 = q) (hpq : p ≠ q) :
    MWF rows cols (rfold (sw_rotF sq p q c s) 1 (rows + 1 - 1) X) ∧
    toMatrix rows cols (rfold (sw_rotF sq p q c s) 1 (rows + 1 - 1) X) =
      toMatrix rows cols X * Grot P Q c s := by
  obtain ⟨hw, he⟩ := sw_rot_cols_entries sq rows cols p q c s X hX (by omega) (by have := P.2; omega)
    (by omega) (by have := Q.2; omega) hpq
  refine ⟨hw, ?_⟩
  ext a b
  have hne : P ≠ Q := by
    intro e; rw [e] at hP; omega
  rw [mul_Grot_apply _ hne, toMatrix_mg sq, he, if_pos ⟨by omega, by have := a.2; omega⟩]
  simp only [toMatrix_mg sq]
  rw [hP, hQ]
  have e1 : (b = P) = (b.val + 1 = p) := propext ⟨fun e => by rw [e]; exact hP, fun e => Fin.ext (by omega)⟩
  have e2 : (b = Q) = (b.val + 1 = q) := propext ⟨fun e => by rw [e]; exact hQ, fun e => Fin.ext (by omega)⟩
  simp only [e1, e2]
end loop

section mat
variable {K : Type} [Field K]

def sw_toM (n : Nat) (M : Nat → Nat → K) : Matrix (Fin n) (Fin n) K := fun r c => M (r.val + 1) (c.val + 1)

def sw_rotR (i1 : Nat) (c s : K) (M : Nat → Nat → K) (r col : Nat) : K :=
  if col = i1 then M r i1 * c + M r (i1 + 1) * s
  else if col = i1 + 1 then -(M r i1) * s + M r (i1 + 1) * c else M r col

/-- left rotation (transposed) of rows `i1`, `i1+1` -/
def sw_rotL (i1 : Nat) (c s : K) (M : Nat → Nat → K) (r col : Nat) : K :=
  if r = i1 then c * M i1 col + s * M (i1 + 1) col
  else if r = i1 + 1 then -s * M i1 col + c * M (i1 + 1) col else M r col

theorem sw_toM_congr (n : Nat) (M M' : Nat → Nat → K) (h : ∀ r col, 1 ≤ r → 1 ≤ col → M r col = M' r col) :
    sw_toM n M = sw_toM n M' := by
  ext a b; exact h _ _ (by omega) (by omega)

theorem sw_toM_mul_Grot (n i1 : Nat) (M : Nat → Nat → K) (c s : K) (P Q : Fin n) (hP : P.val + 1 = i1)
    (hQ : Q.val + 1 = i1 + 1) : sw_toM n M * Grot P Q c s = sw_toM n (sw_rotR i1 c s M) := by
  have hne : P ≠ Q := by intro e; rw [e] at hP; omega
  ext a b
  rw [mul_Grot_apply _ hne]
  unfold sw_toM sw_rotR
  rw [hP, hQ]
  have e1 : (b = P) = (b.val + 1 = i1) := propext ⟨fun e => by rw [e]; exact hP, fun e => Fin.ext (by omega)⟩
  have e2 : (b = Q) = (b.val + 1 = i1 + 1) := propext ⟨fun e => by rw [e]; exact hQ, fun e => Fin.ext (by omega)⟩
  simp only [e1, e2]

theorem sw_Grot_transpose_mul_toM (n i1 : Nat) (M : Nat → Nat → K) (c s : K) (P Q : Fin n) (hP : P.val + 1 = i1)
    (hQ : Q.val + 1 = i1 + 1) : (Grot P Q c s)ᵀ * sw_toM n M = sw_toM n (sw_rotL i1 c s M) := by
  have hne : P ≠ Q := by intro e; rw [e] at hP; omega
  ext a b
  rw [Grot_transpose_mul_apply _ hne]
  unfold sw_toM sw_rotL
  rw [hP, hQ]
  have e1 : (a = P) = (a.val + 1 = i1) := propext ⟨fun e => by rw [e]; exact hP, fun e => Fin.ext (by omega)⟩
  have e2 : (a = Q) = (a.val + 1 = i1 + 1) := propext ⟨fun e => by rw [e]; exact hQ, fun e => Fin.ext (by omega)⟩
  simp only [e1, e2]

/-- the factorisation carried through the sweep (`M` the true middle factor, `Z` ghost) -/
structure sw_Fact {m n : Nat} (A U : Matrix (Fin m) (Fin n) K) (M V : Matrix (Fin n) (Fin n) K) : Prop where
  fact : A = U * M * Vᵀ
  vtv : Vᵀ * V = 1
  utu : ∃ Z : Matrix (Fin n) (Fin n) K, Uᵀ * U + Zᵀ * Z = 1 ∧ Z * M = 0

/-- a right rotation `H` followed by a left rotation `G` -/
theorem sw_Fact.step {m n : Nat} {A U : Matrix (Fin m) (Fin n) K} {M V : Matrix (Fin n) (Fin n) K}
    (h : sw_Fact A U M V) (H G : Matrix (Fin n) (Fin n) K) (hH : H * Hᵀ = 1) (hH' : Hᵀ * H = 1)
    (hG : G * Gᵀ = 1) (hG' : Gᵀ * G = 1) : sw_Fact A (U * G) (Gᵀ * (M * H)) (V * H) := by
  obtain ⟨hf, hv, Z, hz1, hz2⟩ := h
  refine ⟨?_, ?_, Z * G, ?_, ?_⟩
  · calc A = U * M * Vᵀ := hf
      _ = U * (G * Gᵀ) * M * (H * Hᵀ) * Vᵀ := by rw [hG, hH, Matrix.mul_one, Matrix.mul_one]
      _ = U * G * (Gᵀ * (M * H)) * (V * H)ᵀ := by simp only [Matrix.transpose_mul, Matrix.mul_assoc]
  · calc (V * H)ᵀ * (V * H) = Hᵀ * (Vᵀ * V) * H := by simp only [Matrix.transpose_mul, Matrix.mul_assoc]
      _ = 1 := by rw [hv, Matrix.mul_one, hH']
  · calc (U * G)ᵀ * (U * G) + (Z * G)ᵀ * (Z * G) = Gᵀ * (Uᵀ * U + Zᵀ * Z) * G := by
          simp only [Matrix.transpose_mul, Matrix.mul_assoc, Matrix.mul_add, Matrix.add_mul]
      _ = 1 := by rw [hz1, Matrix.mul_one, hG']
  · calc Z * G * (Gᵀ * (M * H)) = Z * (G * Gᵀ) * M * H := by simp only [Matrix.mul_assoc]
      _ = 0 := by rw [hG, Matrix.mul_one, hz2, Matrix.zero_mul]
end mat

section ghost
variable {K : Type} [Field K]

/-- the ghost matrix at the top of iteration `i1` (1-based entries) -/
def sw_Mf (L i1 : Nat) (w e : Nat → K) (c s f x : K) (r col : Nat) : K :=
  if r = col then (if r = i1 then x else w r)
  else if r + 1 = col then
    (if col = L then 0 else if col = i1 then f else if col = i1 + 1 then c * e col else e col)
  else if r + 2 = col then (if col = i1 + 1 ∧ L < i1 then s * e col else 0)
  else 0

def sw_upd (w : Nat → K) (i : Nat) (v : K) (j : Nat) : K := if j = i then v else w j


/-- the new ghost matrix, as produced by one iteration -/
abbrev sw_Mf' (L i1 : Nat) (w e : Nat → K) (c s x c₁ s₁ z c₂ s₂ z' : K) : Nat → Nat → K :=
  sw_Mf L (i1 + 1) (sw_upd w i1 z') (sw_upd e i1 z) c₂ s₂
    (c₂ * (-x * s₁ + c * e (i1 + 1) * c₁) + s₂ * (w (i1 + 1) * c₁))
    (-s₂ * (-x * s₁ + c * e (i1 + 1) * c₁) + c₂ * (w (i1 + 1) * c₁))

theorem sw_Mf_step_far (L i1 : Nat) (hL1 : 1 ≤ L) (hL : L ≤ i1) (w e : Nat → K) (c s f x c₁ s₁ z c₂ s₂ z' : K)
    (r col : Nat) (hr : 1 ≤ r) (hc : col ≠ i1 ∧ col ≠ i1 + 1 ∧ col ≠ i1 + 2) :
    sw_rotL i1 c₂ s₂ (sw_rotR i1 c₁ s₁ (sw_Mf L i1 w e c s f x)) r col
      = sw_Mf' L i1 w e c s x c₁ s₁ z c₂ s₂ z' r col := by
  by_cases hcL : col = L
  all_goals by_cases hc3 : col = i1 + 3
  all_goals rcases (show r = i1 ∨ r = i1 + 1 ∨ (r ≠ i1 ∧ r ≠ i1 + 1) by omega) with hr | hr | hr
  all_goals rcases (show col = r ∨ col = r + 1 ∨ col = r + 2 ∨ (col ≠ r ∧ col ≠ r + 1 ∧ col ≠ r + 2) by omega) with hc | hc | hc | hc
  all_goals first | (exfalso; omega) | skip
  all_goals simp only [sw_rotL, sw_rotR, sw_Mf, sw_upd, ↓reduceIte, true_and, and_true, if_true, if_false]
  all_goals sw_ifs_omega
  all_goals first | rfl | ring1

theorem sw_Mf_step_c0 (L i1 : Nat) (hL1 : 1 ≤ L) (hL : L ≤ i1) (w e : Nat → K) (c s f x c₁ s₁ z c₂ s₂ z' : K)
    (h1 : f * c₁ + (s * e (i1 + 1)) * s₁ = z)
    (h3 : c₂ * (x * c₁ + c * e (i1 + 1) * s₁) + s₂ * (w (i1 + 1) * s₁) = z')
    (h4 : -s₂ * (x * c₁ + c * e (i1 + 1) * s₁) + c₂ * (w (i1 + 1) * s₁) = 0)
    (r : Nat) (hr : 1 ≤ r) :
    sw_rotL i1 c₂ s₂ (sw_rotR i1 c₁ s₁ (sw_Mf L i1 w e c s f x)) r i1
      = sw_Mf' L i1 w e c s x c₁ s₁ z c₂ s₂ z' r i1 := by
  by_cases hLi : L < i1
  all_goals rcases (show r + 2 < i1 ∨ r + 2 = i1 ∨ r + 1 = i1 ∨ r = i1 ∨ r = i1 + 1 ∨ i1 + 1 < r by omega) with hr | hr | hr | hr | hr | hr
  all_goals simp only [sw_rotL, sw_rotR, sw_Mf, sw_upd, ↓reduceIte, true_and, and_true, if_true, if_false]
  all_goals sw_ifs_omega
  all_goals first | ring1 | linear_combination h1 | linear_combination h3 | linear_combination h4

theorem sw_Mf_step_c1 (L i1 : Nat) (hL1 : 1 ≤ L) (hL : L ≤ i1) (w e : Nat → K) (c s f x c₁ s₁ z c₂ s₂ z' : K)
    (h2 : -f * s₁ + (s * e (i1 + 1)) * c₁ = 0)
    (r : Nat) (hr : 1 ≤ r) :
    sw_rotL i1 c₂ s₂ (sw_rotR i1 c₁ s₁ (sw_Mf L i1 w e c s f x)) r (i1 + 1)
      = sw_Mf' L i1 w e c s x c₁ s₁ z c₂ s₂ z' r (i1 + 1) := by
  by_cases hLi : L < i1
  all_goals rcases (show r + 2 < i1 ∨ r + 2 = i1 ∨ r + 1 = i1 ∨ r = i1 ∨ r = i1 + 1 ∨ i1 + 1 < r by omega) with hr | hr | hr | hr | hr | hr
  all_goals simp only [sw_rotL, sw_rotR, sw_Mf, sw_upd, ↓reduceIte, true_and, and_true, if_true, if_false]
  all_goals sw_ifs_omega
  all_goals first | ring1 | linear_combination h2

theorem sw_Mf_step_c2 (L i1 : Nat) (hL1 : 1 ≤ L) (hL : L ≤ i1) (w e : Nat → K) (c s f x c₁ s₁ z c₂ s₂ z' : K)
    (r : Nat) (hr : 1 ≤ r) :
    sw_rotL i1 c₂ s₂ (sw_rotR i1 c₁ s₁ (sw_Mf L i1 w e c s f x)) r (i1 + 2)
      = sw_Mf' L i1 w e c s x c₁ s₁ z c₂ s₂ z' r (i1 + 2) := by
  rcases (show r < i1 ∨ r = i1 ∨ r = i1 + 1 ∨ r = i1 + 2 ∨ i1 + 2 < r by omega) with hr | hr | hr | hr | hr
  all_goals simp only [sw_rotL, sw_rotR, sw_Mf, sw_upd, ↓reduceIte, true_and, and_true, if_true, if_false]
  all_goals sw_ifs_omega
  all_goals first | ring1


/-- **one iteration on the ghost matrix**: right rotation `(c₁, s₁)` of columns `i1, i1+1`, then left
    rotation `(c₂, s₂)` of rows `i1, i1+1` -/
theorem sw_Mf_step (L i1 : Nat) (hL1 : 1 ≤ L) (hL : L ≤ i1) (w e : Nat → K) (c s f x c₁ s₁ z c₂ s₂ z' : K)
    (h1 : f * c₁ + (s * e (i1 + 1)) * s₁ = z) (h2 : -f * s₁ + (s * e (i1 + 1)) * c₁ = 0)
    (h3 : c₂ * (x * c₁ + c * e (i1 + 1) * s₁) + s₂ * (w (i1 + 1) * s₁) = z')
    (h4 : -s₂ * (x * c₁ + c * e (i1 + 1) * s₁) + c₂ * (w (i1 + 1) * s₁) = 0)
    (r col : Nat) (hr : 1 ≤ r) :
    sw_rotL i1 c₂ s₂ (sw_rotR i1 c₁ s₁ (sw_Mf L i1 w e c s f x)) r col
      = sw_Mf' L i1 w e c s x c₁ s₁ z c₂ s₂ z' r col := by
  by_cases hc0 : col = i1
  · subst hc0; exact sw_Mf_step_c0 L col hL1 hL w e c s f x c₁ s₁ z c₂ s₂ z' h1 h3 h4 r hr
  by_cases hc1 : col = i1 + 1
  · subst hc1; exact sw_Mf_step_c1 L i1 hL1 hL w e c s f x c₁ s₁ z c₂ s₂ z' h2 r hr
  by_cases hc2 : col = i1 + 2
  · subst hc2; exact sw_Mf_step_c2 L i1 hL1 hL w e c s f x c₁ s₁ z c₂ s₂ z' r hr
  exact sw_Mf_step_far L i1 hL1 hL w e c s f x c₁ s₁ z c₂ s₂ z' r col hr ⟨hc0, hc1, hc2⟩

/-- at the start (`i1 = L`, `c = s = 1`, `x = w L`) the ghost matrix is the bidiagonal matrix -/
theorem sw_Mf_init (n L : Nat) (w e : Nat → K) (f : K) (heL : e L = 0) :
    bidiagN n w e = sw_toM n (sw_Mf L L w e 1 1 f (w L)) := by
  ext a b
  obtain ⟨a, ha⟩ := a
  obtain ⟨b, hb⟩ := b
  unfold bidiagN sw_toM sw_Mf
  simp only []
  by_cases hcL : b + 1 = L
  all_goals by_cases hcL1 : b = L
  all_goals rcases (show b = a ∨ b = a + 1 ∨ b = a + 2 ∨ (b ≠ a ∧ b ≠ a + 1 ∧ b ≠ a + 2) by omega) with hc | hc | hc | hc
  all_goals first | (exfalso; omega) | skip
  all_goals subst_vars
  all_goals sw_ifs_omega
  all_goals first | rfl | ring1 | exact heL

/-- at the end (`i1 = k`) the ghost matrix is bidiagonal again once `e L := 0; e k := f; w k := x` -/
theorem sw_Mf_final (n L k : Nat) (hLk : L < k) (w e : Nat → K) (c s f x : K) (hek : e (k + 1) = 0) :
    sw_toM n (sw_Mf L k w e c s f x) = bidiagN n (sw_upd w k x) (sw_upd (sw_upd e L 0) k f) := by
  ext a b
  obtain ⟨a, ha⟩ := a
  obtain ⟨b, hb⟩ := b
  unfold bidiagN sw_toM sw_Mf sw_upd
  simp only []
  by_cases hcL : b + 1 = L
  all_goals by_cases hck : b + 1 = k
  all_goals by_cases hck1 : b = k
  all_goals rcases (show b = a ∨ b = a + 1 ∨ b = a + 2 ∨ (b ≠ a ∧ b ≠ a + 1 ∧ b ≠ a + 2) by omega) with hc | hc | hc | hc
  all_goals first | (exfalso; omega) | skip
  all_goals subst_vars
  all_goals sw_ifs_omega
  all_goals first | rfl | ring1 | (rw [hek]; ring1)

end ghost
end Gama.Ls.Svd
