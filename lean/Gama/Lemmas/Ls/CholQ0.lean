/-
  The cofactor recursion of `AdjCholDec::solve` (`Chol.q0Mat`, `Z = D⁻¹L⁻¹ + (I − Lᵀ)Z`):
  the stored symmetric matrix satisfies the recursion for every entry on or above the diagonal
  (in pivot order), is zero outside the independent block, and — with `N = L D Lᵀ` on all `n`
  pivots — is the inverse of the normal matrix.
-/
import Gama.Lemmas.Ls.CholIsLS

namespace Gama.Ls
open Finset Dn Chol Matrix

set_option linter.unusedSectionVars false
set_option linter.unusedVariables false

section
variable {K : Type} [Field K] [LinearOrder K] [IsStrictOrderedRing K] [SqrtFn K]
attribute [local instance 2000] scalarOfField

/-- the vector computed for one column -/
def q0Vec (n N0 : Nat) (perm : Array Nat) (a : DMat K) (Q : DMat K) (column : Nat) : Array K :=
  sweep (List.range (column + 1)).reverse (pget perm) (fun ii => ii + 1) (fun _ => N0)
    (fun ii jj => sget a (pget perm ii) (pget perm jj)) (fun _ => none)
    (vmk n fun u =>
      if pget (invPerm n perm) u = column then Scalar.ofNat 1 / mget a (pget perm column) (pget perm column)
      else if column < pget (invPerm n perm) u ∧ pget (invPerm n perm) u < N0 then sget Q u (pget perm column)
      else 0)

theorem sget_q0Column (n N0 : Nat) (perm : Array Nat) (a Q : DMat K) (c u v : Nat) (hu : u < n) (hv : v < n) :
    sget (q0Column n N0 perm a Q c) u v =
      if v = pget perm c ∧ qq n perm u ≤ c then vget (q0Vec n N0 perm a Q c) u
      else if u = pget perm c ∧ qq n perm v ≤ c then vget (q0Vec n N0 perm a Q c) v
      else sget Q u v := by
  have key : ∀ u v, u < n → v < n → v ≤ u →
      mget (q0Column n N0 perm a Q c) u v =
        if v = pget perm c ∧ qq n perm u ≤ c then vget (q0Vec n N0 perm a Q c) u
        else if u = pget perm c ∧ qq n perm v ≤ c then vget (q0Vec n N0 perm a Q c) v
        else mget Q u v := by
    intro u v hu hv hvu
    unfold q0Column
    simp only []
    rw [mget_mmk]
    simp only [hu, hv, and_self, if_true, hvu]
    rfl
  by_cases hvu : v ≤ u
  · conv_lhs => unfold sget
    rw [if_pos hvu, key u v hu hv hvu]
    conv_rhs => unfold sget
    rw [if_pos hvu]
  · have huv : u ≤ v := by omega
    conv_lhs => unfold sget
    rw [if_neg hvu, key v u hv hu huv]
    by_cases h1 : v = pget perm c ∧ qq n perm u ≤ c <;> by_cases h2 : u = pget perm c ∧ qq n perm v ≤ c
    · exfalso; obtain ⟨e1, _⟩ := h1; obtain ⟨e2, _⟩ := h2; omega
    · rw [if_neg h2, if_pos h1, if_pos h1]
    · rw [if_pos h2, if_neg h1, if_pos h2]
    · rw [if_neg h2, if_neg h1, if_neg h1, if_neg h2]
      unfold sget; rw [if_neg hvu]

/-- the recursion, for the entries of column `c` (positions), in terms of the matrix AFTER the step -/
theorem q0Column_spec {n N0 : Nat} {perm : Array Nat} (hP : IsPerm n perm) (hN0 : N0 ≤ n)
    (a Q : DMat K) (c : Nat) (hc : c < N0) :
    (∀ ii, ii ≤ c →
      sget (q0Column n N0 perm a Q c) (pget perm ii) (pget perm c)
        = (if ii = c then 1 / dd perm a c else 0)
          - ∑ jj ∈ Ico (ii + 1) N0, sget a (pget perm ii) (pget perm jj) *
              sget (q0Column n N0 perm a Q c) (pget perm jj) (pget perm c)) ∧
    (∀ u v, u < n → v < n → ¬ (v = pget perm c ∧ qq n perm u ≤ c) → ¬ (u = pget perm c ∧ qq n perm v ≤ c) →
      sget (q0Column n N0 perm a Q c) u v = sget Q u v) := by
  have hcn : c < n := by omega
  have hmem : ∀ ii, ii ∈ (List.range (c + 1)).reverse ↔ ii ≤ c := by
    intro ii; rw [List.mem_reverse, List.mem_range]; omega
  set init : Array K := vmk n fun u =>
      if pget (invPerm n perm) u = c then Scalar.ofNat 1 / mget a (pget perm c) (pget perm c)
      else if c < pget (invPerm n perm) u ∧ pget (invPerm n perm) u < N0 then sget Q u (pget perm c)
      else 0 with hinit
  obtain ⟨hsz, hval, hframe⟩ := sweep_spec (pget perm) (fun ii => ii + 1) (fun _ => N0)
    (fun ii jj => sget a (pget perm ii) (pget perm jj)) (fun _ => none) n n hP.lt hP.inj
    (List.range (c + 1)).reverse init (vmk_size _ _)
    (by intro ii hii; have := (hmem ii).1 hii; refine ⟨by omega, by omega, ?_⟩; simp)
    (by
      rw [List.pairwise_reverse]
      refine List.Pairwise.imp ?_ (List.pairwise_lt_range (n := c + 1))
      intro a b hab
      refine ⟨by omega, ?_⟩
      simp; omega)
  have hz : q0Vec n N0 perm a Q c = sweep (List.range (c + 1)).reverse (pget perm) (fun ii => ii + 1)
      (fun _ => N0) (fun ii jj => sget a (pget perm ii) (pget perm jj)) (fun _ => none) init := rfl
  set z := q0Vec n N0 perm a Q c with hzdef
  rw [← hz] at hval hframe
  have hinitv : ∀ kk, kk < n → vget init (pget perm kk) =
      if kk = c then 1 / dd perm a c else if c < kk ∧ kk < N0 then sget Q (pget perm kk) (pget perm c) else 0 := by
    intro kk hkk
    rw [hinit, vget_vmk, if_pos (hP.lt kk hkk)]
    have : pget (invPerm n perm) (pget perm kk) = kk := qq_perm hP kk hkk
    rw [this]
    by_cases h1 : kk = c
    · rw [if_pos h1, if_pos h1]
      unfold dd sget; rw [if_pos (le_refl _)]
      show ((1 : ℕ) : K) / _ = 1 / _
      rw [Nat.cast_one]
    · rw [if_neg h1, if_neg h1]
  -- entries of the new matrix in column c
  have hcol : ∀ kk, kk < N0 → sget (q0Column n N0 perm a Q c) (pget perm kk) (pget perm c) = vget z (pget perm kk) := by
    intro kk hkk
    have hkn : kk < n := by omega
    rw [sget_q0Column n N0 perm a Q c _ _ (hP.lt kk hkn) (hP.lt c hcn), qq_perm hP kk hkn, qq_perm hP c hcn]
    by_cases h1 : kk ≤ c
    · rw [if_pos ⟨rfl, h1⟩]
    · rw [if_neg (fun h => h1 h.2)]
      have hne : pget perm kk ≠ pget perm c := fun e => by
        have := hP.inj kk c hkn hcn e; omega
      rw [if_neg (fun h => hne h.1)]
      rw [hframe (pget perm kk) (by
        intro ii hii e
        have := hP.inj kk ii hkn (by have := (hmem ii).1 hii; omega) e
        have := (hmem ii).1 hii
        omega)]
      rw [hinitv kk hkn, if_neg (by omega), if_pos ⟨by omega, hkk⟩]
  refine ⟨?_, ?_⟩
  · intro ii hii
    rw [hcol ii (by omega), hval ii ((hmem ii).2 hii)]
    unfold sweepVal
    simp only
    rw [hinitv ii (by omega)]
    congr 1
    · by_cases h1 : ii = c
      · rw [if_pos h1, if_pos h1]
      · rw [if_neg h1, if_neg h1, if_neg (by omega)]
    · refine Finset.sum_congr rfl fun jj hjj => ?_
      rw [hcol jj (Finset.mem_Ico.1 hjj).2]
  · intro u v hu hv h1 h2
    rw [sget_q0Column n N0 perm a Q c u v hu hv, if_neg h1, if_neg h2]

/-- what is known about `Q0` at the end of the recursion -/
structure Q0Spec (n N0 : Nat) (perm : Array Nat) (a Z : DMat K) : Prop where
  recur : ∀ c ii, c < N0 → ii ≤ c →
    sget Z (pget perm ii) (pget perm c) = (if ii = c then 1 / dd perm a c else 0)
      - ∑ jj ∈ Ico (ii + 1) N0, sget a (pget perm ii) (pget perm jj) * sget Z (pget perm jj) (pget perm c)
  zero : ∀ u v, u < n → v < n → (N0 ≤ qq n perm u ∨ N0 ≤ qq n perm v) → sget Z u v = 0

theorem q0Mat_spec {n N0 : Nat} {perm : Array Nat} (hP : IsPerm n perm) (hN0 : N0 ≤ n) (a : DMat K) :
    Q0Spec n N0 perm a (q0Mat n N0 perm a) := by
  unfold q0Mat
  -- invariant over the columns N0-1, …, N0-t
  have key : ∀ t, t ≤ N0 →
      (∀ c ii, N0 - t ≤ c → c < N0 → ii ≤ c →
        sget ((List.range' (N0 - t) t).reverse.foldl (q0Column n N0 perm a) (mmk n n fun _ _ => 0))
            (pget perm ii) (pget perm c)
          = (if ii = c then 1 / dd perm a c else 0)
            - ∑ jj ∈ Ico (ii + 1) N0, sget a (pget perm ii) (pget perm jj) *
              sget ((List.range' (N0 - t) t).reverse.foldl (q0Column n N0 perm a) (mmk n n fun _ _ => 0))
                (pget perm jj) (pget perm c)) ∧
      (∀ u v, u < n → v < n → (qq n perm u < N0 - t ∧ qq n perm v < N0 - t ∨ N0 ≤ qq n perm u ∨ N0 ≤ qq n perm v) →
        sget ((List.range' (N0 - t) t).reverse.foldl (q0Column n N0 perm a) (mmk n n fun _ _ => 0)) u v = 0) := by
    intro t
    induction t with
    | zero =>
      intro _
      refine ⟨fun c ii h1 h2 _ => by omega, ?_⟩
      intro u v hu hv _
      simp only [List.range'_zero, List.reverse_nil, List.foldl_nil]
      unfold sget; split <;> (rw [mget_mmk]; simp)
    | succ t ih =>
      intro ht
      obtain ⟨ih1, ih2⟩ := ih (by omega)
      have hl : (List.range' (N0 - (t + 1)) (t + 1)).reverse
          = (List.range' (N0 - t) t).reverse ++ [N0 - (t + 1)] := by
        rw [show N0 - t = N0 - (t + 1) + 1 by omega, List.range'_succ, List.reverse_cons]
      rw [hl, List.foldl_append]
      simp only [List.foldl_cons, List.foldl_nil]
      set Q := (List.range' (N0 - t) t).reverse.foldl (q0Column n N0 perm a) (mmk n n fun _ _ => 0) with hQ
      set c0 := N0 - (t + 1) with hc0
      have hc0lt : c0 < N0 := by omega
      have hc0n : c0 < n := by omega
      obtain ⟨s1, s2⟩ := q0Column_spec hP hN0 a Q c0 hc0lt
      -- entries at positions (x, c') with c' > c0 are untouched
      have hkeep : ∀ x c', x < N0 → c0 < c' → c' < N0 →
          sget (q0Column n N0 perm a Q c0) (pget perm x) (pget perm c') = sget Q (pget perm x) (pget perm c') := by
        intro x c' hx h1 h2
        apply s2 _ _ (hP.lt x (by omega)) (hP.lt c' (by omega))
        · rintro ⟨e, _⟩
          have := hP.inj c' c0 (by omega) hc0n e; omega
        · rintro ⟨_, e⟩
          rw [qq_perm hP c' (by omega)] at e; omega
      refine ⟨?_, ?_⟩
      · intro c ii h1 h2 h3
        by_cases hcc : c = c0
        · subst hcc; exact s1 ii h3
        · have hc' : N0 - t ≤ c := by omega
          rw [hkeep ii c (by omega) (by omega) h2, ih1 c ii hc' h2 h3]
          congr 1
          refine Finset.sum_congr rfl fun jj hjj => ?_
          rw [hkeep jj c (Finset.mem_Ico.1 hjj).2 (by omega) h2]
      · intro u v hu hv hcond
        have hqu := qq_spec hP u hu
        have hqv := qq_spec hP v hv
        rw [s2 u v hu hv]
        · apply ih2 u v hu hv
          rcases hcond with ⟨h1, h2⟩ | h | h
          · left; constructor <;> omega
          · right; left; exact h
          · right; right; exact h
        · rintro ⟨e, h1⟩
          have : qq n perm v = c0 := by rw [e, qq_perm hP c0 hc0n]
          rcases hcond with ⟨_, h2⟩ | h | h <;> omega
        · rintro ⟨e, h1⟩
          have : qq n perm u = c0 := by rw [e, qq_perm hP c0 hc0n]
          rcases hcond with ⟨h2, _⟩ | h | h <;> omega
  have hrange : (List.range N0).reverse = (List.range' (N0 - N0) N0).reverse := by
    rw [Nat.sub_self, List.range_eq_range']
  rw [hrange]
  obtain ⟨k1, k2⟩ := key N0 (le_refl N0)
  exact ⟨fun c ii hc hii => k1 c ii (by omega) hc hii,
    fun u v hu hv h => k2 u v hu hv (by rcases h with h | h; exact Or.inr (Or.inl h); exact Or.inr (Or.inr h))⟩

/-- **regular case**: `Q0 · N = 1` (entrywise, original indices) -/
theorem q0_regular_inverse {n : Nat} {tol : K} {Nf : Nat → Nat → K} {perm : Array Nat} {a : DMat K}
    (h : LDLInv n tol Nf perm a n) (htol : 0 ≤ tol) (Z : DMat K) (hZ : Q0Spec n n perm a Z) :
    ∀ u w, u < n → w < n → ∑ v ∈ range n, sget Z u v * Nf v w = if u = w then 1 else 0 := by
  have hP := h.isPerm
  have hd : ∀ k, k < n → dd perm a k ≠ 0 := fun k hk => ne_of_gt (lt_of_le_of_lt htol (h.piv k hk))
  let Um : Matrix (Fin n) (Fin n) K := Matrix.of fun i k =>
    if k.val = i.val then 1 else if i.val < k.val then sget a (pget perm i.val) (pget perm k.val) else 0
  let Zm : Matrix (Fin n) (Fin n) K := Matrix.of fun i j => sget Z (pget perm i.val) (pget perm j.val)
  let Dm : Matrix (Fin n) (Fin n) K := Matrix.diagonal fun i => dd perm a i.val
  let Dinv : Matrix (Fin n) (Fin n) K := Matrix.diagonal fun i => (dd perm a i.val)⁻¹
  have hZs : Zmᵀ = Zm := by
    funext i j; exact sget_comm Z _ _
  -- (U Z)(i,j) for i ≤ j
  have hE : ∀ i j : Fin n, i.val ≤ j.val → (Um * Zm) i j = if i = j then (dd perm a i.val)⁻¹ else 0 := by
    intro i j hij
    rw [Matrix.mul_apply]
    show ∑ k : Fin n, (if k.val = i.val then 1 else if i.val < k.val then
        sget a (pget perm i.val) (pget perm k.val) else 0) * sget Z (pget perm k.val) (pget perm j.val) = _
    rw [Fin.sum_univ_eq_sum_range (fun k => (if k = i.val then 1 else if i.val < k then
        sget a (pget perm i.val) (pget perm k) else 0) * sget Z (pget perm k) (pget perm j.val)) n,
      sum_tri_gt n i.val i.isLt (fun k => sget a (pget perm i.val) (pget perm k))
        (fun k => sget Z (pget perm k) (pget perm j.val))]
    rw [hZ.recur j.val i.val j.isLt hij]
    by_cases e : i = j
    · subst e; simp
    · have : i.val ≠ j.val := fun h => e (Fin.ext h)
      simp [e, this]
  -- W = U Z Uᵀ = D⁻¹
  have hWsym : (Um * Zm * Umᵀ)ᵀ = Um * Zm * Umᵀ := by
    rw [Matrix.transpose_mul, Matrix.transpose_mul, Matrix.transpose_transpose, hZs, Matrix.mul_assoc]
  have hWle : ∀ i j : Fin n, i.val ≤ j.val → (Um * Zm * Umᵀ) i j = Dinv i j := by
    intro i j hij
    rw [Matrix.mul_apply]
    have hterm : ∀ k : Fin n, k ≠ i → (Um * Zm) i k * Umᵀ k j = 0 := by
      intro k hk
      by_cases hkj : k.val < j.val
      · have : Umᵀ k j = 0 := by
          show (if k.val = j.val then (1 : K) else if j.val < k.val then _ else 0) = 0
          rw [if_neg (by omega), if_neg (by omega)]
        rw [this, mul_zero]
      · have hik : i.val ≤ k.val := by omega
        rw [hE i k hik, if_neg (fun e => hk e.symm), zero_mul]
    rw [Finset.sum_eq_single i (fun k _ hk => hterm k hk) (by simp)]
    rw [hE i i (le_refl _), if_pos rfl]
    show _ * (if i.val = j.val then (1 : K) else if j.val < i.val then _ else 0) = _
    by_cases e : i = j
    · subst e; simp [Dinv]
    · have : i.val ≠ j.val := fun h => e (Fin.ext h)
      rw [if_neg this, if_neg (by omega), mul_zero]
      simp [Dinv, e]
  have hW : Um * Zm * Umᵀ = Dinv := by
    funext i j
    by_cases hij : i.val ≤ j.val
    · exact hWle i j hij
    · have := hWle j i (by omega)
      rw [← hWsym, Matrix.transpose_apply, this]
      have e : j ≠ i := fun h => hij (by rw [h])
      simp [Dinv, e, e.symm]
  have hDD : Dinv * Dm = 1 := by
    rw [Matrix.diagonal_mul_diagonal]
    have : (fun i : Fin n => (dd perm a i.val)⁻¹ * dd perm a i.val) = fun _ => 1 := by
      funext i; exact inv_mul_cancel₀ (hd i.val i.isLt)
    rw [this, Matrix.diagonal_one]
  have h1 : Um * (Zm * Umᵀ * Dm) = 1 := by
    rw [← Matrix.mul_assoc, ← Matrix.mul_assoc, hW, hDD]
  have h2 : (Zm * Umᵀ * Dm) * Um = 1 := mul_eq_one_comm.1 h1
  have h3 : Zm * (Umᵀ * Dm * Um) = 1 := by
    rw [← h2]; simp only [Matrix.mul_assoc]
  -- the normal matrix in pivot order
  have hN : ∀ j l : Fin n, (Umᵀ * Dm * Um) j l = Nf (pget perm j.val) (pget perm l.val) := by
    intro j l
    rw [h.dec _ _ (hP.lt j.val j.isLt) (hP.lt l.val l.isLt)]
    unfold trail
    rw [qq_perm hP j.val j.isLt, if_neg (by have := j.isLt; omega), zero_add, Matrix.mul_apply]
    rw [← Fin.sum_univ_eq_sum_range
      (fun k => ell n perm a k (pget perm j.val) * dd perm a k * ell n perm a k (pget perm l.val)) n]
    refine Finset.sum_congr rfl fun k _ => ?_
    rw [Matrix.mul_diagonal, Matrix.transpose_apply]
    rw [ell_perm hP a k.val j.val j.isLt, ell_perm hP a k.val l.val l.isLt]
    show (if j.val = k.val then (1 : K) else if k.val < j.val then sget a (pget perm k.val) (pget perm j.val) else 0)
        * dd perm a k.val *
      (if l.val = k.val then (1 : K) else if k.val < l.val then sget a (pget perm k.val) (pget perm l.val) else 0) = _
    rw [sget_comm a (pget perm k.val) (pget perm j.val), sget_comm a (pget perm k.val) (pget perm l.val)]
  intro u w hu hw
  obtain ⟨i, hi, rfl⟩ := hP.surj u hu
  obtain ⟨l, hl, rfl⟩ := hP.surj w hw
  rw [sum_perm hP (fun v => sget Z (pget perm i) v * Nf v (pget perm l))]
  have := congrFun (congrFun h3 ⟨i, hi⟩) ⟨l, hl⟩
  rw [Matrix.mul_apply] at this
  rw [← Fin.sum_univ_eq_sum_range (fun jj => sget Z (pget perm i) (pget perm jj) * Nf (pget perm jj) (pget perm l)) n]
  have e2 : ∀ j : Fin n, sget Z (pget perm i) (pget perm j.val) * Nf (pget perm j.val) (pget perm l)
      = Zm ⟨i, hi⟩ j * (Umᵀ * Dm * Um) j ⟨l, hl⟩ := by
    intro j; rw [hN j ⟨l, hl⟩]; rfl
  rw [Finset.sum_congr rfl (fun j _ => e2 j), this]
  rw [Matrix.one_apply]
  by_cases e : i = l
  · subst e; simp
  · have : pget perm i ≠ pget perm l := fun h' => e (hP.inj i l hi hl h')
    simp [e, this]

end
end Gama.Ls
