/-
  Envelope solver: the factor computed by `Env.ldl` (model of `Envelope::cholDec`) as
  mathematical functions `Lf`, `Df`, `yf` with their recursion equations, and the same for
  the three triangular solves.
-/
import Gama.Lemmas.Ls.EnvBuild

namespace Gama.Ls.Env
open Finset

set_option linter.unusedSectionVars false

variable {K : Type} [Field K] [LinearOrder K] [IsStrictOrderedRing K] (sq : K → K)
local notation "𝔽" => fieldScalar sq

variable (N : Nat → Nat → K) (tol : K)

/-- row `i` of the factor (independent of how many further rows are computed) -/
def rowAt (i : Nat) : Row K := @rowStep K 𝔽 N tol i (@ldl K 𝔽 N tol i)

/-- `L(i,j)`, `j < i` (0 for `j ≥ i`) -/
def Lf (i j : Nat) : K := @vget K 𝔽 (rowAt sq N tol i).l j
/-- pivot `D(i)` after the zero test -/
def Df (i : Nat) : K := (rowAt sq N tol i).d
/-- the row after `lowerSolve`, before `diagonalSolve` : `y(i,j) = L(i,j)·D(j)` -/
def yf (i j : Nat) : K := @vget K 𝔽 (@yRow K 𝔽 N (@ldl K 𝔽 N tol i) i) j
/-- pivot before the zero test -/
def dpiv (i : Nat) : K := N i i - ∑ j ∈ range i, Lf sq N tol i j * Lf sq N tol i j * Df sq N tol j

theorem ldl_getD {n i : Nat} (h : i < n) (d : Row K) : (@ldl K 𝔽 N tol n).getD i d = rowAt sq N tol i :=
  build_getD _ _ h

theorem Lget_ldl {n i : Nat} (h : i < n) (j : Nat) : @Lget K 𝔽 (@ldl K 𝔽 N tol n) i j = Lf sq N tol i j := by
  unfold Lget Lf; rw [ldl_getD sq N tol h]

theorem Dget_ldl {n i : Nat} (h : i < n) : @Dget K 𝔽 (@ldl K 𝔽 N tol n) i = Df sq N tol i := by
  unfold Dget Df; rw [ldl_getD sq N tol h]

theorem depGet_ldl {n i : Nat} (h : i < n) : @depGet K 𝔽 (@ldl K 𝔽 N tol n) i = (rowAt sq N tol i).dep := by
  unfold depGet; rw [ldl_getD sq N tol h]

/-- E1 : `y(i,j) = N(i,j) − Σ_{k<j} L(j,k) y(i,k)` -/
theorem yf_eq {i j : Nat} (h : j < i) :
    yf sq N tol i j = N i j - ∑ k ∈ range j, Lf sq N tol j k * yf sq N tol i k := by
  unfold yf yRow
  rw [vget_build sq h, sumTo_eq]
  simp only [fs_sub, fs_mul]
  congr 1
  refine sum_congr rfl fun k hk => ?_
  have hk' : k < j := mem_range.1 hk
  rw [Lget_ldl sq N tol h]
  congr 1
  exact build_getD_prefix _ _ hk' (hk'.trans h)

/-- the `l` field of a row -/
theorem rowAt_l (i : Nat) :
    (rowAt sq N tol i).l = @lRow K 𝔽 (@ldl K 𝔽 N tol i) (@yRow K 𝔽 N (@ldl K 𝔽 N tol i) i) i := by
  unfold rowAt rowStep
  simp only
  split <;> rfl

/-- E2 : `L(i,j) = y(i,j)/D(j)`, or `0` on a zero pivot -/
theorem Lf_eq {i j : Nat} (h : j < i) :
    Lf sq N tol i j = if Df sq N tol j = 0 then 0 else yf sq N tol i j / Df sq N tol j := by
  unfold Lf
  rw [rowAt_l]
  unfold lRow
  rw [vget_vecOf sq _ _ h, Dget_ldl sq N tol h]
  simp only [fs_beq, decide_eq_true_eq, fs_div, fs_zero]
  rfl

theorem Lf_ge {i j : Nat} (h : i ≤ j) : Lf sq N tol i j = 0 := by
  unfold Lf
  rw [rowAt_l]
  unfold lRow
  rw [vget_vecOf_ge sq _ _ h]

/-- the pivot before the zero test, as the model computes it -/
theorem rowAt_d (i : Nat) :
    (rowAt sq N tol i).d = if |dpiv sq N tol i| < tol then 0 else dpiv sq N tol i := by
  have hd : N i i - @sumTo K 𝔽 i (fun j => @vget K 𝔽 (@lRow K 𝔽 (@ldl K 𝔽 N tol i) (@yRow K 𝔽 N (@ldl K 𝔽 N tol i) i) i) j
        * @vget K 𝔽 (@lRow K 𝔽 (@ldl K 𝔽 N tol i) (@yRow K 𝔽 N (@ldl K 𝔽 N tol i) i) i) j
        * @Dget K 𝔽 (@ldl K 𝔽 N tol i) j) = dpiv sq N tol i := by
    unfold dpiv
    rw [sumTo_eq]
    congr 1
    refine sum_congr rfl fun j hj => ?_
    have hj' : j < i := mem_range.1 hj
    rw [Dget_ldl sq N tol hj', ← rowAt_l]
    rfl
  unfold rowAt rowStep
  simp only [fs_abs, fs_lt, fs_sub, fs_mul]
  rw [hd]
  split <;> rfl

/-- E3 : `|d| < tol → D := 0` -/
theorem Df_eq (i : Nat) : Df sq N tol i = if |dpiv sq N tol i| < tol then 0 else dpiv sq N tol i :=
  rowAt_d sq N tol i

theorem rowAt_dep (i : Nat) : (rowAt sq N tol i).dep = decide (|dpiv sq N tol i| < tol) := by
  have hd : N i i - @sumTo K 𝔽 i (fun j => @vget K 𝔽 (@lRow K 𝔽 (@ldl K 𝔽 N tol i) (@yRow K 𝔽 N (@ldl K 𝔽 N tol i) i) i) j
        * @vget K 𝔽 (@lRow K 𝔽 (@ldl K 𝔽 N tol i) (@yRow K 𝔽 N (@ldl K 𝔽 N tol i) i) i) j
        * @Dget K 𝔽 (@ldl K 𝔽 N tol i) j) = dpiv sq N tol i := by
    unfold dpiv
    rw [sumTo_eq]
    congr 1
    refine sum_congr rfl fun j hj => ?_
    have hj' : j < i := mem_range.1 hj
    rw [Dget_ldl sq N tol hj', ← rowAt_l]
    rfl
  unfold rowAt rowStep
  simp only [fs_abs, fs_lt, fs_sub, fs_mul]
  rw [hd]
  split <;> simp_all

/-! ### the three solves -/

variable (n : Nat)

/-- `z = lowerSolve(c)` -/
def zf (c : Nat → K) (i : Nat) : K := @vget K 𝔽 (@lower K 𝔽 (@ldl K 𝔽 N tol n) n c) i
/-- `w = diagonalSolve(z)` -/
def wf (z : Nat → K) (i : Nat) : K := @vget K 𝔽 (@diagS K 𝔽 (@ldl K 𝔽 N tol n) n z) i
/-- `x = upperSolve(w)` -/
def xf (w : Nat → K) (i : Nat) : K := @vget K 𝔽 (@upper K 𝔽 (@ldl K 𝔽 N tol n) n w) i

theorem zf_eq (c : Nat → K) {i : Nat} (h : i < n) :
    zf sq N tol n c i = c i - ∑ j ∈ range i, Lf sq N tol i j * zf sq N tol n c j := by
  unfold zf lower
  rw [vget_build sq h, sumTo_eq]
  simp only [fs_sub, fs_mul]
  congr 1
  refine sum_congr rfl fun j hj => ?_
  have hj' : j < i := mem_range.1 hj
  rw [Lget_ldl sq N tol h]
  congr 1
  exact build_getD_prefix _ _ hj' (hj'.trans h)

theorem wf_eq (z : Nat → K) {i : Nat} (h : i < n) :
    wf sq N tol n z i = if Df sq N tol i = 0 then 0 else z i / Df sq N tol i := by
  unfold wf diagS
  rw [vget_vecOf sq _ _ h, Dget_ldl sq N tol h]
  simp only [fs_beq, decide_eq_true_eq, fs_div, fs_zero]

/-- cell `t` of the reversed table of `upperSolve` -/
theorem upperRev_get (w : Nat → K) {t : Nat} (h : t < n) :
    @vget K 𝔽 (@upperRev K 𝔽 (@ldl K 𝔽 N tol n) n w) t
      = w (n - 1 - t) - ∑ s ∈ range t, Lf sq N tol (n - 1 - s) (n - 1 - t)
          * @vget K 𝔽 (@upperRev K 𝔽 (@ldl K 𝔽 N tol n) n w) s := by
  unfold upperRev
  rw [vget_build sq h, sumTo_eq]
  simp only [fs_sub, fs_mul]
  congr 1
  refine sum_congr rfl fun s hs => ?_
  have hs' : s < t := mem_range.1 hs
  rw [Lget_ldl sq N tol (by omega : n - 1 - s < n)]
  congr 1
  exact build_getD_prefix _ _ hs' (hs'.trans h)

theorem xf_eq (w : Nat → K) {i : Nat} (h : i < n) :
    xf sq N tol n w i = w i - ∑ j ∈ Ico (i + 1) n, Lf sq N tol j i * xf sq N tol n w j := by
  unfold xf upper
  simp only
  rw [vget_vecOf sq _ _ h, upperRev_get sq N tol n w (by omega : n - 1 - i < n)]
  have e1 : n - 1 - (n - 1 - i) = i := by omega
  rw [e1]
  congr 1
  -- Σ_{s < n-1-i} g (n-1-s) = Σ_{j ∈ Ico (i+1) n} g j
  rw [sum_Ico_eq_sum_range]
  conv_rhs => rw [← sum_range_reflect]
  have e2 : n - (i + 1) = n - 1 - i := by omega
  rw [e2]
  refine sum_congr rfl fun s hs => ?_
  have hs' : s < n - 1 - i := mem_range.1 hs
  have e3 : i + 1 + (n - 1 - i - 1 - s) = n - 1 - s := by omega
  rw [e3, vget_vecOf sq _ _ (by omega : n - 1 - s < n)]
  have e4 : n - 1 - (n - 1 - s) = s := by omega
  rw [e4]

end Gama.Ls.Env
