/-
  The homogenisation kernels of class `Adj` (model `Gama/Model/Ls/Adj.lean`, namespace `AdjM`):
  `CovMat::cholDec` + `Adj::choldec` produce a lower triangular `L̃` with `L̃ L̃ᵀ = C`
  (per block), and `Adj::forwardSubstitution` solves `L̃ w = v`.
-/
import Gama.Lemmas.Ls.CholSubst
import Gama.Model.Ls.Adj

namespace Gama.Ls
open Finset Dn Chol AdjM

set_option linter.unusedSectionVars false
set_option linter.unusedVariables false

section
variable {K : Type} [Field K] [LinearOrder K] [IsStrictOrderedRing K] [SqrtFn K]
attribute [local instance 2000] scalarOfField

theorem maxDiag_nonneg (d : Nat) (a : DMat K) : (0 : K) ≤ maxDiag d a := by
  unfold maxDiag
  have : ∀ (l : List Nat) (q : K), 0 ≤ q →
      0 ≤ l.foldl (fun q i => Scalar.max (mget a i i) q) q := by
    intro l
    induction l with
    | nil => intro q hq; exact hq
    | cons i l ih =>
      intro q hq
      rw [List.foldl_cons]
      apply ih
      unfold Scalar.max
      split
      · exact hq
      · rename_i h
        exact le_trans hq (not_lt.1 h)
  exact this _ 0 (le_refl 0)

theorem epsilon_pos : (0 : K) < (epsilon : K) := by
  show (0 : K) < ((1 : ℕ) : K) / ((4503599627370496 : ℕ) : K)
  positivity

theorem dd_id (d : Nat) (a : DMat K) (k : Nat) (hk : k < d) : dd (pmk d id) a k = mget a k k := by
  unfold dd sget; rw [pget_id d k hk, if_pos (le_refl k)]

theorem ell_id (d : Nat) (a : DMat K) (k u : Nat) (hu : u < d) :
    ell d (pmk d id) a k u = if u = k then 1 else if k < u then sget a u (pget (pmk d id) k) else 0 := by
  unfold ell; rw [qq_id d u hu]

theorem ldlRows_spec {d : Nat} {tol : K} {Cf : Nat → Nat → K} (htol : 0 ≤ tol) :
    ∀ (fuel row : Nat) (a a' : DMat K), LDLInv d tol Cf (pmk d id) a row → fuel = d - row →
      ldlRows d tol fuel row a = .ok a' → LDLInv d tol Cf (pmk d id) a' d := by
  intro fuel
  induction fuel with
  | zero =>
    intro row a a' h hf hr
    have : row = d := by have := h.le; omega
    subst this
    unfold ldlRows at hr
    have := Except.ok.inj hr
    subst this
    exact h
  | succ fuel ih =>
    intro row a a' h hf hr
    have hrow : row < d := by omega
    unfold ldlRows at hr
    simp only [] at hr
    by_cases hp : mget a row row ≤ tol
    · rw [if_pos hp] at hr; cases hr
    · rw [if_neg hp] at hr
      have hpiv : tol < dd (pmk d id) a row := by rw [dd_id d a row hrow]; exact not_le.1 hp
      have hstep := h.step hrow htol hpiv
      rw [dd_id d a row hrow] at hstep
      exact ih (row + 1) _ a' hstep (by omega) hr

/-- `CovMat::cholDec`: `C = L D Lᵀ` with pivots above the (non-negative) tolerance -/
theorem ldl_spec (d : Nat) (a a' : DMat K) (h : ldl d a = .ok a') :
    ∃ tol : K, 0 ≤ tol ∧ LDLInv d tol (fun u v => sget a u v) (pmk d id) a' d := by
  unfold ldl at h
  by_cases hd : d = 0
  · rw [if_pos hd] at h; cases h
  · rw [if_neg hd] at h
    have htol : (0 : K) ≤ Scalar.ofNat d * (epsilon : K) * maxDiag d a := by
      have h1 : (0 : K) ≤ (Scalar.ofNat d : K) := by
        show (0 : K) ≤ ((d : ℕ) : K)
        positivity
      exact mul_nonneg (mul_nonneg h1 (le_of_lt epsilon_pos)) (maxDiag_nonneg d a)
    exact ⟨_, htol, ldlRows_spec htol d 0 a a' (LDLInv.init d _ _ a (fun _ _ _ _ => rfl)) (by omega) h⟩

/-- the square root is exact on the pivots of this block (all that `Adj::choldec` asks of `sqrt`) -/
def SqrtExact (b : CovBlock K) : Prop :=
  ∀ a', ldl b.dim (blockDense b) = .ok a' → ∀ k, k < b.dim →
    SqrtFn.sq (mget a' k k) * SqrtFn.sq (mget a' k k) = mget a' k k

/-- a lawful square root is exact on every block (the pivots are positive) -/
theorem SqrtExact.of_lawful [LawfulSqrt K] (b : CovBlock K) : SqrtExact b := by
  intro a' hl k hk
  obtain ⟨tol, htol, hI⟩ := ldl_spec b.dim (blockDense b) a' hl
  have := hI.piv k hk
  rw [dd_id b.dim a' k hk] at this
  exact LawfulSqrt.sqrt_mul_self _ (le_of_lt (lt_of_le_of_lt htol this))

/-- `Adj::choldec`: lower triangular `L̃`, non-zero diagonal, `L̃ L̃ᵀ = C` (entries of the block) -/
theorem choldec_spec (b : CovBlock K) (L : DMat K) (hsqrt : SqrtExact b) (h : choldec b = .ok L) :
    (∀ u v, u < b.dim → v < b.dim →
      sget (blockDense b) u v = ∑ k ∈ range b.dim, mget L u k * mget L v k) ∧
    (∀ u k, u < b.dim → k < b.dim → u < k → mget L u k = 0) ∧
    (∀ u, u < b.dim → mget L u u ≠ 0) := by
  unfold choldec at h
  split at h
  · cases h
  · cases hl : ldl b.dim (blockDense b) with
    | error e => rw [hl] at h; simp [Except.map] at h
    | ok a' =>
      rw [hl] at h
      have hL : L = scaleChol b.dim a' := (Except.ok.inj h).symm
      obtain ⟨tol, htol, hI⟩ := ldl_spec b.dim (blockDense b) a' hl
      set d := b.dim with hd
      have hdk : ∀ k, k < d → (0 : K) < mget a' k k := by
        intro k hk
        have := hI.piv k hk
        rw [dd_id d a' k hk] at this
        exact lt_of_le_of_lt htol this
      have hsq : ∀ k, k < d → SqrtFn.sq (mget a' k k) * SqrtFn.sq (mget a' k k) = mget a' k k :=
        fun k hk => hsqrt a' hl k hk
      have hLe : ∀ u k, u < d → k < d →
          mget L u k = ell d (pmk d id) a' k u * SqrtFn.sq (mget a' k k) := by
        intro u k hu hk
        rw [hL, ell_id d a' k u hu]
        unfold scaleChol
        rw [mget_mmk]
        simp only [hu, hk, and_self, if_true]
        by_cases h1 : u = k
        · subst h1; simp
          rfl
        · by_cases h2 : k < u
          · rw [if_pos (le_of_lt h2), if_neg h1, if_neg h1, if_pos h2, pget_id d k hk]
            unfold sget; rw [if_pos (le_of_lt h2)]
            rfl
          · rw [if_neg (by omega), if_neg h1, if_neg h2, zero_mul]
      refine ⟨?_, ?_, ?_⟩
      · intro u v hu hv
        have := hI.dec u v hu hv
        rw [this]
        unfold trail
        rw [qq_id d u hu, if_neg (by omega), zero_add]
        refine Finset.sum_congr rfl fun k hk => ?_
        have hk' := Finset.mem_range.1 hk
        rw [hLe u k hu hk', hLe v k hv hk', dd_id d a' k hk']
        have := hsq k hk'
        calc ell d (pmk d id) a' k u * mget a' k k * ell d (pmk d id) a' k v
            = ell d (pmk d id) a' k u * (SqrtFn.sq (mget a' k k) * SqrtFn.sq (mget a' k k))
                * ell d (pmk d id) a' k v := by rw [this]
          _ = _ := by ring
      · intro u k hu hk huk
        rw [hLe u k hu hk, ell_id d a' k u hu, if_neg (by omega), if_neg (by omega), zero_mul]
      · intro u hu
        rw [hLe u u hu hu, ell_id d a' u u hu, if_pos rfl, one_mul]
        intro h0
        have := hsq u hu
        rw [h0, mul_zero] at this
        exact absurd this.symm (ne_of_gt (hdk u hu))

/-- `Adj::forwardSubstitution` solves `L̃ w = v` for a lower triangular `L̃` with non-zero diagonal -/
theorem forwardSubst_spec (d : Nat) (L : DMat K) (v : Array K) (hv : v.size = d)
    (hlow : ∀ u k, u < d → k < d → u < k → mget L u k = 0) (hdiag : ∀ u, u < d → mget L u u ≠ 0) :
    (forwardSubst d L v).size = d ∧
    ∀ i, i < d → ∑ j ∈ range d, mget L i j * vget (forwardSubst d L v) j = vget v i := by
  unfold forwardSubst
  obtain ⟨hsz, hval, _⟩ := sweep_spec (fun i => i) (fun _ => 0) (fun i => i) (fun i j => mget L i j)
    (fun i => some (mget L i i)) d d (fun k hk => hk) (fun k l _ _ e => e)
    (List.range d) v hv
    (by intro ii hii; have := List.mem_range.1 hii; refine ⟨by omega, by omega, ?_⟩; simp)
    (by
      refine List.Pairwise.imp ?_ (List.pairwise_lt_range (n := d))
      intro a b hab
      refine ⟨by omega, ?_⟩
      simp; omega)
  refine ⟨hsz, ?_⟩
  intro i hi
  set w := sweep (List.range d) (fun i => i) (fun _ => 0) (fun i => i) (fun i j => mget L i j)
    (fun i => some (mget L i i)) v with hw
  have hwi := hval i (List.mem_range.2 hi)
  unfold sweepVal at hwi
  simp only at hwi
  rw [Finset.range_eq_Ico, ← Finset.sum_Ico_consecutive _ (Nat.zero_le i) (le_of_lt hi),
    Finset.sum_eq_sum_Ico_succ_bot hi]
  have h2 : ∑ j ∈ Ico (i + 1) d, mget L i j * vget w j = 0 := by
    refine Finset.sum_eq_zero fun j hj => ?_
    have := Finset.mem_Ico.1 hj
    rw [hlow i j hi this.2 (by omega), zero_mul]
  rw [h2, add_zero, hwi]
  have := hdiag i hi
  field_simp
  ring

end
end Gama.Ls
