/-
  `cholSolve` (model of `AdjCholDec`) in the regular case returns a least-squares solution:
  bridge from the array-level facts (`Lemmas/Ls/CholSubst.lean`) to `LS.IsLSSolution`.
-/
import Gama.Lemmas.Ls.CholSubst
import Mathlib.LinearAlgebra.Matrix.NonsingularInverse

namespace Gama.Ls
open Finset Dn Chol Matrix Gama.LS

set_option linter.unusedSectionVars false
set_option linter.unusedVariables false

section
variable {K : Type} [Field K] [LinearOrder K] [IsStrictOrderedRing K] [SqrtFn K]
attribute [local instance 2000] scalarOfField

/-- the normal matrix as a function of two original indices -/
def normalF (m : Nat) (A : DMat K) (u v : Nat) : K := ∑ k ∈ range m, mget A k u * mget A k v

theorem normalMat_spec (m n : Nat) (A : DMat K) (u v : Nat) (hu : u < n) (hv : v < n) :
    normalF m A u v = sget (normalMat m n A) u v := by
  unfold sget normalMat normalF
  by_cases h : v ≤ u
  · rw [if_pos h, mget_mmk]; simp only [hu, hv, and_self, if_true, h]
    rw [sumFrom_eq, ← Finset.range_eq_Ico]
    exact Finset.sum_congr rfl fun k _ => mul_comm _ _
  · rw [if_neg h, mget_mmk]; simp only [hu, hv, and_self, if_true, show u ≤ v by omega]
    rw [sumFrom_eq, ← Finset.range_eq_Ico]

theorem normalRhs_spec (m n : Nat) (A : DMat K) (b : Array K) (u : Nat) (hu : u < n) :
    vget (normalRhs m n A b) u = ∑ k ∈ range m, mget A k u * vget b k := by
  unfold normalRhs; rw [vget_vmk, if_pos hu, sumFrom_eq, ← Finset.range_eq_Ico]

theorem mulVec_toMatrix (r c : Nat) (M : DMat K) (x : Array K) (i : Fin r) :
    (toMatrix r c M *ᵥ toVec c x) i = ∑ j ∈ range c, mget M i.val j * vget x j := by
  unfold Matrix.mulVec dotProduct
  rw [← Fin.sum_univ_eq_sum_range (fun j => mget M i.val j * vget x j) c]
  rfl

theorem transpose_mulVec_toMatrix (r c : Nat) (M : DMat K) (w : Fin r → K) (j : Fin c) :
    ((toMatrix r c M)ᵀ *ᵥ w) j = ∑ i : Fin r, mget M i.val j.val * w i := by
  unfold Matrix.mulVec dotProduct
  rfl

/-- the factorisation the model computes for `p` -/
def cholFact (p : Problem K) : Fact K :=
  factor p.n p.n 0 (pmk p.n id) (normalMat p.m p.n p.dense)

theorem cholFact_inv (p : Problem K) (h0 : (cholFact p).nullity = 0) :
    LDLInv p.n (sTol : K) (normalF p.m p.dense) (cholFact p).perm (cholFact p).mat p.n := by
  unfold cholFact at h0 ⊢
  refine factor_regular p.n 0 _ _ (LDLInv.init p.n _ _ _ ?_) (by omega) h0
  intro u v hu hv
  exact normalMat_spec p.m p.n p.dense u v hu hv

/-- what `solve` returns in the regular case -/
theorem solve_regular_shape (p : Problem K) (s : Solved K) (hs : Chol.solve p = .ok s) (hn : s.nullity = 0) :
    (cholFact p).nullity = 0 ∧ s.m = p.m ∧ s.n = p.n ∧
    s.x = solveX0 p.n p.n (cholFact p).perm (cholFact p).mat (normalRhs p.m p.n p.dense p.rhs) ∧
    s.r = residuals p.m p.n (cholFact p).perm p.dense p.rhs s.x ∧
    s.Q0 = q0Mat p.n p.n (cholFact p).perm (cholFact p).mat ∧ s.A = p.dense := by
  unfold Chol.solve at hs
  simp only [] at hs
  split at hs
  · simp at hs
  · rename_i S hreg
    split at hs
    · rename_i h0
      have := Except.ok.inj hs
      subst this
      unfold cholFact
      simp only [h0, Nat.sub_zero]
      exact ⟨trivial, trivial, trivial, trivial, trivial, trivial, trivial⟩
    · rename_i h0
      exfalso
      split at hs
      · simp at hs
      · have := Except.ok.inj hs
        subst this
        exact h0 hn

/-- `N x = Aᵀ b` for the model's `x` in the regular case, for an arbitrary right-hand side array -/
theorem solveX0_regular (p : Problem K) (h0 : (cholFact p).nullity = 0) (rhs : Array K) :
    (solveX0 p.n p.n (cholFact p).perm (cholFact p).mat rhs).size = p.n ∧
    ∀ u, u < p.n → ∑ v ∈ range p.n, normalF p.m p.dense u v *
        vget (solveX0 p.n p.n (cholFact p).perm (cholFact p).mat rhs) v = vget rhs u := by
  have hI := cholFact_inv p h0
  have hP := hI.isPerm
  unfold solveX0
  simp only []
  set xi := vmk p.n fun u => if p.n ≤ pget (invPerm p.n (cholFact p).perm) u then (0 : K) else vget rhs u with hxi
  have hxs : xi.size = p.n := vmk_size _ _
  have hxv : ∀ u, u < p.n → vget xi u = vget rhs u := by
    intro u hu
    rw [hxi, vget_vmk, if_pos hu]
    have : qq p.n (cholFact p).perm u < p.n := (qq_spec hP u hu).1
    have h2 : ¬ p.n ≤ pget (invPerm p.n (cholFact p).perm) u := by
      show ¬ p.n ≤ qq p.n (cholFact p).perm u
      omega
    rw [if_neg h2]
  refine ⟨?_, ?_⟩
  · obtain ⟨s1, _, _⟩ := fwdSub_spec hP (le_refl p.n) (cholFact p).mat xi hxs
    obtain ⟨s2, _, _⟩ := diagDiv_spec hP (le_refl p.n) (cholFact p).mat _ s1
    exact (backSub_spec hP (le_refl p.n) (cholFact p).mat _ s2).1
  · intro u hu
    rw [solve_regular hI (le_of_lt sTol_pos) xi hxs u hu, hxv u hu]

/-- trivial kernel in the regular case: the normal matrix is onto (the sweeps solve `N x = c` for
    every `c`), hence one-to-one -/
theorem cholFact_regular_ker (p : Problem K) (h0 : (cholFact p).nullity = 0) :
    ∀ g : Fin p.n → K, p.A *ᵥ g = 0 → g = 0 := by
    have hsurj : Function.Surjective (p.Aᵀ * p.A).mulVec := by
      intro c
      let rhs : Array K := vmk p.n fun u => if hu : u < p.n then c ⟨u, hu⟩ else 0
      obtain ⟨_, hsol⟩ := solveX0_regular p h0 rhs
      refine ⟨toVec p.n (solveX0 p.n p.n (cholFact p).perm (cholFact p).mat rhs), ?_⟩
      funext u
      rw [← mulVec_mulVec]
      unfold Problem.A
      rw [transpose_mulVec_toMatrix]
      have : ∀ i : Fin p.m, mget p.dense i.val u.val *
          (toMatrix p.m p.n p.dense *ᵥ toVec p.n (solveX0 p.n p.n (cholFact p).perm (cholFact p).mat rhs)) i
          = ∑ v ∈ range p.n, (mget p.dense i.val u.val * mget p.dense i.val v) *
              vget (solveX0 p.n p.n (cholFact p).perm (cholFact p).mat rhs) v := by
        intro i
        rw [mulVec_toMatrix, Finset.mul_sum]
        exact Finset.sum_congr rfl fun v _ => by ring
      rw [Finset.sum_congr rfl (fun i _ => this i),
        Fin.sum_univ_eq_sum_range (fun i => ∑ v ∈ range p.n, (mget p.dense i u.val * mget p.dense i v) *
          vget (solveX0 p.n p.n (cholFact p).perm (cholFact p).mat rhs) v) p.m, Finset.sum_comm]
      have h1 : ∑ v ∈ range p.n, ∑ i ∈ range p.m, mget p.dense i u.val * mget p.dense i v *
            vget (solveX0 p.n p.n (cholFact p).perm (cholFact p).mat rhs) v
          = ∑ v ∈ range p.n, normalF p.m p.dense u.val v *
            vget (solveX0 p.n p.n (cholFact p).perm (cholFact p).mat rhs) v := by
        refine Finset.sum_congr rfl fun v _ => ?_
        unfold normalF; rw [Finset.sum_mul]
      rw [h1, hsol u.val u.isLt, vget_vmk, if_pos u.isLt, dif_pos u.isLt]
    have hunit : IsUnit (p.Aᵀ * p.A) := mulVec_surjective_iff_isUnit.1 hsurj
    have hinj : Function.Injective (p.Aᵀ * p.A).mulVec := mulVec_injective_iff_isUnit.2 hunit
    intro g hg
    apply hinj
    rw [← mulVec_mulVec, hg, mulVec_zero, mulVec_zero]

/-- **C01, Cholesky, regular case.**  If the model of `AdjCholDec` reports defect 0, its
    `x`, `r`, `rtr` are a least-squares solution of `(A, b, 1)` (any regularisation subset). -/
theorem cholSolve_regular_isLS (p : Problem K) (a : Answer K) (h : cholSolve p = .ok a)
    (hd : a.defect = 0) : a.IsLS p 1 := by
  unfold cholSolve at h
  cases hs : Chol.solve p with
  | error e => rw [hs] at h; simp [Except.map] at h
  | ok s =>
    rw [hs] at h
    have ha : a = s.answer := (Except.ok.inj h).symm
    subst ha
    have hn : s.nullity = 0 := hd
    obtain ⟨h0, hm, hnn, hx, hr, _, _⟩ := solve_regular_shape p s hs hn
    obtain ⟨hxs, hN⟩ := solveX0_regular p h0 (normalRhs p.m p.n p.dense p.rhs)
    rw [← hx] at hN hxs
    have hP := (cholFact_inv p h0).isPerm
    -- residuals
    have hrv : ∀ i, i < p.m → vget s.r i = ∑ v ∈ range p.n, mget p.dense i v * vget s.x v - vget p.rhs i := by
      intro i hi
      rw [hr]; unfold residuals
      rw [vget_vmk, if_pos hi, addFrom_eq, ← Finset.range_eq_Ico,
        sum_perm hP (fun v => mget p.dense i v * vget s.x v)]
      ring
    have hres : toVec p.m s.answer.r = p.A *ᵥ toVec p.n s.answer.x - p.b := by
      funext i
      show vget s.r i.val = _
      rw [Pi.sub_apply]
      unfold Problem.A Problem.b
      rw [mulVec_toMatrix, hrv i.val i.isLt]
      rfl
    -- normal equations
    have hnormal : p.Aᵀ *ᵥ ((1 : Matrix (Fin p.m) (Fin p.m) K) *ᵥ toVec p.m s.answer.r) = 0 := by
      funext u
      rw [one_mulVec]
      unfold Problem.A
      rw [transpose_mulVec_toMatrix]
      have : ∀ i : Fin p.m, mget p.dense i.val u.val * toVec p.m s.answer.r i
          = ∑ v ∈ range p.n, (mget p.dense i.val u.val * mget p.dense i.val v) * vget s.x v
            - mget p.dense i.val u.val * vget p.rhs i.val := by
        intro i
        show mget p.dense i.val u.val * vget s.r i.val = _
        rw [hrv i.val i.isLt, mul_sub, Finset.mul_sum]
        congr 1
        exact Finset.sum_congr rfl fun v _ => by ring
      rw [Finset.sum_congr rfl (fun i _ => this i), Finset.sum_sub_distrib,
        Fin.sum_univ_eq_sum_range (fun i => ∑ v ∈ range p.n, (mget p.dense i u.val * mget p.dense i v) * vget s.x v) p.m,
        Fin.sum_univ_eq_sum_range (fun i => mget p.dense i u.val * vget p.rhs i) p.m,
        Finset.sum_comm]
      have h1 : ∑ v ∈ range p.n, ∑ i ∈ range p.m, mget p.dense i u.val * mget p.dense i v * vget s.x v
          = ∑ v ∈ range p.n, normalF p.m p.dense u.val v * vget s.x v := by
        refine Finset.sum_congr rfl fun v _ => ?_
        unfold normalF; rw [Finset.sum_mul]
      rw [h1, hN u.val u.isLt, normalRhs_spec p.m p.n p.dense p.rhs u.val u.isLt]
      simp
    -- sum of squares
    have hrtr : s.answer.rtr = toVec p.m s.answer.r ⬝ᵥ (1 : Matrix (Fin p.m) (Fin p.m) K) *ᵥ toVec p.m s.answer.r := by
      rw [one_mulVec]
      show sumFrom 0 s.m (fun i => vget s.r i * vget s.r i) = _
      rw [hm, sumFrom_eq, ← Finset.range_eq_Ico]
      unfold dotProduct
      rw [← Fin.sum_univ_eq_sum_range (fun i => vget s.r i * vget s.r i) p.m]
      rfl
    have hker := cholFact_regular_ker p h0
    exact IsLSSolution.of_regular hker hres hnormal hrtr

end
end Gama.Ls
