/-
  When does `SVD::min_subset_x` refuse (`BadRegularization`)?  (C08 / C20, round 3)

  On top of the certificate algebra (`SvdAlgebra`, `SvdSubset`, `SvdModel`, `SvdSolve`):

    `Indep`                 the null columns stay linearly independent through the `k` loop
    `resolves_of_inv`       all null columns processed (S-orthonormal) ⇒ `S` resolves the defect
    `exists_ker_vanishing`  fewer regularisation rows than null columns ⇒ a non-zero kernel vector
                            vanishes on `S`   (the test `defect > n_min`)
    `msLoop_err`            a refusal inside the loop exhibits a non-zero kernel vector `g` with
                            `‖g_S‖² ≤ τ²‖g‖²` (τ = 0 for the exact test `s == 0`, τ = `W_tol` for the
                            test `s <= W_tol·‖V_k‖` of the code as it is)
    `minSubsetX_refusal`    the three facts about `minSubsetX`; `answerOf_refusal` the same for the
                            whole solver model
-/
import Gama.Lemmas.Ls.SvdProps
import Mathlib.LinearAlgebra.FiniteDimensional.Lemmas
import Mathlib.LinearAlgebra.Matrix.ToLin

namespace Gama.Ls.Svd
open Matrix Finset Gama.LS Gama.Ls

set_option linter.unusedSectionVars false
set_option linter.unusedVariables false
set_option linter.unusedSimpArgs false

section pure
variable {K : Type} [Field K]
variable {m n : Type} [Fintype m] [Fintype n] [DecidableEq n] [DecidableEq m]

/-- the null columns of `V'` are linearly independent -/
def Indep (iw : n → K) (V' : Matrix n n K) : Prop :=
  ∀ c : n → K, (∀ j, iw j ≠ 0 → c j = 0) → V' *ᵥ c = 0 → c = 0

theorem Indep.init {A U : Matrix m n K} {W iw : n → K} {V : Matrix n n K} (hc : Cert A U W iw V) : Indep iw V := by
  intro c _ h
  have : (Vᵀ * V) *ᵥ c = 0 := by rw [← mulVec_mulVec, h, mulVec_zero]
  rw [hc.vtv, one_mulVec] at this; exact this

theorem Indep.col_ne_zero {iw : n → K} {V' : Matrix n n K} (h : Indep iw V') {k : n} (hk : iw k = 0) :
    (fun i => V' i k) ≠ 0 := by
  intro h0
  have hz : V' *ᵥ (fun j => if j = k then (1 : K) else 0) = 0 := by
    funext i
    have := congrFun h0 i
    simp only [mulVec, dotProduct, mul_ite, mul_one, mul_zero, Finset.sum_ite_eq', Finset.mem_univ, if_true]
    exact this
  have := h _ (fun j hj => by
    have : j ≠ k := fun e => hj (e ▸ hk)
    simp [this]) hz
  have := congrFun this k
  simp at this

theorem Indep.step {iw : n → K} {S : Finset n} {V' : Matrix n n K} (h : Indep iw V') {k : n} (hk : iw k = 0)
    {s : K} (hs : s ≠ 0) : Indep iw (stepM S s V' k) := by
  intro c hc0 hz
  have key : stepM S s V' k *ᵥ c
      = V' *ᵥ (fun j => if j = k then (c k - ∑ j ∈ univ.erase k, aS S s V' k j * c j) / s else c j) := by
    funext i
    simp only [mulVec, dotProduct]
    rw [← Finset.add_sum_erase univ _ (Finset.mem_univ k), ← Finset.add_sum_erase univ _ (Finset.mem_univ k)]
    simp only [if_true, stepM_k]
    have e2 : ∑ j ∈ univ.erase k, stepM S s V' k i j * c j
        = ∑ j ∈ univ.erase k, (V' i j * c j - (V' i k / s) * (aS S s V' k j * c j)) := by
      refine Finset.sum_congr rfl fun j hj => ?_
      rw [stepM_ne _ _ _ _ _ (Finset.mem_erase.mp hj).1]; ring
    have e3 : ∑ j ∈ univ.erase k, V' i j * (if j = k then (c k - ∑ j ∈ univ.erase k, aS S s V' k j * c j) / s else c j)
        = ∑ j ∈ univ.erase k, V' i j * c j := by
      refine Finset.sum_congr rfl fun j hj => ?_
      simp [(Finset.mem_erase.mp hj).1]
    rw [e2, e3, Finset.sum_sub_distrib, ← Finset.mul_sum]
    field_simp
    ring
  rw [key] at hz
  have h0 := h _ (fun j hj => by
    have : j ≠ k := fun e => hj (e ▸ hk)
    simp [this, hc0 j hj]) hz
  have hj : ∀ j, j ≠ k → c j = 0 := fun j hjk => by
    have := congrFun h0 j
    simpa [hjk] using this
  have htk : (c k - ∑ j ∈ univ.erase k, aS S s V' k j * c j) / s = 0 := by
    have := congrFun h0 k
    simpa using this
  funext j
  by_cases hjk : j = k
  · subst hjk
    have hsum : ∑ j' ∈ univ.erase j, aS S s V' j j' * c j' = 0 :=
      Finset.sum_eq_zero fun j' hj' => by rw [hj j' (Finset.mem_erase.mp hj').1, mul_zero]
    rw [hsum, sub_zero] at htk
    exact (div_eq_zero_iff.mp htk).resolve_right hs
  · exact hj j hjk

/-- once every null column has been processed the subset resolves the defect -/
theorem resolves_of_inv {A : Matrix m n K} {iw : n → K} {S : Finset n} {V V' : Matrix n n K} {P : Finset n}
    (h : Inv A iw S V V' P) (hP : ∀ k, iw k = 0 → k ∈ P) : Resolves A S := by
  intro g hg hgS
  obtain ⟨c, hc0, rfl⟩ := h.span g hg
  have hnull : ∀ k, iw k = 0 → c k = 0 := by
    intro k hk
    have e : ∑ i ∈ S, (V' *ᵥ c) i * V' i k = c k := by
      simp only [mulVec, dotProduct]
      calc ∑ i ∈ S, (∑ j, V' i j * c j) * V' i k
          = ∑ i ∈ S, ∑ j, c j * (V' i j * V' i k) := by
            refine Finset.sum_congr rfl fun i _ => ?_
            rw [Finset.sum_mul]; refine Finset.sum_congr rfl fun j _ => by ring
        _ = ∑ j, ∑ i ∈ S, c j * (V' i j * V' i k) := Finset.sum_comm
        _ = ∑ j, c j * ∑ i ∈ S, V' i j * V' i k := by
            refine Finset.sum_congr rfl fun j _ => ?_
            rw [Finset.mul_sum]
        _ = c k := by
            rw [Finset.sum_eq_single k]
            · rw [h.unit k (hP k hk), mul_one]
            · intro j _ hjk; rw [h.orth k (hP k hk) j hjk, mul_zero]
            · intro hk'; exact absurd (Finset.mem_univ k) hk'
    rw [← e]
    exact Finset.sum_eq_zero fun i hi => by rw [hgS i hi, zero_mul]
  have hc : c = 0 := funext fun j => by
    by_cases hj : iw j = 0
    · exact hnull j hj
    · exact hc0 j hj
  rw [hc, mulVec_zero]

/-- the test `defect > n_min`: fewer rows in `S` than null columns ⇒ some non-zero kernel vector
    vanishes on `S` (so `S` does not resolve the defect) -/
theorem exists_ker_vanishing {A U : Matrix m n K} {W iw : n → K} {V : Matrix n n K} (hc : Cert A U W iw V)
    [DecidablePred fun k => iw k = 0]
    (S : Finset n) (hlt : S.card < (univ.filter fun k => iw k = 0).card) :
    ∃ g, A *ᵥ g = 0 ∧ g ≠ 0 ∧ ∀ i ∈ S, g i = 0 := by
  -- rows: the S-rows of V, and the unit rows of the non-null coordinates
  let M : Matrix ({i // i ∈ S} ⊕ {j // iw j ≠ 0}) n K :=
    fun r j => Sum.elim (fun i => V i.1 j) (fun k => if j = k.1 then 1 else 0) r
  have hcard : Module.finrank K ({i // i ∈ S} ⊕ {j // iw j ≠ 0} → K) < Module.finrank K (n → K) := by
    rw [Module.finrank_fintype_fun_eq_card, Module.finrank_fintype_fun_eq_card, Fintype.card_sum,
      Fintype.card_coe]
    have h1 : Fintype.card {j // iw j ≠ 0} = (univ.filter fun k => ¬ iw k = 0).card := by
      rw [Fintype.card_subtype]
    have h2 := Finset.card_filter_add_card_filter_not (s := (univ : Finset n)) (fun k => iw k = 0)
    rw [Finset.card_univ] at h2
    omega
  have hker := LinearMap.ker_ne_bot_of_finrank_lt (f := M.mulVecLin) hcard
  obtain ⟨c, hcm, hcne⟩ := (Submodule.ne_bot_iff _).mp hker
  have hMc : M *ᵥ c = 0 := by simpa using hcm
  have hc0 : ∀ j, iw j ≠ 0 → c j = 0 := by
    intro j hj
    have := congrFun hMc (Sum.inr ⟨j, hj⟩)
    simpa [M, mulVec, dotProduct] using this
  have hS : ∀ i ∈ S, (V *ᵥ c) i = 0 := by
    intro i hi
    have := congrFun hMc (Sum.inl ⟨i, hi⟩)
    simpa [M, mulVec, dotProduct] using this
  refine ⟨V *ᵥ c, ?_, ?_, hS⟩
  · -- A V c = Σ_j c_j A V_j, null columns are kernel vectors
    have : V *ᵥ c = ∑ j, c j • (fun i => V i j) := by
      funext i; simp [mulVec, dotProduct, mul_comm]
    rw [this, mulVec_sum]
    refine Finset.sum_eq_zero fun j _ => ?_
    by_cases hj : iw j = 0
    · rw [mulVec_smul, A_nullcol hc hj, smul_zero]
    · rw [hc0 j hj, zero_smul, mulVec_zero]
  · intro h0
    exact hcne (Indep.init hc c hc0 h0)

end pure

variable {K : Type} [Field K] [LinearOrder K] [IsStrictOrderedRing K] (sq : K → K)

local notation "𝕊" => (Gama.LS.fieldScalar sq)

/-- the threshold of the refusal test as a number: 0 for the exact test, `W_tol` for the code as it is -/
def tauOf : Option K → K
  | none => 0
  | some t => t

/-- a refusing test bounds the S-norm by the threshold -/
theorem refuse_true (hsq : ∀ x : K, 0 ≤ x → sq x * sq x = x) (hsq0 : ∀ x : K, 0 ≤ x → 0 ≤ sq x)
    (fix : Option K) (hfix : 0 ≤ tauOf fix) (n : Nat) (V : DMat K) (k : Nat) (s : K) (hs0 : 0 ≤ s)
    (h : @refuse K 𝕊 n fix V k s = true) :
    s * s ≤ tauOf fix * tauOf fix * ∑ i : Fin n, @mget K 𝕊 V i.val k * @mget K 𝕊 V i.val k := by
  have hnn : (0 : K) ≤ ∑ i : Fin n, @mget K 𝕊 V i.val k * @mget K 𝕊 V i.val k :=
    Finset.sum_nonneg fun i _ => mul_self_nonneg _
  cases fix with
  | none =>
    have e : @refuse K 𝕊 n none V k s = decide (s = 0) := rfl
    rw [e] at h
    have : s = 0 := by simpa using h
    simp [this, tauOf]
  | some tol =>
    have e : @refuse K 𝕊 n (some tol) V k s
        = decide (s ≤ tol * sq (@sumTo K 𝕊 n fun i => @mget K 𝕊 V i k * @mget K 𝕊 V i k)) := rfl
    rw [e, sumTo_fin] at h
    have hle : s ≤ tol * sq (∑ i : Fin n, @mget K 𝕊 V i.val k * @mget K 𝕊 V i.val k) := by simpa using h
    have := mul_self_le_mul_self hs0 hle
    calc s * s ≤ _ := this
      _ = tol * tol * (sq (∑ i : Fin n, @mget K 𝕊 V i.val k * @mget K 𝕊 V i.val k)
            * sq (∑ i : Fin n, @mget K 𝕊 V i.val k * @mget K 𝕊 V i.val k)) := by ring
      _ = _ := by rw [hsq _ hnn]; rfl

/-- a vanishing S-norm is always refused -/
theorem refuse_zero (hsq0 : ∀ x : K, 0 ≤ x → 0 ≤ sq x) (fix : Option K) (hfix : 0 ≤ tauOf fix) (n : Nat) (V : DMat K)
    (k : Nat) : @refuse K 𝕊 n fix V k 0 = true := by
  by_contra h
  have hf : @refuse K 𝕊 n fix V k 0 = false := by simpa using h
  cases fix with
  | none => exact refuse_none sq n V k 0 hf rfl
  | some tol => exact refuse_some sq hsq0 tol hfix n V k 0 hf rfl

/-- a failing step of the `k` loop: on a null column, `BadRegularization`, the test fired -/
theorem msStep_err (fix : Option K) (n : Nat) (Sl : List Nat) (hnd : Sl.Nodup) (hlt : ∀ i ∈ Sl, i < n)
    (iw : Nat → K) (V : DMat K) (k : Nat) (hk : k < n) (e : ErrKind)
    (h : @msStep K 𝕊 fix n Sl iw V k = .error e) :
    iw k = 0 ∧ e = .BadRegularization ∧
      @refuse K 𝕊 n fix V k (sq (∑ i ∈ SF n Sl, toMatrix n n V i ⟨k, hk⟩ * toMatrix n n V i ⟨k, hk⟩)) = true := by
  unfold msStep at h
  by_cases hn : iw k = 0
  · rw [if_pos ((isNull_iff sq iw k).mpr hn)] at h
    have hs : @Scalar.sqrt K 𝕊 (@dotS K 𝕊 Sl (fun i => @mget K 𝕊 V i k) (fun i => @mget K 𝕊 V i k))
        = sq (∑ i ∈ SF n Sl, toMatrix n n V i ⟨k, hk⟩ * toMatrix n n V i ⟨k, hk⟩) := by
      rw [dotS_eq sq n Sl hnd hlt]; rfl
    simp only [] at h
    rw [hs] at h
    by_cases hr : @refuse K 𝕊 n fix V k (sq (∑ i ∈ SF n Sl, toMatrix n n V i ⟨k, hk⟩ * toMatrix n n V i ⟨k, hk⟩)) = true
    · rw [if_pos hr] at h
      injection h with h
      exact ⟨hn, h.symm, hr⟩
    · rw [if_neg hr] at h; cases h
  · have : ¬ (@isNull K 𝕊 iw k = true) := fun hb => hn ((isNull_iff sq iw k).mp hb)
    rw [if_neg this] at h; cases h

/-- a refusal inside the `k` loop exhibits a non-zero kernel vector whose S-norm is below the threshold -/
theorem msLoop_err {m : Type} [Fintype m] [DecidableEq m] (hsq : ∀ x : K, 0 ≤ x → sq x * sq x = x)
    (hsq0 : ∀ x : K, 0 ≤ x → 0 ≤ sq x) (fix : Option K) (hfix : 0 ≤ tauOf fix)
    (n : Nat) (Sl : List Nat) (hnd : Sl.Nodup) (hlt : ∀ i ∈ Sl, i < n) (iw : Nat → K)
    (hrf : ∀ V k s, @refuse K 𝕊 n fix V k s = false → s ≠ 0)
    (A : Matrix m (Fin n) K) (V0 : Matrix (Fin n) (Fin n) K) :
    ∀ (ks : List Nat), ks.Nodup → (∀ k ∈ ks, k < n) → ∀ (V : DMat K) (P : Finset (Fin n)) (e : ErrKind),
      (∀ i : Fin n, i.val ∈ ks → i ∉ P) →
      Inv A (fun i : Fin n => iw i.val) (SF n Sl) V0 (toMatrix n n V) P →
      Indep (fun i : Fin n => iw i.val) (toMatrix n n V) →
      ks.foldlM (@msStep K 𝕊 fix n Sl iw) V = .error e →
      e = .BadRegularization ∧ ∃ g : Fin n → K, A *ᵥ g = 0 ∧ g ≠ 0 ∧
        normS (SF n Sl) g ≤ tauOf fix * tauOf fix * (g ⬝ᵥ g) := by
  intro ks
  induction ks with
  | nil => intro _ _ V P e _ _ _ h; cases h
  | cons k ks ih =>
    intro hnd' hlt' V P e hP hI hInd h
    have hk : k < n := hlt' k List.mem_cons_self
    have hkks : k ∉ ks := (List.nodup_cons.mp hnd').1
    rw [List.foldlM_cons] at h
    cases hstep : @msStep K 𝕊 fix n Sl iw V k with
    | error e' =>
      rw [hstep] at h
      have he : e' = e := by injection h
      obtain ⟨hn, hbr, hrt⟩ := msStep_err sq fix n Sl hnd hlt iw V k hk e' hstep
      refine ⟨by rw [← he]; exact hbr, fun i => toMatrix n n V i ⟨k, hk⟩, hI.null ⟨k, hk⟩ hn,
        hInd.col_ne_zero (k := ⟨k, hk⟩) hn, ?_⟩
      have hnn : (0 : K) ≤ ∑ i ∈ SF n Sl, toMatrix n n V i ⟨k, hk⟩ * toMatrix n n V i ⟨k, hk⟩ :=
        Finset.sum_nonneg fun i _ => mul_self_nonneg _
      have := refuse_true sq hsq hsq0 fix hfix n V k _ (hsq0 _ hnn) hrt
      rw [hsq _ hnn] at this
      exact this
    | ok V1 =>
      rw [hstep] at h
      have h' : ks.foldlM (@msStep K 𝕊 fix n Sl iw) V1 = .error e := h
      rcases msStep_ok sq fix n Sl hnd hlt iw V V1 k hk (hrf V k) hstep with ⟨hn, hV⟩ | ⟨hn, hs0, hV⟩
      · subst hV
        exact ih (List.nodup_cons.mp hnd').2 (fun k' hk' => hlt' k' (List.mem_cons_of_mem _ hk')) V1 P e
          (fun i hi => hP i (List.mem_cons_of_mem _ hi)) hI hInd h'
      · have hkP : (⟨k, hk⟩ : Fin n) ∉ P := hP ⟨k, hk⟩ List.mem_cons_self
        have hss := hsq (∑ i ∈ SF n Sl, toMatrix n n V i ⟨k, hk⟩ * toMatrix n n V i ⟨k, hk⟩)
          (Finset.sum_nonneg fun i _ => mul_self_nonneg _)
        have hI1 := hI.step (k := ⟨k, hk⟩) hn hkP hs0 hss
        have hInd1 := hInd.step (S := SF n Sl) (k := ⟨k, hk⟩) hn hs0
        rw [← hV] at hI1 hInd1
        exact ih (List.nodup_cons.mp hnd').2 (fun k' hk' => hlt' k' (List.mem_cons_of_mem _ hk')) V1
          (insert ⟨k, hk⟩ P) e
          (fun i hi hmem => by
            rcases Finset.mem_insert.mp hmem with e' | hm
            · exact hkks (by rw [e'] at hi; exact hi)
            · exact hP i (List.mem_cons_of_mem _ hi) hm) hI1 hInd1 h'

theorem card_SF (n : Nat) (Sl : List Nat) (hnd : Sl.Nodup) (hlt : ∀ i ∈ Sl, i < n) : (SF n Sl).card = Sl.length := by
  have himg : (SF n Sl).image Fin.val = Sl.toFinset := by
    ext x
    simp only [SF, Finset.mem_image, Finset.mem_filter, Finset.mem_univ, true_and, List.mem_toFinset]
    constructor
    · rintro ⟨i, hi, rfl⟩; exact hi
    · intro hx; exact ⟨⟨x, hlt x hx⟩, hx, rfl⟩
  rw [← Finset.card_image_of_injective _ Fin.val_injective, himg, List.toFinset_card_of_nodup hnd]

/-- **refusal of `min_subset_x`** (regularisation list without repetitions, indices in `1..n`):
    (1) every error is `BadRegularization` and comes with a non-zero kernel vector `g`,
        `‖g_S‖² ≤ τ²‖g‖²`;
    (2) an accepted subset resolves the defect;
    (3) a subset that does not resolve the defect is refused. -/
theorem minSubsetX_refusal (hsq : ∀ x : K, 0 ≤ x → sq x * sq x = x) (hsq0 : ∀ x : K, 0 ≤ x → 0 ≤ sq x)
    (fix : Option K) (hfix : 0 ≤ tauOf fix) {m n : Nat}
    {A U : Matrix (Fin m) (Fin n) K} {W : Fin n → K} (iw : Nat → K) (Vd : DMat K)
    (hc : Cert A U W (fun i : Fin n => iw i.val) (toMatrix n n Vd)) (l : List Nat) (hreg : l.Nodup)
    (hr : ∀ i ∈ l, 1 ≤ i ∧ i ≤ n) :
    (∀ e, @minSubsetX K 𝕊 fix n (.subset l) iw Vd = .error e →
        e = .BadRegularization ∧ ∃ g : Fin n → K, A *ᵥ g = 0 ∧ g ≠ 0 ∧
          normS (Reg.toFinset n (.subset l)) g ≤ tauOf fix * tauOf fix * (g ⬝ᵥ g))
    ∧ (∀ V', @minSubsetX K 𝕊 fix n (.subset l) iw Vd = .ok V' → Resolves A (Reg.toFinset n (.subset l)))
    ∧ (¬ Resolves A (Reg.toFinset n (.subset l)) →
        @minSubsetX K 𝕊 fix n (.subset l) iw Vd = .error .BadRegularization) := by
  have hrf : ∀ V k s, @refuse K 𝕊 n fix V k s = false → s ≠ 0 := by
    intro V k s h h0
    have := refuse_zero sq hsq0 fix hfix n V k
    rw [h0] at h; rw [h] at this; cases this
  have hnd : (l.map (· - 1)).Nodup := by
    refine List.Nodup.map_on ?_ hreg
    intro a ha b hb e
    have := (hr a ha).1; have := (hr b hb).1
    omega
  have hlt : ∀ i ∈ l.map (· - 1), i < n := by
    intro i hi
    obtain ⟨a, ha, e⟩ := List.mem_map.mp hi
    have := hr a ha
    omega
  have hrange : (l.all fun i => decide (1 ≤ i ∧ i ≤ n)) = true := by
    rw [List.all_eq_true]; intro i hi; simpa using hr i hi
  have hSF := SF_eq_toFinset n l hr
  have hlen : (Reg.toFinset n (.subset l)).card = l.length := by
    rw [← hSF, card_SF n _ hnd hlt, List.length_map]
  have hdef := defectOf_eq sq n iw
  -- (1) and (2) first
  have h1 : ∀ e, @minSubsetX K 𝕊 fix n (.subset l) iw Vd = .error e →
      e = .BadRegularization ∧ ∃ g : Fin n → K, A *ᵥ g = 0 ∧ g ≠ 0 ∧
        normS (Reg.toFinset n (.subset l)) g ≤ tauOf fix * tauOf fix * (g ⬝ᵥ g) := by
    intro e h
    unfold minSubsetX at h
    simp only [] at h
    by_cases hd : @defectOf K 𝕊 n iw = 0
    · rw [if_pos hd] at h; cases h
    · rw [if_neg hd] at h
      by_cases hl : l.length < @defectOf K 𝕊 n iw
      · rw [if_pos hl] at h
        have he : e = .BadRegularization := by injection h with h; exact h.symm
        obtain ⟨g, hg, hne, hgS⟩ := exists_ker_vanishing hc (Reg.toFinset n (.subset l)) (by rw [hlen, ← hdef]; exact hl)
        refine ⟨he, g, hg, hne, ?_⟩
        have : normS (Reg.toFinset n (.subset l)) g = 0 :=
          Finset.sum_eq_zero fun i hi => by rw [hgS i hi, zero_mul]
        rw [this]
        exact mul_nonneg (mul_self_nonneg _) (Finset.sum_nonneg fun i _ => mul_self_nonneg _)
      · rw [if_neg hl, if_pos hrange] at h
        unfold msLoop at h
        have := msLoop_err sq hsq hsq0 fix hfix n (l.map (· - 1)) hnd hlt iw hrf A (toMatrix n n Vd)
          (List.range n) List.nodup_range (fun k hk => List.mem_range.mp hk) Vd ∅ e
          (fun i _ => Finset.notMem_empty i) (Inv.init hc _) (Indep.init hc) h
        rw [hSF] at this
        exact this
  have h2 : ∀ V', @minSubsetX K 𝕊 fix n (.subset l) iw Vd = .ok V' → Resolves A (Reg.toFinset n (.subset l)) := by
    intro V' h
    unfold minSubsetX at h
    simp only [] at h
    by_cases hd : @defectOf K 𝕊 n iw = 0
    · -- no null column: A is injective
      intro g hg _
      obtain ⟨c, hc0, rfl⟩ := ker_span hc g hg
      rw [hdef, Finset.card_eq_zero] at hd
      have : c = 0 := funext fun j => hc0 j (fun hj => by
        have : j ∈ (univ.filter fun i : Fin n => iw i.val = 0) := by simp [hj]
        rw [hd] at this; exact absurd this (Finset.notMem_empty j))
      rw [this, mulVec_zero]
    · rw [if_neg hd] at h
      by_cases hl : l.length < @defectOf K 𝕊 n iw
      · rw [if_pos hl] at h; cases h
      · rw [if_neg hl, if_pos hrange] at h
        unfold msLoop at h
        obtain ⟨P', hI, _, hP⟩ := msLoop_inv sq hsq fix n (l.map (· - 1)) hnd hlt iw hrf A (toMatrix n n Vd)
          (List.range n) List.nodup_range (fun k hk => List.mem_range.mp hk) Vd V' ∅
          (fun i _ => Finset.notMem_empty i) (Inv.init hc _) h
        rw [← hSF]
        exact resolves_of_inv hI (fun k hk => hP k (List.mem_range.mpr k.2) hk)
  refine ⟨h1, h2, fun hnr => ?_⟩
  cases hres : @minSubsetX K 𝕊 fix n (.subset l) iw Vd with
  | ok V' => exact absurd (h2 V' hres) hnr
  | error e => rw [(h1 e hres).1]

variable {sq}

/-- **refusal of the svd solver model** (`svdSolveCert` = `answerOf`), under the certificate:
    the only error is `BadRegularization`; it comes with a non-zero kernel vector whose restriction
    to `S` is below the threshold `τ` (`τ = W_tol` for the code as it is, `0` for the exact test);
    an answer implies that `S` resolves the defect; a non-resolving `S` is always refused -/
theorem answerOf_refusal (hs : SqrtLaw sq) (fixed : Bool) {tol : K} (htol : 0 ≤ tol) {m n : Nat} {A : DMat K}
    {b : Array K} {l : List Nat} {d : Dec K} (hc : SvdCert sq tol m n A d) (hreg : l.Nodup)
    (hr : ∀ i ∈ l, 1 ≤ i ∧ i ≤ n) :
    (∀ e, @answerOf K 𝕊 fixed tol m n A b (.subset l) d = .error e →
        e = .BadRegularization ∧ ∃ g : Fin n → K, toMatrix m n A *ᵥ g = 0 ∧ g ≠ 0 ∧
          normS (Reg.toFinset n (.subset l)) g ≤ (if fixed then tol else 0) * (if fixed then tol else 0) * (g ⬝ᵥ g))
    ∧ (∀ a, @answerOf K 𝕊 fixed tol m n A b (.subset l) d = .ok a →
        Resolves (toMatrix m n A) (Reg.toFinset n (.subset l)))
    ∧ (¬ Resolves (toMatrix m n A) (Reg.toFinset n (.subset l)) →
        @answerOf K 𝕊 fixed tol m n A b (.subset l) d = .error .BadRegularization) := by
  have hcert := cert_of sq htol hc
  have htau : tauOf (if fixed then some tol else none) = (if fixed then tol else 0) := by
    cases fixed <;> rfl
  have hfix : 0 ≤ tauOf (if fixed then some tol else none) := by
    rw [htau]; cases fixed <;> simp [htol]
  obtain ⟨h1, h2, h3⟩ := minSubsetX_refusal sq hs.mul_self hs.nonneg (if fixed then some tol else none) hfix
    (@invW K 𝕊 tol n (@vget K 𝕊 d.W)) d.V hcert l hreg hr
  rw [htau] at h1
  refine ⟨fun e h => ?_, fun a h => ?_, fun hnr => ?_⟩
  · unfold answerOf at h
    simp only [] at h
    cases hms : @minSubsetX K 𝕊 (if fixed then some tol else none) n (.subset l)
        (@invW K 𝕊 tol n (@vget K 𝕊 d.W)) d.V with
    | error e' =>
      rw [hms] at h
      have : e' = e := by injection h
      rw [← this]; exact h1 e' hms
    | ok V' => rw [hms] at h; cases h
  · unfold answerOf at h
    simp only [] at h
    cases hms : @minSubsetX K 𝕊 (if fixed then some tol else none) n (.subset l)
        (@invW K 𝕊 tol n (@vget K 𝕊 d.W)) d.V with
    | error e' => rw [hms] at h; cases h
    | ok V' => exact h2 V' hms
  · unfold answerOf
    simp only []
    rw [h3 hnr]

end Gama.Ls.Svd
