/-
  Basic lemmas for the dense vocabulary of `Model/Ls/Chol.lean` (`Dn.mget/mmk/vget/vmk/pget/pmk`,
  `sumFrom/subFrom/addFrom`, `sget/sset`) over a linearly ordered field.
-/
import Gama.Model.Ls.Chol
import Gama.Lemmas.Ls.CholScalar
import Mathlib.Algebra.BigOperators.Intervals
import Mathlib.Algebra.Order.Field.Basic
import Mathlib.Tactic.Ring
import Mathlib.Tactic.FieldSimp
import Mathlib.Tactic.Linarith

namespace Gama.Ls
open Finset Dn

set_option linter.unusedSectionVars false
set_option linter.unusedVariables false

section Arr
variable {α : Type}

theorem getD_ofFn' {n : Nat} (f : Fin n → α) (i : Nat) (d : α) :
    (Array.ofFn f).getD i d = if h : i < n then f ⟨i, h⟩ else d := by
  simp only [Array.getD_eq_getD_getElem?, Array.getElem?_ofFn]
  split <;> simp

theorem getD_setIfInBounds' (a : Array α) (i j : Nat) (v d : α) :
    (a.setIfInBounds i v).getD j d = if i = j ∧ j < a.size then v else a.getD j d := by
  simp only [Array.getD_eq_getD_getElem?, Array.getElem?_setIfInBounds]
  by_cases h : i = j
  · subst h
    by_cases h2 : i < a.size
    · simp [h2]
    · simp [h2]
  · simp [h]

theorem getD_of_ge' (a : Array α) (i : Nat) (d : α) (h : a.size ≤ i) : a.getD i d = d := by
  simp [Array.getD, Nat.not_lt.mpr h]

end Arr

section
variable {K : Type} [Field K] [LinearOrder K] [IsStrictOrderedRing K] [SqrtFn K]
attribute [local instance 2000] scalarOfField

theorem pget_pmk (n : Nat) (f : Nat → Nat) (k : Nat) : pget (pmk n f) k = if k < n then f k else 0 := by
  unfold pget pmk; rw [getD_ofFn']; split <;> rfl

theorem pmk_size (n : Nat) (f : Nat → Nat) : (pmk n f).size = n := by simp [pmk]

theorem vget_vmk (n : Nat) (f : Nat → K) (k : Nat) : vget (vmk n f) k = if k < n then f k else 0 := by
  unfold vget vmk; rw [getD_ofFn']; split <;> rfl

theorem vmk_size (n : Nat) (f : Nat → K) : (vmk n f).size = n := by simp [vmk]

theorem mget_mmk (r c : Nat) (f : Nat → Nat → K) (i j : Nat) :
    mget (mmk r c f) i j = if i < r ∧ j < c then f i j else 0 := by
  unfold mget mmk
  rw [getD_ofFn']
  by_cases hi : i < r
  · simp only [hi, dite_true, true_and]
    rw [getD_ofFn']; split <;> rfl
  · simp only [hi, dite_false, false_and, if_false]
    rfl

theorem vget_set (x : Array K) (i j : Nat) (v : K) :
    vget (x.setIfInBounds i v) j = if i = j ∧ j < x.size then v else vget x j := by
  unfold vget; exact getD_setIfInBounds' x i j v 0

theorem foldl_add_range'' (g : Nat → K) (a : K) (s m : Nat) :
    (List.range' s m).foldl (fun acc k => acc + g k) a = a + ∑ k ∈ Ico s (s + m), g k := by
  induction m generalizing a with
  | zero => simp
  | succ m ih =>
    rw [List.range'_concat, List.foldl_append, ih]
    simp only [List.foldl_cons, List.foldl_nil]
    rw [← Nat.add_assoc, Finset.sum_Ico_succ_top (by omega), Nat.one_mul]
    ring

theorem foldl_sub_range'' (g : Nat → K) (a : K) (s m : Nat) :
    (List.range' s m).foldl (fun acc k => acc - g k) a = a - ∑ k ∈ Ico s (s + m), g k := by
  induction m generalizing a with
  | zero => simp
  | succ m ih =>
    rw [List.range'_concat, List.foldl_append, ih]
    simp only [List.foldl_cons, List.foldl_nil]
    rw [← Nat.add_assoc, Finset.sum_Ico_succ_top (by omega), Nat.one_mul]
    ring

theorem sumFrom_eq (lo hi : Nat) (f : Nat → K) : sumFrom lo hi f = ∑ k ∈ Ico lo hi, f k := by
  unfold sumFrom
  have := foldl_add_range'' f 0 lo (hi - lo)
  by_cases h : lo ≤ hi
  · rw [Nat.add_sub_cancel' h, zero_add] at this; exact this
  · have h0 : hi - lo = 0 := by omega
    rw [h0]; simp [Finset.Ico_eq_empty (by omega : ¬ lo < hi)]

theorem subFrom_eq (a : K) (lo hi : Nat) (f : Nat → K) : subFrom a lo hi f = a - ∑ k ∈ Ico lo hi, f k := by
  unfold subFrom
  have := foldl_sub_range'' f a lo (hi - lo)
  by_cases h : lo ≤ hi
  · rw [Nat.add_sub_cancel' h] at this; exact this
  · have h0 : hi - lo = 0 := by omega
    rw [h0]; simp [Finset.Ico_eq_empty (by omega : ¬ lo < hi)]

theorem addFrom_eq (a : K) (lo hi : Nat) (f : Nat → K) : addFrom a lo hi f = a + ∑ k ∈ Ico lo hi, f k := by
  unfold addFrom
  have := foldl_add_range'' f a lo (hi - lo)
  by_cases h : lo ≤ hi
  · rw [Nat.add_sub_cancel' h] at this; exact this
  · have h0 : hi - lo = 0 := by omega
    rw [h0]; simp [Finset.Ico_eq_empty (by omega : ¬ lo < hi)]

theorem sget_comm (a : DMat K) (u v : Nat) : sget a u v = sget a v u := by
  unfold sget
  by_cases h1 : v ≤ u <;> by_cases h2 : u ≤ v
  · have : u = v := by omega
    subst this; rfl
  · simp [h1, h2]
  · simp [h1, h2]
  · omega

end
end Gama.Ls
