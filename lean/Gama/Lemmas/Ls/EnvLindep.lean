/-
  Envelope solver, dependent-unknown flags (C20): for a Gram matrix with unambiguous pivots
      `D(k) = 0  ⇔  column k ∈ span{columns j < k}`      (processing order = new numbering).
-/
import Gama.Lemmas.Ls.EnvGram
import Mathlib.LinearAlgebra.Span.Defs
import Mathlib.LinearAlgebra.Matrix.DotProduct

namespace Gama.Ls.Env
open Finset Matrix

variable {K : Type} [Field K] [LinearOrder K] [IsStrictOrderedRing K]

/-- column `k` of `M` (first `m` rows) as a vector -/
def colV (m : ℕ) (M : ℕ → ℕ → K) (k : ℕ) : Fin m → K := fun r => M r k
/-- Gram–Schmidt vector `q_k` as a vector -/
def gsqV (m : ℕ) (M L : ℕ → ℕ → K) (k : ℕ) : Fin m → K := fun r => gsq M L k r

theorem ip_eq_dotProduct (m : ℕ) (a b : ℕ → K) :
    ip m a b = (fun r : Fin m => a r) ⬝ᵥ (fun r : Fin m => b r) := by
  simp only [ip, dotProduct]
  exact (Fin.sum_univ_eq_sum_range (fun r => a r * b r) m).symm

theorem gsqV_eq (m : ℕ) (M L : ℕ → ℕ → K) (k : ℕ) :
    gsqV m M L k = colV m M k - ∑ j ∈ range k, L k j • gsqV m M L j := by
  ext r
  simp only [gsqV, colV, Pi.sub_apply, Finset.sum_apply, Pi.smul_apply, smul_eq_mul]
  exact gsq_eq M L k r

/-- `q_k ∈ span{m_j | j ≤ k}` and `m_k − q_k ∈ span{m_j | j < k}` -/
theorem gsqV_mem_span (m : ℕ) (M L : ℕ → ℕ → K) (k : ℕ) :
    gsqV m M L k ∈ Submodule.span K (colV m M '' {j | j ≤ k})
    ∧ colV m M k - gsqV m M L k ∈ Submodule.span K (colV m M '' {j | j < k}) := by
  induction k using Nat.strong_induction_on with
  | _ k ih =>
  have h2 : colV m M k - gsqV m M L k ∈ Submodule.span K (colV m M '' {j | j < k}) := by
    rw [gsqV_eq m M L k, sub_sub_cancel]
    refine Submodule.sum_mem _ fun j hj => Submodule.smul_mem _ _ ?_
    have hj' := mem_range.1 hj
    have hsub : colV m M '' {i | i ≤ j} ⊆ colV m M '' {i | i < k} :=
      Set.image_mono (fun i (hi : i ≤ j) => (lt_of_le_of_lt hi hj' : i < k))
    exact Submodule.span_mono hsub (ih j hj').1
  refine ⟨?_, h2⟩
  have h3 : colV m M k ∈ Submodule.span K (colV m M '' {j | j ≤ k}) :=
    Submodule.subset_span ⟨k, le_refl k, rfl⟩
  have hsub : colV m M '' {i | i < k} ⊆ colV m M '' {i | i ≤ k} :=
    Set.image_mono (fun i (hi : i < k) => (le_of_lt hi : i ≤ k))
  have h4 : colV m M k - gsqV m M L k ∈ Submodule.span K (colV m M '' {j | j ≤ k}) :=
    Submodule.span_mono hsub h2
  have := Submodule.sub_mem _ h3 h4
  rwa [sub_sub_cancel] at this

section
variable {m n : ℕ} {M : ℕ → ℕ → K} {N : ℕ → ℕ → K} {L : ℕ → ℕ → K} {D : ℕ → K} {y : ℕ → ℕ → K}

/-- `q_k` is orthogonal to every earlier column -/
theorem col_dot_gsq_zero (hN : ∀ i < n, ∀ j < n, N i j = ip m (fun r => M r i) (fun r => M r j))
    (h : IsLDL N n L D y) {k : ℕ} (hk : k < n) {i : ℕ} (hi : i < k) :
    colV m M i ⬝ᵥ gsqV m M L k = 0 := by
  have hC := (gram_invariant hN h k hk).2.2.1
  have e : colV m M i = gsqV m M L i + ∑ j ∈ range i, L i j • gsqV m M L j := by
    rw [gsqV_eq m M L i]; exact (sub_add_cancel _ _).symm
  rw [e, add_dotProduct, sum_dotProduct]
  have h1 : gsqV m M L i ⬝ᵥ gsqV m M L k = 0 := by
    have := hC i hi; rwa [ip_eq_dotProduct] at this
  rw [h1, zero_add]
  refine sum_eq_zero fun j hj => ?_
  have hj' := mem_range.1 hj
  have := hC j (hj'.trans hi)
  rw [ip_eq_dotProduct] at this
  rw [smul_dotProduct]
  show L i j • (gsqV m M L j ⬝ᵥ gsqV m M L k) = 0
  rw [show gsqV m M L j ⬝ᵥ gsqV m M L k = 0 from this, smul_zero]

/-- **C20**: a pivot is zero iff its column is a linear combination of the earlier columns -/
theorem pivot_zero_iff_mem_span (hN : ∀ i < n, ∀ j < n, N i j = ip m (fun r => M r i) (fun r => M r j))
    (h : IsLDL N n L D y) {k : ℕ} (hk : k < n) :
    D k = 0 ↔ colV m M k ∈ Submodule.span K (colV m M '' {j | j < k}) := by
  constructor
  · intro h0
    have hq : gsqV m M L k = 0 := by
      ext r; exact (gram_pivot_zero_iff hN h hk).1 h0 r r.2
    have := (gsqV_mem_span m M L k).2
    rwa [hq, sub_zero] at this
  · intro hmem
    have horth : ∀ v ∈ Submodule.span K (colV m M '' {j | j < k}), v ⬝ᵥ gsqV m M L k = 0 := by
      intro v hv
      induction hv using Submodule.span_induction with
      | mem x hx =>
        obtain ⟨i, hi, rfl⟩ := hx
        exact col_dot_gsq_zero hN h hk hi
      | zero => exact zero_dotProduct _
      | add x y _ _ hx hy => rw [add_dotProduct, hx, hy, add_zero]
      | smul a x _ hx => rw [smul_dotProduct, hx, smul_zero]
    have hB := (gram_invariant hN h k hk).2.1
    rw [ip_eq_dotProduct] at hB
    rw [← hB]
    exact horth _ hmem


/-- **C20**: the columns that are NOT flagged are linearly independent — deleting the flagged
    unknowns leaves a matrix of full column rank -/
theorem unflagged_independent (hN : ∀ i < n, ∀ j < n, N i j = ip m (fun r => M r i) (fun r => M r j))
    (h : IsLDL N n L D y) (c : ℕ → K) :
    ∀ k ≤ n, ∑ j ∈ (range k).filter (fun j => D j ≠ 0), c j • colV m M j = 0 →
      ∀ j < k, D j ≠ 0 → c j = 0 := by
  intro k
  induction k with
  | zero => intro _ _ j hj; omega
  | succ k ih =>
    intro hk hsum j hj hDj
    by_cases hDk : D k = 0
    · have e : (range (k + 1)).filter (fun j => D j ≠ 0) = (range k).filter (fun j => D j ≠ 0) := by
        rw [range_add_one, filter_insert, if_neg (by simpa using hDk)]
      rw [e] at hsum
      have hjk : j ≠ k := fun hh => hDj (hh ▸ hDk)
      exact ih (by omega) hsum j (by omega) hDj
    · have e : (range (k + 1)).filter (fun j => D j ≠ 0) = insert k ((range k).filter (fun j => D j ≠ 0)) := by
        rw [range_add_one, filter_insert, if_pos hDk]
      rw [e, sum_insert (by simp)] at hsum
      have hck : c k = 0 := by
        by_contra hne
        apply hDk
        rw [pivot_zero_iff_mem_span hN h (by omega : k < n)]
        have : colV m M k = -(c k)⁻¹ • ∑ j ∈ (range k).filter (fun j => D j ≠ 0), c j • colV m M j := by
          have h2 : c k • colV m M k = - ∑ j ∈ (range k).filter (fun j => D j ≠ 0), c j • colV m M j :=
            eq_neg_of_add_eq_zero_left hsum
          rw [neg_smul, ← smul_neg, ← h2, smul_smul, inv_mul_cancel₀ hne, one_smul]
        rw [this]
        refine Submodule.smul_mem _ _ (Submodule.sum_mem _ fun j hj => Submodule.smul_mem _ _ ?_)
        have hj' := mem_range.1 (mem_filter.1 hj).1
        exact Submodule.subset_span ⟨j, hj', rfl⟩
      rw [hck, zero_smul, zero_add] at hsum
      rcases Nat.lt_or_ge j k with hlt | hge
      · exact ih (by omega) hsum j hlt hDj
      · have : j = k := by omega
        rw [this]; exact hck

end
end Gama.Ls.Env
