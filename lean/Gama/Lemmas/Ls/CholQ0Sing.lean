/-
  The cofactor recursion in the singular case: on the `N0` accepted pivots `Q0` is the inverse of
  the leading block of `N` (pivot order), zero elsewhere; hence `N Q0 N = N`, `Q0 N Q0 = Q0`.
-/
import Gama.Lemmas.Ls.CholQ0
import Gama.Lemmas.Ls.CholSingular

namespace Gama.Ls
open Finset Dn Chol Matrix

set_option linter.unusedSectionVars false
set_option linter.unusedVariables false

section
variable {K : Type} [Field K] [LinearOrder K] [IsStrictOrderedRing K] [SqrtFn K]
attribute [local instance 2000] scalarOfField

/-- `Q0₁₁ · N₁₁ = 1` on the accepted pivots (positions `< N0`) -/
theorem q0_block_inverse {n N0 : Nat} {Nf : Nat → Nat → K} {perm : Array Nat} {a : DMat K}
    (h : LDLFin n Nf perm a N0) (Z : DMat K) (hZ : Q0Spec n N0 perm a Z) :
    ∀ i l, i < N0 → l < N0 →
      ∑ jj ∈ range N0, sget Z (pget perm i) (pget perm jj) * Nf (pget perm jj) (pget perm l)
        = if i = l then 1 else 0 := by
  have hP := h.isPerm
  have hN0 := h.le
  have hd : ∀ k, k < N0 → dd perm a k ≠ 0 := fun k hk => ne_of_gt (h.pos k hk)
  let Um : Matrix (Fin N0) (Fin N0) K := Matrix.of fun i k =>
    if k.val = i.val then 1 else if i.val < k.val then sget a (pget perm i.val) (pget perm k.val) else 0
  let Zm : Matrix (Fin N0) (Fin N0) K := Matrix.of fun i j => sget Z (pget perm i.val) (pget perm j.val)
  let Dm : Matrix (Fin N0) (Fin N0) K := Matrix.diagonal fun i => dd perm a i.val
  let Dinv : Matrix (Fin N0) (Fin N0) K := Matrix.diagonal fun i => (dd perm a i.val)⁻¹
  have hZs : Zmᵀ = Zm := by
    funext i j; exact sget_comm Z _ _
  have hE : ∀ i j : Fin N0, i.val ≤ j.val → (Um * Zm) i j = if i = j then (dd perm a i.val)⁻¹ else 0 := by
    intro i j hij
    rw [Matrix.mul_apply]
    show ∑ k : Fin N0, (if k.val = i.val then 1 else if i.val < k.val then
        sget a (pget perm i.val) (pget perm k.val) else 0) * sget Z (pget perm k.val) (pget perm j.val) = _
    rw [Fin.sum_univ_eq_sum_range (fun k => (if k = i.val then 1 else if i.val < k then
        sget a (pget perm i.val) (pget perm k) else 0) * sget Z (pget perm k) (pget perm j.val)) N0,
      sum_tri_gt N0 i.val i.isLt (fun k => sget a (pget perm i.val) (pget perm k))
        (fun k => sget Z (pget perm k) (pget perm j.val))]
    rw [hZ.recur j.val i.val j.isLt hij]
    by_cases e : i = j
    · subst e; simp
    · have : i.val ≠ j.val := fun h => e (Fin.ext h)
      simp [e, this]
  have hWsym : (Um * Zm * Umᵀ)ᵀ = Um * Zm * Umᵀ := by
    rw [Matrix.transpose_mul, Matrix.transpose_mul, Matrix.transpose_transpose, hZs, Matrix.mul_assoc]
  have hWle : ∀ i j : Fin N0, i.val ≤ j.val → (Um * Zm * Umᵀ) i j = Dinv i j := by
    intro i j hij
    rw [Matrix.mul_apply]
    have hterm : ∀ k : Fin N0, k ≠ i → (Um * Zm) i k * Umᵀ k j = 0 := by
      intro k hk
      by_cases hkj : k.val < j.val
      · have : Umᵀ k j = 0 := by
          show (if k.val = j.val then (1 : K) else if j.val < k.val then _ else 0) = 0
          rw [if_neg (by omega), if_neg (by omega)]
        rw [this, mul_zero]
      · have hik : i.val ≤ k.val := by omega
        rw [hE i k hik, if_neg (fun e => hk e.symm), zero_mul]
    rw [Finset.sum_eq_single i (fun k _ hk => hterm k hk) (by simp)]
    rw [hE i i (le_refl _), if_pos rfl]
    show _ * (if i.val = j.val then (1 : K) else if j.val < i.val then _ else 0) = _
    by_cases e : i = j
    · subst e; simp [Dinv]
    · have : i.val ≠ j.val := fun h => e (Fin.ext h)
      rw [if_neg this, if_neg (by omega), mul_zero]
      simp [Dinv, e]
  have hW : Um * Zm * Umᵀ = Dinv := by
    funext i j
    by_cases hij : i.val ≤ j.val
    · exact hWle i j hij
    · have := hWle j i (by omega)
      rw [← hWsym, Matrix.transpose_apply, this]
      have e : j ≠ i := fun h => hij (by rw [h])
      simp [Dinv, e, e.symm]
  have hDD : Dinv * Dm = 1 := by
    rw [Matrix.diagonal_mul_diagonal]
    have : (fun i : Fin N0 => (dd perm a i.val)⁻¹ * dd perm a i.val) = fun _ => 1 := by
      funext i; exact inv_mul_cancel₀ (hd i.val i.isLt)
    rw [this, Matrix.diagonal_one]
  have h1 : Um * (Zm * Umᵀ * Dm) = 1 := by
    rw [← Matrix.mul_assoc, ← Matrix.mul_assoc, hW, hDD]
  have h2 : (Zm * Umᵀ * Dm) * Um = 1 := mul_eq_one_comm.1 h1
  have h3 : Zm * (Umᵀ * Dm * Um) = 1 := by
    rw [← h2]; simp only [Matrix.mul_assoc]
  have hN : ∀ j l : Fin N0, (Umᵀ * Dm * Um) j l = Nf (pget perm j.val) (pget perm l.val) := by
    intro j l
    have hjn : j.val < n := by have := j.isLt; omega
    have hln : l.val < n := by have := l.isLt; omega
    rw [h.dec _ _ (hP.lt j.val hjn) (hP.lt l.val hln), Matrix.mul_apply]
    rw [← Fin.sum_univ_eq_sum_range
      (fun k => ell n perm a k (pget perm j.val) * dd perm a k * ell n perm a k (pget perm l.val)) N0]
    refine Finset.sum_congr rfl fun k _ => ?_
    rw [Matrix.mul_diagonal, Matrix.transpose_apply]
    rw [ell_perm hP a k.val j.val hjn, ell_perm hP a k.val l.val hln]
    show (if j.val = k.val then (1 : K) else if k.val < j.val then sget a (pget perm k.val) (pget perm j.val) else 0)
        * dd perm a k.val *
      (if l.val = k.val then (1 : K) else if k.val < l.val then sget a (pget perm k.val) (pget perm l.val) else 0) = _
    rw [sget_comm a (pget perm k.val) (pget perm j.val), sget_comm a (pget perm k.val) (pget perm l.val)]
  intro i l hi hl
  have := congrFun (congrFun h3 ⟨i, hi⟩) ⟨l, hl⟩
  rw [Matrix.mul_apply] at this
  rw [← Fin.sum_univ_eq_sum_range (fun jj => sget Z (pget perm i) (pget perm jj) * Nf (pget perm jj) (pget perm l)) N0]
  have e2 : ∀ j : Fin N0, sget Z (pget perm i) (pget perm j.val) * Nf (pget perm j.val) (pget perm l)
      = Zm ⟨i, hi⟩ j * (Umᵀ * Dm * Um) j ⟨l, hl⟩ := by
    intro j; rw [hN j ⟨l, hl⟩]; rfl
  rw [Finset.sum_congr rfl (fun j _ => e2 j), this, Matrix.one_apply]
  by_cases e : i = l
  · subst e; simp
  · have : (⟨i, hi⟩ : Fin N0) ≠ ⟨l, hl⟩ := fun h' => e (Fin.mk.inj h')
    simp [e, this]

/-- a sum over the unknowns of a function vanishing on the dependent ones -/
theorem sum_lead {n N0 : Nat} {perm : Array Nat} (hP : IsPerm n perm) (hN0 : N0 ≤ n) (F : Nat → K)
    (hF : ∀ jj, N0 ≤ jj → jj < n → F (pget perm jj) = 0) :
    ∑ v ∈ range n, F v = ∑ jj ∈ range N0, F (pget perm jj) := by
  rw [sum_perm hP F, Finset.range_eq_Ico, ← Finset.sum_Ico_consecutive _ (Nat.zero_le N0) hN0]
  have : ∑ jj ∈ Ico N0 n, F (pget perm jj) = 0 :=
    Finset.sum_eq_zero fun jj hjj => by
      have := Finset.mem_Ico.1 hjj
      exact hF jj this.1 this.2
  rw [this, add_zero, Finset.range_eq_Ico]

/-- if `N y = Aᵀ β` holds on the independent rows it holds on all rows -/
theorem normal_rows_ext {m n N0 : Nat} {A : DMat K} {perm : Array Nat} {a : DMat K}
    (h : LDLFin n (normalF m A) perm a N0) (y β : Nat → K)
    (hind : ∀ ii, ii < N0 → ∑ v ∈ range n, normalF m A (pget perm ii) v * y v
      = ∑ k ∈ range m, mget A k (pget perm ii) * β k) :
    ∀ z, z < n → ∑ v ∈ range n, normalF m A z v * y v = ∑ k ∈ range m, mget A k z * β k := by
  have hP := h.isPerm
  have hN0 := h.le
  intro z hz
  obtain ⟨ii, hii, rfl⟩ := hP.surj z hz
  by_cases hlt : ii < N0
  · exact hind ii hlt
  · have hge : N0 ≤ ii := by omega
    set j := ii - N0 with hj
    have hjn : N0 + j < n := by omega
    obtain ⟨g1, g2⟩ := gcol_spec h j hjn
    let res : Nat → K := fun z => ∑ v ∈ range n, normalF m A z v * y v - ∑ k ∈ range m, mget A k z * β k
    have hres : ∀ z, res z = ∑ k ∈ range m, mget A k z * (∑ v ∈ range n, mget A k v * y v - β k) := by
      intro z
      simp only [res]
      rw [gram_mul, ← Finset.sum_sub_distrib]
      exact Finset.sum_congr rfl fun k _ => by ring
    have hsum : ∑ z ∈ range n, vget (gcol n N0 perm a j) z * res z = 0 := by
      have : ∀ z ∈ range n, vget (gcol n N0 perm a j) z * res z
          = ∑ k ∈ range m, (mget A k z * vget (gcol n N0 perm a j) z) * (∑ v ∈ range n, mget A k v * y v - β k) := by
        intro z _
        rw [hres z, Finset.mul_sum]
        exact Finset.sum_congr rfl fun k _ => by ring
      rw [Finset.sum_congr rfl this, Finset.sum_comm]
      refine Finset.sum_eq_zero fun k hk => ?_
      rw [← Finset.sum_mul, g1 k (Finset.mem_range.1 hk), zero_mul]
    rw [sum_perm hP (fun z => vget (gcol n N0 perm a j) z * res z), Finset.sum_eq_single ii] at hsum
    · rw [g2 ii hge hii, if_pos (by omega)] at hsum
      have : res (pget perm ii) = 0 := by
        have := hsum; simp at this; exact this
      simp only [res] at this
      exact sub_eq_zero.1 this
    · intro jj hjj hne
      have hjj' := Finset.mem_range.1 hjj
      by_cases hl2 : jj < N0
      · have : res (pget perm jj) = 0 := by simp only [res]; rw [hind jj hl2, sub_self]
        rw [this, mul_zero]
      · rw [g2 jj (by omega) hjj', if_neg (by omega), zero_mul]
    · intro hnot; exact absurd (Finset.mem_range.2 hii) hnot

/-- **`Q0` is a reflexive generalised inverse of `N`** (entrywise, original indices) -/
theorem q0_ginverse {m n N0 : Nat} {A : DMat K} {perm : Array Nat} {a : DMat K}
    (h : LDLFin n (normalF m A) perm a N0) (Z : DMat K) (hZ : Q0Spec n N0 perm a Z) :
    (∀ z w, z < n → w < n →
      ∑ v ∈ range n, normalF m A z v * (∑ v' ∈ range n, sget Z v v' * normalF m A v' w) = normalF m A z w) ∧
    (∀ u w, u < n → w < n →
      ∑ v ∈ range n, (∑ v' ∈ range n, sget Z u v' * normalF m A v' v) * sget Z v w = sget Z u w) := by
  have hP := h.isPerm
  have hN0 := h.le
  have hinv := q0_block_inverse h Z hZ
  have hNsym : ∀ u v, normalF m A u v = normalF m A v u := by
    intro u v; unfold normalF; exact Finset.sum_congr rfl fun k _ => mul_comm _ _
  -- (Q0 N)(p i, w) restricted to the leading block
  have hZtr : ∀ jj v, N0 ≤ jj → jj < n → v < n → sget Z (pget perm jj) v = 0 := by
    intro jj v h1 h2 hv
    exact hZ.zero _ _ (hP.lt jj h2) hv (Or.inl (by rw [qq_perm hP jj h2]; exact h1))
  have hZtr' : ∀ jj v, N0 ≤ jj → jj < n → v < n → sget Z v (pget perm jj) = 0 := by
    intro jj v h1 h2 hv; rw [sget_comm]; exact hZtr jj v h1 h2 hv
  have hQN : ∀ i w, i < N0 → w < n → ∑ v' ∈ range n, sget Z (pget perm i) v' * normalF m A v' w
      = ∑ l ∈ range N0, sget Z (pget perm i) (pget perm l) * normalF m A (pget perm l) w := by
    intro i w hi hw
    exact sum_lead hP hN0 _ (fun jj h1 h2 => by rw [hZtr' jj _ h1 h2 (hP.lt i (by omega)), zero_mul])
  refine ⟨?_, ?_⟩
  · intro z w hz hw
    let y : Nat → K := fun v => ∑ v' ∈ range n, sget Z v v' * normalF m A v' w
    have hytr : ∀ jj, N0 ≤ jj → jj < n → y (pget perm jj) = 0 := by
      intro jj h1 h2
      exact Finset.sum_eq_zero fun v' hv' => by rw [hZtr jj v' h1 h2 (Finset.mem_range.1 hv'), zero_mul]
    have hgoal := normal_rows_ext h y (fun k => mget A k w) (by
      intro ii hii
      have hiin : ii < n := by omega
      rw [sum_lead hP hN0 (fun v => normalF m A (pget perm ii) v * y v)
        (fun jj h1 h2 => by rw [hytr jj h1 h2, mul_zero])]
      have : ∀ jj ∈ range N0, normalF m A (pget perm ii) (pget perm jj) * y (pget perm jj)
          = ∑ l ∈ range N0, (sget Z (pget perm l) (pget perm jj) * normalF m A (pget perm jj) (pget perm ii))
              * normalF m A (pget perm l) w := by
        intro jj hjj
        simp only [y]
        rw [hQN jj w (Finset.mem_range.1 hjj) hw, Finset.mul_sum]
        refine Finset.sum_congr rfl fun l _ => ?_
        rw [sget_comm Z (pget perm l) (pget perm jj), hNsym (pget perm jj) (pget perm ii)]
        ring
      rw [Finset.sum_congr rfl this, Finset.sum_comm]
      have h2 : ∀ l ∈ range N0, ∑ jj ∈ range N0,
          (sget Z (pget perm l) (pget perm jj) * normalF m A (pget perm jj) (pget perm ii)) * normalF m A (pget perm l) w
          = (if l = ii then 1 else 0) * normalF m A (pget perm l) w := by
        intro l hl
        rw [← Finset.sum_mul, hinv l ii (Finset.mem_range.1 hl) hii]
      rw [Finset.sum_congr rfl h2, Finset.sum_eq_single ii]
      · rw [if_pos rfl, one_mul]; unfold normalF
        exact Finset.sum_congr rfl fun k _ => rfl
      · intro l _ hne; rw [if_neg hne, zero_mul]
      · intro hnot; exact absurd (Finset.mem_range.2 hii) hnot) z hz
    rw [hgoal]
    unfold normalF; rfl
  · intro u w hu hw
    obtain ⟨i, hi, rfl⟩ := hP.surj u hu
    by_cases hlt : i < N0
    · have hrow : ∀ v, v < n → ∑ v' ∈ range n, sget Z (pget perm i) v' * normalF m A v' v
          = ∑ l ∈ range N0, sget Z (pget perm i) (pget perm l) * normalF m A (pget perm l) v :=
        fun v hv => hQN i v hlt hv
      rw [sum_lead hP hN0 (fun v => (∑ v' ∈ range n, sget Z (pget perm i) v' * normalF m A v' v) * sget Z v w)
        (fun jj h1 h2 => by rw [hZtr jj w h1 h2 hw, mul_zero])]
      have : ∀ jj ∈ range N0,
          (∑ v' ∈ range n, sget Z (pget perm i) v' * normalF m A v' (pget perm jj)) * sget Z (pget perm jj) w
          = (if i = jj then 1 else 0) * sget Z (pget perm jj) w := by
        intro jj hjj
        have hjj' := Finset.mem_range.1 hjj
        rw [hrow _ (hP.lt jj (by omega)), hinv i jj hlt hjj']
      rw [Finset.sum_congr rfl this, Finset.sum_eq_single i]
      · rw [if_pos rfl, one_mul]
      · intro l _ hne; rw [if_neg (fun e => hne e.symm), zero_mul]
      · intro hnot; exact absurd (Finset.mem_range.2 hlt) hnot
    · have h0 : ∀ v, v < n → sget Z (pget perm i) v = 0 := fun v hv => hZtr i v (by omega) hi hv
      rw [h0 w hw]
      refine Finset.sum_eq_zero fun v hv => ?_
      have : ∑ v' ∈ range n, sget Z (pget perm i) v' * normalF m A v' v = 0 :=
        Finset.sum_eq_zero fun v' hv' => by rw [h0 v' (Finset.mem_range.1 hv'), zero_mul]
      rw [this, zero_mul]

end
end Gama.Ls
