/-
  The ordering `AdjEnvelope` actually uses — reverse Cuthill–McKee on the graph of the homogenised
  sparse matrix (`Ls.Env.rcmOrd`, Model/Ls/Env.lean) — is a valid ordering (`OrdOK`) whenever the
  column indices of the pattern are in range: glue between C16's `rcm_isPerm`
  (Lemmas/RCMPerm.lean) and the hypothesis `hO` of every envelope theorem.
-/
import Gama.Lemmas.GraphAdj
import Gama.Lemmas.RCMPerm
import Gama.Lemmas.Ls.EnvAnswer

namespace Gama.Ls.Env
open Gama

set_option linter.unusedSectionVars false

/-- contents and order of the edge set collected from a list of column patterns -/
theorem foldl_rowEdges_spec (q : Nat × Nat) : ∀ (pat : List (List Nat)) (es : List (Nat × Nat)),
    (PSorted es → PSorted (pat.foldl (fun es cols => rowEdges cols es) es)) ∧
    (q ∈ pat.foldl (fun es cols => rowEdges cols es) es ↔
      q ∈ es ∨ ∃ cols ∈ pat, q.1 ≠ q.2 ∧ q.1 ∈ cols ∧ q.2 ∈ cols) := by
  intro pat
  induction pat with
  | nil => intro es; simp
  | cons c pat ih =>
    intro es
    have ih := ih (rowEdges c es)
    have hr := rowEdges_spec q c es
    rw [List.foldl_cons]
    refine ⟨fun hs => ih.1 (hr.1 hs), ih.2.trans ?_⟩
    rw [hr.2]
    constructor
    · rintro ((h | h) | ⟨c', hc', h⟩)
      · exact Or.inl h
      · exact Or.inr ⟨c, List.mem_cons_self, h⟩
      · exact Or.inr ⟨c', List.mem_cons_of_mem _ hc', h⟩
    · rintro (h | ⟨c', hc', h⟩)
      · exact Or.inl (Or.inl h)
      · rcases List.mem_cons.1 hc' with e | hc'
        · subst e; exact Or.inl (Or.inr h)
        · exact Or.inr ⟨c', hc', h⟩

/-- the graph `rcmOrd` builds -/
def patGraph (n : Nat) (pat : Array (List Nat)) : Adj :=
  adjOfEdges n (pat.foldl (fun es cols => rowEdges cols es) [])

theorem patGraph_nbrs_iff (n : Nat) (pat : Array (List Nat))
    (hpat : ∀ cols ∈ pat.toList, ∀ c ∈ cols, 1 ≤ c ∧ c ≤ n) (i j : Nat) (hi : 1 ≤ i) (hi' : i ≤ n) :
    j ∈ (patGraph n pat).nbrs i ↔ i ≠ j ∧ ∃ cols ∈ pat.toList, i ∈ cols ∧ j ∈ cols := by
  unfold patGraph
  rw [← Array.foldl_toList]
  have hsorted : PSorted (pat.toList.foldl (fun es cols => rowEdges cols es) []) :=
    (foldl_rowEdges_spec (0, 0) pat.toList []).1 List.Pairwise.nil
  have hmem : ∀ a b, (a, b) ∈ pat.toList.foldl (fun es cols => rowEdges cols es) [] ↔
      a ≠ b ∧ ∃ cols ∈ pat.toList, a ∈ cols ∧ b ∈ cols := by
    intro a b
    rw [(foldl_rowEdges_spec (a, b) pat.toList []).2]
    simp only [List.not_mem_nil, false_or]
    constructor
    · rintro ⟨cols, hc, hne, ha, hb⟩; exact ⟨hne, cols, hc, ha, hb⟩
    · rintro ⟨hne, cols, hc, ha, hb⟩; exact ⟨cols, hc, hne, ha, hb⟩
  rw [adjOfEdges_nbrs n _ (hsorted.imp fun hab => pairLt_fst_le hab) ?_ i hi hi', mem_edgeSeg, hmem]
  rintro ⟨a, b⟩ hp
  obtain ⟨_, cols, hc, ha, _⟩ := (hmem a b).1 hp
  exact (hpat cols hc a ha).1

theorem patGraph_inRange (n : Nat) (pat : Array (List Nat))
    (hpat : ∀ cols ∈ pat.toList, ∀ c ∈ cols, 1 ≤ c ∧ c ≤ n) : (patGraph n pat).InRange := by
  intro i hi hi' j hj
  have hn : (patGraph n pat).nodes = n := rfl
  rw [hn] at hi' ⊢
  obtain ⟨_, cols, hc, _, hjc⟩ := (patGraph_nbrs_iff n pat hpat i j hi hi').1 hj
  exact hpat cols hc j hjc

theorem patGraph_sym (n : Nat) (pat : Array (List Nat))
    (hpat : ∀ cols ∈ pat.toList, ∀ c ∈ cols, 1 ≤ c ∧ c ≤ n) : (patGraph n pat).Sym := by
  intro i j hi hi' hj hj' hm
  have hn : (patGraph n pat).nodes = n := rfl
  rw [hn] at hi' hj'
  obtain ⟨hne, cols, hc, hic, hjc⟩ := (patGraph_nbrs_iff n pat hpat i j hi hi').1 hm
  exact (patGraph_nbrs_iff n pat hpat j i hj hj').2 ⟨fun e => hne e.symm, cols, hc, hjc, hic⟩

/-- **the code's ordering is valid**: reverse Cuthill–McKee of the pattern graph gives a pair of
    mutually inverse index maps of `0..n-1` (C16: `rcm_isPerm`) -/
theorem rcmOrd_ok (n : Nat) (pat : Array (List Nat))
    (hpat : ∀ cols ∈ pat.toList, ∀ c ∈ cols, 1 ≤ c ∧ c ≤ n) : OrdOK n (rcmOrd n pat) := by
  have hP : (rcm (patGraph n pat)).IsPerm n :=
    rcm_isPerm (patGraph n pat) (patGraph_inRange n pat hpat) (patGraph_sym n pat hpat)
  have hperm : ∀ i, i < n → (rcmOrd n pat).perm.getD i 0 = (rcm (patGraph n pat)).perm[i + 1]! - 1 := by
    intro i hi
    show (Array.ofFn (n := n) fun i => (rcm (patGraph n pat)).perm[i.1 + 1]! - 1).getD i 0 = _
    simp [Array.getD, hi]
  have hinvp : ∀ i, i < n → (rcmOrd n pat).invp.getD i 0 = (rcm (patGraph n pat)).invp[i + 1]! - 1 := by
    intro i hi
    show (Array.ofFn (n := n) fun i => (rcm (patGraph n pat)).invp[i.1 + 1]! - 1).getD i 0 = _
    simp [Array.getD, hi]
  refine ⟨fun i hi => ?_, fun j hj => ?_, fun i hi => ?_, fun j hj => ?_⟩
  · rw [hperm i hi]
    have := hP.perm_range (i + 1) (by omega) (by omega)
    omega
  · rw [hinvp j hj]
    have := hP.invp_range (j + 1) (by omega) (by omega)
    omega
  · have h1 := hP.perm_range (i + 1) (by omega) (by omega)
    rw [hperm i hi, hinvp _ (by omega), Nat.sub_add_cancel h1.1, hP.invp_perm (i + 1) (by omega) (by omega)]
    omega
  · have h1 := hP.invp_range (j + 1) (by omega) (by omega)
    rw [hinvp j hj, hperm _ (by omega), Nat.sub_add_cancel h1.1, hP.perm_invp (j + 1) (by omega) (by omega)]
    omega

end Gama.Ls.Env
