/-
  Envelope solver: `defect()` counts the pivots that fired the zero test; with
  `Unambiguous` those are exactly the zero pivots (`lindep`).
-/
import Gama.Lemmas.Ls.EnvX0
import Mathlib.Data.Finset.Card

namespace Gama.Ls.Env
open Finset

set_option linter.unusedSectionVars false

variable {K : Type} [Field K] [LinearOrder K] [IsStrictOrderedRing K] (sq : K → K)
local notation "𝔽" => fieldScalar sq
variable (N : ℕ → ℕ → K) (tol : K)

theorem defectOf_ldl_succ (n : ℕ) :
    @defectOf K (@ldl K 𝔽 N tol (n + 1))
      = if |dpiv sq N tol n| < tol then @defectOf K (@ldl K 𝔽 N tol n) + 1 else @defectOf K (@ldl K 𝔽 N tol n) := by
  have : @ldl K 𝔽 N tol (n + 1) = (@ldl K 𝔽 N tol n).push (rowAt sq N tol n) := rfl
  rw [this]
  unfold defectOf
  rw [Array.foldl_push, rowAt_dep]
  simp

/-- `defect()` = number of pivots below the tolerance -/
theorem defectOf_ldl (n : ℕ) :
    @defectOf K (@ldl K 𝔽 N tol n) = ((range n).filter fun i => |dpiv sq N tol i| < tol).card := by
  induction n with
  | zero => rfl
  | succ n ih =>
    rw [defectOf_ldl_succ, ih, range_add_one, filter_insert]
    split
    · rw [card_insert_of_notMem (by simp)]
    · rfl

theorem defect_zero_iff (n : ℕ) : @defectOf K (@ldl K 𝔽 N tol n) = 0 ↔ Regular sq N tol n := by
  rw [defectOf_ldl, card_eq_zero, filter_eq_empty_iff]
  simp [Regular]

/-- with `Unambiguous`: `defect()` = number of zero pivots = number of `lindep` flags -/
theorem defectOf_eq_card_zero {n : ℕ} (hU : Unambiguous sq N tol n) (htol : 0 < tol) :
    @defectOf K (@ldl K 𝔽 N tol n) = ((range n).filter fun i => Df sq N tol i = 0).card := by
  rw [defectOf_ldl]
  congr 1
  refine filter_congr fun i hi => ?_
  exact (Df_zero_iff sq hU htol (mem_range.1 hi)).symm

end Gama.Ls.Env
