/-
  `AdjCholDec`, Gram–Schmidt stage: `Chol.GsUnamb p` (every `S`-norm² the loop tests is 0 or ≥
  `s_tol`) from the margin hypothesis `SMargin p.A p.S τ`, `s_tol ≤ τ²` (gap #6).

  The loop tests `dot(G_c, G_c)` over the list for the column at position `column` of `g_perm`
  BEFORE the pivot search.  `G_c` is a kernel vector (`GSInv.ker`).  New invariant `FlagInv`: every
  NOT YET PROCESSED column has `−1` at its own flagged unknown `perm(N0 + c)` and `0` at the flagged
  unknowns of the other unprocessed columns (true for the initial `G` by `gcol_spec`, kept by the
  pointer swap, and by the update `G_c −= dot·Ĝ_pivot` because the pivot column was unprocessed).
  So the tested vector has a coordinate `−1`, `‖G_c‖² ≥ 1`, and the margin gives
  `‖(G_c)_S‖² > τ² ≥ s_tol`.
-/
import Gama.Lemmas.Ls.Gap2
import Gama.Lemmas.Ls.CholSingular
import Gama.Lemmas.Ls.CholC20

namespace Gama.Ls
open Finset Dn Chol Matrix Gama.LS

set_option linter.unusedSectionVars false
set_option linter.unusedVariables false

section
variable {K : Type} [Field K] [LinearOrder K] [IsStrictOrderedRing K] [SqrtFn K]
attribute [local instance 2000] scalarOfField

/-- unprocessed kernel columns are `−e` on the flagged unknowns of the unprocessed columns;
    `f c` = the flagged unknown of the column with storage index `c` -/
def FlagInv (nullity : Nat) (f : Nat → Nat) (column : Nat) (gperm : Array Nat) (G : Array (Array K)) : Prop :=
  ∀ l l', column ≤ l → l < nullity → column ≤ l' → l' < nullity →
    vget (G.getD (pget gperm l) #[]) (f (pget gperm l')) = if l = l' then -1 else 0

theorem FlagInv.swap {nullity : Nat} {f : Nat → Nat} {column : Nat} {gperm : Array Nat} {G : Array (Array K)}
    (h : FlagInv nullity f column gperm G) (i : Nat) (hc : column ≤ i) (hi : i < nullity) :
    FlagInv nullity f column (swapP (nullity + 1) gperm column i) G := by
  have hg : ∀ l, l < nullity + 1 → pget (swapP (nullity + 1) gperm column i) l = pget gperm (swp column i l) :=
    fun l hl => pget_swapP' (nullity + 1) gperm column i l hl
  intro l l' h1 h2 h3 h4
  rw [hg l (by omega), hg l' (by omega)]
  have hsw : ∀ k, column ≤ k → k < nullity → column ≤ swp column i k ∧ swp column i k < nullity := by
    intro k hk1 hk2; unfold swp; split_ifs <;> omega
  rw [h _ _ (hsw l h1 h2).1 (hsw l h1 h2).2 (hsw l' h3 h4).1 (hsw l' h3 h4).2]
  have : swp column i l = swp column i l' ↔ l = l' := by
    unfold swp; split_ifs <;> omega
  by_cases e : l = l'
  · rw [if_pos (this.2 e), if_pos e]
  · rw [if_neg (fun h' => e (this.1 h')), if_neg e]

theorem FlagInv.core {n nullity : Nat} {S : List Nat} {f : Nat → Nat} (hf : ∀ c, c < nullity → f c < n)
    {column : Nat} {gp : Array Nat} {G : Array (Array K)} (h : FlagInv nullity f column gp G)
    (hP : IsPerm (nullity + 1) gp) (hlast : pget gp nullity = nullity) (hsz : G.size = nullity + 1)
    (hc : column < nullity) (pv : K) :
    FlagInv nullity f (column + 1) gp (gsCore n nullity S column gp G pv) := by
  obtain ⟨_, hcols⟩ := gsCore_cols (n := n) S pv hP hsz hc
  have hlt : ∀ l, l < nullity → pget gp l < nullity := by
    intro l hl
    have h1 := hP.lt l (by omega)
    have h2 : pget gp l ≠ nullity := by
      intro e
      have := hP.inj l nullity (by omega) (by omega) (by rw [e, hlast])
      omega
    omega
  intro l l' h1 h2 h3 h4
  have hv : f (pget gp l') < n := hf _ (hlt l' h4)
  rw [hcols l (by omega), if_neg (by omega), if_neg (by omega)]
  unfold gsUpd
  rw [vget_vmk, if_pos hv, vget_vmk, if_pos hv, h l l' (by omega) h2 (by omega) h4,
    h column l' (le_refl _) hc (by omega) h4, if_neg (show ¬ column = l' by omega)]
  simp

/-- `Σ_{S.toFinset} ≤ Σ` over the list (non-negative terms; the list may repeat an index) -/
theorem toFinset_sum_le_list_sum (S : List Nat) (F : Nat → K) (hF : ∀ r, 0 ≤ F r) :
    ∑ r ∈ S.toFinset, F r ≤ (S.map F).sum := by
  induction S with
  | nil => simp
  | cons x S ih =>
    rw [List.toFinset_cons, List.map_cons, List.sum_cons]
    by_cases hx : x ∈ S.toFinset
    · rw [Finset.insert_eq_of_mem hx]
      linarith [hF x]
    · rw [Finset.sum_insert hx]
      linarith

/-- **the Gram–Schmidt stage meets no ambiguous pivot** when every kernel vector with a coordinate
    `±1` has `S`-norm² above `τ² ≥ s_tol` -/
theorem gsUnambOK_of_margin {m n nullity : Nat} {A : DMat K} {S : List Nat} {x0 : Array K}
    (hS : ∀ r ∈ S, r < n) (f : Nat → Nat) (hf : ∀ c, c < nullity → f c < n) {τ : K} (hτ : (sTol : K) ≤ τ * τ)
    (hM : ∀ g : Nat → K, (∀ k, k < m → ∑ v ∈ range n, mget A k v * g v = 0) →
      (∃ u, u < n ∧ g u * g u = 1) → τ * τ < (S.map fun r => g r * g r).sum) :
    ∀ fuel column gperm (G : Array (Array K)), GSInv m n nullity A S x0 column gperm G →
      FlagInv nullity f column gperm G → column + fuel = nullity →
      gsSqrtOK n nullity S fuel column gperm G → gsUnambOK n nullity S fuel column gperm G := by
  intro fuel
  induction fuel with
  | zero => intro _ _ _ _ _ _ _; trivial
  | succ fuel ih =>
    intro column gperm G h hfl hc hok
    have hcn : column < nullity := by omega
    have hP := h.perm
    have hltc : pget gperm column < nullity := by
      have h1 := hP.lt column (by omega)
      have h2 : pget gperm column ≠ nullity := by
        intro e
        have := hP.inj column nullity (by omega) (by omega) (by rw [e, h.last])
        omega
      omega
    -- the tested value exceeds τ²
    have hval : τ * τ < gsVal S G gperm column := by
      unfold gsVal
      rw [dotS_eq]
      refine hM (fun v => vget (G.getD (pget gperm column) #[]) v) (h.ker column hcn)
        ⟨f (pget gperm column), hf _ hltc, ?_⟩
      show vget (G.getD (pget gperm column) #[]) (f (pget gperm column))
        * vget (G.getD (pget gperm column) #[]) (f (pget gperm column)) = 1
      rw [hfl column column (le_refl _) hcn (le_refl _) hcn, if_pos rfl]
      norm_num
    have hge : (sTol : K) ≤ gsVal S G gperm column := le_of_lt (lt_of_le_of_lt hτ hval)
    have hp : ¬ gsVal S G gperm column < (sTol : K) := not_lt.2 hge
    unfold gsUnambOK
    unfold gsSqrtOK at hok
    rw [if_neg hp] at hok ⊢
    obtain ⟨hsq, hok'⟩ := hok
    refine ⟨Or.inr hge, ?_⟩
    rw [gsStep_eq] at hsq hok' ⊢
    simp only [] at hsq hok' ⊢
    obtain ⟨i, h1, h2, h3, h4, h5, h6⟩ := gsSearch_spec S G gperm nullity column hcn
    have hpos : 0 < (gsSearch S G gperm nullity column (gsVal S G gperm column)).1 :=
      lt_of_lt_of_le (lt_of_lt_of_le sTol_pos hge) h6
    cases hps : (gsSearch S G gperm nullity column (gsVal S G gperm column)).2 with
    | none =>
      have hi := h4 hps
      subst hi
      simp only [hps] at hsq hok' ⊢
      exact ih _ _ _ (h.core hS hcn _ h3 hpos hsq)
        (hfl.core hf hP h.last h.size hcn _) (by omega) hok'
    | some j =>
      obtain ⟨hji, hcj⟩ := h5 j hps
      subst hji
      simp only [hps] at hsq hok' ⊢
      have hsw := h.swap j (le_of_lt hcj) h2
      have hflsw := hfl.swap j (le_of_lt hcj) h2
      refine ih _ _ _ (hsw.core hS hcn _ ?_ hpos hsq)
        (hflsw.core hf hsw.perm hsw.last hsw.size hcn _) (by omega) hok'
      rw [h3]
      unfold gsVal
      rw [pget_swapP (nullity + 1) gperm column j column (by omega), if_pos rfl]

/-- the margin of `(p.A, p.S)` for a vector on `ℕ` and the solver's list -/
theorem margin_list (p : Problem K) (S : List Nat) (hreg : regList p.n p.reg = some S) {τ : K}
    (hM : SMargin p.A p.S τ) (g : Nat → K)
    (hg : ∀ k, k < p.m → ∑ v ∈ range p.n, mget p.dense k v * g v = 0)
    (hu : ∃ u, u < p.n ∧ g u * g u = 1) : τ * τ < (S.map fun r => g r * g r).sum := by
  obtain ⟨u, hun, hu1⟩ := hu
  have hker : p.A *ᵥ (fun i : Fin p.n => g i.val) = 0 := by
    funext k
    rw [mulVec_extend]
    have : ∀ v ∈ range p.n, mget p.dense k.val v * extend (fun i : Fin p.n => g i.val) v
        = mget p.dense k.val v * g v := by
      intro v hv
      unfold extend; rw [dif_pos (Finset.mem_range.1 hv)]
    rw [Finset.sum_congr rfl this, hg k.val k.isLt]; rfl
  have h1 := hM.pivot_gt hker ⟨u, hun⟩ hu1
  have himg : p.S.image (fun i : Fin p.n => i.val) = S.toFinset := by
    ext r
    rw [Finset.mem_image, List.mem_toFinset]
    constructor
    · rintro ⟨i, hi, rfl⟩; exact (mem_S_iff p S hreg i).1 hi
    · intro hr
      have := regList_lt p.n p.reg S hreg r hr
      exact ⟨⟨r, this⟩, (mem_S_iff p S hreg ⟨r, this⟩).2 hr, rfl⟩
  have h2 : ∑ i ∈ p.S, g i.val * g i.val = ∑ r ∈ S.toFinset, g r * g r := by
    rw [← himg, Finset.sum_image]
    intro a _ b _ e
    exact Fin.ext e
  refine lt_of_lt_of_le h1 ?_
  rw [h2]
  exact toFinset_sum_le_list_sum S (fun r => g r * g r) (fun r => mul_self_nonneg _)

/-- **`Chol.GsUnamb` from the margin hypothesis on `(A, S)`** -/
theorem Chol.gsUnamb_of_margin (p : Problem K) (hU : Chol.UnambiguousF (cholFact p)) (hsq : Chol.GsSqrtExact p)
    {τ : K} (hτ : (sTol : K) ≤ τ * τ) (hM : SMargin p.A p.S τ) : Chol.GsUnamb p := by
  intro S hreg
  have hF := cholFact_fin p hU
  have hnl := nullity_le p
  set nullity := (cholFact p).nullity with hnu
  set N0 := p.n - nullity with hN0
  have hS := regList_lt p.n p.reg S hreg
  refine gsUnambOK_of_margin (m := p.m) (A := p.dense) hS (fun c => pget (cholFact p).perm (N0 + c))
    (fun c hc => hF.isPerm.lt _ (by omega)) hτ (margin_list p S hreg hM) nullity 0 _ _
    (chol_gsInv_init p hU S) ?_ (by omega) (hsq S hreg)
  intro l l' _ h2 _ h4
  rw [pget_id (nullity + 1) l (by omega), pget_id (nullity + 1) l' (by omega),
    gInit_col _ _ _ _ _ _ l h2, (gcol_spec hF l (by omega)).2 (N0 + l') (by omega) (by omega)]
  by_cases e : l = l'
  · rw [if_pos (by omega), if_pos e]
  · rw [if_neg (by omega), if_neg e]

end
end Gama.Ls
