/-
  Singular case of `AdjCholDec::solve`, assembly: the loop invariant of the Gram–Schmidt stage
  from the initial `G`, the particular solution `x0` satisfies ALL normal equations, and the
  answers form a least-squares solution with `x ⟂_S ker A`.
-/
import Gama.Lemmas.Ls.CholGS

namespace Gama.Ls
open Finset Dn Chol Matrix Gama.LS

set_option linter.unusedSectionVars false
set_option linter.unusedVariables false

section
variable {K : Type} [Field K] [LinearOrder K] [IsStrictOrderedRing K] [SqrtFn K]
attribute [local instance 2000] scalarOfField

/-- the square root is exact on the pivots the Gram–Schmidt loop normalises with -/
def gsSqrtOK (n nullity : Nat) (S : List Nat) : Nat → Nat → Array Nat → Array (Array K) → Prop
  | 0, _, _, _ => True
  | fuel + 1, column, gperm, G =>
    if gsVal S G gperm column < (sTol : K) then True else
      SqrtFn.sq (gsStep n nullity S column gperm G (gsVal S G gperm column)).2.2
          * SqrtFn.sq (gsStep n nullity S column gperm G (gsVal S G gperm column)).2.2
        = (gsStep n nullity S column gperm G (gsVal S G gperm column)).2.2 ∧
      gsSqrtOK n nullity S fuel (column + 1)
        (gsStep n nullity S column gperm G (gsVal S G gperm column)).1
        (gsStep n nullity S column gperm G (gsVal S G gperm column)).2.1

theorem gsSqrtOK_of_lawful [LawfulSqrt K] (n nullity : Nat) (S : List Nat) :
    ∀ fuel column gperm (G : Array (Array K)), column + fuel ≤ nullity → gsSqrtOK n nullity S fuel column gperm G := by
  intro fuel
  induction fuel with
  | zero => intro _ _ _ _; trivial
  | succ fuel ih =>
    intro column gperm G hle
    unfold gsSqrtOK
    split
    · trivial
    · refine ⟨?_, ih _ _ _ (by omega)⟩
      apply LawfulSqrt.sqrt_mul_self
      rw [gsStep_eq]
      obtain ⟨i, _, _, h3, _⟩ := gsSearch_spec S G gperm nullity column (by omega)
      show 0 ≤ (gsSearch S G gperm nullity column (gsVal S G gperm column)).1
      rw [h3]
      exact dotS_self_nonneg S _

/-- the loop carries the invariant to the end -/
theorem gsLoop_inv {m n nullity : Nat} {A : DMat K} {S : List Nat} {x0 : Array K} (hS : ∀ r ∈ S, r < n) :
    ∀ fuel column gperm (G Gf : Array (Array K)), GSInv m n nullity A S x0 column gperm G →
      column + fuel = nullity → gsSqrtOK n nullity S fuel column gperm G →
      gsLoop n nullity S fuel column gperm G = .ok Gf → ∃ gpf, GSInv m n nullity A S x0 nullity gpf Gf := by
  intro fuel
  induction fuel with
  | zero =>
    intro column gperm G Gf h hc _ hl
    unfold gsLoop at hl
    have := Except.ok.inj hl
    subst this
    have : column = nullity := by omega
    subst this
    exact ⟨gperm, h⟩
  | succ fuel ih =>
    intro column gperm G Gf h hc hok hl
    have hcn : column < nullity := by omega
    unfold gsLoop at hl
    simp only [] at hl
    change (if gsVal S G gperm column < (sTol : K) then _ else _) = _ at hl
    unfold gsSqrtOK at hok
    by_cases hp : gsVal S G gperm column < (sTol : K)
    · rw [if_pos hp] at hl; cases hl
    · rw [if_neg hp] at hl hok
      obtain ⟨hsq, hok'⟩ := hok
      change gsLoop n nullity S fuel (column + 1) (gsStep n nullity S column gperm G (gsVal S G gperm column)).1
        (gsStep n nullity S column gperm G (gsVal S G gperm column)).2.1 = _ at hl
      refine ih (column + 1) _ _ Gf ?_ (by omega) hok' hl
      rw [gsStep_eq] at hsq ⊢
      simp only [] at hsq ⊢
      obtain ⟨i, h1, h2, h3, h4, h5, h6⟩ := gsSearch_spec S G gperm nullity column hcn
      have hpos : 0 < (gsSearch S G gperm nullity column (gsVal S G gperm column)).1 :=
        lt_of_lt_of_le (lt_of_lt_of_le sTol_pos (not_lt.1 hp)) h6
      cases hps : (gsSearch S G gperm nullity column (gsVal S G gperm column)).2 with
      | none =>
        have hi := h4 hps
        subst hi
        simp only [hps] at hsq ⊢
        exact h.core hS hcn _ h3 hpos hsq
      | some j =>
        obtain ⟨hji, hcj⟩ := h5 j hps
        subst hji
        simp only [hps] at hsq ⊢
        have hsw := h.swap j (le_of_lt hcj) h2
        refine hsw.core hS hcn _ ?_ hpos hsq
        rw [h3]
        unfold gsVal
        rw [pget_swapP (nullity + 1) gperm column j column (by omega), if_pos rfl]

/-! ### the initial `G` -/

theorem gInit_size (n N0 nullity : Nat) (perm : Array Nat) (a : DMat K) (x0 : Array K) :
    (gInit n N0 nullity perm a x0).size = nullity + 1 := by
  unfold gInit; simp

theorem gsInv_init {m n N0 : Nat} {A : DMat K} {perm : Array Nat} {a : DMat K}
    (h : LDLFin n (normalF m A) perm a N0) (S : List Nat) (x0 : Array K) :
    GSInv m n (n - N0) A S x0 0 (pmk (n - N0 + 1) id) (gInit n N0 (n - N0) perm a x0) := by
  have hP := h.isPerm
  have hN0 := h.le
  set nullity := n - N0 with hnull
  have hcol : ∀ l, l < nullity → (gInit n N0 nullity perm a x0).getD (pget (pmk (nullity + 1) id) l) #[]
      = gcol n N0 perm a l := by
    intro l hl
    rw [pget_id (nullity + 1) l (by omega)]
    exact gInit_col n N0 nullity perm a x0 l hl
  refine ⟨isPerm_id _, pget_id _ _ (by omega), gInit_size _ _ _ _ _ _, ?_, ?_,
    fun i hi => absurd hi (Nat.not_lt_zero i), fun i l hi => absurd hi (Nat.not_lt_zero i), ?_, ?_⟩
  · intro l hl k hk
    rw [hcol l hl]
    exact (gcol_spec h l (by omega)).1 k hk
  · intro k hk
    rw [gInit_last]
    exact Finset.sum_eq_zero fun v _ => by rw [sub_self, mul_zero]
  · intro g hg
    refine ⟨fun l => - g (pget perm (N0 + l)), ?_⟩
    -- g' = g − Σ γ_l G_l is a kernel vector vanishing on the flagged unknowns
    let g' : Nat → K := fun v => g v - ∑ l ∈ range nullity, (- g (pget perm (N0 + l))) * vget (gcol n N0 perm a l) v
    have hg'k : ∀ k, k < m → ∑ v ∈ range n, mget A k v * g' v = 0 := by
      intro k hk
      have : ∀ v ∈ range n, mget A k v * g' v = mget A k v * g v
          - ∑ l ∈ range nullity, (- g (pget perm (N0 + l))) * (mget A k v * vget (gcol n N0 perm a l) v) := by
        intro v _
        simp only [g']
        rw [mul_sub, Finset.mul_sum]
        congr 1
        exact Finset.sum_congr rfl fun l _ => by ring
      rw [Finset.sum_congr rfl this, Finset.sum_sub_distrib, hg k hk, Finset.sum_comm]
      have : ∀ l ∈ range nullity, ∑ v ∈ range n, (- g (pget perm (N0 + l))) * (mget A k v * vget (gcol n N0 perm a l) v) = 0 := by
        intro l hl
        rw [← Finset.mul_sum, (gcol_spec h l (by have := Finset.mem_range.1 hl; omega)).1 k hk, mul_zero]
      rw [Finset.sum_eq_zero this, sub_zero]
    have hg'f : ∀ u, u < n → N0 ≤ qq n perm u → g' u = 0 := by
      intro u hu hq
      obtain ⟨hqn, hpq⟩ := qq_spec hP u hu
      simp only [g']
      have : ∑ l ∈ range nullity, (- g (pget perm (N0 + l))) * vget (gcol n N0 perm a l) u = g u := by
        rw [Finset.sum_eq_single (qq n perm u - N0)]
        · have := (gcol_spec h (qq n perm u - N0) (by omega)).2 (qq n perm u) hq hqn
          rw [hpq] at this
          rw [this, if_pos (by omega), show N0 + (qq n perm u - N0) = qq n perm u by omega, hpq]; ring
        · intro l hl hne
          have hl' := Finset.mem_range.1 hl
          have := (gcol_spec h l (by omega)).2 (qq n perm u) hq hqn
          rw [hpq] at this
          rw [this, if_neg (by omega), mul_zero]
        · intro hnot; exact absurd (Finset.mem_range.2 (by omega)) hnot
      rw [this, sub_self]
    have hz := ker_zero_of_flagged_zero h g' hg'k hg'f
    intro v hv
    have := hz v hv
    simp only [g'] at this
    rw [sub_eq_zero] at this
    rw [this]
    refine Finset.sum_congr rfl fun l hl => ?_
    rw [hcol l (Finset.mem_range.1 hl)]
  · intro γ hγ l hl
    have hln : N0 + l < n := by omega
    have := hγ (pget perm (N0 + l)) (hP.lt _ hln)
    rw [Finset.sum_eq_single l] at this
    · rw [hcol l hl, (gcol_spec h l hln).2 (N0 + l) (by omega) hln, if_pos rfl] at this
      have h2 : γ l * -1 = 0 := this
      rw [mul_neg_one, neg_eq_zero] at h2
      exact h2
    · intro l' hl' hne
      have hl'' := Finset.mem_range.1 hl'
      rw [hcol l' hl'', (gcol_spec h l' (by omega)).2 (N0 + l) (by omega) hln, if_neg (by omega), mul_zero]
    · intro hnot; exact absurd (Finset.mem_range.2 hl) hnot

/-! ### the particular solution -/

/-- `x0` satisfies the normal equations of every row, and is zero on the dependent unknowns -/
theorem x0_normal {m n N0 : Nat} {A : DMat K} {perm : Array Nat} {a : DMat K}
    (h : LDLFin n (normalF m A) perm a N0) (b : Array K) :
    (solveX0 n N0 perm a (normalRhs m n A b)).size = n ∧
    (∀ ii, N0 ≤ ii → ii < n → vget (solveX0 n N0 perm a (normalRhs m n A b)) (pget perm ii) = 0) ∧
    ∀ z, z < n → ∑ v ∈ range n, normalF m A z v * vget (solveX0 n N0 perm a (normalRhs m n A b)) v
      = vget (normalRhs m n A b) z := by
  have hP := h.isPerm
  have hN0 := h.le
  set rhs := normalRhs m n A b with hrhs
  unfold solveX0
  simp only []
  set xi := vmk n fun u => if N0 ≤ pget (invPerm n perm) u then (0 : K) else vget rhs u with hxi
  have hxs : xi.size = n := vmk_size _ _
  have hxv : ∀ ii, ii < n → vget xi (pget perm ii) = if N0 ≤ ii then 0 else vget rhs (pget perm ii) := by
    intro ii hii
    rw [hxi, vget_vmk, if_pos (hP.lt ii hii)]
    have : pget (invPerm n perm) (pget perm ii) = ii := qq_perm hP ii hii
    rw [this]
  obtain ⟨s1, f1, t1⟩ := fwdSub_spec hP hN0 a xi hxs
  obtain ⟨s2, f2, t2⟩ := diagDiv_spec hP hN0 a _ s1
  obtain ⟨s3, f3, t3⟩ := backSub_spec hP hN0 a _ s2
  set y1 := fwdSub N0 perm a xi with hy1
  set y2 := diagDiv N0 perm a y1 with hy2
  set y3 := backSub N0 perm a y2 with hy3
  have htr : ∀ ii, N0 ≤ ii → ii < n → vget y3 (pget perm ii) = 0 := by
    intro ii h1 h2
    rw [t3 ii h1 h2, t2 ii h1 h2, t1 ii h1 h2, hxv ii h2, if_pos h1]
  have hd : ∀ k, k < N0 → dd perm a k ≠ 0 := fun k hk => ne_of_gt (h.pos k hk)
  -- ℓ_kᵀ x0 = y1_k / d_k
  have hLt : ∀ k, k < N0 → ∑ v ∈ range n, ell n perm a k v * vget y3 v = vget y1 (pget perm k) / dd perm a k := by
    intro k hk
    have hkn : k < n := by omega
    rw [sum_perm hP (fun v => ell n perm a k v * vget y3 v)]
    have : ∑ jj ∈ range n, ell n perm a k (pget perm jj) * vget y3 (pget perm jj)
        = ∑ jj ∈ range n, (if jj = k then 1 else if k < jj then sget a (pget perm k) (pget perm jj) else 0)
            * vget y3 (pget perm jj) := by
      refine Finset.sum_congr rfl fun jj hjj => ?_
      rw [ell_perm hP a k jj (Finset.mem_range.1 hjj), sget_comm a (pget perm jj) (pget perm k)]
    rw [this, sum_tri_gt n k hkn (fun jj => sget a (pget perm k) (pget perm jj)) (fun jj => vget y3 (pget perm jj)),
      ← Finset.sum_Ico_consecutive _ (by omega : k + 1 ≤ N0) hN0]
    have hz : ∑ jj ∈ Ico N0 n, sget a (pget perm k) (pget perm jj) * vget y3 (pget perm jj) = 0 :=
      Finset.sum_eq_zero fun jj hjj => by
        have := Finset.mem_Ico.1 hjj
        rw [htr jj this.1 this.2, mul_zero]
    rw [hz, add_zero, f3 k hk, f2 k hk]; ring
  -- independent rows
  have hind : ∀ ii, ii < N0 → ∑ v ∈ range n, normalF m A (pget perm ii) v * vget y3 v = vget rhs (pget perm ii) := by
    intro ii hii
    have hiin : ii < n := by omega
    rw [fin_mul h (fun v => vget y3 v) _ (hP.lt ii hiin)]
    have : ∀ k ∈ range N0, ell n perm a k (pget perm ii) * dd perm a k * ∑ v ∈ range n, ell n perm a k v * vget y3 v
        = (if ii = k then 1 else if k < ii then sget a (pget perm ii) (pget perm k) else 0) * vget y1 (pget perm k) := by
      intro k hk
      have hk' := Finset.mem_range.1 hk
      rw [hLt k hk', ell_perm hP a k ii hiin]
      have := hd k hk'
      field_simp
    rw [Finset.sum_congr rfl this,
      sum_tri_lt N0 ii hii (fun k => sget a (pget perm ii) (pget perm k)) (fun k => vget y1 (pget perm k)),
      f1 ii hii, hxv ii hiin, if_neg (by omega)]
    ring
  refine ⟨s3, htr, ?_⟩
  -- dependent rows through the kernel vectors
  intro z hz
  obtain ⟨ii, hii, rfl⟩ := hP.surj z hz
  by_cases hlt : ii < N0
  · exact hind ii hlt
  · have hge : N0 ≤ ii := by omega
    set j := ii - N0 with hj
    have hjn : N0 + j < n := by omega
    obtain ⟨g1, g2⟩ := gcol_spec h j hjn
    -- Σ_z g_z (N y − c)_z = Σ_k (A g)_k (A y − b)_k = 0
    let res : Nat → K := fun z => ∑ v ∈ range n, normalF m A z v * vget y3 v - vget rhs z
    have hres : ∀ z, z < n → res z = ∑ k ∈ range m, mget A k z * (∑ v ∈ range n, mget A k v * vget y3 v - vget b k) := by
      intro z hz
      simp only [res]
      rw [gram_mul, hrhs, normalRhs_spec m n A b z hz, ← Finset.sum_sub_distrib]
      exact Finset.sum_congr rfl fun k _ => by ring
    have hsum : ∑ z ∈ range n, vget (gcol n N0 perm a j) z * res z = 0 := by
      have : ∀ z ∈ range n, vget (gcol n N0 perm a j) z * res z
          = ∑ k ∈ range m, (mget A k z * vget (gcol n N0 perm a j) z) *
              (∑ v ∈ range n, mget A k v * vget y3 v - vget b k) := by
        intro z hz
        rw [hres z (Finset.mem_range.1 hz), Finset.mul_sum]
        exact Finset.sum_congr rfl fun k _ => by ring
      rw [Finset.sum_congr rfl this, Finset.sum_comm]
      refine Finset.sum_eq_zero fun k hk => ?_
      rw [← Finset.sum_mul, g1 k (Finset.mem_range.1 hk), zero_mul]
    rw [sum_perm hP (fun z => vget (gcol n N0 perm a j) z * res z), Finset.sum_eq_single ii] at hsum
    · rw [g2 ii hge hii, if_pos (by omega)] at hsum
      have : res (pget perm ii) = 0 := by
        have := hsum; simp at this; exact this
      simp only [res] at this
      exact sub_eq_zero.1 this
    · intro jj hjj hne
      have hjj' := Finset.mem_range.1 hjj
      by_cases hl2 : jj < N0
      · have : res (pget perm jj) = 0 := by simp only [res]; rw [hind jj hl2, sub_self]
        rw [this, mul_zero]
      · rw [g2 jj (by omega) hjj', if_neg (by omega), zero_mul]
    · intro hnot; exact absurd (Finset.mem_range.2 hii) hnot

/-! ### the regularisation list as a subset -/

theorem regList_subset (n : Nat) (l S : List Nat) (h : regList n (.subset l) = some S) :
    (∀ a ∈ l, 1 ≤ a ∧ a ≤ n) ∧ S = l.map (· - 1) := by
  simp only [regList] at h
  split at h
  · rename_i hall
    refine ⟨?_, (Option.some.inj h).symm⟩
    intro a ha
    have := List.all_eq_true.1 hall a ha
    simpa using this
  · cases h

theorem regList_lt (n : Nat) (r : Reg) (S : List Nat) (h : regList n r = some S) : ∀ x ∈ S, x < n := by
  cases r with
  | none => simp only [regList, Option.some.injEq] at h; subst h; intro x hx; exact List.mem_range.1 hx
  | all => simp only [regList, Option.some.injEq] at h; subst h; intro x hx; exact List.mem_range.1 hx
  | subset l =>
    obtain ⟨hall, rfl⟩ := regList_subset n l S h
    intro x hx
    obtain ⟨a, ha, rfl⟩ := List.mem_map.1 hx
    have := hall a ha
    omega

theorem mem_S_iff (p : Problem K) (S : List Nat) (h : regList p.n p.reg = some S) (i : Fin p.n) :
    i ∈ p.S ↔ i.val ∈ S := by
  unfold Problem.S
  cases hr : p.reg with
  | none =>
    rw [hr] at h; simp only [regList, Option.some.injEq] at h; subst h
    simp [Reg.toFinset]
  | all =>
    rw [hr] at h; simp only [regList, Option.some.injEq] at h; subst h
    simp [Reg.toFinset]
  | subset l =>
    rw [hr] at h
    obtain ⟨hall, rfl⟩ := regList_subset p.n l S h
    rw [Reg.mem_toFinset_subset, List.mem_map]
    constructor
    · intro hi; exact ⟨i.val + 1, hi, by omega⟩
    · rintro ⟨a, ha, e⟩
      have := hall a ha
      have : a = i.val + 1 := by omega
      rw [← this]; exact ha

/-- `Σ_{i∈S} x_i g_i` over the subset = `dot` over the (duplicate free) list -/
theorem sum_S_eq (p : Problem K) (S : List Nat) (h : regList p.n p.reg = some S) (hnd : S.Nodup)
    (f : Nat → K) : ∑ i ∈ p.S, f i.val = (S.map f).sum := by
  rw [← List.sum_toFinset f hnd]
  have himg : p.S.image (fun i : Fin p.n => i.val) = S.toFinset := by
    ext r
    rw [Finset.mem_image, List.mem_toFinset]
    constructor
    · rintro ⟨i, hi, rfl⟩; exact (mem_S_iff p S h i).1 hi
    · intro hr
      have := regList_lt p.n p.reg S h r hr
      exact ⟨⟨r, this⟩, (mem_S_iff p S h ⟨r, this⟩).2 hr, rfl⟩
  rw [← himg, Finset.sum_image]
  intro a _ b _ e
  exact Fin.ext e

/-- the square root is exact on the Gram–Schmidt pivots of the run on `p` -/
def Chol.GsSqrtExact (p : Problem K) : Prop :=
  ∀ S, regList p.n p.reg = some S →
    gsSqrtOK p.n (cholFact p).nullity S (cholFact p).nullity 0 (pmk ((cholFact p).nullity + 1) id)
      (gInit p.n (p.n - (cholFact p).nullity) (cholFact p).nullity (cholFact p).perm (cholFact p).mat
        (solveX0 p.n (p.n - (cholFact p).nullity) (cholFact p).perm (cholFact p).mat
          (normalRhs p.m p.n p.dense p.rhs)))

theorem Chol.GsSqrtExact.of_lawful [LawfulSqrt K] (p : Problem K) : Chol.GsSqrtExact p :=
  fun S _ => gsSqrtOK_of_lawful _ _ _ _ _ _ _ (by omega)

/-- **C01, Cholesky, general case.** -/
theorem cholSolve_isLS (p : Problem K) (hU : Chol.UnambiguousF (cholFact p)) (hsq : Chol.GsSqrtExact p)
    (hnd : ∀ S, regList p.n p.reg = some S → S.Nodup)
    (a : Answer K) (h : cholSolve p = .ok a) : a.IsLS p 1 := by
  by_cases hd : a.defect = 0
  · exact cholSolve_regular_isLS p a h hd
  unfold cholSolve at h
  cases hs : Chol.solve p with
  | error e => rw [hs] at h; simp [Except.map] at h
  | ok s =>
    rw [hs] at h
    have ha : a = s.answer := (Except.ok.inj h).symm
    subst ha
    obtain ⟨hm, hn, hA, hperm, hinvp, hmat, hnull, hN0, hx0, hr, _, hreg, _, hgs⟩ := solve_shape p s hs
    have hne : (cholFact p).nullity ≠ 0 := by rw [← hnull]; exact hd
    obtain ⟨hloop, hx⟩ := hgs hne
    have hF := cholFact_fin p hU
    have hP := hF.isPerm
    have hle := hF.le
    set nullity := (cholFact p).nullity with hnu
    set N0 := p.n - nullity with hN0d
    have hnl : p.n - N0 = nullity := by
      obtain ⟨aPre, N0', hE⟩ := factor_end (Nf := normalF p.m p.dense) p.n 0 (pmk p.n id) (normalMat p.m p.n p.dense)
        (LDLInv.init p.n _ _ _ (fun u v hu hv => normalMat_spec p.m p.n p.dense u v hu hv)) (by omega)
      have e1 : nullity = p.n - N0' := hE.nullity
      have := hE.inv.le
      omega
    have hS := regList_lt p.n p.reg s.S hreg
    -- Gram–Schmidt invariant at the end
    have hinit := gsInv_init hF s.S s.x0
    rw [hnl] at hinit
    obtain ⟨gpf, hfin⟩ := gsLoop_inv hS nullity 0 _ _ s.G hinit (by omega) (by
      have := hsq s.S hreg
      rw [← hx0] at this
      exact this) hloop
    -- the particular solution
    obtain ⟨hxs, hxtr, hxn⟩ := x0_normal hF p.rhs
    rw [← hx0] at hxs hxtr hxn
    -- A x = A x0
    have hAx : ∀ k, k < p.m → ∑ v ∈ range p.n, mget p.dense k v * vget s.x v
        = ∑ v ∈ range p.n, mget p.dense k v * vget s.x0 v := by
      intro k hk
      have := hfin.xk k hk
      rw [← hx] at this
      have e : ∀ v ∈ range p.n, mget p.dense k v * (vget s.x v - vget s.x0 v)
          = mget p.dense k v * vget s.x v - mget p.dense k v * vget s.x0 v := fun v _ => by ring
      rw [Finset.sum_congr rfl e, Finset.sum_sub_distrib, sub_eq_zero] at this
      exact this
    -- residuals
    have hrv : ∀ i, i < p.m → vget s.r i = ∑ v ∈ range p.n, mget p.dense i v * vget s.x0 v - vget p.rhs i := by
      intro i hi
      rw [hr]; unfold residuals
      rw [vget_vmk, if_pos hi, addFrom_eq]
      have hz : ∑ jj ∈ Ico N0 p.n, mget p.dense i (pget (cholFact p).perm jj) * vget s.x0 (pget (cholFact p).perm jj) = 0 :=
        Finset.sum_eq_zero fun jj hjj => by
          have := Finset.mem_Ico.1 hjj
          rw [hxtr jj this.1 this.2, mul_zero]
      have hsplit : ∑ v ∈ range p.n, mget p.dense i v * vget s.x0 v
          = ∑ jj ∈ Ico 0 N0, mget p.dense i (pget (cholFact p).perm jj) * vget s.x0 (pget (cholFact p).perm jj) := by
        rw [sum_perm hP (fun v => mget p.dense i v * vget s.x0 v), Finset.range_eq_Ico,
          ← Finset.sum_Ico_consecutive _ (Nat.zero_le N0) hle, hz, add_zero]
      rw [hsplit]; ring
    have hres : toVec p.m s.answer.r = p.A *ᵥ toVec p.n s.answer.x - p.b := by
      funext i
      show vget s.r i.val = _
      rw [Pi.sub_apply]
      unfold Problem.A Problem.b
      rw [mulVec_toMatrix, hrv i.val i.isLt, ← hAx i.val i.isLt]
      rfl
    have hnormal : p.Aᵀ *ᵥ ((1 : Matrix (Fin p.m) (Fin p.m) K) *ᵥ toVec p.m s.answer.r) = 0 := by
      funext u
      rw [one_mulVec]
      unfold Problem.A
      rw [transpose_mulVec_toMatrix]
      have : ∀ i : Fin p.m, mget p.dense i.val u.val * toVec p.m s.answer.r i
          = ∑ v ∈ range p.n, (mget p.dense i.val u.val * mget p.dense i.val v) * vget s.x0 v
            - mget p.dense i.val u.val * vget p.rhs i.val := by
        intro i
        show mget p.dense i.val u.val * vget s.r i.val = _
        rw [hrv i.val i.isLt, mul_sub, Finset.mul_sum]
        congr 1
        exact Finset.sum_congr rfl fun v _ => by ring
      rw [Finset.sum_congr rfl (fun i _ => this i), Finset.sum_sub_distrib,
        Fin.sum_univ_eq_sum_range (fun i => ∑ v ∈ range p.n, (mget p.dense i u.val * mget p.dense i v) * vget s.x0 v) p.m,
        Fin.sum_univ_eq_sum_range (fun i => mget p.dense i u.val * vget p.rhs i) p.m,
        Finset.sum_comm]
      have h1 : ∑ v ∈ range p.n, ∑ i ∈ range p.m, mget p.dense i u.val * mget p.dense i v * vget s.x0 v
          = ∑ v ∈ range p.n, normalF p.m p.dense u.val v * vget s.x0 v := by
        refine Finset.sum_congr rfl fun v _ => ?_
        unfold normalF; rw [Finset.sum_mul]
      rw [h1, hxn u.val u.isLt, normalRhs_spec p.m p.n p.dense p.rhs u.val u.isLt]
      simp
    have hrtr : s.answer.rtr = toVec p.m s.answer.r ⬝ᵥ (1 : Matrix (Fin p.m) (Fin p.m) K) *ᵥ toVec p.m s.answer.r := by
      rw [one_mulVec]
      show sumFrom 0 s.m (fun i => vget s.r i * vget s.r i) = _
      rw [hm, sumFrom_eq, ← Finset.range_eq_Ico]
      unfold dotProduct
      rw [← Fin.sum_univ_eq_sum_range (fun i => vget s.r i * vget s.r i) p.m]
      rfl
    -- second criterion
    have horth : ∀ g : Fin p.n → K, p.A *ᵥ g = 0 → ∑ i ∈ p.S, toVec p.n s.answer.x i * g i = 0 := by
      intro g hg
      have hk : ∀ k, k < p.m → ∑ v ∈ range p.n, mget p.dense k v * extend g v = 0 := by
        intro k hk
        rw [← mulVec_extend p g ⟨k, hk⟩, hg]; rfl
      obtain ⟨γ, hγ⟩ := hfin.span (extend g) hk
      have e1 : ∑ i ∈ p.S, toVec p.n s.answer.x i * g i
          = ∑ i ∈ p.S, (fun r => vget s.x r * extend g r) i.val := by
        refine Finset.sum_congr rfl fun i _ => ?_
        show vget s.x i.val * g i = vget s.x i.val * extend g i.val
        unfold extend; rw [dif_pos i.isLt]
      rw [e1, sum_S_eq p s.S hreg (hnd s.S hreg) (fun r => vget s.x r * extend g r)]
      have e2 : (s.S.map fun r => vget s.x r * extend g r)
          = s.S.map fun r => ∑ l ∈ range nullity, γ l * (vget (s.G.getD (pget gpf l) #[]) r * vget s.x r) := by
        refine List.map_congr_left fun r hr => ?_
        rw [hγ r (hS r hr), Finset.mul_sum]
        exact Finset.sum_congr rfl fun l _ => by ring
      rw [e2, ← List.sum_toFinset _ (hnd s.S hreg), Finset.sum_comm]
      refine Finset.sum_eq_zero fun l hl => ?_
      rw [← Finset.mul_sum, List.sum_toFinset _ (hnd s.S hreg)]
      have := hfin.orth l nullity (Finset.mem_range.1 hl) (le_refl _) (by have := Finset.mem_range.1 hl; omega)
      rw [hfin.last, ← hx, dotS_eq] at this
      rw [this, mul_zero]
    exact ⟨hres, hnormal, hrtr, horth⟩

/-! ### refusal: `BadRegularization` iff the subset does not resolve the defect -/

/-- *rank numerically unambiguous*, Gram–Schmidt stage: every S-norm² the loop tests against
    `s_tol` is exactly 0 or at least `s_tol` -/
def gsUnambOK (n nullity : Nat) (S : List Nat) : Nat → Nat → Array Nat → Array (Array K) → Prop
  | 0, _, _, _ => True
  | fuel + 1, column, gperm, G =>
    (gsVal S G gperm column = 0 ∨ (sTol : K) ≤ gsVal S G gperm column) ∧
    (if gsVal S G gperm column < (sTol : K) then True else
      gsUnambOK n nullity S fuel (column + 1)
        (gsStep n nullity S column gperm G (gsVal S G gperm column)).1
        (gsStep n nullity S column gperm G (gsVal S G gperm column)).2.1)

/-- when the loop throws, it is `BadRegularization`, at a column whose S-norm is exactly 0 -/
theorem gsLoop_err {m n nullity : Nat} {A : DMat K} {S : List Nat} {x0 : Array K} (hS : ∀ r ∈ S, r < n) :
    ∀ fuel column gperm (G : Array (Array K)) (e : ErrKind), GSInv m n nullity A S x0 column gperm G →
      column + fuel = nullity → gsSqrtOK n nullity S fuel column gperm G →
      gsUnambOK n nullity S fuel column gperm G →
      gsLoop n nullity S fuel column gperm G = .error e →
      e = .BadRegularization ∧ ∃ c' gp' G', GSInv m n nullity A S x0 c' gp' G' ∧ c' < nullity ∧
        gsVal S G' gp' c' = 0 := by
  intro fuel
  induction fuel with
  | zero =>
    intro column gperm G e _ _ _ _ hl
    unfold gsLoop at hl; cases hl
  | succ fuel ih =>
    intro column gperm G e h hc hok hun hl
    have hcn : column < nullity := by omega
    unfold gsLoop at hl
    simp only [] at hl
    change (if gsVal S G gperm column < (sTol : K) then _ else _) = _ at hl
    unfold gsSqrtOK at hok
    unfold gsUnambOK at hun
    obtain ⟨hun1, hun2⟩ := hun
    by_cases hp : gsVal S G gperm column < (sTol : K)
    · rw [if_pos hp] at hl
      have he : e = .BadRegularization := by
        have := Except.error.inj hl; exact this.symm
      refine ⟨he, column, gperm, G, h, hcn, ?_⟩
      rcases hun1 with h0 | h0
      · exact h0
      · exact absurd hp (not_lt.2 h0)
    · rw [if_neg hp] at hl hok hun2
      obtain ⟨hsq, hok'⟩ := hok
      change gsLoop n nullity S fuel (column + 1) (gsStep n nullity S column gperm G (gsVal S G gperm column)).1
        (gsStep n nullity S column gperm G (gsVal S G gperm column)).2.1 = _ at hl
      refine ih (column + 1) _ _ e ?_ (by omega) hok' hun2 hl
      rw [gsStep_eq] at hsq ⊢
      simp only [] at hsq ⊢
      obtain ⟨i, h1, h2, h3, h4, h5, h6⟩ := gsSearch_spec S G gperm nullity column hcn
      have hpos : 0 < (gsSearch S G gperm nullity column (gsVal S G gperm column)).1 :=
        lt_of_lt_of_le (lt_of_lt_of_le sTol_pos (not_lt.1 hp)) h6
      cases hps : (gsSearch S G gperm nullity column (gsVal S G gperm column)).2 with
      | none =>
        have hi := h4 hps
        subst hi
        simp only [hps] at hsq ⊢
        exact h.core hS hcn _ h3 hpos hsq
      | some j =>
        obtain ⟨hji, hcj⟩ := h5 j hps
        subst hji
        simp only [hps] at hsq ⊢
        have hsw := h.swap j (le_of_lt hcj) h2
        refine hsw.core hS hcn _ ?_ hpos hsq
        rw [h3]
        unfold gsVal
        rw [pget_swapP (nullity + 1) gperm column j column (by omega), if_pos rfl]

theorem list_sum_finset_comm (S : List Nat) (N : Nat) (F : Nat → Nat → K) :
    (S.map fun r => ∑ l ∈ range N, F r l).sum = ∑ l ∈ range N, (S.map fun r => F r l).sum := by
  induction S with
  | nil => simp
  | cons x S ih =>
    simp only [List.map_cons, List.sum_cons]
    rw [ih, Finset.sum_add_distrib]

theorem list_sum_sq_zero (S : List Nat) (f : Nat → K) (h : (S.map fun r => f r * f r).sum = 0) :
    ∀ r ∈ S, f r = 0 := by
  induction S with
  | nil => intro r hr; simp at hr
  | cons x S ih =>
    simp only [List.map_cons, List.sum_cons] at h
    have h1 : (0 : K) ≤ f x * f x := mul_self_nonneg _
    have h2 : (0 : K) ≤ (S.map fun r => f r * f r).sum := by
      apply List.sum_nonneg
      intro y hy
      obtain ⟨r', _, rfl⟩ := List.mem_map.1 hy
      exact mul_self_nonneg _
    obtain ⟨e1, e2⟩ := (add_eq_zero_iff_of_nonneg h1 h2).1 h
    intro r hr
    rcases List.mem_cons.1 hr with rfl | hr'
    · exact mul_self_eq_zero.1 e1
    · exact ih e2 r hr'

theorem dotS_self_zero (S : List Nat) (g : Array K) (h : dotS S g g = 0) : ∀ r ∈ S, vget g r = 0 := by
  rw [dotS_eq] at h
  exact list_sum_sq_zero S (fun r => vget g r) h

/-- an orthonormalised kernel basis shows that `S` resolves the defect -/
theorem resolves_of_gsInv {m n nullity : Nat} {A : DMat K} {S : List Nat} {x0 : Array K}
    {gp : Array Nat} {G : Array (Array K)} (h : GSInv m n nullity A S x0 nullity gp G) (hS : ∀ r ∈ S, r < n)
    (g : Nat → K) (hg : ∀ k, k < m → ∑ v ∈ range n, mget A k v * g v = 0) (hgS : ∀ r ∈ S, g r = 0) :
    ∀ v, v < n → g v = 0 := by
  obtain ⟨γ, hγ⟩ := h.span g hg
  have hγ0 : ∀ l, l < nullity → γ l = 0 := by
    intro l hl
    -- 0 = Σ_{r∈S} G_l r · g r = Σ_l' γ_l' dot(G_l, G_l') = γ_l
    have h0 : (S.map fun r => vget (G.getD (pget gp l) #[]) r * g r).sum = 0 := by
      apply List.sum_eq_zero
      intro x hx
      obtain ⟨r, hr, rfl⟩ := List.mem_map.1 hx
      rw [hgS r hr, mul_zero]
    have h1 : (S.map fun r => vget (G.getD (pget gp l) #[]) r * g r)
        = S.map fun r => ∑ l' ∈ range nullity,
            γ l' * (vget (G.getD (pget gp l) #[]) r * vget (G.getD (pget gp l') #[]) r) := by
      refine List.map_congr_left fun r hr => ?_
      rw [hγ r (hS r hr), Finset.mul_sum]
      exact Finset.sum_congr rfl fun l' _ => by ring
    rw [h1, list_sum_finset_comm, Finset.sum_eq_single l] at h0
    · rw [List.sum_map_mul_left] at h0
      have := h.orthn l hl
      rw [dotS_eq] at this
      rw [this, mul_one] at h0
      exact h0
    · intro l' hl' hne
      rw [List.sum_map_mul_left]
      have := h.orth l l' hl (by have := Finset.mem_range.1 hl'; omega) hne
      rw [dotS_eq] at this
      rw [this, mul_zero]
    · intro hnot; exact absurd (Finset.mem_range.2 hl) hnot
  intro v hv
  rw [hγ v hv]
  exact Finset.sum_eq_zero fun l hl => by rw [hγ0 l (Finset.mem_range.1 hl), zero_mul]

/-- a kernel column of S-norm 0 shows that `S` does not resolve the defect -/
theorem not_resolves_of_zero_col {m n nullity : Nat} {A : DMat K} {S : List Nat} {x0 : Array K} {c : Nat}
    {gp : Array Nat} {G : Array (Array K)} (h : GSInv m n nullity A S x0 c gp G) (hc : c < nullity)
    (h0 : gsVal S G gp c = 0) :
    (∀ k, k < m → ∑ v ∈ range n, mget A k v * vget (G.getD (pget gp c) #[]) v = 0) ∧
    (∀ r ∈ S, vget (G.getD (pget gp c) #[]) r = 0) ∧
    ¬ (∀ v, v < n → vget (G.getD (pget gp c) #[]) v = 0) := by
  refine ⟨h.ker c hc, dotS_self_zero S _ h0, ?_⟩
  intro hz
  have := h.indep (fun l => if l = c then 1 else 0) (by
    intro v hv
    rw [Finset.sum_eq_single c]
    · rw [if_pos rfl, one_mul, hz v hv]
    · intro l _ hne; rw [if_neg hne, zero_mul]
    · intro hnot; exact absurd (Finset.mem_range.2 hc) hnot) c hc
  simp at this

/-- `Unambiguous`, Gram–Schmidt stage, for the run on `p` -/
def Chol.GsUnamb (p : Problem K) : Prop :=
  ∀ S, regList p.n p.reg = some S →
    gsUnambOK p.n (cholFact p).nullity S (cholFact p).nullity 0 (pmk ((cholFact p).nullity + 1) id)
      (gInit p.n (p.n - (cholFact p).nullity) (cholFact p).nullity (cholFact p).perm (cholFact p).mat
        (solveX0 p.n (p.n - (cholFact p).nullity) (cholFact p).perm (cholFact p).mat
          (normalRhs p.m p.n p.dense p.rhs)))

theorem nullity_le (p : Problem K) : p.n - (p.n - (cholFact p).nullity) = (cholFact p).nullity := by
  obtain ⟨aPre, N0', hE⟩ := factor_end (Nf := normalF p.m p.dense) p.n 0 (pmk p.n id) (normalMat p.m p.n p.dense)
    (LDLInv.init p.n _ _ _ (fun u v hu hv => normalMat_spec p.m p.n p.dense u v hu hv)) (by omega)
  have e1 : (cholFact p).nullity = p.n - N0' := hE.nullity
  have := hE.inv.le
  omega

/-- the invariant the Gram–Schmidt loop starts from, for the run on `p` -/
theorem chol_gsInv_init (p : Problem K) (hU : Chol.UnambiguousF (cholFact p)) (S : List Nat) :
    GSInv p.m p.n (cholFact p).nullity p.dense S
      (solveX0 p.n (p.n - (cholFact p).nullity) (cholFact p).perm (cholFact p).mat (normalRhs p.m p.n p.dense p.rhs))
      0 (pmk ((cholFact p).nullity + 1) id)
      (gInit p.n (p.n - (cholFact p).nullity) (cholFact p).nullity (cholFact p).perm (cholFact p).mat
        (solveX0 p.n (p.n - (cholFact p).nullity) (cholFact p).perm (cholFact p).mat (normalRhs p.m p.n p.dense p.rhs))) := by
  have hF := cholFact_fin p hU
  have := gsInv_init hF S
    (solveX0 p.n (p.n - (cholFact p).nullity) (cholFact p).perm (cholFact p).mat (normalRhs p.m p.n p.dense p.rhs))
  rw [nullity_le p] at this
  exact this

theorem solve_err_shape (p : Problem K) (e : ErrKind) (hs : Chol.solve p = .error e) :
    (regList p.n p.reg = none ∧ e = .NotModelled) ∨
    (∃ S, regList p.n p.reg = some S ∧ (cholFact p).nullity ≠ 0 ∧
      gsLoop p.n (cholFact p).nullity S (cholFact p).nullity 0 (pmk ((cholFact p).nullity + 1) id)
        (gInit p.n (p.n - (cholFact p).nullity) (cholFact p).nullity (cholFact p).perm (cholFact p).mat
          (solveX0 p.n (p.n - (cholFact p).nullity) (cholFact p).perm (cholFact p).mat
            (normalRhs p.m p.n p.dense p.rhs))) = .error e) := by
  unfold Chol.solve at hs
  simp only [] at hs
  split at hs
  · rename_i hreg
    left; exact ⟨hreg, (Except.error.inj hs).symm⟩
  · rename_i S hreg
    right
    split at hs
    · cases hs
    · rename_i h0
      split at hs
      · rename_i e' hG
        have := Except.error.inj hs
        subst this
        exact ⟨S, hreg, h0, hG⟩
      · cases hs

/-- **C02 refusal (cholesky)**: the model answers iff the subset resolves the defect;
    otherwise it throws `BadRegularization` -/
theorem chol_refusal (p : Problem K) (hU : Chol.UnambiguousF (cholFact p)) (hsq : Chol.GsSqrtExact p)
    (hun : Chol.GsUnamb p) :
    (∀ a, cholSolve p = .ok a → Resolves p.A p.S) ∧
    (∀ e, cholSolve p = .error e →
      (e = .BadRegularization ∧ ¬ Resolves p.A p.S) ∨ (e = .NotModelled ∧ regList p.n p.reg = none)) := by
  constructor
  · intro a h
    unfold cholSolve at h
    cases hs : Chol.solve p with
    | error e => rw [hs] at h; simp [Except.map] at h
    | ok s =>
      obtain ⟨hm, hn, hA, hperm, hinvp, hmat, hnull, hN0, hx0, hr, _, hreg, _, hgs⟩ := solve_shape p s hs
      by_cases h0 : (cholFact p).nullity = 0
      · exact resolves_of_ker_trivial (cholFact_regular_ker p h0) p.S
      · obtain ⟨hloop, hx⟩ := hgs h0
        have hS := regList_lt p.n p.reg s.S hreg
        have hinit := chol_gsInv_init p hU s.S
        rw [← hx0] at hinit
        obtain ⟨gpf, hfin⟩ := gsLoop_inv hS (cholFact p).nullity 0 _ _ s.G hinit (by omega) (by
          have := hsq s.S hreg
          rw [← hx0] at this
          exact this) hloop
        intro g hg hgS
        have hk : ∀ k, k < p.m → ∑ v ∈ range p.n, mget p.dense k v * extend g v = 0 := by
          intro k hk
          rw [← mulVec_extend p g ⟨k, hk⟩, hg]; rfl
        have := resolves_of_gsInv hfin hS (extend g) hk (by
          intro r hr
          have hrn := hS r hr
          unfold extend; rw [dif_pos hrn]
          exact hgS ⟨r, hrn⟩ ((mem_S_iff p s.S hreg ⟨r, hrn⟩).2 hr))
        funext i
        have h1 := this i.val i.isLt
        unfold extend at h1; rw [dif_pos i.isLt] at h1
        exact h1
  · intro e h
    unfold cholSolve at h
    cases hs : Chol.solve p with
    | ok s => rw [hs] at h; simp [Except.map] at h
    | error e' =>
      rw [hs] at h
      have : e' = e := by simpa [Except.map] using h
      subst this
      rcases solve_err_shape p e' hs with ⟨hreg, he⟩ | ⟨S, hreg, h0, hloop⟩
      · right; exact ⟨he, hreg⟩
      · left
        have hS := regList_lt p.n p.reg S hreg
        have hinit := chol_gsInv_init p hU S
        obtain ⟨he, c', gp', G', hinv, hc', hz⟩ := gsLoop_err hS (cholFact p).nullity 0 _ _ e' hinit (by omega)
          (hsq S hreg) (hun S hreg) hloop
        refine ⟨he, ?_⟩
        obtain ⟨k1, k2, k3⟩ := not_resolves_of_zero_col hinv hc' hz
        intro hres
        apply k3
        have hg0 := hres (fun i : Fin p.n => vget (G'.getD (pget gp' c') #[]) i.val) (by
          funext k
          rw [mulVec_extend]
          have : ∀ v ∈ range p.n, mget p.dense k.val v * extend (fun i : Fin p.n => vget (G'.getD (pget gp' c') #[]) i.val) v
              = mget p.dense k.val v * vget (G'.getD (pget gp' c') #[]) v := by
            intro v hv
            unfold extend; rw [dif_pos (Finset.mem_range.1 hv)]
          rw [Finset.sum_congr rfl this, k1 k.val k.isLt]; rfl) (by
          intro i hi
          exact k2 i.val ((mem_S_iff p S hreg i).1 hi))
        intro v hv
        exact congrFun hg0 ⟨v, hv⟩

/-! ### a decision procedure for the two run-time hypotheses (for concrete instances) -/

/-- checks `gsSqrtOK` and `gsUnambOK` along the run -/
def gsOKb (n nullity : Nat) (S : List Nat) : Nat → Nat → Array Nat → Array (Array K) → Bool
  | 0, _, _, _ => true
  | fuel + 1, column, gperm, G =>
    (decide (gsVal S G gperm column = 0) || decide ((sTol : K) ≤ gsVal S G gperm column)) &&
    (if gsVal S G gperm column < (sTol : K) then true else
      decide (SqrtFn.sq (gsStep n nullity S column gperm G (gsVal S G gperm column)).2.2
          * SqrtFn.sq (gsStep n nullity S column gperm G (gsVal S G gperm column)).2.2
        = (gsStep n nullity S column gperm G (gsVal S G gperm column)).2.2) &&
      gsOKb n nullity S fuel (column + 1)
        (gsStep n nullity S column gperm G (gsVal S G gperm column)).1
        (gsStep n nullity S column gperm G (gsVal S G gperm column)).2.1)

theorem gsOKb_spec (n nullity : Nat) (S : List Nat) :
    ∀ fuel column gperm (G : Array (Array K)), gsOKb n nullity S fuel column gperm G = true →
      gsSqrtOK n nullity S fuel column gperm G ∧ gsUnambOK n nullity S fuel column gperm G := by
  intro fuel
  induction fuel with
  | zero => intro _ _ _ _; exact ⟨trivial, trivial⟩
  | succ fuel ih =>
    intro column gperm G h
    unfold gsOKb at h
    rw [Bool.and_eq_true] at h
    obtain ⟨h1, h2⟩ := h
    have hu : gsVal S G gperm column = 0 ∨ (sTol : K) ≤ gsVal S G gperm column := by
      rw [Bool.or_eq_true] at h1
      rcases h1 with h1 | h1
      · left; exact of_decide_eq_true h1
      · right; exact of_decide_eq_true h1
    unfold gsSqrtOK gsUnambOK
    by_cases hp : gsVal S G gperm column < (sTol : K)
    · rw [if_pos hp, if_pos hp]
      exact ⟨trivial, hu, trivial⟩
    · rw [if_neg hp] at h2
      rw [if_neg hp, if_neg hp]
      rw [Bool.and_eq_true] at h2
      obtain ⟨h3, h4⟩ := h2
      obtain ⟨i1, i2⟩ := ih _ _ _ h4
      exact ⟨⟨of_decide_eq_true h3, i1⟩, hu, i2⟩

end
end Gama.Ls
