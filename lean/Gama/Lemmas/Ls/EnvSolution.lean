/-
  Envelope solver: what `solve_x0` leaves behind (`Env.factor`) is a least-squares solution of
  the homogenised system in the new numbering — normal equations for every unambiguous
  (regular or singular) problem, `IsLSSolution` in the regular case — for EVERY ordering
  (`Ap` is the homogenised matrix with its columns in any order whatsoever).
-/
import Gama.Lemmas.Ls.EnvMatrix
import Gama.Lemmas.LS.Bridge

namespace Gama.Ls.Env
open Finset Matrix Gama.LS

set_option linter.unusedSectionVars false

variable {K : Type} [Field K] [LinearOrder K] [IsStrictOrderedRing K] (sq : K → K)
local notation "𝔽" => fieldScalar sq

variable (tol : K) (m n : ℕ) (At : DMat K) (bt : Array K) (o : EnvOrd)

/-- homogenised design matrix, columns in the new numbering -/
def ApM : Matrix (Fin m) (Fin n) K := matOf m n (@factor K 𝔽 tol m n At bt o).Ap
/-- homogenised right-hand side -/
def btV : Fin m → K := vecFn m (@factor K 𝔽 tol m n At bt o).bt
/-- the normal matrix the model factorises -/
def NF : ℕ → ℕ → K := @mget K 𝔽 (@factor K 𝔽 tol m n At bt o).N
/-- particular solution in the new numbering -/
def x0V : Fin n → K := vecFn n (@vget K 𝔽 (@factor K 𝔽 tol m n At bt o).x0p)

theorem NF_eq : matOf n n (NF sq tol m n At bt o) = (ApM sq tol m n At bt o)ᵀ * ApM sq tol m n At bt o := by
  ext i j
  simp only [matOf, NF, mul_apply, transpose_apply, ApM]
  rw [factor_N sq m At bt o i.2 j.2, ip]
  exact (Fin.sum_univ_eq_sum_range (fun r => (@factor K 𝔽 tol m n At bt o).Ap r i
    * (@factor K 𝔽 tol m n At bt o).Ap r j) m).symm

/-- the matrix the model factorises is the Gram matrix of the homogenised columns -/
theorem NF_gram : ∀ i < n, ∀ j < n, NF sq tol m n At bt o i j
    = ip m (fun r => (@factor K 𝔽 tol m n At bt o).Ap r i) (fun r => (@factor K 𝔽 tol m n At bt o).Ap r j) :=
  fun _ hi _ hj => factor_N sq m At bt o hi hj

theorem NF_symm : ∀ i < n, ∀ j < n, NF sq tol m n At bt o i j = NF sq tol m n At bt o j i := by
  intro i hi j hj
  unfold NF
  rw [factor_N sq m At bt o hi hj, factor_N sq m At bt o hj hi, ip_comm]

theorem cF_eq : vecFn n (@vget K 𝔽 (@factor K 𝔽 tol m n At bt o).c)
    = (ApM sq tol m n At bt o)ᵀ *ᵥ btV sq tol m n At bt o := by
  ext i
  simp only [vecFn, mulVec, dotProduct, transpose_apply, ApM, btV, matOf]
  rw [factor_c sq m At bt o i.2, ip]
  exact (Fin.sum_univ_eq_sum_range (fun r => (@factor K 𝔽 tol m n At bt o).Ap r i
    * (@factor K 𝔽 tol m n At bt o).bt r) m).symm

theorem x0V_eq (i : Fin n) : x0V sq tol m n At bt o i
    = solvef sq (NF sq tol m n At bt o) tol n (@vget K 𝔽 (@factor K 𝔽 tol m n At bt o).c) i := rfl


/-- `Unambiguous` / `Regular` for the system the model built -/
def FactUnambiguous : Prop := Unambiguous sq (NF sq tol m n At bt o) tol n
def FactRegular : Prop := Regular sq (NF sq tol m n At bt o) tol n

/-- **normal equations** `Apᵀ(Ap x0 − b̃) = 0` for every unambiguous problem, regular or singular -/
theorem x0_normal (hU : FactUnambiguous sq tol m n At bt o) :
    (ApM sq tol m n At bt o)ᵀ *ᵥ (ApM sq tol m n At bt o *ᵥ x0V sq tol m n At bt o - btV sq tol m n At bt o) = 0 := by
  have hN : matOf n n (NF sq tol m n At bt o) *ᵥ x0V sq tol m n At bt o
      = (ApM sq tol m n At bt o)ᵀ *ᵥ btV sq tol m n At bt o := by
    rw [← cF_eq]
    ext i
    rw [show x0V sq tol m n At bt o = vecFn n (solvef sq (NF sq tol m n At bt o) tol n
      (@vget K 𝔽 (@factor K 𝔽 tol m n At bt o).c)) from rfl, matOf_mulVec]
    exact solve_gram sq (@factor K 𝔽 tol m n At bt o).bt hU
      (fun i hi j hj => factor_N sq m At bt o hi hj) (NF_symm sq tol m n At bt o)
      (fun i hi => factor_c sq m At bt o hi) i.2
  rw [mulVec_sub, mulVec_mulVec, ← NF_eq, hN, sub_self]

/-- the dependent components of the particular solution are 0 -/
theorem x0_dep_zero (hU : FactUnambiguous sq tol m n At bt o) (k : Fin n)
    (h0 : Df sq (NF sq tol m n At bt o) tol k = 0) : x0V sq tol m n At bt o k = 0 :=
  solve_dep sq hU _ k.2 h0

/-- `squares = ‖Ap x0 − b̃‖²` -/
theorem squares_eq :
    @squares K 𝔽 (@factor K 𝔽 tol m n At bt o)
      = (ApM sq tol m n At bt o *ᵥ x0V sq tol m n At bt o - btV sq tol m n At bt o)
        ⬝ᵥ (ApM sq tol m n At bt o *ᵥ x0V sq tol m n At bt o - btV sq tol m n At bt o) := by
  unfold squares
  rw [sumTo_eq, show (@factor K 𝔽 tol m n At bt o).m = m from rfl,
    show (@factor K 𝔽 tol m n At bt o).n = n from rfl]
  simp only [dotProduct, Pi.sub_apply]
  rw [← Fin.sum_univ_eq_sum_range _ m]
  refine Finset.sum_congr rfl fun r _ => ?_
  have : (ApM sq tol m n At bt o *ᵥ x0V sq tol m n At bt o) r
      = @sumTo K 𝔽 n (fun i => (@factor K 𝔽 tol m n At bt o).Ap r i * @vget K 𝔽 (@factor K 𝔽 tol m n At bt o).x0p i) := by
    rw [sumTo_eq]
    exact matOf_mulVec m n _ _ r
  rw [this]
  rfl

/-- regular case: the homogenised matrix has full column rank -/
theorem regular_ker_A (hR : FactRegular sq tol m n At bt o) (htol : 0 < tol) (g : Fin n → K)
    (hg : ApM sq tol m n At bt o *ᵥ g = 0) : g = 0 := by
  apply regular_ker sq hR htol (NF_symm sq tol m n At bt o) g
  rw [NF_eq, ← mulVec_mulVec, hg, mulVec_zero]

/-- **regular case**: `x0` is THE least-squares solution of the homogenised system -/
theorem x0_isLS_regular (hR : FactRegular sq tol m n At bt o) (htol : 0 < tol) (S : Finset (Fin n)) :
    IsLSSolution (ApM sq tol m n At bt o) (btV sq tol m n At bt o) 1 S (x0V sq tol m n At bt o)
      (ApM sq tol m n At bt o *ᵥ x0V sq tol m n At bt o - btV sq tol m n At bt o)
      (@squares K 𝔽 (@factor K 𝔽 tol m n At bt o)) :=
  IsLSSolution.of_regular (regular_ker_A sq tol m n At bt o hR htol) rfl
    (by rw [one_mulVec]; exact x0_normal sq tol m n At bt o hR.unambiguous)
    (by rw [one_mulVec]; exact squares_eq sq tol m n At bt o)

end Gama.Ls.Env
