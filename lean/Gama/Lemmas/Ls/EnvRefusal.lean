/-
  Envelope solver, `BadRegularization`: the Gram–Schmidt loop of `solve_x` throws iff the
  regularisation subset does not resolve the defect (C02_refusal_env).

  * `ok ⇒ resolves`  : the normalised columns are `S`-orthonormal and span the kernel, so a
    kernel vector that vanishes on `S` has all its coordinates 0.
  * `throws ⇒ does not resolve` : the column under test, reduced by the earlier ones, is a
    non-zero kernel vector (the kernel columns are triangular: column `k` has `−1` at position `k`
    and the earlier ones vanish there) whose `S`-norm — the tested pivot — is exactly 0 under
    the unambiguity hypothesis for this loop (`GSUnambiguous`: every tested pivot is 0 or ≥ s_tol).
-/
import Gama.Lemmas.Ls.EnvSingular

namespace Gama.Ls.Env
open Finset Matrix Gama.LS

set_option linter.unusedSectionVars false

variable {K : Type} [Field K] [LinearOrder K] [IsStrictOrderedRing K] (sq : K → K)
local notation "𝔽" => fieldScalar sq

variable {n : ℕ} {S : List ℕ}

theorem dotL_add_left (S : List ℕ) (a b c : ℕ → K) :
    dotL S (fun k => a k + b k) c = dotL S a c + dotL S b c := by
  rw [dotL_comm, dotL_add_right, dotL_comm S c a, dotL_comm S c b]

theorem dotL_smul_left (S : List ℕ) (a c : ℕ → K) (r : K) :
    dotL S (fun k => r * a k) c = r * dotL S a c := by
  rw [dotL_comm, dotL_smul_right, dotL_comm]

/-- `S`-inner product of a vector on `Fin n` with a column -/
def dv (S : List ℕ) (v : Fin n → K) (q : Array K) : K := dotL S (ext0 v) (@vget K 𝔽 q)

theorem dv_av (hS : ∀ k ∈ S, k < n) (a q : Array K) : dv sq S (av sq n a) q = @dotS K 𝔽 S a q := by
  unfold dv
  rw [dotS_eq, dotL_comm, dotL_comm S (@vget K 𝔽 a)]
  exact dotL_congr_right fun k hk => ext0_av sq n a (hS k hk)

/-- a combination of columns `S`-orthogonal to `q` is `S`-orthogonal to `q` -/
theorem dv_span_zero (hS : ∀ k ∈ S, k < n) (t : List (Array K)) (q : Array K)
    (hq : ∀ q' ∈ t, @dotS K 𝔽 S q' q = 0) :
    ∀ w ∈ Submodule.span K (av sq n '' {x | x ∈ t}), dv sq S w q = 0 := by
  intro w hw
  induction hw using Submodule.span_induction with
  | mem v hv => obtain ⟨a, ha, rfl⟩ := hv; rw [dv_av sq hS]; exact hq a ha
  | zero => unfold dv; rw [ext0_zero, dotL_comm]; exact dotL_zero_right _ fun _ _ => rfl
  | add v w _ _ hv hw => unfold dv at *; rw [ext0_add, dotL_add_left, hv, hw, add_zero]
  | smul r v _ hv => unfold dv at *; rw [ext0_smul, dotL_smul_left, hv, mul_zero]

/-- coordinates with respect to an `S`-orthonormal list are `S`-inner products: a combination
    that is `S`-orthogonal to every column is zero -/
theorem orthoN_indep (hS : ∀ k ∈ S, k < n) (G : List (Array K)) (ho : OrthoN sq S G) :
    ∀ v ∈ Submodule.span K (av sq n '' {x | x ∈ G}), (∀ q ∈ G, dv sq S v q = 0) → v = 0 := by
  induction G with
  | nil =>
    intro v hv _
    have : av sq n '' {x | x ∈ ([] : List (Array K))} = ∅ := by simp
    rw [this, Submodule.span_empty] at hv
    exact (Submodule.mem_bot K).1 hv
  | cons q t ih =>
    intro v hv hdot
    obtain ⟨hp, hn⟩ := ho
    have hp' := List.pairwise_cons.1 hp
    have himg : av sq n '' {x | x ∈ q :: t} = insert (av sq n q) (av sq n '' {x | x ∈ t}) := by
      ext w; simp [Set.mem_image, List.mem_cons, or_and_right, exists_or, eq_comm]
    rw [himg, Submodule.mem_span_insert] at hv
    obtain ⟨a, w, hw, rfl⟩ := hv
    have hwq : dv sq S w q = 0 :=
      dv_span_zero sq hS t q (fun q' hq' => by rw [dotS_comm]; exact hp'.1 q' hq') w hw
    have h1 := hdot q List.mem_cons_self
    have hlin : dv sq S (a • av sq n q + w) q = a * dv sq S (av sq n q) q + dv sq S w q := by
      unfold dv; rw [ext0_add, dotL_add_left, ext0_smul, dotL_smul_left]
    rw [hlin, hwq, add_zero, dv_av sq hS, hn q List.mem_cons_self, mul_one] at h1
    subst h1
    rw [zero_smul, zero_add]
    apply ih ⟨hp'.2, fun x hx => hn x (List.mem_cons_of_mem _ hx)⟩ w hw
    intro q' hq'
    have := hdot q' (List.mem_cons_of_mem _ hq')
    rwa [zero_smul, zero_add] at this


/-! ### the pivots the loop tests -/

/-- the sequence of pivots `sqrt(dot(column,column))` the loop compares with `s_tol`, up to and
    including the first one below it -/
def gsPivots (n : ℕ) (S : List ℕ) (stol : K) : List (Array K) → List (Array K) → List K
  | _, [] => []
  | qs, g :: rest =>
    let g' := @orthAgainst K 𝔽 n S qs g
    let pv := sq (@dotS K 𝔽 S g' g')
    pv :: (if pv < stol then [] else gsPivots n S stol (qs ++ [scaleA sq n g' pv]) rest)

theorem gsPivots_cons (stol : K) (qs : List (Array K)) (g : Array K) (rest : List (Array K)) :
    gsPivots sq n S stol qs (g :: rest)
      = sq (@dotS K 𝔽 S (@orthAgainst K 𝔽 n S qs g) (@orthAgainst K 𝔽 n S qs g)) ::
        (if sq (@dotS K 𝔽 S (@orthAgainst K 𝔽 n S qs g) (@orthAgainst K 𝔽 n S qs g)) < stol then []
         else gsPivots sq n S stol (qs ++ [scaleA sq n (@orthAgainst K 𝔽 n S qs g)
           (sq (@dotS K 𝔽 S (@orthAgainst K 𝔽 n S qs g) (@orthAgainst K 𝔽 n S qs g)))]) rest) := rfl

/-- **when the loop throws**: the column under test, reduced by the earlier ones, vanishes on `S` -/
theorem gsCols_error_spec (hsq : IsSqrt sq) (hS : ∀ k ∈ S, k < n) {stol : K} (hstol : 0 < stol)
    (V : Submodule K (Fin n → K)) (cols : List (Array K)) :
    ∀ (qs : List (Array K)) (e : ErrKind), @gsCols K 𝔽 n S stol qs cols = .error e →
      (∀ q ∈ qs, av sq n q ∈ V) → (∀ g ∈ cols, av sq n g ∈ V) →
      (∀ p ∈ gsPivots sq n S stol qs cols, p < stol → p = 0) →
      e = .BadRegularization ∧ ∃ pre g post, cols = pre ++ g :: post ∧ ∃ w : Fin n → K, w ∈ V
        ∧ av sq n g - w ∈ Submodule.span K (av sq n '' {x | x ∈ qs ++ pre})
        ∧ ∀ k ∈ S, ext0 w k = 0 := by
  induction cols with
  | nil => intro qs e h; rw [gsCols_nil] at h; cases h
  | cons g rest ih =>
    intro qs e h hV hcols hpiv
    rw [gsCols_cons] at h
    rw [gsPivots_cons] at hpiv
    set g' := @orthAgainst K 𝔽 n S qs g with hg'
    set pv := sq (@dotS K 𝔽 S g' g') with hpv
    have hspan_le : Submodule.span K (av sq n '' {q | q ∈ qs}) ≤ V :=
      Submodule.span_le.2 fun v ⟨q, hq, hv⟩ => hv ▸ hV q hq
    have hdiff : av sq n g - av sq n g' ∈ Submodule.span K (av sq n '' {q | q ∈ qs}) :=
      av_orthAgainst_sub sq (n := n) (S := S) qs g
    have hg'V : av sq n g' ∈ V := by
      have h2 := Submodule.sub_mem V (hcols g List.mem_cons_self) (hspan_le hdiff)
      rwa [sub_sub_cancel] at h2
    by_cases hlt : pv < stol
    · rw [if_pos hlt] at h
      have he : e = .BadRegularization := by cases h; rfl
      have hp0 : pv = 0 := hpiv pv List.mem_cons_self hlt
      have hpp : pv * pv = @dotS K 𝔽 S g' g' := hsq.mul_self _ (dotS_self_nonneg sq g')
      have hd0 : dotL S (@vget K 𝔽 g') (@vget K 𝔽 g') = 0 := by rw [← dotS_eq, ← hpp, hp0, mul_zero]
      refine ⟨he, [], g, rest, rfl, av sq n g', hg'V, ?_, ?_⟩
      · rw [List.append_nil]; exact hdiff
      · intro k hk
        rw [ext0_av sq n g' (hS k hk)]
        exact dotL_self_eq_zero hd0 k hk
    · rw [if_neg hlt] at h
      rw [if_neg hlt] at hpiv
      have hpos : 0 < pv := lt_of_lt_of_le hstol (not_lt.1 hlt)
      have hne : pv ≠ 0 := ne_of_gt hpos
      set gh := scaleA sq n g' pv with hgh
      have hghV : av sq n gh ∈ V := by
        rw [hgh, av_scaleA]; exact Submodule.smul_mem _ _ hg'V
      have hV' : ∀ q ∈ qs ++ [gh], av sq n q ∈ V := fun q hq => by
        rcases List.mem_append.1 hq with hq | hq
        · exact hV q hq
        · rw [List.mem_singleton.1 hq]; exact hghV
      obtain ⟨he, pre, g0, post, hsplit, w, hwV, hw1, hw2⟩ := ih (qs ++ [gh]) e h hV'
        (fun x hx => hcols x (List.mem_cons_of_mem _ hx))
        (fun p hp => hpiv p (List.mem_cons_of_mem _ hp))
      refine ⟨he, g :: pre, g0, post, by rw [hsplit]; rfl, w, hwV, ?_, hw2⟩
      -- span over (qs ++ [gh]) ++ pre is inside the span over qs ++ (g :: pre)
      have hle : Submodule.span K (av sq n '' {x | x ∈ (qs ++ [gh]) ++ pre})
          ≤ Submodule.span K (av sq n '' {x | x ∈ qs ++ (g :: pre)}) := by
        apply Submodule.span_le.2
        rintro v ⟨a, ha, rfl⟩
        have ha' : a ∈ qs ∨ a = gh ∨ a ∈ pre := by
          simp only [Set.mem_setOf_eq, List.mem_append, List.mem_singleton] at ha
          tauto
        rcases ha' with ha | rfl | ha
        · exact Submodule.subset_span ⟨a, by simp [ha], rfl⟩
        · rw [hgh, av_scaleA]
          apply Submodule.smul_mem
          have hsub : av sq n '' {q | q ∈ qs} ⊆ av sq n '' {x | x ∈ qs ++ (g :: pre)} :=
            Set.image_mono fun q (hq : q ∈ qs) => by simp [hq]
          have h1 := Submodule.span_mono hsub hdiff
          have h2 : av sq n g ∈ Submodule.span K (av sq n '' {x | x ∈ qs ++ (g :: pre)}) :=
            Submodule.subset_span ⟨g, by simp, rfl⟩
          have := Submodule.sub_mem _ h2 h1
          rwa [sub_sub_cancel] at this
        · exact Submodule.subset_span ⟨a, by simp [ha], rfl⟩
      exact hle hw1


/-! ### `solve_x` -/

variable (tol stol : K) (m : ℕ) (At : DMat K) (bt : Array K) (o : EnvOrd)

/-- "numerically unambiguous" for the Gram–Schmidt loop: every tested pivot is 0 or ≥ s_tol -/
def GSUnambiguous (S : List ℕ) : Prop :=
  ∀ p ∈ gsPivots sq n S stol [] (kerCols sq tol m n At bt o), p < stol → p = 0

/-- **`solve_x` succeeds ⇒ the regularisation list resolves the defect** -/
theorem solveX_ok_resolves (hsq : IsSqrt sq) (hU : FactUnambiguous sq tol m n At bt o) (htol : 0 < tol)
    (hstol : 0 < stol) (hS : ∀ k ∈ S, k < n) {G : List (Array K)} {x : Array K}
    (h : @solveX K 𝔽 (@factor K 𝔽 tol m n At bt o) S stol = .ok (G, x)) :
    ∀ v ∈ kerV sq tol m n At bt o, (∀ k ∈ S, ext0 v k = 0) → v = 0 := by
  rw [solveX_eq sq tol stol m n At bt o hU htol] at h
  unfold gs at h
  cases hG : @gsCols K 𝔽 n S stol [] (kerCols sq tol m n At bt o) with
  | error e => rw [hG] at h; cases h
  | ok G' =>
    obtain ⟨r1, -, -, r4⟩ := gsCols_spec sq hsq hS hstol (kerV sq tol m n At bt o)
      (kerCols sq tol m n At bt o) [] G' hG ⟨List.Pairwise.nil, fun q hq => by cases hq⟩
      (fun q hq => by cases hq) (kerCols_mem_kerV sq tol m n At bt o hU)
    intro v hv hvS
    have h2 : Submodule.span K (av sq n '' {q | q ∈ kerCols sq tol m n At bt o})
        ≤ Submodule.span K (av sq n '' {q | q ∈ G'}) :=
      Submodule.span_le.2 fun v ⟨q, hq, hv⟩ => hv ▸ r4 q hq
    apply orthoN_indep sq hS G' r1 v (h2 (kerV_le_span sq tol m n At bt o hU hv))
    intro q _
    unfold dv
    rw [dotL_comm]
    exact dotL_zero_right _ hvS

theorem depCols_sorted :
    (@depCols K 𝔽 (@factor K 𝔽 tol m n At bt o).rows n).Pairwise (· < ·) := by
  unfold depCols
  exact List.Pairwise.filter _ List.pairwise_lt_range

/-- **`solve_x` throws ⇒ it throws `BadRegularization` and the list does not resolve the defect**:
    there is a non-zero kernel vector vanishing on the list -/
theorem solveX_error_not_resolves (hsq : IsSqrt sq) (hU : FactUnambiguous sq tol m n At bt o) (htol : 0 < tol)
    (hstol : 0 < stol) (hS : ∀ k ∈ S, k < n) (hGS : GSUnambiguous sq (n := n) tol stol m At bt o S) {e : ErrKind}
    (h : @solveX K 𝔽 (@factor K 𝔽 tol m n At bt o) S stol = .error e) :
    e = .BadRegularization ∧ ∃ w ∈ kerV sq tol m n At bt o, w ≠ 0 ∧ ∀ k ∈ S, ext0 w k = 0 := by
  rw [solveX_eq sq tol stol m n At bt o hU htol] at h
  unfold gs at h
  cases hG : @gsCols K 𝔽 n S stol [] (kerCols sq tol m n At bt o) with
  | ok G' => rw [hG] at h; cases h
  | error e' =>
    rw [hG] at h
    have hee : e' = e := by cases h; rfl
    subst hee
    obtain ⟨he, pre, g, post, hsplit, w, hwV, hw1, hw2⟩ := gsCols_error_spec sq hsq hS hstol
      (kerV sq tol m n At bt o) (kerCols sq tol m n At bt o) [] e' hG (fun q hq => by cases hq)
      (kerCols_mem_kerV sq tol m n At bt o hU) hGS
    refine ⟨he, w, hwV, ?_, hw2⟩
    -- the split of the column list comes from a split of the (sorted) list of zero pivots
    unfold kerCols at hsplit
    obtain ⟨dpre, drest, hd, hpre, hrest⟩ := List.map_eq_append_iff.1 hsplit
    obtain ⟨k, dpost, hd2, hgk, -⟩ := List.map_eq_cons_iff.1 hrest
    subst hd2
    have hsorted := depCols_sorted sq tol m At bt o (n := n)
    rw [hd] at hsorted
    have hlt : ∀ c ∈ dpre, c < k := fun c hc =>
      (List.pairwise_append.1 hsorted).2.2 c hc k List.mem_cons_self
    have hkmem : k ∈ @depCols K 𝔽 (@factor K 𝔽 tol m n At bt o).rows n := by
      rw [hd]; simp
    obtain ⟨hkn, hk0⟩ := (mem_depCols sq tol m n At bt o k).1 hkmem
    -- every combination of the earlier columns vanishes at position k
    have hzero : ∀ u ∈ Submodule.span K (av sq n '' {x | x ∈ ([] : List (Array K)) ++ pre}), u ⟨k, hkn⟩ = 0 := by
      intro u hu
      induction hu using Submodule.span_induction with
      | mem v hv =>
        obtain ⟨a, ha, rfl⟩ := hv
        rw [List.nil_append, ← hpre] at ha
        change a ∈ List.map _ dpre at ha
        obtain ⟨c, hc, rfl⟩ := List.mem_map.1 ha
        have hcm : c ∈ @depCols K 𝔽 (@factor K 𝔽 tol m n At bt o).rows n := by
          rw [hd]; simp [hc]
        obtain ⟨hcn, hc0⟩ := (mem_depCols sq tol m n At bt o c).1 hcm
        exact kerF_above sq hU hcn hc0 hkn (hlt c hc)
      | zero => rfl
      | add v w _ _ hv hw => rw [Pi.add_apply, hv, hw, add_zero]
      | smul r v _ hv => rw [Pi.smul_apply, hv, smul_zero]
    intro hw0
    have := hzero _ hw1
    rw [hw0, sub_zero, ← hgk] at this
    have hk1 : av sq n (@kerCol K 𝔽 (@factor K 𝔽 tol m n At bt o).rows n k) ⟨k, hkn⟩ = -1 := by
      have h1 := kerF_dep sq hU hkn hk0 hkn hk0
      rw [if_pos rfl] at h1
      exact h1
    rw [hk1] at this
    exact absurd this (by norm_num)

end Gama.Ls.Env
