/-
  Non-vacuity of `decompose_cert` (Lemmas/Ls/SvdDecompCert.lean): a concrete run of the transliterated
  Golub–Reinsch `SVD::svd()` (`Svd.decompose`, Model/Ls/Svd/Decomp.lean) over ℝ with `Real.sqrt`
  that RETURNS.

  In exact arithmetic the convergence tests of the QR iteration are exact zero tests and there are at
  most 31 passes per singular value, so `decompose … = .ok d` holds only for special inputs; over ℚ there
  is no square root, so the witness is over ℝ, on a matrix for which every square root taken is rational.

  Two runs, both at `𝕊 = fieldScalar Real.sqrt`:

    `decompose_A32 : decompose 3 2 A32 = .ok d32`
        #[#[12, 12], #[5, 12], #[0, 0]]: passes per singular value (k = 2, 1): [2, 1], QR sweeps: 1, sign flips: 1, cancellation loops: 0
        (full rank: a non-trivial left Householder step, one genuine QR sweep with the exact bottom 2×2
        shift, after which rv1[2] = 0; the second pass converges and flips the sign of W[2] and of column 2 of V);
    `decompose_pCV : decompose 3 2 #[#[6, 8], #[3, 4], #[6, 8]] = .ok Gama.Ls.Ex.dCV`
        #[#[6, 8], #[3, 4], #[6, 8]]: passes per singular value (k = 2, 1): [2, 1], QR sweeps: 1, sign flips: 0, cancellation loops: 1
        (rank 1: a non-trivial Householder step, one QR sweep that leaves W[1] = 0, then in the second
        pass the cancellation loop rotates rv1[2] away) — the hypothesis of `Ex.pCV_adj_svd`
        (ComposeAdjExample.lean) and of the conditional example in Props/C01/AdjSolvers.lean.

  Both are proved by evaluating the pieces of `decomposeS` (SvdDecompStruct.lean) on the states that
  occur.  The states (including the dead variables) were computed by an exact simulation of the program (python `fractions`); every lemma
  below is checked by `norm_num` — nothing is taken from the simulation on trust.
-/
import Gama.Lemmas.Ls.SvdDecompBasic
import Gama.Lemmas.Ls.ComposeAdjExample
import Mathlib.Analysis.Real.Sqrt
import Mathlib.Tactic.NormNum

namespace Gama.Ls.Svd.Ex
open Gama.LS Gama.Ls Gama.Ls.Svd Gama

set_option linter.unusedSectionVars false
set_option linter.unusedVariables false
set_option linter.unusedSimpArgs false
set_option linter.unusedTactic false

local notation "𝕊" => (Gama.LS.fieldScalar Real.sqrt)

/-- `Real.sqrt` is a square root on the non-negative reals (the hypotheses of `decompose_cert`) -/
theorem sqrtLaw_real' :
    (∀ x : ℝ, 0 ≤ x → Real.sqrt x * Real.sqrt x = x) ∧ (∀ x : ℝ, 0 ≤ x → 0 ≤ Real.sqrt x) :=
  ⟨fun _ h => Real.mul_self_sqrt h, fun _ _ => Real.sqrt_nonneg _⟩

theorem e32_ok_bind {ε α β : Type} (a : α) (f : α → Except ε β) : (Except.ok a >>= f) = f a := rfl
theorem e32_pure_ok {ε α : Type} (a : α) : (pure a : Except ε α) = Except.ok a := rfl


/-- the example matrix -/
noncomputable def A32 : DMat ℝ := #[#[12, 12], #[5, 12], #[0, 0]]

/-- the factors `decompose` returns on `A32` -/
noncomputable def d32 : Dec ℝ :=
  { U := #[#[3/5, 4/5], #[-(4/5), 3/5], #[0, 0]], W := #[4, 21], V := #[#[4/5, 3/5], #[-(3/5), 4/5]] }

/-! ### reading and writing array literals -/

section
variable (a b c d e f x : ℝ)
theorem e32_mg32_11 : @mg ℝ 𝕊 #[#[a, b], #[c, d], #[e, f]] 1 1 = a := by simp [mg, g1]
theorem e32_mg32_12 : @mg ℝ 𝕊 #[#[a, b], #[c, d], #[e, f]] 1 2 = b := by simp [mg, g1]
theorem e32_mg32_21 : @mg ℝ 𝕊 #[#[a, b], #[c, d], #[e, f]] 2 1 = c := by simp [mg, g1]
theorem e32_mg32_22 : @mg ℝ 𝕊 #[#[a, b], #[c, d], #[e, f]] 2 2 = d := by simp [mg, g1]
theorem e32_mg32_31 : @mg ℝ 𝕊 #[#[a, b], #[c, d], #[e, f]] 3 1 = e := by simp [mg, g1]
theorem e32_mg32_32 : @mg ℝ 𝕊 #[#[a, b], #[c, d], #[e, f]] 3 2 = f := by simp [mg, g1]
theorem e32_ms32_11 : ms (#[#[a, b], #[c, d], #[e, f]] : DMat ℝ) 1 1 x = #[#[x, b], #[c, d], #[e, f]] := by simp [ms]
theorem e32_ms32_12 : ms (#[#[a, b], #[c, d], #[e, f]] : DMat ℝ) 1 2 x = #[#[a, x], #[c, d], #[e, f]] := by simp [ms]
theorem e32_ms32_21 : ms (#[#[a, b], #[c, d], #[e, f]] : DMat ℝ) 2 1 x = #[#[a, b], #[x, d], #[e, f]] := by simp [ms]
theorem e32_ms32_22 : ms (#[#[a, b], #[c, d], #[e, f]] : DMat ℝ) 2 2 x = #[#[a, b], #[c, x], #[e, f]] := by simp [ms]
theorem e32_ms32_31 : ms (#[#[a, b], #[c, d], #[e, f]] : DMat ℝ) 3 1 x = #[#[a, b], #[c, d], #[x, f]] := by simp [ms]
theorem e32_ms32_32 : ms (#[#[a, b], #[c, d], #[e, f]] : DMat ℝ) 3 2 x = #[#[a, b], #[c, d], #[e, x]] := by simp [ms]
end
section
variable (a b c d x : ℝ)
theorem e32_mg22_11 : @mg ℝ 𝕊 #[#[a, b], #[c, d]] 1 1 = a := by simp [mg, g1]
theorem e32_mg22_12 : @mg ℝ 𝕊 #[#[a, b], #[c, d]] 1 2 = b := by simp [mg, g1]
theorem e32_mg22_21 : @mg ℝ 𝕊 #[#[a, b], #[c, d]] 2 1 = c := by simp [mg, g1]
theorem e32_mg22_22 : @mg ℝ 𝕊 #[#[a, b], #[c, d]] 2 2 = d := by simp [mg, g1]
theorem e32_ms22_11 : ms (#[#[a, b], #[c, d]] : DMat ℝ) 1 1 x = #[#[x, b], #[c, d]] := by simp [ms]
theorem e32_ms22_12 : ms (#[#[a, b], #[c, d]] : DMat ℝ) 1 2 x = #[#[a, x], #[c, d]] := by simp [ms]
theorem e32_ms22_21 : ms (#[#[a, b], #[c, d]] : DMat ℝ) 2 1 x = #[#[a, b], #[x, d]] := by simp [ms]
theorem e32_ms22_22 : ms (#[#[a, b], #[c, d]] : DMat ℝ) 2 2 x = #[#[a, b], #[c, x]] := by simp [ms]
end
section
variable (a b x : ℝ)
theorem e32_g12_1 : @g1 ℝ 𝕊 #[a, b] 1 = a := by simp [g1]
theorem e32_g12_2 : @g1 ℝ 𝕊 #[a, b] 2 = b := by simp [g1]
theorem e32_s12_1 : s1 (#[a, b] : Array ℝ) 1 x = #[x, b] := by simp [s1]
theorem e32_s12_2 : s1 (#[a, b] : Array ℝ) 2 x = #[a, x] := by simp [s1]
end

/-! ### the square roots that occur -/

theorem e32_sqrt_169_289 : Real.sqrt (169/289) = 13/17 := by
  rw [show ((169/289 : ℝ)) = (13/17)^2 by norm_num]; exact Real.sqrt_sq (by norm_num)
theorem e32_sqrt_625_576 : Real.sqrt (625/576) = 25/24 := by
  rw [show ((625/576 : ℝ)) = (25/24)^2 by norm_num]; exact Real.sqrt_sq (by norm_num)
theorem e32_sqrt_25_16 : Real.sqrt (25/16) = 5/4 := by
  rw [show ((25/16 : ℝ)) = (5/4)^2 by norm_num]; exact Real.sqrt_sq (by norm_num)
theorem e32_sqrt_4225_3969 : Real.sqrt (4225/3969) = 65/63 := by
  rw [show ((4225/3969 : ℝ)) = (65/63)^2 by norm_num]; exact Real.sqrt_sq (by norm_num)
theorem e32_sqrt_9_25 : Real.sqrt (9/25) = 3/5 := by
  rw [show ((9/25 : ℝ)) = (3/5)^2 by norm_num]; exact Real.sqrt_sq (by norm_num)

/-- evaluation of one piece on a concrete state: unfold, read/write the array literals, compute in ℝ -/
local macro "eval32" : tactic => `(tactic|
  norm_num only [bidiagBody, hhCol, hhRow, accVBody, accUBody, passBody, searchBody, cancelBody, sweepBody,
    pythag, absC, nz, forIn_range_eq_runLoop, runLoop, e32_ok_bind, e32_pure_ok,
    e32_mg32_11, e32_ms32_11, e32_mg32_12, e32_ms32_12, e32_mg32_21, e32_ms32_21, e32_mg32_22, e32_ms32_22, e32_mg32_31, e32_ms32_31, e32_mg32_32, e32_ms32_32, e32_mg22_11, e32_ms22_11, e32_mg22_12, e32_ms22_12, e32_mg22_21, e32_ms22_21, e32_mg22_22, e32_ms22_22, e32_g12_1, e32_g12_2, e32_s12_1, e32_s12_2,
    fs_add, fs_sub, fs_mul, fs_div, fs_neg, fs_zero, fs_one, fs_lt, fs_le, fs_beq, fs_sqrt, fs_ofNat,
    if_true, if_false, ite_true, ite_false, Real.sqrt_one, Real.sqrt_zero, e32_sqrt_169_289, e32_sqrt_625_576, e32_sqrt_25_16, e32_sqrt_4225_3969, e32_sqrt_9_25,
    Bool.not_true, Bool.not_false, Bool.false_eq_true, decide_eq_true_eq, decide_eq_false_iff_not,
    decide_true, decide_false, and_self, and_true, true_and, and_false, false_and, not_true_eq_false,
    not_false_eq_true, ne_eq, bind_assoc, pure_bind, bind_pure_comp, map_pure])


/-! ### the run on `A32`, piece by piece (states generated by the exact simulation) -/

theorem e32_bidiag_1 : @bidiagBody ℝ 𝕊 3 2 1 (#[#[12, 12], #[5, 12], #[0, 0]], #[0, 0], #[0, 0], 0, 0, 0, 0, 0, 0, 0) = .ok (.yield (#[#[25, -(408/13)], #[5, -(84/13)], #[0, 0]], #[-13, 0], #[0, 1], 13, 1, 204/13, 0, -1, -2, 2)) := by
  eval32

theorem e32_bidiag_2 : @bidiagBody ℝ 𝕊 3 2 2 (#[#[25, -(408/13)], #[5, -(84/13)], #[0, 0]], #[-13, 0], #[0, 1], 13, 1, 204/13, 0, -1, -2, 2) = .ok (.yield (#[#[25, -(408/13)], #[5, -(168/13)], #[0, 0]], #[-13, 84/13], #[0, 204/13], 288/13, 0, 0, 0, -1, -2, 3)) := by
  eval32

theorem e32_bidiagLoop : forIn [1:3] ((#[#[12, 12], #[5, 12], #[0, 0]], #[0, 0], #[0, 0], 0, 0, 0, 0, 0, 0, 0) : St1 ℝ) (@bidiagBody ℝ 𝕊 3 2) = .ok (#[#[25, -(408/13)], #[5, -(168/13)], #[0, 0]], #[-13, 84/13], #[0, 204/13], 288/13, 0, 0, 0, -1, -2, 3) := by
  norm_num only [forIn_range_eq_runLoop, runLoop, e32_bidiag_1, e32_bidiag_2]

theorem e32_accV_1 : @accVBody ℝ 𝕊 2 #[#[25, -(408/13)], #[5, -(168/13)], #[0, 0]] #[0, 204/13] 0 (#[#[0, 0], #[0, 0]], 0, 0, 3) = .ok (.yield (#[#[0, 0], #[0, 1]], 204/13, 0, 2)) := by
  eval32

theorem e32_accV_2 : @accVBody ℝ 𝕊 2 #[#[25, -(408/13)], #[5, -(168/13)], #[0, 0]] #[0, 204/13] 1 (#[#[0, 0], #[0, 1]], 204/13, 0, 2) = .ok (.yield (#[#[1, 0], #[0, -1]], 0, -(408/13), 1)) := by
  eval32

theorem e32_accVLoop : forIn [0:2] ((#[#[0, 0], #[0, 0]], 0, 0, 3) : DMat ℝ × ℝ × ℝ × Nat) (@accVBody ℝ 𝕊 2 #[#[25, -(408/13)], #[5, -(168/13)], #[0, 0]] #[0, 204/13]) = .ok (#[#[1, 0], #[0, -1]], 0, -(408/13), 1) := by
  norm_num only [forIn_range_eq_runLoop, runLoop, e32_accV_1, e32_accV_2]

theorem e32_accU_1 : @accUBody ℝ 𝕊 3 2 2 #[-13, 84/13] 0 (#[#[25, -(408/13)], #[5, -(168/13)], #[0, 0]], 0, -(408/13), -1, 1) = .ok (.yield (#[#[25, -(408/13)], #[5, -1], #[0, 0]], 84/13, -(408/13), -1, 3)) := by
  eval32

theorem e32_accU_2 : @accUBody ℝ 𝕊 3 2 2 #[-13, 84/13] 1 (#[#[25, -(408/13)], #[5, -1], #[0, 0]], 84/13, -(408/13), -1, 3) = .ok (.yield (#[#[-(12/13), 5/13], #[-(5/13), -(12/13)], #[0, 0]], -13, -5, 1/65, 2)) := by
  eval32

theorem e32_accULoop : forIn [0:2] ((#[#[25, -(408/13)], #[5, -(168/13)], #[0, 0]], 0, -(408/13), -1, 1) : DMat ℝ × ℝ × ℝ × ℝ × Nat) (@accUBody ℝ 𝕊 3 2 2 #[-13, 84/13]) = .ok (#[#[-(12/13), 5/13], #[-(5/13), -(12/13)], #[0, 0]], -13, -5, 1/65, 2) := by
  norm_num only [forIn_range_eq_runLoop, runLoop, e32_accU_1, e32_accU_2]

theorem e32_pass_1 : @passBody ℝ 𝕊 3 2 2 1 (288/13) (#[#[-(12/13), 5/13], #[-(5/13), -(12/13)], #[0, 0]], #[-13, 84/13], #[#[1, 0], #[0, -1]], #[0, 204/13], -13, -5, 1/65, -2, 2, 0, 0, 0, 0, 0, 0, false) = .ok (.yield (#[#[3/5, 4/5], #[-(4/5), 3/5], #[0, 0]], #[4, -21], #[#[4/5, -(3/5)], #[-(3/5), -(4/5)]], #[0, 0], 1323/65, 63/65, 0, 252/65, 1, -(16/65), -21, 336/65, 4, 1, 1, false)) := by
  eval32

theorem e32_pass_2 : @passBody ℝ 𝕊 3 2 2 1 (288/13) (#[#[3/5, 4/5], #[-(4/5), 3/5], #[0, 0]], #[4, -21], #[#[4/5, -(3/5)], #[-(3/5), -(4/5)]], #[0, 0], 1323/65, 63/65, 0, 252/65, 1, -(16/65), -21, 336/65, 4, 1, 1, false) = .ok (.yield (#[#[3/5, 4/5], #[-(4/5), 3/5], #[0, 0]], #[4, 21], #[#[4/5, 3/5], #[-(3/5), 4/5]], #[0, 0], 1323/65, 63/65, 0, 252/65, 2, -(16/65), -21, 336/65, -21, 1, 1, true)) := by
  eval32

theorem e32_pass_3 : @passBody ℝ 𝕊 3 2 2 1 (288/13) (#[#[3/5, 4/5], #[-(4/5), 3/5], #[0, 0]], #[4, 21], #[#[4/5, 3/5], #[-(3/5), 4/5]], #[0, 0], 1323/65, 63/65, 0, 252/65, 2, -(16/65), -21, 336/65, -21, 1, 1, true) = .ok (.done (#[#[3/5, 4/5], #[-(4/5), 3/5], #[0, 0]], #[4, 21], #[#[4/5, 3/5], #[-(3/5), 4/5]], #[0, 0], 1323/65, 63/65, 0, 252/65, 2, -(16/65), -21, 336/65, -21, 1, 1, true)) := by
  eval32

theorem e32_kBody_1 : @kBody ℝ 𝕊 3 2 (288/13) 0 (#[#[-(12/13), 5/13], #[-(5/13), -(12/13)], #[0, 0]], #[-13, 84/13], #[#[1, 0], #[0, -1]], #[0, 204/13], -13, -5, 1/65, -2, 2, 0, 0, 0, 0, 0) = .ok (.yield (#[#[3/5, 4/5], #[-(4/5), 3/5], #[0, 0]], #[4, 21], #[#[4/5, 3/5], #[-(3/5), 4/5]], #[0, 0], 1323/65, 63/65, 0, 252/65, 2, -(16/65), -21, 336/65, -21, 1)) := by
  norm_num only [kBody, forIn_range_eq_runLoop, runLoop, e32_ok_bind, e32_pure_ok, Bool.not_true, Bool.not_false, Bool.false_eq_true, if_false, if_true, e32_pass_1, e32_pass_2, e32_pass_3]

theorem e32_pass_4 : @passBody ℝ 𝕊 3 2 1 0 (288/13) (#[#[3/5, 4/5], #[-(4/5), 3/5], #[0, 0]], #[4, 21], #[#[4/5, 3/5], #[-(3/5), 4/5]], #[0, 0], 1323/65, 63/65, 0, 252/65, 2, -(16/65), -21, 336/65, -21, 1, 0, false) = .ok (.yield (#[#[3/5, 4/5], #[-(4/5), 3/5], #[0, 0]], #[4, 21], #[#[4/5, 3/5], #[-(3/5), 4/5]], #[0, 0], 1323/65, 63/65, 0, 252/65, 1, -(16/65), -21, 336/65, 4, 1, 0, true)) := by
  eval32

theorem e32_pass_5 : @passBody ℝ 𝕊 3 2 1 0 (288/13) (#[#[3/5, 4/5], #[-(4/5), 3/5], #[0, 0]], #[4, 21], #[#[4/5, 3/5], #[-(3/5), 4/5]], #[0, 0], 1323/65, 63/65, 0, 252/65, 1, -(16/65), -21, 336/65, 4, 1, 0, true) = .ok (.done (#[#[3/5, 4/5], #[-(4/5), 3/5], #[0, 0]], #[4, 21], #[#[4/5, 3/5], #[-(3/5), 4/5]], #[0, 0], 1323/65, 63/65, 0, 252/65, 1, -(16/65), -21, 336/65, 4, 1, 0, true)) := by
  eval32

theorem e32_kBody_2 : @kBody ℝ 𝕊 3 2 (288/13) 1 (#[#[3/5, 4/5], #[-(4/5), 3/5], #[0, 0]], #[4, 21], #[#[4/5, 3/5], #[-(3/5), 4/5]], #[0, 0], 1323/65, 63/65, 0, 252/65, 2, -(16/65), -21, 336/65, -21, 1) = .ok (.yield (#[#[3/5, 4/5], #[-(4/5), 3/5], #[0, 0]], #[4, 21], #[#[4/5, 3/5], #[-(3/5), 4/5]], #[0, 0], 1323/65, 63/65, 0, 252/65, 1, -(16/65), -21, 336/65, 4, 1)) := by
  norm_num only [kBody, forIn_range_eq_runLoop, runLoop, e32_ok_bind, e32_pure_ok, Bool.not_true, Bool.not_false, Bool.false_eq_true, if_false, if_true, e32_pass_4, e32_pass_5]

theorem e32_kLoop : forIn [0:2] ((#[#[-(12/13), 5/13], #[-(5/13), -(12/13)], #[0, 0]], #[-13, 84/13], #[#[1, 0], #[0, -1]], #[0, 204/13], -13, -5, 1/65, -2, 2, 0, 0, 0, 0, 0) : StK ℝ) (@kBody ℝ 𝕊 3 2 (288/13)) = .ok (#[#[3/5, 4/5], #[-(4/5), 3/5], #[0, 0]], #[4, 21], #[#[4/5, 3/5], #[-(3/5), 4/5]], #[0, 0], 1323/65, 63/65, 0, 252/65, 1, -(16/65), -21, 336/65, 4, 1) := by
  norm_num only [forIn_range_eq_runLoop, runLoop, e32_kBody_1, e32_kBody_2]

/-! ### the whole run -/

theorem e32_mmk : @mmk ℝ 3 2 (@mget ℝ 𝕊 A32) = A32 := rfl
theorem e32_rep2 : Array.replicate 2 (0 : ℝ) = #[0, 0] := rfl
theorem e32_rep22 : Array.replicate 2 (#[0, 0] : Array ℝ) = #[#[0, 0], #[0, 0]] := rfl

theorem decomposeS_A32 : @decomposeS ℝ 𝕊 3 2 A32 = .ok d32 := by
  unfold decomposeS
  rw [e32_mmk]
  norm_num only [A32, d32, fs_zero, e32_rep2, e32_rep22, e32_bidiagLoop, e32_accVLoop, e32_accULoop, e32_kLoop,
    e32_ok_bind, e32_pure_ok, if_true, if_false]

/-- **the hypothesis of `decompose_cert` is satisfiable**: on `A32` the Golub–Reinsch iteration over
    `(ℝ, Real.sqrt)` terminates and returns `d32` -/
theorem decompose_A32 : @decompose ℝ (Gama.LS.fieldScalar Real.sqrt) 3 2 A32 = .ok d32 := by
  rw [@decompose_eq_struct ℝ 𝕊]; exact decomposeS_A32

/-! ### the run on `[[6, 8], [3, 4], [6, 8]]`, piece by piece -/

theorem eCV_bidiag_1 : @bidiagBody ℝ 𝕊 3 2 1 (#[#[6, 8], #[3, 4], #[6, 8]], #[0, 0], #[0, 0], 0, 0, 0, 0, 0, 0, 0) = .ok (.yield (#[#[15, -24], #[3, 0], #[6, 0]], #[-9, 0], #[0, 1], 9, 1, 12, 0, -1, -2, 2)) := by
  eval32

theorem eCV_bidiag_2 : @bidiagBody ℝ 𝕊 3 2 2 (#[#[15, -24], #[3, 0], #[6, 0]], #[-9, 0], #[0, 1], 9, 1, 12, 0, -1, -2, 2) = .ok (.yield (#[#[15, -24], #[3, 0], #[6, 0]], #[-9, 0], #[0, 12], 12, 0, 0, 0, -1, -2, 3)) := by
  eval32

theorem eCV_bidiagLoop : forIn [1:3] ((#[#[6, 8], #[3, 4], #[6, 8]], #[0, 0], #[0, 0], 0, 0, 0, 0, 0, 0, 0) : St1 ℝ) (@bidiagBody ℝ 𝕊 3 2) = .ok (#[#[15, -24], #[3, 0], #[6, 0]], #[-9, 0], #[0, 12], 12, 0, 0, 0, -1, -2, 3) := by
  norm_num only [forIn_range_eq_runLoop, runLoop, eCV_bidiag_1, eCV_bidiag_2]

theorem eCV_accV_1 : @accVBody ℝ 𝕊 2 #[#[15, -24], #[3, 0], #[6, 0]] #[0, 12] 0 (#[#[0, 0], #[0, 0]], 0, 0, 3) = .ok (.yield (#[#[0, 0], #[0, 1]], 12, 0, 2)) := by
  eval32

theorem eCV_accV_2 : @accVBody ℝ 𝕊 2 #[#[15, -24], #[3, 0], #[6, 0]] #[0, 12] 1 (#[#[0, 0], #[0, 1]], 12, 0, 2) = .ok (.yield (#[#[1, 0], #[0, -1]], 0, -24, 1)) := by
  eval32

theorem eCV_accVLoop : forIn [0:2] ((#[#[0, 0], #[0, 0]], 0, 0, 3) : DMat ℝ × ℝ × ℝ × Nat) (@accVBody ℝ 𝕊 2 #[#[15, -24], #[3, 0], #[6, 0]] #[0, 12]) = .ok (#[#[1, 0], #[0, -1]], 0, -24, 1) := by
  norm_num only [forIn_range_eq_runLoop, runLoop, eCV_accV_1, eCV_accV_2]

theorem eCV_accU_1 : @accUBody ℝ 𝕊 3 2 2 #[-9, 0] 0 (#[#[15, -24], #[3, 0], #[6, 0]], 0, -24, -1, 1) = .ok (.yield (#[#[15, -24], #[3, 1], #[6, 0]], 0, -24, -1, 3)) := by
  eval32

theorem eCV_accU_2 : @accUBody ℝ 𝕊 3 2 2 #[-9, 0] 1 (#[#[15, -24], #[3, 1], #[6, 0]], 0, -24, -1, 3) = .ok (.yield (#[#[-(2/3), -(1/3)], #[-(1/3), 14/15], #[-(2/3), -(2/15)]], -9, 3, -(1/45), 2)) := by
  eval32

theorem eCV_accULoop : forIn [0:2] ((#[#[15, -24], #[3, 0], #[6, 0]], 0, -24, -1, 1) : DMat ℝ × ℝ × ℝ × ℝ × Nat) (@accUBody ℝ 𝕊 3 2 2 #[-9, 0]) = .ok (#[#[-(2/3), -(1/3)], #[-(1/3), 14/15], #[-(2/3), -(2/15)]], -9, 3, -(1/45), 2) := by
  norm_num only [forIn_range_eq_runLoop, runLoop, eCV_accU_1, eCV_accU_2]

theorem eCV_pass_1 : @passBody ℝ 𝕊 3 2 2 1 12 (#[#[-(2/3), -(1/3)], #[-(1/3), 14/15], #[-(2/3), -(2/15)]], #[-9, 0], #[#[1, 0], #[0, -1]], #[0, 12], -9, 3, -(1/45), -2, 2, 0, 0, 0, 0, 0, 0, false) = .ok (.yield (#[#[-(11/15), 2/15], #[22/75, 71/75], #[-(46/75), 22/75]], #[0, -9], #[#[4/5, -(3/5)], #[-(3/5), -(4/5)]], #[0, 12], 15, 3/5, 12, 0, 1, 4/5, -9, 0, 0, 1, 1, false)) := by
  eval32

theorem eCV_pass_2 : @passBody ℝ 𝕊 3 2 2 1 12 (#[#[-(11/15), 2/15], #[22/75, 71/75], #[-(46/75), 22/75]], #[0, -9], #[#[4/5, -(3/5)], #[-(3/5), -(4/5)]], #[0, 12], 15, 3/5, 12, 0, 1, 4/5, -9, 0, 0, 1, 1, false) = .ok (.yield (#[#[1/3, -(2/3)], #[-(14/15), -(1/3)], #[2/15, -(2/3)]], #[0, 15], #[#[4/5, -(3/5)], #[-(3/5), -(4/5)]], #[0, 0], -9, -(4/5), 12, 15, 2, -(3/5), -9, 0, 15, 1, 1, true)) := by
  eval32

theorem eCV_pass_3 : @passBody ℝ 𝕊 3 2 2 1 12 (#[#[1/3, -(2/3)], #[-(14/15), -(1/3)], #[2/15, -(2/3)]], #[0, 15], #[#[4/5, -(3/5)], #[-(3/5), -(4/5)]], #[0, 0], -9, -(4/5), 12, 15, 2, -(3/5), -9, 0, 15, 1, 1, true) = .ok (.done (#[#[1/3, -(2/3)], #[-(14/15), -(1/3)], #[2/15, -(2/3)]], #[0, 15], #[#[4/5, -(3/5)], #[-(3/5), -(4/5)]], #[0, 0], -9, -(4/5), 12, 15, 2, -(3/5), -9, 0, 15, 1, 1, true)) := by
  eval32

theorem eCV_kBody_1 : @kBody ℝ 𝕊 3 2 12 0 (#[#[-(2/3), -(1/3)], #[-(1/3), 14/15], #[-(2/3), -(2/15)]], #[-9, 0], #[#[1, 0], #[0, -1]], #[0, 12], -9, 3, -(1/45), -2, 2, 0, 0, 0, 0, 0) = .ok (.yield (#[#[1/3, -(2/3)], #[-(14/15), -(1/3)], #[2/15, -(2/3)]], #[0, 15], #[#[4/5, -(3/5)], #[-(3/5), -(4/5)]], #[0, 0], -9, -(4/5), 12, 15, 2, -(3/5), -9, 0, 15, 1)) := by
  norm_num only [kBody, forIn_range_eq_runLoop, runLoop, e32_ok_bind, e32_pure_ok, Bool.not_true, Bool.not_false, Bool.false_eq_true, if_false, if_true, eCV_pass_1, eCV_pass_2, eCV_pass_3]

theorem eCV_pass_4 : @passBody ℝ 𝕊 3 2 1 0 12 (#[#[1/3, -(2/3)], #[-(14/15), -(1/3)], #[2/15, -(2/3)]], #[0, 15], #[#[4/5, -(3/5)], #[-(3/5), -(4/5)]], #[0, 0], -9, -(4/5), 12, 15, 2, -(3/5), -9, 0, 15, 1, 0, false) = .ok (.yield (#[#[1/3, -(2/3)], #[-(14/15), -(1/3)], #[2/15, -(2/3)]], #[0, 15], #[#[4/5, -(3/5)], #[-(3/5), -(4/5)]], #[0, 0], -9, -(4/5), 12, 15, 1, -(3/5), -9, 0, 0, 1, 0, true)) := by
  eval32

theorem eCV_pass_5 : @passBody ℝ 𝕊 3 2 1 0 12 (#[#[1/3, -(2/3)], #[-(14/15), -(1/3)], #[2/15, -(2/3)]], #[0, 15], #[#[4/5, -(3/5)], #[-(3/5), -(4/5)]], #[0, 0], -9, -(4/5), 12, 15, 1, -(3/5), -9, 0, 0, 1, 0, true) = .ok (.done (#[#[1/3, -(2/3)], #[-(14/15), -(1/3)], #[2/15, -(2/3)]], #[0, 15], #[#[4/5, -(3/5)], #[-(3/5), -(4/5)]], #[0, 0], -9, -(4/5), 12, 15, 1, -(3/5), -9, 0, 0, 1, 0, true)) := by
  eval32

theorem eCV_kBody_2 : @kBody ℝ 𝕊 3 2 12 1 (#[#[1/3, -(2/3)], #[-(14/15), -(1/3)], #[2/15, -(2/3)]], #[0, 15], #[#[4/5, -(3/5)], #[-(3/5), -(4/5)]], #[0, 0], -9, -(4/5), 12, 15, 2, -(3/5), -9, 0, 15, 1) = .ok (.yield (#[#[1/3, -(2/3)], #[-(14/15), -(1/3)], #[2/15, -(2/3)]], #[0, 15], #[#[4/5, -(3/5)], #[-(3/5), -(4/5)]], #[0, 0], -9, -(4/5), 12, 15, 1, -(3/5), -9, 0, 0, 1)) := by
  norm_num only [kBody, forIn_range_eq_runLoop, runLoop, e32_ok_bind, e32_pure_ok, Bool.not_true, Bool.not_false, Bool.false_eq_true, if_false, if_true, eCV_pass_4, eCV_pass_5]

theorem eCV_kLoop : forIn [0:2] ((#[#[-(2/3), -(1/3)], #[-(1/3), 14/15], #[-(2/3), -(2/15)]], #[-9, 0], #[#[1, 0], #[0, -1]], #[0, 12], -9, 3, -(1/45), -2, 2, 0, 0, 0, 0, 0) : StK ℝ) (@kBody ℝ 𝕊 3 2 12) = .ok (#[#[1/3, -(2/3)], #[-(14/15), -(1/3)], #[2/15, -(2/3)]], #[0, 15], #[#[4/5, -(3/5)], #[-(3/5), -(4/5)]], #[0, 0], -9, -(4/5), 12, 15, 1, -(3/5), -9, 0, 0, 1) := by
  norm_num only [forIn_range_eq_runLoop, runLoop, eCV_kBody_1, eCV_kBody_2]

/-! ### the whole run -/

theorem eCV_mmk : @mmk ℝ 3 2 (@mget ℝ 𝕊 #[#[6, 8], #[3, 4], #[6, 8]]) = #[#[6, 8], #[3, 4], #[6, 8]] := rfl

theorem decomposeS_pCV_lit : @decomposeS ℝ 𝕊 3 2 #[#[6, 8], #[3, 4], #[6, 8]] =
    .ok { U := #[#[1/3, -(2/3)], #[-(14/15), -(1/3)], #[2/15, -(2/3)]], W := #[0, 15], V := #[#[4/5, -(3/5)], #[-(3/5), -(4/5)]] } := by
  unfold decomposeS
  rw [eCV_mmk]
  norm_num only [fs_zero, e32_rep2, e32_rep22, eCV_bidiagLoop, eCV_accVLoop, eCV_accULoop, eCV_kLoop,
    e32_ok_bind, e32_pure_ok, if_true, if_false]

/-- the factors `Gama.Ls.Ex.dCV`, entries in `norm_num`'s normal form -/
theorem dCV_eq : Gama.Ls.Ex.dCV = { U := #[#[1/3, -(2/3)], #[-(14/15), -(1/3)], #[2/15, -(2/3)]], W := #[0, 15], V := #[#[4/5, -(3/5)], #[-(3/5), -(4/5)]] } := by
  norm_num only [Gama.Ls.Ex.dCV]

/-- on the homogenised design matrix of `Ex.pCV` the Golub–Reinsch iteration over `(ℝ, Real.sqrt)` returns
    exactly the factors `Ex.dCV` (the missing hypothesis of `Ex.pCV_hc` / `Ex.pCV_adj_svd`) -/
theorem decompose_pCV : @Gama.Ls.Svd.decompose ℝ (Gama.LS.fieldScalar Real.sqrt) 3 2 #[#[6, 8], #[3, 4], #[6, 8]]
    = .ok Gama.Ls.Ex.dCV := by
  rw [@decompose_eq_struct ℝ 𝕊, dCV_eq]; exact decomposeS_pCV_lit

end Gama.Ls.Svd.Ex

