/-
  Envelope solver, Gram–Schmidt loop of `solve_x`: `GSUnambiguous` (every pivot the loop tests is 0
  or ≥ `s_tol`) from the margin hypothesis `SMargin A S τ`, `s_tol ≤ τ` (gap #6).

  Every pivot tested is `sqrt ‖g'_S‖²` for `g' = g_k − Σ (…)·q_j`: the kernel column of the flagged
  position `k` reduced by the earlier (normalised) ones.  `g'` is a kernel vector (processing order)
  with `−1` at position `k` (`kerF_dep`: every kernel column is `−e_k` on the flagged positions), so
  `‖g'‖² ≥ 1` and the margin gives `‖g'_S‖² > τ²`: the loop never refuses and never meets a pivot in
  `(0, s_tol)`.  The margin is a statement about the ORIGINAL `(A, S)`; `ker_orig_iff` /
  `RegOK` transport it to the processing order.
-/
import Gama.Lemmas.Ls.Gap2
import Gama.Lemmas.Ls.EnvRefusalFinal

namespace Gama.Ls.Env
open Finset Matrix Gama.LS

set_option linter.unusedSectionVars false

variable {K : Type} [Field K] [LinearOrder K] [IsStrictOrderedRing K] (sq : K → K)
local notation "𝔽" => fieldScalar sq

variable {n : ℕ} {S : List ℕ}

/-- every element of the span of columns vanishing at `i` vanishes at `i` -/
theorem span_coord_zero (t : List (Array K)) (i : Fin n) (h : ∀ q ∈ t, av sq n q i = 0) :
    ∀ u ∈ Submodule.span K (av sq n '' {x | x ∈ t}), u i = 0 := by
  intro u hu
  induction hu using Submodule.span_induction with
  | mem v hv => obtain ⟨a, ha, rfl⟩ := hv; exact h a ha
  | zero => rfl
  | add v w _ _ hv hw => rw [Pi.add_apply, hv, hw, add_zero]
  | smul r v _ hv => rw [Pi.smul_apply, hv, smul_zero]

/-- **every pivot the Gram–Schmidt loop tests exceeds `τ`**, for triangular columns of a subspace
    `V` on which the `S`-seminorm dominates `τ·‖·‖` -/
theorem gsPivots_gt (hsq : IsSqrt sq) (hS : ∀ k ∈ S, k < n) {stol τ : K}
    (V : Submodule K (Fin n → K))
    (hM : ∀ w ∈ V, w ≠ 0 → τ * τ * (w ⬝ᵥ w) < dotL S (ext0 w) (ext0 w))
    (cols : List (Array K)) :
    ∀ qs : List (Array K), (∀ q ∈ qs, av sq n q ∈ V) → (∀ g ∈ cols, av sq n g ∈ V) →
      (∀ pre g post, cols = pre ++ g :: post → ∃ i : Fin n, av sq n g i = -1 ∧
          (∀ q ∈ qs, av sq n q i = 0) ∧ ∀ g' ∈ pre, av sq n g' i = 0) →
      ∀ p ∈ gsPivots sq n S stol qs cols, τ < p := by
  induction cols with
  | nil => intro qs _ _ _ p hp; simp [gsPivots] at hp
  | cons g rest ih =>
    intro qs hV hcols htri p hp
    rw [gsPivots_cons] at hp
    set g' := @orthAgainst K 𝔽 n S qs g with hg'
    set pv := sq (@dotS K 𝔽 S g' g') with hpv
    have hspan_le : Submodule.span K (av sq n '' {q | q ∈ qs}) ≤ V :=
      Submodule.span_le.2 fun v ⟨q, hq, hv⟩ => hv ▸ hV q hq
    have hdiff : av sq n g - av sq n g' ∈ Submodule.span K (av sq n '' {q | q ∈ qs}) :=
      av_orthAgainst_sub sq (n := n) (S := S) qs g
    have hg'V : av sq n g' ∈ V := by
      have h2 := Submodule.sub_mem V (hcols g List.mem_cons_self) (hspan_le hdiff)
      rwa [sub_sub_cancel] at h2
    obtain ⟨i, hi1, hiq, -⟩ := htri [] g rest rfl
    -- the reduced column agrees with `g` wherever the earlier columns vanish
    have hsame : ∀ j : Fin n, (∀ q ∈ qs, av sq n q j = 0) → av sq n g' j = av sq n g j := by
      intro j hj
      have := span_coord_zero sq qs j hj _ hdiff
      rw [Pi.sub_apply, sub_eq_zero] at this
      exact this.symm
    have hgi : av sq n g' i = -1 := by rw [hsame i hiq, hi1]
    have hne : av sq n g' ≠ 0 := by
      intro h0
      rw [h0] at hgi
      simp at hgi
    have h1 : τ * τ * (av sq n g' ⬝ᵥ av sq n g') < @dotS K 𝔽 S g' g' := by
      have := hM _ hg'V hne
      have e : dotL S (ext0 (av sq n g')) (ext0 (av sq n g')) = @dotS K 𝔽 S g' g' := by
        rw [dotS_eq, dotL_comm]
        have e1 : dotL S (ext0 (av sq n g')) (ext0 (av sq n g')) = dotL S (ext0 (av sq n g')) (@vget K 𝔽 g') :=
          dotL_congr_right fun k hk => ext0_av sq n g' (hS k hk)
        rw [e1, dotL_comm]
        exact dotL_congr_right fun k hk => ext0_av sq n g' (hS k hk)
      rwa [e] at this
    have h2 : (1 : K) ≤ av sq n g' ⬝ᵥ av sq n g' :=
      Gama.Ls.one_le_dot_self i (by rw [hgi]; norm_num)
    have hpp : pv * pv = @dotS K 𝔽 S g' g' := hsq.mul_self _ (dotS_self_nonneg sq g')
    have hpv0 : 0 ≤ pv := hsq.nonneg _ (dotS_self_nonneg sq g')
    have hτpv : τ < pv := by
      apply Gama.Ls.lt_of_sq_lt hpv0
      rw [hpp]
      calc τ * τ = τ * τ * 1 := (mul_one _).symm
        _ ≤ τ * τ * (av sq n g' ⬝ᵥ av sq n g') := mul_le_mul_of_nonneg_left h2 (mul_self_nonneg τ)
        _ < _ := h1
    rcases List.mem_cons.1 hp with hp | hp
    · rw [hp]; exact hτpv
    · by_cases hlt : pv < stol
      · rw [if_pos hlt] at hp; simp at hp
      · rw [if_neg hlt] at hp
        set gh := scaleA sq n g' pv with hgh
        have hghV : av sq n gh ∈ V := by
          rw [hgh, av_scaleA]; exact Submodule.smul_mem _ _ hg'V
        refine ih (qs ++ [gh]) ?_ (fun x hx => hcols x (List.mem_cons_of_mem _ hx)) ?_ p hp
        · intro q hq
          rcases List.mem_append.1 hq with hq | hq
          · exact hV q hq
          · rw [List.mem_singleton.1 hq]; exact hghV
        · intro pre g2 post hsplit
          obtain ⟨j, hj1, hjq, hjpre⟩ := htri (g :: pre) g2 post (by rw [hsplit]; rfl)
          refine ⟨j, hj1, ?_, fun x hx => hjpre x (List.mem_cons_of_mem _ hx)⟩
          intro q hq
          rcases List.mem_append.1 hq with hq | hq
          · exact hjq q hq
          · rw [List.mem_singleton.1 hq, hgh, av_scaleA, Pi.smul_apply, hsame j hjq,
              hjpre g List.mem_cons_self, smul_zero]

variable (tol stol : K) (m : ℕ) (At : DMat K) (bt : Array K) (o : EnvOrd)

/-- the pivots `solve_x` tests all exceed `τ`, from the margin on the kernel in processing order -/
theorem kerCols_pivots_gt (hsq : IsSqrt sq) (hU : FactUnambiguous sq tol m n At bt o)
    (hS : ∀ k ∈ S, k < n) {τ : K}
    (hM : ∀ w ∈ kerV sq tol m n At bt o, w ≠ 0 → τ * τ * (w ⬝ᵥ w) < dotL S (ext0 w) (ext0 w)) :
    ∀ p ∈ gsPivots sq n S stol [] (kerCols sq tol m n At bt o), τ < p := by
  refine gsPivots_gt sq hsq hS (kerV sq tol m n At bt o) hM (kerCols sq tol m n At bt o) []
    (fun q hq => by cases hq) (kerCols_mem_kerV sq tol m n At bt o hU) ?_
  intro pre g post hsplit
  unfold kerCols at hsplit
  obtain ⟨dpre, drest, hd, hpre, hrest⟩ := List.map_eq_append_iff.1 hsplit
  obtain ⟨k, dpost, hd2, hgk, -⟩ := List.map_eq_cons_iff.1 hrest
  subst hd2
  have hsorted := depCols_sorted sq tol m At bt o (n := n)
  rw [hd] at hsorted
  have hlt : ∀ c ∈ dpre, c < k := fun c hc =>
    (List.pairwise_append.1 hsorted).2.2 c hc k List.mem_cons_self
  have hkmem : k ∈ @depCols K 𝔽 (@factor K 𝔽 tol m n At bt o).rows n := by
    rw [hd]; simp
  obtain ⟨hkn, hk0⟩ := (mem_depCols sq tol m n At bt o k).1 hkmem
  refine ⟨⟨k, hkn⟩, ?_, (fun q hq => by cases hq), ?_⟩
  · rw [← hgk]
    have h1 := kerF_dep sq hU hkn hk0 hkn hk0
    rw [if_pos rfl] at h1
    exact h1
  · intro a ha
    rw [← hpre] at ha
    obtain ⟨c, hc, rfl⟩ := List.mem_map.1 ha
    have hcm : c ∈ @depCols K 𝔽 (@factor K 𝔽 tol m n At bt o).rows n := by
      rw [hd]; simp [hc]
    obtain ⟨hcn, hc0⟩ := (mem_depCols sq tol m n At bt o c).1 hcm
    exact kerF_above sq hU hcn hc0 hkn (hlt c hc)

/-- the margin of the original `(A, S)` in the processing order of the ordering `o` -/
theorem margin_kerV (A : DMat K) (reg : Reg) (hO : OrdOK n o) {W : Matrix (Fin m) (Fin m) K}
    (hWinj : ∀ d, W *ᵥ d = 0 → d = 0) (hAt : toMatrix m n At = W * toMatrix m n A)
    {Sorig : Finset (Fin n)} (hreg : RegOK n o reg Sorig) {τ : K}
    (hM : SMargin (toMatrix m n A) Sorig τ) :
    ∀ w ∈ kerV sq tol m n At bt o, w ≠ 0 →
      τ * τ * (w ⬝ᵥ w) < dotL (regList n o reg) (ext0 w) (ext0 w) := by
  intro w hwV hw0
  have hcomp : (w ∘ hO.equiv.symm) ∘ hO.equiv = w := by ext i; simp
  have h1 : toMatrix m n A *ᵥ (w ∘ hO.equiv.symm) = 0 :=
    (ker_orig_iff sq tol m n A At bt o hO hWinj hAt _).2 (by rw [hcomp]; exact hwV)
  have hne : w ∘ hO.equiv.symm ≠ 0 := by
    intro h0
    apply hw0
    rw [← hcomp, h0]; rfl
  have h2 := hM _ h1 hne
  have e1 : (w ∘ hO.equiv.symm) ⬝ᵥ (w ∘ hO.equiv.symm) = w ⬝ᵥ w := by
    simp only [dotProduct, Function.comp_apply]
    exact Equiv.sum_comp hO.equiv.symm (fun i => w i * w i)
  -- the subset in processing positions
  have hmem : ∀ i : Fin n, i ∈ Sorig.map hO.equiv.symm.toEmbedding ↔ i.1 ∈ regList n o reg := by
    intro i
    rw [Finset.mem_map_equiv, Equiv.symm_symm, hreg.mem]
    have : o.invp.getD (hO.equiv i) 0 = i.1 := hO.left i i.2
    rw [this]
  have e2 : dotL (regList n o reg) (ext0 w) (ext0 w) = ∑ i ∈ Sorig, (w ∘ hO.equiv.symm) i * (w ∘ hO.equiv.symm) i := by
    rw [dotL_eq_sum hreg.nodup hreg.lt hmem (ext0 w) w, Finset.sum_map]
    refine Finset.sum_congr rfl fun i _ => ?_
    simp only [Function.comp_apply, Equiv.coe_toEmbedding, ext0_val]
  rw [e1] at h2
  rw [e2]
  exact h2

/-- **`GSUnambiguous` from the margin of the original `(A, S)`** (`s_tol ≤ τ`): the loop meets no
    pivot below `s_tol` at all -/
theorem gsUnambiguous_of_margin (hsq : IsSqrt sq) (A : DMat K) (reg : Reg) (hO : OrdOK n o)
    (hU : FactUnambiguous sq tol m n At bt o) {W : Matrix (Fin m) (Fin m) K}
    (hWinj : ∀ d, W *ᵥ d = 0 → d = 0) (hAt : toMatrix m n At = W * toMatrix m n A)
    {Sorig : Finset (Fin n)} (hreg : RegOK n o reg Sorig) {τ : K} (hτ : stol ≤ τ)
    (hM : SMargin (toMatrix m n A) Sorig τ) :
    GSUnambiguous sq (n := n) tol stol m At bt o (regList n o reg) := by
  intro p hp hlt
  have := kerCols_pivots_gt sq tol stol m At bt o hsq hU hreg.lt
    (margin_kerV sq tol m At bt o A reg hO hWinj hAt hreg hM) p hp
  exact absurd (lt_of_le_of_lt hτ this) (not_lt.2 (le_of_lt hlt))

end Gama.Ls.Env
