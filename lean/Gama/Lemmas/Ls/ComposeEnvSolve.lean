/-
  The envelope solver as the driver runs it: `envSolve p = envAnswerOrd p (rcmOrd p.n)` =
  `Homogenization::run` (`Env.homogenize`) + reverse Cuthill–McKee (`Env.rcmOrd`) + `envCore`.
  Composition of
    * `Env.homogenize_spec` (Lemmas/Ls/ComposeHomog.lean, from C10): `(Ã, b̃) = (W A, W b)`, `WᵀW = P`;
    * `Env.rcmOrd_ok`       (Lemmas/Ls/ComposeOrd.lean, from C16's `rcm_isPerm`): `OrdOK`;
    * the `envCore` theorems (Lemmas/Ls/EnvFinal.lean, EnvRefusalFinal.lean, EnvAnswer.lean, …),
  so that the statements are about `envSolve p` itself, with no external `At`, `bt`, `W`, `o`.
-/
import Gama.Lemmas.Ls.ComposeHomog
import Gama.Lemmas.Ls.ComposeOrd
import Gama.Lemmas.Ls.ComposeEnvBelongs
import Gama.Lemmas.Ls.EnvFinal
import Gama.Lemmas.Ls.EnvRefusalFinal
import Gama.Lemmas.Ls.EnvRank
import Gama.Lemmas.Ls.EnvQbb

namespace Gama.Ls
open Finset Matrix Gama.LS Gama.Ls.AdjM Gama.Ls.Env

set_option linter.unusedSectionVars false
set_option linter.unusedVariables false

variable {K : Type} [Field K] [LinearOrder K] [IsStrictOrderedRing K] [SqrtFn K]
attribute [local instance 2000] scalarOfField

/-- the answers of `envCore` on the system `envSolve` builds from `p` -/
@[reducible] def Env.coreOf (p : Problem K) (hh : Env.Homog K) : EnvAnswer K :=
  envCore (Env.sqrtEps : K) (Env.sqrtEps : K) p.m p.n p.dense p.rhs hh.At hh.bt p.reg (Env.rcmOrd p.n hh.pat)

/-- what a successful `envSolve` answer is made of -/
theorem envSolve_shape (p : Problem K) (a : Answer K) (h : envSolve p = .ok a) :
    ∃ hh, Env.homogenize p = .ok hh ∧
      a.r = (Env.coreOf p hh).r ∧ a.rtr = (Env.coreOf p hh).rtr ∧ a.defect = (Env.coreOf p hh).defect ∧
      a.qxx = (Env.coreOf p hh).qxx ∧ a.q0xx = (Env.coreOf p hh).q0xx ∧ a.qbb = (Env.coreOf p hh).qbb ∧
      a.lindep = (Env.coreOf p hh).lindepFixed ∧
      ((∃ x, (Env.coreOf p hh).x = .ok x ∧ a.x = x ∧ a.xErr = none) ∨
       (∃ e, (Env.coreOf p hh).x = .error e ∧ a.xErr = some e)) := by
  unfold envSolve envAnswer envAnswerOrd at h
  cases hh : Env.homogenize p with
  | error e => rw [hh] at h; cases h
  | ok H =>
    rw [hh] at h
    simp only at h
    have ha := (Except.ok.inj h).symm
    subst ha
    refine ⟨H, rfl, rfl, rfl, rfl, rfl, rfl, rfl, rfl, ?_⟩
    cases hx : (Env.coreOf p H).x with
    | error e => exact Or.inr ⟨e, rfl, by simp only [hx]⟩
    | ok x => exact Or.inl ⟨x, rfl, by simp only [hx], by simp only [hx]⟩

/-- `envSolve` only throws when a covariance block is rejected -/
theorem envSolve_error (p : Problem K) (e : ErrKind) (h : envSolve p = .error e) :
    Env.homogenize p = .error e := by
  unfold envSolve envAnswer envAnswerOrd at h
  cases hh : Env.homogenize p with
  | error e' => rw [hh] at h; simp only at h; exact congrArg _ (Except.error.inj h)
  | ok H => rw [hh] at h; cases h

theorem envSolve_error_kind (p : Problem K) (e : ErrKind) (h : envSolve p = .error e) :
    e = .NonPositiveDefinite ∧ Env.factorsU p.cov.toList = none := by
  have h' := envSolve_error p e h
  unfold Env.homogenize at h'
  cases hF : Env.factorsU p.cov.toList with
  | none => rw [hF] at h'; exact ⟨(Except.error.inj h').symm, rfl⟩
  | some Fs => rw [hF] at h'; cases h'

theorem Env.sqrtEps_pos : (0 : K) < (Env.sqrtEps : K) := by
  show (0 : K) < 1 / ((67108864 : ℕ) : K)
  positivity

/-- the regularisation list names distinct unknowns in `1..n` -/
def Env.RegListOK (p : Problem K) : Prop :=
  ∀ l, p.reg = .subset l → l.Nodup ∧ ∀ k ∈ l, 1 ≤ k ∧ k ≤ p.n

theorem Env.regOK_of (p : Problem K) (hr : Env.RegListOK p) {o : EnvOrd} (hO : OrdOK p.n o) :
    Env.RegOK p.n o p.reg (p.reg.toFinset p.n) := by
  cases hreg : p.reg with
  | none => exact regOK_all hO _ (Or.inr rfl)
  | all => exact regOK_all hO _ (Or.inl rfl)
  | subset l => exact regOK_subset hO l (hr l hreg).1 (hr l hreg).2

/-- static hypotheses on the input data: the `BlockDiagonal` invariant of every covariance block,
    block dimensions adding up to `m`, sparse rows with distinct column indices in `1..n` -/
structure Env.InputOK (p : Problem K) : Prop where
  blocks : Env.BlocksWF p
  dims : (dimsOf p).sum = p.m
  rows : RowsOK p

/-- "rank numerically unambiguous" for the envelope solver ON THE PROBLEM: every pivot that
    `Envelope::cholDec` tests on the homogenised, RCM-ordered system built from `p` is 0 or ≥ tol -/
def Env.SolveUnambiguous (p : Problem K) : Prop :=
  ∀ hh, Env.homogenize p = .ok hh →
    FactUnambiguous (SqrtFn.sq : K → K) (Env.sqrtEps : K) p.m p.n hh.At hh.bt (Env.rcmOrd p.n hh.pat)

/-- the same for the Gram–Schmidt loop of `solve_x` -/
def Env.SolveGSUnambiguous (p : Problem K) : Prop :=
  ∀ hh, Env.homogenize p = .ok hh →
    GSUnambiguous (SqrtFn.sq : K → K) (n := p.n) (Env.sqrtEps : K) (Env.sqrtEps : K) p.m hh.At hh.bt
      (Env.rcmOrd p.n hh.pat) (regList p.n (Env.rcmOrd p.n hh.pat) p.reg)

/-- everything the `envCore` theorems ask for, derived for the system `envSolve` builds -/
theorem Env.solve_setup (hsq : IsSqrt (SqrtFn.sq : K → K)) (p : Problem K) (hin : Env.InputOK p)
    (P : Matrix (Fin p.m) (Fin p.m) K) (hP : p.C * P = 1) (hh : Env.Homog K) (h : Env.homogenize p = .ok hh) :
    OrdOK p.n (Env.rcmOrd p.n hh.pat) ∧
    ∃ W : Matrix (Fin p.m) (Fin p.m) K, Wᵀ * W = P ∧ (∀ d, W *ᵥ d = 0 → d = 0) ∧
      toMatrix p.m p.n hh.At = W * toMatrix p.m p.n p.dense ∧ toVec p.m hh.bt = W *ᵥ toVec p.m p.rhs ∧
      IsUnit W.det :=
  ⟨Env.rcmOrd_ok p.n hh.pat (Env.homogenize_pat_range p hin.rows hin.dims hh h),
   Env.homogenize_spec hsq p hin.blocks hin.dims hh h P hP⟩

/-- **C01 for `envSolve`**, regular or singular -/
theorem envSolve_isLS (hsq : IsSqrt (SqrtFn.sq : K → K)) (p : Problem K) (hin : Env.InputOK p)
    (hreg : Env.RegListOK p) (hU : Env.SolveUnambiguous p)
    (P : Matrix (Fin p.m) (Fin p.m) K) (hP : p.C * P = 1)
    (a : Answer K) (h : envSolve p = .ok a) (hx : a.xErr = none) :
    IsLSSolution p.A p.b P p.S (toVec p.n a.x) (toVec p.m a.r) a.rtr := by
  obtain ⟨hh, hhom, hr, hrtr, -, -, -, -, -, hxs⟩ := envSolve_shape p a h
  obtain ⟨hO, W, hW, hWinj, hAt, hbt, -⟩ := Env.solve_setup hsq p hin P hP hh hhom
  rcases hxs with ⟨x, hcx, hax, -⟩ | ⟨e, -, hae⟩
  · rw [hr, hrtr, hax]
    exact envCore_isLS (SqrtFn.sq : K → K) _ _ p.m p.n p.dense p.rhs hh.At hh.bt p.reg _ hsq hO (hU hh hhom)
      Env.sqrtEps_pos Env.sqrtEps_pos hW hWinj hAt hbt (Env.regOK_of p hreg hO) hcx
  · rw [hx] at hae; cases hae

/-- **C01 for `envSolve`, defect 0**: no unambiguity hypothesis, `unknowns()` answers -/
theorem envSolve_regular_isLS (hsq : IsSqrt (SqrtFn.sq : K → K)) (p : Problem K) (hin : Env.InputOK p)
    (P : Matrix (Fin p.m) (Fin p.m) K) (hP : p.C * P = 1)
    (a : Answer K) (h : envSolve p = .ok a) (hd : a.defect = 0) (S : Finset (Fin p.n)) :
    a.xErr = none ∧ IsLSSolution p.A p.b P S (toVec p.n a.x) (toVec p.m a.r) a.rtr := by
  obtain ⟨hh, hhom, hr, hrtr, hdef, -, -, -, -, hxs⟩ := envSolve_shape p a h
  obtain ⟨hO, W, hW, hWinj, hAt, hbt, -⟩ := Env.solve_setup hsq p hin P hP hh hhom
  obtain ⟨x, hcx, hls⟩ := envCore_regular_isLS (SqrtFn.sq : K → K) _ (Env.sqrtEps : K) p.m p.n p.dense p.rhs
    hh.At hh.bt p.reg _ hO Env.sqrtEps_pos hW hAt hbt (by rw [← hdef]; exact hd) S
  rcases hxs with ⟨x', hcx', hax, hxe⟩ | ⟨e, hce, -⟩
  · rw [hcx] at hcx'
    have := Except.ok.inj hcx'
    subst this
    rw [hr, hrtr, hax]
    exact ⟨hxe, hls⟩
  · rw [hcx] at hce; cases hce

/-- **C02 refusal for `envSolve`**: `unknowns()` answers iff the regularisation resolves the defect;
    the only thing it throws is `BadRegularization` -/
theorem envSolve_refusal (hsq : IsSqrt (SqrtFn.sq : K → K)) (p : Problem K) (hin : Env.InputOK p)
    (hreg : Env.RegListOK p) (hU : Env.SolveUnambiguous p) (hGS : Env.SolveGSUnambiguous p)
    (P : Matrix (Fin p.m) (Fin p.m) K) (hP : p.C * P = 1)
    (a : Answer K) (h : envSolve p = .ok a) :
    (a.xErr = none ↔ Resolves p.A p.S) ∧ ∀ e, a.xErr = some e → e = .BadRegularization := by
  obtain ⟨hh, hhom, -, -, -, -, -, -, -, hxs⟩ := envSolve_shape p a h
  obtain ⟨hO, W, hW, hWinj, hAt, hbt, -⟩ := Env.solve_setup hsq p hin P hP hh hhom
  obtain ⟨r1, r2⟩ := envCore_refusal (SqrtFn.sq : K → K) (Env.sqrtEps : K) (Env.sqrtEps : K) p.m p.n p.dense p.rhs
    hh.At hh.bt p.reg _ hsq hO (hU hh hhom) Env.sqrtEps_pos Env.sqrtEps_pos hWinj hAt
    (Env.regOK_of p hreg hO) (hGS hh hhom)
  rcases hxs with ⟨x, hcx, -, hxe⟩ | ⟨e, hce, hae⟩
  · refine ⟨⟨fun _ => r1.1 ⟨x, hcx⟩, fun _ => hxe⟩, fun e he => ?_⟩
    rw [hxe] at he; cases he
  · refine ⟨⟨fun hn => ?_, fun hS => ?_⟩, fun e' he' => ?_⟩
    · rw [hae] at hn; cases hn
    · obtain ⟨x, hx⟩ := r1.2 hS
      rw [hce] at hx; cases hx
    · rw [hae] at he'
      have := Option.some.inj he'
      subst this
      exact r2 e hce

/-- **C03 for `envSolve`**: the reported `q_xx` form a symmetric positive semi-definite reflexive
    generalised inverse of `N = AᵀPA` that belongs to the regularisation, `= N⁻¹` when the defect is 0 -/
theorem envSolve_cofactors (hsq : IsSqrt (SqrtFn.sq : K → K)) (p : Problem K) (hin : Env.InputOK p)
    (hreg : Env.RegListOK p) (hU : Env.SolveUnambiguous p)
    (P : Matrix (Fin p.m) (Fin p.m) K) (hP : p.C * P = 1)
    (a : Answer K) (h : envSolve p = .ok a) (hx : a.xErr = none) :
    ∃ Q : Matrix (Fin p.n) (Fin p.n) K,
      (∀ i j : Fin p.n, a.qxx (i + 1) (j + 1) = .ok (Q i j))
      ∧ Qᵀ = Q ∧ (p.Aᵀ * P * p.A) * Q * (p.Aᵀ * P * p.A) = p.Aᵀ * P * p.A ∧ Q * (p.Aᵀ * P * p.A) * Q = Q
      ∧ (∀ y, 0 ≤ y ⬝ᵥ Q *ᵥ y) ∧ BelongsTo p.A p.S Q
      ∧ (a.defect = 0 → Q = (p.Aᵀ * P * p.A)⁻¹) := by
  obtain ⟨hh, hhom, -, -, hdef, hqxx, -, -, -, hxs⟩ := envSolve_shape p a h
  obtain ⟨hO, W, hW, hWinj, hAt, hbt, -⟩ := Env.solve_setup hsq p hin P hP hh hhom
  rcases hxs with ⟨x, hcx, -, -⟩ | ⟨e, -, hae⟩
  · obtain ⟨Q, q1, q2, q3, q4, q5, q6, q7⟩ := envCore_cofactors (SqrtFn.sq : K → K) (Env.sqrtEps : K) (Env.sqrtEps : K)
      p.m p.n p.dense p.rhs hh.At hh.bt p.reg _ hsq hO (hU hh hhom) Env.sqrtEps_pos Env.sqrtEps_pos hWinj hAt
      (Env.regOK_of p hreg hO) hcx
    have hN : NO p.m p.n hh.At = p.Aᵀ * P * p.A := by
      rw [NO, hAt, transpose_mul, ← hW]; simp only [Matrix.mul_assoc]; rfl
    rw [hN] at q3 q4 q7
    exact ⟨Q, fun i j => by rw [hqxx]; exact q1 i j, q2, q3, q4, q5, q6, fun hd => q7 (by rw [← hdef]; exact hd)⟩
  · rw [hx] at hae; cases hae

/-- **defect = n − rank A** for `envSolve` -/
theorem envSolve_defect_rank (hsq : IsSqrt (SqrtFn.sq : K → K)) (p : Problem K) (hin : Env.InputOK p)
    (hU : Env.SolveUnambiguous p) (P : Matrix (Fin p.m) (Fin p.m) K) (hP : p.C * P = 1)
    (a : Answer K) (h : envSolve p = .ok a) : p.A.rank + a.defect = p.n := by
  obtain ⟨hh, hhom, -, -, hdef, -, -, -, -, -⟩ := envSolve_shape p a h
  obtain ⟨hO, W, hW, hWinj, hAt, hbt, hu⟩ := Env.solve_setup hsq p hin P hP hh hhom
  have hr := rank_add_defect (SqrtFn.sq : K → K) (Env.sqrtEps : K) p.m p.n hh.At hh.bt _ (hU hh hhom) Env.sqrtEps_pos
  rw [ApM_eq_submatrix (SqrtFn.sq : K → K) (Env.sqrtEps : K) p.m p.n hh.At hh.bt _ hO] at hr
  have e : ((toMatrix p.m p.n hh.At).submatrix id hO.equiv).rank = (toMatrix p.m p.n hh.At).rank :=
    Matrix.rank_submatrix (toMatrix p.m p.n hh.At) (Equiv.refl _) hO.equiv
  rw [e, hAt, Matrix.rank_mul_eq_right_of_isUnit_det _ _ hu] at hr
  rw [hdef]
  exact hr

end Gama.Ls
