/-
  Gram–Schmidt invariant library, part 6: cofactors (C03) and dependent-unknown flags (C20)
  of `gsoSolve`, in matrix form.

  `gsoC p` is the lower block after `icgs1(); icgs2();` (columns in storage order), `gsoT p` the
  upper block; `q_xx = (C Cᵀ)`, `q_bb = (T Tᵀ)`, `q_bx = (T Cᵀ)` entrywise (`rowdot`).
-/
import Gama.Lemmas.Ls.GsoSolve
import Mathlib.Data.Fintype.Card

namespace Gama.Ls.Gso
open Gama Finset Matrix Gama.LS

set_option linter.unusedSectionVars false

variable {K : Type} [Field K] [LinearOrder K] [IsStrictOrderedRing K] [SqrtField K]

/-- lower block of the orthogonalised matrix (what `rowdot(M+i, M+j)` reads) -/
def gsoC (p : Problem K) : Matrix (Fin p.n) (Fin p.n) K := matC p.n (runOf p).cols
/-- upper block (what `rowdot(i, j)` reads) -/
def gsoT (p : Problem K) : Matrix (Fin p.m) (Fin p.n) K := matT p.m p.n (runOf p).cols
/-- squared norms of the upper columns -/
def gsoD (p : Problem K) : Fin p.n → K := vecD p.n (runOf p).cols

theorem getD_map_colAt {l : List (Col K)} (f : Col K → K) {k : Nat} (hk : k < l.length) :
    (l.map f).getD k 0 = f (colAt l k) := by
  have := colAt_getElem? hk
  simp [List.getD_eq_getElem?_getD, List.getElem?_map, this]

theorem rowdot_eq_sum {N : Nat} {l : List (Col K)} (hl : l.length = N) (f g : Col K → K) :
    rowdot l f g = ∑ k : Fin N, f (colAt l k) * g (colAt l k) := by
  unfold rowdot
  rw [dot_eq_sum N _ _ (by simp [hl]) (by simp [hl]),
    ← Fin.sum_univ_eq_sum_range (fun k => (l.map f).getD k 0 * (l.map g).getD k 0) N]
  refine sum_congr rfl fun k _ => ?_
  rw [getD_map_colAt f (by rw [hl]; exact k.2), getD_map_colAt g (by rw [hl]; exact k.2)]

/-- the state after the run, as matrix identities -/
theorem gso_matrices (p : Problem K) (hU : Unambiguous p) :
    p.A * gsoC p = gsoT p ∧ (gsoT p)ᵀ * gsoT p = diagonal (gsoD p) ∧
    (∀ j, gsoD p j = 1 ∨ gsoD p j = 0) ∧ (∀ j, gsoD p j = 0 → ∀ i, gsoC p i j = 0) ∧
    (∀ w : Fin p.m → K, (∀ j, ∑ r, gsoT p r j * w r = 0) → (p.A)ᵀ *ᵥ w = 0) := by
  obtain ⟨-, F⟩ := gso_final p hU
  have hl := F.colsLen
  refine ⟨?_, matTT hl F.colsGS, vecD_01 hl F.colsGS, ?_, ?_⟩
  · rw [← matA_eq]; exact matAC hl F.colsAug
  · intro j hj i
    have hjl : (j : Nat) < (runOf p).cols.length := by rw [hl]; exact j.2
    exact getD_of_all_zero (F.colsZero _ (colAt_mem hjl) hj) i
  · rw [← matA_eq]
    exact span_matT (b := bOf p) hl (fun c hc => (F.colsAug c hc).ltop) F.colsSpan

theorem gso_cofactors {refuse : Bool} {p : Problem K} {ans : Answer K}
    (h : gsoSolveWith refuse p = .ok ans) (hl : (runOf p).cols.length = p.n) :
    (∀ i j : Fin p.n, ans.qxx (i + 1) (j + 1) = .ok ((gsoC p * (gsoC p)ᵀ) i j)) ∧
    (∀ i j : Fin p.m, ans.qbb (i + 1) (j + 1) = .ok ((gsoT p * (gsoT p)ᵀ) i j)) ∧
    (∀ (i : Fin p.m) (j : Fin p.n), ans.qbx (i + 1) (j + 1) = .ok ((gsoT p * (gsoC p)ᵀ) i j)) := by
  obtain ⟨-, -, -, -, -, hxx, hbb, hbx⟩ := gsoSolveWith_ok h
  refine ⟨?_, ?_, ?_⟩
  · intro i j
    rw [hxx _ _ (by omega) (by have := i.2; omega) (by omega) (by have := j.2; omega),
      rowdot_eq_sum hl]
    simp [mul_apply, gsoC, matC]
  · intro i j
    rw [hbb _ _ (by omega) (by have := i.2; omega) (by omega) (by have := j.2; omega),
      rowdot_eq_sum hl]
    simp [mul_apply, gsoT, matT]
  · intro i j
    rw [hbx _ _ (by omega) (by have := i.2; omega) (by omega) (by have := j.2; omega),
      rowdot_eq_sum hl]
    simp [mul_apply, gsoT, gsoC, matT, matC]

-- ------------------------------------------------------------------ flags

/-- a flagged unknown is a linear combination of the unknowns before it -/
theorem gso_lindep_true {refuse : Bool} (p : Problem K) (hU : Unambiguous p) {ans : Answer K}
    (h : gsoSolveWith refuse p = .ok ans) (i : Nat) (hi : ans.lindep i = .ok true) :
    ∃ hi1 : 1 ≤ i ∧ i ≤ p.n, ∃ γ : Fin p.n → K, (∀ j : Fin p.n, i - 1 ≤ j → γ j = 0) ∧
      ∀ r, p.A r ⟨i - 1, by omega⟩ = ∑ j, p.A r j * γ j := by
  obtain ⟨-, -, -, -, hlin, -⟩ := gsoSolveWith_ok h
  obtain ⟨I1, F⟩ := gso_final p hU
  set qs := ((colsIn p).foldl (step1 (tolerance : K)) {}).qs with hqs
  have hql : qs.length = p.n := by rw [hqs, I1.len]; exact augmented_length _ _ _ _
  rw [hlin i] at hi
  have hmem : i ∈ ((colsIn p).foldl (step1 (tolerance : K)) {}).dep := by
    have : (runOf p).dep.contains i = true := by simpa using hi
    have := List.contains_iff_mem.1 this
    rw [F.dep] at this
    exact this
  have hle := I1.depLe i hmem
  rw [← hqs, hql] at hle
  refine ⟨hle, ?_⟩
  have hjl : i - 1 < qs.length := by omega
  set q := colAt qs (i - 1) with hq
  have hqe : qs[i - 1]? = some q := colAt_getElem? hjl
  have hz : dot q.top q.top = 0 :=
    (I1.flag (i - 1) q hqe).1 (by rw [Nat.sub_add_cancel hle.1]; exact hmem)
  have hdiag : q.bot.getD (i - 1) 0 = 1 :=
    I1.diag (i - 1) q hqe (by rw [Nat.sub_add_cancel hle.1]; exact hmem)
  have htri := I1.tri (i - 1) q hqe
  have haug := I1.aug q (colAt_mem hjl)
  refine ⟨fun j => if (j : Nat) < i - 1 then - q.bot.getD j 0 else 0, ?_, ?_⟩
  · intro j hj
    show (if (j : Nat) < i - 1 then - q.bot.getD j 0 else 0) = 0
    rw [if_neg (Nat.not_lt.2 hj)]
  · intro r
    have h0 := haug.eq r r.2
    rw [getD_of_all_zero (dot_self_eq_zero hz) r, sub_zero,
      ← Fin.sum_univ_eq_sum_range (fun j => aOf p r j * q.bot.getD j 0) p.n] at h0
    have hsplit : ∀ j : Fin p.n, aOf p r j * q.bot.getD j 0
        = (if j = (⟨i - 1, by omega⟩ : Fin p.n) then aOf p r (i - 1) else 0)
          - p.A r j * (if (j : Nat) < i - 1 then - q.bot.getD j 0 else 0) := by
      intro j
      rcases Nat.lt_trichotomy (j : Nat) (i - 1) with hlt | heq | hgt
      · have hne : j ≠ (⟨i - 1, by omega⟩ : Fin p.n) := fun h => by
          have := congrArg Fin.val h; simp at this; omega
        rw [if_neg hne, if_pos hlt]
        show aOf p r j * _ = 0 - aOf p r j * _
        ring
      · have he : j = (⟨i - 1, by omega⟩ : Fin p.n) := Fin.ext heq
        rw [if_pos he, if_neg (by omega), heq, hdiag]; ring
      · have hne : j ≠ (⟨i - 1, by omega⟩ : Fin p.n) := fun h => by
          have := congrArg Fin.val h; simp at this; omega
        rw [if_neg hne, if_neg (by omega), htri j hgt]; ring
    rw [sum_congr rfl (fun j _ => hsplit j), sum_sub_distrib, sum_ite_eq' univ] at h0
    simp only [mem_univ, if_true] at h0
    have := sub_eq_zero.1 h0.symm
    exact this

/-- number of flags = defect = n − rank A -/
theorem gso_count {refuse : Bool} (p : Problem K) (hU : Unambiguous p) {ans : Answer K}
    (h : gsoSolveWith refuse p = .ok ans) :
    (univ.filter fun j : Fin p.n => ans.lindep (j + 1) = .ok true).card = ans.defect ∧
    ans.defect + p.A.rank = p.n := by
  obtain ⟨-, -, -, hdef, hlin, -⟩ := gsoSolveWith_ok h
  obtain ⟨I1, F⟩ := gso_final p hU
  set s1 := (colsIn p).foldl (step1 (tolerance : K)) {} with hs1
  set qs := s1.qs with hqs
  have hql : qs.length = p.n := by rw [hqs, I1.len]; exact augmented_length _ _ _ _
  have hdep : (runOf p).dep = s1.dep := F.dep
  have hnd : s1.dep.Nodup := I1.depSorted.imp (fun h => Nat.ne_of_lt h)
  -- flags as a finset of `Fin n`
  have hflagset : (univ.filter fun j : Fin p.n => ans.lindep (j + 1) = .ok true)
      = univ.filter fun j : Fin p.n => (j : Nat) + 1 ∈ s1.dep := by
    ext j
    simp only [mem_filter, mem_univ, true_and, hlin, hdep]
    rw [Except.ok.injEq]
    exact List.contains_iff_mem
  have hcard : (univ.filter fun j : Fin p.n => (j : Nat) + 1 ∈ s1.dep).card = s1.dep.length := by
    rw [← List.toFinset_card_of_nodup hnd]
    refine card_bij (fun (j : Fin p.n) _ => (j : Nat) + 1) ?_ ?_ ?_
    · intro j hj; simpa using (mem_filter.1 hj).2
    · intro j _ k _ hjk; exact Fin.ext (by omega)
    · intro z hz
      have hz' : z ∈ s1.dep := by simpa using hz
      have := I1.depLe z hz'
      rw [← hqs, hql] at this
      exact ⟨⟨z - 1, by omega⟩, by simp [Nat.sub_add_cancel this.1, hz'], by simp; omega⟩
  refine ⟨by rw [hflagset, hcard, hdef, hdep], ?_⟩
  -- rank
  have hsep : ∀ w : Fin p.n → K, (∀ j, ∑ i, matC p.n qs i j * w i = 0) → w = 0 := by
    intro w hw
    have h1 : ∀ q ∈ qs, dot q.bot (List.ofFn w) = 0 := by
      intro q hq
      obtain ⟨j, hj, rfl⟩ := List.getElem_of_mem hq
      rw [dot_ofFn _ (I1.aug _ (List.getElem_mem hj)).lbot]
      have := hw ⟨j, by rw [← hql]; exact hj⟩
      simp only [matC] at this
      have e : colAt qs j = qs[j] := by
        have := colAt_getElem? hj
        rw [List.getElem?_eq_getElem hj] at this
        exact (Option.some.inj this).symm
      rw [e] at this
      exact this
    have h2 := I1.spanBot _ h1
    funext k
    have hc : (colsIn p)[(k : Nat)]? = some
        { top := (List.range p.m).map fun r => aOf p r k,
          bot := (List.range p.n).map fun r => if r = (k : Nat) then 1 else 0 } := by
      simp [colsIn, augmented]
    have h3 := h2 _ (List.mem_of_getElem? hc)
    rw [dot_ofFn _ (by simp)] at h3
    rw [sum_eq_single_of_mem k (mem_univ k)] at h3
    · simpa [getD_map_range, k.2] using h3
    · intro i _ hik
      have : (i : Nat) ≠ (k : Nat) := fun h => hik (Fin.ext h)
      simp [i.2, this]
  have hAC := matAC hql I1.aug
  rw [matA_eq] at hAC
  have hrank := GsoAlg.rank_eq_card hAC (matTT hql I1.gs) hsep
  have hflagD : ∀ j : Fin p.n, ((j : Nat) + 1 ∈ s1.dep ↔ vecD p.n qs j = 0) := fun j =>
    I1.flag j _ (colAt_getElem? (by rw [hql]; exact j.2))
  have hsplit : (univ.filter fun j : Fin p.n => vecD p.n qs j = 0).card
      + (univ.filter fun j : Fin p.n => ¬ vecD p.n qs j = 0).card = p.n := by
    rw [card_filter_add_card_filter_not]; simp
  have h1 : (univ.filter fun j : Fin p.n => vecD p.n qs j = 0).card = s1.dep.length := by
    rw [← hcard]
    congr 1
    ext j
    simp only [mem_filter, mem_univ, true_and]
    exact (hflagD j).symm
  have h2 : Fintype.card {j : Fin p.n // vecD p.n qs j ≠ 0}
      = (univ.filter fun j : Fin p.n => ¬ vecD p.n qs j = 0).card := by
    rw [Fintype.card_subtype]
  rw [hdef, hdep, hrank, h2, ← h1]
  exact hsplit

end Gama.Ls.Gso
