/-
  Envelope solver: the trace hypothesis `FactUnambiguous` ("every pivot `Envelope::cholDec` tests
  is exactly 0 or at least `tol` in absolute value") DERIVED from the gap hypothesis on exact
  quantities of the homogenised design matrix `Ã` (`ComposeGap.lean`):

      `GapOrd Ã tol perm → FactUnambiguous`     (`factUnambiguous_of_gap`)
      `GapAll Ã tol      → FactUnambiguous`     for EVERY ordering (`factUnambiguous_of_gapAll`)

  Proof: induction on the row index `i`.  If the pivots of the rows `< i` are unambiguous the
  stored pivots `Df j` (`j < i`) are the exact ones `dpiv j`, so `Lf, dpiv, yf` satisfy the
  recursion equations `IsLDL` on the leading `i+1` rows — the equation for `D i` being the
  DEFINITION of the pivot `dpiv i` the code tests in row `i`.  `gram_invariant` (LDLᵀ of a Gram
  matrix = Gram–Schmidt) identifies `dpiv i` with `‖q_i‖²`, `q_i = Ap β` with `β = gsb L i`
  (`β i = 1`, `β j = 0` for `j > i`) orthogonal to the columns `< i`; the gap hypothesis says
  `‖q_i‖²` is 0 or `> tol`, which is the unambiguity of row `i`.
-/
import Gama.Lemmas.Ls.ComposeGap
import Gama.Lemmas.Ls.EnvAnswer
import Gama.Lemmas.Ls.EnvLindep

namespace Gama.Ls.Env
open Finset Matrix Gama.LS

set_option linter.unusedSectionVars false

variable {K : Type} [Field K] [LinearOrder K] [IsStrictOrderedRing K]

/-! ### the Gram–Schmidt vectors as combinations of the columns -/

/-- coefficients of the unnormalised Gram–Schmidt vector `q_k` w.r.t. the columns:
    `q_k = Σ_t gsb L k t · m_t` -/
def gsb (L : ℕ → ℕ → K) (k : ℕ) (t : ℕ) : K :=
  (if t = k then 1 else 0) - ∑ j : Fin k, L k j * gsb L j t
termination_by k
decreasing_by exact j.2

theorem gsb_eq (L : ℕ → ℕ → K) (k t : ℕ) :
    gsb L k t = (if t = k then 1 else 0) - ∑ j ∈ range k, L k j * gsb L j t := by
  rw [gsb, Fin.sum_univ_eq_sum_range (fun j => L k j * gsb L j t)]

theorem gsb_gt (L : ℕ → ℕ → K) (k : ℕ) : ∀ t, k < t → gsb L k t = 0 := by
  induction k using Nat.strong_induction_on with
  | _ k ih =>
    intro t ht
    rw [gsb_eq, if_neg (by omega), zero_sub, neg_eq_zero]
    refine sum_eq_zero fun j hj => ?_
    have hj' := mem_range.1 hj
    rw [ih j hj' t (by omega), mul_zero]

theorem gsb_self (L : ℕ → ℕ → K) (k : ℕ) : gsb L k k = 1 := by
  rw [gsb_eq, if_pos rfl]
  have : ∑ j ∈ range k, L k j * gsb L j k = 0 :=
    sum_eq_zero fun j hj => by rw [gsb_gt L j k (mem_range.1 hj), mul_zero]
  rw [this, sub_zero]

theorem gsq_eq_sum (M L : ℕ → ℕ → K) {n : ℕ} (r : ℕ) :
    ∀ k, k < n → gsq M L k r = ∑ t ∈ range n, M r t * gsb L k t := by
  intro k
  induction k using Nat.strong_induction_on with
  | _ k ih =>
    intro hk
    rw [gsq_eq]
    have h1 : ∑ t ∈ range n, M r t * gsb L k t
        = ∑ t ∈ range n, M r t * (if t = k then 1 else 0)
          - ∑ t ∈ range n, ∑ j ∈ range k, L k j * (M r t * gsb L j t) := by
      rw [← sum_sub_distrib]
      refine sum_congr rfl fun t _ => ?_
      rw [gsb_eq L k t, mul_sub, mul_sum]
      congr 1
      exact sum_congr rfl fun j _ => by ring
    have h2 : ∑ t ∈ range n, M r t * (if t = k then (1 : K) else 0) = M r k := by
      rw [sum_eq_single k]
      · rw [if_pos rfl, mul_one]
      · intro t _ ht; rw [if_neg ht, mul_zero]
      · intro hnot; exact absurd (mem_range.2 hk) hnot
    rw [h1, h2, sum_comm]
    congr 1
    refine sum_congr rfl fun j hj => ?_
    have hj' := mem_range.1 hj
    rw [ih j hj' (hj'.trans hk), mul_sum]

/-! ### unambiguity from the gap, function level -/

variable (sq : K → K)
local notation "𝔽" => fieldScalar sq

/-- **`Unambiguous` from a gap hypothesis on the Gram–Schmidt residuals of the columns of `M`**
    (`N` the Gram matrix of the columns of `M`; everything in the new numbering) -/
theorem unambiguous_of_gapFn {N M : ℕ → ℕ → K} {tol : K} {m n : ℕ}
    (hN : ∀ i < n, ∀ j < n, N i j = ip m (fun r => M r i) (fun r => M r j))
    (hG : ∀ i < n, ∀ β : ℕ → K, β i = 1 → (∀ j, i < j → β j = 0) →
      (∀ j < i, ip m (fun r => M r j) (fun r => ∑ t ∈ range n, M r t * β t) = 0) →
      ip m (fun r => ∑ t ∈ range n, M r t * β t) (fun r => ∑ t ∈ range n, M r t * β t) = 0
        ∨ tol < ip m (fun r => ∑ t ∈ range n, M r t * β t) (fun r => ∑ t ∈ range n, M r t * β t)) :
    Unambiguous sq N tol n := by
  -- row `i`, given that the stored pivots of the earlier rows are the exact ones
  have key : ∀ i, i < n → (∀ j < i, Df sq N tol j = dpiv sq N tol j) →
      |dpiv sq N tol i| < tol → dpiv sq N tol i = 0 := by
    intro i hi hD hlt
    have hL : IsLDL N (i + 1) (Lf sq N tol) (dpiv sq N tol) (yf sq N tol) :=
      { y_eq := fun _ _ _ hj => yf_eq sq N tol hj
        L_eq := fun a ha j hj => by rw [Lf_eq sq N tol hj, hD j (by omega)]
        D_eq := fun a ha => by
          have e : dpiv sq N tol a
              = N a a - ∑ j ∈ range a, Lf sq N tol a j * Lf sq N tol a j * Df sq N tol j := rfl
          rw [e]
          congr 1
          refine sum_congr rfl fun j hj => ?_
          have hj' := mem_range.1 hj
          rw [hD j (by omega)] }
    have hN' : ∀ a < i + 1, ∀ b < i + 1, N a b = ip m (fun r => M r a) (fun r => M r b) :=
      fun a ha b hb => hN a (by omega) b (by omega)
    obtain ⟨-, -, -, h4⟩ := gram_invariant hN' hL i (Nat.lt_succ_self i)
    have he : (fun r => ∑ t ∈ range n, M r t * gsb (Lf sq N tol) i t) = gsq M (Lf sq N tol) i :=
      funext fun r => (gsq_eq_sum M (Lf sq N tol) r i hi).symm
    have horth : ∀ j < i, ip m (fun r => M r j)
        (fun r => ∑ t ∈ range n, M r t * gsb (Lf sq N tol) i t) = 0 := by
      intro j hj
      rw [he]
      exact (ip_eq_dotProduct m _ _).trans (col_dot_gsq_zero hN' hL (Nat.lt_succ_self i) hj)
    have := hG i hi (gsb (Lf sq N tol) i) (gsb_self _ i) (gsb_gt _ i) horth
    rw [he, h4] at this
    rcases this with h0 | hgt
    · exact h0
    · exact absurd (lt_of_lt_of_le hgt (le_abs_self _)) (not_lt.2 (le_of_lt hlt))
  intro i
  induction i using Nat.strong_induction_on with
  | _ i ih =>
    intro hi
    refine key i hi fun j hj => ?_
    rw [Df_eq]
    split
    · next h => exact (ih j hj (hj.trans hi) h).symm
    · rfl

/-! ### the record `factor` builds -/

variable (tol : K) (m n : ℕ) (At : DMat K) (bt : Array K) (o : EnvOrd)

/-- gap hypothesis on the homogenised matrix in the new numbering ⇒ `FactUnambiguous` -/
theorem factUnambiguous_of_gap_Ap
    (hG : GapOrd (ApM sq tol m n At bt o) tol (Equiv.refl _)) : FactUnambiguous sq tol m n At bt o := by
  unfold FactUnambiguous
  refine unambiguous_of_gapFn sq (M := (@factor K 𝔽 tol m n At bt o).Ap) (NF_gram sq tol m n At bt o) ?_
  intro i hi β h1 h2 h3
  have hmul : ApM sq tol m n At bt o *ᵥ vecFn n β
      = vecFn m (fun r => ∑ t ∈ range n, (@factor K 𝔽 tol m n At bt o).Ap r t * β t) := by
    ext r
    exact matOf_mulVec m n _ β r
  have := hG ⟨i, hi⟩ (vecFn n β) h1 (fun j hj => h2 j hj) (fun j hj => by
    rw [hmul]
    have := h3 j hj
    rw [ip_eq_dot] at this
    exact this)
  rw [hmul, ← ip_eq_dot] at this
  exact this

/-- **envelope**: `FactUnambiguous` from the gap hypothesis on `Ã` for the pivot order of the
    ordering `o` (columns `perm 0, perm 1, …`).  No hypothesis on `tol`. -/
theorem factUnambiguous_of_gap (hO : OrdOK n o)
    (hG : GapOrd (toMatrix m n At) tol hO.equiv) : FactUnambiguous sq tol m n At bt o := by
  apply factUnambiguous_of_gap_Ap
  rw [ApM_eq_submatrix sq tol m n At bt o hO]
  exact hG.submatrix

/-- **envelope, any ordering**: the order-independent gap hypothesis on `Ã` -/
theorem factUnambiguous_of_gapAll (hO : OrdOK n o)
    (hG : GapAll (toMatrix m n At) tol) : FactUnambiguous sq tol m n At bt o :=
  factUnambiguous_of_gap sq tol m n At bt o hO (hG.ord _)

end Gama.Ls.Env
