/-
  Singular case of `AdjCholDec::solve`.

  * Positivity: when the largest remaining diagonal entry of the Schur complement of a Gram matrix
    `N = AᵀA` is ≤ 0, the whole stored Schur complement is 0 — so the trailing block the code
    zeroes ("remove junk") was zero already, `N = L D Lᵀ` over the accepted pivots only, and
    `nullity` is the true defect.
  * `ker A` in terms of the factor: `A g = 0 ↔ ℓ_kᵀ g = 0` for all accepted pivots `k`;
    a kernel vector vanishing on the dependent unknowns is zero.
-/
import Gama.Lemmas.Ls.CholIsLS

namespace Gama.Ls
open Finset Dn Chol

set_option linter.unusedSectionVars false
set_option linter.unusedVariables false

section
variable {K : Type} [Field K] [LinearOrder K] [IsStrictOrderedRing K] [SqrtFn K]
attribute [local instance 2000] scalarOfField

/-- `ℓ_kᵀ y = 0` for every accepted pivot when `y` satisfies the back-substitution recurrence
    against ALL later positions -/
theorem ell_dot_zero {n N0 : Nat} {perm : Array Nat} (hP : IsPerm n perm) (hN0 : N0 ≤ n) (a : DMat K)
    (y : Nat → K)
    (hy : ∀ ii, ii < N0 → y (pget perm ii)
      = - ∑ jj ∈ Ico (ii + 1) n, sget a (pget perm ii) (pget perm jj) * y (pget perm jj)) :
    ∀ k, k < N0 → ∑ v ∈ range n, ell n perm a k v * y v = 0 := by
  intro k hk
  have hkn : k < n := by omega
  rw [sum_perm hP (fun v => ell n perm a k v * y v)]
  have : ∑ jj ∈ range n, ell n perm a k (pget perm jj) * y (pget perm jj)
      = ∑ jj ∈ range n, (if jj = k then 1 else if k < jj then sget a (pget perm k) (pget perm jj) else 0)
          * y (pget perm jj) := by
    refine Finset.sum_congr rfl fun jj hjj => ?_
    rw [ell_perm hP a k jj (Finset.mem_range.1 hjj), sget_comm a (pget perm jj) (pget perm k)]
  rw [this, sum_tri_gt n k hkn (fun jj => sget a (pget perm k) (pget perm jj)) (fun jj => y (pget perm jj)),
    hy k hk]
  ring

/-- with `ℓ_kᵀ y = 0` the product `N y` only sees the trailing block -/
theorem normal_mul_trail {n N0 : Nat} {tol : K} {Nf : Nat → Nat → K} {perm : Array Nat} {a : DMat K}
    (h : LDLInv n tol Nf perm a N0) (y : Nat → K)
    (hy : ∀ k, k < N0 → ∑ v ∈ range n, ell n perm a k v * y v = 0) :
    ∀ z, z < n → ∑ v ∈ range n, Nf z v * y v = ∑ v ∈ range n, trail n perm a N0 z v * y v := by
  intro z hz
  have : ∀ v ∈ range n, Nf z v * y v = trail n perm a N0 z v * y v
      + ∑ k ∈ range N0, ell n perm a k z * dd perm a k * (ell n perm a k v * y v) := by
    intro v hv
    rw [h.dec z v hz (Finset.mem_range.1 hv), add_mul, Finset.sum_mul]
    congr 1
    exact Finset.sum_congr rfl fun k _ => by ring
  rw [Finset.sum_congr rfl this, Finset.sum_add_distrib, Finset.sum_comm]
  have h0 : ∑ k ∈ range N0, ∑ v ∈ range n, ell n perm a k z * dd perm a k * (ell n perm a k v * y v) = 0 := by
    refine Finset.sum_eq_zero fun k hk => ?_
    rw [← Finset.mul_sum, hy k (Finset.mem_range.1 hk), mul_zero]
  rw [h0, add_zero]

/-! ### Gram matrices -/

theorem gram_quad (m n : Nat) (A : DMat K) (y : Nat → K) :
    ∑ z ∈ range n, y z * ∑ v ∈ range n, normalF m A z v * y v
      = ∑ k ∈ range m, (∑ v ∈ range n, mget A k v * y v) * (∑ v ∈ range n, mget A k v * y v) := by
  unfold normalF
  have : ∀ z ∈ range n, y z * ∑ v ∈ range n, (∑ k ∈ range m, mget A k z * mget A k v) * y v
      = ∑ k ∈ range m, (mget A k z * y z) * ∑ v ∈ range n, mget A k v * y v := by
    intro z _
    rw [Finset.mul_sum]
    have : ∀ v ∈ range n, y z * ((∑ k ∈ range m, mget A k z * mget A k v) * y v)
        = ∑ k ∈ range m, (mget A k z * y z) * (mget A k v * y v) := by
      intro v _
      rw [Finset.sum_mul, Finset.mul_sum]
      exact Finset.sum_congr rfl fun k _ => by ring
    rw [Finset.sum_congr rfl this, Finset.sum_comm]
    exact Finset.sum_congr rfl fun k _ => by rw [Finset.mul_sum]
  rw [Finset.sum_congr rfl this, Finset.sum_comm]
  exact Finset.sum_congr rfl fun k _ => by rw [Finset.sum_mul]

theorem gram_mul (m n : Nat) (A : DMat K) (y : Nat → K) (z : Nat) :
    ∑ v ∈ range n, normalF m A z v * y v = ∑ k ∈ range m, mget A k z * ∑ v ∈ range n, mget A k v * y v := by
  unfold normalF
  have : ∀ v ∈ range n, (∑ k ∈ range m, mget A k z * mget A k v) * y v
      = ∑ k ∈ range m, mget A k z * (mget A k v * y v) := by
    intro v _
    rw [Finset.sum_mul]
    exact Finset.sum_congr rfl fun k _ => by ring
  rw [Finset.sum_congr rfl this, Finset.sum_comm]
  exact Finset.sum_congr rfl fun k _ => by rw [Finset.mul_sum]

/-- `yᵀ N y = 0 → A y = 0` -/
theorem gram_zero (m n : Nat) (A : DMat K) (y : Nat → K)
    (h : ∑ z ∈ range n, y z * ∑ v ∈ range n, normalF m A z v * y v = 0) :
    ∀ k, k < m → ∑ v ∈ range n, mget A k v * y v = 0 := by
  rw [gram_quad] at h
  intro k hk
  have := (Finset.sum_eq_zero_iff_of_nonneg (fun k _ => mul_self_nonneg _)).1 h k (Finset.mem_range.2 hk)
  exact mul_self_eq_zero.1 this

theorem gram_quad_nonneg (m n : Nat) (A : DMat K) (y : Nat → K) :
    0 ≤ ∑ z ∈ range n, y z * ∑ v ∈ range n, normalF m A z v * y v := by
  rw [gram_quad]; exact Finset.sum_nonneg fun k _ => mul_self_nonneg _

/-- **positivity**: Schur complement of a Gram matrix with non-positive diagonal is zero -/
theorem trail_zero {m n N0 : Nat} {tol : K} {A : DMat K} {perm : Array Nat} {a : DMat K}
    (h : LDLInv n tol (normalF m A) perm a N0)
    (hdiag : ∀ j, N0 ≤ j → j < n → dd perm a j ≤ 0) :
    ∀ z u, z < n → u < n → trail n perm a N0 z u = 0 := by
  have hP := h.isPerm
  have hN0 := h.le
  intro z u hz hu
  by_cases hqu : qq n perm u < N0
  · unfold trail; rw [if_neg (by omega)]
  have hqu' : N0 ≤ qq n perm u := by omega
  obtain ⟨hqun, hpu⟩ := qq_spec hP u hu
  -- the vector: e_u on the dependent part, back substitution on the independent part
  let x : Array K := vmk n fun v => if qq n perm v < N0 then - sget a v u else if v = u then 1 else 0
  obtain ⟨hsz, hrec, hfr⟩ := backSub_spec hP hN0 a x (vmk_size _ _)
  set yv := backSub N0 perm a x with hyv
  let y : Nat → K := fun v => vget yv v
  have hytrail : ∀ jj, N0 ≤ jj → jj < n → y (pget perm jj) = if jj = qq n perm u then 1 else 0 := by
    intro jj h1 h2
    show vget yv (pget perm jj) = _
    rw [hfr jj h1 h2, vget_vmk, if_pos (hP.lt jj h2), qq_perm hP jj h2, if_neg (by omega)]
    by_cases e : jj = qq n perm u
    · rw [if_pos e, if_pos (by rw [e, hpu])]
    · rw [if_neg e, if_neg (fun e' => e (by rw [← qq_perm hP jj h2, e']))]
  have hyrec : ∀ ii, ii < N0 → y (pget perm ii)
      = - ∑ jj ∈ Ico (ii + 1) n, sget a (pget perm ii) (pget perm jj) * y (pget perm jj) := by
    intro ii hii
    show vget yv (pget perm ii) = _
    rw [hrec ii hii, vget_vmk, if_pos (hP.lt ii (by omega)), qq_perm hP ii (by omega), if_pos hii,
      ← Finset.sum_Ico_consecutive _ (by omega : ii + 1 ≤ N0) hN0]
    have : ∑ jj ∈ Ico N0 n, sget a (pget perm ii) (pget perm jj) * y (pget perm jj)
        = sget a (pget perm ii) u := by
      rw [Finset.sum_eq_single (qq n perm u)]
      · rw [hytrail _ hqu' hqun, if_pos rfl, hpu, mul_one]
      · intro jj hjj hne
        have := Finset.mem_Ico.1 hjj
        rw [hytrail jj this.1 this.2, if_neg hne, mul_zero]
      · intro hnot
        exact absurd (Finset.mem_Ico.2 ⟨hqu', hqun⟩) hnot
    rw [this]
    ring
  have hell := ell_dot_zero hP hN0 a y hyrec
  have hNy := normal_mul_trail h y hell
  -- trailing block times y picks column u
  have htr : ∀ z', z' < n → ∑ v ∈ range n, trail n perm a N0 z' v * y v = trail n perm a N0 z' u := by
    intro z' hz'
    rw [Finset.sum_eq_single u]
    · have : y u = 1 := by
        have := hytrail (qq n perm u) hqu' hqun
        rw [hpu] at this; rw [this, if_pos rfl]
      rw [this, mul_one]
    · intro v hv hne
      have hvn := Finset.mem_range.1 hv
      by_cases hqv : N0 ≤ qq n perm v
      · obtain ⟨hqvn, hpv⟩ := qq_spec hP v hvn
        have := hytrail (qq n perm v) hqv hqvn
        rw [hpv] at this
        rw [this, if_neg (fun e => hne (by rw [← hpv, e, hpu])), mul_zero]
      · unfold trail; rw [if_neg (fun h' => hqv h'.2), zero_mul]
    · intro hnot; exact absurd (Finset.mem_range.2 hu) hnot
  -- quadratic form = trail u u ≤ 0
  have hquad : ∑ z' ∈ range n, y z' * ∑ v ∈ range n, normalF m A z' v * y v = trail n perm a N0 u u := by
    have : ∀ z' ∈ range n, y z' * ∑ v ∈ range n, normalF m A z' v * y v = y z' * trail n perm a N0 z' u := by
      intro z' hz'
      rw [hNy z' (Finset.mem_range.1 hz'), htr z' (Finset.mem_range.1 hz')]
    rw [Finset.sum_congr rfl this, Finset.sum_eq_single u]
    · have : y u = 1 := by
        have := hytrail (qq n perm u) hqu' hqun
        rw [hpu] at this; rw [this, if_pos rfl]
      rw [this, one_mul]
    · intro v hv hne
      have hvn := Finset.mem_range.1 hv
      by_cases hqv : N0 ≤ qq n perm v
      · obtain ⟨hqvn, hpv⟩ := qq_spec hP v hvn
        have := hytrail (qq n perm v) hqv hqvn
        rw [hpv] at this
        rw [this, if_neg (fun e => hne (by rw [← hpv, e, hpu])), zero_mul]
      · unfold trail; rw [if_neg (fun h' => hqv h'.1), mul_zero]
    · intro hnot; exact absurd (Finset.mem_range.2 hu) hnot
  have huu : trail n perm a N0 u u ≤ 0 := by
    unfold trail; rw [if_pos ⟨hqu', hqu'⟩]
    have := hdiag (qq n perm u) hqu' hqun
    unfold dd at this; rw [hpu] at this; exact this
  have hq0 : ∑ z' ∈ range n, y z' * ∑ v ∈ range n, normalF m A z' v * y v = 0 :=
    le_antisymm (by rw [hquad]; exact huu) (gram_quad_nonneg m n A y)
  have hAy := gram_zero m n A y hq0
  have : ∑ v ∈ range n, normalF m A z v * y v = 0 := by
    rw [gram_mul]
    exact Finset.sum_eq_zero fun k hk => by rw [hAy k (Finset.mem_range.1 hk), mul_zero]
  rw [← htr z hz, ← hNy z hz, this]

end
end Gama.Ls
