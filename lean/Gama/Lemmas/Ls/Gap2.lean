/-
  "Rank numerically unambiguous", SECOND stage (CLAUSES.md gap #6, C01 row 9 "Missing 1").

  The factorisation stages of envelope / cholesky / gso are covered by `GapAllP A P τ`
  (`ComposeGap*.lean`).  The second stage of all three — the Gram–Schmidt orthogonalisation of a
  basis of `ker A` over the regularisation subset `S`, with the refusal test `‖·‖_S < tolerance` —
  tests, at every step, the `S`-norm of a NON-ZERO KERNEL VECTOR one of whose coordinates is `±1`
  (the kernel bases the three codes build are triangular: `−1` resp. `1` at the flagged unknown, `0`
  at the flagged unknowns processed later).  Hence one exact hypothesis on `(A, S)` suffices:

      `SMargin A S τ` — `S` resolves the defect WITH MARGIN `τ`: for every `g ∈ ker A`, `g ≠ 0`,
                        `τ²·‖g‖² < ‖g_S‖²`
                        (the form `C20_svd_subset_refusal` (d) already uses for the svd test).

  `RankGap A P S τ := GapAllP A P τ ∧ SMargin A S τ` is THE single hypothesis on the original
  `(A, P, S)`; this file holds the definitions and the transport lemmas (thresholds, whitening
  `A ↦ W A` with `W` injective, the full subset).  Solver consequences:
  `Gap2Env.lean` (`GSUnambiguous`), `Gap2Chol.lean` (`GsUnamb`), `Gap2Gso.lean` (`h2`),
  facades `Gap2Facade.lean`.
-/
import Gama.Lemmas.Ls.ComposeGapEnvSolve

namespace Gama.Ls
open Finset Matrix Gama.LS

set_option linter.unusedSectionVars false

section
variable {K : Type} [Field K] [LinearOrder K] [IsStrictOrderedRing K] {m n : ℕ}

/-- `S` resolves the defect of `A` with margin `τ`: every non-zero kernel vector has
    `‖g_S‖² > τ²·‖g‖²` -/
def SMargin (A : Matrix (Fin m) (Fin n) K) (S : Finset (Fin n)) (τ : K) : Prop :=
  ∀ g : Fin n → K, A *ᵥ g = 0 → g ≠ 0 → τ * τ * (g ⬝ᵥ g) < ∑ i ∈ S, g i * g i

/-- **the single hypothesis**: every exact Schur pivot of `AᵀPA` (any order) is 0 or `> τ`, and the
    regularisation subset resolves the defect with margin `τ` -/
def RankGap (A : Matrix (Fin m) (Fin n) K) (P : Matrix (Fin m) (Fin m) K) (S : Finset (Fin n)) (τ : K) : Prop :=
  GapAllP A P τ ∧ SMargin A S τ

variable {A : Matrix (Fin m) (Fin n) K} {S : Finset (Fin n)} {τ τ' : K}

theorem dot_self_pos {g : Fin n → K} (hg : g ≠ 0) : 0 < g ⬝ᵥ g := by
  rcases lt_or_eq_of_le (sqnorm_nonneg g) with h | h
  · exact h
  · exfalso
    apply hg
    funext i
    have := (Finset.sum_eq_zero_iff_of_nonneg (fun j _ => mul_self_nonneg (g j))).1 h.symm i (Finset.mem_univ i)
    exact mul_self_eq_zero.1 this

/-- a coordinate `±1` bounds the squared norm from below -/
theorem one_le_dot_self {g : Fin n → K} (i : Fin n) (hi : g i * g i = 1) : 1 ≤ g ⬝ᵥ g := by
  rw [← hi]
  exact Finset.single_le_sum (f := fun j => g j * g j) (fun j _ => mul_self_nonneg (g j)) (Finset.mem_univ i)

theorem SMargin.mono (h : SMargin A S τ) (h0 : 0 ≤ τ') (hτ : τ' ≤ τ) : SMargin A S τ' := by
  intro g hg hne
  refine lt_of_le_of_lt ?_ (h g hg hne)
  exact mul_le_mul_of_nonneg_right (mul_le_mul hτ hτ h0 (le_trans h0 hτ)) (sqnorm_nonneg g)

/-- the margin form implies `Resolves` (for any `τ`) -/
theorem SMargin.resolves (h : SMargin A S τ) : Resolves A S := by
  intro g hg hS
  by_contra hne
  have h1 := h g hg hne
  rw [Finset.sum_eq_zero (fun i hi => by rw [hS i hi, mul_zero])] at h1
  exact absurd h1 (not_lt.2 (mul_nonneg (mul_self_nonneg τ) (sqnorm_nonneg g)))

/-- whitening by an injective `W` does not change the kernel, hence not the margin -/
theorem SMargin.whiten {W : Matrix (Fin m) (Fin m) K} (hW : ∀ d, W *ᵥ d = 0 → d = 0)
    (h : SMargin A S τ) : SMargin (W * A) S τ := by
  intro g hg hne
  refine h g (hW _ ?_) hne
  rw [mulVec_mulVec]; exact hg

/-- all unknowns regularised: margin for every `τ` with `τ² < 1` -/
theorem SMargin.univ (hτ : τ * τ < 1) : SMargin A (Finset.univ : Finset (Fin n)) τ := by
  intro g _ hne
  have hp := dot_self_pos hne
  have : ∑ i ∈ (Finset.univ : Finset (Fin n)), g i * g i = g ⬝ᵥ g := rfl
  rw [this]
  calc τ * τ * (g ⬝ᵥ g) < 1 * (g ⬝ᵥ g) := mul_lt_mul_of_pos_right hτ hp
    _ = g ⬝ᵥ g := one_mul _

theorem RankGap.mono {P : Matrix (Fin m) (Fin m) K} (h : RankGap A P S τ) (h0 : 0 ≤ τ') (hτ : τ' ≤ τ) :
    RankGap A P S τ' :=
  ⟨fun k β hk ho => by
      rcases h.1 k β hk ho with h0 | hgt
      · exact Or.inl h0
      · exact Or.inr (lt_of_le_of_lt hτ hgt),
   h.2.mono h0 hτ⟩

/-- the hypothesis on `(A, P, S)` gives the unweighted one of the whitened matrix `W A` -/
theorem RankGap.whiten {P W : Matrix (Fin m) (Fin m) K} (hW : Wᵀ * W = P) (hWinj : ∀ d, W *ᵥ d = 0 → d = 0)
    (h : RankGap A P S τ) : GapAll (W * A) τ ∧ SMargin (W * A) S τ :=
  ⟨GapAllP.whiten hW h.1, h.2.whiten hWinj⟩

/-- `0 ≤ a`, `a² < b²`, `0 ≤ b` ⇒ `a < b` (the step from squared norms to norms) -/
theorem lt_of_sq_lt {a b : K} (hb : 0 ≤ b) (h : a * a < b * b) : a < b := by
  by_contra hn
  have hba : b ≤ a := not_lt.1 hn
  exact absurd h (not_lt.2 (mul_le_mul hba hba hb (le_trans hb hba)))

/-- the core estimate of every second-stage test: a kernel vector with a coordinate `±1` has
    `‖g_S‖² > τ²` -/
theorem SMargin.pivot_gt (h : SMargin A S τ) {g : Fin n → K} (hg : A *ᵥ g = 0) (i : Fin n)
    (hi : g i * g i = 1) : τ * τ < ∑ j ∈ S, g j * g j := by
  have hne : g ≠ 0 := by
    intro h0
    rw [h0] at hi
    simp at hi
  have h1 := h g hg hne
  have h2 := one_le_dot_self i hi
  calc τ * τ = τ * τ * 1 := (mul_one _).symm
    _ ≤ τ * τ * (g ⬝ᵥ g) := mul_le_mul_of_nonneg_left h2 (mul_self_nonneg τ)
    _ < _ := h1

end
end Gama.Ls
