/-
  Envelope solver, cofactors of a singular system.
  Matrix algebra: for `N = Lu D Luᵀ` (unit lower `Lu`, diagonal `D` with zeros allowed) the
  matrix `Q0 = Lu⁻ᵀ D⁺ Lu⁻¹` that `lowerSolve`, `diagonalSolve` (zero pivot ⇒ 0), `upperSolve`
  apply is a symmetric reflexive generalised inverse of `N`.
-/
import Mathlib.LinearAlgebra.Matrix.NonsingularInverse
import Mathlib.Data.Matrix.Diagonal
import Mathlib.Data.Matrix.Mul

namespace Gama.Ls.Env
open Matrix

variable {K : Type} [Field K] [DecidableEq K] {n : ℕ}

/-- `D⁺` -/
def pinvDiag (d : Fin n → K) : Fin n → K := fun k => if d k = 0 then 0 else (d k)⁻¹

theorem diag_pinv_diag (d : Fin n → K) :
    diagonal d * diagonal (pinvDiag d) * diagonal d = diagonal d := by
  rw [diagonal_mul_diagonal, diagonal_mul_diagonal]
  congr 1; funext k
  unfold pinvDiag
  by_cases h : d k = 0
  · simp [h]
  · simp [h]

theorem pinv_diag_pinv (d : Fin n → K) :
    diagonal (pinvDiag d) * diagonal d * diagonal (pinvDiag d) = diagonal (pinvDiag d) := by
  rw [diagonal_mul_diagonal, diagonal_mul_diagonal]
  congr 1; funext k
  unfold pinvDiag
  by_cases h : d k = 0
  · simp [h]
  · simp [h]

/-- `Q0 = Mᵀ D⁺ M` with `M = Lu⁻¹` -/
def q0Mat (Mi : Matrix (Fin n) (Fin n) K) (d : Fin n → K) : Matrix (Fin n) (Fin n) K :=
  Miᵀ * diagonal (pinvDiag d) * Mi

theorem q0Mat_symm (Mi : Matrix (Fin n) (Fin n) K) (d : Fin n → K) : (q0Mat Mi d)ᵀ = q0Mat Mi d := by
  unfold q0Mat
  rw [transpose_mul, transpose_mul, transpose_transpose, diagonal_transpose, Matrix.mul_assoc]

variable {LuM Mi N : Matrix (Fin n) (Fin n) K} {d : Fin n → K}

theorem q0Mat_ginv (hN : N = LuM * diagonal d * LuMᵀ) (hM : LuM * Mi = 1) :
    N * q0Mat Mi d * N = N := by
  have hM' : Mi * LuM = 1 := mul_eq_one_comm.1 hM
  have hMt : LuMᵀ * Miᵀ = 1 := by rw [← transpose_mul, hM', transpose_one]
  unfold q0Mat
  calc N * (Miᵀ * diagonal (pinvDiag d) * Mi) * N
      = LuM * diagonal d * (LuMᵀ * Miᵀ) * diagonal (pinvDiag d) * (Mi * LuM) * diagonal d * LuMᵀ := by
        rw [hN]; simp only [Matrix.mul_assoc]
    _ = LuM * (diagonal d * diagonal (pinvDiag d) * diagonal d) * LuMᵀ := by
        rw [hMt, hM']; simp only [Matrix.mul_one, Matrix.mul_assoc]
    _ = N := by rw [diag_pinv_diag, hN]

theorem q0Mat_reflexive (hN : N = LuM * diagonal d * LuMᵀ) (hM : LuM * Mi = 1) :
    q0Mat Mi d * N * q0Mat Mi d = q0Mat Mi d := by
  have hM' : Mi * LuM = 1 := mul_eq_one_comm.1 hM
  have hMt : LuMᵀ * Miᵀ = 1 := by rw [← transpose_mul, hM', transpose_one]
  unfold q0Mat
  calc Miᵀ * diagonal (pinvDiag d) * Mi * N * (Miᵀ * diagonal (pinvDiag d) * Mi)
      = Miᵀ * diagonal (pinvDiag d) * (Mi * LuM) * diagonal d * (LuMᵀ * Miᵀ) * diagonal (pinvDiag d) * Mi := by
        rw [hN]; simp only [Matrix.mul_assoc]
    _ = Miᵀ * (diagonal (pinvDiag d) * diagonal d * diagonal (pinvDiag d)) * Mi := by
        rw [hMt, hM']; simp only [Matrix.mul_one, Matrix.mul_assoc]
    _ = Miᵀ * diagonal (pinvDiag d) * Mi := by rw [pinv_diag_pinv]

end Gama.Ls.Env
