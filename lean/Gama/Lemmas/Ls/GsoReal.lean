/-
  ℝ with `Real.sqrt` is a `SqrtField` (non-vacuity of the scalar bundle), and a concrete
  singular problem over ℝ on which the Gram–Schmidt model runs unambiguously:
  `Ex.pR`: A = [1 1; 0 0], b = (1,1), unit weights, S = {1}; tested norms 1, 0 (first phase),
  1 (second phase); x = (0,1), v = (0,−1), defect 1, unknown 2 flagged.
  `Ex.pT`: a refused problem (S does not resolve the defect).
-/
import Gama.Lemmas.Ls.GsoCof
import Mathlib.Analysis.Real.Sqrt

namespace Gama.Ls.Gso

noncomputable instance : SqrtField ℝ where
  sqrt := Real.sqrt
  sqrt_spec := fun _ h => ⟨Real.mul_self_sqrt h, Real.sqrt_nonneg _⟩

namespace Ex
open Gama Gama.Ls

noncomputable def pR : Problem ℝ :=
  { m := 2, n := 2, rows := #[#[(1, 1), (2, 1)], #[]],
    cov := #[⟨2, 0, #[1, 1]⟩], rhs := #[1, 1], reg := .subset [1] }

theorem pR_dense : pR.dense = #[#[1, 1], #[0, 0]] := by
  simp [Problem.dense, pR]
  refine ⟨?_, ?_⟩ <;> rfl

theorem tol_pos : (0 : ℝ) < tolerance := by
  show (0 : ℝ) < 1 / ((2 ^ 52 : Nat) : ℝ) * ((100000 : Nat) : ℝ)
  positivity

theorem tol_lt_one : (tolerance : ℝ) < 1 := by
  show 1 / ((2 ^ 52 : Nat) : ℝ) * ((100000 : Nat) : ℝ) < 1
  norm_num

theorem sqrtS (x : ℝ) : Scalar.sqrt x = Real.sqrt x := rfl

theorem pR_run : runOf pR = run (tolerance : ℝ) 2 2 (entry #[#[1, 1], #[0, 0]])
    (fun i => (#[1, 1] : Array ℝ).getD i 0) [true, false] := by
  unfold runOf
  rw [pR_dense]
  rfl

theorem pR_tested : (runOf pR).tested = [1, 0, 1] := by
  have h0 : ¬ (tolerance : ℝ) < 0 := not_lt.2 (le_of_lt tol_pos)
  rw [pR_run]
  simp [run, augmented, entry, icgs1, icgs2, step1, orth1, cgs1, subAll,
    dot, dotAux, norm1, Col.axpy, Col.scale, vaxpy, vscale, phase2, step2, orth2, cgs2, subAllB,
    dotM, dotMAux, norm2, movePtrs, movePtrsAux, swapAt, sqrtS, tol_lt_one, h0,
    List.range, List.range.loop]

theorem pR_unambiguous : Unambiguous pR := by
  intro r hr
  rw [pR_tested] at hr
  simp only [List.mem_cons, List.not_mem_nil, or_false] at hr
  rcases hr with rfl | rfl | rfl
  · exact Or.inr tol_lt_one
  · exact Or.inl rfl
  · exact Or.inr tol_lt_one

theorem pR_result : (runOf pR).rhs.bot = [0, 1] ∧ (runOf pR).rhs.top = [0, -1] ∧ (runOf pR).dep = [2]
    ∧ (runOf pR).err = 0 := by
  have h0 : ¬ (tolerance : ℝ) < 0 := not_lt.2 (le_of_lt tol_pos)
  rw [pR_run]
  simp [run, augmented, entry, icgs1, icgs2, step1, orth1, cgs1, subAll,
    dot, dotAux, norm1, Col.axpy, Col.scale, vaxpy, vscale, phase2, step2, orth2, cgs2, subAllB,
    dotM, dotMAux, norm2, movePtrs, movePtrsAux, swapAt, sqrtS, tol_lt_one, h0,
    List.range, List.range.loop]

theorem pR_answers : ∃ a, gsoSolve pR = .ok a ∧ a.x = #[0, 1]
    ∧ a.r = #[0, -1] ∧ a.defect = 1 ∧ a.lindep 2 = .ok true := by
  obtain ⟨hx, hr, hd, he⟩ := pR_result
  have hreg : regInRange pR.n pR.reg = true := by decide
  have h2 : ∃ a, gsoSolve pR = .ok a := by
    simp [gsoSolve, gsoSolveWith, hreg, he]
  obtain ⟨a, ha⟩ := h2
  obtain ⟨ax, ar, -, adef, alin, -⟩ := gsoSolveWith_ok (refuse := true) ha
  refine ⟨a, ha, by rw [ax, hx], by rw [ar, hr], by rw [adef, hd]; rfl, by rw [alin, hd]; rfl⟩

/-- a refused problem over ℝ: A = [1 1 0; 0 0 1], b = (1,2), S = {3}; the kernel vector (−1,1,0)
    vanishes on S.  Tested norms 1, 0, 1 (first phase), 0 (second phase). -/
noncomputable def pT : Problem ℝ :=
  { m := 2, n := 3, rows := #[#[(1, 1), (2, 1)], #[(3, 1)]],
    cov := #[⟨2, 0, #[1, 1]⟩], rhs := #[1, 2], reg := .subset [3] }

theorem pT_dense : pT.dense = #[#[1, 1, 0], #[0, 0, 1]] := by
  simp [Problem.dense, pT]
  refine ⟨?_, ?_⟩ <;> rfl

theorem pT_run : runOf pT = run (tolerance : ℝ) 2 3 (entry #[#[1, 1, 0], #[0, 0, 1]])
    (fun i => (#[1, 2] : Array ℝ).getD i 0) [false, false, true] := by
  unfold runOf
  rw [pT_dense]
  rfl

theorem pT_result : (runOf pT).tested = [1, 0, 1, 0] ∧ (runOf pT).err = 1 := by
  have h0 : ¬ (tolerance : ℝ) < 0 := not_lt.2 (le_of_lt tol_pos)
  rw [pT_run]
  simp [run, augmented, entry, icgs1, icgs2, step1, orth1, cgs1, subAll,
    dot, dotAux, norm1, Col.axpy, Col.scale, vaxpy, vscale, phase2, step2, orth2, cgs2, subAllB,
    dotM, dotMAux, norm2, movePtrs, movePtrsAux, swapAt, sqrtS, tol_lt_one, h0,
    List.range, List.range.loop]

theorem pT_unambiguous : Unambiguous pT := by
  intro r hr
  rw [pT_result.1] at hr
  simp only [List.mem_cons, List.not_mem_nil, or_false] at hr
  rcases hr with rfl | rfl | rfl | rfl
  · exact Or.inr tol_lt_one
  · exact Or.inl rfl
  · exact Or.inr tol_lt_one
  · exact Or.inl rfl

theorem pT_refused : gsoSolve pT = .error .BadRegularization := by
  have hreg : regInRange pT.n pT.reg = true := by decide
  simp [gsoSolve, gsoSolveWith, hreg, pT_result.2]

end Ex
end Gama.Ls.Gso
