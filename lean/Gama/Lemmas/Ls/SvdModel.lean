/-
  Bridge from the executable post-decomposition model (`Model/Ls/Svd/Post.lean`, instantiated at
  the field's own operations `LS.fieldScalar sq`) to the matrix algebra of `SvdAlgebra.lean` /
  `SvdSubset.lean`.
-/
import Gama.Model.Ls.Svd
import Gama.Lemmas.Ls.SvdSubset
import Mathlib.Algebra.BigOperators.Intervals
import Mathlib.Algebra.BigOperators.Fin
import Mathlib.Algebra.Order.Field.Basic

namespace Gama.Ls.Svd
open Matrix Finset Gama.LS Gama.Ls

set_option linter.unusedSectionVars false
set_option linter.unusedVariables false
set_option linter.unusedSimpArgs false

variable {K : Type} [Field K] [LinearOrder K] [IsStrictOrderedRing K] (sq : K → K)

local notation "𝕊" => (Gama.LS.fieldScalar sq)

/-! ### arrays -/

theorem getD_ofFn'' {α : Type} {n : Nat} (f : Fin n → α) (i : Nat) (d : α) :
    (Array.ofFn f).getD i d = if h : i < n then f ⟨i, h⟩ else d := by
  simp only [Array.getD_eq_getD_getElem?, Array.getElem?_ofFn]
  split <;> simp

theorem vget_vmk (n : Nat) (f : Nat → K) (k : Nat) :
    @vget K 𝕊 (@vmk K n f) k = if k < n then f k else 0 := by
  unfold vget vmk; rw [getD_ofFn'']; split <;> rfl

theorem mget_mmk (r c : Nat) (f : Nat → Nat → K) (i j : Nat) :
    @mget K 𝕊 (@mmk K r c f) i j = if i < r ∧ j < c then f i j else 0 := by
  unfold mget mmk
  show @vget K 𝕊 ((Array.ofFn fun i : Fin r => @vmk K c (f i.1)).getD i #[]) j = _
  rw [getD_ofFn'']
  by_cases hi : i < r
  · simp only [hi, dite_true, true_and]; exact vget_vmk sq c (f i) j
  · simp only [hi, dite_false, false_and, if_false]; rfl

theorem toMatrix_mget (r c : Nat) (M : DMat K) (i : Fin r) (j : Fin c) :
    toMatrix r c M i j = @mget K 𝕊 M i.val j.val := rfl

theorem toVec_vget (n : Nat) (v : Array K) (i : Fin n) : toVec n v i = @vget K 𝕊 v i.val := rfl

/-! ### sums -/

theorem sumTo_eq (n : Nat) (f : Nat → K) : @sumTo K 𝕊 n f = ∑ k ∈ range n, f k := by
  induction n with
  | zero => rfl
  | succ n ih => rw [Finset.sum_range_succ, ← ih]; rfl

theorem sumTo_fin (n : Nat) (f : Nat → K) : @sumTo K 𝕊 n f = ∑ k : Fin n, f k.val := by
  rw [sumTo_eq, Fin.sum_univ_eq_sum_range]

theorem absC_eq (x : K) : @absC K 𝕊 x = |x| := by
  show (if (0 : K) ≤ x then x else -x) = |x|
  split
  · next h => exact (abs_of_nonneg h).symm
  · next h => exact (abs_of_neg (not_le.mp h)).symm

/-! ### `set_inv_W` -/

theorem vmaxOf_nonneg (n : Nat) (W : Nat → K) : 0 ≤ @vmaxOf K 𝕊 n W := by
  unfold vmaxOf
  suffices h : ∀ (l : List Nat) (a : K), 0 ≤ a →
      0 ≤ l.foldl (fun v k => if @LT.lt K (𝕊).toLT v (W k) then W k else v) a from h _ 0 le_rfl
  intro l
  induction l with
  | nil => intro a ha; exact ha
  | cons x xs ih =>
    intro a ha
    rw [List.foldl_cons]
    apply ih
    split
    · next h => exact le_trans ha (le_of_lt h)
    · exact ha

/-- every singular value below the threshold is exactly zero -/
def Unambiguous (tol : K) (n : Nat) (W : Nat → K) : Prop :=
  ∀ i, i < n → W i = 0 ∨ tol * @vmaxOf K 𝕊 n W < |W i|

theorem invW_pinv (tol : K) (htol : 0 ≤ tol) (n : Nat) (W : Nat → K) (hU : Unambiguous sq tol n W)
    (i : Nat) (hi : i < n) :
    (W i = 0 ∧ @invW K 𝕊 tol n W i = 0) ∨ (W i ≠ 0 ∧ @invW K 𝕊 tol n W i = (W i)⁻¹) := by
  have hv := mul_nonneg htol (vmaxOf_nonneg sq n W)
  unfold invW
  rw [absC_eq]
  show (W i = 0 ∧ (if tol * @vmaxOf K 𝕊 n W < |W i| then 1 / W i else 0) = 0)
      ∨ (W i ≠ 0 ∧ (if tol * @vmaxOf K 𝕊 n W < |W i| then 1 / W i else 0) = (W i)⁻¹)
  rcases hU i hi with h0 | hlt
  · left; refine ⟨h0, ?_⟩
    rw [h0, abs_zero, if_neg (not_lt.mpr hv)]
  · right
    have hne : W i ≠ 0 := by
      intro h0; rw [h0, abs_zero] at hlt; exact absurd hlt (not_lt.mpr hv)
    exact ⟨hne, by rw [if_pos hlt, one_div]⟩

theorem isNull_iff (iw : Nat → K) (k : Nat) : @isNull K 𝕊 iw k = true ↔ iw k = 0 := by
  show decide (iw k = 0) = true ↔ _
  simp

theorem defectOf_eq (n : Nat) (iw : Nat → K) :
    @defectOf K 𝕊 n iw = (univ.filter fun i : Fin n => iw i.val = 0).card := by
  have h1 : (univ.filter fun i : Fin n => iw i.val = 0).card = ∑ i ∈ range n, if iw i = 0 then 1 else 0 := by
    rw [Finset.card_filter, Fin.sum_univ_eq_sum_range (fun i => if iw i = 0 then 1 else 0)]
  rw [h1]
  clear h1
  unfold defectOf
  induction n with
  | zero => simp
  | succ n ih =>
    rw [List.range_succ, List.filter_append, List.length_append, ih, Finset.sum_range_succ]
    by_cases h : iw n = 0
    · have : @isNull K 𝕊 iw n = true := (isNull_iff sq iw n).mpr h
      simp [this, h]
    · have : @isNull K 𝕊 iw n = false := by
        rcases hb : @isNull K 𝕊 iw n with _ | _
        · rfl
        · exact absurd ((isNull_iff sq iw n).mp hb) h
      simp [this, h]

/-! ### `min_subset_x` -/

/-- the regularisation rows (0-based list) as a finset -/
def SF (n : Nat) (Sl : List Nat) : Finset (Fin n) := univ.filter fun i => i.val ∈ Sl

omit [LinearOrder K] [IsStrictOrderedRing K] in
theorem foldl_dot (n : Nat) (f g : Nat → K) : ∀ (Sl : List Nat) (a : K), Sl.Nodup → (∀ i ∈ Sl, i < n) →
    Sl.foldl (fun s im => s + f im * g im) a = a + ∑ i ∈ SF n Sl, f i.val * g i.val := by
  intro Sl
  induction Sl with
  | nil => intro a _ _; simp [SF]
  | cons x xs ih =>
    intro a hnd hlt
    have hx : x < n := hlt x (List.mem_cons_self)
    have hxs : x ∉ xs := (List.nodup_cons.mp hnd).1
    rw [List.foldl_cons, ih _ (List.nodup_cons.mp hnd).2 (fun i hi => hlt i (List.mem_cons_of_mem _ hi))]
    have hins : SF n (x :: xs) = insert ⟨x, hx⟩ (SF n xs) := by
      ext i; simp only [SF, Finset.mem_filter, Finset.mem_univ, true_and, List.mem_cons, Finset.mem_insert]
      constructor
      · rintro (h | h)
        · left; exact Fin.ext h
        · right; exact h
      · rintro (h | h)
        · left; rw [h]
        · right; exact h
    have hnot : (⟨x, hx⟩ : Fin n) ∉ SF n xs := by simp [SF, hxs]
    rw [hins, Finset.sum_insert hnot]; ring

theorem dotS_eq (n : Nat) (Sl : List Nat) (hnd : Sl.Nodup) (hlt : ∀ i ∈ Sl, i < n) (f g : Nat → K) :
    @dotS K 𝕊 Sl f g = ∑ i ∈ SF n Sl, f i.val * g i.val := by
  have := foldl_dot n f g Sl 0 hnd hlt
  rw [zero_add] at this
  exact this

/-- a successful step of the model's `k` loop is the matrix step `stepM` (or the identity on a
    non-null column) -/
theorem msStep_ok (fix : Option K) (n : Nat) (Sl : List Nat) (hnd : Sl.Nodup) (hlt : ∀ i ∈ Sl, i < n)
    (iw : Nat → K) (V V2 : DMat K) (k : Nat) (hk : k < n)
    (hrf : ∀ s, @refuse K 𝕊 n fix V k s = false → s ≠ 0)
    (h : @msStep K 𝕊 fix n Sl iw V k = .ok V2) :
    (iw k ≠ 0 ∧ V2 = V) ∨
    (iw k = 0 ∧ sq (∑ i ∈ SF n Sl, toMatrix n n V i ⟨k, hk⟩ * toMatrix n n V i ⟨k, hk⟩) ≠ 0 ∧
      toMatrix n n V2 = stepM (SF n Sl)
        (sq (∑ i ∈ SF n Sl, toMatrix n n V i ⟨k, hk⟩ * toMatrix n n V i ⟨k, hk⟩)) (toMatrix n n V) ⟨k, hk⟩) := by
  unfold msStep at h
  by_cases hn : iw k = 0
  · right
    rw [if_pos ((isNull_iff sq iw k).mpr hn)] at h
    have hs : @Scalar.sqrt K 𝕊 (@dotS K 𝕊 Sl (fun i => @mget K 𝕊 V i k) (fun i => @mget K 𝕊 V i k))
        = sq (∑ i ∈ SF n Sl, toMatrix n n V i ⟨k, hk⟩ * toMatrix n n V i ⟨k, hk⟩) := by
      rw [dotS_eq sq n Sl hnd hlt]; rfl
    simp only [] at h
    rw [hs] at h
    generalize hsdef : sq (∑ i ∈ SF n Sl, toMatrix n n V i ⟨k, hk⟩ * toMatrix n n V i ⟨k, hk⟩) = s at h ⊢
    by_cases hr : @refuse K 𝕊 n fix V k s = true
    · rw [if_pos hr] at h; cases h
    · rw [if_neg hr] at h
      have hs0 : s ≠ 0 := hrf s (by simpa using hr)
      refine ⟨hn, hs0, ?_⟩
      injection h with h
      subst h
      ext i j
      rw [toMatrix_mget sq, mget_mmk, if_pos ⟨i.2, j.2⟩]
      by_cases hj : j = ⟨k, hk⟩
      · have hjv : j.val = k := by rw [hj]
        rw [if_pos hjv, hj, stepM_k, vget_vmk, if_pos i.2]; rfl
      · have hjv : ¬ j.val = k := fun e => hj (Fin.ext e)
        rw [if_neg hjv, stepM_ne _ _ _ _ _ hj, vget_vmk, if_pos j.2, vget_vmk, if_pos i.2,
          dotS_eq sq n Sl hnd hlt]
        unfold aS
        have : ∀ i' : Fin n, @vget K 𝕊 (@vmk K n fun i => @HDiv.hDiv K K K (@instHDiv K (𝕊).toDiv) (@mget K 𝕊 V i k) s) i'.val
            = toMatrix n n V i' ⟨k, hk⟩ / s := by
          intro i'; rw [vget_vmk, if_pos i'.2]; rfl
        simp only [this]
        rfl
  · left
    have : ¬ (@isNull K 𝕊 iw k = true) := fun hb => hn ((isNull_iff sq iw k).mp hb)
    rw [if_neg this] at h
    injection h with h
    exact ⟨hn, h.symm⟩

/-- what the solver needs from the columns `min_subset_x` leaves behind -/
structure Final {m n : Type} [Fintype m] [Fintype n] (A : Matrix m n K) (iw : n → K) (S : Finset n)
    (V V' : Matrix n n K) : Prop where
  nonnull : ∀ j, iw j ≠ 0 → A *ᵥ (fun i => V' i j) = A *ᵥ (fun i => V i j)
  span : ∀ g, A *ᵥ g = 0 → ∃ c : n → K, (∀ j, iw j ≠ 0 → c j = 0) ∧ g = V' *ᵥ c
  orth : ∀ j k, iw j ≠ 0 → iw k = 0 → ∑ i ∈ S, V' i j * V' i k = 0

omit [LinearOrder K] [IsStrictOrderedRing K] in
theorem Final.h1 {m n : Type} [Fintype m] [Fintype n] [DecidableEq n] [DecidableEq m]
    {A U : Matrix m n K} {W iw : n → K} {S : Finset n} {V V' : Matrix n n K}
    (hc : Cert A U W iw V) (h : Final A iw S V V') :
    A * V' * diagonal (ee W iw) = A * V * diagonal (ee W iw) := by
  ext i j
  rw [mul_diagonal, mul_diagonal]
  rcases ee_cases hc j with ⟨hj, he⟩ | ⟨hj, he⟩
  · rw [he, mul_zero, mul_zero]
  · have := congrFun (h.nonnull j hj) i
    simp only [mulVec, dotProduct] at this
    rw [he, mul_one, mul_one, Matrix.mul_apply, Matrix.mul_apply]; exact this

/-- the `k` loop of `min_subset_x` maintains `Inv`; every null column visited ends up in `P` -/
theorem msLoop_inv {m : Type} [Fintype m] [DecidableEq m] (hsq : ∀ x : K, 0 ≤ x → sq x * sq x = x)
    (fix : Option K) (n : Nat) (Sl : List Nat) (hnd : Sl.Nodup) (hlt : ∀ i ∈ Sl, i < n) (iw : Nat → K)
    (hrf : ∀ V k s, @refuse K 𝕊 n fix V k s = false → s ≠ 0)
    (A : Matrix m (Fin n) K) (V0 : Matrix (Fin n) (Fin n) K) :
    ∀ (ks : List Nat), ks.Nodup → (∀ k ∈ ks, k < n) → ∀ (V V2 : DMat K) (P : Finset (Fin n)),
      (∀ i : Fin n, i.val ∈ ks → i ∉ P) →
      Inv A (fun i : Fin n => iw i.val) (SF n Sl) V0 (toMatrix n n V) P →
      ks.foldlM (@msStep K 𝕊 fix n Sl iw) V = .ok V2 →
      ∃ P', Inv A (fun i : Fin n => iw i.val) (SF n Sl) V0 (toMatrix n n V2) P' ∧ P ⊆ P' ∧
        ∀ i : Fin n, i.val ∈ ks → iw i.val = 0 → i ∈ P' := by
  intro ks
  induction ks with
  | nil =>
    intro _ _ V V2 P _ hI h
    have : V2 = V := by
      have : (Except.ok V : Except ErrKind (DMat K)) = .ok V2 := h
      injection this with e; exact e.symm
    subst this
    exact ⟨P, hI, Finset.Subset.refl _, fun i hi => absurd hi (List.not_mem_nil)⟩
  | cons k ks ih =>
    intro hnd' hlt' V V2 P hP hI h
    have hk : k < n := hlt' k List.mem_cons_self
    have hkks : k ∉ ks := (List.nodup_cons.mp hnd').1
    rw [List.foldlM_cons] at h
    cases hstep : @msStep K 𝕊 fix n Sl iw V k with
    | error e => rw [hstep] at h; cases h
    | ok V1 =>
      rw [hstep] at h
      have h' : ks.foldlM (@msStep K 𝕊 fix n Sl iw) V1 = .ok V2 := h
      rcases msStep_ok sq fix n Sl hnd hlt iw V V1 k hk (hrf V k) hstep with ⟨hn, hV⟩ | ⟨hn, hs0, hV⟩
      · subst hV
        obtain ⟨P', hI', hPP', hall⟩ := ih (List.nodup_cons.mp hnd').2
          (fun k' hk' => hlt' k' (List.mem_cons_of_mem _ hk')) V1 V2 P
          (fun i hi => hP i (List.mem_cons_of_mem _ hi)) hI h'
        refine ⟨P', hI', hPP', fun i hi h0 => ?_⟩
        rcases List.mem_cons.mp hi with e | hi'
        · exact absurd (e ▸ h0) hn
        · exact hall i hi' h0
      · have hkP : (⟨k, hk⟩ : Fin n) ∉ P := hP ⟨k, hk⟩ List.mem_cons_self
        have hss := hsq (∑ i ∈ SF n Sl, toMatrix n n V i ⟨k, hk⟩ * toMatrix n n V i ⟨k, hk⟩)
          (Finset.sum_nonneg fun i _ => mul_self_nonneg _)
        have hI1 := hI.step (k := ⟨k, hk⟩) hn hkP hs0 hss
        rw [← hV] at hI1
        obtain ⟨P', hI', hPP', hall⟩ := ih (List.nodup_cons.mp hnd').2
          (fun k' hk' => hlt' k' (List.mem_cons_of_mem _ hk')) V1 V2 (insert ⟨k, hk⟩ P)
          (fun i hi hmem => by
            rcases Finset.mem_insert.mp hmem with e | hm
            · exact hkks (by rw [e] at hi; exact hi)
            · exact hP i (List.mem_cons_of_mem _ hi) hm) hI1 h'
        refine ⟨P', hI', fun x hx => hPP' (Finset.mem_insert_of_mem hx), fun i hi h0 => ?_⟩
        rcases List.mem_cons.mp hi with e | hi'
        · have : i = ⟨k, hk⟩ := Fin.ext e
          rw [this]; exact hPP' (Finset.mem_insert_self _ _)
        · exact hall i hi' h0

end Gama.Ls.Svd
