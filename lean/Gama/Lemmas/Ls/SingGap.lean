/-
  "Rank numerically unambiguous" for the svd solver as ONE hypothesis on the INPUT `(A, P)`
  (CLAUSES.md, audit #3, gap #5).

  Until now the svd theorems asked `Svd.Unambiguous tol (vget d.W)` — a premise on the singular values
  the iteration RETURNED.  Here it is derived from a condition on the problem:

      `SingGap A P τ`  —  every eigenvalue `λ` of `AᵀPA` is `0` or `> τ²·μ` for EVERY eigenvalue `μ` of
                          `AᵀPA` (in particular the largest), i.e. every singular value `σ = √λ` of the
                          homogenised matrix is `0` or `> τ·σ_max`.

  "Eigenvalue" is meant intrinsically (`IsEig N λ := ∃ v ≠ 0, N v = λ v`), so no orthogonal
  diagonalisation is named in the hypothesis and no uniqueness of the spectrum is needed: the gap
  condition ignores multiplicities, and the factorisation `decompose` returns (`A = U diag(W) Vᵀ`,
  `VᵀV = 1`, `UᵀU = δ` on the columns with `W ≠ 0`: `Svd.decompose_cert`) gives
  `AᵀA = V diag(W²) Vᵀ` (`gram_of_svd`), hence `AᵀA·V_i = W_i²·V_i` with `V_i ≠ 0`
  (`eig_of_svd`): every returned `W_i²` IS an eigenvalue, whatever the iteration did.

    `singGap_unambiguous`   `SingGap A 1 τ → tol ≤ τ → decompose m n A = .ok d → Unambiguous tol d.W`
    `SingGap.whiten`        `WᵀW = P → (SingGap A P τ ↔ SingGap (W A) 1 τ)`  (homogenisation)
    `SingGap.smul`          scale invariance (`RankGap`'s pivot gap is absolute, this one relative)
    `SingGap.mono`          antitone in `τ` (for `P = WᵀW`: eigenvalues are non-negative)
    `singGap_iff_sing`      the same condition spelled with singular values `σ ≥ 0`, `σ² ` an eigenvalue
    `rankGap_univ_iff`      `S` = all columns, `τ² < 1`: `RankGap A P univ τ ↔ GapAllP A P τ`
    `singGap_not_gapAll`, `gapAll_not_singGap`
                            neither first-stage condition implies the other (scaling): both have to be
                            asked — `RankGap` for envelope/cholesky/gso, `SingGap` for svd
-/
import Gama.Lemmas.Ls.SvdDecompCert
import Gama.Lemmas.Ls.Gap2

namespace Gama.Ls
open Matrix Finset Gama.LS

set_option linter.unusedSectionVars false
set_option linter.unusedVariables false

section
variable {K : Type} [Field K] [LinearOrder K] [IsStrictOrderedRing K] {m n : ℕ}

/-- `lam` is an eigenvalue of the square matrix `N` -/
def IsEig (N : Matrix (Fin n) (Fin n) K) (lam : K) : Prop := ∃ v : Fin n → K, v ≠ 0 ∧ N *ᵥ v = lam • v

/-- **the input-side hypothesis of the svd solver**: every eigenvalue of `AᵀPA` is `0` or exceeds
    `τ²` times every eigenvalue of `AᵀPA` (singular values of the homogenised matrix: `0` or `> τ·σ_max`) -/
def SingGap (A : Matrix (Fin m) (Fin n) K) (P : Matrix (Fin m) (Fin m) K) (τ : K) : Prop :=
  ∀ lam mu : K, IsEig (Aᵀ * P * A) lam → IsEig (Aᵀ * P * A) mu → lam = 0 ∨ τ * τ * mu < lam

variable {A : Matrix (Fin m) (Fin n) K} {P W : Matrix (Fin m) (Fin m) K} {τ τ' : K}

theorem gram_whiten (hW : Wᵀ * W = P) : (W * A)ᵀ * (1 : Matrix (Fin m) (Fin m) K) * (W * A) = Aᵀ * P * A := by
  rw [Matrix.mul_one, transpose_mul, ← hW]
  simp only [Matrix.mul_assoc]

/-- the condition on `(A, P)` IS the unweighted one of the homogenised matrix `W A`, `WᵀW = P` -/
theorem SingGap.whiten (hW : Wᵀ * W = P) : SingGap A P τ ↔ SingGap (W * A) 1 τ := by
  unfold SingGap
  rw [gram_whiten hW]

/-- an eigenvalue of `AᵀPA`, `P = WᵀW`, is non-negative -/
theorem IsEig.nonneg_of_gram (hW : Wᵀ * W = P) {lam : K} (h : IsEig (Aᵀ * P * A) lam) : 0 ≤ lam := by
  obtain ⟨v, hv, he⟩ := h
  have hp := dot_self_pos hv
  have h1 : v ⬝ᵥ ((Aᵀ * P * A) *ᵥ v) = ((W * A) *ᵥ v) ⬝ᵥ ((W * A) *ᵥ v) := by
    rw [← gram_whiten (A := A) hW, Matrix.mul_one, ← mulVec_mulVec, dotProduct_mulVec, vecMul_transpose]
  have h2 : v ⬝ᵥ ((Aᵀ * P * A) *ᵥ v) = lam * (v ⬝ᵥ v) := by rw [he, dotProduct_smul, smul_eq_mul]
  have h3 : 0 ≤ lam * (v ⬝ᵥ v) := by rw [← h2, h1]; exact sqnorm_nonneg _
  by_contra hn
  exact absurd h3 (not_le.2 (mul_neg_of_neg_of_pos (not_le.1 hn) hp))

/-- antitone in `τ` (weights `P = WᵀW`) -/
theorem SingGap.mono (hW : Wᵀ * W = P) (h : SingGap A P τ) (h0 : 0 ≤ τ') (hτ : τ' ≤ τ) : SingGap A P τ' := by
  intro lam mu hl hm
  rcases h lam mu hl hm with h0' | hgt
  · exact Or.inl h0'
  · refine Or.inr (lt_of_le_of_lt ?_ hgt)
    exact mul_le_mul_of_nonneg_right (mul_le_mul hτ hτ h0 (le_trans h0 hτ)) (hm.nonneg_of_gram hW)

/-- scale invariance: the condition is RELATIVE (unlike the pivot gap `GapAllP`, which is absolute) -/
theorem SingGap.smul {c : K} (hc : c ≠ 0) : SingGap (c • A) P τ ↔ SingGap A P τ := by
  have hcc : c * c ≠ 0 := mul_ne_zero hc hc
  have hpos : 0 < c * c := lt_of_le_of_ne (mul_self_nonneg c) (Ne.symm hcc)
  have e : (c • A)ᵀ * P * (c • A) = (c * c) • (Aᵀ * P * A) := by
    rw [transpose_smul, Matrix.smul_mul, Matrix.smul_mul, Matrix.mul_smul, smul_smul]
  have eig : ∀ lam, IsEig ((c • A)ᵀ * P * (c • A)) lam ↔ IsEig (Aᵀ * P * A) (lam / (c * c)) := by
    intro lam
    rw [e]
    constructor
    · rintro ⟨v, hv, he⟩
      refine ⟨v, hv, ?_⟩
      rw [smul_mulVec] at he
      have : (Aᵀ * P * A) *ᵥ v = (c * c)⁻¹ • ((c * c) • ((Aᵀ * P * A) *ᵥ v)) := by
        rw [smul_smul, inv_mul_cancel₀ hcc, one_smul]
      rw [this, he, smul_smul, div_eq_inv_mul]
    · rintro ⟨v, hv, he⟩
      refine ⟨v, hv, ?_⟩
      rw [smul_mulVec, he, smul_smul, mul_div_cancel₀ _ hcc]
  constructor
  · intro h lam mu hl hm
    have hl' : IsEig ((c • A)ᵀ * P * (c • A)) (c * c * lam) := by
      rw [eig, mul_div_cancel_left₀ _ hcc]; exact hl
    have hm' : IsEig ((c • A)ᵀ * P * (c • A)) (c * c * mu) := by
      rw [eig, mul_div_cancel_left₀ _ hcc]; exact hm
    rcases h _ _ hl' hm' with h0 | hgt
    · exact Or.inl ((mul_eq_zero.1 h0).resolve_left hcc)
    · right
      have : c * c * (τ * τ * mu) < c * c * lam := by
        calc c * c * (τ * τ * mu) = τ * τ * (c * c * mu) := by ring
          _ < c * c * lam := hgt
      exact lt_of_mul_lt_mul_left this (le_of_lt hpos)
  · intro h lam mu hl hm
    rcases h _ _ ((eig lam).1 hl) ((eig mu).1 hm) with h0 | hgt
    · left
      rcases div_eq_zero_iff.1 h0 with h0 | h0
      · exact h0
      · exact absurd h0 hcc
    · right
      have := mul_lt_mul_of_pos_left hgt hpos
      rw [mul_div_cancel₀ _ hcc] at this
      calc τ * τ * mu = c * c * (τ * τ * (mu / (c * c))) := by field_simp
        _ < lam := this

/-! ### a factorisation `A = U diag(w) Vᵀ` exhibits the `w_i²` as eigenvalues of `AᵀA` -/

variable {U : Matrix (Fin m) (Fin n) K} {w : Fin n → K} {V : Matrix (Fin n) (Fin n) K}

/-- `A = U diag(w) Vᵀ`, the columns of `U` with `w ≠ 0` orthonormal ⇒ `AᵀA = V diag(w²) Vᵀ` -/
theorem gram_of_svd (hf : A = U * diagonal w * Vᵀ)
    (hu : ∀ i j : Fin n, w i ≠ 0 → (Uᵀ * U) i j = if i = j then 1 else 0) :
    Aᵀ * A = V * diagonal (fun i => w i * w i) * Vᵀ := by
  have hD : diagonal w * (Uᵀ * U) * diagonal w = diagonal (fun i => w i * w i) := by
    ext i j
    rw [Matrix.mul_diagonal, Matrix.diagonal_mul]
    by_cases hi : w i = 0
    · by_cases hij : i = j
      · subst hij; simp [hi]
      · simp [hi, hij]
    · rw [hu i j hi]
      by_cases hij : i = j
      · subst hij; simp
      · simp [hij]
  rw [← hD, hf, transpose_mul, transpose_mul, transpose_transpose, diagonal_transpose]
  simp only [Matrix.mul_assoc]

/-- … hence every `w_i²` is an eigenvalue of `AᵀA`, with eigenvector the `i`-th column of `V` -/
theorem eig_of_svd (hf : A = U * diagonal w * Vᵀ) (hv : Vᵀ * V = 1)
    (hu : ∀ i j : Fin n, w i ≠ 0 → (Uᵀ * U) i j = if i = j then 1 else 0) (i : Fin n) :
    IsEig (Aᵀ * A) (w i * w i) := by
  refine ⟨fun k => V k i, fun h0 => ?_, ?_⟩
  · have h1 : (Vᵀ * V) i i = 0 := by
      rw [Matrix.mul_apply]
      exact Finset.sum_eq_zero fun k _ => by rw [congrFun h0 k]; simp
    rw [hv] at h1
    simp at h1
  · have hg : Aᵀ * A * V = V * diagonal (fun i => w i * w i) := by
      rw [gram_of_svd hf hu, Matrix.mul_assoc, hv, Matrix.mul_one]
    funext k
    have h2 := congrFun (congrFun hg k) i
    rw [Matrix.mul_diagonal, Matrix.mul_apply] at h2
    show (Aᵀ * A) k ⬝ᵥ (fun k => V k i) = (w i * w i) * V k i
    rw [mul_comm]
    exact h2

end

/-! ### the returned singular values are unambiguous -/

namespace Svd
variable {K : Type} [Field K] [LinearOrder K] [IsStrictOrderedRing K] (sq : K → K)

local notation "𝕊" => (Gama.LS.fieldScalar sq)

/-- `vmax` of `set_inv_W` is `0` or one of the `W_j` -/
theorem vmaxOf_mem (n : Nat) (W : Nat → K) :
    @vmaxOf K 𝕊 n W = 0 ∨ ∃ j, j < n ∧ @vmaxOf K 𝕊 n W = W j := by
  unfold vmaxOf
  suffices h : ∀ (l : List Nat) (a : K), (∀ k ∈ l, k < n) → (a = 0 ∨ ∃ j, j < n ∧ a = W j) →
      (l.foldl (fun v k => if @LT.lt K (𝕊).toLT v (W k) then W k else v) a = 0 ∨
        ∃ j, j < n ∧ l.foldl (fun v k => if @LT.lt K (𝕊).toLT v (W k) then W k else v) a = W j) from
    h _ 0 (fun k hk => List.mem_range.1 hk) (Or.inl rfl)
  intro l
  induction l with
  | nil => intro a _ ha; exact ha
  | cons x xs ih =>
    intro a hl ha
    rw [List.foldl_cons]
    apply ih _ (fun k hk => hl k (List.mem_cons_of_mem _ hk))
    split
    · exact Or.inr ⟨x, hl x List.mem_cons_self, rfl⟩
    · exact ha

/-- `Unambiguous` is antitone in the tolerance -/
theorem Unambiguous.mono {tol tol' : K} {n : Nat} {W : Nat → K} (h : Unambiguous sq tol n W)
    (hτ : tol' ≤ tol) : Unambiguous sq tol' n W := by
  intro i hi
  rcases h i hi with h0 | hgt
  · exact Or.inl h0
  · exact Or.inr (lt_of_le_of_lt (mul_le_mul_of_nonneg_right hτ (vmaxOf_nonneg sq n W)) hgt)

/-- non-negative values whose squares have the gap are `Unambiguous` -/
theorem unambiguous_of_sq_gap {tol : K} (n : Nat) (W : Nat → K) (hnn : ∀ i, i < n → 0 ≤ W i)
    (h : ∀ i j, i < n → j < n → W i * W i = 0 ∨ tol * tol * (W j * W j) < W i * W i) :
    Unambiguous sq tol n W := by
  intro i hi
  by_cases hi0 : W i = 0
  · exact Or.inl hi0
  right
  have hpos : 0 < W i := lt_of_le_of_ne (hnn i hi) (Ne.symm hi0)
  rw [abs_of_pos hpos]
  rcases vmaxOf_mem sq n W with h0 | ⟨j, hj, e⟩
  · rw [h0, mul_zero]; exact hpos
  · rw [e]
    rcases h i j hi hj with h0 | hgt
    · exact absurd (mul_self_eq_zero.1 h0) hi0
    · exact lt_of_sq_lt (le_of_lt hpos) (by
        calc tol * W j * (tol * W j) = tol * tol * (W j * W j) := by ring
          _ < W i * W i := hgt)

/-- **`singGap_unambiguous`**: under the INPUT-side hypothesis `SingGap A 1 τ` the singular values
    returned by the model of `SVD::svd()` — whenever it returns — are unambiguous at every tolerance
    `tol ≤ τ` (in particular at the model's own `Svd.wTol`) -/
theorem singGap_unambiguous (hsq : ∀ x : K, 0 ≤ x → sq x * sq x = x) (hsq0 : ∀ x : K, 0 ≤ x → 0 ≤ sq x)
    {τ tol : K} (hτ : tol ≤ τ) (m n : Nat) (A : DMat K) (h : SingGap (toMatrix m n A) 1 τ)
    (d : Dec K) (hd : @decompose K 𝕊 m n A = .ok d) : Unambiguous sq tol n (@vget K 𝕊 d.W) := by
  have hp := decompose_cert sq hsq hsq0 m n A d hd
  refine (unambiguous_of_sq_gap sq n _ (fun i hi => hp.nonneg ⟨i, hi⟩) fun i j hi hj => ?_).mono sq hτ
  have e : (toMatrix m n A)ᵀ * (1 : Matrix (Fin m) (Fin m) K) * toMatrix m n A
      = (toMatrix m n A)ᵀ * toMatrix m n A := by rw [Matrix.mul_one]
  have hi' := eig_of_svd hp.fact hp.vtv hp.utu ⟨i, hi⟩
  have hj' := eig_of_svd hp.fact hp.vtv hp.utu ⟨j, hj⟩
  rw [← e] at hi' hj'
  exact h _ _ hi' hj'

end Svd

/-! ### the same condition in terms of singular values -/

section
variable {K : Type} [Field K] [LinearOrder K] [IsStrictOrderedRing K] {m n : ℕ}
variable {A : Matrix (Fin m) (Fin n) K} {P W : Matrix (Fin m) (Fin m) K} {τ : K}

/-- **`SingGap` spelled with singular values**: given a square root, weights `P = WᵀW` and `0 ≤ τ`, the
    condition says: every `σ ≥ 0` with `σ²` an eigenvalue of `AᵀPA` is `0` or `> τ·ρ` for every such `ρ` -/
theorem singGap_iff_sing {sq : K → K} (hsq : ∀ x : K, 0 ≤ x → sq x * sq x = x) (hsq0 : ∀ x : K, 0 ≤ x → 0 ≤ sq x)
    (hW : Wᵀ * W = P) (hτ : 0 ≤ τ) :
    SingGap A P τ ↔ ∀ σ ρ : K, 0 ≤ σ → 0 ≤ ρ → IsEig (Aᵀ * P * A) (σ * σ) → IsEig (Aᵀ * P * A) (ρ * ρ) →
      σ = 0 ∨ τ * ρ < σ := by
  constructor
  · intro h σ ρ hσ hρ hl hm
    rcases h _ _ hl hm with h0 | hgt
    · exact Or.inl (mul_self_eq_zero.1 h0)
    · exact Or.inr (lt_of_sq_lt hσ (by
        calc τ * ρ * (τ * ρ) = τ * τ * (ρ * ρ) := by ring
          _ < σ * σ := hgt))
  · intro h lam mu hl hm
    have hl0 := hl.nonneg_of_gram hW
    have hm0 := hm.nonneg_of_gram hW
    rw [← hsq lam hl0] at hl
    rw [← hsq mu hm0] at hm
    rcases h (sq lam) (sq mu) (hsq0 _ hl0) (hsq0 _ hm0) hl hm with h0 | hgt
    · left; rw [← hsq lam hl0, h0, mul_zero]
    · right
      have hnn : 0 ≤ τ * sq mu := mul_nonneg hτ (hsq0 _ hm0)
      calc τ * τ * mu = τ * τ * (sq mu * sq mu) := by rw [hsq mu hm0]
        _ = τ * sq mu * (τ * sq mu) := by ring
        _ < sq lam * sq lam := mul_lt_mul'' hgt hgt hnn hnn
        _ = lam := hsq lam hl0

/-! ### relation to `RankGap` -/

/-- with ALL unknowns in the regularisation subset the margin half of `RankGap` is automatic
    (`τ² < 1`): the single hypothesis of envelope/cholesky/gso reduces to the pivot gap -/
theorem rankGap_univ_iff (hτ : τ * τ < 1) :
    RankGap A P (Finset.univ : Finset (Fin n)) τ ↔ GapAllP A P τ :=
  ⟨fun h => h.1, fun h => ⟨h, SMargin.univ hτ⟩⟩

end

/-! ### neither first-stage condition implies the other -/

section
open Matrix

theorem isEig_one_iff (c lam : ℚ) : IsEig (!![c] : Matrix (Fin 1) (Fin 1) ℚ) lam ↔ lam = c := by
  constructor
  · rintro ⟨v, hv, he⟩
    have h0 : v 0 ≠ 0 := by
      intro h; apply hv; funext i; fin_cases i; exact h
    have := congrFun he 0
    simp [Matrix.mulVec, dotProduct] at this
    rcases this with h | h
    · exact h.symm
    · exact absurd h h0
  · rintro rfl
    exact ⟨fun _ => 1, fun h => by have := congrFun h 0; simp at this, by
      funext i; fin_cases i; simp [Matrix.mulVec, dotProduct]⟩

/-- **`SingGap` does not imply the pivot gap**: `A = [1/2]`, `τ = 1/2` — the only singular value `1/2`
    dominates itself, but the pivot `1/4` is neither `0` nor `> 1/2` (the pivot gap is absolute) -/
theorem singGap_not_gapAll :
    SingGap (!![1/2] : Matrix (Fin 1) (Fin 1) ℚ) 1 (1/2)
      ∧ ¬ GapAllP (!![1/2] : Matrix (Fin 1) (Fin 1) ℚ) 1 (1/2) := by
  have e : (!![1/2] : Matrix (Fin 1) (Fin 1) ℚ)ᵀ * 1 * !![1/2] = !![1/4] := by
    ext i j; fin_cases i; fin_cases j; simp [Matrix.mul_apply]; norm_num
  refine ⟨fun lam mu hl hm => ?_, fun h => ?_⟩
  · rw [e, isEig_one_iff] at hl hm
    subst hl hm
    right; norm_num
  · have := h 0 (fun _ => 1) rfl (fun j hj => absurd (Subsingleton.elim j 0) hj)
    simp [Matrix.mulVec, dotProduct] at this
    norm_num at this

/-- **the pivot gap does not imply `SingGap`**: `A = diag(4, 1)`, `τ = 1/2` — both pivots (16 and 1, in
    either order) exceed `1/2`, but the singular value `1` is not `> 1/2 · 4` -/
theorem gapAll_not_singGap :
    GapAllP (!![4, 0; 0, 1] : Matrix (Fin 2) (Fin 2) ℚ) 1 (1/2)
      ∧ ¬ SingGap (!![4, 0; 0, 1] : Matrix (Fin 2) (Fin 2) ℚ) 1 (1/2) := by
  constructor
  · intro k β hk horth
    right
    have hAt : ∀ j, ((!![4, 0; 0, 1] : Matrix (Fin 2) (Fin 2) ℚ)ᵀ *ᵥ
        ((1 : Matrix (Fin 2) (Fin 2) ℚ) *ᵥ ((!![4, 0; 0, 1] : Matrix (Fin 2) (Fin 2) ℚ) *ᵥ β))) j
        = if j = 0 then 16 * β 0 else β 1 := by
      intro j
      fin_cases j <;> simp [Matrix.mulVec, dotProduct, Fin.sum_univ_two] <;> ring
    have hq : ((!![4, 0; 0, 1] : Matrix (Fin 2) (Fin 2) ℚ) *ᵥ β) ⬝ᵥ
        ((1 : Matrix (Fin 2) (Fin 2) ℚ) *ᵥ ((!![4, 0; 0, 1] : Matrix (Fin 2) (Fin 2) ℚ) *ᵥ β))
        = 16 * (β 0 * β 0) + β 1 * β 1 := by
      simp [Matrix.mulVec, dotProduct, Fin.sum_univ_two]; ring
    rw [hq]
    fin_cases k
    · have hk' : β 0 = 1 := hk
      have h1 : β 1 = 0 := by
        by_contra hne
        have := horth 1 (by decide) hne
        rw [hAt] at this
        simp at this
        exact hne this
      rw [hk', h1]; norm_num
    · have hk' : β 1 = 1 := hk
      have h0 : β 0 = 0 := by
        by_contra hne
        have := horth 0 (by decide) hne
        rw [hAt] at this
        simp at this
        exact hne this
      rw [hk', h0]; norm_num
  · intro h
    have e : (!![4, 0; 0, 1] : Matrix (Fin 2) (Fin 2) ℚ)ᵀ * 1 * !![4, 0; 0, 1] = !![16, 0; 0, 1] := by
      ext i j; fin_cases i <;> fin_cases j <;> simp [Matrix.mul_apply, Fin.sum_univ_two] <;> norm_num
    rw [SingGap, e] at h
    have h1 : IsEig (!![16, 0; 0, 1] : Matrix (Fin 2) (Fin 2) ℚ) 1 :=
      ⟨![0, 1], fun h => by have := congrFun h 1; simp at this, by
        funext i; fin_cases i <;> simp [Matrix.mulVec, dotProduct, Fin.sum_univ_two]⟩
    have h16 : IsEig (!![16, 0; 0, 1] : Matrix (Fin 2) (Fin 2) ℚ) 16 :=
      ⟨![1, 0], fun h => by have := congrFun h 0; simp at this, by
        funext i; fin_cases i <;> simp [Matrix.mulVec, dotProduct, Fin.sum_univ_two]⟩
    rcases h 1 16 h1 h16 with h0 | hgt
    · norm_num at h0
    · norm_num at hgt

end

end Gama.Ls
