/-
  `Adj::q_bb(i,j) = Σ_{jn} a_j,jn · (Σ_{in} a_i,in · q0_xx(in, jn))` over the ORIGINAL sparse rows
  equals `(A Q Aᵀ)(i,j)` for the matrix `Q` the solver's `q0_xx` reports.
-/
import Gama.Lemmas.Ls.AdjDense

namespace Gama.Ls
open Finset Dn AdjM Matrix Gama.LS

set_option linter.unusedSectionVars false
set_option linter.unusedVariables false

theorem foldlM_except_ok {α σ : Type} (l : List α) (F : σ → α → Except ErrKind σ) (G : σ → α → σ)
    (h : ∀ s, ∀ x ∈ l, F s x = .ok (G s x)) (init : σ) : l.foldlM F init = .ok (l.foldl G init) := by
  induction l generalizing init with
  | nil => rfl
  | cons x l ih =>
    rw [List.foldlM_cons, h init x (by simp)]
    show l.foldlM F (G init x) = _
    rw [ih (fun s y hy => h s y (by simp [hy])), List.foldl_cons]

section
variable {K : Type} [Field K] [LinearOrder K] [IsStrictOrderedRing K] [SqrtFn K]
attribute [local instance 2000] scalarOfField

theorem adj_qbb_spec (p : Problem K) (hrows : RowsOK p) (q0 : Nat → Nat → Except ErrKind K)
    (Q : Matrix (Fin p.n) (Fin p.n) K) (hq : ∀ i j : Fin p.n, q0 (i.val + 1) (j.val + 1) = .ok (Q i j))
    (i j : Fin p.m) : qbb p q0 (i.val + 1) (j.val + 1) = .ok ((p.A * Q * p.Aᵀ) i j) := by
  unfold qbb
  rw [if_pos ⟨by omega, by have := i.isLt; omega, by omega, by have := j.isLt; omega⟩]
  simp only [Nat.add_sub_cancel]
  have hri := hrows i.val i.isLt
  have hrj := hrows j.val j.isLt
  let Qf : Nat → Nat → K := fun l c => if h : l < p.n ∧ c < p.n then Q ⟨l, h.1⟩ ⟨c, h.2⟩ else 0
  have hqf : ∀ c1 c2, 1 ≤ c1 → c1 ≤ p.n → 1 ≤ c2 → c2 ≤ p.n → q0 c1 c2 = .ok (Qf (c1 - 1) (c2 - 1)) := by
    intro c1 c2 h1 h2 h3 h4
    have := hq ⟨c1 - 1, by omega⟩ ⟨c2 - 1, by omega⟩
    simp only at this
    rw [show c1 - 1 + 1 = c1 by omega, show c2 - 1 + 1 = c2 by omega] at this
    rw [this]
    simp only [Qf]
    rw [dif_pos ⟨by omega, by omega⟩]
  rw [← Array.foldlM_toList]
  have hinner : ∀ cj ∈ (p.rows.getD j.val #[]).toList,
      (p.rows.getD i.val #[]).foldlM (fun (t : K) (ci : Nat × K) => do
            let q ← q0 ci.1 cj.1
            pure (t + ci.2 * q)) (0 : K)
        = .ok ((p.rows.getD i.val #[]).toList.foldl
            (fun (t : K) (ci : Nat × K) => t + ci.2 * Qf (ci.1 - 1) (cj.1 - 1)) 0) := by
    intro cj hcj
    rw [← Array.foldlM_toList]
    apply foldlM_except_ok
    intro s ci hci
    obtain ⟨a1, a2⟩ := hri ci hci
    obtain ⟨b1, b2⟩ := hrj cj hcj
    rw [hqf ci.1 cj.1 a1 a2 b1 b2]
    rfl
  rw [foldlM_except_ok (p.rows.getD j.val #[]).toList _
    (fun (sum : K) (cj : Nat × K) => sum + cj.2 *
      ((p.rows.getD i.val #[]).toList.foldl (fun (t : K) (ci : Nat × K) => t + ci.2 * Qf (ci.1 - 1) (cj.1 - 1)) 0))
    (by
      intro s cj hcj
      rw [hinner cj hcj]
      rfl)]
  congr 1
  -- turn both sparse sums into dense ones
  have hin : ∀ c, (p.rows.getD i.val #[]).toList.foldl (fun (t : K) (ci : Nat × K) => t + ci.2 * Qf (ci.1 - 1) c) 0
      = ∑ l ∈ range p.n, mget p.dense i.val l * Qf l c := by
    intro c
    rw [← rowDense_dot' p.n _ (fun l => Qf l c) hri]
    exact Finset.sum_congr rfl fun l _ => by rw [mget_dense]
  have hout := rowDense_dot' p.n (p.rows.getD j.val #[]).toList
    (fun c => ∑ l ∈ range p.n, mget p.dense i.val l * Qf l c) hrj
  have e1 : (p.rows.getD j.val #[]).toList.foldl (fun (sum : K) (cj : Nat × K) => sum + cj.2 *
      ((p.rows.getD i.val #[]).toList.foldl (fun (t : K) (ci : Nat × K) => t + ci.2 * Qf (ci.1 - 1) (cj.1 - 1)) 0)) 0
      = (p.rows.getD j.val #[]).toList.foldl (fun (s : K) (cv : Nat × K) => s + cv.2 *
          (fun c => ∑ l ∈ range p.n, mget p.dense i.val l * Qf l c) (cv.1 - 1)) 0 := by
    congr 1
    funext s cj
    rw [hin]
  rw [e1, ← hout, Matrix.mul_apply]
  rw [← Fin.sum_univ_eq_sum_range (fun c => vget (rowDense p.n (p.rows.getD j.val #[]).toList) c *
    ∑ l ∈ range p.n, mget p.dense i.val l * Qf l c) p.n]
  refine Finset.sum_congr rfl fun c _ => ?_
  rw [Matrix.transpose_apply, Matrix.mul_apply, mul_comm]
  congr 1
  · rw [← Fin.sum_univ_eq_sum_range (fun l => mget p.dense i.val l * Qf l c.val) p.n]
    refine Finset.sum_congr rfl fun l _ => ?_
    simp only [Qf]
    rw [dif_pos ⟨l.isLt, c.isLt⟩]
    rfl
  · rw [← mget_dense]; rfl

end
end Gama.Ls
