/-
  The in-place triangular sweep `Dn.sweep` (forward / backward substitution, division by the
  pivots, `Adj::forwardSubstitution`) computes the solution of its triangular recurrence.
-/
import Gama.Lemmas.Ls.CholBasic

namespace Gama.Ls
open Finset Dn

set_option linter.unusedSectionVars false
set_option linter.unusedVariables false

section
variable {K : Type} [Field K] [LinearOrder K] [IsStrictOrderedRing K] [SqrtFn K]
attribute [local instance 2000] scalarOfField

/-- value the sweep assigns at position `ii`, in terms of the FINAL vector `y` -/
def sweepVal (idx : Nat → Nat) (lo hi : Nat → Nat) (coef : Nat → Nat → K) (dv : Nat → Option K)
    (x y : Array K) (ii : Nat) : K :=
  match dv ii with
  | some d => (vget x (idx ii) - ∑ jj ∈ Ico (lo ii) (hi ii), coef ii jj * vget y (idx jj)) / d
  | none => vget x (idx ii) - ∑ jj ∈ Ico (lo ii) (hi ii), coef ii jj * vget y (idx jj)

theorem sweep_spec (idx : Nat → Nat) (lo hi : Nat → Nat) (coef : Nat → Nat → K) (dv : Nat → Option K)
    (n N : Nat)
    (hidx : ∀ k, k < N → idx k < n)
    (hinj : ∀ k l, k < N → l < N → idx k = idx l → k = l) :
    ∀ (order : List Nat) (x : Array K), x.size = n →
      (∀ ii ∈ order, ii < N ∧ hi ii ≤ N ∧ ii ∉ Ico (lo ii) (hi ii)) →
      order.Pairwise (fun a b => a ≠ b ∧ b ∉ Ico (lo a) (hi a)) →
      (sweep order idx lo hi coef dv x).size = n ∧
      (∀ ii ∈ order, vget (sweep order idx lo hi coef dv x) (idx ii)
          = sweepVal idx lo hi coef dv x (sweep order idx lo hi coef dv x) ii) ∧
      (∀ u, (∀ ii ∈ order, u ≠ idx ii) → vget (sweep order idx lo hi coef dv x) u = vget x u) := by
  intro order
  induction order with
  | nil => intro x hx _ _; exact ⟨hx, by simp, fun u _ => rfl⟩
  | cons a rest ih =>
    intro x hx hord hpw
    obtain ⟨haN, hhia, hself⟩ := hord a (List.mem_cons_self)
    have hrest : ∀ ii ∈ rest, ii < N ∧ hi ii ≤ N ∧ ii ∉ Ico (lo ii) (hi ii) :=
      fun ii h => hord ii (List.mem_cons_of_mem _ h)
    obtain ⟨hpa, hpr⟩ := List.pairwise_cons.1 hpw
    -- first step
    set va : K := (match dv a with
      | some d => (subFrom (vget x (idx a)) (lo a) (hi a) fun jj => coef a jj * vget x (idx jj)) / d
      | none => subFrom (vget x (idx a)) (lo a) (hi a) fun jj => coef a jj * vget x (idx jj)) with hva
    set x1 := x.setIfInBounds (idx a) va with hx1
    have hsw : sweep (a :: rest) idx lo hi coef dv x = sweep rest idx lo hi coef dv x1 := by
      unfold sweep; rw [List.foldl_cons]; congr 1
    have hx1s : x1.size = n := by rw [hx1]; simp [hx]
    obtain ⟨hsz, hval, hframe⟩ := ih x1 hx1s hrest hpr
    rw [hsw]
    set y := sweep rest idx lo hi coef dv x1 with hy
    have hx1get : ∀ u, vget x1 u = if idx a = u then va else vget x u := by
      intro u
      rw [hx1, vget_set]
      by_cases h : idx a = u
      · have : u < x.size := by rw [hx, ← h]; exact hidx a haN
        simp [h, this]
      · simp [h]
    have hne : ∀ ii ∈ rest, idx a ≠ idx ii := by
      intro ii hii e
      have := hinj a ii haN (hrest ii hii).1 e
      exact (hpa ii hii).1 this
    have hya : vget y (idx a) = va := by
      rw [hframe (idx a) (fun ii hii => hne ii hii), hx1get, if_pos rfl]
    have hdep : ∀ jj ∈ Ico (lo a) (hi a), vget y (idx jj) = vget x (idx jj) := by
      intro jj hjj
      have hjN : jj < N := by have := (Finset.mem_Ico.1 hjj).2; omega
      have hja : jj ≠ a := fun e => hself (e ▸ hjj)
      have hjr : ∀ ii ∈ rest, idx jj ≠ idx ii := by
        intro ii hii e
        have := hinj jj ii hjN (hrest ii hii).1 e
        exact (hpa ii hii).2 (this ▸ hjj)
      rw [hframe (idx jj) hjr, hx1get, if_neg]
      intro e
      exact hja (hinj a jj haN hjN e).symm
    refine ⟨hsz, ?_, ?_⟩
    · intro ii hii
      rcases List.mem_cons.1 hii with rfl | hii'
      · rw [hya, hva]
        unfold sweepVal
        have hs : (subFrom (vget x (idx ii)) (lo ii) (hi ii) fun jj => coef ii jj * vget x (idx jj))
            = vget x (idx ii) - ∑ jj ∈ Ico (lo ii) (hi ii), coef ii jj * vget y (idx jj) := by
          rw [subFrom_eq]
          congr 1
          exact Finset.sum_congr rfl fun jj hjj => by rw [hdep jj hjj]
        cases hdv : dv ii with
        | none => simp only [hs]
        | some d => simp only [hs]
      · rw [hval ii hii']
        unfold sweepVal
        have : vget x1 (idx ii) = vget x (idx ii) := by rw [hx1get, if_neg (hne ii hii')]
        rw [this]
    · intro u hu
      rw [hframe u (fun ii hii => hu ii (List.mem_cons_of_mem _ hii)), hx1get,
        if_neg (fun e => hu a (List.mem_cons_self) e.symm)]

end
end Gama.Ls
