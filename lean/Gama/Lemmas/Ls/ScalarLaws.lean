/-
  Connection between the bare `Scalar` signature of the executable models and ordered
  fields (DESIGN §3.1).

  * `fieldScalar sq` : the `Scalar` structure read off an ordered field `K` with a chosen
    function `sq` in the role of the square root.  Its operations ARE the field's
    (definitionally); the `scalar_simp` lemmas rewrite model terms into field terms.
  * `LawfulScalar S` : hypothesis bundle saying that an arbitrary `S : Scalar K` computes the
    field operations; `LawfulScalar.eq_fieldScalar` shows that such an `S` is *equal* to
    `fieldScalar S.sqrt`, so every theorem proved for `fieldScalar` holds for every lawful
    scalar structure.
  * `IsSqrt sq` : `0 ≤ x → sq x * sq x = x ∧ 0 ≤ sq x`.
-/
import Gama.Scalar
import Gama.Lemmas.LS.Bridge
import Mathlib.Algebra.Order.Field.Basic
import Mathlib.Algebra.Order.AbsoluteValue.Basic
import Mathlib.Tactic.Ring
import Mathlib.Tactic.Linarith

namespace Gama

set_option linter.unusedSectionVars false
variable {K : Type} [Field K] [LinearOrder K] [IsStrictOrderedRing K]

/-- the `Scalar` signature of an ordered field; `sq` plays the square root.
    This IS the LS layer's `Gama.LS.fieldScalar` (`Lemmas/LS/Bridge.lean`), so that the
    per-algorithm theorems of all solver builders talk about the same instance. -/
@[reducible] def fieldScalar (sq : K → K) : Scalar K := Gama.LS.fieldScalar sq

/-- `sq` is a square root on the non-negative elements -/
structure IsSqrt (sq : K → K) : Prop where
  mul_self : ∀ x, 0 ≤ x → sq x * sq x = x
  nonneg : ∀ x, 0 ≤ x → 0 ≤ sq x

section simp
variable (sq : K → K)

@[simp] theorem fs_add (a b : K) : @HAdd.hAdd K K K (@instHAdd K (fieldScalar sq).toAdd) a b = a + b := rfl
@[simp] theorem fs_sub (a b : K) : @HSub.hSub K K K (@instHSub K (fieldScalar sq).toSub) a b = a - b := rfl
@[simp] theorem fs_mul (a b : K) : @HMul.hMul K K K (@instHMul K (fieldScalar sq).toMul) a b = a * b := rfl
@[simp] theorem fs_div (a b : K) : @HDiv.hDiv K K K (@instHDiv K (fieldScalar sq).toDiv) a b = a / b := rfl
@[simp] theorem fs_neg (a : K) : @Neg.neg K (fieldScalar sq).toNeg a = -a := rfl
@[simp] theorem fs_zero : @OfNat.ofNat K 0 (@Zero.toOfNat0 K (fieldScalar sq).toZero) = 0 := rfl
@[simp] theorem fs_one : @OfNat.ofNat K 1 (@One.toOfNat1 K (fieldScalar sq).toOne) = 1 := rfl
@[simp] theorem fs_lt (a b : K) : @LT.lt K (fieldScalar sq).toLT a b ↔ a < b := Iff.rfl
@[simp] theorem fs_le (a b : K) : @LE.le K (fieldScalar sq).toLE a b ↔ a ≤ b := Iff.rfl
@[simp] theorem fs_beq (a b : K) : @Scalar.beq K (fieldScalar sq) a b = decide (a = b) := rfl
@[simp] theorem fs_abs (a : K) : @Scalar.abs K (fieldScalar sq) a = |a| := by
  show (if a < 0 then -a else a) = |a|
  split
  · next h => exact (abs_of_neg h).symm
  · next h => exact (abs_of_nonneg (not_lt.1 h)).symm
@[simp] theorem fs_sqrt (a : K) : @Scalar.sqrt K (fieldScalar sq) a = sq a := rfl
@[simp] theorem fs_ofNat (n : Nat) : @Scalar.ofNat K (fieldScalar sq) n = (n : K) := rfl

end simp

/-- an arbitrary scalar structure on an ordered field that computes the field operations -/
structure LawfulScalar (S : Scalar K) : Prop where
  add : ∀ a b : K, S.add a b = a + b
  sub : ∀ a b : K, S.sub a b = a - b
  mul : ∀ a b : K, S.mul a b = a * b
  div : ∀ a b : K, S.div a b = a / b
  neg : ∀ a : K, S.neg a = -a
  zero : S.zero = 0
  one : S.one = 1
  lt : ∀ a b : K, S.lt a b ↔ a < b
  le : ∀ a b : K, S.le a b ↔ a ≤ b
  ofNat : ∀ n, S.ofNat n = (n : K)
  ofSci : ∀ m s e, S.ofSci m s e = OfScientific.ofScientific m s e
  beq : ∀ a b : K, S.beq a b = decide (a = b)
  abs : ∀ a : K, S.abs a = |a|

theorem fieldScalar_lawful (sq : K → K) : LawfulScalar (fieldScalar sq) :=
  ⟨fun _ _ => rfl, fun _ _ => rfl, fun _ _ => rfl, fun _ _ => rfl, fun _ => rfl, rfl, rfl,
   fun _ _ => Iff.rfl, fun _ _ => Iff.rfl, fun _ => rfl, fun _ _ _ => rfl, fun _ _ => rfl, fs_abs sq⟩

/-- a lawful scalar structure IS the field's: theorems about `fieldScalar` cover all of them -/
theorem LawfulScalar.eq_fieldScalar {S : Scalar K} (h : LawfulScalar S) : S = fieldScalar S.sqrt := by
  obtain @⟨⟨addS⟩, ⟨subS⟩, ⟨mulS⟩, ⟨divS⟩, ⟨negS⟩, ⟨zeroS⟩, ⟨oneS⟩, ⟨ltS⟩, ⟨leS⟩,
    sqrtS, ofNatS, ofSciS, decLtS, decLeS, beqS, absS⟩ := S
  obtain rfl : addS = (· + ·) := by funext a b; exact h.add a b
  obtain rfl : subS = (· - ·) := by funext a b; exact h.sub a b
  obtain rfl : mulS = (· * ·) := by funext a b; exact h.mul a b
  obtain rfl : divS = (· / ·) := by funext a b; exact h.div a b
  obtain rfl : negS = (- ·) := by funext a; exact h.neg a
  obtain rfl : zeroS = 0 := h.zero
  obtain rfl : oneS = 1 := h.one
  obtain rfl : ltS = (· < ·) := by funext a b; exact propext (h.lt a b)
  obtain rfl : leS = (· ≤ ·) := by funext a b; exact propext (h.le a b)
  have h10 : ofNatS = fun (n : Nat) => (n : K) := by funext n; exact h.ofNat n
  have h11 : ofSciS = fun m s e => (OfScientific.ofScientific m s e : K) := by
    funext m s e; exact h.ofSci m s e
  have h12 : beqS = fun a b => decide (a = b) := by funext a b; exact h.beq a b
  have h13 : absS = @Scalar.abs K (fieldScalar sqrtS) := by
    funext a; exact (h.abs a).trans (fs_abs sqrtS a).symm
  have e1 : decLtS = (fieldScalar sqrtS).decLt := Subsingleton.elim _ _
  have e2 : decLeS = (fieldScalar sqrtS).decLe := Subsingleton.elim _ _
  clear h
  subst h10; subst h11; subst h12; subst h13; subst e1; subst e2
  rfl

end Gama
