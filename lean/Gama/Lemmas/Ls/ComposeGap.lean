/-
  "Rank numerically unambiguous" stated ONCE, on exact quantities of the design matrix `A`
  (CLAUSES.md cross-cutting item 6, C01 row 9 / "Missing 3").

  `GapAll A τ`: every exact Schur-complement pivot of `AᵀA`, in ANY pivot order, is exactly 0 or
  larger than `τ`.  Formulation without determinants: for every column `k` and every vector `β`
  with `β k = 1` such that the residual `A β` (column `k` minus a combination of the columns
  `J = supp β \ {k}`) is orthogonal to every column of `J`, the squared norm `‖A β‖²` is 0 or `> τ`.
  (`A β` is then the residual of the orthogonal projection of column `k` on `span J`; its squared
  norm is the pivot of column `k` after eliminating the columns `J` from `AᵀA`.)

  `GapOrd A τ σ`: the same for the pivots of ONE elimination order `σ` (columns `σ 0, σ 1, …`):
  the unnormalised Gram–Schmidt vectors of the columns in that order.  `GapOrd p.A τ (refl)` with
  `τ = tolerance²` is `Gso.GapCols p` (`ComposeGapGso.lean`).

  `GapAll A τ → ∀ σ, GapOrd A τ σ`; both are antitone in `τ`.

  The solver-specific consequences are in `ComposeGapEnv.lean` (envelope: `FactUnambiguous`),
  `ComposeGapChol.lean` (cholesky: `UnambiguousF`), `ComposeGapGso.lean` (gso: `GapCols`).
-/
import Mathlib.Data.Matrix.Mul
import Mathlib.LinearAlgebra.Matrix.Notation
import Mathlib.Algebra.Order.Field.Basic
import Mathlib.Algebra.Order.Field.Rat
import Mathlib.Algebra.BigOperators.Fin
import Mathlib.Tactic.Ring
import Mathlib.Tactic.Linarith
import Mathlib.Tactic.NormNum
import Mathlib.Tactic.FinCases

namespace Gama.Ls
open Matrix Finset

set_option linter.unusedSectionVars false

variable {K : Type} [Field K] [LinearOrder K] [IsStrictOrderedRing K] {m n : ℕ}

/-- every exact Schur-complement pivot of `AᵀA`, in ANY pivot order, is 0 or larger than `τ`:
    for every column `k` and every `β` with `β k = 1` whose residual `A β` is orthogonal to every
    other column it uses, `‖A β‖²` is exactly 0 or `> τ` -/
def GapAll (A : Matrix (Fin m) (Fin n) K) (τ : K) : Prop :=
  ∀ (k : Fin n) (β : Fin n → K), β k = 1 →
    (∀ j, j ≠ k → β j ≠ 0 → (Aᵀ *ᵥ (A *ᵥ β)) j = 0) →
    (A *ᵥ β) ⬝ᵥ (A *ᵥ β) = 0 ∨ τ < (A *ᵥ β) ⬝ᵥ (A *ᵥ β)

/-- the pivots of the elimination order `σ 0, σ 1, …`: the unnormalised Gram–Schmidt vector of
    column `σ i` against the columns `σ j`, `j < i`, has squared norm 0 or `> τ` -/
def GapOrd (A : Matrix (Fin m) (Fin n) K) (τ : K) (σ : Fin n ≃ Fin n) : Prop :=
  ∀ (i : Fin n) (β : Fin n → K), β (σ i) = 1 → (∀ j, i < j → β (σ j) = 0) →
    (∀ j, j < i → (Aᵀ *ᵥ (A *ᵥ β)) (σ j) = 0) →
    (A *ᵥ β) ⬝ᵥ (A *ᵥ β) = 0 ∨ τ < (A *ᵥ β) ⬝ᵥ (A *ᵥ β)

variable {A : Matrix (Fin m) (Fin n) K} {τ τ' : K}

/-- the order-independent hypothesis gives the one of every order -/
theorem GapAll.ord (h : GapAll A τ) (σ : Fin n ≃ Fin n) : GapOrd A τ σ := by
  intro i β h1 h2 h3
  refine h (σ i) β h1 fun j hj hβ => ?_
  obtain ⟨j', rfl⟩ := σ.surjective j
  have hne : j' ≠ i := fun e => hj (by rw [e])
  rcases lt_or_gt_of_ne hne with hlt | hgt
  · exact h3 j' hlt
  · exact absurd (h2 j' hgt) hβ

theorem GapAll.mono (h : GapAll A τ) (hτ : τ' ≤ τ) : GapAll A τ' := by
  intro k β h1 h2
  rcases h k β h1 h2 with h0 | hgt
  · exact Or.inl h0
  · exact Or.inr (lt_of_le_of_lt hτ hgt)

theorem GapOrd.mono {σ : Fin n ≃ Fin n} (h : GapOrd A τ σ) (hτ : τ' ≤ τ) : GapOrd A τ' σ := by
  intro i β h1 h2 h3
  rcases h i β h1 h2 h3 with h0 | hgt
  · exact Or.inl h0
  · exact Or.inr (lt_of_le_of_lt hτ hgt)

/-- `A` with its columns renumbered by `σ`, natural order = `A` in the order `σ` -/
theorem GapOrd.submatrix {σ : Fin n ≃ Fin n} (h : GapOrd A τ σ) :
    GapOrd (A.submatrix id σ) τ (Equiv.refl _) := by
  intro i β h1 h2 h3
  have hmul : (A.submatrix id σ) *ᵥ β = A *ᵥ (β ∘ σ.symm) := by
    ext r
    simp only [mulVec, dotProduct, submatrix_apply, id_eq, Function.comp_apply]
    exact (Equiv.sum_comp σ.symm (fun j => A r (σ j) * β j)).symm.trans
      (Fintype.sum_congr _ _ fun j => by simp)
  have htr : ∀ (w : Fin m → K) (j : Fin n), ((A.submatrix id σ)ᵀ *ᵥ w) j = (Aᵀ *ᵥ w) (σ j) :=
    fun _ _ => rfl
  rw [hmul]
  refine h i (β ∘ σ.symm) ?_ ?_ ?_
  · simpa using h1
  · intro j hj; simpa using h2 j hj
  · intro j hj
    have := h3 j hj
    rw [Equiv.refl_apply, htr, hmul] at this
    exact this

/-- a pivot is a squared norm: the dichotomy `= 0 ∨ τ < ·` with `τ ≥ 0` excludes `(0, τ]` only -/
theorem sqnorm_nonneg (v : Fin m → K) : 0 ≤ v ⬝ᵥ v :=
  Finset.sum_nonneg fun i _ => mul_self_nonneg (v i)

/-! ### non-vacuity: `A = [1 1; 0 0]` (defect 1) -/

/-- `A β = (β₀ + β₁, 0)`: a residual orthogonal to the other column it uses is 0 (pivot 0), a
    residual that uses no other column is the column itself (pivot 1) -/
theorem gapAll_example (K : Type) [Field K] [LinearOrder K] [IsStrictOrderedRing K] :
    GapAll (!![1, 1; 0, 0] : Matrix (Fin 2) (Fin 2) K) (1 / 2) := by
  intro k β hk horth
  have hAβ : ∀ r : Fin 2, ((!![1, 1; 0, 0] : Matrix (Fin 2) (Fin 2) K) *ᵥ β) r
      = (!![1, 1; 0, 0] : Matrix (Fin 2) (Fin 2) K) r 0 * β 0
        + (!![1, 1; 0, 0] : Matrix (Fin 2) (Fin 2) K) r 1 * β 1 := by
    intro r
    show ∑ j : Fin 2, _ * β j = _
    rw [Fin.sum_univ_two]
  have he : ((!![1, 1; 0, 0] : Matrix (Fin 2) (Fin 2) K) *ᵥ β)
      ⬝ᵥ ((!![1, 1; 0, 0] : Matrix (Fin 2) (Fin 2) K) *ᵥ β) = (β 0 + β 1) * (β 0 + β 1) := by
    show ∑ r : Fin 2, _ * _ = _
    rw [Fin.sum_univ_two, hAβ, hAβ]
    simp
  have hN : ∀ j : Fin 2, ((!![1, 1; 0, 0] : Matrix (Fin 2) (Fin 2) K)ᵀ
      *ᵥ ((!![1, 1; 0, 0] : Matrix (Fin 2) (Fin 2) K) *ᵥ β)) j = β 0 + β 1 := by
    intro j
    show ∑ r : Fin 2, (!![1, 1; 0, 0] : Matrix (Fin 2) (Fin 2) K)ᵀ j r * _ = _
    rw [Fin.sum_univ_two, hAβ, hAβ]
    fin_cases j <;> simp
  rw [he]
  -- the other column
  obtain ⟨j, hjk, hall⟩ : ∃ j : Fin 2, j ≠ k ∧ β 0 + β 1 = β k + β j := by
    fin_cases k
    · exact ⟨1, by decide, rfl⟩
    · exact ⟨0, by decide, add_comm _ _⟩
  by_cases hβ : β j = 0
  · right
    rw [hall, hk, hβ]; norm_num
  · left
    have := horth j hjk hβ
    rw [hN] at this
    rw [this, mul_zero]

example : GapAll (!![1, 1; 0, 0] : Matrix (Fin 2) (Fin 2) ℚ) (1 / 2) := by
  intro k β hk horth
  have hAβ : ∀ r : Fin 2, ((!![1, 1; 0, 0] : Matrix (Fin 2) (Fin 2) ℚ) *ᵥ β) r
      = (!![1, 1; 0, 0] : Matrix (Fin 2) (Fin 2) ℚ) r 0 * β 0
        + (!![1, 1; 0, 0] : Matrix (Fin 2) (Fin 2) ℚ) r 1 * β 1 := by
    intro r
    show ∑ j : Fin 2, _ * β j = _
    rw [Fin.sum_univ_two]
  have he : ((!![1, 1; 0, 0] : Matrix (Fin 2) (Fin 2) ℚ) *ᵥ β)
      ⬝ᵥ ((!![1, 1; 0, 0] : Matrix (Fin 2) (Fin 2) ℚ) *ᵥ β) = (β 0 + β 1) * (β 0 + β 1) := by
    show ∑ r : Fin 2, _ * _ = _
    rw [Fin.sum_univ_two, hAβ, hAβ]
    simp
  have hN : ∀ j : Fin 2, ((!![1, 1; 0, 0] : Matrix (Fin 2) (Fin 2) ℚ)ᵀ
      *ᵥ ((!![1, 1; 0, 0] : Matrix (Fin 2) (Fin 2) ℚ) *ᵥ β)) j = β 0 + β 1 := by
    intro j
    show ∑ r : Fin 2, (!![1, 1; 0, 0] : Matrix (Fin 2) (Fin 2) ℚ)ᵀ j r * _ = _
    rw [Fin.sum_univ_two, hAβ, hAβ]
    fin_cases j <;> simp
  rw [he]
  -- the other column
  obtain ⟨j, hjk, hall⟩ : ∃ j : Fin 2, j ≠ k ∧ β 0 + β 1 = β k + β j := by
    fin_cases k
    · exact ⟨1, by decide, rfl⟩
    · exact ⟨0, by decide, add_comm _ _⟩
  by_cases hβ : β j = 0
  · right
    rw [hall, hk, hβ]; norm_num
  · left
    have := horth j hjk hβ
    rw [hN] at this
    rw [this, mul_zero]

example : GapAll (!![1, 1; 0, 0] : Matrix (Fin 2) (Fin 2) ℚ) (1 / 2)
    ∧ ∀ σ, GapOrd (!![1, 1; 0, 0] : Matrix (Fin 2) (Fin 2) ℚ) (1 / 2) σ :=
  ⟨gapAll_example ℚ, (gapAll_example ℚ).ord⟩

/-- not trivially true: the same matrix does NOT satisfy the hypothesis for `τ = 1` (pivot 1) -/
example : ¬ GapAll (!![1, 1; 0, 0] : Matrix (Fin 2) (Fin 2) ℚ) 1 := by
  intro h
  have := h 0 ![1, 0] rfl (fun j hj hβ => by fin_cases j <;> simp at hj hβ)
  have he : ((!![1, 1; 0, 0] : Matrix (Fin 2) (Fin 2) ℚ) *ᵥ ![1, 0])
      ⬝ᵥ ((!![1, 1; 0, 0] : Matrix (Fin 2) (Fin 2) ℚ) *ᵥ ![1, 0]) = 1 := by
    simp [Matrix.mulVec, dotProduct, Fin.sum_univ_two]
  rw [he] at this
  rcases this with h0 | h1
  · exact one_ne_zero h0
  · exact lt_irrefl _ h1

/-! ### non-vacuity: the levelling triangle (three columns, a genuine projection: pivot 3/2) -/

/-- the levelling triangle (rows `h₂−h₁`, `h₃−h₂`, `h₁−h₃`; defect 1, kernel `(1,1,1)`): the exact
    pivots are 2 (first column taken), 3/2 (second) and 0 (third), in every order -/
theorem gapAll_triangle (K : Type) [Field K] [LinearOrder K] [IsStrictOrderedRing K] :
    GapAll (!![-1, 1, 0; 0, -1, 1; 1, 0, -1] : Matrix (Fin 3) (Fin 3) K) 1 := by
  intro k β hk horth
  have he : ((!![-1, 1, 0; 0, -1, 1; 1, 0, -1] : Matrix (Fin 3) (Fin 3) K) *ᵥ β)
      ⬝ᵥ ((!![-1, 1, 0; 0, -1, 1; 1, 0, -1] : Matrix (Fin 3) (Fin 3) K) *ᵥ β)
      = (β 1 - β 0) * (β 1 - β 0) + (β 2 - β 1) * (β 2 - β 1) + (β 0 - β 2) * (β 0 - β 2) := by
    simp [Matrix.mulVec, dotProduct, Fin.sum_univ_three]
    ring
  have hN : ∀ j : Fin 3, ((!![-1, 1, 0; 0, -1, 1; 1, 0, -1] : Matrix (Fin 3) (Fin 3) K)ᵀ
      *ᵥ ((!![-1, 1, 0; 0, -1, 1; 1, 0, -1] : Matrix (Fin 3) (Fin 3) K) *ᵥ β)) j
      = 3 * β j - (β 0 + β 1 + β 2) := by
    intro j
    fin_cases j <;> simp [Matrix.mulVec, dotProduct, Fin.sum_univ_three] <;> ring
  have key : ∀ j : Fin 3, j = k ∨ β j = 0 ∨ 3 * β j - (β 0 + β 1 + β 2) = 0 := by
    intro j
    by_cases h1 : j = k
    · exact Or.inl h1
    by_cases h2 : β j = 0
    · exact Or.inr (Or.inl h2)
    · have := horth j h1 h2
      rw [hN] at this
      exact Or.inr (Or.inr this)
  rw [he]
  have k0 := key 0
  have k1 := key 1
  have k2 := key 2
  obtain rfl | rfl | rfl : k = 0 ∨ k = 1 ∨ k = 2 := by fin_cases k <;> simp
  · rcases k1 with h | h | h
    · exact absurd h (by decide)
    · rcases k2 with g | g | g
      · exact absurd g (by decide)
      · right; rw [hk, h, g]; norm_num
      · right
        have e : β 2 = 1 / 2 := by linarith
        rw [hk, h, e]; norm_num
    · rcases k2 with g | g | g
      · exact absurd g (by decide)
      · right
        have e : β 1 = 1 / 2 := by linarith
        rw [hk, g, e]; norm_num
      · left
        have e1 : β 1 = 1 := by linarith
        have e2 : β 2 = 1 := by linarith
        rw [hk, e1, e2]; norm_num
  · rcases k0 with h | h | h
    · exact absurd h (by decide)
    · rcases k2 with g | g | g
      · exact absurd g (by decide)
      · right; rw [hk, h, g]; norm_num
      · right
        have e : β 2 = 1 / 2 := by linarith
        rw [hk, h, e]; norm_num
    · rcases k2 with g | g | g
      · exact absurd g (by decide)
      · right
        have e : β 0 = 1 / 2 := by linarith
        rw [hk, g, e]; norm_num
      · left
        have e1 : β 0 = 1 := by linarith
        have e2 : β 2 = 1 := by linarith
        rw [hk, e1, e2]; norm_num
  · rcases k0 with h | h | h
    · exact absurd h (by decide)
    · rcases k1 with g | g | g
      · exact absurd g (by decide)
      · right; rw [hk, h, g]; norm_num
      · right
        have e : β 1 = 1 / 2 := by linarith
        rw [hk, h, e]; norm_num
    · rcases k1 with g | g | g
      · exact absurd g (by decide)
      · right
        have e : β 0 = 1 / 2 := by linarith
        rw [hk, g, e]; norm_num
      · left
        have e1 : β 0 = 1 := by linarith
        have e2 : β 1 = 1 := by linarith
        rw [hk, e1, e2]; norm_num

/-- instance over ℚ -/
example : GapAll (!![-1, 1, 0; 0, -1, 1; 1, 0, -1] : Matrix (Fin 3) (Fin 3) ℚ) 1 := gapAll_triangle ℚ

end Gama.Ls
