/-
  Gram–Schmidt invariant library (DESIGN §5.2), part 4: pure matrix algebra.

  `A` design matrix, `T` the orthogonalised upper block ("tops", columns), `C` the lower block
  ("bottoms"), `d j = ‖T(·,j)‖² ∈ {0,1}`.  From
      A * C = T,   Tᵀ * T = diagonal d,
      (state after icgs2)  d j = 0 → C(·,j) = 0,
      every column of A lies in the span of the tops (dual form `hspan`),
      (state after icgs1)  the bottoms separate points (`hsep`, C square)
  follow: Q = C Cᵀ is a symmetric positive semi-definite reflexive g-inverse of N = AᵀA,
  A Q Aᵀ = T Tᵀ is a symmetric projector; the bottoms of the zero-top columns span ker A;
  rank A = #{j | d j = 1}.
-/
import Gama.Lemmas.LS.Defs
import Mathlib.LinearAlgebra.Matrix.NonsingularInverse
import Mathlib.LinearAlgebra.Matrix.Rank

namespace Gama.Ls.GsoAlg
open Matrix Finset

set_option linter.unusedSectionVars false

variable {K : Type*} [Field K] [LinearOrder K] [IsStrictOrderedRing K]
variable {m n ι : Type*} [Fintype m] [Fintype n] [Fintype ι]
variable [DecidableEq m] [DecidableEq n] [DecidableEq ι]
variable {A : Matrix m n K} {T : Matrix m ι K} {C : Matrix n ι K} {d : ι → K}

theorem top_zero_of_d_zero (hTT : Tᵀ * T = diagonal d) (j : ι) (h : d j = 0) : ∀ r, T r j = 0 := by
  have h1 : (Tᵀ * T) j j = 0 := by rw [hTT, diagonal_apply_eq, h]
  rw [mul_apply] at h1
  simp only [transpose_apply] at h1
  intro r
  have := (sum_eq_zero_iff_of_nonneg (fun i _ => mul_self_nonneg (T i j))).1 h1 r (mem_univ r)
  exact mul_self_eq_zero.1 this

theorem T_mul_diag (hTT : Tᵀ * T = diagonal d) (hd : ∀ j, d j = 1 ∨ d j = 0) :
    T * diagonal d = T := by
  ext r j
  rw [mul_diagonal]
  rcases hd j with h | h
  · rw [h, mul_one]
  · rw [top_zero_of_d_zero hTT j h r, zero_mul]

theorem C_mul_diag (hd : ∀ j, d j = 1 ∨ d j = 0) (hC0 : ∀ j, d j = 0 → ∀ i, C i j = 0) :
    C * diagonal d = C := by
  ext i j
  rw [mul_diagonal]
  rcases hd j with h | h
  · rw [h, mul_one]
  · rw [hC0 j h i, zero_mul]

theorem diag_idem (hd : ∀ j, d j = 1 ∨ d j = 0) : diagonal d * diagonal d = diagonal d := by
  rw [diagonal_mul_diagonal]
  congr 1
  funext j
  rcases hd j with h | h <;> simp [h]

/-- `T Tᵀ` fixes every column of `A` -/
theorem proj_fix (hTT : Tᵀ * T = diagonal d) (hd : ∀ j, d j = 1 ∨ d j = 0)
    (hspan : ∀ w : m → K, (∀ j, ∑ r, T r j * w r = 0) → Aᵀ *ᵥ w = 0) : T * Tᵀ * A = A := by
  have hTd := T_mul_diag hTT hd
  -- U := A − T Tᵀ A is orthogonal to all tops
  set U := A - T * Tᵀ * A with hU
  have h1 : Tᵀ * U = 0 := by
    rw [hU, Matrix.mul_sub, ← Matrix.mul_assoc, ← Matrix.mul_assoc, hTT]
    have : diagonal d * Tᵀ = Tᵀ := by
      have := congrArg transpose hTd
      rwa [transpose_mul, diagonal_transpose] at this
    rw [this, sub_self]
  have h2 : Aᵀ * U = 0 := by
    ext c c'
    have := hspan (fun r => U r c') (fun j => by
      have := congrFun (congrFun h1 j) c'
      simpa [mul_apply] using this)
    have := congrFun this c
    simpa [mulVec, dotProduct, mul_apply] using this
  have h3 : Uᵀ * U = 0 := by
    rw [hU, transpose_sub, Matrix.sub_mul, ← hU, h2, transpose_mul, transpose_mul, transpose_transpose,
      Matrix.mul_assoc, Matrix.mul_assoc, h1, Matrix.mul_zero, Matrix.mul_zero, sub_zero]
  have h4 : U = 0 := by
    ext r c
    have := congrFun (congrFun h3 c) c
    rw [mul_apply] at this
    simp only [transpose_apply, Matrix.zero_apply] at this
    have := (sum_eq_zero_iff_of_nonneg (fun i _ => mul_self_nonneg (U i c))).1 this r (mem_univ r)
    exact mul_self_eq_zero.1 this
  rw [hU, sub_eq_zero] at h4
  exact h4.symm

theorem Q_symm : (C * Cᵀ)ᵀ = C * Cᵀ := by
  rw [transpose_mul, transpose_transpose]

theorem Q_psd (x : n → K) : 0 ≤ x ⬝ᵥ (C * Cᵀ) *ᵥ x := by
  have : x ⬝ᵥ (C * Cᵀ) *ᵥ x = (Cᵀ *ᵥ x) ⬝ᵥ (Cᵀ *ᵥ x) := by
    rw [← mulVec_mulVec, dotProduct_mulVec, ← mulVec_transpose]
  rw [this]
  exact sum_nonneg fun i _ => mul_self_nonneg _

theorem QNQ (hAC : A * C = T) (hTT : Tᵀ * T = diagonal d) (hd : ∀ j, d j = 1 ∨ d j = 0)
    (hC0 : ∀ j, d j = 0 → ∀ i, C i j = 0) :
    (C * Cᵀ) * (Aᵀ * A) * (C * Cᵀ) = C * Cᵀ := by
  have h1 : Cᵀ * Aᵀ = Tᵀ := by rw [← transpose_mul, hAC]
  calc (C * Cᵀ) * (Aᵀ * A) * (C * Cᵀ) = C * ((Cᵀ * Aᵀ) * (A * C)) * Cᵀ := by
        simp only [Matrix.mul_assoc]
    _ = C * diagonal d * Cᵀ := by rw [h1, hAC, hTT]
    _ = C * Cᵀ := by rw [C_mul_diag hd hC0]

theorem NQN (hAC : A * C = T) (hTT : Tᵀ * T = diagonal d) (hd : ∀ j, d j = 1 ∨ d j = 0)
    (hspan : ∀ w : m → K, (∀ j, ∑ r, T r j * w r = 0) → Aᵀ *ᵥ w = 0) :
    (Aᵀ * A) * (C * Cᵀ) * (Aᵀ * A) = Aᵀ * A := by
  have h1 : Cᵀ * Aᵀ = Tᵀ := by rw [← transpose_mul, hAC]
  calc (Aᵀ * A) * (C * Cᵀ) * (Aᵀ * A) = Aᵀ * ((A * C) * (Cᵀ * Aᵀ) * A) := by
        simp only [Matrix.mul_assoc]
    _ = Aᵀ * (T * Tᵀ * A) := by rw [h1, hAC]
    _ = Aᵀ * A := by rw [proj_fix hTT hd hspan]

theorem AQAt (hAC : A * C = T) : A * (C * Cᵀ) * Aᵀ = T * Tᵀ := by
  have h1 : Cᵀ * Aᵀ = Tᵀ := by rw [← transpose_mul, hAC]
  rw [← Matrix.mul_assoc, hAC, Matrix.mul_assoc, h1]

theorem hat_idem (hTT : Tᵀ * T = diagonal d) (hd : ∀ j, d j = 1 ∨ d j = 0) :
    (T * Tᵀ) * (T * Tᵀ) = T * Tᵀ := by
  calc (T * Tᵀ) * (T * Tᵀ) = T * (Tᵀ * T) * Tᵀ := by simp only [Matrix.mul_assoc]
    _ = T * Tᵀ := by rw [hTT, T_mul_diag hTT hd]

theorem hat_symm : (T * Tᵀ)ᵀ = T * Tᵀ := by
  rw [transpose_mul, transpose_transpose]

-- ------------------------------------------------------------------ square lower block

section Square
variable {T : Matrix m n K} {C : Matrix n n K} {d : n → K}

theorem C_isUnit (hsep : ∀ w : n → K, (∀ j, ∑ i, C i j * w i = 0) → w = 0) : IsUnit C := by
  rw [← isUnit_transpose, ← mulVec_injective_iff_isUnit]
  intro u v huv
  have : Cᵀ *ᵥ (u - v) = 0 := by rw [mulVec_sub, huv, sub_self]
  have h := hsep (u - v) (fun j => by
    have := congrFun this j
    simpa [mulVec, dotProduct] using this)
  exact sub_eq_zero.1 h

/-- the bottoms of the columns with zero top span the kernel of `A` -/
theorem ker_span (hAC : A * C = T) (hTT : Tᵀ * T = diagonal d)
    (hsep : ∀ w : n → K, (∀ j, ∑ i, C i j * w i = 0) → w = 0) :
    ∀ g : n → K, A *ᵥ g = 0 → ∃ c : n → K, (∀ j, d j = 1 → c j = 0) ∧ g = C *ᵥ c := by
  intro g hg
  have hu := C_isUnit hsep
  have hdet : IsUnit C.det := (isUnit_iff_isUnit_det C).1 hu
  refine ⟨C⁻¹ *ᵥ g, ?_, ?_⟩
  · intro j hj
    have h1 : T *ᵥ (C⁻¹ *ᵥ g) = 0 := by
      rw [← hAC, ← mulVec_mulVec, mulVec_mulVec g, mul_nonsing_inv C hdet, one_mulVec, hg]
    have h2 : (Tᵀ * T) *ᵥ (C⁻¹ *ᵥ g) = 0 := by rw [← mulVec_mulVec, h1, mulVec_zero]
    rw [hTT] at h2
    have := congrFun h2 j
    rw [mulVec_diagonal, hj, one_mul] at this
    exact this
  · rw [mulVec_mulVec, mul_nonsing_inv C hdet, one_mulVec]

theorem rank_eq_card (hAC : A * C = T) (hTT : Tᵀ * T = diagonal d)
    (hsep : ∀ w : n → K, (∀ j, ∑ i, C i j * w i = 0) → w = 0) :
    A.rank = Fintype.card {j // d j ≠ 0} := by
  have hdet : IsUnit C.det := (isUnit_iff_isUnit_det C).1 (C_isUnit hsep)
  classical
  rw [← rank_mul_eq_left_of_isUnit_det C A hdet, hAC, ← rank_transpose_mul_self, hTT, rank_diagonal]

end Square

end Gama.Ls.GsoAlg
