/-
  Envelope solver: the kernel columns `Env.kerCol` that `AdjEnvelope::solve_x` builds from the
  zero pivots are a basis of the kernel of the normal matrix (Gram matrix, unambiguous pivots).
-/
import Gama.Lemmas.Ls.EnvKernel
import Gama.Lemmas.Ls.EnvX0

namespace Gama.Ls.Env
open Finset

set_option linter.unusedSectionVars false

variable {K : Type} [Field K] [LinearOrder K] [IsStrictOrderedRing K] (sq : K → K)
local notation "𝔽" => fieldScalar sq

variable (N : ℕ → ℕ → K) (tol : K) (n : ℕ)

theorem IsUpper.congr {L : ℕ → ℕ → K} {n : ℕ} {w w' x : ℕ → K} (h : IsUpper L n w x) (hw : ∀ i < n, w i = w' i) :
    IsUpper L n w' x := fun i hi => by rw [h i hi, hw i hi]

/-- the right-hand side the model back-substitutes for column `col` -/
def kerTmpM (col : ℕ) : ℕ → K := fun i =>
  if i < col then @Lget K 𝔽 (@ldl K 𝔽 N tol n) col i
  else if i = col then @Dget K 𝔽 (@ldl K 𝔽 N tol n) col else @Lget K 𝔽 (@ldl K 𝔽 N tol n) i col

theorem kerTmpM_eq {col : ℕ} (hc : col < n) {i : ℕ} (hi : i < n) :
    kerTmpM sq N tol n col i = kerTmp (Lf sq N tol) (Df sq N tol) col i := by
  unfold kerTmpM kerTmp
  rw [Lget_ldl sq N tol hc, Dget_ldl sq N tol hc, Lget_ldl sq N tol hi]

/-- components of the kernel column -/
def kerF (col : ℕ) (i : ℕ) : K := @vget K 𝔽 (@kerCol K 𝔽 (@ldl K 𝔽 N tol n) n col) i

theorem kerF_eq {col : ℕ} {i : ℕ} (hi : i < n) :
    kerF sq N tol n col i = kerFix col (xf sq N tol n (kerTmpM sq N tol n col)) i := by
  unfold kerF kerCol
  simp only
  rw [vget_vecOf sq _ _ hi]
  unfold kerFix
  split
  · simp
  · rfl

theorem kerUpper {col : ℕ} (hc : col < n) :
    IsUpper (Lf sq N tol) n (kerTmp (Lf sq N tol) (Df sq N tol) col) (xf sq N tol n (kerTmpM sq N tol n col)) :=
  (isUpper_model sq (kerTmpM sq N tol n col)).congr fun _ hi => kerTmpM_eq sq N tol n hc hi

section gram
variable {N tol n}
variable {m : ℕ} {M : ℕ → ℕ → K}

/-- `N = Lu D Luᵀ` for an unambiguous Gram matrix -/
theorem gram_factor (hU : Unambiguous sq N tol n)
    (hN : ∀ i < n, ∀ j < n, N i j = ip m (fun r => M r i) (fun r => M r j)) :
    ∀ i < n, ∀ j < n, N i j = ∑ k ∈ range n, Lu (Lf sq N tol) i k * Df sq N tol k * Lu (Lf sq N tol) j k := by
  have hL := isLDL_model sq hU
  have hsym : ∀ i < n, ∀ j < n, N i j = N j i := fun i hi j hj => by
    rw [hN i hi j hj, hN j hj i hi, ip_comm]
  exact fun i hi j hj => hL.factor_entry (gram_zeroCols hN hL) hsym hi hj

/-- **kernel columns are in the kernel** -/
theorem kerF_N (hU : Unambiguous sq N tol n)
    (hN : ∀ i < n, ∀ j < n, N i j = ip m (fun r => M r i) (fun r => M r j))
    {col : ℕ} (hc : col < n) (h0 : Df sq N tol col = 0) {i : ℕ} (hi : i < n) :
    ∑ j ∈ range n, N i j * kerF sq N tol n col j = 0 := by
  have := ker_N (isLDL_model sq hU) (gram_factor sq hU hN) hc h0 (kerUpper sq N tol n hc) hi
  rw [← this]
  exact sum_congr rfl fun j hj => by rw [kerF_eq sq N tol n (mem_range.1 hj)]

/-- on the zero pivots the kernel columns are `−I` -/
theorem kerF_dep (hU : Unambiguous sq N tol n) {col : ℕ} (hc : col < n) (h0 : Df sq N tol col = 0)
    {k : ℕ} (hk : k < n) (hk0 : Df sq N tol k = 0) :
    kerF sq N tol n col k = if k = col then -1 else 0 := by
  rw [kerF_eq sq N tol n hk]
  unfold kerFix
  by_cases hkc : k = col
  · simp [hkc]
  · simp only [hkc, if_false]
    rcases Nat.lt_or_gt_of_ne hkc with hlt | hgt
    · exact ker_dep_below (isLDL_model sq hU) hc (kerUpper sq N tol n hc) hlt hk0
    · exact ker_above (isLDL_model sq hU) h0 (kerUpper sq N tol n hc) k hgt hk

/-- beyond its own position a kernel column vanishes -/
theorem kerF_above (hU : Unambiguous sq N tol n) {col : ℕ} (hc : col < n) (h0 : Df sq N tol col = 0)
    {k : ℕ} (hk : k < n) (hgt : col < k) : kerF sq N tol n col k = 0 := by
  rw [kerF_eq sq N tol n hk]
  unfold kerFix
  have hkc : k ≠ col := by omega
  simp only [hkc, if_false]
  exact ker_above (isLDL_model sq hU) h0 (kerUpper sq N tol n hc) k hgt hk

/-- **the kernel columns span the kernel**: every kernel vector is
    `v = − Σ_{zero pivots k} v_k · kerCol_k` -/
theorem ker_span (hU : Unambiguous sq N tol n)
    (hN : ∀ i < n, ∀ j < n, N i j = ip m (fun r => M r i) (fun r => M r j))
    {v : ℕ → K} (hv : ∀ i < n, ∑ j ∈ range n, N i j * v j = 0) {i : ℕ} (hi : i < n) :
    v i = - ∑ k ∈ (range n).filter (fun k => Df sq N tol k = 0), v k * kerF sq N tol n k i := by
  set Z := (range n).filter (fun k => Df sq N tol k = 0) with hZ
  have hmem : ∀ k, k ∈ Z ↔ k < n ∧ Df sq N tol k = 0 := fun k => by simp [hZ]
  let u : ℕ → K := fun i => v i + ∑ k ∈ Z, v k * kerF sq N tol n k i
  have hu0 : ∀ i < n, u i = 0 := by
    apply ker_unique (gram_factor sq hU hN)
    · intro i hi
      simp only [u, mul_add, sum_add_distrib, hv i hi, zero_add, mul_sum]
      rw [sum_comm]
      refine sum_eq_zero fun k hk => ?_
      have hk' := (hmem k).1 hk
      have := kerF_N sq hU hN hk'.1 hk'.2 hi
      calc ∑ j ∈ range n, N i j * (v k * kerF sq N tol n k j)
          = v k * ∑ j ∈ range n, N i j * kerF sq N tol n k j := by
            rw [mul_sum]; exact sum_congr rfl fun j _ => by ring
        _ = 0 := by rw [this, mul_zero]
    · intro k hk hk0
      simp only [u]
      rw [sum_eq_single k]
      · rw [kerF_dep sq hU hk hk0 hk hk0]; simp
      · intro c hc hck
        have hc' := (hmem c).1 hc
        rw [kerF_dep sq hU hc'.1 hc'.2 hk hk0]
        simp [Ne.symm hck]
      · intro hnot; exact absurd ((hmem k).2 ⟨hk, hk0⟩) hnot
  have := hu0 i hi
  simp only [u] at this
  linear_combination this

end gram
end Gama.Ls.Env
