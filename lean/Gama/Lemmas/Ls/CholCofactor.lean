/-
  Cofactor queries of the `AdjCholDec` model in the regular case, as Mathlib matrices:
  `Q = (q_xx(i,j))` is symmetric and the inverse of `N = AᵀA`; `q_bb = A Q Aᵀ`, `q_bx = A Q`.
-/
import Gama.Lemmas.Ls.CholQ0

namespace Gama.Ls
open Finset Dn Chol Matrix Gama.LS

set_option linter.unusedSectionVars false
set_option linter.unusedVariables false

section
variable {K : Type} [Field K] [LinearOrder K] [IsStrictOrderedRing K] [SqrtFn K]
attribute [local instance 2000] scalarOfField

/-- the cofactor matrix of the unknowns the solved object reports -/
def Chol.Solved.Qm (s : Solved K) (n : Nat) : Matrix (Fin n) (Fin n) K := Matrix.of fun i j => s.qxx0 i.val j.val

theorem normalF_eq (p : Problem K) (v w : Fin p.n) :
    normalF p.m p.dense v.val w.val = (p.Aᵀ * p.A) v w := by
  rw [Matrix.mul_apply]
  unfold normalF
  rw [← Fin.sum_univ_eq_sum_range (fun k => mget p.dense k v.val * mget p.dense k w.val) p.m]
  rfl

/-- regular case: `Q` symmetric, `Q N = 1`, `N Q = 1` -/
theorem chol_regular_Q (p : Problem K) (s : Solved K) (hs : Chol.solve p = .ok s) (hn : s.nullity = 0) :
    (s.Qm p.n)ᵀ = s.Qm p.n ∧ s.Qm p.n * (p.Aᵀ * p.A) = 1 ∧ (p.Aᵀ * p.A) * s.Qm p.n = 1 := by
  obtain ⟨h0, hm, hnn, hx, hr, hQ, hA⟩ := solve_regular_shape p s hs hn
  have hI := cholFact_inv p h0
  have hZ := q0Mat_spec hI.isPerm (le_refl p.n) (cholFact p).mat
  rw [← hQ] at hZ
  have hinv := q0_regular_inverse hI (le_of_lt sTol_pos) s.Q0 hZ
  have hq : ∀ i j : Fin p.n, s.Qm p.n i j = sget s.Q0 i.val j.val := by
    intro i j
    show s.qxx0 i.val j.val = _
    unfold Solved.qxx0; rw [if_pos hn]
  have h1 : s.Qm p.n * (p.Aᵀ * p.A) = 1 := by
    funext u w
    rw [Matrix.mul_apply]
    have : ∀ v : Fin p.n, s.Qm p.n u v * (p.Aᵀ * p.A) v w
        = sget s.Q0 u.val v.val * normalF p.m p.dense v.val w.val := by
      intro v; rw [hq u v, normalF_eq]
    rw [Finset.sum_congr rfl (fun v _ => this v),
      Fin.sum_univ_eq_sum_range (fun v => sget s.Q0 u.val v * normalF p.m p.dense v w.val) p.n,
      hinv u.val w.val u.isLt w.isLt, Matrix.one_apply]
    by_cases e : u = w
    · subst e; simp
    · have : u.val ≠ w.val := fun h => e (Fin.ext h)
      simp [e, this]
  refine ⟨?_, h1, mul_eq_one_comm.1 h1⟩
  funext i j
  rw [Matrix.transpose_apply, hq, hq, sget_comm]

/-- `q_bb(i,j) = (A Q0 Aᵀ)(i,j)`, `q_bx(i,j) = (A Q0)(i,j)` when nullity = 0 — by definition of the queries -/
theorem chol_regular_qbb (p : Problem K) (s : Solved K) (hs : Chol.solve p = .ok s) (hn : s.nullity = 0)
    (i j : Fin p.m) : s.qbb0 i.val j.val = (p.A * s.Qm p.n * p.Aᵀ) i j := by
  obtain ⟨h0, hm, hnn, hx, hr, hQ, hA⟩ := solve_regular_shape p s hs hn
  rw [Matrix.mul_apply]
  unfold Solved.qbb0
  rw [sumFrom_eq, ← Finset.range_eq_Ico, hnn,
    ← Fin.sum_univ_eq_sum_range (fun c => s.aq i.val c * mget s.A j.val c) p.n]
  refine Finset.sum_congr rfl fun c _ => ?_
  rw [Matrix.mul_apply, Matrix.transpose_apply]
  unfold Solved.aq
  rw [sumFrom_eq, ← Finset.range_eq_Ico, hnn,
    ← Fin.sum_univ_eq_sum_range (fun l => mget s.A i.val l * sget s.Q0 l c.val) p.n, hA]
  congr 1
  refine Finset.sum_congr rfl fun l _ => ?_
  show _ = _ * s.qxx0 l.val c.val
  unfold Solved.qxx0; rw [if_pos hn]
  rfl

theorem chol_regular_qbx (p : Problem K) (s : Solved K) (hs : Chol.solve p = .ok s) (hn : s.nullity = 0)
    (i : Fin p.m) (j : Fin p.n) : s.qbx0 i.val j.val = (p.A * s.Qm p.n) i j := by
  obtain ⟨h0, hm, hnn, hx, hr, hQ, hA⟩ := solve_regular_shape p s hs hn
  rw [Matrix.mul_apply]
  unfold Solved.qbx0
  rw [if_pos hn, sumFrom_eq, ← Finset.range_eq_Ico, hnn,
    ← Fin.sum_univ_eq_sum_range (fun k => mget s.A i.val k * sget s.Q0 k j.val) p.n, hA]
  refine Finset.sum_congr rfl fun l _ => ?_
  show _ = _ * s.qxx0 l.val j.val
  unfold Solved.qxx0; rw [if_pos hn]
  rfl

end
end Gama.Ls
