/-
  Concrete network-level instance for the non-vacuity examples of `Props/C01/NetFacade.lean`,
  evaluated by the kernel over ℚ with the partial square root `Ex.sqQ` (exact on 4, 9, 1/4, 1 — every
  value whose root is taken here).

  `npQ`: three clusters,
    * a CORRELATED cluster of three observations, `covariance_matrix` full (band 2)
        [[16, 3, 8], [3, 25, 5], [8, 5, 40]],
      whose SECOND observation is passive — `activeCov()` is the principal sub-matrix
      `[[16, 8], [8, 40]]` (band clipped to 1);
    * a cluster whose only observation is passive (skipped: `activeObs() = 0`);
    * a single observation of variance 16;
  `m_0_apr_ = 2`, so the cofactor blocks are `[[4, 2], [2, 10]]` and `[4]`;
  design matrix `A = [[4,4],[5,5],[4,4]]` (two equal columns: defect 1, kernel (1,−1)),
  `rhs_ = (1,2,3)`, `min_x_ = [1]` (a proper subset that resolves the defect).
  `prepareProjectEquations()` produces `A = [[2,2],[1,1],[2,2]]`, `b = (1/2,1/2,3/2)` — the system
  `Ex.pCSdotQ` of `Lemmas/Ls/ComposeAdjExample.lean`, whose Cholesky-solver hypotheses are proved there.
-/
import Gama.Lemmas.Ls.NetFacade
import Gama.Lemmas.Ls.ComposeAdjExample
import Gama.Lemmas.Ls.ComposeEnvSolveExample

namespace Gama.Ls.Ex
open Gama Gama.Ls Gama.Ls.Net Gama.Ls.Env Gama.Ls.AdjM Gama.LS Gama.Ls.Chol
attribute [local instance 2000] scalarOfField

def npQ : NetProblem ℚ :=
  { m := 3, n := 2
    rows := #[#[(1, 4), (2, 4)], #[(1, 5), (2, 5)], #[(1, 4), (2, 4)]]
    rhs := #[1, 2, 3]
    clusters := [⟨⟨3, 2, #[16, 3, 8, 25, 5, 40]⟩, [true, false, true]⟩, ⟨⟨1, 0, #[1]⟩, [false]⟩,
      ⟨⟨1, 0, #[16]⟩, [true]⟩]
    m0 := 2
    minx := [1] }

/-- inverse of the covariance matrix `diag([[16,8],[8,40]], 16)` of the ACTIVE observations -/
def PcQ : Matrix (Fin (toProblem npQ).m) (Fin (toProblem npQ).m) ℚ :=
  (!![5/72, -1/72, 0; -1/72, 1/36, 0; 0, 0, 1/16] : Matrix (Fin 3) (Fin 3) ℚ)

/-- the excluded observation is inside the correlated cluster, and the all-passive cluster is skipped:
    the cofactor blocks are `[[4,2],[2,10]]` (band 1) and `[4]` -/
theorem npQ_cofs : (cofs npQ).map (fun C => (C.dim, C.band, C.buf)) = [(2, 1, #[4, 2, 10]), (1, 0, #[4])] := by
  decide +kernel

theorem npQ_dims : (dimsN npQ).sum = npQ.m := by decide +kernel

theorem npQ_rows : RowsOK (toProblem npQ) := by
  apply RowsOK.of_nodup
  intro i hi
  have : i = 0 ∨ i = 1 ∨ i = 2 := by have : i < 3 := hi; omega
  rcases this with rfl | rfl | rfl <;> simp [toProblem, npQ, Array.getD]

theorem npQ_sigma : Sigma npQ * PcQ = 1 := by
  show (Sigma npQ * PcQ : Matrix (Fin 3) (Fin 3) ℚ) = 1
  decide +kernel

theorem npQ_m0 : npQ.m0 ≠ 0 := by decide

/-- `prepareProjectEquations()` on `npQ` -/
theorem npQ_prepare : (prepare npQ).toOption.map (fun h => (h.Us.map (fun C => (C.dim, C.band, C.buf)), h.Ad, h.bd))
    = some ([(2, 1, #[2, 1, 3]), (1, 0, #[2])], #[#[2, 2], #[1, 1], #[2, 2]], #[1/2, 1/2, 3/2]) := by
  decide +kernel

theorem npQ_dot (hh : Hom ℚ) (hp : prepare npQ = .ok hh) : Net.dotProblem npQ hh = pCSdotQ := by
  have h := npQ_prepare
  rw [hp] at h
  simp only [Except.toOption, Option.map_some, Option.some.injEq, Prod.mk.injEq] at h
  obtain ⟨_, hA, hb⟩ := h
  unfold Net.dotProblem pCSdotQ
  rw [hA, hb]
  rfl

/-- the Cholesky solver's hypotheses on the system `LocalNetwork` hands it -/
theorem npQ_hchol (hh : Hom ℚ) (hp : prepare npQ = .ok hh) :
    UnambiguousF (cholFact (Net.dotProblem npQ hh)) ∧ GsSqrtExact (Net.dotProblem npQ hh)
      ∧ ∀ S, regList npQ.n (.subset npQ.minx) = some S → S.Nodup := by
  rw [npQ_dot hh hp]
  exact pCSdotQ_chol

/-- `LocalNetwork` + cholesky on `npQ`: defect 1, `x = (0, 1/2)`, residuals `A x − b = (1, 1/2, −1)`
    in ORIGINAL units, `[pvv] = 1/2` -/
theorem npQ_chol : ∃ a, netSolve .chol npQ = .ok a ∧ a.defect = 1 ∧ a.x = #[0, 1/2]
    ∧ a.r = #[1, 1/2, -1] ∧ a.pvv = 1/2 := by
  have h : (netSolve .chol npQ).toOption.map (fun a => (a.defect, a.x, a.r, a.pvv))
      = some (1, #[0, 1/2], #[1, 1/2, -1], 1/2) := by decide +kernel
  obtain ⟨a, h1, h2⟩ := ok_of_toOption h
  simp only [Prod.mk.injEq] at h2
  exact ⟨a, h1, h2.1, h2.2.1, h2.2.2.1, h2.2.2.2⟩

/-- the envelope solver's hypotheses on the system `LocalNetwork` hands to `AdjInputData` -/
theorem npQ_reg : Env.RegListOK (toProblem npQ) := by
  intro l hl
  have : l = [1] := by
    have h : Reg.subset [1] = Reg.subset l := hl
    injection h with h'; exact h'.symm
  subst this
  exact ⟨by decide, by decide⟩

theorem npQ_unamb : Env.SolveUnambiguous (toProblem npQ) ∧ Env.SolveGSUnambiguous (toProblem npQ) :=
  unamb_of_chk (toProblem npQ) (by decide +kernel)

/-- `LocalNetwork` + envelope on `npQ`: the same answer through the sparse path -/
theorem npQ_env : ∃ a, netSolve .env npQ = .ok a ∧ a.defect = 1 ∧ a.x = #[0, 1/2]
    ∧ a.r = #[1, 1/2, -1] ∧ a.pvv = 1/2 := by
  have h : (netSolve .env npQ).toOption.map (fun a => (a.defect, a.x, a.r, a.pvv))
      = some (1, #[0, 1/2], #[1, 1/2, -1], 1/2) := by decide +kernel
  obtain ⟨a, h1, h2⟩ := ok_of_toOption h
  simp only [Prod.mk.injEq] at h2
  exact ⟨a, h1, h2.1, h2.2.1, h2.2.2.1, h2.2.2.2⟩

/-- a cluster that is not positive definite (`[[1,2],[2,1]]`) is rejected by every algorithm with
    `NonPositiveDefinite` (`CovMat::cholDec` inside `prepareProjectEquations`) -/
def npBad : NetProblem ℚ := { npQ with clusters := [⟨⟨2, 1, #[1, 2, 1]⟩, [true, true]⟩, ⟨⟨1, 0, #[16]⟩, [true]⟩] }

theorem npBad_rejected : ∀ alg, (netSolve alg npBad).toOption.isNone
    ∧ prepare npBad = .error .NonPositiveDefinite := by
  intro alg
  have hp : (match prepare npBad with | .error e => some e | .ok _ => none) = some ErrKind.NonPositiveDefinite := by
    decide +kernel
  have hp' : prepare npBad = .error .NonPositiveDefinite := by
    cases h : prepare npBad with
    | error e => rw [h] at hp; simp only [Option.some.injEq] at hp; rw [hp]
    | ok _ => rw [h] at hp; cases hp
  refine ⟨?_, hp'⟩
  cases alg <;> simp [netSolve, netSparse, netFull, hp', Except.toOption]

end Gama.Ls.Ex
