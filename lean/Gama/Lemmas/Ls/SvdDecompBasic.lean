/-
  Common ground for the proof that `Svd.decompose` (Golub–Reinsch) returns a factorisation
  (`Lemmas/Ls/SvdDecomp*.lean`):

    A. `for` loops over `[a:b]` in `Except`: `forIn_range_inv` (invariant rule, with `break`),
       `forIn_range_pure` / `rfold` (loops that never throw or break), `forIn_range_sum`;
    B. the 1-based array accessors of the transliteration (`mg`/`ms`/`g1`/`s1`) on well-formed
       arrays (`MWF`), and the matrix view `toMatrix`;
    C. algebra: Householder matrices `hh u β = 1 + β⁻¹ u uᵀ`, ordered products `prodFrom`,
       plane rotations `Grot`, the bidiagonal matrix `bidiagN`, `pythag`, the exact reading of
       the `==` tests.
-/
import Gama.Lemmas.Ls.SvdDecompStruct
import Gama.Lemmas.Ls.SvdModel
import Gama.Lemmas.Ls.ScalarLaws
import Mathlib.LinearAlgebra.Matrix.NonsingularInverse
import Mathlib.Tactic.Ring
import Mathlib.Tactic.Linarith
import Mathlib.Tactic.FieldSimp

namespace Gama.Ls.Svd
open Matrix Finset Gama.LS Gama.Ls

set_option linter.unusedSectionVars false
set_option linter.unusedVariables false
set_option linter.unusedSimpArgs false

/-! ## A. loops -/

section loops
variable {ε σ : Type}

/-- a successful `do let a ← x; f a` -/
theorem bind_eq_ok {α β : Type} {x : Except ε α} {f : α → Except ε β} {r : β} :
    (x >>= f) = .ok r ↔ ∃ a, x = .ok a ∧ f a = .ok r := by
  cases x with
  | error e => constructor
               · intro h; cases h
               · rintro ⟨a, h, _⟩; cases h
  | ok a => constructor
            · intro h; exact ⟨a, rfl, h⟩
            · rintro ⟨a', h, h'⟩; injection h with h; subst h; exact h'

theorem pure_eq_ok {α : Type} (a : α) : (pure a : Except ε α) = .ok a := rfl

theorem ok_inj {α : Type} {a b : α} (h : (Except.ok a : Except ε α) = .ok b) : a = b := by
  injection h

/-- `cnt` iterations of a `for` body from index `a` -/
def runLoop (body : Nat → σ → Except ε (ForInStep σ)) : Nat → Nat → σ → Except ε σ
  | _, 0, s => .ok s
  | a, cnt + 1, s =>
    match body a s with
    | .error e => .error e
    | .ok (.done s') => .ok s'
    | .ok (.yield s') => runLoop body (a + 1) cnt s'

theorem forIn_list_eq_runLoop (body : Nat → σ → Except ε (ForInStep σ)) :
    ∀ (cnt a : Nat) (s : σ), forIn (List.range' a cnt 1) s body = runLoop body a cnt s := by
  intro cnt
  induction cnt with
  | zero => intro a s; rfl
  | succ cnt ih =>
    intro a s
    rw [List.range'_succ, List.forIn_cons]
    unfold runLoop
    cases hb : body a s with
    | error e => rfl
    | ok x =>
      cases x with
      | done s' => rfl
      | yield s' => exact ih (a + 1) s'

theorem forIn_range_eq_runLoop (a b : Nat) (init : σ) (body : Nat → σ → Except ε (ForInStep σ)) :
    forIn [a:b] init body = runLoop body a (b - a) init := by
  rw [Std.Legacy.Range.forIn_eq_forIn_range', ← forIn_list_eq_runLoop]
  simp [Std.Legacy.Range.size]

theorem runLoop_inv (body : Nat → σ → Except ε (ForInStep σ)) (P : Nat → σ → Prop) (e : Nat)
    (hy : ∀ i s s', i < e → P i s → body i s = .ok (.yield s') → P (i + 1) s')
    (hd : ∀ i s s', i < e → P i s → body i s = .ok (.done s') → P e s') :
    ∀ (cnt a : Nat) (s r : σ), a + cnt = e → P a s → runLoop body a cnt s = .ok r → P e r := by
  intro cnt
  induction cnt with
  | zero =>
    intro a s r hae hP h
    have : s = r := by
      have h' : (Except.ok s : Except ε σ) = .ok r := h
      injection h'
    subst this
    have : a = e := by omega
    subst this
    exact hP
  | succ cnt ih =>
    intro a s r hae hP h
    unfold runLoop at h
    cases hb : body a s with
    | error e' => rw [hb] at h; cases h
    | ok x =>
      rw [hb] at h
      cases x with
      | done s' =>
        have : s' = r := by
          have h' : (Except.ok s' : Except ε σ) = .ok r := h
          injection h'
        subst this
        exact hd a s s' (by omega) hP hb
      | yield s' =>
        exact ih (a + 1) s' r (by omega) (hy a s s' (by omega) hP hb) h

/-- **invariant rule** for `for i in [a:b]` in `Except` (the loop may `break`: then the invariant
    must hold at the exit index) -/
theorem forIn_range_inv {a b : Nat} {init r : σ} {body : Nat → σ → Except ε (ForInStep σ)}
    (h : forIn [a:b] init body = .ok r) (P : Nat → σ → Prop) (h0 : P a init)
    (hy : ∀ i s s', a ≤ i → i < b → P i s → body i s = .ok (.yield s') → P (i + 1) s')
    (hd : ∀ i s s', a ≤ i → i < b → P i s → body i s = .ok (.done s') → P (max a b) s') :
    P (max a b) r := by
  rw [forIn_range_eq_runLoop] at h
  have key := runLoop_inv body (fun i s => a ≤ i ∧ P i s) (max a b)
    (fun i s s' hi hP hb => ⟨by omega, hy i s s' hP.1 (by omega) hP.2 hb⟩)
    (fun i s s' hi hP hb => ⟨by omega, hd i s s' hP.1 (by omega) hP.2 hb⟩)
    (b - a) a init r (by omega) ⟨le_refl _, h0⟩ h
  exact key.2

/-- the same when `a ≤ b` is known -/
theorem forIn_range_inv' {a b : Nat} (hab : a ≤ b) {init r : σ} {body : Nat → σ → Except ε (ForInStep σ)}
    (h : forIn [a:b] init body = .ok r) (P : Nat → σ → Prop) (h0 : P a init)
    (hy : ∀ i s s', a ≤ i → i < b → P i s → body i s = .ok (.yield s') → P (i + 1) s')
    (hd : ∀ i s s', a ≤ i → i < b → P i s → body i s = .ok (.done s') → P b s') :
    P b r := by
  have := forIn_range_inv h P h0 hy (by rw [max_eq_right hab]; exact hd)
  rwa [max_eq_right hab] at this

/-- an empty range returns the initial state -/
theorem forIn_range_empty {a b : Nat} (hab : b ≤ a) (init : σ) (body : Nat → σ → Except ε (ForInStep σ)) :
    forIn [a:b] init body = .ok init := by
  rw [forIn_range_eq_runLoop, Nat.sub_eq_zero_of_le hab]; rfl

/-- peel the first iteration -/
theorem forIn_range_first {a b : Nat} (hab : a < b) (init : σ) (body : Nat → σ → Except ε (ForInStep σ)) :
    forIn [a:b] init body =
      match body a init with
      | .error e => .error e
      | .ok (.done s') => .ok s'
      | .ok (.yield s') => forIn [a+1:b] s' body := by
  rw [forIn_range_eq_runLoop]
  have : b - a = (b - (a + 1)) + 1 := by omega
  rw [this]
  unfold runLoop
  cases hb : body a init with
  | error e => rfl
  | ok x =>
    cases x with
    | done s' => rfl
    | yield s' => simp only []; rw [forIn_range_eq_runLoop]

/-- `cnt` iterations of a body that neither throws nor breaks -/
def rfold (F : Nat → σ → σ) : Nat → Nat → σ → σ
  | _, 0, s => s
  | a, cnt + 1, s => rfold F (a + 1) cnt (F a s)

theorem runLoop_pure (F : Nat → σ → σ) : ∀ (cnt a : Nat) (s : σ),
    runLoop (ε := ε) (fun k s => pure (ForInStep.yield (F k s))) a cnt s = .ok (rfold F a cnt s) := by
  intro cnt
  induction cnt with
  | zero => intro a s; rfl
  | succ cnt ih => intro a s; exact ih (a + 1) (F a s)

/-- a loop whose body is `pure (yield (F k s))` -/
theorem forIn_range_pure (a b : Nat) (init : σ) (F : Nat → σ → σ) :
    forIn [a:b] init (fun k s => (pure (ForInStep.yield (F k s)) : Except ε (ForInStep σ)))
      = .ok (rfold F a (b - a) init) := by
  rw [forIn_range_eq_runLoop, runLoop_pure]

theorem rfold_inv (F : Nat → σ → σ) (P : Nat → σ → Prop) (e : Nat)
    (hstep : ∀ i s, i < e → P i s → P (i + 1) (F i s)) :
    ∀ (cnt a : Nat) (s : σ), a + cnt = e → P a s → P e (rfold F a cnt s) := by
  intro cnt
  induction cnt with
  | zero => intro a s hae hP; have : a = e := by omega
            subst this; exact hP
  | succ cnt ih => intro a s hae hP; exact ih (a + 1) (F a s) (by omega) (hstep a s (by omega) hP)

/-- invariant rule for `rfold` over `[a, b)` -/
theorem rfold_range_inv (F : Nat → σ → σ) (P : Nat → σ → Prop) {a b : Nat} (hab : a ≤ b) (init : σ)
    (h0 : P a init) (hstep : ∀ i s, a ≤ i → i < b → P i s → P (i + 1) (F i s)) :
    P b (rfold F a (b - a) init) := by
  have := rfold_inv F (fun i s => a ≤ i ∧ P i s) b
    (fun i s hi hP => ⟨by omega, hstep i s hP.1 hi hP.2⟩) (b - a) a init (by omega) ⟨le_refl _, h0⟩
  exact this.2

theorem rfold_empty (F : Nat → σ → σ) {a b : Nat} (hab : b ≤ a) (init : σ) : rfold F a (b - a) init = init := by
  rw [Nat.sub_eq_zero_of_le hab]; rfl

end loops

/-! ## B. arrays -/

section arrays
variable {K : Type} [Scalar K]

/-- an `r × c` array of rows -/
def MWF (r c : Nat) (M : DMat K) : Prop := M.size = r ∧ ∀ i, i < r → (M.getD i #[]).size = c

theorem getD_modify_eq {α : Type} (a : Array α) (i j : Nat) (f : α → α) (d : α) :
    (a.modify i f).getD j d = if i = j ∧ j < a.size then f (a.getD j d) else a.getD j d := by
  simp only [Array.getD_eq_getD_getElem?, Array.getElem?_modify]
  by_cases h : i = j
  · subst h
    by_cases h2 : i < a.size
    · simp [h2]
    · simp [h2]
  · simp [h]

theorem getD_setIfInBounds_eq {α : Type} (a : Array α) (i j : Nat) (x d : α) :
    (a.setIfInBounds i x).getD j d = if i = j ∧ j < a.size then x else a.getD j d := by
  simp only [Array.getD_eq_getD_getElem?, Array.getElem?_setIfInBounds]
  by_cases h : i = j
  · subst h
    by_cases h2 : i < a.size
    · simp [h2]
    · simp [h2]
  · simp [h]

theorem MWF.ms {r c : Nat} {M : DMat K} (h : MWF r c M) (i j : Nat) (x : K) : MWF r c (ms M i j x) := by
  unfold Svd.ms
  split
  · exact h
  · obtain ⟨h1, h2⟩ := h
    refine ⟨by simp [h1], fun a ha => ?_⟩
    rw [getD_modify_eq]
    split
    · rw [Array.size_setIfInBounds]; exact h2 a ha
    · exact h2 a ha

/-- reading after a write, on a well-formed array -/
theorem mg_ms {r c : Nat} {M : DMat K} (h : MWF r c M) (i j a b : Nat) (x : K) :
    mg (ms M i j x) a b = if a = i ∧ b = j ∧ 1 ≤ i ∧ i ≤ r ∧ 1 ≤ j ∧ j ≤ c then x else mg M a b := by
  obtain ⟨h1, h2⟩ := h
  unfold Svd.ms
  by_cases h0 : i = 0 ∨ j = 0
  · rw [if_pos h0]
    have : ¬ (a = i ∧ b = j ∧ 1 ≤ i ∧ i ≤ r ∧ 1 ≤ j ∧ j ≤ c) := by omega
    rw [if_neg this]
  · rw [if_neg h0]
    unfold mg
    by_cases ha : a = 0
    · rw [if_pos ha, if_pos ha]
      have : ¬ (a = i ∧ b = j ∧ 1 ≤ i ∧ i ≤ r ∧ 1 ≤ j ∧ j ≤ c) := by omega
      rw [if_neg this]
    · rw [if_neg ha, if_neg ha, getD_modify_eq]
      unfold g1
      by_cases hb : b = 0
      · rw [if_pos hb, if_pos hb]
        have : ¬ (a = i ∧ b = j ∧ 1 ≤ i ∧ i ≤ r ∧ 1 ≤ j ∧ j ≤ c) := by omega
        rw [if_neg this]
      · rw [if_neg hb, if_neg hb]
        by_cases hia : i - 1 = a - 1 ∧ a - 1 < M.size
        · rw [if_pos hia, getD_setIfInBounds_eq]
          have hsz : (M.getD (a - 1) #[]).size = c := h2 (a - 1) (by omega)
          rw [hsz]
          by_cases hjb : j - 1 = b - 1 ∧ b - 1 < c
          · rw [if_pos hjb, if_pos (by omega)]
          · rw [if_neg hjb, if_neg (by omega)]
        · rw [if_neg hia, if_neg (by omega)]

theorem mg_ms_in {r c : Nat} {M : DMat K} (h : MWF r c M) {i j : Nat} (hi : 1 ≤ i) (hi' : i ≤ r)
    (hj : 1 ≤ j) (hj' : j ≤ c) (a b : Nat) (x : K) :
    mg (ms M i j x) a b = if a = i ∧ b = j then x else mg M a b := by
  rw [mg_ms h]
  by_cases hab : a = i ∧ b = j
  · rw [if_pos hab, if_pos ⟨hab.1, hab.2, hi, hi', hj, hj'⟩]
  · rw [if_neg hab, if_neg (fun hh => hab ⟨hh.1, hh.2.1⟩)]

/-- a read outside the array gives `0` -/
theorem mg_out {r c : Nat} {M : DMat K} (h : MWF r c M) {i j : Nat} (ho : i = 0 ∨ r < i ∨ j = 0 ∨ c < j) :
    mg M i j = 0 := by
  obtain ⟨h1, h2⟩ := h
  unfold mg
  by_cases hi : i = 0
  · rw [if_pos hi]
  · rw [if_neg hi]
    unfold g1
    by_cases hj : j = 0
    · rw [if_pos hj]
    · rw [if_neg hj]
      by_cases hir : r < i
      · have : M.getD (i - 1) #[] = #[] := by
          simp only [Array.getD_eq_getD_getElem?]
          rw [Array.getElem?_eq_none (by omega)]; rfl
        rw [this]; rfl
      · have hsz : (M.getD (i - 1) #[]).size = c := h2 (i - 1) (by omega)
        have hcj : c < j := by omega
        generalize M.getD (i - 1) #[] = row at hsz
        simp only [Array.getD_eq_getD_getElem?]
        rw [Array.getElem?_eq_none (by omega)]; rfl

theorem s1_size {n : Nat} {v : Array K} (h : v.size = n) (i : Nat) (x : K) : (s1 v i x).size = n := by
  unfold s1; split
  · exact h
  · rw [Array.size_setIfInBounds]; exact h

theorem g1_s1 {n : Nat} {v : Array K} (h : v.size = n) (i a : Nat) (x : K) :
    g1 (s1 v i x) a = if a = i ∧ 1 ≤ i ∧ i ≤ n then x else g1 v a := by
  unfold s1
  by_cases hi : i = 0
  · rw [if_pos hi, if_neg (by omega)]
  · rw [if_neg hi]
    unfold g1
    by_cases ha : a = 0
    · rw [if_pos ha, if_pos ha, if_neg (by omega)]
    · rw [if_neg ha, if_neg ha, getD_setIfInBounds_eq, h]
      by_cases hh : i - 1 = a - 1 ∧ a - 1 < n
      · rw [if_pos hh, if_pos (by omega)]
      · rw [if_neg hh, if_neg (by omega)]

theorem g1_s1_in {n : Nat} {v : Array K} (h : v.size = n) {i : Nat} (hi : 1 ≤ i) (hi' : i ≤ n) (a : Nat) (x : K) :
    g1 (s1 v i x) a = if a = i then x else g1 v a := by
  rw [g1_s1 h]
  by_cases ha : a = i
  · rw [if_pos ha, if_pos ⟨ha, hi, hi'⟩]
  · rw [if_neg ha, if_neg (fun hh => ha hh.1)]

theorem g1_out {n : Nat} {v : Array K} (h : v.size = n) {i : Nat} (ho : i = 0 ∨ n < i) : g1 v i = 0 := by
  unfold g1
  by_cases hi : i = 0
  · rw [if_pos hi]
  · rw [if_neg hi]
    simp only [Array.getD_eq_getD_getElem?]
    rw [Array.getElem?_eq_none (by omega)]; rfl

theorem getD_ofFn_eq {α : Type} {n : Nat} (f : Fin n → α) (i : Nat) (d : α) :
    (Array.ofFn f).getD i d = if h : i < n then f ⟨i, h⟩ else d := by
  simp only [Array.getD_eq_getD_getElem?, Array.getElem?_ofFn]
  split <;> simp

theorem MWF_mmk (r c : Nat) (f : Nat → Nat → K) : MWF r c (mmk r c f) := by
  refine ⟨by simp [mmk], fun i hi => ?_⟩
  unfold mmk
  rw [getD_ofFn_eq, dif_pos hi]
  simp [vmk]

theorem mg_mmk (r c : Nat) (f : Nat → Nat → K) (i j : Nat) :
    mg (mmk r c f) i j = if 1 ≤ i ∧ i ≤ r ∧ 1 ≤ j ∧ j ≤ c then f (i - 1) (j - 1) else 0 := by
  unfold mg
  by_cases hi : i = 0
  · rw [if_pos hi, if_neg (by omega)]
  · rw [if_neg hi]
    unfold g1
    by_cases hj : j = 0
    · rw [if_pos hj, if_neg (by omega)]
    · rw [if_neg hj]
      unfold mmk
      rw [getD_ofFn_eq]
      by_cases hir : i - 1 < r
      · rw [dif_pos hir]
        unfold vmk
        rw [getD_ofFn_eq]
        by_cases hjc : j - 1 < c
        · rw [dif_pos hjc, if_pos (by omega)]
        · rw [dif_neg hjc, if_neg (by omega)]
      · rw [dif_neg hir, if_neg (by omega)]
        rfl

theorem MWF_replicate (r c : Nat) (x : K) : MWF r c (Array.replicate r (Array.replicate c x)) := by
  refine ⟨by simp, fun i hi => ?_⟩
  simp [Array.getD_eq_getD_getElem?, Array.getElem?_replicate, hi]

theorem mg_replicate_zero (r c : Nat) (i j : Nat) :
    mg (Array.replicate r (Array.replicate c (0 : K))) i j = 0 := by
  unfold mg
  split
  · rfl
  · unfold g1
    split
    · rfl
    · simp only [Array.getD_eq_getD_getElem?, Array.getElem?_replicate]
      by_cases h1 : i - 1 < r
      · simp only [h1, if_true, Option.getD_some, Array.getElem?_replicate]
        by_cases h2 : j - 1 < c
        · simp [h2]
        · simp [h2]
      · simp [h1]

theorem g1_replicate_zero (n i : Nat) : g1 (Array.replicate n (0 : K)) i = 0 := by
  unfold g1
  split
  · rfl
  · simp only [Array.getD_eq_getD_getElem?, Array.getElem?_replicate]
    by_cases h : i - 1 < n
    · simp [h]
    · simp [h]

end arrays

/-! ## C. algebra -/

section algebra
variable {K : Type} [Field K] [LinearOrder K] [IsStrictOrderedRing K] (sq : K → K)

local notation "𝕊" => (Gama.LS.fieldScalar sq)

/-- the matrix view reads the 1-based accessor -/
theorem toMatrix_mg (r c : Nat) (M : DMat K) (i : Fin r) (j : Fin c) :
    toMatrix r c M i j = @mg K 𝕊 M (i.val + 1) (j.val + 1) := rfl

theorem toVec_g1 (n : Nat) (v : Array K) (i : Fin n) : toVec n v i = @g1 K 𝕊 v (i.val + 1) := rfl

/-- `if (x)` on a field element -/
theorem nz_iff (x : K) : @nz K 𝕊 x = true ↔ x ≠ 0 := by
  show (!decide (x = 0)) = true ↔ _
  simp

theorem nz_false_iff (x : K) : @nz K 𝕊 x = false ↔ x = 0 := by
  show (!decide (x = 0)) = false ↔ _
  simp

theorem absC_eq' (x : K) : @absC K 𝕊 x = |x| := absC_eq sq x

/-- the negligibility test `s1 + |x| == s1` is an exact zero test in a field -/
theorem negligible_iff (a x : K) :
    @Scalar.beq K 𝕊 a (@HAdd.hAdd K K K (@instHAdd K (𝕊).toAdd) a (@absC K 𝕊 x)) = true ↔ x = 0 := by
  show decide (a = a + @absC K 𝕊 x) = true ↔ _
  rw [absC_eq']
  simp

/-! ### `pythag` -/

/-- `PYTHAG(a, b)` is `√(a² + b²)` -/
theorem pythag_sq (hsq : ∀ x : K, 0 ≤ x → sq x * sq x = x) (a b : K) :
    @pythag K 𝕊 a b * @pythag K 𝕊 a b = a * a + b * b := by
  unfold pythag
  simp only [absC_eq']
  show (if |b| < |a| then |a| * sq (1 + |b| / |a| * (|b| / |a|))
        else if @nz K 𝕊 |b| = true then |b| * sq (1 + |a| / |b| * (|a| / |b|)) else 0) *
      (if |b| < |a| then |a| * sq (1 + |b| / |a| * (|b| / |a|))
        else if @nz K 𝕊 |b| = true then |b| * sq (1 + |a| / |b| * (|a| / |b|)) else 0) = _
  by_cases h1 : |b| < |a|
  · rw [if_pos h1]
    have ha : |a| ≠ 0 := ne_of_gt (lt_of_le_of_lt (abs_nonneg b) h1)
    have hnn : (0 : K) ≤ 1 + |b| / |a| * (|b| / |a|) := by positivity
    have := hsq _ hnn
    calc |a| * sq (1 + |b| / |a| * (|b| / |a|)) * (|a| * sq (1 + |b| / |a| * (|b| / |a|)))
        = |a| * |a| * (sq (1 + |b| / |a| * (|b| / |a|)) * sq (1 + |b| / |a| * (|b| / |a|))) := by ring
      _ = |a| * |a| * (1 + |b| / |a| * (|b| / |a|)) := by rw [this]
      _ = |a| * |a| + |b| * |b| := by field_simp
      _ = a * a + b * b := by rw [abs_mul_abs_self, abs_mul_abs_self]
  · rw [if_neg h1]
    by_cases h2 : @nz K 𝕊 |b| = true
    · rw [if_pos h2]
      have hb : |b| ≠ 0 := (nz_iff sq _).mp h2
      have hnn : (0 : K) ≤ 1 + |a| / |b| * (|a| / |b|) := by positivity
      have := hsq _ hnn
      calc |b| * sq (1 + |a| / |b| * (|a| / |b|)) * (|b| * sq (1 + |a| / |b| * (|a| / |b|)))
          = |b| * |b| * (sq (1 + |a| / |b| * (|a| / |b|)) * sq (1 + |a| / |b| * (|a| / |b|))) := by ring
        _ = |b| * |b| * (1 + |a| / |b| * (|a| / |b|)) := by rw [this]
        _ = |a| * |a| + |b| * |b| := by field_simp; ring
        _ = a * a + b * b := by rw [abs_mul_abs_self, abs_mul_abs_self]
    · rw [if_neg h2]
      have hb : |b| = 0 := by
        have := (nz_false_iff sq |b|).mp (by simpa using h2)
        exact this
      have hb0 : b = 0 := abs_eq_zero.mp hb
      have ha0 : a = 0 := by
        have : |a| ≤ 0 := by rw [← hb]; exact not_lt.mp h1
        exact abs_eq_zero.mp (le_antisymm this (abs_nonneg a))
      rw [ha0, hb0]; ring

theorem pythag_nonneg (hsq0 : ∀ x : K, 0 ≤ x → 0 ≤ sq x) (a b : K) : 0 ≤ @pythag K 𝕊 a b := by
  unfold pythag
  simp only [absC_eq']
  show 0 ≤ (if |b| < |a| then |a| * sq (1 + |b| / |a| * (|b| / |a|))
        else if @nz K 𝕊 |b| = true then |b| * sq (1 + |a| / |b| * (|a| / |b|)) else 0)
  split
  · exact mul_nonneg (abs_nonneg _) (hsq0 _ (by positivity))
  · split
    · exact mul_nonneg (abs_nonneg _) (hsq0 _ (by positivity))
    · exact le_refl _

theorem pythag_eq_zero (hsq : ∀ x : K, 0 ≤ x → sq x * sq x = x) (a b : K) :
    @pythag K 𝕊 a b = 0 ↔ a = 0 ∧ b = 0 := by
  constructor
  · intro h
    have := pythag_sq sq hsq a b
    rw [h, mul_zero] at this
    have h1 : a * a = 0 := by nlinarith [mul_self_nonneg a, mul_self_nonneg b]
    have h2 : b * b = 0 := by nlinarith [mul_self_nonneg a, mul_self_nonneg b]
    exact ⟨mul_self_eq_zero.mp h1, mul_self_eq_zero.mp h2⟩
  · rintro ⟨rfl, rfl⟩
    have := pythag_sq sq hsq (0 : K) 0
    simp only [mul_zero, add_zero] at this
    exact mul_self_eq_zero.mp this

/-- `(a/z, b/z)` with `z = pythag a b ≠ 0` is a unit vector -/
theorem pythag_unit (hsq : ∀ x : K, 0 ≤ x → sq x * sq x = x) (a b : K) (hz : @pythag K 𝕊 a b ≠ 0) :
    (a / @pythag K 𝕊 a b) * (a / @pythag K 𝕊 a b) + (b / @pythag K 𝕊 a b) * (b / @pythag K 𝕊 a b) = 1 := by
  have := pythag_sq sq hsq a b
  field_simp
  linarith

/-! ### Householder matrices -/

variable {ι : Type} [Fintype ι] [DecidableEq ι]

/-- `1 + β⁻¹ u uᵀ` (the identity when `β = 0`) -/
def hh (u : ι → K) (β : K) : Matrix ι ι K := 1 + β⁻¹ • vecMulVec u u

omit [LinearOrder K] [IsStrictOrderedRing K] in
theorem hh_zero (u : ι → K) : hh u 0 = 1 := by simp [hh]

omit [LinearOrder K] [IsStrictOrderedRing K] in
theorem hh_transpose (u : ι → K) (β : K) : (hh u β)ᵀ = hh u β := by
  ext i j; simp [hh, vecMulVec_apply, Matrix.one_apply, mul_comm, eq_comm]

omit [LinearOrder K] [IsStrictOrderedRing K] in
theorem hh_apply (u : ι → K) (β : K) (i j : ι) : hh u β i j = (if i = j then 1 else 0) + β⁻¹ * (u i * u j) := by
  simp [hh, vecMulVec_apply, Matrix.one_apply]

omit [LinearOrder K] [IsStrictOrderedRing K] in
/-- `hh u β · x = x + β⁻¹ (u·x) u` -/
theorem hh_mulVec (u : ι → K) (β : K) (x : ι → K) : hh u β *ᵥ x = x + (β⁻¹ * (u ⬝ᵥ x)) • u := by
  ext i
  simp only [mulVec, dotProduct, hh_apply, Pi.add_apply, Pi.smul_apply, smul_eq_mul]
  simp only [add_mul, Finset.sum_add_distrib, ite_mul, one_mul, zero_mul, Finset.sum_ite_eq, Finset.mem_univ,
    if_true]
  congr 1
  rw [Finset.mul_sum, Finset.sum_mul]
  refine Finset.sum_congr rfl fun j _ => ?_
  ring

omit [LinearOrder K] [IsStrictOrderedRing K] in
/-- a Householder matrix with `u·u = −2β` (or `β = 0`) is an involution -/
theorem hh_mul_self (u : ι → K) (β : K) (h : β = 0 ∨ u ⬝ᵥ u = -2 * β) : hh u β * hh u β = 1 := by
  rcases h with h | h
  · subst h; rw [hh_zero, one_mul]
  · by_cases hb : β = 0
    · subst hb; rw [hh_zero, one_mul]
    · ext i j
      rw [Matrix.mul_apply]
      simp only [hh_apply]
      have e : ∀ k, ((if i = k then (1 : K) else 0) + β⁻¹ * (u i * u k)) * ((if k = j then 1 else 0) + β⁻¹ * (u k * u j))
          = (if i = k then (if k = j then 1 else 0) else 0) + (if i = k then β⁻¹ * (u k * u j) else 0)
            + (if k = j then β⁻¹ * (u i * u k) else 0) + β⁻¹ * β⁻¹ * u i * u j * (u k * u k) := by
        intro k
        by_cases h1 : i = k
        · subst h1
          by_cases h2 : i = j
          · subst h2; simp; ring
          · simp [h2]; ring
        · by_cases h2 : k = j
          · subst h2; simp [h1]; ring
          · simp [h1, h2]; ring
      simp only [e, Finset.sum_add_distrib, Finset.sum_ite_eq, Finset.mem_univ, if_true, ← Finset.mul_sum]
      have hd : ∑ k, u k * u k = -2 * β := h
      rw [hd, Finset.sum_ite_eq', Matrix.one_apply]
      simp only [Finset.mem_univ, if_true]
      field_simp
      ring

omit [LinearOrder K] [IsStrictOrderedRing K] in
theorem hh_orth (u : ι → K) (β : K) (h : β = 0 ∨ u ⬝ᵥ u = -2 * β) : (hh u β)ᵀ * hh u β = 1 := by
  rw [hh_transpose, hh_mul_self u β h]

/-! ### ordered products -/

/-- `F a * F (a+1) * … * F (a+cnt-1)` -/
def prodFrom (F : Nat → Matrix ι ι K) : Nat → Nat → Matrix ι ι K
  | _, 0 => 1
  | a, cnt + 1 => F a * prodFrom F (a + 1) cnt

omit [LinearOrder K] [IsStrictOrderedRing K] in
theorem prodFrom_succ_right (F : Nat → Matrix ι ι K) : ∀ (cnt a : Nat),
    prodFrom F a (cnt + 1) = prodFrom F a cnt * F (a + cnt) := by
  intro cnt
  induction cnt with
  | zero => intro a; simp [prodFrom]
  | succ cnt ih =>
    intro a
    show F a * prodFrom F (a + 1) (cnt + 1) = F a * prodFrom F (a + 1) cnt * F (a + (cnt + 1))
    rw [ih (a + 1), Matrix.mul_assoc]
    congr 3; omega

omit [LinearOrder K] [IsStrictOrderedRing K] in
/-- a product of orthogonal matrices is orthogonal -/
theorem prodFrom_orth (F : Nat → Matrix ι ι K) (h : ∀ j, (F j)ᵀ * F j = 1) : ∀ (cnt a : Nat),
    (prodFrom F a cnt)ᵀ * prodFrom F a cnt = 1 := by
  intro cnt
  induction cnt with
  | zero => intro a; simp [prodFrom]
  | succ cnt ih =>
    intro a
    show (F a * prodFrom F (a + 1) cnt)ᵀ * (F a * prodFrom F (a + 1) cnt) = 1
    rw [Matrix.transpose_mul, Matrix.mul_assoc, ← Matrix.mul_assoc (F a)ᵀ, h a, Matrix.one_mul, ih]

omit [LinearOrder K] [IsStrictOrderedRing K] in
theorem prodFrom_congr (F G : Nat → Matrix ι ι K) : ∀ (cnt a : Nat), (∀ j, a ≤ j → j < a + cnt → F j = G j) →
    prodFrom F a cnt = prodFrom G a cnt := by
  intro cnt
  induction cnt with
  | zero => intro a _; rfl
  | succ cnt ih =>
    intro a h
    show F a * prodFrom F (a + 1) cnt = G a * prodFrom G (a + 1) cnt
    rw [h a (le_refl _) (by omega), ih (a + 1) (fun j h1 h2 => h j (by omega) (by omega))]

omit [LinearOrder K] [IsStrictOrderedRing K] in
theorem prodFrom_one (F : Nat → Matrix ι ι K) : ∀ (cnt a : Nat), (∀ j, a ≤ j → j < a + cnt → F j = 1) →
    prodFrom F a cnt = 1 := by
  intro cnt
  induction cnt with
  | zero => intro a _; rfl
  | succ cnt ih =>
    intro a h
    show F a * prodFrom F (a + 1) cnt = 1
    rw [h a (le_refl _) (by omega), ih (a + 1) (fun j h1 h2 => h j (by omega) (by omega)), Matrix.one_mul]

omit [LinearOrder K] [IsStrictOrderedRing K] in
theorem prodFrom_append (F : Nat → Matrix ι ι K) : ∀ (c1 c2 a : Nat),
    prodFrom F a (c1 + c2) = prodFrom F a c1 * prodFrom F (a + c1) c2 := by
  intro c1
  induction c1 with
  | zero => intro c2 a; simp [prodFrom]
  | succ c1 ih =>
    intro c2 a
    have : c1 + 1 + c2 = (c1 + c2) + 1 := by omega
    rw [this]
    show F a * prodFrom F (a + 1) (c1 + c2) = F a * prodFrom F (a + 1) c1 * prodFrom F (a + (c1 + 1)) c2
    rw [ih c2 (a + 1), Matrix.mul_assoc]
    congr 3; omega

/-! ### plane rotations -/

/-- the rotation `G` in the plane `(p, q)`: `M * G` replaces column `p` by `c·M_p + s·M_q` and
    column `q` by `−s·M_p + c·M_q` — the update `x' = x·c + z·s; z' = −x·s + z·c` of the code -/
def Grot (p q : ι) (c s : K) : Matrix ι ι K := fun a b =>
  if a = p ∧ b = p then c else if a = q ∧ b = p then s else if a = p ∧ b = q then -s
  else if a = q ∧ b = q then c else if a = b then 1 else 0

omit [LinearOrder K] [IsStrictOrderedRing K] in
/-- columns of `M * Grot p q c s` -/
theorem mul_Grot_apply {κ : Type} [Fintype κ] (M : Matrix κ ι K) {p q : ι} (hpq : p ≠ q) (c s : K) (a : κ) (b : ι) :
    (M * Grot p q c s) a b =
      if b = p then M a p * c + M a q * s else if b = q then -(M a p) * s + M a q * c else M a b := by
  rw [Matrix.mul_apply]
  have hqp : q ≠ p := fun e => hpq e.symm
  by_cases hbp : b = p
  · subst hbp
    rw [if_pos rfl]
    rw [Finset.sum_eq_add_of_mem b q (Finset.mem_univ _) (Finset.mem_univ _) hpq]
    · simp [Grot, hpq, hqp]
    · intro k _ hk
      simp [Grot, hk.1, hk.2]
  · rw [if_neg hbp]
    by_cases hbq : b = q
    · subst hbq
      rw [if_pos rfl]
      rw [Finset.sum_eq_add_of_mem p b (Finset.mem_univ _) (Finset.mem_univ _) hpq]
      · simp [Grot, hpq, hqp]
      · intro k _ hk
        simp [Grot, hk.1, hk.2, hbp]
    · rw [if_neg hbq]
      rw [Finset.sum_eq_single b]
      · simp [Grot, hbp, hbq]
      · intro k _ hk
        simp [Grot, hbp, hbq, hk]
      · intro h; exact absurd (Finset.mem_univ _) h

omit [LinearOrder K] [IsStrictOrderedRing K] in
/-- rows of `(Grot p q c s)ᵀ * M` -/
theorem Grot_transpose_mul_apply {κ : Type} [Fintype κ] (M : Matrix ι κ K) {p q : ι} (hpq : p ≠ q) (c s : K)
    (a : ι) (b : κ) :
    ((Grot p q c s)ᵀ * M) a b =
      if a = p then c * M p b + s * M q b else if a = q then -s * M p b + c * M q b else M a b := by
  have h1 : ((Grot p q c s)ᵀ * M) a b = (Mᵀ * Grot p q c s) b a := by
    rw [← Matrix.transpose_apply (Mᵀ * Grot p q c s), Matrix.transpose_mul, Matrix.transpose_transpose]
  rw [h1, mul_Grot_apply Mᵀ hpq]
  simp only [Matrix.transpose_apply]
  split
  · ring
  · split
    · ring
    · rfl

omit [LinearOrder K] [IsStrictOrderedRing K] in
/-- a rotation with `c² + s² = 1` is orthogonal -/
theorem Grot_mul_transpose {p q : ι} (hpq : p ≠ q) (c s : K) (h : c * c + s * s = 1) :
    Grot p q c s * (Grot p q c s)ᵀ = 1 := by
  have hqp : q ≠ p := fun e => hpq e.symm
  have hT : (Grot p q c s)ᵀ = Grot p q c (-s) := by
    ext a b
    simp only [Matrix.transpose_apply, Grot]
    by_cases h1 : a = p <;> by_cases h2 : b = p <;> by_cases h3 : a = q <;> by_cases h4 : b = q <;>
      simp_all [eq_comm]
  rw [hT]
  ext a b
  rw [mul_Grot_apply _ hpq, Matrix.one_apply]
  by_cases hbp : b = p
  · subst hbp
    rw [if_pos rfl]
    by_cases hab : a = b
    · subst hab; simp [Grot, hpq, hqp]; linear_combination h
    · by_cases haq : a = q
      · subst haq; simp [Grot, hpq, hqp, hab]; ring
      · simp [Grot, hpq, hqp, hab, haq]
  · rw [if_neg hbp]
    by_cases hbq : b = q
    · subst hbq
      rw [if_pos rfl]
      by_cases hab : a = b
      · subst hab; simp [Grot, hpq, hqp]; linear_combination h
      · by_cases hap : a = p
        · subst hap; simp [Grot, hpq, hqp, hab]; ring
        · simp [Grot, hpq, hqp, hab, hap]
    · rw [if_neg hbq]
      by_cases hab : a = b
      · subst hab; simp [Grot, hbp, hbq]
      · simp [Grot, hab, hbp, hbq]

omit [LinearOrder K] [IsStrictOrderedRing K] in
theorem Grot_transpose_mul {p q : ι} (hpq : p ≠ q) (c s : K) (h : c * c + s * s = 1) :
    (Grot p q c s)ᵀ * Grot p q c s = 1 :=
  mul_eq_one_comm.mp (Grot_mul_transpose hpq c s h)

/-! ### the bidiagonal matrix -/

/-- upper bidiagonal `n × n`: diagonal `w 1 … w n`, super-diagonal entry `(j−1, j)` is `e j`
    (1-based, as `W[j]`, `rv1[j]` in the code) -/
def bidiagN (n : Nat) (w e : Nat → K) : Matrix (Fin n) (Fin n) K := fun r c =>
  if r.val = c.val then w (c.val + 1) else if r.val + 1 = c.val then e (c.val + 1) else 0

/-- upper bidiagonal `m × n` -/
def bidiagMN (m n : Nat) (w e : Nat → K) : Matrix (Fin m) (Fin n) K := fun r c =>
  if r.val = c.val then w (c.val + 1) else if r.val + 1 = c.val then e (c.val + 1) else 0

/-- the `m × n` "identity" -/
def eyeMN (m n : Nat) : Matrix (Fin m) (Fin n) K := fun r c => if r.val = c.val then 1 else 0

omit [LinearOrder K] [IsStrictOrderedRing K] in
theorem bidiagN_diag (n : Nat) (w e : Nat → K) (h : ∀ j, 1 ≤ j → j ≤ n → e j = 0) :
    bidiagN n w e = diagonal fun i : Fin n => w (i.val + 1) := by
  ext r c
  unfold bidiagN
  by_cases hrc : r = c
  · subst hrc; simp
  · have : r.val ≠ c.val := fun e => hrc (Fin.ext e)
    rw [if_neg this, Matrix.diagonal_apply_ne _ hrc]
    split
    · exact h _ (by omega) (by have := c.2; omega)
    · rfl

omit [LinearOrder K] [IsStrictOrderedRing K] in
theorem eyeMN_mul_bidiagN (m n : Nat) (w e : Nat → K) (hw : ∀ j, m < j → j ≤ n → w j = 0)
    (he : ∀ j, m + 1 < j → j ≤ n → e j = 0) : eyeMN m n * bidiagN n w e = bidiagMN m n w e := by
  ext r c
  rw [Matrix.mul_apply]
  by_cases hr : r.val < n
  · rw [Finset.sum_eq_single (⟨r.val, hr⟩ : Fin n)]
    · simp [eyeMN, bidiagN, bidiagMN]
    · intro k _ hk
      have : r.val ≠ k.val := fun e => hk (Fin.ext e.symm)
      simp [eyeMN, this]
    · intro h; exact absurd (Finset.mem_univ _) h
  · rw [Finset.sum_eq_zero]
    · unfold bidiagMN
      have h1 : ¬ r.val = c.val := by have := c.2; omega
      have h2 : ¬ r.val + 1 = c.val := by have := c.2; omega
      rw [if_neg h1, if_neg h2]
    · intro k _
      have : r.val ≠ k.val := by have := k.2; omega
      simp [eyeMN, this]

end algebra

end Gama.Ls.Svd
