/-
  THE input-side solver hypothesis of the façade theorems, one per algorithm, on the ORIGINAL `(A, P, S)`:

      `InputGap alg A P S τ` :=  `GapThresholds τ ∧ RankGap A P S τ`      for envelope, cholesky, gso
                                 `Svd.wTol ≤ τ ∧ SingGap A P τ`           for svd

  (`RankGap`: `Lemmas/Ls/Gap2.lean`; `GapThresholds`: `Lemmas/Ls/Gap2Facade.lean`; `SingGap`:
  `Lemmas/Ls/SingGap.lean`).  Nothing in it mentions a run of a solver, a factor, a returned singular value or a
  homogenised system: it is a condition on the design matrix, the weight matrix, the regularisation subset and
  one number `τ` that dominates the tolerances of the code asked.  `Net.SolverHyp alg np` / `AdjM.SolverHyp alg p`
  (per-algorithm trace premises, definitions unchanged) FOLLOW from it (`Props/C01/InputGap.lean`), so every
  `LocalNetwork`- and `Adj`-level theorem has a `_gap` form whose only solver hypothesis is `InputGap`.
-/
import Gama.Lemmas.Ls.SingGap
import Gama.Lemmas.Ls.Gap2Facade
namespace Gama.Ls
open Gama Gama.LS Matrix

set_option linter.unusedSectionVars false

section inputGap
variable {K : Type} [Field K] [LinearOrder K] [IsStrictOrderedRing K] [Gso.SqrtField K] {m n : ℕ}
attribute [local instance] sqrtFnOfSqrtField
attribute [local instance 2000] scalarOfField

/-- "rank numerically unambiguous", stated on the input, for the algorithm that is asked -/
def InputGap (alg : Alg) (A : Matrix (Fin m) (Fin n) K) (P : Matrix (Fin m) (Fin m) K) (S : Finset (Fin n))
    (τ : K) : Prop :=
  match alg with
  | .svd => (Svd.wTol : K) ≤ τ ∧ SingGap A P τ
  | _ => GapThresholds τ ∧ RankGap A P S τ

variable {A : Matrix (Fin m) (Fin n) K} {P : Matrix (Fin m) (Fin m) K} {S : Finset (Fin n)} {τ : K}

theorem InputGap.svd_iff : InputGap .svd A P S τ ↔ (Svd.wTol : K) ≤ τ ∧ SingGap A P τ := Iff.rfl

theorem InputGap.of_ne_svd {alg : Alg} (halg : alg ≠ .svd) :
    InputGap alg A P S τ ↔ GapThresholds τ ∧ RankGap A P S τ := by
  cases alg with
  | svd => exact absurd rfl halg
  | env => exact Iff.rfl
  | chol => exact Iff.rfl
  | gso => exact Iff.rfl

/-- both first-stage hypotheses give the one of every algorithm -/
theorem InputGap.of_both (alg : Alg) (hτ : GapThresholds τ) (hw : (Svd.wTol : K) ≤ τ) (h : RankGap A P S τ)
    (hsv : SingGap A P τ) : InputGap alg A P S τ := by
  cases alg with
  | svd => exact ⟨hw, hsv⟩
  | env => exact ⟨hτ, h⟩
  | chol => exact ⟨hτ, h⟩
  | gso => exact ⟨hτ, h⟩

/-- a subset that one of envelope/cholesky/gso is asked with under its hypothesis resolves the defect -/
theorem InputGap.resolves {alg : Alg} (halg : alg ≠ .svd) (h : InputGap alg A P S τ) : Resolves A S :=
  ((InputGap.of_ne_svd halg).1 h).2.2.resolves

end inputGap
end Gama.Ls
