/-
  DESIGN §C01 (B) for the Gram–Schmidt solver, first orthogonalisation: the hypothesis
  "rank numerically unambiguous" stated on EXACT quantities of the problem instead of on the
  model's own trace.

  `GapCols p`: for every unknown k, the unnormalised Gram–Schmidt vector of column k — the unique
  e = A β with β_k = 1, β_j = 0 for j > k, e ⟂ columns 1..k−1 (the residual of column k after
  projection on the span of the earlier columns) — has norm exactly 0 or greater than the
  tolerance.  This is a statement about A only.

  `unamb1_of_gap`: under `GapCols` every norm tested by `icgs1` is 0 or > tolerance (induction
  along the loop: the invariants of the processed prefix identify the tested vector with that
  residual).  `gso_unambiguous_of_gap`: together with the same dichotomy for the norms of the
  second orthogonalisation (still stated on the trace: `tested.drop n`; empty when the defect
  is 0) this gives `Unambiguous p`.
-/
import Gama.Lemmas.Ls.GsoMore

namespace Gama.Ls.Gso
open Gama Finset Matrix Gama.LS

set_option linter.unusedSectionVars false

variable {K : Type} [Field K] [LinearOrder K] [IsStrictOrderedRing K] [SqrtField K]

/-- list-level gap hypothesis for the columns `cs` -/
def Gap1 (a : Nat → Nat → K) (M N : Nat) (tol : K) (cs : List (Col K)) : Prop :=
  ∀ (pre : List (Col K)) (c : Col K) (post : List (Col K)), cs = pre ++ c :: post →
    ∀ e β : List K, Aug a M N ⟨e, β⟩ → β.getD pre.length 0 = 1 →
      (∀ j, pre.length < j → β.getD j 0 = 0) → (∀ c' ∈ pre, dot c'.top e = 0) →
      Scalar.sqrt (dot e e) = 0 ∨ tol < Scalar.sqrt (dot e e)

theorem Gap1.init {a : Nat → Nat → K} {M N : Nat} {tol : K} {cs : List (Col K)} {c : Col K}
    (h : Gap1 a M N tol (cs ++ [c])) : Gap1 a M N tol cs := by
  intro pre c0 post hdec
  exact h pre c0 (post ++ [c]) (by rw [hdec]; simp)

theorem unamb1_of_gap {a : Nat → Nat → K} {M N : Nat} {tol : K} (htol : 0 ≤ tol)
    (cs : List (Col K)) (hcs : InCols a M N cs) (hG : Gap1 a M N tol cs) :
    ∀ r ∈ (cs.foldl (step1 tol) {}).tested, r = 0 ∨ tol < r := by
  induction cs using List.reverseRecOn with
  | nil => intro r hr; simp at hr
  | append_singleton cs c ih =>
    have ih' := ih hcs.init hG.init
    have I := inv1_foldl htol cs hcs.init ih'
    rw [List.foldl_append, List.foldl_cons, List.foldl_nil, step1_tested]
    intro r hr
    rcases List.mem_append.1 hr with hr | hr
    · exact ih' r hr
    · rw [List.mem_singleton.1 hr]
      set s := cs.foldl (step1 tol) {} with hs
      have hlast : (cs ++ [c])[cs.length]? = some c := by simp
      have hc : Aug a M N c := hcs.aug c (by simp)
      have hpaug : Aug a M N (orth1 s.qs c) := AugG.orth1 c s.qs hc I.aug
      have hporth := orth1_top_orth s.qs I.gs c hc.ltop
      have hlb : ∀ q ∈ s.qs, q.bot.length = N := fun q hq => (I.aug q hq).lbot
      have hPget : ∀ j, cs.length ≤ j → (orth1 s.qs c).bot.getD j 0 = c.bot.getD j 0 := fun j hj =>
        lin_orth1_bot (fun v => v.getD j 0)
          (fun a b r ha hb => getD_vaxpy a b r j (ha.trans hb.symm)) s.qs c hc.lbot fun q hq => by
            refine ⟨hlb q hq, ?_⟩
            obtain ⟨i, hi, rfl⟩ := List.getElem_of_mem hq
            exact I.tri i _ (List.getElem?_eq_getElem hi) j (by rw [I.len] at hi; omega)
      show Scalar.sqrt (dot (orth1 s.qs c).top (orth1 s.qs c).top) = 0
        ∨ tol < Scalar.sqrt (dot (orth1 s.qs c).top (orth1 s.qs c).top)
      refine hG cs c [] rfl (orth1 s.qs c).top (orth1 s.qs c).bot hpaug ?_ ?_ ?_
      · rw [hPget _ (le_refl _)]; exact hcs.diag _ c hlast
      · intro j hj
        rw [hPget j (le_of_lt hj)]; exact hcs.tri _ c hlast j hj
      · refine I.spanTop _ fun q hq => ?_
        rw [dot_comm]; exact hporth q hq

theorem step1_tested_length (tol : K) (cs : List (Col K)) :
    (cs.foldl (step1 tol) {}).tested.length = cs.length := by
  induction cs using List.reverseRecOn with
  | nil => rfl
  | append_singleton cs c ih =>
    rw [List.foldl_append, List.foldl_cons, List.foldl_nil, step1_tested]
    simp [ih]

-- ------------------------------------------------------------------ in terms of the problem

/-- every unnormalised Gram–Schmidt vector of the columns of `A` (in the natural order) has norm
    exactly 0 or greater than the tolerance -/
def GapCols (p : Problem K) : Prop :=
  ∀ (k : Fin p.n) (β : Fin p.n → K), β k = 1 → (∀ j, k < j → β j = 0) →
    (∀ j, j < k → ((p.A)ᵀ *ᵥ (p.A *ᵥ β)) j = 0) →
    Scalar.sqrt ((p.A *ᵥ β) ⬝ᵥ (p.A *ᵥ β)) = 0
      ∨ (tolerance : K) < Scalar.sqrt ((p.A *ᵥ β) ⬝ᵥ (p.A *ᵥ β))

theorem gap1_of_gapCols (p : Problem K) (hG : GapCols p) :
    Gap1 (aOf p) p.m p.n (tolerance : K) (colsIn p) := by
  intro pre c post hdec e β haug hβ1 hβ0 horth
  have hlen : (colsIn p).length = p.n := augmented_length _ _ _ _
  have hk : pre.length < p.n := by
    have := congrArg List.length hdec
    rw [hlen] at this
    simp at this
    omega
  -- e as the vector A β
  have he : ∀ r : Fin p.m, e.getD r 0 = (p.A *ᵥ toFn p.n β) r := by
    intro r
    have := haug.eq r r.2
    simp only [sub_zero] at this
    rw [this, ← Fin.sum_univ_eq_sum_range (fun j => aOf p r j * β.getD j 0) p.n]
    rfl
  have hee : dot e e = (p.A *ᵥ toFn p.n β) ⬝ᵥ (p.A *ᵥ toFn p.n β) := by
    rw [dot_eq_sum p.m e e haug.ltop haug.ltop,
      ← Fin.sum_univ_eq_sum_range (fun r => e.getD r 0 * e.getD r 0) p.m]
    simp only [dotProduct]
    exact sum_congr rfl fun r _ => by rw [he r]
  rw [hee]
  refine hG ⟨pre.length, hk⟩ (toFn p.n β) hβ1 (fun j hj => hβ0 j hj) ?_
  intro j hj
  -- column j (j < k) is an element of `pre`
  have hjk : (j : Nat) < pre.length := hj
  have hcj : (colsIn p)[(j : Nat)]? = some
      { top := (List.range p.m).map fun r => aOf p r j,
        bot := (List.range p.n).map fun r => if r = (j : Nat) then 1 else 0 } := by
    simp [colsIn, augmented]
  rw [hdec, List.getElem?_append_left hjk] at hcj
  have h0 := horth _ (List.mem_of_getElem? hcj)
  rw [dot_eq_sum p.m _ _ (by simp) haug.ltop,
    ← Fin.sum_univ_eq_sum_range (fun r => ((List.range p.m).map fun r => aOf p r j).getD r 0
      * e.getD r 0) p.m] at h0
  simp only [mulVec, dotProduct, transpose_apply]
  rw [← h0]
  refine sum_congr rfl fun r _ => ?_
  rw [getD_map_range, if_pos r.2, he r]
  rfl

/-- the trace of `runOf p`: the `n` norms of the first orthogonalisation, then those of the second -/
theorem runOf_tested (p : Problem K) :
    ∃ t2, (runOf p).tested = ((colsIn p).foldl (step1 (tolerance : K)) {}).tested ++ t2 := by
  rw [runOf_eq]
  unfold icgs2
  split
  · exact ⟨[], by simp; rfl⟩
  · exact ⟨_, rfl⟩

/-- **(B)**: `Unambiguous` from the gap hypothesis on the exact Gram–Schmidt vectors of `A`
    (first orthogonalisation) and the dichotomy for the second orthogonalisation's norms -/
theorem gso_unambiguous_of_gap (p : Problem K) (hG : GapCols p)
    (h2 : ∀ r ∈ (runOf p).tested.drop p.n, r = 0 ∨ (tolerance : K) < r) : Unambiguous p := by
  obtain ⟨t2, ht⟩ := runOf_tested p
  have h1 := unamb1_of_gap tolerance_nonneg (colsIn p) (augmented_inCols _ _ _ _) (gap1_of_gapCols p hG)
  have hlen : ((colsIn p).foldl (step1 (tolerance : K)) {}).tested.length = p.n := by
    rw [step1_tested_length]; exact augmented_length _ _ _ _
  intro r hr
  rw [ht] at hr h2
  rcases List.mem_append.1 hr with hr | hr
  · exact h1 r hr
  · apply h2
    rw [List.drop_append_of_le_length (le_of_eq hlen.symm), ← hlen, List.drop_length]
    simpa using hr

/-- regular systems: the gap hypothesis on `A` alone suffices when no column is flagged
    (then `icgs2` returns at once and tests nothing) -/
theorem gso_unambiguous_of_gap_regular (p : Problem K) (hG : GapCols p)
    (hreg : (stage1 p).dep = []) : Unambiguous p := by
  apply gso_unambiguous_of_gap p hG
  obtain ⟨t2, ht⟩ := runOf_tested p
  have hlen : ((colsIn p).foldl (step1 (tolerance : K)) {}).tested.length = p.n := by
    rw [step1_tested_length]; exact augmented_length _ _ _ _
  have hrun : (runOf p).tested = (stage1 p).tested := by
    rw [runOf_eq]; unfold icgs2; simp [hreg]
  intro r hr
  rw [hrun, icgs1_tested, ← hlen, List.drop_length] at hr
  simp at hr

theorem icgs2_dep (tol : K) (mask : List Bool) (r : R1 K) : (icgs2 tol mask r).dep = r.dep := by
  unfold icgs2
  split <;> rfl

/-- a solver answer with defect 0 comes from a run without flagged columns -/
theorem stage1_dep_nil_of_defect {refuse : Bool} {p : Problem K} {ans : Answer K}
    (h : gsoSolveWith refuse p = .ok ans) (hd : ans.defect = 0) : (stage1 p).dep = [] := by
  obtain ⟨-, -, -, hdef, -⟩ := gsoSolveWith_ok h
  rw [hdef, runOf_eq, icgs2_dep] at hd
  exact List.length_eq_zero_iff.1 hd

end Gama.Ls.Gso
