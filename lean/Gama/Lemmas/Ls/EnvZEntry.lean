/-
  Envelope solver, C03 clause 10: the sparse inverse inside the envelope equals the full inverse.

  `Envelope::inverse` (model `Env.invRec` / `Env.zEntry`: the recurrence
  `Z = D⁻¹L⁻¹ + (I − Lᵀ)Z` evaluated column by column from the last to the first, a zero
  pivot zeroes its whole column) and the full-inverse column `AdjEnvelope::q0_xx` computes
  outside the envelope (model `Env.q0`: component `min i j` of `solve(e_{max i j})`, i.e. of
  `L⁻ᵀ D⁺ L⁻¹ e_max`) return the same number, for EVERY factor `rows` (any shape, any size)
  in which a zero pivot has a zero column of `L` below it.

  * `zg/wg/xg`, `isLower_g/isDiag_g/isUpper_g` – the three solves for arbitrary `rows`
    satisfy the abstract recursion equations of `EnvFactor.lean`;
  * `Xg_symm`            – `X = L⁻ᵀ D⁺ L⁻¹ = Zᵀ D⁺ Z` is symmetric (matrix algebra, `Z = L⁻¹`);
  * `zg_unit_lt/_self`   – `L⁻¹ e_j` vanishes above `j` and is `1` at `j`;
  * `invCol_eq`          – every cell of every column of `invRec` is the cell of `X`;
  * `zEntry_eq_q0`       – the theorem; `zEntry_eq_q0_ldl`, `zEntry_eq_q0_factor` – the
    hypothesis holds for every factor `Env.ldl` builds (`lRow` writes `0` on a zero pivot),
    in particular for the solver's own `(factor …).rows`, with no further assumption.

  The hypothesis is necessary: `rows = #[⟨#[],0,true⟩, ⟨#[1],1,false⟩]` (`D₀ = 0`,
  `L₁₀ = 1`) has `zEntry 0 0 = 0` but `q0 0 0 = 1`.
-/
import Gama.Model.Ls.Env
import Gama.Lemmas.Ls.EnvLDL
import Gama.Lemmas.Ls.EnvFactor
import Mathlib.LinearAlgebra.Matrix.NonsingularInverse
import Mathlib.Data.Matrix.Diagonal
import Mathlib.Data.Matrix.Mul

namespace Gama.Ls.Env
open Finset Matrix

set_option linter.unusedSectionVars false

variable {K : Type} [Field K] [LinearOrder K] [IsStrictOrderedRing K] (sq : K → K)
local notation "𝔽" => fieldScalar sq

variable (rows : Array (Row K)) (n : ℕ)

/-! ### the three solves for an arbitrary factor -/

/-- `L(i,j)` of an arbitrary factor -/
def Lg (i j : ℕ) : K := @Lget K 𝔽 rows i j
/-- `D(i)` of an arbitrary factor -/
def Dg (i : ℕ) : K := @Dget K 𝔽 rows i
/-- `z = lowerSolve(c)` -/
def zg (c : ℕ → K) (i : ℕ) : K := @vget K 𝔽 (@lower K 𝔽 rows n c) i
/-- `w = diagonalSolve(z)` -/
def wg (z : ℕ → K) (i : ℕ) : K := @vget K 𝔽 (@diagS K 𝔽 rows n z) i
/-- `x = upperSolve(w)` -/
def xg (w : ℕ → K) (i : ℕ) : K := @vget K 𝔽 (@upper K 𝔽 rows n w) i

theorem isLower_g (c : ℕ → K) : IsLower (Lg sq rows) n c (zg sq rows n c) := by
  intro i h
  unfold zg lower
  rw [vget_build sq h, sumTo_eq]
  simp only [fs_sub, fs_mul]
  congr 1
  refine sum_congr rfl fun j hj => ?_
  have hj' : j < i := mem_range.1 hj
  unfold Lg
  congr 1
  exact build_getD_prefix _ _ hj' (hj'.trans h)

theorem isDiag_g (z : ℕ → K) : IsDiag (Dg sq rows) n z (wg sq rows n z) := by
  intro i h
  unfold wg diagS Dg
  rw [vget_vecOf sq _ _ h]
  simp only [fs_beq, decide_eq_true_eq, fs_div, fs_zero]

theorem upperRev_get_g (w : ℕ → K) {t : ℕ} (h : t < n) :
    @vget K 𝔽 (@upperRev K 𝔽 rows n w) t
      = w (n - 1 - t) - ∑ s ∈ range t, Lg sq rows (n - 1 - s) (n - 1 - t)
          * @vget K 𝔽 (@upperRev K 𝔽 rows n w) s := by
  unfold upperRev
  rw [vget_build sq h, sumTo_eq]
  simp only [fs_sub, fs_mul]
  congr 1
  refine sum_congr rfl fun s hs => ?_
  have hs' : s < t := mem_range.1 hs
  unfold Lg
  congr 1
  exact build_getD_prefix _ _ hs' (hs'.trans h)

theorem isUpper_g (w : ℕ → K) : IsUpper (Lg sq rows) n w (xg sq rows n w) := by
  intro i h
  unfold xg upper
  simp only
  rw [vget_vecOf sq _ _ h, upperRev_get_g sq rows n w (by omega : n - 1 - i < n)]
  have e1 : n - 1 - (n - 1 - i) = i := by omega
  rw [e1]
  congr 1
  rw [sum_Ico_eq_sum_range]
  conv_rhs => rw [← sum_range_reflect]
  have e2 : n - (i + 1) = n - 1 - i := by omega
  rw [e2]
  refine sum_congr rfl fun s hs => ?_
  have hs' : s < n - 1 - i := mem_range.1 hs
  have e3 : i + 1 + (n - 1 - i - 1 - s) = n - 1 - s := by omega
  rw [e3, vget_vecOf sq _ _ (by omega : n - 1 - s < n)]
  have e4 : n - 1 - (n - 1 - s) = s := by omega
  rw [e4]

/-- component `i` of `Envelope::solve(e_j)` : the entry `(i,j)` of `L⁻ᵀ D⁺ L⁻¹` -/
def Xg (j i : ℕ) : K := xg sq rows n (wg sq rows n (zg sq rows n (@unit K 𝔽 j))) i

theorem vget_solve_g (c : ℕ → K) (i : ℕ) :
    @vget K 𝔽 (@solve K 𝔽 rows n c) i = xg sq rows n (wg sq rows n (zg sq rows n c)) i := rfl

theorem q0_eq_Xg (i j : ℕ) : @q0 K 𝔽 rows n i j = Xg sq rows n (max i j) (min i j) := rfl

theorem unit_apply' (k i : ℕ) : @unit K 𝔽 k i = if i = k then 1 else 0 := rfl

/-! ### `L⁻¹ e_j` -/

theorem zg_unit_lt {i j : ℕ} (hi : i < n) (hij : i < j) : zg sq rows n (@unit K 𝔽 j) i = 0 := by
  induction i using Nat.strong_induction_on with
  | _ i ih =>
    rw [isLower_g sq rows n _ i hi, unit_apply', if_neg (by omega), zero_sub, neg_eq_zero]
    refine sum_eq_zero fun k hk => ?_
    have hk' : k < i := mem_range.1 hk
    rw [ih k hk' (by omega) (by omega), mul_zero]

theorem zg_unit_self {j : ℕ} (hj : j < n) : zg sq rows n (@unit K 𝔽 j) j = 1 := by
  rw [isLower_g sq rows n _ j hj, unit_apply', if_pos rfl]
  have : ∑ k ∈ range j, Lg sq rows j k * zg sq rows n (@unit K 𝔽 j) k = 0 := by
    refine sum_eq_zero fun k hk => ?_
    have hk' : k < j := mem_range.1 hk
    rw [zg_unit_lt sq rows n (by omega) hk', mul_zero]
  rw [this, sub_zero]

/-- `D⁺ L⁻¹ e_j` is lower triangular … -/
theorem wg_unit_lt {i j : ℕ} (hi : i < n) (hij : i < j) :
    wg sq rows n (zg sq rows n (@unit K 𝔽 j)) i = 0 := by
  rw [isDiag_g sq rows n _ i hi, zg_unit_lt sq rows n hi hij]
  simp

/-- … with diagonal `D⁺` -/
theorem wg_unit_self {j : ℕ} (hj : j < n) (hd : Dg sq rows j ≠ 0) :
    wg sq rows n (zg sq rows n (@unit K 𝔽 j)) j = 1 / Dg sq rows j := by
  rw [isDiag_g sq rows n _ j hj, zg_unit_self sq rows n hj, if_neg hd]

/-! ### symmetry of `X = L⁻ᵀ D⁺ L⁻¹` -/

/-- unit lower triangular `L` as a matrix -/
def LuMat : Matrix (Fin n) (Fin n) K := fun a b => Lu (Lg sq rows) a b
/-- `Z = L⁻¹` : column `b` is `lowerSolve(e_b)` -/
def ZMat : Matrix (Fin n) (Fin n) K := fun a b => zg sq rows n (@unit K 𝔽 b) a
/-- `X` : column `b` is `solve(e_b)` -/
def XMat : Matrix (Fin n) (Fin n) K := fun a b => Xg sq rows n b a
/-- `D⁺` -/
def dpg : Fin n → K := fun k => if Dg sq rows k = 0 then 0 else (Dg sq rows k)⁻¹

theorem LuMat_mul_ZMat : LuMat sq rows n * ZMat sq rows n = 1 := by
  ext a b
  simp only [mul_apply, LuMat, ZMat, one_apply, Fin.ext_iff]
  rw [Fin.sum_univ_eq_sum_range (fun k => Lu (Lg sq rows) a k * zg sq rows n (@unit K 𝔽 b) k) n,
    (isLower_g sq rows n (@unit K 𝔽 b)).mul a.2, unit_apply']

theorem LuMatT_mul_XMat : (LuMat sq rows n)ᵀ * XMat sq rows n = diagonal (dpg sq rows n) * ZMat sq rows n := by
  ext a b
  rw [diagonal_mul]
  simp only [mul_apply, transpose_apply, LuMat, XMat, ZMat, dpg]
  rw [Fin.sum_univ_eq_sum_range (fun k => Lu (Lg sq rows) k a * Xg sq rows n b k) n]
  unfold Xg
  rw [(isUpper_g sq rows n _).mul a.2, isDiag_g sq rows n _ a a.2]
  split
  · simp
  · rw [div_eq_inv_mul]

/-- `X = Zᵀ D⁺ Z` with `Z = L⁻¹` -/
theorem XMat_eq : XMat sq rows n = (ZMat sq rows n)ᵀ * diagonal (dpg sq rows n) * ZMat sq rows n := by
  have h1 := LuMat_mul_ZMat sq rows n
  have h4 : (ZMat sq rows n)ᵀ * (LuMat sq rows n)ᵀ = 1 := by rw [← transpose_mul, h1, transpose_one]
  calc XMat sq rows n = ((ZMat sq rows n)ᵀ * (LuMat sq rows n)ᵀ) * XMat sq rows n := by rw [h4, Matrix.one_mul]
    _ = (ZMat sq rows n)ᵀ * diagonal (dpg sq rows n) * ZMat sq rows n := by
        rw [Matrix.mul_assoc, LuMatT_mul_XMat, Matrix.mul_assoc]

theorem XMat_symm : (XMat sq rows n)ᵀ = XMat sq rows n := by
  rw [XMat_eq, transpose_mul, transpose_mul, transpose_transpose, diagonal_transpose, Matrix.mul_assoc]

/-- `X = L⁻ᵀ D⁺ L⁻¹` is symmetric -/
theorem Xg_symm {i j : ℕ} (hi : i < n) (hj : j < n) : Xg sq rows n j i = Xg sq rows n i j := by
  have := congrFun (congrFun (XMat_symm sq rows n) ⟨i, hi⟩) ⟨j, hj⟩
  rw [transpose_apply] at this
  exact this.symm

/-- recursion of the upper solve, for the column `j` of `X` -/
theorem Xg_rec {i j : ℕ} (hi : i < n) :
    Xg sq rows n j i = wg sq rows n (zg sq rows n (@unit K 𝔽 j)) i
        - ∑ k ∈ Ico (i + 1) n, Lg sq rows k i * Xg sq rows n j k :=
  isUpper_g sq rows n _ i hi

/-- zero pivot with a zero column below it: the whole column (and row) of `X` vanishes -/
theorem Xg_zero_col (hz : ∀ k < n, Dg sq rows k = 0 → ∀ i, k < i → i < n → Lg sq rows i k = 0)
    {i j : ℕ} (hi : i < n) (hj : j < n) (h0 : Dg sq rows j = 0) : Xg sq rows n j i = 0 := by
  rw [Xg_symm sq rows n hi hj]
  exact solve_dep_zero (isDiag_g sq rows n _) (isUpper_g sq rows n _)
    (fun a ha b hb h0 => hz b (by omega) h0 a hb ha) hj h0

/-! ### the columns of `Envelope::inverse` -/

/-- `sumTo` over the cells below `i` as a sum over `Ico (i+1) n` -/
theorem sumTo_shift (i : ℕ) (g : ℕ → K) :
    @sumTo K 𝔽 (n - 1 - i) (fun m => g (i + 1 + m)) = ∑ k ∈ Ico (i + 1) n, g k := by
  rw [sumTo_eq, sum_Ico_eq_sum_range]
  have e2 : n - (i + 1) = n - 1 - i := by omega
  rw [e2]

/-- a column computed in an earlier pass, read through `Zget` -/
theorem Zget_prev {t : ℕ} (ht : t < n)
    (ih : ∀ t' < t, ∀ i, i ≤ n - 1 - t' →
      @vget K 𝔽 (@invCol K 𝔽 rows n t' (build (@invCol K 𝔽 rows n) t')) i = Xg sq rows n (n - 1 - t') i)
    {a b : ℕ} (ha : a < n) (hb : b < n) (hab : n - 1 - t < max a b) :
    @Zget K 𝔽 n (build (@invCol K 𝔽 rows n) t) a b = Xg sq rows n (max a b) (min a b) := by
  unfold Zget
  simp only
  have hm : max a b < n := max_lt ha hb
  have hlt : n - 1 - max a b < t := by omega
  rw [build_getD _ _ hlt, ih _ hlt (min a b) (by have := min_le_max (a := a) (b := b); omega)]
  congr 1
  omega

/-- every cell of column `step = n-1-t` of `Envelope::inverse` is the cell of `L⁻ᵀ D⁺ L⁻¹` -/
theorem invCol_eq (hz : ∀ k < n, Dg sq rows k = 0 → ∀ i, k < i → i < n → Lg sq rows i k = 0)
    {t : ℕ} (ht : t < n) {i : ℕ} (hi : i ≤ n - 1 - t) :
    @vget K 𝔽 (@invCol K 𝔽 rows n t (build (@invCol K 𝔽 rows n) t)) i = Xg sq rows n (n - 1 - t) i := by
  induction t using Nat.strong_induction_on generalizing i with
  | _ t ih =>
    have hstep : n - 1 - t < n := by omega
    have ih' : ∀ t' < t, ∀ i, i ≤ n - 1 - t' →
        @vget K 𝔽 (@invCol K 𝔽 rows n t' (build (@invCol K 𝔽 rows n) t')) i = Xg sq rows n (n - 1 - t') i :=
      fun t' ht' i hi' => ih t' ht' (by omega) hi'
    have hprev := fun {a b : ℕ} (ha : a < n) (hb : b < n) (hab : n - 1 - t < max a b) =>
      Zget_prev sq rows n ht ih' ha hb hab
    generalize hzc : build (@invCol K 𝔽 rows n) t = zcols at hprev ⊢
    generalize hst : n - 1 - t = step at hprev hstep hi ⊢
    unfold invCol
    simp only [hst, fs_beq]
    by_cases h0 : @Dget K 𝔽 rows step = 0
    · rw [if_pos (by simpa using h0), vget_vecOf sq _ _ (by omega : i < step + 1)]
      exact (Xg_zero_col sq rows n hz (by omega) hstep h0).symm
    · rw [if_neg (by simpa using h0), vget_vecOf sq _ _ (by omega : i < step + 1)]
      -- the reversed build
      set dd : K := (1 / @Dget K 𝔽 rows step)
        - @sumTo K 𝔽 (n - 1 - step) (fun m => @Lget K 𝔽 rows (step + 1 + m) step
            * @Zget K 𝔽 n zcols step (step + 1 + m)) with hdd
      set F : ℕ → Array K → K := fun u acc =>
        if u = 0 then dd else
          0 - @sumTo K 𝔽 (n - 1 - (step - u)) (fun m =>
                @Lget K 𝔽 rows (step - u + 1 + m) (step - u)
                  * (if step - u + 1 + m ≤ step then @vget K 𝔽 acc (step - (step - u + 1 + m))
                     else @Zget K 𝔽 n zcols (step - u + 1 + m) step)) with hF
      have hdd' : dd = Xg sq rows n step step := by
        rw [hdd, sumTo_shift sq n step (fun k => @Lget K 𝔽 rows k step * @Zget K 𝔽 n zcols step k),
          Xg_rec sq rows n hstep, wg_unit_self sq rows n hstep h0]
        show 1 / Dg sq rows step - _ = _
        congr 1
        refine sum_congr rfl fun k hk => ?_
        have hk' := mem_Ico.1 hk
        rw [hprev hstep hk'.2 (by rw [max_eq_right (by omega)]; omega),
          max_eq_right (by omega), min_eq_left (by omega), Xg_symm sq rows n hstep hk'.2]
        rfl
      have key : ∀ u, u ≤ step → F u (build F u) = Xg sq rows n step (step - u) := by
        intro u
        induction u using Nat.strong_induction_on with
        | _ u ihu =>
          intro hu
          by_cases hu0 : u = 0
          · subst hu0; simp only [hF, if_true]; exact hdd'
          · simp only [hF, if_neg hu0]
            have hi' : step - u < n := by omega
            rw [sumTo_shift sq n (step - u) (fun k => @Lget K 𝔽 rows k (step - u)
                * (if k ≤ step then @vget K 𝔽 (build F u) (step - k) else @Zget K 𝔽 n zcols k step)),
              Xg_rec sq rows n hi', wg_unit_lt sq rows n hi' (by omega)]
            show 0 - _ = 0 - _
            congr 1
            refine sum_congr rfl fun k hk => ?_
            have hk' := mem_Ico.1 hk
            show @Lget K 𝔽 rows k (step - u) * _ = Lg sq rows k (step - u) * _
            unfold Lg
            congr 1
            by_cases hks : k ≤ step
            · rw [if_pos hks, vget_build sq (by omega : step - k < u), ihu (step - k) (by omega) (by omega)]
              congr 1
              omega
            · rw [if_neg hks, hprev hk'.2 hstep (by rw [max_eq_left (by omega)]; omega),
                max_eq_left (by omega), min_eq_right (by omega), Xg_symm sq rows n hstep hk'.2]
      rw [vget_build sq (by omega : step - i < step + 1), key (step - i) (by omega)]
      congr 1
      omega

/-! ### the theorem -/

/-- **`Envelope::inverse` = full inverse**: for every factor in which a zero pivot has a zero
    column of `L` below it, the cell `(i,j)` the Takahashi-style recurrence of
    `Envelope::inverse` leaves in the envelope is the component `min i j` of
    `solve(e_{max i j})` that `AdjEnvelope::q0_xx` computes outside the envelope.
    No shape hypothesis on `rows` is needed (`Lget`, `Dget` read `0` outside). -/
theorem zEntry_eq_q0 (hz : ∀ k < n, @Dget K 𝔽 rows k = 0 → ∀ i, k < i → i < n → @Lget K 𝔽 rows i k = 0)
    (i j : ℕ) (hi : i < n) (hj : j < n) :
    @zEntry K 𝔽 rows n i j = @q0 K 𝔽 rows n i j := by
  rw [q0_eq_Xg]
  unfold zEntry invRec Zget
  simp only
  have hm : max i j < n := max_lt hi hj
  have hlt : n - 1 - max i j < n := by omega
  rw [build_getD _ _ hlt,
    invCol_eq sq rows n hz hlt (by have := min_le_max (a := i) (b := j); omega)]
  congr 1
  omega

/-- every factor `Envelope::cholDec` builds has zero columns below its zero pivots
    (`diagonalSolve` writes `0` when the pivot is `0`) -/
theorem ldl_zero_col (N : ℕ → ℕ → K) (tol : K) {k : ℕ} (hk : k < n)
    (h0 : @Dget K 𝔽 (@ldl K 𝔽 N tol n) k = 0) {i : ℕ} (hki : k < i) (hi : i < n) :
    @Lget K 𝔽 (@ldl K 𝔽 N tol n) i k = 0 := by
  rw [Dget_ldl sq N tol hk] at h0
  rw [Lget_ldl sq N tol hi, Lf_eq sq N tol hki, if_pos h0]

/-- the theorem for the factor of any matrix, any tolerance (regular or singular) -/
theorem zEntry_eq_q0_ldl (N : ℕ → ℕ → K) (tol : K) (i j : ℕ) (hi : i < n) (hj : j < n) :
    @zEntry K 𝔽 (@ldl K 𝔽 N tol n) n i j = @q0 K 𝔽 (@ldl K 𝔽 N tol n) n i j :=
  zEntry_eq_q0 sq _ n (fun _ hk h0 _ hki hi => ldl_zero_col sq n N tol hk h0 hki hi) i j hi hj

/-- the theorem for the solver's own factor (`AdjEnvelope::solve_x0`), unconditionally -/
theorem zEntry_eq_q0_factor (tol : K) (m : ℕ) (At : DMat K) (bt : Array K) (o : EnvOrd)
    (i j : ℕ) (hi : i < n) (hj : j < n) :
    @zEntry K 𝔽 (@factor K 𝔽 tol m n At bt o).rows n i j = @q0 K 𝔽 (@factor K 𝔽 tol m n At bt o).rows n i j :=
  zEntry_eq_q0_ldl sq n _ tol i j hi hj

end Gama.Ls.Env
