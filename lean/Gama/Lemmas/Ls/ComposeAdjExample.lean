/-
  Concrete instances for the non-vacuity examples of `Props/C01/AdjSolvers.lean`: problems with a
  CORRELATED covariance block and a RANK-DEFICIENT design matrix, run through the façade `Adj`.

  `Ex.pCS K` (any field): m = 3, n = 2,
      A = [[4,4],[5,5],[4,4]] (two equal columns: defect 1, kernel (1,−1)), b = (1,2,3),
      C = diag([[4,2],[2,10]], 4) (band width 1 block + one uncorrelated observation),
      regularisation subset S = {1} (resolves the defect).
    `Adj` factors `[[4,2],[2,10]] = L̃L̃ᵀ`, `L̃ = [[2,0],[1,3]]` (LDLᵀ pivots 4, 9; √4 = 2, √9 = 3) and
    `4 = 2·2`, and hands the solver `A_dot = [[2,2],[1,1],[2,2]]`, `b_dot = (1/2,1/2,3/2)`.
    * over ℝ (`Real.sqrt`; the model evaluated by `simp`/`norm_num`, no `decide`): the Gram–Schmidt run
      on the homogenised system tests the norms 3, 0 (first phase) and 1 (second phase), x = (0, 1/2);
    * over ℚ (`Ex.sqQ`, kernel evaluation): the Cholesky solver on the homogenised system.
  `Ex.pCV` (ℝ): the same covariance, A = [[12,16],[15,20],[12,16]] (rank 1, kernel (4,−3)),
    `A_dot = [[6,8],[3,4],[6,8]]`, S = {1}: for the svd solver (all square roots the Golub–Reinsch
    iteration takes on this system are rational).
-/
import Gama.Lemmas.Ls.ComposeAdj
import Gama.Lemmas.Ls.GsoReal
import Gama.Lemmas.Ls.AdjCov
import Gama.Lemmas.Ls.AdjExample
import Gama.Lemmas.Ls.CholSingular
import Mathlib.Tactic.NormNum.RealSqrt
import Mathlib.Tactic.FinCases

namespace Gama.Ls

/-! ### general: the answer of `adjFull` from the answer of the solver -/

section
variable {K : Type} [Scalar K]
open AdjM Dn

theorem adjFull_ok {alg : Alg} {p : Problem K} {Ad : DMat K} {bd : Array K} {s : Answer K}
    (hh : homogenise p = .ok (Ad, bd))
    (hs : solverOf alg (dotProblem p Ad bd (regOf p.reg)) = .ok s) (hx : s.xErr = none) :
    ∃ a, adjFull alg p = .ok a ∧ a.x = s.x ∧ a.r = origResiduals p s.x ∧ a.defect = s.defect
      ∧ a.rtr = sumFrom 0 p.m fun i => vget s.r i * vget s.r i := by
  unfold adjFull
  simp only [hh, hs, hx]
  exact ⟨_, rfl, rfl, rfl, rfl, rfl⟩

theorem gsoSolveWith_xErr {refuse : Bool} {p : Problem K} {a : Answer K}
    (h : gsoSolveWith refuse p = .ok a) : a.xErr = none := by
  unfold gsoSolveWith at h
  simp only [] at h
  split at h
  · exact absurd h (by simp)
  · split at h
    · exact absurd h (by simp)
    · cases h; rfl

end

namespace Ex
open Gama Gama.Ls Gama.Ls.Dn Gama.Ls.AdjM Gama.LS

/-- correlated block, two equal columns, subset regularisation -/
def pCS (K : Type) [Field K] : Problem K :=
  { m := 3, n := 2
    rows := #[#[(1, 4), (2, 4)], #[(1, 5), (2, 5)], #[(1, 4), (2, 4)]]
    cov := #[⟨2, 1, #[4, 2, 10]⟩, ⟨1, 0, #[4]⟩]
    rhs := #[1, 2, 3]
    reg := .subset [1] }

/-- the weight matrix of `pCS`: inverse of `diag([[4,2],[2,10]], 4)` -/
def PCS (K : Type) [Field K] : Matrix (Fin (pCS K).m) (Fin (pCS K).m) K :=
  (!![5/18, -1/18, 0; -1/18, 1/9, 0; 0, 0, 1/4] : Matrix (Fin 3) (Fin 3) K)

/-! ### over ℝ with `Real.sqrt`: `Adj` + Gram–Schmidt -/

section real
open Gama.Ls.Gso
attribute [local instance] sqrtFnOfSqrtField
attribute [local instance 2000] scalarOfField

theorem sqS (x : ℝ) : (Scalar.sqrt x : ℝ) = Real.sqrt x := rfl
theorem ofNatS (n : Nat) : (Scalar.ofNat n : ℝ) = (n : ℝ) := rfl

set_option maxRecDepth 8000 in
/-- `Adj::choldec` of the two blocks: `L̃ = [[2,0],[1,3]]` and `[[2]]` -/
theorem pCS_factors : factorsL (pCS ℝ).cov.toList = .ok [#[#[2, 0], #[1, 3]], #[#[2]]] := by
  simp [pCS, factorsL, choldec, ldl, ldlRows, blockDense, rowOff, scaleChol, Chol.elim, mmk, mget, vget, pmk, pget,
    Chol.invPerm, Chol.posOf, sget, maxDiag, epsilon, Array.ofFn_succ, Scalar.max, sqS, ofNatS, Except.map,
    List.range, List.range.loop]
  norm_num

set_option maxRecDepth 8000 in
/-- the homogenised system `(L̃⁻¹A, L̃⁻¹b)` -/
theorem pCS_homogenise :
    homogenise (pCS ℝ) = .ok (#[#[2, 2], #[1, 1], #[2, 2]], #[1/2, 1/2, 3/2]) := by
  unfold homogenise
  simp only [pCS_factors]
  simp [pCS, Problem.dense, locate, forwardSubst, sweep, subFrom, mmk, vmk, mget, vget, Array.ofFn_succ,
    List.range, List.range.loop, List.range']
  norm_num

/-- the homogenised problem `Adj` hands to the solver -/
noncomputable def pCSdot : Problem ℝ :=
  dotProblem (pCS ℝ) #[#[2, 2], #[1, 1], #[2, 2]] #[1/2, 1/2, 3/2] (regOf (pCS ℝ).reg)

theorem pCSdot_dense : pCSdot.dense = #[#[2, 2], #[1, 1], #[2, 2]] := by
  simp [pCSdot, dotProblem, Problem.dense, pCS, mget, Array.ofFn_succ, List.range, List.range.loop]
  refine ⟨?_, ?_, ?_⟩ <;> rfl

theorem pCSdot_run : runOf pCSdot = run (tolerance : ℝ) 3 2 (entry #[#[2, 2], #[1, 1], #[2, 2]])
    (fun i => (#[1/2, 1/2, 3/2] : Array ℝ).getD i 0) [true, false] := by
  unfold runOf
  rw [pCSdot_dense]
  rfl

set_option maxRecDepth 8000 in
/-- the Gram–Schmidt run on the homogenised system: tested norms 3, 0 (first orthogonalisation),
    1 (second), unknown 2 flagged, no error, `x = (0, 1/2)` -/
theorem pCSdot_result : (runOf pCSdot).tested = [3, 0, 1] ∧ (runOf pCSdot).rhs.bot = [0, 1/2]
    ∧ (runOf pCSdot).dep = [2] ∧ (runOf pCSdot).err = 0 := by
  have h0 : ¬ (tolerance : ℝ) < 0 := not_lt.2 (le_of_lt Gso.Ex.tol_pos)
  have h1 := Gso.Ex.tol_lt_one
  have h3 : (tolerance : ℝ) < 3 := by linarith
  rw [pCSdot_run]
  norm_num [run, augmented, entry, icgs1, icgs2, step1, orth1, cgs1, subAll,
    dot, dotAux, norm1, Col.axpy, Col.scale, vaxpy, vscale, phase2, step2, orth2, cgs2, subAllB,
    dotM, dotMAux, norm2, movePtrs, movePtrsAux, swapAt, sqS, h1, h3, h0,
    List.range, List.range.loop, List.replicate]

theorem pCSdot_unambiguous : Unambiguous pCSdot := by
  intro r hr
  rw [pCSdot_result.1] at hr
  simp only [List.mem_cons, List.not_mem_nil, or_false] at hr
  rcases hr with rfl | rfl | rfl
  · exact Or.inr (by linarith [Gso.Ex.tol_lt_one])
  · exact Or.inl rfl
  · exact Or.inr Gso.Ex.tol_lt_one

/-- `Gso.Unambiguous` for whatever `homogenise` returns on `pCS ℝ` -/
theorem pCS_gso_unambiguous (Ad : DMat ℝ) (bd : Array ℝ) (hh : homogenise (pCS ℝ) = .ok (Ad, bd)) :
    Unambiguous (dotProblem (pCS ℝ) Ad bd (regOf (pCS ℝ).reg)) := by
  rw [pCS_homogenise] at hh
  obtain ⟨rfl, rfl⟩ := Prod.mk.inj (Except.ok.inj hh)
  exact pCSdot_unambiguous

theorem pCSdot_answers : ∃ s, gsoSolve pCSdot = .ok s ∧ s.x = #[0, 1/2] ∧ s.defect = 1 ∧ s.xErr = none := by
  obtain ⟨-, hx, hd, he⟩ := pCSdot_result
  have hreg : regInRange pCSdot.n pCSdot.reg = true := by decide
  have h2 : ∃ a, gsoSolve pCSdot = .ok a := by
    simp [gsoSolve, gsoSolveWith, hreg, he]
  obtain ⟨a, ha⟩ := h2
  obtain ⟨ax, -, -, adef, -, -⟩ := gsoSolveWith_ok (refuse := true) ha
  exact ⟨a, ha, by rw [ax, hx], by rw [adef, hd]; rfl, gsoSolveWith_xErr ha⟩

/-- `Adj` + gso answers `pCS ℝ`: x = (0, 1/2), defect 1 -/
theorem pCS_adj_gso : ∃ a, adjSolve .gso (pCS ℝ) = .ok a ∧ a.x = #[0, 1/2] ∧ a.defect = 1 := by
  obtain ⟨s, hs, hx, hd, he⟩ := pCSdot_answers
  obtain ⟨a, ha, ax, -, ad, -⟩ := adjFull_ok (alg := .gso) pCS_homogenise hs he
  exact ⟨a, ha, by rw [ax, hx], by rw [ad, hd]⟩

theorem pCS_rows : RowsOK (pCS ℝ) := by
  intro i hi
  have : i = 0 ∨ i = 1 ∨ i = 2 := by have : i < 3 := hi; omega
  rcases this with rfl | rfl | rfl <;> simp [pCS, Array.getD]

theorem pCS_Cadj : (Cadj (pCS ℝ) : Matrix (Fin 3) (Fin 3) ℝ) = !![4, 2, 0; 2, 10, 0; 0, 0, 4] := by
  ext i j
  show covF (pCS ℝ) i.val j.val = _
  fin_cases i <;> fin_cases j <;>
    simp [covF, dimsOf, locate, pCS, blockDense, rowOff, sget, mmk, mget, vget, List.range, List.range.loop]

theorem inv3 : (!![4, 2, 0; 2, 10, 0; 0, 0, 4] : Matrix (Fin 3) (Fin 3) ℝ)
    * !![5/18, -1/18, 0; -1/18, 1/9, 0; 0, 0, 1/4] = 1 := by
  ext i j
  fin_cases i <;> fin_cases j <;> simp [Matrix.mul_apply, Fin.sum_univ_three, Matrix.one_apply] <;> norm_num

theorem pCS_weight : (pCS ℝ).C * PCS ℝ = 1 := by
  rw [← Cadj_eq_C (pCS ℝ) (by decide)]
  show (Cadj (pCS ℝ) * PCS ℝ : Matrix (Fin 3) (Fin 3) ℝ) = 1
  rw [pCS_Cadj]
  exact inv3

end real

/-! ### over ℚ with `Ex.sqQ` (kernel evaluation): `Adj` + Cholesky, singular -/

section rat
attribute [local instance 2000] scalarOfField
open Gama.Ls.Chol

/-- the homogenised problem `Adj` hands to the solver -/
def pCSdotQ : Problem ℚ :=
  dotProblem (pCS ℚ) #[#[2, 2], #[1, 1], #[2, 2]] #[1/2, 1/2, 3/2] (regOf (pCS ℚ).reg)

theorem pCSQ_homogenise :
    homogenise (pCS ℚ) = .ok (#[#[2, 2], #[1, 1], #[2, 2]], #[1/2, 1/2, 3/2]) := by
  decide +kernel

theorem pCSQ_sqrt : SqrtExactP (pCS ℚ) := by
  intro b hb
  have : b = ⟨2, 1, #[4, 2, 10]⟩ ∨ b = ⟨1, 0, #[4]⟩ := by
    simpa [pCS] using hb
  rcases this with rfl | rfl
  · exact sqrtExact_of_eval _ (by decide +kernel)
  · exact sqrtExact_of_eval _ (by decide +kernel)

theorem pCSQ_rows : RowsOK (pCS ℚ) := by
  intro i hi
  have : i = 0 ∨ i = 1 ∨ i = 2 := by have : i < 3 := hi; omega
  rcases this with rfl | rfl | rfl <;> simp [pCS, Array.getD]

theorem pCSQ_weight : (pCS ℚ).C * PCS ℚ = 1 := by
  rw [← Cadj_eq_C (pCS ℚ) (by decide)]
  show (Cadj (pCS ℚ) * PCS ℚ : Matrix (Fin 3) (Fin 3) ℚ) = 1
  decide +kernel

/-- the hypotheses of `C01_cholesky_singular` on the homogenised problem: the rejected pivot is
    exactly 0, the Gram–Schmidt pivot (S-norm² of the kernel vector) is 1 -/
theorem pCSdotQ_chol : UnambiguousF (cholFact pCSdotQ) ∧ GsSqrtExact pCSdotQ
    ∧ ∀ S, regList (pCS ℚ).n (regOf (pCS ℚ).reg) = some S → S.Nodup := by
  have hr : (cholFact pCSdotQ).rej = some 0 := by decide +kernel
  have hS : ∀ S, regList pCSdotQ.n pCSdotQ.reg = some S → S = [0] := by
    intro S h
    have : regList pCSdotQ.n pCSdotQ.reg = some [0] := by decide
    rw [this] at h
    exact (Option.some.inj h).symm
  have hb := gsOKb_spec (K := ℚ) pCSdotQ.n (cholFact pCSdotQ).nullity [0]
    (cholFact pCSdotQ).nullity 0 _ _ (by decide +kernel :
      gsOKb pCSdotQ.n (cholFact pCSdotQ).nullity [0]
        (cholFact pCSdotQ).nullity 0 (Dn.pmk ((cholFact pCSdotQ).nullity + 1) id)
        (gInit pCSdotQ.n (pCSdotQ.n - (cholFact pCSdotQ).nullity)
          (cholFact pCSdotQ).nullity (cholFact pCSdotQ).perm (cholFact pCSdotQ).mat
          (solveX0 pCSdotQ.n (pCSdotQ.n - (cholFact pCSdotQ).nullity)
            (cholFact pCSdotQ).perm (cholFact pCSdotQ).mat
            (normalRhs pCSdotQ.m pCSdotQ.n pCSdotQ.dense pCSdotQ.rhs))) = true)
  refine ⟨?_, ?_, ?_⟩
  · intro t ht; rw [hr] at ht; left; exact (Option.some.inj ht).symm
  · intro S h; rw [hS S h]; exact hb.1
  · intro S h
    have : S = [0] := hS S h
    rw [this]; exact List.nodup_singleton 0

/-- the hypothesis `hchol` of `C01_adj_cholesky` for `pCS ℚ` -/
theorem pCSQ_hchol (Ad : DMat ℚ) (bd : Array ℚ) (hh : homogenise (pCS ℚ) = .ok (Ad, bd)) :
    UnambiguousF (cholFact (dotProblem (pCS ℚ) Ad bd (regOf (pCS ℚ).reg))) ∧
    GsSqrtExact (dotProblem (pCS ℚ) Ad bd (regOf (pCS ℚ).reg)) ∧
    ∀ S, regList (pCS ℚ).n (regOf (pCS ℚ).reg) = some S → S.Nodup := by
  rw [pCSQ_homogenise] at hh
  obtain ⟨rfl, rfl⟩ := Prod.mk.inj (Except.ok.inj hh)
  exact pCSdotQ_chol

/-- `Adj` + cholesky answers `pCS ℚ` with defect 1: x = (0, 1/2), r = A x − b = (1, 1/2, −1),
    `rtr = v̄ᵀv̄ = 1/2` -/
theorem pCSQ_adj_chol : ∃ a, adjSolve .chol (pCS ℚ) = .ok a ∧ a.defect = 1 ∧ a.x = #[0, 1/2]
    ∧ a.r = #[1, 1/2, -1] ∧ a.rtr = 1/2 := by
  have h : (adjSolve .chol (pCS ℚ)).toOption.map (fun a => (a.defect, a.x, a.r, a.rtr))
      = some (1, #[0, 1/2], #[1, 1/2, -1], 1/2) := by decide +kernel
  obtain ⟨a, h1, h2⟩ := ok_of_toOption h
  simp only [Prod.mk.injEq] at h2
  exact ⟨a, h1, h2.1, h2.2.1, h2.2.2.1, h2.2.2.2⟩

end rat

end Ex
end Gama.Ls
