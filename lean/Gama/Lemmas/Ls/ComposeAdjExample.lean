/-
  Concrete instances for the non-vacuity examples of `Props/C01/AdjSolvers.lean`: problems with a
  CORRELATED covariance block and a RANK-DEFICIENT design matrix, run through the façade `Adj`.

  `Ex.pCS K` (any field): m = 3, n = 2,
      A = [[4,4],[5,5],[4,4]] (two equal columns: defect 1, kernel (1,−1)), b = (1,2,3),
      C = diag([[4,2],[2,10]], 4) (band width 1 block + one uncorrelated observation),
      regularisation subset S = {1} (resolves the defect).
    `Adj` factors `[[4,2],[2,10]] = L̃L̃ᵀ`, `L̃ = [[2,0],[1,3]]` (LDLᵀ pivots 4, 9; √4 = 2, √9 = 3) and
    `4 = 2·2`, and hands the solver `A_dot = [[2,2],[1,1],[2,2]]`, `b_dot = (1/2,1/2,3/2)`.
    * over ℝ (`Real.sqrt`; the model evaluated by `simp`/`norm_num`, no `decide`): the Gram–Schmidt run
      on the homogenised system tests the norms 3, 0 (first phase) and 1 (second phase), x = (0, 1/2);
    * over ℚ (`Ex.sqQ`, kernel evaluation): the Cholesky solver on the homogenised system.
  `Ex.pCV` (ℝ): the same covariance, A = [[12,16],[15,20],[12,16]] (rank 1, kernel (4,−3)),
    `A_dot = [[6,8],[3,4],[6,8]]`, S = {1}: for the svd solver.  Over ℝ: homogenisation, weight
    matrix, the certificate `SvdCert` of the explicit factors `Ex.dCV` at the model's tolerance
    `Svd.wTol`, the post-decomposition answer x = (0, 1/8); `pCV_hc`, `pCV_adj_svd` are stated GIVEN
    `Svd.decompose 3 2 A_dot = .ok dCV` over ℝ — the one evaluation that is NOT done over ℝ (the
    transliterated Golub–Reinsch `do` block is too large for `simp`); `dCV_decompose_rat` evaluates the
    same run by the kernel over ℚ with a square root exact on the four values it takes roots of.
-/
import Gama.Lemmas.Ls.ComposeAdj
import Gama.Lemmas.Ls.GsoReal
import Gama.Lemmas.Ls.AdjCov
import Gama.Lemmas.Ls.AdjExample
import Gama.Lemmas.Ls.CholSingular
import Gama.Lemmas.Ls.SvdProps
import Mathlib.Tactic.NormNum.RealSqrt
import Mathlib.Tactic.FinCases

namespace Gama.Ls

/-! ### general: the answer of `adjFull` from the answer of the solver -/

section
variable {K : Type} [Scalar K]
open AdjM Dn

theorem adjFull_ok {alg : Alg} {p : Problem K} {Ad : DMat K} {bd : Array K} {s : Answer K}
    (hh : homogenise p = .ok (Ad, bd))
    (hs : solverOf alg (dotProblem p Ad bd (regOf p.reg)) = .ok s) (hx : s.xErr = none) :
    ∃ a, adjFull alg p = .ok a ∧ a.x = s.x ∧ a.r = origResiduals p s.x ∧ a.defect = s.defect
      ∧ a.rtr = sumFrom 0 p.m fun i => vget s.r i * vget s.r i := by
  unfold adjFull
  simp only [hh, hs, hx]
  exact ⟨_, rfl, rfl, rfl, rfl, rfl⟩

theorem gsoSolveWith_xErr {refuse : Bool} {p : Problem K} {a : Answer K}
    (h : gsoSolveWith refuse p = .ok a) : a.xErr = none := by
  unfold gsoSolveWith at h
  simp only [] at h
  split at h
  · exact absurd h (by simp)
  · split at h
    · exact absurd h (by simp)
    · cases h; rfl

end

namespace Ex
open Gama Gama.Ls Gama.Ls.Dn Gama.Ls.AdjM Gama.LS

/-- correlated block, two equal columns, subset regularisation -/
def pCS (K : Type) [Field K] : Problem K :=
  { m := 3, n := 2
    rows := #[#[(1, 4), (2, 4)], #[(1, 5), (2, 5)], #[(1, 4), (2, 4)]]
    cov := #[⟨2, 1, #[4, 2, 10]⟩, ⟨1, 0, #[4]⟩]
    rhs := #[1, 2, 3]
    reg := .subset [1] }

/-- the weight matrix of `pCS`: inverse of `diag([[4,2],[2,10]], 4)` -/
def PCS (K : Type) [Field K] : Matrix (Fin (pCS K).m) (Fin (pCS K).m) K :=
  (!![5/18, -1/18, 0; -1/18, 1/9, 0; 0, 0, 1/4] : Matrix (Fin 3) (Fin 3) K)

/-! ### over ℝ with `Real.sqrt`: `Adj` + Gram–Schmidt -/

section real
open Gama.Ls.Gso
attribute [local instance] sqrtFnOfSqrtField
attribute [local instance 2000] scalarOfField

theorem sqS (x : ℝ) : (Scalar.sqrt x : ℝ) = Real.sqrt x := rfl
theorem ofNatS (n : Nat) : (Scalar.ofNat n : ℝ) = (n : ℝ) := rfl

set_option maxRecDepth 8000 in
/-- `Adj::choldec` of the two blocks: `L̃ = [[2,0],[1,3]]` and `[[2]]` -/
theorem pCS_factors : factorsL (pCS ℝ).cov.toList = .ok [#[#[2, 0], #[1, 3]], #[#[2]]] := by
  simp [pCS, factorsL, choldec, ldl, ldlRows, blockDense, rowOff, scaleChol, Chol.elim, mmk, mget, vget, pmk, pget,
    Chol.invPerm, Chol.posOf, sget, maxDiag, epsilon, Array.ofFn_succ, Scalar.max, sqS, ofNatS, Except.map,
    List.range, List.range.loop]
  norm_num

set_option maxRecDepth 8000 in
/-- the homogenised system `(L̃⁻¹A, L̃⁻¹b)` -/
theorem pCS_homogenise :
    homogenise (pCS ℝ) = .ok (#[#[2, 2], #[1, 1], #[2, 2]], #[1/2, 1/2, 3/2]) := by
  unfold homogenise
  simp only [pCS_factors]
  simp [pCS, Problem.dense, locate, forwardSubst, sweep, subFrom, mmk, vmk, mget, vget, Array.ofFn_succ,
    List.range, List.range.loop, List.range']
  norm_num

/-- the homogenised problem `Adj` hands to the solver -/
noncomputable def pCSdot : Problem ℝ :=
  dotProblem (pCS ℝ) #[#[2, 2], #[1, 1], #[2, 2]] #[1/2, 1/2, 3/2] (regOf (pCS ℝ).reg)

theorem pCSdot_dense : pCSdot.dense = #[#[2, 2], #[1, 1], #[2, 2]] := by
  simp [pCSdot, dotProblem, Problem.dense, pCS, mget, Array.ofFn_succ, List.range, List.range.loop]
  refine ⟨?_, ?_, ?_⟩ <;> rfl

theorem pCSdot_run : runOf pCSdot = run (tolerance : ℝ) 3 2 (entry #[#[2, 2], #[1, 1], #[2, 2]])
    (fun i => (#[1/2, 1/2, 3/2] : Array ℝ).getD i 0) [true, false] := by
  unfold runOf
  rw [pCSdot_dense]
  rfl

set_option maxRecDepth 8000 in
/-- the Gram–Schmidt run on the homogenised system: tested norms 3, 0 (first orthogonalisation),
    1 (second), unknown 2 flagged, no error, `x = (0, 1/2)` -/
theorem pCSdot_result : (runOf pCSdot).tested = [3, 0, 1] ∧ (runOf pCSdot).rhs.bot = [0, 1/2]
    ∧ (runOf pCSdot).dep = [2] ∧ (runOf pCSdot).err = 0 := by
  have h0 : ¬ (tolerance : ℝ) < 0 := not_lt.2 (le_of_lt Gso.Ex.tol_pos)
  have h1 := Gso.Ex.tol_lt_one
  have h3 : (tolerance : ℝ) < 3 := by linarith
  rw [pCSdot_run]
  norm_num [run, augmented, entry, icgs1, icgs2, step1, orth1, cgs1, subAll,
    dot, dotAux, norm1, Col.axpy, Col.scale, vaxpy, vscale, phase2, step2, orth2, cgs2, subAllB,
    dotM, dotMAux, norm2, movePtrs, movePtrsAux, swapAt, sqS, h1, h3, h0,
    List.range, List.range.loop, List.replicate]

theorem pCSdot_unambiguous : Unambiguous pCSdot := by
  intro r hr
  rw [pCSdot_result.1] at hr
  simp only [List.mem_cons, List.not_mem_nil, or_false] at hr
  rcases hr with rfl | rfl | rfl
  · exact Or.inr (by linarith [Gso.Ex.tol_lt_one])
  · exact Or.inl rfl
  · exact Or.inr Gso.Ex.tol_lt_one

/-- `Gso.Unambiguous` for whatever `homogenise` returns on `pCS ℝ` -/
theorem pCS_gso_unambiguous (Ad : DMat ℝ) (bd : Array ℝ) (hh : homogenise (pCS ℝ) = .ok (Ad, bd)) :
    Unambiguous (dotProblem (pCS ℝ) Ad bd (regOf (pCS ℝ).reg)) := by
  rw [pCS_homogenise] at hh
  obtain ⟨rfl, rfl⟩ := Prod.mk.inj (Except.ok.inj hh)
  exact pCSdot_unambiguous

theorem pCSdot_answers : ∃ s, gsoSolve pCSdot = .ok s ∧ s.x = #[0, 1/2] ∧ s.defect = 1 ∧ s.xErr = none := by
  obtain ⟨-, hx, hd, he⟩ := pCSdot_result
  have hreg : regInRange pCSdot.n pCSdot.reg = true := by decide
  have h2 : ∃ a, gsoSolve pCSdot = .ok a := by
    simp [gsoSolve, gsoSolveWith, hreg, he]
  obtain ⟨a, ha⟩ := h2
  obtain ⟨ax, -, -, adef, -, -⟩ := gsoSolveWith_ok (refuse := true) ha
  exact ⟨a, ha, by rw [ax, hx], by rw [adef, hd]; rfl, gsoSolveWith_xErr ha⟩

/-- `Adj` + gso answers `pCS ℝ`: x = (0, 1/2), defect 1 -/
theorem pCS_adj_gso : ∃ a, adjSolve .gso (pCS ℝ) = .ok a ∧ a.x = #[0, 1/2] ∧ a.defect = 1 := by
  obtain ⟨s, hs, hx, hd, he⟩ := pCSdot_answers
  obtain ⟨a, ha, ax, -, ad, -⟩ := adjFull_ok (alg := .gso) pCS_homogenise hs he
  exact ⟨a, ha, by rw [ax, hx], by rw [ad, hd]⟩

theorem pCS_rows : RowsOK (pCS ℝ) := by
  apply RowsOK.of_nodup
  intro i hi
  have : i = 0 ∨ i = 1 ∨ i = 2 := by have : i < 3 := hi; omega
  rcases this with rfl | rfl | rfl <;> simp [pCS, Array.getD]

theorem pCS_Cadj : (Cadj (pCS ℝ) : Matrix (Fin 3) (Fin 3) ℝ) = !![4, 2, 0; 2, 10, 0; 0, 0, 4] := by
  ext i j
  show covF (pCS ℝ) i.val j.val = _
  fin_cases i <;> fin_cases j <;>
    simp [covF, dimsOf, locate, pCS, blockDense, rowOff, sget, mmk, mget, vget, List.range, List.range.loop]

theorem inv3 : (!![4, 2, 0; 2, 10, 0; 0, 0, 4] : Matrix (Fin 3) (Fin 3) ℝ)
    * !![5/18, -1/18, 0; -1/18, 1/9, 0; 0, 0, 1/4] = 1 := by
  ext i j
  fin_cases i <;> fin_cases j <;> simp [Matrix.mul_apply, Fin.sum_univ_three, Matrix.one_apply] <;> norm_num

theorem pCS_weight : (pCS ℝ).C * PCS ℝ = 1 := by
  rw [← Cadj_eq_C (pCS ℝ) (by decide)]
  show (Cadj (pCS ℝ) * PCS ℝ : Matrix (Fin 3) (Fin 3) ℝ) = 1
  rw [pCS_Cadj]
  exact inv3

end real

/-! ### over ℚ with `Ex.sqQ` (kernel evaluation): `Adj` + Cholesky, singular -/

section rat
attribute [local instance 2000] scalarOfField
open Gama.Ls.Chol

/-- the homogenised problem `Adj` hands to the solver -/
def pCSdotQ : Problem ℚ :=
  dotProblem (pCS ℚ) #[#[2, 2], #[1, 1], #[2, 2]] #[1/2, 1/2, 3/2] (regOf (pCS ℚ).reg)

theorem pCSQ_homogenise :
    homogenise (pCS ℚ) = .ok (#[#[2, 2], #[1, 1], #[2, 2]], #[1/2, 1/2, 3/2]) := by
  decide +kernel

theorem pCSQ_sqrt : SqrtExactP (pCS ℚ) := by
  intro b hb
  have : b = ⟨2, 1, #[4, 2, 10]⟩ ∨ b = ⟨1, 0, #[4]⟩ := by
    simpa [pCS] using hb
  rcases this with rfl | rfl
  · exact sqrtExact_of_eval _ (by decide +kernel)
  · exact sqrtExact_of_eval _ (by decide +kernel)

theorem pCSQ_rows : RowsOK (pCS ℚ) := by
  apply RowsOK.of_nodup
  intro i hi
  have : i = 0 ∨ i = 1 ∨ i = 2 := by have : i < 3 := hi; omega
  rcases this with rfl | rfl | rfl <;> simp [pCS, Array.getD]

theorem pCSQ_weight : (pCS ℚ).C * PCS ℚ = 1 := by
  rw [← Cadj_eq_C (pCS ℚ) (by decide)]
  show (Cadj (pCS ℚ) * PCS ℚ : Matrix (Fin 3) (Fin 3) ℚ) = 1
  decide +kernel

/-- the hypotheses of `C01_cholesky_singular` on the homogenised problem: the rejected pivot is
    exactly 0, the Gram–Schmidt pivot (S-norm² of the kernel vector) is 1 -/
theorem pCSdotQ_chol : UnambiguousF (cholFact pCSdotQ) ∧ GsSqrtExact pCSdotQ
    ∧ ∀ S, regList (pCS ℚ).n (regOf (pCS ℚ).reg) = some S → S.Nodup := by
  have hr : (cholFact pCSdotQ).rej = some 0 := by decide +kernel
  have hS : ∀ S, regList pCSdotQ.n pCSdotQ.reg = some S → S = [0] := by
    intro S h
    have : regList pCSdotQ.n pCSdotQ.reg = some [0] := by decide
    rw [this] at h
    exact (Option.some.inj h).symm
  have hb := gsOKb_spec (K := ℚ) pCSdotQ.n (cholFact pCSdotQ).nullity [0]
    (cholFact pCSdotQ).nullity 0 _ _ (by decide +kernel :
      gsOKb pCSdotQ.n (cholFact pCSdotQ).nullity [0]
        (cholFact pCSdotQ).nullity 0 (Dn.pmk ((cholFact pCSdotQ).nullity + 1) id)
        (gInit pCSdotQ.n (pCSdotQ.n - (cholFact pCSdotQ).nullity)
          (cholFact pCSdotQ).nullity (cholFact pCSdotQ).perm (cholFact pCSdotQ).mat
          (solveX0 pCSdotQ.n (pCSdotQ.n - (cholFact pCSdotQ).nullity)
            (cholFact pCSdotQ).perm (cholFact pCSdotQ).mat
            (normalRhs pCSdotQ.m pCSdotQ.n pCSdotQ.dense pCSdotQ.rhs))) = true)
  refine ⟨?_, ?_, ?_⟩
  · intro t ht; rw [hr] at ht; left; exact (Option.some.inj ht).symm
  · intro S h; rw [hS S h]; exact hb.1
  · intro S h
    have : S = [0] := hS S h
    rw [this]; exact List.nodup_singleton 0

/-- the hypothesis `hchol` of `C01_adj_cholesky` for `pCS ℚ` -/
theorem pCSQ_hchol (Ad : DMat ℚ) (bd : Array ℚ) (hh : homogenise (pCS ℚ) = .ok (Ad, bd)) :
    UnambiguousF (cholFact (dotProblem (pCS ℚ) Ad bd (regOf (pCS ℚ).reg))) ∧
    GsSqrtExact (dotProblem (pCS ℚ) Ad bd (regOf (pCS ℚ).reg)) ∧
    ∀ S, regList (pCS ℚ).n (regOf (pCS ℚ).reg) = some S → S.Nodup := by
  rw [pCSQ_homogenise] at hh
  obtain ⟨rfl, rfl⟩ := Prod.mk.inj (Except.ok.inj hh)
  exact pCSdotQ_chol

/-- `Adj` + cholesky answers `pCS ℚ` with defect 1: x = (0, 1/2), r = A x − b = (1, 1/2, −1),
    `rtr = v̄ᵀv̄ = 1/2` -/
theorem pCSQ_adj_chol : ∃ a, adjSolve .chol (pCS ℚ) = .ok a ∧ a.defect = 1 ∧ a.x = #[0, 1/2]
    ∧ a.r = #[1, 1/2, -1] ∧ a.rtr = 1/2 := by
  have h : (adjSolve .chol (pCS ℚ)).toOption.map (fun a => (a.defect, a.x, a.r, a.rtr))
      = some (1, #[0, 1/2], #[1, 1/2, -1], 1/2) := by decide +kernel
  obtain ⟨a, h1, h2⟩ := ok_of_toOption h
  simp only [Prod.mk.injEq] at h2
  exact ⟨a, h1, h2.1, h2.2.1, h2.2.2.1, h2.2.2.2⟩

end rat

/-! ### over ℝ with `Real.sqrt`: `Adj` + svd -/

section svd
open Gama.Ls.Svd
attribute [local instance] sqrtFnOfSqrtField
attribute [local instance 2000] scalarOfField

/-- correlated block, rank-1 design matrix with kernel (4,−3), subset regularisation -/
noncomputable def pCV : Problem ℝ :=
  { m := 3, n := 2
    rows := #[#[(1, 12), (2, 16)], #[(1, 15), (2, 20)], #[(1, 12), (2, 16)]]
    cov := #[⟨2, 1, #[4, 2, 10]⟩, ⟨1, 0, #[4]⟩]
    rhs := #[1, 2, 3]
    reg := .subset [1] }

/-- the weight matrix of `pCV` -/
noncomputable def PCV : Matrix (Fin pCV.m) (Fin pCV.m) ℝ :=
  (!![5/18, -1/18, 0; -1/18, 1/9, 0; 0, 0, 1/4] : Matrix (Fin 3) (Fin 3) ℝ)

set_option maxRecDepth 8000 in
theorem pCV_homogenise :
    homogenise pCV = .ok (#[#[6, 8], #[3, 4], #[6, 8]], #[1/2, 1/2, 3/2]) := by
  unfold homogenise
  have hf : factorsL pCV.cov.toList = .ok [#[#[2, 0], #[1, 3]], #[#[2]]] := pCS_factors
  simp only [hf]
  simp [pCV, Problem.dense, locate, forwardSubst, sweep, subFrom, Dn.mmk, Dn.vmk, Dn.mget, Dn.vget, Array.ofFn_succ,
    List.range, List.range.loop, List.range']
  norm_num

/-- the homogenised problem `Adj` hands to the solver -/
noncomputable def pCVdot : Problem ℝ :=
  dotProblem pCV #[#[6, 8], #[3, 4], #[6, 8]] #[1/2, 1/2, 3/2] (regOf pCV.reg)

theorem pCVdot_dense : pCVdot.dense = #[#[6, 8], #[3, 4], #[6, 8]] := by
  simp [pCVdot, dotProblem, Problem.dense, pCV, Dn.mget, Array.ofFn_succ, List.range, List.range.loop]
  refine ⟨?_, ?_, ?_⟩ <;> rfl

theorem pCV_rows : RowsOK pCV := by
  apply RowsOK.of_nodup
  intro i hi
  have : i = 0 ∨ i = 1 ∨ i = 2 := by have : i < 3 := hi; omega
  rcases this with rfl | rfl | rfl <;> simp [pCV, Array.getD]

theorem pCV_Cadj : (Cadj pCV : Matrix (Fin 3) (Fin 3) ℝ) = !![4, 2, 0; 2, 10, 0; 0, 0, 4] := by
  ext i j
  show covF pCV i.val j.val = _
  fin_cases i <;> fin_cases j <;>
    simp [covF, dimsOf, locate, pCV, blockDense, rowOff, Dn.sget, Dn.mmk, Dn.mget, Dn.vget, List.range, List.range.loop]

theorem pCV_weight : pCV.C * PCV = 1 := by
  rw [← Cadj_eq_C pCV (by decide)]
  show (Cadj pCV * PCV : Matrix (Fin 3) (Fin 3) ℝ) = 1
  rw [pCV_Cadj]
  exact inv3

/-- the factors `SVD::svd()` (the transliteration `Svd.decompose`) returns on the homogenised
    system in exact arithmetic — see `dCV_decompose_rat` -/
noncomputable def dCV : Svd.Dec ℝ :=
  { U := #[#[1/3, -2/3], #[-14/15, -1/3], #[2/15, -2/3]], W := #[0, 15], V := #[#[4/5, -3/5], #[-3/5, -4/5]] }

open Matrix in
/-- `dCV` is a certified factorisation of the homogenised design matrix at the model's own
    tolerance `W_tol`: `A_dot = U diag(0,15) Vᵀ`, `VᵀV = 1`, the column of `U` for the singular value
    15 is a unit vector, singular values `0` and `15 > W_tol·15` -/
theorem dCV_cert : Svd.SvdCert Real.sqrt (Svd.wTol : ℝ) 3 2 (#[#[6, 8], #[3, 4], #[6, 8]] : DMat ℝ) dCV := by
  have hA : toMatrix 3 2 (#[#[6, 8], #[3, 4], #[6, 8]] : DMat ℝ) = !![6, 8; 3, 4; 6, 8] := by
    ext i j; fin_cases i <;> fin_cases j <;> rfl
  have hU : toMatrix 3 2 dCV.U = !![1/3, -2/3; -14/15, -1/3; 2/15, -2/3] := by
    ext i j; fin_cases i <;> fin_cases j <;> rfl
  have hV : toMatrix 2 2 dCV.V = !![4/5, -3/5; -3/5, -4/5] := by
    ext i j; fin_cases i <;> fin_cases j <;> rfl
  have hW : toVec 2 dCV.W = ![0, 15] := by
    funext i; fin_cases i <;> rfl
  refine ⟨?_, ?_, ?_, ?_⟩
  · rw [hA, hU, hV, hW]
    ext i j
    fin_cases i <;> fin_cases j <;>
      simp [Matrix.mul_apply, Fin.sum_univ_two, Matrix.diagonal_apply, Matrix.transpose_apply,
        Matrix.vecMul, dotProduct] <;> norm_num
  · rw [hV]
    ext i j
    fin_cases i <;> fin_cases j <;>
      simp [Matrix.mul_apply, Fin.sum_univ_two, Matrix.transpose_apply] <;> norm_num
  · rw [hU, hW]
    intro i j
    fin_cases i <;> fin_cases j <;>
      simp [Matrix.mul_apply, Fin.sum_univ_three, Matrix.transpose_apply]
    norm_num
  · intro i hi
    have h0 : @Svd.vget ℝ (fieldScalar Real.sqrt) dCV.W 0 = 0 := rfl
    have h1 : @Svd.vget ℝ (fieldScalar Real.sqrt) dCV.W 1 = 15 := rfl
    have hv : @Svd.vmaxOf ℝ (fieldScalar Real.sqrt) 2 (@Svd.vget ℝ (fieldScalar Real.sqrt) dCV.W) = 15 := by
      show (([0, 1] : List Nat).foldl (fun v k => if v < @Svd.vget ℝ (fieldScalar Real.sqrt) dCV.W k
        then @Svd.vget ℝ (fieldScalar Real.sqrt) dCV.W k else v) (0 : ℝ)) = 15
      simp only [List.foldl_cons, List.foldl_nil, h0, h1]
      norm_num
    rw [hv]
    have : i = 0 ∨ i = 1 := by omega
    rcases this with rfl | rfl
    · left; exact h0
    · right; rw [h1]
      have := Svd.wTol_le (K := ℝ)
      rw [abs_of_pos (by norm_num : (0:ℝ) < 15)]
      linarith

theorem beqS (x y : ℝ) : Scalar.beq x y = decide (x = y) := rfl

set_option maxRecDepth 8000 in
/-- the post-decomposition model with the factors `dCV` at any tolerance `0 ≤ t ≤ 1/100` -/
theorem dCV_answer (t : ℝ) (h0 : 0 ≤ t) (h1 : t ≤ 1/100) :
    ∃ a, Svd.answerOf true t 3 2 (#[#[6, 8], #[3, 4], #[6, 8]] : DMat ℝ) #[1/2, 1/2, 3/2] (.subset [1]) dCV = .ok a
      ∧ a.x = #[0, 1/8] ∧ a.defect = 1 := by
  have e1 : t * 15 < 15 := by linarith
  have e2 : ¬ t * 15 < 0 := by nlinarith
  have e3 : ¬ (4/5 : ℝ) ≤ t := by linarith
  unfold Svd.answerOf
  norm_num [dCV, Svd.invW, Svd.vmaxOf, Svd.minSubsetX, Svd.defectOf, Svd.isNull, Svd.msLoop, Svd.msStep, Svd.refuse,
    Svd.dotS, Svd.sumTo, Svd.absC, Svd.vget, Svd.mget, Svd.vmk, Svd.mmk, Svd.solveX, Array.ofFn_succ, sqS, beqS,
    List.range, List.range.loop, e1, e2, e3, bind, Except.bind, pure, Except.pure]

theorem answerOf_xErr {K : Type} [Scalar K] {fixed : Bool} {tol : K} {m n : Nat} {A : DMat K} {b : Array K}
    {reg : Reg} {d : Svd.Dec K} {a : Answer K} (h : Svd.answerOf fixed tol m n A b reg d = .ok a) :
    a.xErr = none := by
  unfold Svd.answerOf at h
  simp only [] at h
  split at h
  · cases h
  · cases h; rfl

/-- the svd solver's post-decomposition stage on the homogenised problem, with the factors `dCV` at
    the model's tolerance: x = (0, 1/8), defect 1 -/
theorem pCVdot_cert_answer : ∃ s, svdSolveCert true (Svd.wTol : ℝ) dCV pCVdot = .ok s ∧ s.x = #[0, 1/8]
    ∧ s.defect = 1 ∧ s.xErr = none := by
  obtain ⟨a, ha, hx, hd⟩ := dCV_answer (Svd.wTol : ℝ) Svd.wTol_nonneg Svd.wTol_le
  have h : svdSolveCert true (Svd.wTol : ℝ) dCV pCVdot = .ok a := by
    unfold svdSolveCert
    rw [pCVdot_dense]
    exact ha
  exact ⟨a, h, hx, hd, answerOf_xErr ha⟩

/-- the certificate hypothesis `hc` of `C01_adj_svd_cert` for `pCV`, GIVEN that the iteration returns
    `dCV` on the homogenised system -/
theorem pCV_hc (hdec : Svd.decompose 3 2 (#[#[6, 8], #[3, 4], #[6, 8]] : DMat ℝ) = .ok dCV)
    (Ad : DMat ℝ) (bd : Array ℝ) (d : Svd.Dec ℝ) (hh : homogenise pCV = .ok (Ad, bd))
    (hd : Svd.decompose pCV.m pCV.n (dotProblem pCV Ad bd (regOf pCV.reg)).dense = .ok d) :
    Svd.SvdCert Real.sqrt (Svd.wTol : ℝ) pCV.m pCV.n (dotProblem pCV Ad bd (regOf pCV.reg)).dense d := by
  rw [pCV_homogenise] at hh
  obtain ⟨rfl, rfl⟩ := Prod.mk.inj (Except.ok.inj hh)
  have e : (dotProblem pCV #[#[6, 8], #[3, 4], #[6, 8]] #[1/2, 1/2, 3/2] (regOf pCV.reg)).dense
      = #[#[6, 8], #[3, 4], #[6, 8]] := pCVdot_dense
  rw [e] at hd ⊢
  have e' : Svd.decompose pCV.m pCV.n (#[#[6, 8], #[3, 4], #[6, 8]] : DMat ℝ) = .ok dCV := hdec
  rw [e'] at hd
  obtain rfl := Except.ok.inj hd
  exact dCV_cert

/-- `Adj` + svd answers `pCV` with x = (0, 1/8), defect 1, GIVEN that the iteration returns `dCV` -/
theorem pCV_adj_svd (hdec : Svd.decompose 3 2 (#[#[6, 8], #[3, 4], #[6, 8]] : DMat ℝ) = .ok dCV) :
    ∃ a, adjSolve .svd pCV = .ok a ∧ a.x = #[0, 1/8] ∧ a.defect = 1 := by
  obtain ⟨s, hs, hx, hd, he⟩ := pCVdot_cert_answer
  have hs' : solverOf .svd (dotProblem pCV #[#[6, 8], #[3, 4], #[6, 8]] #[1/2, 1/2, 3/2] (regOf pCV.reg))
      = .ok s := by
    show svdSolveWith true pCVdot = .ok s
    unfold svdSolveWith
    have e : Svd.decompose pCVdot.m pCVdot.n pCVdot.dense = .ok dCV := by
      rw [pCVdot_dense]; exact hdec
    rw [e]
    exact hs
  obtain ⟨a, ha, ax, -, ad, -⟩ := adjFull_ok (alg := .svd) pCV_homogenise hs' he
  exact ⟨a, ha, by rw [ax, hx], by rw [ad, hd]⟩

end svd

/-! ### the Golub–Reinsch iteration on `A_dot = [[6,8],[3,4],[6,8]]`, evaluated by the kernel over ℚ -/

/-- square root on the rationals the iteration takes roots of on this system (9/25, 1, 625/576, 25/16) -/
def sqV (x : ℚ) : ℚ :=
  if x = 9/25 then 3/5 else if x = 625/576 then 25/24 else if x = 25/16 then 5/4 else x

/-- the model of `SVD::svd()` run over ℚ with a square root that is exact on every value it is applied
    to during this run returns exactly the factors `dCV` -/
theorem dCV_decompose_rat :
    (@Svd.decompose ℚ (fieldScalar sqV) 3 2 #[#[6, 8], #[3, 4], #[6, 8]]).toOption.map
        (fun d => (d.U, d.W, d.V))
      = some (#[#[1/3, -2/3], #[-14/15, -1/3], #[2/15, -2/3]], #[0, 15], #[#[4/5, -3/5], #[-3/5, -4/5]]) := by
  decide +kernel

end Ex
end Gama.Ls
