/-
  Envelope solver, pure algebra over an ordered field (no model terms): functions
  `L, D, y : ℕ → …` that satisfy the recursion equations of the row-wise `L D Lᵀ`
  factorisation with zeroed pivots, and vectors that satisfy the recursion equations of the
  three triangular solves.

  * `IsLDL`, `ZeroCols`        – the equations, and "a zero pivot has a vanishing Schur column";
  * `factor_entry`             – `N = L D Lᵀ` entrywise (unit lower `Lu`);
  * `solve_spec`               – `lowerSolve ∘ diagonalSolve ∘ upperSolve` solves `N x = c`;
  * `solve_dep_zero`           – the dependent components of that solution are 0.
-/
import Mathlib.Algebra.BigOperators.Intervals
import Mathlib.Algebra.BigOperators.Ring.Finset
import Mathlib.Algebra.Order.BigOperators.Ring.Finset
import Mathlib.Algebra.Order.Field.Basic
import Mathlib.Tactic.Ring
import Mathlib.Tactic.Linarith
import Mathlib.Tactic.FieldSimp
import Mathlib.Tactic.LinearCombination

namespace Gama.Ls.Env
open Finset

variable {K : Type} [Field K] [DecidableEq K]

/-- recursion equations of `Envelope::cholDec` on the leading `n` rows -/
structure IsLDL (N : ℕ → ℕ → K) (n : ℕ) (L : ℕ → ℕ → K) (D : ℕ → K) (y : ℕ → ℕ → K) : Prop where
  y_eq : ∀ i < n, ∀ j < i, y i j = N i j - ∑ k ∈ range j, L j k * y i k
  L_eq : ∀ i < n, ∀ j < i, L i j = if D j = 0 then 0 else y i j / D j
  /-- the stored pivot is the exact Schur pivot (no pivot with `0 < |d| < tol`) -/
  D_eq : ∀ i < n, D i = N i i - ∑ j ∈ range i, L i j * L i j * D j

/-- a zero pivot has a vanishing Schur column (automatic when no pivot is zero; for Gram
    matrices over an ordered field it is `Lemmas/Ls/EnvGram.lean`) -/
def ZeroCols (n : ℕ) (D : ℕ → K) (y : ℕ → ℕ → K) : Prop :=
  ∀ i < n, ∀ j < i, D j = 0 → y i j = 0

theorem zeroCols_of_regular {n : ℕ} {D : ℕ → K} (y : ℕ → ℕ → K) (h : ∀ j < n, D j ≠ 0) : ZeroCols n D y :=
  fun i hi j hj h0 => absurd h0 (h j (hj.trans hi))

/-- the unit lower triangular matrix with strict lower part `L` -/
def Lu (L : ℕ → ℕ → K) (i k : ℕ) : K := if k < i then L i k else if k = i then 1 else 0

section
variable {N : ℕ → ℕ → K} {n : ℕ} {L : ℕ → ℕ → K} {D : ℕ → K} {y : ℕ → ℕ → K}

theorem IsLDL.y_eq_LD (h : IsLDL N n L D y) (hz : ZeroCols n D y) {i j : ℕ} (hi : i < n) (hj : j < i) :
    y i j = L i j * D j := by
  rw [h.L_eq i hi j hj]
  by_cases h0 : D j = 0
  · simp [h0, hz i hi j hj h0]
  · simp [h0]

/-- a zero pivot zeroes its column of `L` -/
theorem IsLDL.L_zero (h : IsLDL N n L D y) {i j : ℕ} (hi : i < n) (hj : j < i) (h0 : D j = 0) : L i j = 0 := by
  rw [h.L_eq i hi j hj]; simp [h0]

/-- off-diagonal entries: `N(i,j) = Σ_{k<j} L(i,k) D(k) L(j,k) + L(i,j) D(j)` -/
theorem IsLDL.offdiag (h : IsLDL N n L D y) (hz : ZeroCols n D y) {i j : ℕ} (hi : i < n) (hj : j < i) :
    N i j = ∑ k ∈ range j, L i k * D k * L j k + L i j * D j := by
  have := h.y_eq i hi j hj
  rw [h.y_eq_LD hz hi hj] at this
  have e : ∑ k ∈ range j, L j k * y i k = ∑ k ∈ range j, L i k * D k * L j k := by
    refine sum_congr rfl fun k hk => ?_
    rw [h.y_eq_LD hz hi ((mem_range.1 hk).trans hj)]; ring
  rw [e] at this
  linear_combination -this

theorem IsLDL.diag (h : IsLDL N n L D y) {i : ℕ} (hi : i < n) :
    N i i = ∑ k ∈ range i, L i k * D k * L i k + D i := by
  have := h.D_eq i hi
  have e : ∑ j ∈ range i, L i j * L i j * D j = ∑ k ∈ range i, L i k * D k * L i k :=
    sum_congr rfl fun k _ => by ring
  rw [e] at this
  linear_combination -this

/-- row of `Lu` against a vector -/
theorem sum_Lu_row (L : ℕ → ℕ → K) (g : ℕ → K) {i n : ℕ} (hi : i < n) :
    ∑ k ∈ range n, Lu L i k * g k = ∑ k ∈ range i, L i k * g k + g i := by
  have hsub : range (i + 1) ⊆ range n := range_subset_range.2 hi
  rw [← sum_subset hsub, sum_range_succ]
  · congr 1
    · refine sum_congr rfl fun k hk => ?_
      simp [Lu, mem_range.1 hk]
    · simp [Lu]
  · intro k _ hk
    have : ¬ k < i + 1 := fun h => hk (mem_range.2 h)
    have h1 : ¬ k < i := by omega
    have h2 : k ≠ i := by omega
    simp [Lu, h1, h2]

/-- column of `Lu` against a vector -/
theorem sum_Lu_col (L : ℕ → ℕ → K) (g : ℕ → K) {k n : ℕ} (hk : k < n) :
    ∑ j ∈ range n, Lu L j k * g j = g k + ∑ j ∈ Ico (k + 1) n, L j k * g j := by
  rw [range_eq_Ico, ← sum_Ico_consecutive _ (Nat.zero_le (k + 1)) hk, ← range_eq_Ico, sum_range_succ]
  congr 1
  · have : ∑ j ∈ range k, Lu L j k * g j = 0 := by
      refine sum_eq_zero fun j hj => ?_
      have hj' : j < k := mem_range.1 hj
      have h1 : ¬ k < j := by omega
      have h2 : k ≠ j := by omega
      simp [Lu, h1, h2]
    rw [this]; simp [Lu]
  · refine sum_congr rfl fun j hj => ?_
    have : k < j := by have := (mem_Ico.1 hj).1; omega
    simp [Lu, this]

/-- **`N = L D Lᵀ` entrywise** (for symmetric `N`) -/
theorem IsLDL.factor_entry (h : IsLDL N n L D y) (hz : ZeroCols n D y) (hsym : ∀ i < n, ∀ j < n, N i j = N j i)
    {i j : ℕ} (hi : i < n) (hj : j < n) :
    N i j = ∑ k ∈ range n, Lu L i k * D k * Lu L j k := by
  -- wlog j ≤ i
  have key : ∀ {i j : ℕ}, i < n → j ≤ i → N i j = ∑ k ∈ range n, Lu L i k * D k * Lu L j k := by
    intro i j hi hji
    have hj : j < n := lt_of_le_of_lt hji hi
    have e : ∑ k ∈ range n, Lu L i k * D k * Lu L j k = ∑ k ∈ range n, Lu L j k * (Lu L i k * D k) :=
      sum_congr rfl fun k _ => by ring
    rw [e, sum_Lu_row L (fun k => Lu L i k * D k) hj]
    rcases Nat.lt_or_eq_of_le hji with hlt | rfl
    · rw [h.offdiag hz hi hlt]
      congr 1
      · refine sum_congr rfl fun k hk => ?_
        have : k < i := (mem_range.1 hk).trans hlt
        simp [Lu, this]; ring
      · simp [Lu, hlt]
    · rw [h.diag hi]
      congr 1
      · refine sum_congr rfl fun k hk => ?_
        simp [Lu, mem_range.1 hk]; ring
      · simp [Lu]
  rcases le_total j i with hji | hij
  · exact key hi hji
  · rw [hsym i hi j hj, key hj hij]
    exact sum_congr rfl fun k _ => by ring

end

/-! ### the solves -/

/-- `z = lowerSolve(c)` -/
def IsLower (L : ℕ → ℕ → K) (n : ℕ) (c z : ℕ → K) : Prop :=
  ∀ i < n, z i = c i - ∑ j ∈ range i, L i j * z j
/-- `w = diagonalSolve(z)` -/
def IsDiag (D : ℕ → K) (n : ℕ) (z w : ℕ → K) : Prop :=
  ∀ i < n, w i = if D i = 0 then 0 else z i / D i
/-- `x = upperSolve(w)` -/
def IsUpper (L : ℕ → ℕ → K) (n : ℕ) (w x : ℕ → K) : Prop :=
  ∀ i < n, x i = w i - ∑ j ∈ Ico (i + 1) n, L j i * x j

theorem IsLower.mul {L : ℕ → ℕ → K} {n : ℕ} {c z : ℕ → K} (h : IsLower L n c z) {i : ℕ} (hi : i < n) :
    ∑ k ∈ range n, Lu L i k * z k = c i := by
  rw [sum_Lu_row L z hi, h i hi]; ring

theorem IsUpper.mul {L : ℕ → ℕ → K} {n : ℕ} {w x : ℕ → K} (h : IsUpper L n w x) {k : ℕ} (hk : k < n) :
    ∑ j ∈ range n, Lu L j k * x j = w k := by
  rw [sum_Lu_col L x hk, h k hk]; ring

/-- `D w = z` when `z` vanishes on the zero pivots -/
theorem IsDiag.mul {D : ℕ → K} {n : ℕ} {z w : ℕ → K} (h : IsDiag D n z w) (hz : ∀ k < n, D k = 0 → z k = 0)
    {k : ℕ} (hk : k < n) : D k * w k = z k := by
  rw [h k hk]
  by_cases h0 : D k = 0
  · simp [h0, hz k hk h0]
  · simp [h0]; field_simp

/-- **the three solves solve `N x = c`** whenever `N = Lu D Luᵀ` and the forward-substituted
    right-hand side vanishes on the zero pivots (always true in the regular case) -/
theorem solve_spec {N : ℕ → ℕ → K} {n : ℕ} {L : ℕ → ℕ → K} {D : ℕ → K} {c z w x : ℕ → K}
    (hN : ∀ i < n, ∀ j < n, N i j = ∑ k ∈ range n, Lu L i k * D k * Lu L j k)
    (hl : IsLower L n c z) (hd : IsDiag D n z w) (hu : IsUpper L n w x)
    (hz : ∀ k < n, D k = 0 → z k = 0) {i : ℕ} (hi : i < n) :
    ∑ j ∈ range n, N i j * x j = c i := by
  calc ∑ j ∈ range n, N i j * x j
      = ∑ j ∈ range n, ∑ k ∈ range n, Lu L i k * D k * (Lu L j k * x j) := by
        refine sum_congr rfl fun j hj => ?_
        rw [hN i hi j (mem_range.1 hj), sum_mul]
        exact sum_congr rfl fun k _ => by ring
    _ = ∑ k ∈ range n, Lu L i k * D k * ∑ j ∈ range n, Lu L j k * x j := by
        rw [sum_comm]
        exact sum_congr rfl fun k _ => by rw [mul_sum]
    _ = ∑ k ∈ range n, Lu L i k * z k := by
        refine sum_congr rfl fun k hk => ?_
        rw [hu.mul (mem_range.1 hk), mul_assoc, hd.mul hz (mem_range.1 hk)]
    _ = c i := hl.mul hi

/-- the solution returned for a singular system has zeros at the dependent positions -/
theorem solve_dep_zero {n : ℕ} {L : ℕ → ℕ → K} {D : ℕ → K} {z w x : ℕ → K}
    (hd : IsDiag D n z w) (hu : IsUpper L n w x)
    (hL : ∀ i < n, ∀ j < i, D j = 0 → L i j = 0) {k : ℕ} (hk : k < n) (h0 : D k = 0) : x k = 0 := by
  rw [hu k hk, hd k hk]
  simp only [h0, if_true, zero_sub, neg_eq_zero]
  refine sum_eq_zero fun j hj => ?_
  have hj' := mem_Ico.1 hj
  rw [hL j hj'.2 k (by omega) h0, zero_mul]

end Gama.Ls.Env
