/-
  The svd counterpart of `Lemmas/Ls/NetFacadeReal.lean`: ONE more network over ℝ, `Ex.npV` — the clusters of `Ex.npR`
  (correlated cluster with an excluded observation, all-passive cluster, uncorrelated cluster; `m_0_apr_ = 2`,
  `min_x_ = [1]`) with the design matrix `[[12,16],[15,20],[12,16]]` (rank 1, kernel `(4,−3)`), chosen so that
  `prepareProjectEquations()` leaves the Pythagorean system `Ex.pCVdot = ([[6,8],[3,4],[6,8]], (1/2,1/2,3/2))` on
  which the model's own Golub–Reinsch iteration `Svd.decompose` RETURNS over ℝ (`Lemmas/Ls/SvdDecompWitness.lean`:
  singular values 0 and 15; on `npR` itself they are 0 and 3√2 and the exact iteration does not terminate with
  rational data).  `netSolve .svd` and `.gso` answer on it; `Net.SolverHyp .gso`, the unambiguity of the singular
  values the run returns, `Resolves`, the static hypotheses.
-/
import Gama.Lemmas.Ls.NetFacadeReal
import Gama.Lemmas.Ls.SvdDecompJoint
namespace Gama.Ls.Ex
open Gama Gama.Ls Gama.Ls.Net Gama.Ls.AdjM Gama.LS Gama.Ls.Gso.Ex Matrix
attribute [local instance] sqrtFnOfSqrtField
attribute [local instance 2000] scalarOfField
set_option linter.unusedSimpArgs false

/-- the network of `npR` with the design matrix `[[12,16],[15,20],[12,16]]` (rank 1, kernel `(4,−3)`): the
    homogenised system is the Pythagorean `Ex.pCVdot`, on which the model's own Golub–Reinsch iteration returns -/
noncomputable def npV : NetProblem ℝ :=
  { m := 3, n := 2
    rows := #[#[(1, 12), (2, 16)], #[(1, 15), (2, 20)], #[(1, 12), (2, 16)]]
    rhs := #[1, 2, 3]
    clusters := [⟨⟨3, 2, #[16, 3, 8, 25, 5, 40]⟩, [true, false, true]⟩, ⟨⟨1, 0, #[1]⟩, [false]⟩,
      ⟨⟨1, 0, #[16]⟩, [true]⟩]
    m0 := 2
    minx := [1] }

theorem npV_cofs : cofs npV = cofs (npW 2 [1]) := rfl
theorem npV_dimsN : dimsN npV = [2, 1] := npW_dimsN 2 [1]
theorem npV_dims : (dimsN npV).sum = npV.m := npW_dims 2 [1]

theorem npV_rows : RowsOK (toProblem npV) := by
  apply RowsOK.of_nodup
  intro i hi
  have : i = 0 ∨ i = 1 ∨ i = 2 := by have : i < 3 := hi; omega
  rcases this with rfl | rfl | rfl <;> simp [toProblem, npV, Array.getD]

theorem npV_denseA : denseA npV = #[#[12, 16], #[15, 20], #[12, 16]] := by
  unfold denseA
  show Dn.mmk 3 2 _ = _
  rw [mmk32]
  simp [npV, rowSum, Dn.vget]

set_option maxRecDepth 8000 in
theorem npV_prepare : prepare npV = .ok ⟨[⟨2, 1, #[2, 1, 3]⟩, ⟨1, 0, #[2]⟩],
    #[#[6, 8], #[3, 4], #[6, 8]], #[1 / 2, 1 / 2, 3 / 2]⟩ := by
  unfold prepare
  rw [npV_cofs, npW2_factors]
  simp only [npV_denseA, npV_dimsN]
  have hm : npV.m = 3 := rfl
  have hn : npV.n = 2 := rfl
  have hr : npV.rhs = #[1, 2, 3] := rfl
  rw [hm, hn, hr, mmk32, vmk3]
  simp [AdjM.locate, homSeg, vmk2', vmk1', Dn.mget, Dn.vget, forwardSubst_2_1, forwardSubst_1_0]
  norm_num

theorem npV_dot (Us : List (Cov.CovMat ℝ)) :
    Net.dotProblem npV ⟨Us, #[#[6, 8], #[3, 4], #[6, 8]], #[1 / 2, 1 / 2, 3 / 2]⟩ = pCVdot := rfl

theorem svdSolve_xErr {p : Problem ℝ} {s : Answer ℝ} (h : svdSolve p = .ok s) : s.xErr = none := by
  have h' : svdSolveWith true p = .ok s := h
  unfold svdSolveWith at h'
  split at h'
  · cases h'
  · exact answerOf_xErr h'

/-- `LocalNetwork` + svd answers `npV`: the factors are computed by the model's own iteration -/
theorem npV_svd : ∃ a, netSolve .svd npV = .ok a ∧ a.x = #[0, 1 / 8] ∧ a.defect = 1 := by
  obtain ⟨s, hs, hx, hd⟩ := pCVdot_svdSolve
  obtain ⟨a, ha, ax, ad, -⟩ := netFull_ok (alg := .svd) (by decide) npV_prepare hs (svdSolve_xErr hs)
  exact ⟨a, ha, by rw [ax, hx], by rw [ad, hd]⟩

theorem npV_gso : ∃ a, netSolve .gso npV = .ok a ∧ a.x = #[0, 1 / 8] ∧ a.defect = 1 := by
  obtain ⟨s, hs, hx, hd⟩ := pCVdot_gso_answers
  obtain ⟨a, ha, ax, ad, -⟩ := netFull_ok (alg := .gso) (by decide) npV_prepare hs (gsoSolveWith_xErr hs)
  exact ⟨a, ha, by rw [ax, hx], by rw [ad, hd]⟩

/-- the gso premise on `npV` -/
theorem npV_hyp_gso : Net.SolverHyp .gso npV := by
  intro hh hp
  rw [npV_prepare] at hp
  obtain rfl := Except.ok.inj hp
  exact pCVdot_gso_unambiguous

/-- the singular values the model's iteration returns on the system `LocalNetwork` hands over are unambiguous -/
theorem npV_hun (hh : Hom ℝ) (d : Svd.Dec ℝ) (hp : prepare npV = .ok hh)
    (hd : Svd.decompose npV.m npV.n (Net.dotProblem npV hh).dense = .ok d) :
    Svd.Unambiguous (Gso.SqrtField.sqrt : ℝ → ℝ) Svd.wTol npV.n (Svd.vget d.W) := by
  rw [npV_prepare] at hp
  obtain rfl := Except.ok.inj hp
  exact pCVdot_hun d hd

/-- `Σ⁻¹` at the index type of `npV` -/
noncomputable def PcV : Matrix (Fin (toProblem npV).m) (Fin (toProblem npV).m) ℝ := PcR

theorem npV_sigma_inv : Sigma npV * PcV = 1 := npW_sigma_inv 2 [1]

theorem npV_A : ((toProblem npV).A : Matrix (Fin 3) (Fin 2) ℝ) = !![12, 16; 15, 20; 12, 16] := by
  have h : (toProblem npV).A = toMatrix 3 2 (toProblem npV).dense := rfl
  have hd : (toProblem npV).dense = #[#[12, 16], #[15, 20], #[12, 16]] := by
    simp [Problem.dense, toProblem, npV]
    refine ⟨?_, ?_, ?_⟩ <;> rfl
  rw [h, hd]
  ext i j; fin_cases i <;> fin_cases j <;> rfl

theorem resolvesV_lit :
    Resolves (!![12, 16; 15, 20; 12, 16] : Matrix (Fin 3) (Fin 2) ℝ) ({0} : Finset (Fin 2)) := by
  intro g hg hS
  have h0 : g 0 = 0 := hS 0 (by simp)
  have h1 : 12 * g 0 + 16 * g 1 = 0 := by
    have := congrFun hg 0
    simpa [Matrix.mulVec, dotProduct, Fin.sum_univ_two] using this
  rw [h0] at h1
  have h2 : g 1 = 0 := by linarith
  funext i
  fin_cases i
  · exact h0
  · exact h2

/-- `min_x_ = [1]` resolves the defect of `npV` (kernel `t·(4,−3)`) -/
theorem npV_resolves : Resolves (toProblem npV).A (toProblem npV).S := by
  have hS : ((toProblem npV).S : Finset (Fin 2)) = ({0} : Finset (Fin 2)) := by
    show Reg.toFinset 2 (.subset [1]) = _
    decide
  have key := resolvesV_lit
  rw [← npV_A, ← hS] at key
  exact key

end Gama.Ls.Ex
