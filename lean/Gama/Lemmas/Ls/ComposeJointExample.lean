/-
  Joint non-vacuity witness for the pair theorems of Props/C02Pairs.lean: ONE problem over ℝ
  (`Real.sqrt`) on which the hypotheses of the Gram–Schmidt, the Cholesky and the envelope
  theorems hold at the same time.

  `Ex.pR` (Lemmas/Ls/GsoReal.lean): A = [1 1; 0 0], b = (1,1), unit weights, S = {1} — defect 1,
  S a proper subset of the unknowns that resolves the defect (ker A = span (1,−1)).
  Its Gram–Schmidt side (`pR_unambiguous`, `pR_answers`) is in GsoReal.lean.  Here:

  * Cholesky (`pR_cholFact`): AᵀA = [1 1; 1 1]; first pivot 1 (accepted, no swap), Schur
    complement 0 — the rejected pivot is EXACTLY 0 (`pR_chol_unambiguous`), nullity 1;
    G = (1,−1), its S-norm² is 1 ≥ s_tol, so the loop answers (`pR_chol_answers`);
    `Real.sqrt` is lawful (`pR_chol_sqrt`).
  * envelope, identity ordering, `tol = s_tol = 2⁻²⁶`: N = [1 1; 1 1], rows of the factor
    (l = [], d = 1), (l = [1], d = 0, dep) (`pR_ldl`); tested pivots 1 and 0
    (`pR_factUnamb`); kernel column (1,−1), Gram–Schmidt pivot √1 = 1 ≥ s_tol (`pR_env_answers`).
  * svd with the factors given explicitly (`dR`: U = I, W = (√2, 0), V = (1/√2)[1 1; 1 −1]),
    `W_tol = 1/1000`: `SvdCert` (`pR_svdCert`); the null column (1/√2, −1/√2) has S-norm 1/√2 >
    W_tol·1, so `min_subset_x` does not refuse and the model answers (`pR_svd_answers`).

  The models are unfolded on the concrete 2×2 data by `simp` down to literals (the technique of
  GsoReal.lean); `decide` is not available over ℝ.
-/
import Gama.Lemmas.Ls.GsoReal
import Gama.Lemmas.Ls.CholSingular
import Gama.Lemmas.Ls.EnvFinal
import Gama.Lemmas.Ls.SvdProps
import Mathlib.Tactic.IntervalCases
import Mathlib.Tactic.FinCases
import Mathlib.Tactic.NormNum

namespace Gama.Ls.Gso.Ex
open Gama Gama.Ls Gama.LS Gama.Ls.Gso Matrix

set_option linter.unusedSimpArgs false

/-- the square-root carrier of the Cholesky theorems at ℝ: the `SqrtField` one (`Real.sqrt`) -/
noncomputable local instance sqR : SqrtFn ℝ := ⟨SqrtField.sqrt⟩

theorem lawfulSqrt_real : LawfulSqrt ℝ :=
  ⟨fun _ h => Real.mul_self_sqrt h, fun x _ => Real.sqrt_nonneg x⟩

/-! ### the problem: defect 1, `S = {1}` proper, resolves the defect -/

/-- `pR.A` at the literal index type -/
noncomputable def pRA2 : Matrix (Fin 2) (Fin 2) ℝ := pR.A

theorem pRA2_apply (i j : Fin 2) : pRA2 i j = if i = 0 then 1 else 0 := by
  show ((pR.dense.getD i.val #[]).getD j.val 0 : ℝ) = _
  rw [pR_dense]
  fin_cases i <;> fin_cases j <;> simp

theorem pR_mem_S (i : Fin 2) : i ∈ Reg.toFinset 2 (.subset [1]) ↔ i = 0 := by
  fin_cases i <;> simp

/-- a kernel vector of `[1 1; 0 0]` that vanishes at the first unknown is 0 -/
theorem pR_resolves : Resolves pR.A pR.S := by
  show ∀ g : Fin 2 → ℝ, pRA2 *ᵥ g = 0 → (∀ i ∈ Reg.toFinset 2 (.subset [1]), g i = 0) → g = 0
  intro g hg hS
  have h0 : g 0 = 0 := hS 0 ((pR_mem_S 0).2 rfl)
  have h1 := congrFun hg 0
  simp [Matrix.mulVec, dotProduct, Fin.sum_univ_two, pRA2_apply, h0] at h1
  ext i
  fin_cases i
  · exact h0
  · exact h1

/-- the regularisation subset is a PROPER subset of the unknowns (unknown 2 is not in it) -/
theorem pR_S_proper : pR.S ≠ Finset.univ := by
  show Reg.toFinset 2 (.subset [1]) ≠ (Finset.univ : Finset (Fin 2))
  intro h
  have : (1 : Fin 2) ∈ Reg.toFinset 2 (.subset [1]) := h ▸ Finset.mem_univ _
  exact absurd ((pR_mem_S 1).1 this) (by decide)

/-- the kernel of `A` is not trivial: `(1, −1)` (the defect is really 1, not 0) -/
theorem pR_kernel : ∃ g, pR.A *ᵥ g = 0 ∧ g ≠ 0 := by
  refine ⟨(fun i : Fin 2 => if i = 0 then (1 : ℝ) else -1), ?_, ?_⟩
  · show pRA2 *ᵥ _ = 0
    funext i
    simp [Matrix.mulVec, dotProduct, Fin.sum_univ_two, pRA2_apply]
  · intro h
    have h0 : (if (0 : Fin 2) = 0 then (1 : ℝ) else -1) = 0 := congrFun h (0 : Fin 2)
    rw [if_pos rfl] at h0
    exact one_ne_zero h0

/-! ### Cholesky -/

section chol
open Gama.Ls.Chol Gama.Ls.Dn

theorem mmk22 {K : Type} (f : Nat → Nat → K) : mmk 2 2 f = #[#[f 0 0, f 0 1], #[f 1 0, f 1 1]] := rfl
theorem vmk2 {K : Type} (f : Nat → K) : vmk 2 f = #[f 0, f 1] := rfl
theorem pmk2 (f : Nat → Nat) : pmk 2 f = #[f 0, f 1] := rfl
theorem ofFn1 {α : Type} (f : Fin 1 → α) : Array.ofFn f = #[f 0] := rfl
theorem ofFn2 {α : Type} (f : Fin 2 → α) : Array.ofFn f = #[f 0, f 1] := rfl
theorem invPerm_id2 : invPerm 2 #[0, 1] = #[0, 1] := by decide

theorem sTol_lt_one : (sTol : ℝ) < 1 := by
  show ((1 : Nat) : ℝ) / ((67108864 : Nat) : ℝ) < 1
  norm_num

/-- the pivoted `L D Lᵀ` factorisation of `AᵀA = [1 1; 1 1]`: no swap, pivot 1 accepted,
    `L21 = 1`, Schur complement 0 rejected (`rej = some 0`), nullity 1 -/
theorem pR_cholFact : cholFact pR = ⟨#[0, 1], #[#[1, 0], #[1, 0]], 1, some 0⟩ := by
  unfold cholFact
  rw [pR_dense]
  show Chol.factor 2 2 0 (pmk 2 id) (normalMat 2 2 #[#[1, 1], #[0, 0]]) = _
  have h1 : ¬ (1 : ℝ) ≤ sTol := not_le.2 sTol_lt_one
  have h0 : (0 : ℝ) ≤ sTol := le_of_lt sTol_pos
  simp [Chol.factor, normalMat, mmk22, pmk2, pivotSearch, diagAt, Dn.mget, pget, sumFrom, elim,
    invPerm_id2, sget, junk, h1, h0, List.range']

/-- the pivot the Cholesky stage rejects is exactly 0 -/
theorem pR_chol_unambiguous : UnambiguousF (cholFact pR) := by
  intro t ht
  rw [pR_cholFact] at ht
  exact Or.inl (Option.some.inj ht).symm

/-- `Real.sqrt` is exact on the Gram–Schmidt pivots -/
theorem pR_chol_sqrt : GsSqrtExact pR :=
  haveI := lawfulSqrt_real
  GsSqrtExact.of_lawful pR

theorem pR_chol_nodup : ∀ S, Chol.regList pR.n pR.reg = some S → S.Nodup := by
  intro S h
  have : Chol.regList pR.n pR.reg = some [0] := rfl
  rw [this] at h
  rw [← Option.some.inj h]
  exact List.nodup_singleton 0

/-- the Gram–Schmidt loop over `S = [0]`: the kernel column is `(1, −1)`, its S-norm² 1 ≥ s_tol -/
theorem pR_chol_gs (x0 : Array ℝ) : ∃ G, gsLoop 2 1 [0] 1 0 (pmk 2 id)
    (gInit 2 1 1 #[0, 1] #[#[1, 0], #[1, 0]] x0) = .ok G := by
  have h1 : ¬ (1 : ℝ) < sTol := not_lt.2 (le_of_lt sTol_lt_one)
  simp [gsLoop, gInit, ofFn1, backSub, sweep, Chol.dotS, pmk2, vmk2, invPerm_id2, pget, Dn.vget, sget,
    Dn.mget, h1]

/-- the Cholesky model answers on `pR` and reports defect 1 -/
theorem pR_chol_answers : ∃ a', cholSolve pR = .ok a' ∧ a'.defect = 1 := by
  have hf : Chol.factor pR.n pR.n 0 (pmk pR.n id) (normalMat pR.m pR.n pR.dense)
      = ⟨#[0, 1], #[#[1, 0], #[1, 0]], 1, some 0⟩ := pR_cholFact
  have hr : Chol.regList pR.n pR.reg = some [0] := rfl
  unfold cholSolve Chol.solve
  simp only [hr, hf]
  obtain ⟨G, hG⟩ := pR_chol_gs (solveX0 2 1 #[0, 1] #[#[1, 0], #[1, 0]] (normalRhs pR.m pR.n pR.dense pR.rhs))
  have hG' : gsLoop pR.n 1 [0] 1 0 (pmk (1 + 1) id) (gInit pR.n (pR.n - 1) 1 #[0, 1] #[#[1, 0], #[1, 0]]
      (solveX0 pR.n (pR.n - 1) #[0, 1] #[#[1, 0], #[1, 0]] (normalRhs pR.m pR.n pR.dense pR.rhs))) = .ok G := hG
  rw [if_neg (by decide), hG']
  exact ⟨_, rfl, rfl⟩

/-- the S-norm² the Gram–Schmidt loop tests is 1 -/
theorem pR_chol_gsVal (x0 : Array ℝ) :
    gsVal [0] (gInit 2 1 1 #[0, 1] #[#[1, 0], #[1, 0]] x0) (pmk 2 id) 0 = 1 := by
  simp [gsVal, gInit, ofFn1, backSub, sweep, Chol.dotS, pmk2, vmk2, invPerm_id2, pget, Dn.vget, sget, Dn.mget]

/-- … hence unambiguous (`≥ s_tol`): the extra hypothesis of the refusal theorem -/
theorem pR_chol_gsUnamb : GsUnamb pR := by
  intro S h
  have hS : Chol.regList pR.n pR.reg = some [0] := rfl
  rw [hS] at h
  rw [← Option.some.inj h, pR_cholFact]
  show gsUnambOK 2 1 [0] 1 0 (pmk 2 id) (gInit 2 1 1 #[0, 1] #[#[1, 0], #[1, 0]] _)
  unfold gsUnambOK
  rw [pR_chol_gsVal]
  refine ⟨Or.inr (le_of_lt sTol_lt_one), ?_⟩
  rw [if_neg (not_lt.2 (le_of_lt sTol_lt_one))]
  trivial

end chol

/-! ### envelope (identity ordering, `tol = s_tol = 2⁻²⁶`) -/

section env
open Gama.Ls.Env

theorem vecOf2 {K : Type} (f : Nat → K) : vecOf 2 f = #[f 0, f 1] := rfl
theorem vecOf1 {K : Type} (f : Nat → K) : vecOf 1 f = #[f 0] := rfl
theorem vecOf0 {K : Type} (f : Nat → K) : vecOf 0 f = #[] := rfl
theorem build2 {α : Type} (f : Nat → Array α → α) : build f 2 = #[f 0 #[], f 1 #[f 0 #[]]] := rfl
theorem build1 {α : Type} (f : Nat → Array α → α) : build f 1 = #[f 0 #[]] := rfl
theorem build0 {α : Type} (f : Nat → Array α → α) : build f 0 = #[] := rfl

theorem eps_pos : (0 : ℝ) < (sqrtEps : ℝ) := by
  show (0 : ℝ) < (1 : ℝ) / ((67108864 : Nat) : ℝ)
  positivity

theorem eps_lt_one : (sqrtEps : ℝ) < 1 := by
  show (1 : ℝ) / ((67108864 : Nat) : ℝ) < 1
  norm_num

theorem idOrd2_ok : OrdOK 2 (idOrd 2) := by
  constructor <;> intro i hi <;> interval_cases i <;> decide

/-- the normal matrix the envelope model builds -/
theorem pR_envN : (factor (sqrtEps : ℝ) 2 2 #[#[1, 1], #[0, 0]] #[1, 1] (idOrd 2)).N = #[#[1, 1], #[1, 1]] := by
  simp [factor, ofFn2, vecOf2, sumTo, Env.mget, idOrd]

/-- `cholDec`: row 1 `d = 1`; row 2 `l = [1]`, pivot `1 − 1·1·1 = 0` → zero test fires -/
theorem pR_ldl : ldl (Env.mget (#[#[1, 1], #[1, 1]] : DMat ℝ)) (sqrtEps : ℝ) 2
    = #[⟨#[], 1, false⟩, ⟨#[1], 0, true⟩] := by
  have h1 : ¬ (1 : ℝ) < sqrtEps := not_lt.2 (le_of_lt eps_lt_one)
  simp [ldl, build2, rowStep, lRow, yRow, build1, build0, vecOf0, vecOf1, sumTo, Env.mget, Lget, Dget, h1,
    eps_pos]

theorem pR_NF : NF (SqrtField.sqrt : ℝ → ℝ) sqrtEps 2 2 #[#[1, 1], #[0, 0]] #[1, 1] (idOrd 2)
    = Env.mget (#[#[1, 1], #[1, 1]] : DMat ℝ) := by
  unfold NF
  rw [pR_envN]

theorem pR_rowAt0 : rowAt (SqrtField.sqrt : ℝ → ℝ) (Env.mget (#[#[1, 1], #[1, 1]] : DMat ℝ)) sqrtEps 0
    = ⟨#[], 1, false⟩ := by
  rw [← ldl_getD (SqrtField.sqrt : ℝ → ℝ) _ _ (by decide : 0 < 2) default]
  erw [pR_ldl]
  rfl

theorem pR_rowAt1 : rowAt (SqrtField.sqrt : ℝ → ℝ) (Env.mget (#[#[1, 1], #[1, 1]] : DMat ℝ)) sqrtEps 1
    = ⟨#[1], 0, true⟩ := by
  rw [← ldl_getD (SqrtField.sqrt : ℝ → ℝ) _ _ (by decide : 1 < 2) default]
  erw [pR_ldl]
  rfl

/-- the tested pivots are 1 (≥ tol) and exactly 0 -/
theorem pR_factUnamb :
    FactUnambiguous (SqrtField.sqrt : ℝ → ℝ) sqrtEps pR.m pR.n pR.dense pR.rhs (idOrd 2) := by
  rw [pR_dense]
  show Env.Unambiguous (SqrtField.sqrt : ℝ → ℝ)
    (NF (SqrtField.sqrt : ℝ → ℝ) sqrtEps 2 2 #[#[1, 1], #[0, 0]] #[1, 1] (idOrd 2)) sqrtEps 2
  rw [pR_NF]
  intro i hi h
  interval_cases i
  · exfalso
    revert h
    simp [dpiv, Env.mget]
    exact le_of_lt eps_lt_one
  · simp [dpiv, Lf, Df, pR_rowAt0, pR_rowAt1, Env.mget]

theorem pR_regOK : Env.RegOK pR.n (idOrd 2) pR.reg (pR.reg.toFinset pR.n) :=
  regOK_subset idOrd2_ok [1] (by decide) (by decide)

theorem pR_rows : (factor (sqrtEps : ℝ) 2 2 #[#[1, 1], #[0, 0]] #[1, 1] (idOrd 2)).rows
    = #[⟨#[], 1, false⟩, ⟨#[1], 0, true⟩] := by
  show ldl (Env.mget (factor (sqrtEps : ℝ) 2 2 #[#[1, 1], #[0, 0]] #[1, 1] (idOrd 2)).N) (sqrtEps : ℝ) 2 = _
  rw [pR_envN, pR_ldl]

/-- `solve_x`: dependent column 2, kernel column `(1, −1)`, Gram–Schmidt pivot `√1 = 1 ≥ s_tol` -/
theorem pR_solveX : ∃ gx, solveX (factor (sqrtEps : ℝ) 2 2 #[#[1, 1], #[0, 0]] #[1, 1] (idOrd 2)) [0] sqrtEps
    = .ok gx := by
  unfold solveX
  split
  · exact ⟨_, rfl⟩
  · rw [pR_rows]
    have h1 : ¬ (1 : ℝ) < sqrtEps := not_lt.2 (le_of_lt eps_lt_one)
    have hn : (factor (sqrtEps : ℝ) 2 2 #[#[1, 1], #[0, 0]] #[1, 1] (idOrd 2)).n = 2 := rfl
    rw [hn]
    have hs : SqrtField.sqrt (1 : ℝ) = 1 := Real.sqrt_one
    simp [gs, gsCols, depCols, kerCol, upper, upperRev, build2, vecOf2, orthAgainst, Env.dotS, Dget, Lget,
      sumTo, List.range_succ, hs, h1, Except.map]

/-- `unknowns()` of the envelope model answers on `pR` -/
theorem pR_env_answers : ∃ x, (envCore (sqrtEps : ℝ) sqrtEps pR.m pR.n pR.dense pR.rhs pR.dense pR.rhs
    pR.reg (idOrd 2)).x = .ok x := by
  rw [pR_dense]
  obtain ⟨gx, hgx⟩ := pR_solveX
  have hS : Env.regList 2 (idOrd 2) pR.reg = [0] := by decide
  show ∃ x, (solveX (factor (sqrtEps : ℝ) 2 2 #[#[1, 1], #[0, 0]] #[1, 1] (idOrd 2))
      (Env.regList 2 (idOrd 2) pR.reg) sqrtEps).map _ = .ok x
  rw [hS, hgx]
  exact ⟨_, rfl⟩

/-- the envelope model reports defect 1 -/
theorem pR_env_defect : (envCore (sqrtEps : ℝ) sqrtEps pR.m pR.n pR.dense pR.rhs pR.dense pR.rhs
    pR.reg (idOrd 2)).defect = 1 := by
  rw [pR_dense]
  show defectOf (factor (sqrtEps : ℝ) 2 2 #[#[1, 1], #[0, 0]] #[1, 1] (idOrd 2)).rows = 1
  rw [pR_rows]
  rfl

end env

/-! ### svd: an explicit certified decomposition `A = U diag(√2, 0) Vᵀ`, `W_tol = 1/1000` -/

section svd
open Gama.Ls.Svd

/-- `U = I`, `W = (√2, 0)`, `V = (1/√2)·[1 1; 1 −1]` (written `√2/2`) -/
noncomputable def dR : Svd.Dec ℝ :=
  { U := #[#[1, 0], #[0, 1]], W := #[Real.sqrt 2, 0],
    V := #[#[Real.sqrt 2 / 2, Real.sqrt 2 / 2], #[Real.sqrt 2 / 2, -(Real.sqrt 2 / 2)]] }

theorem r_sq : Real.sqrt 2 * Real.sqrt 2 = 2 := Real.mul_self_sqrt (by norm_num)
theorem r_pos : 0 < Real.sqrt 2 := Real.sqrt_pos.2 (by norm_num)
theorem one_le_r : 1 ≤ Real.sqrt 2 := by
  rw [show (1:ℝ) = Real.sqrt 1 from Real.sqrt_one.symm]
  exact Real.sqrt_le_sqrt (by norm_num)

theorem dR_U : toMatrix 2 2 dR.U = !![1, 0; 0, 1] := by
  ext i j; fin_cases i <;> fin_cases j <;> rfl
theorem dR_V : toMatrix 2 2 dR.V = !![Real.sqrt 2 / 2, Real.sqrt 2 / 2; Real.sqrt 2 / 2, -(Real.sqrt 2 / 2)] := by
  ext i j; fin_cases i <;> fin_cases j <;> rfl
theorem dR_W : toVec 2 dR.W = ![Real.sqrt 2, 0] := by
  funext i; fin_cases i <;> rfl
theorem pR_A2 : toMatrix 2 2 pR.dense = !![(1:ℝ), 1; 0, 0] := by
  rw [pR_dense]; ext i j; fin_cases i <;> fin_cases j <;> rfl

theorem pR_vmax : @vmaxOf ℝ (LS.fieldScalar SqrtField.sqrt) 2 (@Svd.vget ℝ (LS.fieldScalar SqrtField.sqrt) dR.W) = Real.sqrt 2 := by
  have h0 : @Svd.vget ℝ (LS.fieldScalar SqrtField.sqrt) dR.W 0 = Real.sqrt 2 := rfl
  have h1 : @Svd.vget ℝ (LS.fieldScalar SqrtField.sqrt) dR.W 1 = 0 := rfl
  show (([0, 1] : List Nat).foldl (fun v k => if v < @Svd.vget ℝ (LS.fieldScalar SqrtField.sqrt) dR.W k
    then @Svd.vget ℝ (LS.fieldScalar SqrtField.sqrt) dR.W k else v) (0 : ℝ)) = Real.sqrt 2
  simp only [List.foldl_cons, List.foldl_nil, h0, h1]
  simp [r_pos, le_of_lt r_pos]

theorem pR_svdCert : SvdCert (SqrtField.sqrt : ℝ → ℝ) (1 / 1000) pR.m pR.n pR.dense dR := by
  refine ⟨?_, ?_, ?_, ?_⟩
  · show toMatrix 2 2 _ = toMatrix 2 2 dR.U * diagonal (toVec 2 dR.W) * (toMatrix 2 2 dR.V)ᵀ
    rw [pR_A2, dR_U, dR_V, dR_W]
    ext i j
    fin_cases i <;> fin_cases j <;>
      simp [Matrix.mul_apply, Fin.sum_univ_two, Matrix.diagonal_apply, Matrix.transpose_apply,
        Matrix.vecMul, dotProduct] <;>
      linarith [r_sq]
  · show (toMatrix 2 2 dR.V)ᵀ * toMatrix 2 2 dR.V = 1
    rw [dR_V]
    ext i j
    fin_cases i <;> fin_cases j <;>
      simp [Matrix.mul_apply, Fin.sum_univ_two, Matrix.transpose_apply, Matrix.one_apply] <;>
      nlinarith [r_sq]
  · show ∀ i j : Fin 2, toVec 2 dR.W i ≠ 0 → toVec 2 dR.W j ≠ 0 →
      ((toMatrix 2 2 dR.U)ᵀ * toMatrix 2 2 dR.U) i j = if i = j then 1 else 0
    rw [dR_U, dR_W]
    intro i j
    fin_cases i <;> fin_cases j <;>
      simp [Matrix.mul_apply, Fin.sum_univ_two, Matrix.transpose_apply]
  · show ∀ i, i < 2 → _
    intro i hi
    rw [show pR.n = 2 from rfl, pR_vmax]
    have h0 : @Svd.vget ℝ (LS.fieldScalar SqrtField.sqrt) dR.W 0 = Real.sqrt 2 := rfl
    have h1 : @Svd.vget ℝ (LS.fieldScalar SqrtField.sqrt) dR.W 1 = 0 := rfl
    have : i = 0 ∨ i = 1 := by omega
    rcases this with rfl | rfl
    · right; rw [h0, abs_of_pos r_pos]; nlinarith [r_pos]
    · left; exact h1


local notation "𝕊R" => (LS.fieldScalar (SqrtField.sqrt : ℝ → ℝ))

/-- `inv_W` of the certificate -/
noncomputable def iwR : Nat → ℝ := @invW ℝ 𝕊R (1 / 1000) 2 (@Svd.vget ℝ 𝕊R dR.W)

theorem iwR_0 : iwR 0 = 1 / Real.sqrt 2 := by
  unfold iwR invW
  rw [pR_vmax]
  have h0 : @Svd.vget ℝ 𝕊R dR.W 0 = Real.sqrt 2 := rfl
  rw [h0]
  have : (1 / 1000 : ℝ) * Real.sqrt 2 < @absC ℝ 𝕊R (Real.sqrt 2) := by
    unfold absC
    rw [if_pos (le_of_lt r_pos)]
    nlinarith [r_pos]
  rw [if_pos this]

theorem iwR_1 : iwR 1 = 0 := by
  unfold iwR invW
  rw [pR_vmax]
  have h1 : @Svd.vget ℝ 𝕊R dR.W 1 = 0 := rfl
  rw [h1]
  have : ¬ (1 / 1000 : ℝ) * Real.sqrt 2 < @absC ℝ 𝕊R 0 := by
    unfold absC
    rw [if_pos (le_refl _)]
    nlinarith [r_pos]
  rw [if_neg this]

theorem null0 : @isNull ℝ 𝕊R iwR 0 = false := by
  unfold isNull
  rw [iwR_0]
  show decide ((1 / Real.sqrt 2 : ℝ) = 0) = false
  simp [ne_of_gt r_pos]

theorem null1 : @isNull ℝ 𝕊R iwR 1 = true := by
  unfold isNull
  rw [iwR_1]
  show decide ((0 : ℝ) = 0) = true
  simp

theorem defR : @Svd.defectOf ℝ 𝕊R 2 iwR = 1 := by
  unfold Svd.defectOf
  simp [List.range_succ, List.filter, null0, null1]

theorem dotR : @Svd.dotS ℝ 𝕊R [0] (fun i => @Svd.mget ℝ 𝕊R dR.V i 1) (fun i => @Svd.mget ℝ 𝕊R dR.V i 1)
    = Real.sqrt 2 / 2 * (Real.sqrt 2 / 2) := by
  show (0 : ℝ) + Real.sqrt 2 / 2 * (Real.sqrt 2 / 2) = _
  ring

theorem normR : @Svd.sumTo ℝ 𝕊R 2 (fun i => @Svd.mget ℝ 𝕊R dR.V i 1 * @Svd.mget ℝ 𝕊R dR.V i 1) = 1 := by
  show (0 : ℝ) + Real.sqrt 2 / 2 * (Real.sqrt 2 / 2) + -(Real.sqrt 2 / 2) * -(Real.sqrt 2 / 2) = 1
  nlinarith [r_sq]

theorem pR_msStep1 : ∃ V', @msStep ℝ 𝕊R (some (1 / 1000)) 2 [0] iwR dR.V 1 = .ok V' := by
  unfold msStep
  rw [null1, if_pos rfl]
  have hs : @Scalar.sqrt ℝ 𝕊R (Real.sqrt 2 / 2 * (Real.sqrt 2 / 2)) = Real.sqrt 2 / 2 :=
    Real.sqrt_mul_self (by linarith [r_pos])
  have hr : @refuse ℝ 𝕊R 2 (some (1 / 1000)) dR.V 1 (Real.sqrt 2 / 2) = false := by
    unfold refuse
    simp only [normR]
    have : @Scalar.sqrt ℝ 𝕊R 1 = 1 := Real.sqrt_one
    rw [this]
    simp
    linarith [one_le_r]
  simp only [dotR, hs, hr]
  exact ⟨_, rfl⟩

theorem pR_minSubsetX : ∃ V', @minSubsetX ℝ 𝕊R (some (1 / 1000)) 2 (.subset [1]) iwR dR.V = .ok V' := by
  obtain ⟨V', hV'⟩ := pR_msStep1
  refine ⟨V', ?_⟩
  unfold minSubsetX
  simp only [defR]
  have h0 : @msStep ℝ 𝕊R (some (1 / 1000)) 2 [0] iwR dR.V 0 = .ok dR.V := by
    unfold msStep
    rw [null0]
    rfl
  have hl : List.range 2 = [0, 1] := rfl
  simp only [List.length_singleton, Nat.lt_irrefl, if_false, List.all_cons, List.all_nil, msLoop, hl,
    List.foldlM_cons, List.foldlM_nil, List.map_cons, List.map_nil, h0, bind, Except.bind, hV', pure, Except.pure]
  simp

theorem pR_svd_answers : ∃ a', @svdSolveCert ℝ 𝕊R true (1 / 1000) dR pR = .ok a' := by
  obtain ⟨V', hV'⟩ := pR_minSubsetX
  unfold svdSolveCert answerOf
  have : pR.n = 2 := rfl
  have hreg : pR.reg = .subset [1] := rfl
  simp only [this, hreg, if_true]
  have hV'' : @minSubsetX ℝ 𝕊R (some (1 / 1000)) 2 (.subset [1])
      (@invW ℝ 𝕊R (1 / 1000) 2 (@Svd.vget ℝ 𝕊R dR.W)) dR.V = .ok V' := hV'
  rw [hV'']
  exact ⟨_, rfl⟩

theorem pR_svd_regOK : Svd.RegOK pR.reg := by
  show List.Nodup [1]
  decide

end svd

end Gama.Ls.Gso.Ex
