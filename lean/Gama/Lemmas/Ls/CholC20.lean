/-
  `AdjCholDec::lindep`, `defect`: what `solve()` leaves in the object (all fields except the
  Gram–Schmidt result), and the C20 statement about the flags.
-/
import Gama.Lemmas.Ls.CholDefect

namespace Gama.Ls
open Finset Dn Chol Matrix Gama.LS

set_option linter.unusedSectionVars false
set_option linter.unusedVariables false

section
variable {K : Type} [Field K] [LinearOrder K] [IsStrictOrderedRing K] [SqrtFn K]
attribute [local instance 2000] scalarOfField

/-- everything a successful `solve()` leaves in the object -/
theorem solve_shape (p : Problem K) (s : Solved K) (hs : Chol.solve p = .ok s) :
    s.m = p.m ∧ s.n = p.n ∧ s.A = p.dense ∧ s.perm = (cholFact p).perm ∧
    s.invp = invPerm p.n (cholFact p).perm ∧ s.mat = (cholFact p).mat ∧
    s.nullity = (cholFact p).nullity ∧ s.N0 = p.n - (cholFact p).nullity ∧
    s.x0 = solveX0 p.n (p.n - (cholFact p).nullity) (cholFact p).perm (cholFact p).mat
      (normalRhs p.m p.n p.dense p.rhs) ∧
    s.r = residuals p.m (p.n - (cholFact p).nullity) (cholFact p).perm p.dense p.rhs s.x0 ∧
    s.Q0 = q0Mat p.n (p.n - (cholFact p).nullity) (cholFact p).perm (cholFact p).mat ∧
    regList p.n p.reg = some s.S ∧
    ((cholFact p).nullity = 0 → s.x = s.x0) ∧
    ((cholFact p).nullity ≠ 0 →
      gsLoop p.n (cholFact p).nullity s.S (cholFact p).nullity 0 (pmk ((cholFact p).nullity + 1) id)
        (gInit p.n (p.n - (cholFact p).nullity) (cholFact p).nullity (cholFact p).perm (cholFact p).mat s.x0)
        = .ok s.G ∧ s.x = s.G.getD (cholFact p).nullity #[]) := by
  unfold Chol.solve at hs
  simp only [] at hs
  split at hs
  · simp at hs
  · rename_i S hreg
    split at hs
    · rename_i h0
      have := Except.ok.inj hs
      subst this
      unfold cholFact
      simp only [h0]
      refine ⟨trivial, trivial, trivial, trivial, trivial, trivial, trivial, trivial, trivial, trivial,
        trivial, hreg, fun _ => trivial, fun h => absurd rfl h⟩
    · rename_i h0
      split at hs
      · simp at hs
      · rename_i G hG
        have := Except.ok.inj hs
        subst this
        unfold cholFact
        refine ⟨rfl, rfl, rfl, rfl, rfl, rfl, rfl, rfl, rfl, rfl, rfl, hreg, fun h => absurd h h0, fun _ => ⟨hG, rfl⟩⟩

/-- the invariant of the whole factorisation for problem `p` -/
theorem cholFact_fin (p : Problem K) (hU : Chol.UnambiguousF (cholFact p)) :
    LDLFin p.n (normalF p.m p.dense) (cholFact p).perm (cholFact p).mat (p.n - (cholFact p).nullity) := by
  obtain ⟨aPre, N0, hE⟩ := factor_end (Nf := normalF p.m p.dense) p.n 0 (pmk p.n id) (normalMat p.m p.n p.dense)
    (LDLInv.init p.n _ _ _ (fun u v hu hv => normalMat_spec p.m p.n p.dense u v hu hv)) (by omega)
  have hfin := factEnd_fin hE hU
  have hnull : (cholFact p).nullity = p.n - N0 := hE.nullity
  have : p.n - (cholFact p).nullity = N0 := by have := hE.inv.le; omega
  rw [this]
  exact hfin

/-- number of unknowns pivoted into the null part -/
theorem card_flagged {n N0 : Nat} {perm : Array Nat} (hP : IsPerm n perm) (hN0 : N0 ≤ n) :
    ((range n).filter fun u => N0 ≤ qq n perm u).card = n - N0 := by
  rw [← Nat.card_Ico N0 n]
  refine Finset.card_nbij' (qq n perm) (pget perm) ?_ ?_ ?_ ?_
  · intro u hu
    have hu' := Finset.mem_filter.1 hu
    have := qq_spec hP u (Finset.mem_range.1 hu'.1)
    exact Finset.mem_coe.2 (Finset.mem_Ico.2 ⟨hu'.2, this.1⟩)
  · intro k hk
    have hk' := Finset.mem_Ico.1 (Finset.mem_coe.1 hk)
    exact Finset.mem_coe.2 (Finset.mem_filter.2 ⟨Finset.mem_range.2 (hP.lt k hk'.2), by rw [qq_perm hP k hk'.2]; exact hk'.1⟩)
  · intro u hu
    have hu' := Finset.mem_filter.1 hu
    exact (qq_spec hP u (Finset.mem_range.1 hu'.1)).2
  · intro k hk
    have hk' := Finset.mem_Ico.1 (Finset.mem_coe.1 hk)
    exact qq_perm hP k hk'.2

/-- vectors `Fin n → K` as functions on `ℕ` -/
def extend {n : Nat} (g : Fin n → K) : Nat → K := fun v => if h : v < n then g ⟨v, h⟩ else 0

theorem mulVec_extend (p : Problem K) (g : Fin p.n → K) (k : Fin p.m) :
    (p.A *ᵥ g) k = ∑ v ∈ range p.n, mget p.dense k.val v * extend g v := by
  unfold Matrix.mulVec dotProduct
  rw [← Fin.sum_univ_eq_sum_range (fun v => mget p.dense k.val v * extend g v) p.n]
  refine Finset.sum_congr rfl fun v _ => ?_
  unfold extend; rw [dif_pos v.isLt]; rfl

/-- **C20 (cholesky)**: the flags of a solved object -/
theorem chol_lindep_spec (p : Problem K) (hU : Chol.UnambiguousF (cholFact p)) (s : Solved K)
    (hs : Chol.solve p = .ok s) :
    (∀ i, i < p.n → s.lindep0 i = decide (s.N0 ≤ qq p.n s.perm i)) ∧
    ((range p.n).filter fun i => s.lindep0 i = true).card = s.nullity ∧
    (∀ g : Fin p.n → K, p.A *ᵥ g = 0 → (∀ i : Fin p.n, s.lindep0 i.val = true → g i = 0) → g = 0) ∧
    (∀ i : Fin p.n, s.lindep0 i.val = true →
      ∃ g : Fin p.n → K, p.A *ᵥ g = 0 ∧ g i = -1 ∧ ∀ i' : Fin p.n, s.lindep0 i'.val = true → i' ≠ i → g i' = 0) := by
  obtain ⟨hm, hn, hA, hperm, hinvp, hmat, hnull, hN0, _⟩ := solve_shape p s hs
  have hF := cholFact_fin p hU
  have hN0' : s.N0 = p.n - s.nullity := by rw [hN0, hnull]
  rw [← hperm, ← hmat, ← hnull, ← hN0'] at hF
  have hP := hF.isPerm
  have hle := hF.le
  have hnl : s.nullity ≤ p.n := by
    rw [hnull]
    obtain ⟨aPre, N0, hE⟩ := factor_end (Nf := normalF p.m p.dense) p.n 0 (pmk p.n id) (normalMat p.m p.n p.dense)
      (LDLInv.init p.n _ _ _ (fun u v hu hv => normalMat_spec p.m p.n p.dense u v hu hv)) (by omega)
    have : (cholFact p).nullity = p.n - N0 := hE.nullity
    omega
  have hflag : ∀ i, i < p.n → s.lindep0 i = decide (s.N0 ≤ qq p.n s.perm i) := by
    intro i hi
    unfold Solved.lindep0
    rw [hinvp, ← hperm]
    show (s.nullity != 0 && decide (s.N0 ≤ qq p.n s.perm i)) = _
    by_cases h0 : s.nullity = 0
    · have : ¬ s.N0 ≤ qq p.n s.perm i := by
        have := (qq_spec hP i hi).1; omega
      simp [h0, this]
    · simp [h0]
  refine ⟨hflag, ?_, ?_, ?_⟩
  · have : ((range p.n).filter fun i => s.lindep0 i = true) = (range p.n).filter fun u => s.N0 ≤ qq p.n s.perm u := by
      refine Finset.filter_congr fun i hi => ?_
      rw [hflag i (Finset.mem_range.1 hi)]; simp
    rw [this, card_flagged hP hle]; omega
  · intro g hg hfl
    have hk : ∀ k, k < p.m → ∑ v ∈ range p.n, mget p.dense k v * extend g v = 0 := by
      intro k hk
      rw [← mulVec_extend p g ⟨k, hk⟩, hg]; rfl
    have := ker_zero_of_flagged_zero hF (extend g) hk (by
      intro u hu hq
      unfold extend; rw [dif_pos hu]
      apply hfl ⟨u, hu⟩
      rw [hflag u hu]; simpa using hq)
    funext i
    have h1 := this i.val i.isLt
    unfold extend at h1; rw [dif_pos i.isLt] at h1
    exact h1
  · intro i hi
    rw [hflag i.val i.isLt] at hi
    have hqi : s.N0 ≤ qq p.n s.perm i.val := by simpa using hi
    obtain ⟨hqn, hpq⟩ := qq_spec hP i.val i.isLt
    set j := qq p.n s.perm i.val - s.N0 with hj
    have hjn : s.N0 + j < p.n := by omega
    obtain ⟨g1, g2⟩ := gcol_spec hF j hjn
    refine ⟨fun v => vget (gcol p.n s.N0 s.perm s.mat j) v.val, ?_, ?_, ?_⟩
    · funext k
      rw [mulVec_extend]
      have : ∀ v ∈ range p.n, mget p.dense k.val v * extend (fun v : Fin p.n => vget (gcol p.n s.N0 s.perm s.mat j) v.val) v
          = mget p.dense k.val v * vget (gcol p.n s.N0 s.perm s.mat j) v := by
        intro v hv
        unfold extend; rw [dif_pos (Finset.mem_range.1 hv)]
      rw [Finset.sum_congr rfl this, g1 k.val k.isLt]; rfl
    · have := g2 (qq p.n s.perm i.val) hqi hqn
      rw [hpq] at this
      show vget (gcol p.n s.N0 s.perm s.mat j) i.val = -1
      rw [this, if_pos (by omega)]
    · intro i' hi' hne
      rw [hflag i'.val i'.isLt] at hi'
      have hqi' : s.N0 ≤ qq p.n s.perm i'.val := by simpa using hi'
      obtain ⟨hqn', hpq'⟩ := qq_spec hP i'.val i'.isLt
      have := g2 (qq p.n s.perm i'.val) hqi' hqn'
      rw [hpq'] at this
      show vget (gcol p.n s.N0 s.perm s.mat j) i'.val = 0
      rw [this, if_neg]
      intro e
      apply hne
      apply Fin.ext
      rw [← hpq', ← hpq]
      congr 1
      omega

end
end Gama.Ls
