/-
  Envelope solver, the Gram–Schmidt loop of `AdjEnvelope::solve_x` (`Env.gsCols`,
  `Env.orthAgainst`) over the regularisation list `S`:
  invariants — the normalised columns are `S`-orthonormal, stay in the linear span of the
  input columns and span it; the last column (the particular solution) ends `S`-orthogonal to
  all of them and differs from the input by a combination of them.
-/
import Gama.Model.Ls.Env.Core
import Gama.Lemmas.Ls.EnvBuild
import Mathlib.LinearAlgebra.Span.Defs
import Mathlib.Algebra.BigOperators.Group.List.Basic
import Mathlib.Tactic.FieldSimp
import Mathlib.Tactic.LinearCombination

namespace Gama.Ls.Env
open Finset

set_option linter.unusedSectionVars false

variable {K : Type} [Field K] [LinearOrder K] [IsStrictOrderedRing K] (sq : K → K)
local notation "𝔽" => fieldScalar sq

/-- `Σ_{k ∈ S} a_k b_k` over the list (with multiplicity) -/
def dotL (S : List ℕ) (a b : ℕ → K) : K := (S.map fun k => a k * b k).sum

theorem foldl_add_eq (S : List ℕ) (f : ℕ → K) (init : K) :
    S.foldl (fun s k => s + f k) init = init + (S.map f).sum := by
  induction S generalizing init with
  | nil => simp
  | cons a t ih => simp only [List.foldl_cons, List.map_cons, List.sum_cons, ih]; ring

theorem dotS_eq (S : List ℕ) (a b : Array K) :
    @dotS K 𝔽 S a b = dotL S (@vget K 𝔽 a) (@vget K 𝔽 b) := by
  unfold dotS dotL
  have := foldl_add_eq S (fun k => @vget K 𝔽 a k * @vget K 𝔽 b k) 0
  simp only [zero_add] at this
  exact this

theorem dotL_comm (S : List ℕ) (a b : ℕ → K) : dotL S a b = dotL S b a := by
  unfold dotL; congr 1; exact List.map_congr_left fun k _ => mul_comm _ _

theorem dotL_congr_right {S : List ℕ} {a b b' : ℕ → K} (h : ∀ k ∈ S, b k = b' k) : dotL S a b = dotL S a b' := by
  unfold dotL; congr 1; exact List.map_congr_left fun k hk => by rw [h k hk]

theorem dotL_sub_smul (S : List ℕ) (a h g : ℕ → K) (c : K) :
    dotL S a (fun k => h k - c * g k) = dotL S a h - c * dotL S a g := by
  unfold dotL
  induction S with
  | nil => simp
  | cons x t ih => simp only [List.map_cons, List.sum_cons, ih]; ring

theorem dotL_div (S : List ℕ) (a g : ℕ → K) (p : K) :
    dotL S a (fun k => g k / p) = dotL S a g / p := by
  unfold dotL
  induction S with
  | nil => simp
  | cons x t ih => simp only [List.map_cons, List.sum_cons, ih]; ring

theorem dotL_self_nonneg (S : List ℕ) (a : ℕ → K) : 0 ≤ dotL S a a := by
  unfold dotL
  induction S with
  | nil => simp
  | cons x t ih => simp only [List.map_cons, List.sum_cons]; exact add_nonneg (mul_self_nonneg _) ih

theorem dotL_self_eq_zero {S : List ℕ} {a : ℕ → K} (h : dotL S a a = 0) : ∀ k ∈ S, a k = 0 := by
  unfold dotL at h
  induction S with
  | nil => intro k hk; cases hk
  | cons x t ih =>
    simp only [List.map_cons, List.sum_cons] at h
    have h1 : 0 ≤ a x * a x := mul_self_nonneg _
    have h2 : 0 ≤ (t.map fun k => a k * a k).sum := dotL_self_nonneg t a
    have hx : a x * a x = 0 := by linarith
    have ht : (t.map fun k => a k * a k).sum = 0 := by linarith
    intro k hk
    rcases List.mem_cons.1 hk with rfl | hk
    · exact mul_self_eq_zero.1 hx
    · exact ih ht k hk

theorem dotL_zero_right {S : List ℕ} (a : ℕ → K) {b : ℕ → K} (h : ∀ k ∈ S, b k = 0) : dotL S a b = 0 := by
  unfold dotL
  apply List.sum_eq_zero
  intro x hx
  obtain ⟨k, hk, rfl⟩ := List.mem_map.1 hx
  rw [h k hk, mul_zero]

/-! ### the array operations -/

variable (n : ℕ) (S : List ℕ)

/-- first `n` components of an array as a vector -/
def av (a : Array K) : Fin n → K := fun i => @vget K 𝔽 a i

theorem vget_axmy (h g : Array K) (c : K) {i : ℕ} (hi : i < n) :
    @vget K 𝔽 (@axmy K 𝔽 n h c g) i = @vget K 𝔽 h i - c * @vget K 𝔽 g i := by
  unfold axmy; rw [vget_vecOf sq _ _ hi]

theorem av_axmy (h g : Array K) (c : K) : av sq n (@axmy K 𝔽 n h c g) = av sq n h - c • av sq n g := by
  ext i; simp only [av, Pi.sub_apply, Pi.smul_apply, smul_eq_mul]; exact vget_axmy sq n h g c i.2

/-- `g / p` as the model writes it -/
def scaleA (g : Array K) (p : K) : Array K := @vecOf K n fun i => @vget K 𝔽 g i / p

theorem av_scaleA (g : Array K) (p : K) : av sq n (scaleA sq n g p) = p⁻¹ • av sq n g := by
  ext i
  simp only [av, scaleA, Pi.smul_apply, smul_eq_mul]
  rw [vget_vecOf sq _ _ i.2, div_eq_inv_mul]

variable {n S}

theorem dotS_axmy (hS : ∀ k ∈ S, k < n) (q h g : Array K) (c : K) :
    @dotS K 𝔽 S q (@axmy K 𝔽 n h c g) = @dotS K 𝔽 S q h - c * @dotS K 𝔽 S q g := by
  rw [dotS_eq, dotS_eq, dotS_eq, ← dotL_sub_smul]
  exact dotL_congr_right fun k hk => vget_axmy sq n h g c (hS k hk)

theorem dotS_comm (a b : Array K) : @dotS K 𝔽 S a b = @dotS K 𝔽 S b a := by
  rw [dotS_eq, dotS_eq, dotL_comm]

theorem dotS_scaleA (hS : ∀ k ∈ S, k < n) (q g : Array K) (p : K) :
    @dotS K 𝔽 S q (scaleA sq n g p) = @dotS K 𝔽 S q g / p := by
  rw [dotS_eq, dotS_eq, ← dotL_div]
  exact dotL_congr_right fun k hk => by
    unfold scaleA; rw [vget_vecOf sq _ _ (hS k hk)]

/-! ### `orthAgainst` -/

/-- `S`-orthonormal list of columns -/
def OrthoN (S : List ℕ) (qs : List (Array K)) : Prop :=
  qs.Pairwise (fun a b => @dotS K 𝔽 S a b = 0) ∧ ∀ q ∈ qs, @dotS K 𝔽 S q q = 1

theorem orthAgainst_nil (h : Array K) : @orthAgainst K 𝔽 n S [] h = h := rfl
theorem orthAgainst_cons (q : Array K) (qs : List (Array K)) (h : Array K) :
    @orthAgainst K 𝔽 n S (q :: qs) h = @orthAgainst K 𝔽 n S qs (@axmy K 𝔽 n h (@dotS K 𝔽 S q h) q) := rfl
theorem orthAgainst_append (qs : List (Array K)) (q : Array K) (h : Array K) :
    @orthAgainst K 𝔽 n S (qs ++ [q]) h
      = @axmy K 𝔽 n (@orthAgainst K 𝔽 n S qs h) (@dotS K 𝔽 S q (@orthAgainst K 𝔽 n S qs h)) q := by
  unfold orthAgainst; rw [List.foldl_append]; rfl

/-- later projections do not change the component along a column orthogonal to them -/
theorem dotS_orthAgainst_of_orth (hS : ∀ k ∈ S, k < n) (q : Array K) (qs : List (Array K))
    (hq : ∀ q' ∈ qs, @dotS K 𝔽 S q q' = 0) (h : Array K) :
    @dotS K 𝔽 S q (@orthAgainst K 𝔽 n S qs h) = @dotS K 𝔽 S q h := by
  induction qs generalizing h with
  | nil => rfl
  | cons q' t ih =>
    rw [orthAgainst_cons, ih (fun x hx => hq x (List.mem_cons_of_mem _ hx)), dotS_axmy sq hS,
      hq q' List.mem_cons_self, mul_zero, sub_zero]

/-- **after `orthAgainst` the column is `S`-orthogonal to every column of an orthonormal list** -/
theorem dotS_orthAgainst_zero (hS : ∀ k ∈ S, k < n) (qs : List (Array K)) (ho : OrthoN sq S qs) (h : Array K) :
    ∀ q ∈ qs, @dotS K 𝔽 S q (@orthAgainst K 𝔽 n S qs h) = 0 := by
  induction qs generalizing h with
  | nil => intro q hq; cases hq
  | cons q' t ih =>
    obtain ⟨hp, hn⟩ := ho
    have hp' := List.pairwise_cons.1 hp
    intro q hq
    rw [orthAgainst_cons]
    rcases List.mem_cons.1 hq with rfl | hq
    · rw [dotS_orthAgainst_of_orth sq hS q t hp'.1, dotS_axmy sq hS, hn q List.mem_cons_self]; ring
    · exact ih ⟨hp'.2, fun x hx => hn x (List.mem_cons_of_mem _ hx)⟩ _ q hq

/-- `orthAgainst` changes the column by a combination of the list -/
theorem av_orthAgainst_sub (qs : List (Array K)) (h : Array K) :
    av sq n h - av sq n (@orthAgainst K 𝔽 n S qs h) ∈ Submodule.span K (av sq n '' {q | q ∈ qs}) := by
  induction qs generalizing h with
  | nil => simp [orthAgainst_nil]
  | cons q t ih =>
    rw [orthAgainst_cons]
    have h1 := ih (@axmy K 𝔽 n h (@dotS K 𝔽 S q h) q)
    have hsub : av sq n '' {x | x ∈ t} ⊆ av sq n '' {x | x ∈ q :: t} :=
      Set.image_mono fun x (hx : x ∈ t) => (List.mem_cons_of_mem _ hx : x ∈ q :: t)
    have h2 := Submodule.span_mono hsub h1
    have h3 : av sq n h - av sq n (@axmy K 𝔽 n h (@dotS K 𝔽 S q h) q)
        ∈ Submodule.span K (av sq n '' {x | x ∈ q :: t}) := by
      rw [av_axmy, sub_sub_cancel]
      exact Submodule.smul_mem _ _ (Submodule.subset_span ⟨q, List.mem_cons_self, rfl⟩)
    have := Submodule.add_mem _ h3 h2
    rwa [sub_add_sub_cancel] at this


/-! ### `gsCols` -/

theorem gsCols_nil (stol : K) (qs : List (Array K)) : @gsCols K 𝔽 n S stol qs [] = .ok qs := rfl

theorem gsCols_cons (stol : K) (qs : List (Array K)) (g : Array K) (rest : List (Array K)) :
    @gsCols K 𝔽 n S stol qs (g :: rest)
      = if sq (@dotS K 𝔽 S (@orthAgainst K 𝔽 n S qs g) (@orthAgainst K 𝔽 n S qs g)) < stol
        then .error .BadRegularization
        else @gsCols K 𝔽 n S stol (qs ++ [scaleA sq n (@orthAgainst K 𝔽 n S qs g)
          (sq (@dotS K 𝔽 S (@orthAgainst K 𝔽 n S qs g) (@orthAgainst K 𝔽 n S qs g)))]) rest := rfl

theorem dotS_self_nonneg (a : Array K) : 0 ≤ @dotS K 𝔽 S a a := by
  rw [dotS_eq]; exact dotL_self_nonneg S _

/-- **invariants of the Gram–Schmidt loop** (`V` any subspace containing all columns, e.g. the
    kernel of the normal matrix) -/
theorem gsCols_spec (hsq : IsSqrt sq) (hS : ∀ k ∈ S, k < n) {stol : K} (hstol : 0 < stol)
    (V : Submodule K (Fin n → K)) (cols : List (Array K)) :
    ∀ (qs G : List (Array K)), @gsCols K 𝔽 n S stol qs cols = .ok G → OrthoN sq S qs →
      (∀ q ∈ qs, av sq n q ∈ V) → (∀ g ∈ cols, av sq n g ∈ V) →
      OrthoN sq S G ∧ (∀ q ∈ G, av sq n q ∈ V) ∧ (∀ q ∈ qs, q ∈ G)
        ∧ (∀ g ∈ cols, av sq n g ∈ Submodule.span K (av sq n '' {q | q ∈ G})) := by
  induction cols with
  | nil =>
    intro qs G hG ho hV _
    rw [gsCols_nil] at hG
    cases hG
    exact ⟨ho, hV, fun q hq => hq, fun g hg => by cases hg⟩
  | cons g rest ih =>
    intro qs G hG ho hV hcols
    rw [gsCols_cons] at hG
    set g' := @orthAgainst K 𝔽 n S qs g with hg'
    set pv := sq (@dotS K 𝔽 S g' g') with hpv
    by_cases hlt : pv < stol
    · rw [if_pos hlt] at hG; cases hG
    rw [if_neg hlt] at hG
    have hpos : 0 < pv := lt_of_lt_of_le hstol (not_lt.1 hlt)
    have hpp : pv * pv = @dotS K 𝔽 S g' g' := hsq.mul_self _ (dotS_self_nonneg sq g')
    have hne : pv ≠ 0 := ne_of_gt hpos
    set gh := scaleA sq n g' pv with hgh
    -- the new column is orthogonal to the old ones and normalised
    have h0 : ∀ q ∈ qs, @dotS K 𝔽 S q gh = 0 := fun q hq => by
      rw [dotS_scaleA sq hS, dotS_orthAgainst_zero sq hS qs ho g q hq, zero_div]
    have h1 : @dotS K 𝔽 S gh gh = 1 := by
      rw [dotS_scaleA sq hS, dotS_comm, dotS_scaleA sq hS, ← hpp]; field_simp
    have ho' : OrthoN sq S (qs ++ [gh]) := by
      refine ⟨List.pairwise_append.2 ⟨ho.1, List.pairwise_singleton _ _, ?_⟩, ?_⟩
      · intro a ha b hb
        rw [List.mem_singleton.1 hb]; exact h0 a ha
      · intro q hq
        rcases List.mem_append.1 hq with hq | hq
        · exact ho.2 q hq
        · rw [List.mem_singleton.1 hq]; exact h1
    have hspan_le : Submodule.span K (av sq n '' {q | q ∈ qs}) ≤ V :=
      Submodule.span_le.2 fun v ⟨q, hq, hv⟩ => hv ▸ hV q hq
    have hdiff : av sq n g - av sq n g' ∈ Submodule.span K (av sq n '' {q | q ∈ qs}) :=
      av_orthAgainst_sub sq (n := n) (S := S) qs g
    have hg'V : av sq n g' ∈ V := by
      have h2 := Submodule.sub_mem V (hcols g List.mem_cons_self) (hspan_le hdiff)
      rwa [sub_sub_cancel] at h2
    have hghV : av sq n gh ∈ V := by
      rw [hgh, av_scaleA]; exact Submodule.smul_mem _ _ hg'V
    have hV' : ∀ q ∈ qs ++ [gh], av sq n q ∈ V := fun q hq => by
      rcases List.mem_append.1 hq with hq | hq
      · exact hV q hq
      · rw [List.mem_singleton.1 hq]; exact hghV
    obtain ⟨r1, r2, r3, r4⟩ := ih (qs ++ [gh]) G hG ho' hV' (fun x hx => hcols x (List.mem_cons_of_mem _ hx))
    refine ⟨r1, r2, fun q hq => r3 q (List.mem_append_left _ hq), ?_⟩
    intro x hx
    rcases List.mem_cons.1 hx with rfl | hx
    · -- av x = (av x − av g') + pv • av gh
      have hsubG : av sq n '' {q | q ∈ qs} ⊆ av sq n '' {q | q ∈ G} :=
        Set.image_mono fun q (hq : q ∈ qs) => (r3 q (List.mem_append_left _ hq) : q ∈ G)
      have e1 := Submodule.span_mono hsubG hdiff
      have e2 : av sq n g' ∈ Submodule.span K (av sq n '' {q | q ∈ G}) := by
        have : av sq n g' = pv • av sq n gh := by
          rw [hgh, av_scaleA, smul_smul, mul_inv_cancel₀ hne, one_smul]
        rw [this]
        exact Submodule.smul_mem _ _ (Submodule.subset_span
          ⟨gh, r3 gh (List.mem_append_right _ (List.mem_singleton.2 rfl)), rfl⟩)
      have := Submodule.add_mem _ e1 e2
      rwa [sub_add_cancel] at this
    · exact r4 x hx

end Gama.Ls.Env
