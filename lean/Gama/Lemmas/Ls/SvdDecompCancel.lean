/-
  Three inner loops of one pass of the diagonalisation in `Svd.decompose` (`SvdDecompSpec.lean`):

    `search_stmt` : the test for splitting returns the largest `L ≤ k` with `rv1[L] = 0` or `W[L-1] = 0`
                    (it cannot run off the bottom because `rv1[1] = 0`);
    `flip_stmt`   : negating `W[k]` and column `k` of `V` keeps `QRInv` when `rv1[k] = 0`;
    `cancel_stmt` : the cancellation of `rv1[L]` when `W[L-1] = 0` keeps `QRInv`.

  Cancellation: iteration `i` rotates columns `L-1`, `i` of `U` (`U' = U·G`).  The bidiagonal data are
  updated lazily; the matrix for which `A = U·M·Vᵀ` holds at the top of iteration `i` is `cn_ghost`:
  the bidiagonal matrix of `W`, `rv1` in which the entry `rv1[i]` (row `i-1`) still has to be multiplied
  by `c`, plus the fill-in `s·rv1[i]` at `(L-1, i)`.  One iteration turns it into `Gᵀ·M` (`cn_ghost_step`),
  so `U'·M' = U·M`; the ghost `Z` of `QRInv.utu` becomes `Z·G`.  Helper names carry the prefix `cn_`.
-/
import Gama.Lemmas.Ls.SvdDecompSpec

namespace Gama.Ls.Svd
open Matrix Finset Gama.LS Gama.Ls Gama

set_option linter.unusedSectionVars false
set_option linter.unusedVariables false
set_option linter.unusedSimpArgs false

variable {K : Type} [Field K] [LinearOrder K] [IsStrictOrderedRing K] (sq : K → K)

local notation "𝕊" => (Gama.LS.fieldScalar sq)

/-! ## 1. test for splitting -/

/-- invariant of the search loop -/
def cn_SearchInv (k : Nat) (W rv1 : Array K) (tl : Nat) (st : Nat × Nat × Bool × Bool) : Prop :=
  (st.2.2.2 = false → st.1 = 0 ∧ st.2.2.1 = false ∧
    ∀ j, k - tl < j → j ≤ k → @g1 K 𝕊 rv1 j ≠ 0 ∧ @g1 K 𝕊 W (j - 1) ≠ 0) ∧
  (st.2.2.2 = true → 1 ≤ st.1 ∧ st.1 ≤ k ∧
    (∀ j, st.1 < j → j ≤ k → @g1 K 𝕊 rv1 j ≠ 0 ∧ @g1 K 𝕊 W (j - 1) ≠ 0) ∧
    (st.2.2.1 = true → @g1 K 𝕊 rv1 st.1 = 0) ∧
    (st.2.2.1 = false → @g1 K 𝕊 rv1 st.1 ≠ 0 ∧ @g1 K 𝕊 W (st.1 - 1) = 0 ∧ st.2.1 = st.1 - 1))

theorem search_stmt : SearchStmt sq := by
  intro k sOne W rv1 L10 r hk hr1 h
  have key := forIn_range_inv' (Nat.zero_le k) h (cn_SearchInv sq k W rv1) ?h0 ?hy ?hd
  case h0 =>
    refine ⟨fun _ => ⟨rfl, rfl, fun j h1 h2 => by omega⟩, fun hf => (by cases hf)⟩
  case hd =>
    rintro i ⟨L, L1, vg, found⟩ s' _ hi hP hb
    unfold searchBody at hb
    cases found
    · simp only [Bool.false_eq_true, if_false] at hb
      split at hb
      · cases hb
      · split at hb <;> cases hb
    · simp only [if_true] at hb
      have := ok_inj hb
      injection this with this
      subst this
      exact ⟨fun hf => (by cases hf), hP.2⟩
  case hy =>
    rintro i ⟨L, L1, vg, found⟩ s' _ hi hP hb
    unfold searchBody at hb
    cases found
    · simp only [Bool.false_eq_true, if_false] at hb
      obtain ⟨hL, hvg, hall⟩ := hP.1 rfl
      simp only at hL hvg hall
      subst hL; subst hvg
      split at hb
      · next h1 =>
        rw [negligible_iff] at h1
        have := ok_inj hb
        injection this with this
        subst this
        refine ⟨fun hf => (by cases hf), fun _ => ⟨by show 1 ≤ k - i; omega, by show k - i ≤ k; omega, hall, fun _ => h1, fun hf => (by cases hf)⟩⟩
      · next h1 =>
        rw [negligible_iff] at h1
        split at hb
        · next h2 =>
          rw [negligible_iff] at h2
          have := ok_inj hb
          injection this with this
          subst this
          exact ⟨fun hf => (by cases hf), fun _ => ⟨by show 1 ≤ k - i; omega, by show k - i ≤ k; omega, hall, fun hf => (by cases hf), fun _ => ⟨h1, h2, rfl⟩⟩⟩
        · next h2 =>
          rw [negligible_iff] at h2
          have := ok_inj hb
          injection this with this
          subst this
          refine ⟨fun _ => ⟨rfl, rfl, fun j hj1 hj2 => ?_⟩, fun hf => (by cases hf)⟩
          by_cases hj : j = k - i
          · subst hj; exact ⟨h1, h2⟩
          · exact hall j (by omega) hj2
    · simp only [if_true] at hb
      cases hb
  obtain ⟨L, L1, vg, found⟩ := r
  cases found
  · have := (key.1 rfl).2.2 1 (by omega) hk
    exact absurd hr1 this.1
  · obtain ⟨h1, h2, h3, h4, h5⟩ := key.2 rfl
    refine ⟨h1, h2, h3, h4, fun hv => ?_⟩
    obtain ⟨a, b, c⟩ := h5 hv
    refine ⟨a, b, c, ?_⟩
    by_contra hlt
    have : L = 1 := by simp only at h1; omega
    simp only at a
    rw [this] at a
    exact a hr1

/-! ## 2. sign flip -/

/-! ### the array lemmas at `𝕊` -/

theorem cn_wf_ms {r c : Nat} {M : DMat K} (h : MWF r c M) (i j : Nat) (x : K) : MWF r c (ms M i j x) :=
  @MWF.ms K (Gama.LS.fieldScalar id) r c M h i j x

theorem cn_mg_ms_in {r c : Nat} {M : DMat K} (h : MWF r c M) {i j : Nat} (hi : 1 ≤ i) (hi' : i ≤ r)
    (hj : 1 ≤ j) (hj' : j ≤ c) (a b : Nat) (x : K) :
    @mg K 𝕊 (ms M i j x) a b = if a = i ∧ b = j then x else @mg K 𝕊 M a b :=
  @mg_ms_in K 𝕊 r c M h i j hi hi' hj hj' a b x

theorem cn_mg_out {r c : Nat} {M : DMat K} (h : MWF r c M) {i j : Nat} (ho : i = 0 ∨ r < i ∨ j = 0 ∨ c < j) :
    @mg K 𝕊 M i j = 0 := @mg_out K 𝕊 r c M h i j ho

theorem cn_s1_size {n : Nat} {v : Array K} (h : v.size = n) (i : Nat) (x : K) : (s1 v i x).size = n :=
  @s1_size K (Gama.LS.fieldScalar id) n v h i x

theorem cn_g1_s1_in {n : Nat} {v : Array K} (h : v.size = n) {i : Nat} (hi : 1 ≤ i) (hi' : i ≤ n) (a : Nat) (x : K) :
    @g1 K 𝕊 (s1 v i x) a = if a = i then x else @g1 K 𝕊 v a := @g1_s1_in K 𝕊 n v h i hi hi' a x

theorem cn_g1_out {n : Nat} {v : Array K} (h : v.size = n) {i : Nat} (ho : i = 0 ∨ n < i) : @g1 K 𝕊 v i = 0 :=
  @g1_out K 𝕊 n v h i ho


/-- closed form of the sign-flip loop -/
theorem cn_flip_loop (n k : Nat) (hk : 1 ≤ k) (hkn : k ≤ n) (V V' : DMat K) (hV : MWF n n V)
    (h : forIn [1:n+1] V (fun j V =>
      (pure (ForInStep.yield (ms V j k (-(@mg K 𝕊 V j k)))) : Except ErrKind (ForInStep (DMat K)))) = .ok V') :
    MWF n n V' ∧ ∀ a b, @mg K 𝕊 V' a b = if 1 ≤ a ∧ a ≤ n ∧ b = k then -(@mg K 𝕊 V a b) else @mg K 𝕊 V a b := by
  have key := forIn_range_inv' (by omega : 1 ≤ n + 1) h
    (fun i Vi => MWF n n Vi ∧ ∀ a b, @mg K 𝕊 Vi a b = if 1 ≤ a ∧ a < i ∧ b = k then -(@mg K 𝕊 V a b) else @mg K 𝕊 V a b)
    ?h0 ?hy ?hd
  case h0 =>
    refine ⟨hV, fun a b => ?_⟩
    rw [if_neg (by omega)]
  case hd =>
    intro i s s' _ _ _ hb
    cases hb
  case hy =>
    intro i s s' hi1 hi2 hP hb
    have := ok_inj hb
    injection this with this
    subst this
    refine ⟨cn_wf_ms hP.1 _ _ _, fun a b => ?_⟩
    rw [cn_mg_ms_in sq hP.1 hi1 (by omega) hk hkn, hP.2 a b, hP.2 i k]
    by_cases hab : a = i ∧ b = k
    · obtain ⟨rfl, rfl⟩ := hab
      rw [if_pos ⟨rfl, rfl⟩, if_neg (by omega), if_pos ⟨hi1, by omega, rfl⟩]
    · rw [if_neg hab]
      by_cases hc : 1 ≤ a ∧ a < i ∧ b = k
      · rw [if_pos hc, if_pos ⟨hc.1, by omega, hc.2.2⟩]
      · rw [if_neg hc, if_neg (by omega)]
  refine ⟨key.1, fun a b => ?_⟩
  rw [key.2 a b]
  by_cases hc : 1 ≤ a ∧ a ≤ n ∧ b = k
  · rw [if_pos hc, if_pos ⟨hc.1, by omega, hc.2.2⟩]
  · rw [if_neg hc, if_neg (by omega)]

/-- the sign matrix `diag(1, …, −1 (at k), …, 1)` -/
def cn_Sgn (n k : Nat) : Matrix (Fin n) (Fin n) K := diagonal fun c => if c.val + 1 = k then -1 else 1

omit [LinearOrder K] [IsStrictOrderedRing K] in
theorem cn_Sgn_mul_self (n k : Nat) : (cn_Sgn n k : Matrix (Fin n) (Fin n) K) * cn_Sgn n k = 1 := by
  unfold cn_Sgn
  rw [Matrix.diagonal_mul_diagonal, ← Matrix.diagonal_one]
  congr 1
  funext c
  split <;> simp

omit [LinearOrder K] [IsStrictOrderedRing K] in
theorem cn_Sgn_transpose (n k : Nat) : (cn_Sgn n k : Matrix (Fin n) (Fin n) K)ᵀ = cn_Sgn n k := by
  unfold cn_Sgn; rw [Matrix.diagonal_transpose]

theorem flip_stmt : FlipStmt sq := by
  intro m n A U W V rv1 k V' inv hk hkn hrk h
  obtain ⟨wfV', hV'⟩ := cn_flip_loop sq n k hk hkn V V' inv.wfV h
  have eV : toMatrix n n V' = toMatrix n n V * cn_Sgn n k := by
    ext r c
    rw [toMatrix_mg sq, hV', cn_Sgn, Matrix.mul_diagonal, toMatrix_mg sq]
    by_cases hc : c.val + 1 = k
    · rw [if_pos ⟨by omega, by have := r.2; omega, hc⟩, if_pos hc]; ring
    · rw [if_neg (fun hh => hc hh.2.2), if_neg hc]; ring
  have eB : bidiagN n (@g1 K 𝕊 (s1 W k (-(@g1 K 𝕊 W k)))) (@g1 K 𝕊 rv1)
      = bidiagN n (@g1 K 𝕊 W) (@g1 K 𝕊 rv1) * cn_Sgn n k := by
    ext r c
    rw [cn_Sgn, Matrix.mul_diagonal]
    unfold bidiagN
    rw [cn_g1_s1_in sq inv.wfW hk hkn]
    by_cases hc : c.val + 1 = k
    · rw [if_pos hc, if_pos hc]
      split
      · rw [hc]; show -(@g1 K 𝕊 W k) = _; ring
      · split
        · rw [hc, hrk]; ring
        · ring
    · rw [if_neg hc, if_neg hc]; ring
  have hSS := cn_Sgn_mul_self (K := K) n k
  have hST := cn_Sgn_transpose (K := K) n k
  refine ⟨inv.wfU, wfV', cn_s1_size inv.wfW _ _, inv.wfr, inv.r1, ?_, ?_, ?_⟩
  · rw [eV, eB, Matrix.transpose_mul, hST, inv.fact]
    calc toMatrix m n U * bidiagN n (@g1 K 𝕊 W) (@g1 K 𝕊 rv1) * (toMatrix n n V)ᵀ
        = toMatrix m n U * bidiagN n (@g1 K 𝕊 W) (@g1 K 𝕊 rv1) * (cn_Sgn n k * cn_Sgn n k) * (toMatrix n n V)ᵀ := by
          rw [hSS, Matrix.mul_one]
      _ = _ := by simp only [Matrix.mul_assoc]
  · rw [eV, Matrix.transpose_mul, hST]
    calc cn_Sgn n k * (toMatrix n n V)ᵀ * (toMatrix n n V * cn_Sgn n k)
        = cn_Sgn n k * ((toMatrix n n V)ᵀ * toMatrix n n V) * cn_Sgn n k := by simp only [Matrix.mul_assoc]
      _ = 1 := by rw [inv.vtv, Matrix.mul_one, hSS]
  · obtain ⟨Z, hZ1, hZ2⟩ := inv.utu
    refine ⟨Z, hZ1, ?_⟩
    rw [eB, ← Matrix.mul_assoc, hZ2, Matrix.zero_mul]

/-! ## 3. cancellation -/

/-- one step of the column rotation: row `j`, columns `p`, `q` -/
def cn_rotStep (p q : Nat) (c s : K) (j : Nat) (U : DMat K) : DMat K :=
  ms (ms U j p (@mg K 𝕊 U j p * c + @mg K 𝕊 U j q * s)) j q (-(@mg K 𝕊 U j p) * s + @mg K 𝕊 U j q * c)

/-- closed form of the rotation of two columns -/
theorem cn_rot_cols_loop (m n p q : Nat) (hp : 1 ≤ p) (hpn : p ≤ n) (hq : 1 ≤ q) (hqn : q ≤ n) (hpq : p ≠ q)
    (c s : K) (U U' : DMat K) (hU : MWF m n U)
    (h : forIn [1:m+1] U (fun j U =>
      (pure (ForInStep.yield (cn_rotStep sq p q c s j U)) : Except ErrKind (ForInStep (DMat K)))) = .ok U') :
    MWF m n U' ∧ ∀ a b, @mg K 𝕊 U' a b =
      if 1 ≤ a ∧ a ≤ m ∧ b = p then @mg K 𝕊 U a p * c + @mg K 𝕊 U a q * s
      else if 1 ≤ a ∧ a ≤ m ∧ b = q then -(@mg K 𝕊 U a p) * s + @mg K 𝕊 U a q * c
      else @mg K 𝕊 U a b := by
  have key := forIn_range_inv' (by omega : 1 ≤ m + 1) h
    (fun i Ui => MWF m n Ui ∧ ∀ a b, @mg K 𝕊 Ui a b =
      if 1 ≤ a ∧ a < i ∧ b = p then @mg K 𝕊 U a p * c + @mg K 𝕊 U a q * s
      else if 1 ≤ a ∧ a < i ∧ b = q then -(@mg K 𝕊 U a p) * s + @mg K 𝕊 U a q * c
      else @mg K 𝕊 U a b)
    ?h0 ?hy ?hd
  case h0 =>
    refine ⟨hU, fun a b => ?_⟩
    rw [if_neg (by omega), if_neg (by omega)]
  case hd =>
    intro i s s' _ _ _ hb
    cases hb
  case hy =>
    intro i Ui s' hi1 hi2 hP hb
    have := ok_inj hb
    injection this with this
    subst this
    have hi2' : i ≤ m := by omega
    refine ⟨cn_wf_ms (cn_wf_ms hP.1 _ _ _) _ _ _, fun a b => ?_⟩
    unfold cn_rotStep
    rw [cn_mg_ms_in sq (cn_wf_ms hP.1 _ _ _) hi1 hi2' hq hqn, cn_mg_ms_in sq hP.1 hi1 hi2' hp hpn]
    have e1 : @mg K 𝕊 Ui i p = @mg K 𝕊 U i p := by
      rw [hP.2 i p, if_neg (by omega), if_neg (by omega)]
    have e2 : @mg K 𝕊 Ui i q = @mg K 𝕊 U i q := by
      rw [hP.2 i q, if_neg (by omega), if_neg (by omega)]
    rw [e1, e2, hP.2 a b]
    by_cases hai : a = i
    · subst hai
      by_cases hbq : b = q
      · subst hbq
        rw [if_pos ⟨rfl, rfl⟩, if_neg (by omega), if_pos ⟨hi1, by omega, rfl⟩]
      · rw [if_neg (fun hh => hbq hh.2)]
        by_cases hbp : b = p
        · subst hbp
          rw [if_pos ⟨rfl, rfl⟩, if_pos ⟨hi1, by omega, rfl⟩]
        · rw [if_neg (fun hh => hbp hh.2), if_neg (fun hh => hbp hh.2.2), if_neg (fun hh => hbq hh.2.2),
            if_neg (fun hh => hbp hh.2.2), if_neg (fun hh => hbq hh.2.2)]
    · rw [if_neg (fun hh => hai hh.1), if_neg (fun hh => hai hh.1)]
      have e : a < i + 1 ↔ a < i := by omega
      simp only [e]
  refine ⟨key.1, fun a b => ?_⟩
  rw [key.2 a b]
  have e : a < m + 1 ↔ a ≤ m := by omega
  simp only [e]

/-- … as a matrix product -/
theorem cn_rot_cols_matrix (m n p q : Nat) (hp : 1 ≤ p) (hpn : p ≤ n) (hq : 1 ≤ q) (hqn : q ≤ n) (hpq : p ≠ q)
    (c s : K) (U U' : DMat K) (hU : MWF m n U)
    (h : forIn [1:m+1] U (fun j U =>
      (pure (ForInStep.yield (cn_rotStep sq p q c s j U)) : Except ErrKind (ForInStep (DMat K)))) = .ok U') :
    MWF m n U' ∧ toMatrix m n U' = toMatrix m n U * Grot (⟨p - 1, by omega⟩ : Fin n) ⟨q - 1, by omega⟩ c s := by
  obtain ⟨wf, hm⟩ := cn_rot_cols_loop sq m n p q hp hpn hq hqn hpq c s U U' hU h
  refine ⟨wf, ?_⟩
  ext a b
  have hne : (⟨p - 1, by omega⟩ : Fin n) ≠ ⟨q - 1, by omega⟩ := by
    intro e; have := congrArg Fin.val e; simp only at this; omega
  rw [mul_Grot_apply _ hne, toMatrix_mg sq, hm]
  have ha := a.2
  have hb := b.2
  by_cases h1 : b.val + 1 = p
  · have : b = (⟨p - 1, by omega⟩ : Fin n) := Fin.ext (by simp only; omega)
    rw [if_pos ⟨by omega, by omega, h1⟩, if_pos this]
    simp only [toMatrix_mg sq]
    rw [show p - 1 + 1 = p by omega, show q - 1 + 1 = q by omega]
  · have : b ≠ (⟨p - 1, by omega⟩ : Fin n) := fun e => h1 (by rw [e]; simp only; omega)
    rw [if_neg (fun hh => h1 hh.2.2), if_neg this]
    by_cases h2 : b.val + 1 = q
    · have : b = (⟨q - 1, by omega⟩ : Fin n) := Fin.ext (by simp only; omega)
      rw [if_pos ⟨by omega, by omega, h2⟩, if_pos this]
      simp only [toMatrix_mg sq]
      rw [show p - 1 + 1 = p by omega, show q - 1 + 1 = q by omega]
    · have : b ≠ (⟨q - 1, by omega⟩ : Fin n) := fun e => h2 (by rw [e]; simp only; omega)
      rw [if_neg (fun hh => h2 hh.2.2), if_neg this, toMatrix_mg sq]

/-! ### ghost matrices, 1-based -/

/-- the `n × n` matrix of a 1-based entry function -/
def cn_toM (n : Nat) (M : Nat → Nat → K) : Matrix (Fin n) (Fin n) K := fun r c => M (r.val + 1) (c.val + 1)

omit [LinearOrder K] [IsStrictOrderedRing K] in
theorem cn_toM_ext (n : Nat) (M M' : Nat → Nat → K)
    (h : ∀ R C, 1 ≤ R → R ≤ n → 1 ≤ C → C ≤ n → M R C = M' R C) : cn_toM n M = cn_toM n M' := by
  ext r c
  exact h _ _ (by omega) (by have := r.2; omega) (by omega) (by have := c.2; omega)

/-- entries of the bidiagonal matrix -/
def cn_BF (w e : Nat → K) (R C : Nat) : K := if R = C then w C else if R + 1 = C then e C else 0

omit [LinearOrder K] [IsStrictOrderedRing K] in
theorem cn_bidiagN_eq_toM (n : Nat) (w e : Nat → K) : bidiagN n w e = cn_toM n (cn_BF w e) := by
  ext r c
  unfold bidiagN cn_toM cn_BF
  simp only [Nat.add_right_cancel_iff]

/-- bidiagonal plus the fill-in `f` at `(L1, i)` -/
def cn_MF (w e : Nat → K) (L1 i : Nat) (f : K) (R C : Nat) : K :=
  cn_BF w e R C + if R = L1 ∧ C = i then f else 0

omit [LinearOrder K] [IsStrictOrderedRing K] in
theorem cn_MF_row_other (w e : Nat → K) (L1 i : Nat) (f : K) (R C : Nat) (h : R ≠ L1) :
    cn_MF w e L1 i f R C = cn_BF w e R C := by
  unfold cn_MF; rw [if_neg (fun hh => h hh.1), add_zero]

omit [LinearOrder K] [IsStrictOrderedRing K] in
theorem cn_MF_row_L1 (w e : Nat → K) (L1 i : Nat) (f : K) (C : Nat) (hw : w L1 = 0) (he : e (L1 + 1) = 0) :
    cn_MF w e L1 i f L1 C = if C = i then f else 0 := by
  unfold cn_MF cn_BF
  have : (if L1 = C then w C else if L1 + 1 = C then e C else 0) = 0 := by
    by_cases h1 : L1 = C
    · rw [if_pos h1, ← h1, hw]
    · rw [if_neg h1]
      by_cases h2 : L1 + 1 = C
      · rw [if_pos h2, ← h2, he]
      · rw [if_neg h2]
  rw [this, zero_add]
  by_cases hc : C = i
  · rw [if_pos ⟨rfl, hc⟩, if_pos hc]
  · rw [if_neg (fun hh => hc hh.2), if_neg hc]

omit [LinearOrder K] [IsStrictOrderedRing K] in
/-- rows of `Gᵀ * M` for a 1-based `M` -/
theorem cn_GrotT_mul_toM (n P Q : Nat) (hP : 1 ≤ P) (hPn : P ≤ n) (hQ : 1 ≤ Q) (hQn : Q ≤ n) (hPQ : P ≠ Q)
    (c s : K) (M : Nat → Nat → K) :
    (Grot (⟨P - 1, by omega⟩ : Fin n) ⟨Q - 1, by omega⟩ c s)ᵀ * cn_toM n M
      = cn_toM n (fun R C => if R = P then c * M P C + s * M Q C
          else if R = Q then -s * M P C + c * M Q C else M R C) := by
  have hne : (⟨P - 1, by omega⟩ : Fin n) ≠ ⟨Q - 1, by omega⟩ := by
    intro e; have := congrArg Fin.val e; simp only at this; omega
  ext r col
  rw [Grot_transpose_mul_apply _ hne]
  unfold cn_toM
  simp only
  rw [show P - 1 + 1 = P by omega, show Q - 1 + 1 = Q by omega]
  by_cases h1 : r.val + 1 = P
  · have : r = (⟨P - 1, by omega⟩ : Fin n) := Fin.ext (by simp only; omega)
    rw [if_pos this, if_pos h1]
  · have : r ≠ (⟨P - 1, by omega⟩ : Fin n) := fun e => h1 (by rw [e]; simp only; omega)
    rw [if_neg this, if_neg h1]
    by_cases h2 : r.val + 1 = Q
    · have : r = (⟨Q - 1, by omega⟩ : Fin n) := Fin.ext (by simp only; omega)
      rw [if_pos this, if_pos h2]
    · have : r ≠ (⟨Q - 1, by omega⟩ : Fin n) := fun e => h2 (by rw [e]; simp only; omega)
      rw [if_neg this, if_neg h2]

omit [LinearOrder K] [IsStrictOrderedRing K] in
/-- one rotation on the ghost matrix: the fill-in moves from column `i` to column `i+1`, the diagonal
    entry `w i` becomes `h'`, the super-diagonal entry of row `i` gets the pending factor `c'` -/
theorem cn_MF_step (w e w' e' : Nat → K) (L1 i : Nat) (f f' h' c' s' : K) (hL : L1 + 1 ≤ i)
    (hwL1 : w L1 = 0) (heL : e (L1 + 1) = 0)
    (hw' : ∀ C, w' C = if C = i then h' else w C)
    (he' : ∀ C, e' C = if C = i + 1 then c' * e (i + 1) else e C)
    (hf' : f' = s' * e (i + 1)) (h1 : c' * f + s' * w i = 0) (h2 : -s' * f + c' * w i = h') (R C : Nat) :
    (if R = L1 then c' * cn_MF w e L1 i f L1 C + s' * cn_MF w e L1 i f i C
      else if R = i then -s' * cn_MF w e L1 i f L1 C + c' * cn_MF w e L1 i f i C else cn_MF w e L1 i f R C)
      = cn_MF w' e' L1 (i + 1) f' R C := by
  have hiL : i ≠ L1 := by omega
  have rL := cn_MF_row_L1 w e L1 i f C hwL1 heL
  have ri := cn_MF_row_other w e L1 i f i C hiL
  have hw'L1 : w' L1 = 0 := by rw [hw', if_neg (by omega), hwL1]
  have he'L : e' (L1 + 1) = 0 := by rw [he', if_neg (by omega), heL]
  by_cases hR1 : R = L1
  · subst hR1
    rw [if_pos rfl, cn_MF_row_L1 w' e' R (i + 1) f' C hw'L1 he'L, rL, ri]
    unfold cn_BF
    by_cases hc1 : C = i
    · subst hc1
      rw [if_pos rfl, if_pos rfl, if_neg (by omega)]
      exact h1
    · rw [if_neg hc1, if_neg (fun hh => hc1 hh.symm)]
      by_cases hc2 : C = i + 1
      · subst hc2
        rw [if_pos rfl, if_pos rfl, hf']; ring
      · rw [if_neg hc2, if_neg (fun hh => hc2 hh.symm)]; ring
  · rw [if_neg hR1, cn_MF_row_other w' e' L1 (i + 1) f' R C hR1]
    by_cases hR2 : R = i
    · subst hR2
      rw [if_pos rfl, rL, ri]
      unfold cn_BF
      by_cases hc1 : C = R
      · subst hc1
        simp only [if_true, hw']
        exact h2
      · have hc1' : ¬ R = C := fun hh => hc1 hh.symm
        simp only [if_neg hc1, if_neg hc1']
        by_cases hc2 : R + 1 = C
        · subst hc2
          simp only [if_true, he']; ring
        · simp only [if_neg hc2]; ring
    · rw [if_neg hR2, cn_MF_row_other w e L1 i f R C hR1]
      unfold cn_BF
      by_cases hc1 : R = C
      · subst hc1
        rw [if_pos rfl, if_pos rfl, hw', if_neg hR2]
      · rw [if_neg hc1, if_neg hc1]
        by_cases hc2 : R + 1 = C
        · subst hc2
          rw [if_pos rfl, if_pos rfl, he', if_neg (by omega)]
        · rw [if_neg hc2, if_neg hc2]

/-- the ghost bidiagonal matrix at the top of iteration `i`: the entry `rv1[i]` of row `i-1` is still to be
    multiplied by `c`, the fill-in `s·rv1[i]` sits at `(L1, i)` -/
def cn_ghost (n : Nat) (W rv1 : Array K) (L1 i : Nat) (c s : K) : Matrix (Fin n) (Fin n) K :=
  cn_toM n (cn_MF (@g1 K 𝕊 W) (fun C => if C = i then c * @g1 K 𝕊 rv1 i else @g1 K 𝕊 rv1 C) L1 i (s * @g1 K 𝕊 rv1 i))

theorem cn_ghost_step (n L1 i : Nat) (W rv1 : Array K) (c s c' s' h' : K) (hW : W.size = n) (hr : rv1.size = n)
    (hL1 : 1 ≤ L1) (hL : L1 + 1 ≤ i) (hin : i ≤ n)
    (hwL1 : @g1 K 𝕊 W L1 = 0)
    (heL : (if L1 + 1 = i then c * @g1 K 𝕊 rv1 i else @g1 K 𝕊 rv1 (L1 + 1)) = 0)
    (h1 : c' * (s * @g1 K 𝕊 rv1 i) + s' * @g1 K 𝕊 W i = 0)
    (h2 : -s' * (s * @g1 K 𝕊 rv1 i) + c' * @g1 K 𝕊 W i = h') :
    cn_ghost sq n (s1 W i h') (s1 rv1 i (c * @g1 K 𝕊 rv1 i)) L1 (i + 1) c' s'
      = (Grot (⟨L1 - 1, by omega⟩ : Fin n) ⟨i - 1, by omega⟩ c' s')ᵀ * cn_ghost sq n W rv1 L1 i c s := by
  have hi1 : 1 ≤ i := by omega
  unfold cn_ghost
  rw [cn_GrotT_mul_toM n L1 i hL1 (by omega) hi1 hin (by omega)]
  apply cn_toM_ext
  intro R C _ _ _ _
  symm
  refine cn_MF_step (@g1 K 𝕊 W) (fun C => if C = i then c * @g1 K 𝕊 rv1 i else @g1 K 𝕊 rv1 C) _ _ L1 i _ _ h' c' s'
    hL hwL1 heL (fun C => cn_g1_s1_in sq hW hi1 hin C h') ?_ ?_ h1 h2 R C
  · intro C
    simp only [cn_g1_s1_in sq hr hi1 hin]
  · simp only [cn_g1_s1_in sq hr hi1 hin]

/-- at the start the ghost matrix is the bidiagonal matrix -/
theorem cn_ghost_init (n L1 : Nat) (W rv1 : Array K) :
    cn_ghost sq n W rv1 L1 (L1 + 1) 0 1 = bidiagN n (@g1 K 𝕊 W) (@g1 K 𝕊 rv1) := by
  rw [cn_bidiagN_eq_toM]
  unfold cn_ghost
  apply cn_toM_ext
  intro R C _ _ _ _
  unfold cn_MF cn_BF
  by_cases h : R = L1 ∧ C = L1 + 1
  · obtain ⟨rfl, rfl⟩ := h
    simp
  · rw [if_neg h, add_zero]
    by_cases h1 : R = C
    · rw [if_pos h1, if_pos h1]
    · rw [if_neg h1, if_neg h1]
      by_cases h2 : R + 1 = C
      · rw [if_pos h2, if_pos h2]
        show (if C = L1 + 1 then _ else _) = _
        rw [if_neg (by omega)]
      · rw [if_neg h2, if_neg h2]

/-- when `rv1[i] = 0` nothing is pending -/
theorem cn_ghost_final (n L1 i : Nat) (W rv1 : Array K) (c s : K) (h : @g1 K 𝕊 rv1 i = 0) :
    cn_ghost sq n W rv1 L1 i c s = bidiagN n (@g1 K 𝕊 W) (@g1 K 𝕊 rv1) := by
  rw [cn_bidiagN_eq_toM]
  unfold cn_ghost
  apply cn_toM_ext
  intro R C _ _ _ _
  unfold cn_MF cn_BF
  rw [h, mul_zero, mul_zero, ite_self, add_zero]
  by_cases h1 : R = C
  · rw [if_pos h1, if_pos h1]
  · rw [if_neg h1, if_neg h1]
    by_cases h2 : R + 1 = C
    · rw [if_pos h2, if_pos h2]
      show (if C = i then _ else _) = _
      by_cases h3 : C = i
      · rw [if_pos h3, h3, h]
      · rw [if_neg h3]
    · rw [if_neg h2, if_neg h2]

/-- invariant of the cancellation loop at the top of iteration `i` -/
structure cn_CancelInv (m n : Nat) (A V : DMat K) (W0 rv10 : Array K) (k L i : Nat)
    (U : DMat K) (W rv1 : Array K) (s c : K) (stop : Bool) : Prop where
  stop : stop = false
  wfU : MWF m n U
  wfW : W.size = n
  wfr : rv1.size = n
  fact : toMatrix m n A = toMatrix m n U * cn_ghost sq n W rv1 (L - 1) i c s * (toMatrix n n V)ᵀ
  utu : ∃ Z : Matrix (Fin n) (Fin n) K, (toMatrix m n U)ᵀ * toMatrix m n U + Zᵀ * Z = 1 ∧
      Z * cn_ghost sq n W rv1 (L - 1) i c s = 0
  frame : ∀ j, (j < L ∨ i ≤ j) → @g1 K 𝕊 rv1 j = @g1 K 𝕊 rv10 j ∧ @g1 K 𝕊 W j = @g1 K 𝕊 W0 j
  snz : s ≠ 0
  cL : i = L → c = 0
  rL : L < i → @g1 K 𝕊 rv1 L = 0
  cnz : L < i → i ≤ k → c ≠ 0
  nzW : ∀ j, L ≤ j → j < i → @g1 K 𝕊 W j ≠ 0
  nzr : ∀ j, L < j → j < i → @g1 K 𝕊 rv1 j ≠ 0

/-- the invariant read on a state -/
def cn_CancelP (m n : Nat) (A V : DMat K) (W0 rv10 : Array K) (k L i : Nat) (st : StC K) : Prop :=
  cn_CancelInv sq m n A V W0 rv10 k L i st.1 st.2.1 st.2.2.1 st.2.2.2.2.1 st.2.2.2.2.2.2.2.1 st.2.2.2.2.2.2.2.2

theorem cn_cancel_done (m n : Nat) (A V : DMat K) (W0 rv10 : Array K) (k L i : Nat) (sOne : K) (st st' : StC K)
    (hP : cn_CancelP sq m n A V W0 rv10 k L i st)
    (hb : @cancelBody K 𝕊 m (L - 1) sOne i st = .ok (.done st')) : False := by
  obtain ⟨U, W, rv1, g, s, f, h, c, stop⟩ := st
  have hs : stop = false := hP.stop
  subst hs
  unfold cancelBody at hb
  simp only [Bool.false_eq_true, if_false] at hb
  split at hb
  · cases hb
  · rw [bind_eq_ok] at hb
    obtain ⟨U', _, hb⟩ := hb
    cases hb

theorem cn_cancel_step (hsq : ∀ x : K, 0 ≤ x → sq x * sq x = x)
    (m n : Nat) (A V : DMat K) (W0 rv10 : Array K) (k L i : Nat) (sOne : K) (st st' : StC K)
    (hL2 : 2 ≤ L) (hkn : k ≤ n) (hLi : L ≤ i) (hik : i ≤ k)
    (hW0 : @g1 K 𝕊 W0 (L - 1) = 0) (hrL : @g1 K 𝕊 rv10 L ≠ 0)
    (hnz : ∀ j, L < j → j ≤ k → @g1 K 𝕊 rv10 j ≠ 0 ∧ @g1 K 𝕊 W0 (j - 1) ≠ 0)
    (hP : cn_CancelP sq m n A V W0 rv10 k L i st)
    (hb : @cancelBody K 𝕊 m (L - 1) sOne i st = .ok (.yield st')) :
    cn_CancelP sq m n A V W0 rv10 k L (i + 1) st' := by
  obtain ⟨U, W, rv1, g, s, f, h, c, stop⟩ := st
  have hs : stop = false := hP.stop
  subst hs
  have hP' : cn_CancelInv sq m n A V W0 rv10 k L i U W rv1 s c false := hP
  clear hP
  have hi1 : 1 ≤ i := by omega
  have hin : i ≤ n := by omega
  -- the values read in this iteration
  have eri : @g1 K 𝕊 rv1 i = @g1 K 𝕊 rv10 i := (hP'.frame i (Or.inr (le_refl _))).1
  have eWi : @g1 K 𝕊 W i = @g1 K 𝕊 W0 i := (hP'.frame i (Or.inr (le_refl _))).2
  have hri : @g1 K 𝕊 rv1 i ≠ 0 := by
    rw [eri]
    by_cases hiL : i = L
    · rw [hiL]; exact hrL
    · exact (hnz i (by omega) hik).1
  have hf : s * @g1 K 𝕊 rv1 i ≠ 0 := mul_ne_zero hP'.snz hri
  unfold cancelBody at hb
  simp only [Bool.false_eq_true, if_false] at hb
  split at hb
  · next h1 =>
    rw [negligible_iff] at h1
    exact absurd h1 hf
  · rw [bind_eq_ok] at hb
    obtain ⟨U', hU', hb⟩ := hb
    have hb := ok_inj hb
    injection hb with hb
    subst hb
    -- abbreviations
    generalize hf' : s * @g1 K 𝕊 rv1 i = f' at *
    generalize hg' : @g1 K 𝕊 W i = g' at *
    have hh0 : @pythag K 𝕊 f' g' ≠ 0 := fun e => hf ((pythag_eq_zero sq hsq f' g').mp e).1
    have hpp := pythag_sq sq hsq f' g'
    generalize hh' : @pythag K 𝕊 f' g' = h' at *
    have hrot := cn_rot_cols_matrix sq m n (L - 1) i (by omega) (by omega) hi1 hin (by omega)
      (g' / h') (-f' / h') U U' hP'.wfU hU'
    obtain ⟨wfU', eU'⟩ := hrot
    have hne : (⟨L - 1 - 1, by omega⟩ : Fin n) ≠ ⟨i - 1, by omega⟩ := by
      intro e; have := congrArg Fin.val e; simp only at this; omega
    have hcs : g' / h' * (g' / h') + -f' / h' * (-f' / h') = 1 := by
      field_simp
      linear_combination -hpp
    have hGG := Grot_mul_transpose hne (g' / h') (-f' / h') hcs
    have hGtG := Grot_transpose_mul hne (g' / h') (-f' / h') hcs
    have heL : (if L - 1 + 1 = i then c * @g1 K 𝕊 rv1 i else @g1 K 𝕊 rv1 (L - 1 + 1)) = 0 := by
      rw [show L - 1 + 1 = L by omega]
      by_cases hiL : L = i
      · rw [if_pos hiL, hP'.cL hiL.symm, zero_mul]
      · rw [if_neg hiL]; exact hP'.rL (by omega)
    have hwL1 : @g1 K 𝕊 W (L - 1) = 0 := by
      rw [(hP'.frame (L - 1) (Or.inl (by omega))).2]; exact hW0
    have hgs := cn_ghost_step sq n (L - 1) i W rv1 c s (g' / h') (-f' / h') h' hP'.wfW hP'.wfr (by omega) (by omega) hin
      hwL1 heL (by rw [hf', hg']; field_simp; ring)
      (by rw [hf', hg']
          calc -(-f' / h') * f' + g' / h' * g' = (f' * f' + g' * g') / h' := by ring
            _ = h' := by rw [← hpp, mul_self_div_self])
    refine ⟨rfl, wfU', cn_s1_size hP'.wfW _ _, cn_s1_size hP'.wfr _ _, ?_, ?_, ?_, ?_, ?_, ?_, ?_, ?_, ?_⟩
    · -- fact
      show toMatrix m n A = toMatrix m n U' * cn_ghost sq n _ _ (L - 1) (i + 1) _ _ * _
      rw [hgs, eU', hP'.fact]
      simp only [Matrix.mul_assoc]
      rw [← Matrix.mul_assoc (Grot _ _ _ _) (Grot _ _ _ _)ᵀ, hGG, Matrix.one_mul]
    · -- utu
      obtain ⟨Z, hZ1, hZ2⟩ := hP'.utu
      refine ⟨Z * Grot ⟨L - 1 - 1, by omega⟩ ⟨i - 1, by omega⟩ (g' / h') (-f' / h'), ?_, ?_⟩
      · show (toMatrix m n U')ᵀ * toMatrix m n U' + _ = 1
        rw [eU', Matrix.transpose_mul, Matrix.transpose_mul]
        calc _ = (Grot (⟨L - 1 - 1, by omega⟩ : Fin n) ⟨i - 1, by omega⟩ (g' / h') (-f' / h'))ᵀ
                  * ((toMatrix m n U)ᵀ * toMatrix m n U + Zᵀ * Z)
                  * Grot ⟨L - 1 - 1, by omega⟩ ⟨i - 1, by omega⟩ (g' / h') (-f' / h') := by
                simp only [Matrix.mul_add, Matrix.add_mul, Matrix.mul_assoc]
          _ = 1 := by rw [hZ1, Matrix.mul_one, hGtG]
      · show _ * cn_ghost sq n _ _ (L - 1) (i + 1) _ _ = 0
        rw [hgs, Matrix.mul_assoc, ← Matrix.mul_assoc (Grot _ _ _ _) (Grot _ _ _ _)ᵀ, hGG, Matrix.one_mul, hZ2]
    · -- frame
      intro j hj
      show @g1 K 𝕊 (s1 rv1 i _) j = _ ∧ @g1 K 𝕊 (s1 W i _) j = _
      rw [cn_g1_s1_in sq hP'.wfr hi1 hin, cn_g1_s1_in sq hP'.wfW hi1 hin, if_neg (by omega), if_neg (by omega)]
      exact hP'.frame j (by omega)
    · -- s ≠ 0
      show -f' / h' ≠ 0
      exact div_ne_zero (neg_ne_zero.mpr hf) hh0
    · intro e; omega
    · -- rv1[L] = 0
      intro _
      show @g1 K 𝕊 (s1 rv1 i _) L = 0
      rw [cn_g1_s1_in sq hP'.wfr hi1 hin]
      by_cases hiL : L = i
      · rw [if_pos hiL, hP'.cL hiL.symm, zero_mul]
      · rw [if_neg hiL]; exact hP'.rL (by omega)
    · -- c ≠ 0
      intro _ hik'
      show g' / h' ≠ 0
      refine div_ne_zero ?_ hh0
      rw [eWi]
      have := (hnz (i + 1) (by omega) hik').2
      rwa [show i + 1 - 1 = i by omega] at this
    · -- W ≠ 0
      intro j hj1 hj2
      show @g1 K 𝕊 (s1 W i _) j ≠ 0
      rw [cn_g1_s1_in sq hP'.wfW hi1 hin]
      by_cases hji : j = i
      · rw [if_pos hji]; exact hh0
      · rw [if_neg hji]; exact hP'.nzW j hj1 (by omega)
    · -- rv1 ≠ 0
      intro j hj1 hj2
      show @g1 K 𝕊 (s1 rv1 i _) j ≠ 0
      rw [cn_g1_s1_in sq hP'.wfr hi1 hin]
      by_cases hji : j = i
      · rw [if_pos hji]
        exact mul_ne_zero (hP'.cnz (by omega) hik) hri
      · rw [if_neg hji]; exact hP'.nzr j hj1 (by omega)

theorem cancel_stmt : CancelStmt sq := by
  intro hsq hsq0 m n A U W V rv1 k L sOne g f h r inv hL2 hLk hkn hW0 hrk hrL hnz hloop
  have key := forIn_range_inv' (by omega : L ≤ k + 1) hloop (cn_CancelP sq m n A V W rv1 k L) ?h0 ?hy ?hd
  case h0 =>
    show cn_CancelInv sq m n A V W rv1 k L L U W rv1 1 0 false
    have eg : cn_ghost sq n W rv1 (L - 1) L 0 1 = bidiagN n (@g1 K 𝕊 W) (@g1 K 𝕊 rv1) := by
      have := cn_ghost_init sq n (L - 1) W rv1
      rwa [show L - 1 + 1 = L by omega] at this
    refine ⟨rfl, inv.wfU, inv.wfW, inv.wfr, ?_, ?_, fun j _ => ⟨rfl, rfl⟩, one_ne_zero, fun _ => rfl,
      fun hh => absurd hh (lt_irrefl _), fun hh => absurd hh (lt_irrefl _), fun j h1 h2 => by omega,
      fun j h1 h2 => by omega⟩
    · rw [eg]; exact inv.fact
    · rw [eg]; exact inv.utu
  case hd =>
    intro i st st' _ _ hP hb
    exact (cn_cancel_done sq m n A V W rv1 k L i sOne st st' hP hb).elim
  case hy =>
    intro i st st' hLi hik hP hb
    exact cn_cancel_step sq hsq m n A V W rv1 k L i sOne st st' hL2 hkn hLi (by omega) hW0 hrL hnz hP hb
  obtain ⟨U', W', rv1', g', s', f', h', c', stop'⟩ := r
  have key' : cn_CancelInv sq m n A V W rv1 k L (k + 1) U' W' rv1' s' c' stop' := key
  have erk : @g1 K 𝕊 rv1' (k + 1) = 0 := by
    rw [(key'.frame (k + 1) (Or.inr (le_refl _))).1]; exact hrk
  have eg := cn_ghost_final sq n (L - 1) (k + 1) W' rv1' c' s' erk
  refine ⟨⟨key'.wfU, inv.wfV, key'.wfW, key'.wfr, ?_, ?_, inv.vtv, ?_⟩, key'.rL (by omega), ?_, ?_⟩
  · show @g1 K 𝕊 rv1' 1 = 0
    rw [(key'.frame 1 (Or.inl (by omega))).1]; exact inv.r1
  · have := key'.fact
    rwa [eg] at this
  · have := key'.utu
    rwa [eg] at this
  · intro j hj
    exact key'.frame j (by omega)
  · intro j hj1 hj2
    exact ⟨key'.nzr j hj1 (by omega), key'.nzW (j - 1) (by omega) (by omega)⟩

end Gama.Ls.Svd
