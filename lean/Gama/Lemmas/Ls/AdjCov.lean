/-
  `Problem.covDense` (the dense covariance matrix of the specification, `Problem.C` in
  `Lemmas/LS/Bridge.lean`, written with loops over the packed band rows) equals the covariance
  matrix as class `Adj` reads it (`Cadj`, block diagonal of the symmetric band blocks).
-/
import Gama.Lemmas.Ls.AdjFacade

namespace Gama.Ls
open Finset Dn AdjM Matrix Gama.LS

set_option linter.unusedSectionVars false
set_option linter.unusedVariables false

section
variable {K : Type} [Field K] [LinearOrder K] [IsStrictOrderedRing K] [SqrtFn K]
attribute [local instance 2000] scalarOfField

/-- `C(off+r, off+j) = C(off+j, off+r) = x` -/
def fillCell (off r j : Nat) (x : K) (C : DMat K) : DMat K :=
  (C.modify (off + r) (·.setIfInBounds (off + j) x)).modify (off + j) (·.setIfInBounds (off + r) x)

def fillRow (b : CovBlock K) (off r : Nat) (st : DMat K × Nat) : DMat K × Nat :=
  (List.range' r (min b.dim (r + b.width + 1) - r)).foldl
    (fun st j => (fillCell off r j (b.v.getD st.2 0) st.1, st.2 + 1)) st

def fillBlock (b : CovBlock K) (off : Nat) (C : DMat K) : DMat K :=
  ((List.range' 0 b.dim).foldl (fun st r => fillRow b off r st) (C, 0)).1

theorem covDense_eq_fold (p : Problem K) : p.covDense =
    (p.cov.foldl (fun (st : DMat K × Nat) b => (fillBlock b st.2 st.1, st.2 + b.dim))
      (Array.replicate p.m (Array.replicate p.m 0), 0)).1 := by
  unfold Problem.covDense
  simp only [Id.run, bind_pure_comp, Std.Legacy.Range.forIn_eq_forIn_range', Std.Legacy.Range.size,
    List.forIn_pure_yield_eq_foldl, List.forIn_yield_eq_foldlM, Array.forIn_yield_eq_foldlM, map_pure,
    List.foldlM_pure, Array.foldlM_pure, Nat.sub_zero, Nat.add_sub_cancel, Nat.div_one, Array.forIn_pure_yield_eq_foldl]
  rfl

/-- an `m × m` array of arrays -/
def Sq (m : Nat) (C : DMat K) : Prop := C.size = m ∧ ∀ i, i < m → (C.getD i #[]).size = m

theorem getD_modify' {α : Type} (a : Array α) (i j : Nat) (f : α → α) (d : α) :
    (a.modify i f).getD j d = if i = j ∧ j < a.size then f (a.getD j d) else a.getD j d := by
  simp only [Array.getD_eq_getD_getElem?, Array.getElem?_modify]
  by_cases h : i = j
  · subst h
    by_cases h2 : i < a.size
    · simp [h2]
    · simp [h2]
  · simp [h]

theorem mget_modset (m : Nat) (C : DMat K) (hC : Sq m C) (a b : Nat) (ha : a < m) (hb : b < m) (x : K) :
    Sq m (C.modify a (·.setIfInBounds b x)) ∧
    ∀ s t, mget (C.modify a (·.setIfInBounds b x)) s t = if s = a ∧ t = b then x else mget C s t := by
  obtain ⟨h1, h2⟩ := hC
  refine ⟨⟨by simp [h1], ?_⟩, ?_⟩
  · intro i hi
    rw [getD_modify']
    split
    · rw [Array.size_setIfInBounds]; exact h2 i hi
    · exact h2 i hi
  · intro s t
    unfold mget
    rw [getD_modify']
    by_cases hs : a = s
    · subst hs
      rw [if_pos ⟨rfl, by rw [h1]; exact ha⟩, getD_setIfInBounds']
      by_cases ht : b = t
      · subst ht
        rw [if_pos ⟨rfl, by rw [h2 a ha]; exact hb⟩, if_pos ⟨rfl, rfl⟩]
      · rw [if_neg (fun h => ht h.1), if_neg (fun h => ht h.2.symm)]
    · rw [if_neg (fun h => hs h.1), if_neg (fun h => hs h.1.symm)]

theorem fillCell_spec (m : Nat) (C : DMat K) (hC : Sq m C) (off r j : Nat) (hr : off + r < m) (hj : off + j < m)
    (x : K) :
    Sq m (fillCell off r j x C) ∧
    ∀ s t, mget (fillCell off r j x C) s t =
      if (s = off + r ∧ t = off + j) ∨ (s = off + j ∧ t = off + r) then x else mget C s t := by
  unfold fillCell
  obtain ⟨q1, v1⟩ := mget_modset m C hC (off + r) (off + j) hr hj x
  obtain ⟨q2, v2⟩ := mget_modset m _ q1 (off + j) (off + r) hj hr x
  refine ⟨q2, fun s t => ?_⟩
  rw [v2, v1]
  by_cases h1 : s = off + j ∧ t = off + r
  · rw [if_pos h1, if_pos (Or.inr h1)]
  · rw [if_neg h1]
    by_cases h2 : s = off + r ∧ t = off + j
    · rw [if_pos h2, if_pos (Or.inl h2)]
    · rw [if_neg h2, if_neg (by rintro (h | h); exact h2 h; exact h1 h)]

/-- one packed row -/
theorem fillRow_spec (m : Nat) (b : CovBlock K) (off r : Nat) (hr : r < b.dim) (hoff : off + b.dim ≤ m) :
    ∀ (len : Nat) (C : DMat K) (k0 : Nat), Sq m C → r + len ≤ b.dim →
      Sq m ((List.range' r len).foldl (fun (st : DMat K × Nat) j =>
          (fillCell off r j (b.v.getD st.2 0) st.1, st.2 + 1)) (C, k0)).1 ∧
      ((List.range' r len).foldl (fun (st : DMat K × Nat) j =>
          (fillCell off r j (b.v.getD st.2 0) st.1, st.2 + 1)) (C, k0)).2 = k0 + len ∧
      ∀ s t, mget ((List.range' r len).foldl (fun (st : DMat K × Nat) j =>
          (fillCell off r j (b.v.getD st.2 0) st.1, st.2 + 1)) (C, k0)).1 s t =
        if s = off + r ∧ off + r ≤ t ∧ t < off + r + len then b.v.getD (k0 + (t - (off + r))) 0
        else if t = off + r ∧ off + r ≤ s ∧ s < off + r + len then b.v.getD (k0 + (s - (off + r))) 0
        else mget C s t := by
  intro len
  induction len with
  | zero =>
    intro C k0 hC _
    refine ⟨hC, rfl, fun s t => ?_⟩
    simp only [List.range'_zero, List.foldl_nil]
    rw [if_neg (by omega), if_neg (by omega)]
  | succ len ih =>
    intro C k0 hC hle
    rw [List.range'_concat, List.foldl_append]
    simp only [List.foldl_cons, List.foldl_nil, Nat.one_mul]
    obtain ⟨q, hk, hv⟩ := ih C k0 hC (by omega)
    set st := (List.range' r len).foldl (fun (st : DMat K × Nat) j =>
          (fillCell off r j (b.v.getD st.2 0) st.1, st.2 + 1)) (C, k0) with hst
    obtain ⟨q', hv'⟩ := fillCell_spec m st.1 q off r (r + len) (by omega) (by omega) (b.v.getD st.2 0)
    refine ⟨q', by rw [hk]; omega, fun s t => ?_⟩
    rw [hv', hv, hk]
    by_cases h1 : s = off + r ∧ t = off + (r + len)
    · rw [if_pos (Or.inl h1), if_pos ⟨h1.1, by omega, by omega⟩]
      congr 2; omega
    · by_cases h2 : s = off + (r + len) ∧ t = off + r
      · rw [if_pos (Or.inr h2)]
        by_cases h3 : s = off + r
        · rw [if_pos ⟨h3, by omega, by omega⟩]; congr 2; omega
        · rw [if_neg (fun h => h3 h.1), if_pos ⟨h2.2, by omega, by omega⟩]; congr 2; omega
      · rw [if_neg (by rintro (h | h); exact h1 h; exact h2 h)]
        by_cases h3 : s = off + r ∧ off + r ≤ t ∧ t < off + r + len
        · rw [if_pos h3, if_pos ⟨h3.1, h3.2.1, by omega⟩]
        · rw [if_neg h3]
          by_cases h4 : s = off + r ∧ off + r ≤ t ∧ t < off + r + (len + 1)
          · exfalso; apply h1; exact ⟨h4.1, by omega⟩
          · rw [if_neg h4]
            by_cases h5 : t = off + r ∧ off + r ≤ s ∧ s < off + r + len
            · rw [if_pos h5, if_pos ⟨h5.1, h5.2.1, by omega⟩]
            · rw [if_neg h5]
              by_cases h6 : t = off + r ∧ off + r ≤ s ∧ s < off + r + (len + 1)
              · exfalso; apply h2; exact ⟨by omega, h6.1⟩
              · rw [if_neg h6]

theorem rowOff_succ (dim w R : Nat) : rowOff dim w (R + 1) = rowOff dim w R + (min dim (R + w + 1) - R) := by
  unfold rowOff
  rw [List.range_succ, List.foldl_append]
  rfl

/-- one block: the entries inside the band of the block are set, everything else is untouched -/
theorem fillBlock_spec (m : Nat) (b : CovBlock K) (off : Nat) (hoff : off + b.dim ≤ m) (C : DMat K) (hC : Sq m C) :
    Sq m (fillBlock b off C) ∧
    ∀ s t, mget (fillBlock b off C) s t =
      if off ≤ min s t ∧ min s t - off < b.dim ∧ max s t - off < min b.dim (min s t - off + b.width + 1) then
        b.v.getD (rowOff b.dim b.width (min s t - off) + (max s t - min s t)) 0
      else mget C s t := by
  unfold fillBlock
  have key : ∀ R, R ≤ b.dim →
      Sq m ((List.range' 0 R).foldl (fun st r => fillRow b off r st) (C, 0)).1 ∧
      ((List.range' 0 R).foldl (fun st r => fillRow b off r st) (C, 0)).2 = rowOff b.dim b.width R ∧
      ∀ s t, mget ((List.range' 0 R).foldl (fun st r => fillRow b off r st) (C, 0)).1 s t =
        if off ≤ min s t ∧ min s t - off < R ∧ max s t - off < min b.dim (min s t - off + b.width + 1) then
          b.v.getD (rowOff b.dim b.width (min s t - off) + (max s t - min s t)) 0
        else mget C s t := by
    intro R
    induction R with
    | zero =>
      intro _
      refine ⟨hC, rfl, fun s t => ?_⟩
      simp only [List.range'_zero, List.foldl_nil]
      rw [if_neg (by omega)]
    | succ R ih =>
      intro hR
      obtain ⟨q, hk, hv⟩ := ih (by omega)
      rw [List.range'_concat, List.foldl_append]
      simp only [List.foldl_cons, List.foldl_nil, Nat.one_mul, Nat.zero_add]
      set st := (List.range' 0 R).foldl (fun st r => fillRow b off r st) (C, 0) with hst
      have hst' : st = (st.1, st.2) := rfl
      unfold fillRow
      rw [hst']
      obtain ⟨q', hk', hv'⟩ := fillRow_spec m b off R (by omega) hoff (min b.dim (R + b.width + 1) - R) st.1 st.2 q (by omega)
      refine ⟨q', by rw [hk', hk, rowOff_succ], fun s t => ?_⟩
      rw [hv', hv, hk]
      rcases Nat.le_total s t with hst2 | hst2
      · rw [Nat.min_eq_left hst2, Nat.max_eq_right hst2]
        by_cases h1 : s = off + R ∧ off + R ≤ t ∧ t < off + R + (min b.dim (R + b.width + 1) - R)
        · obtain ⟨e1, e2, e3⟩ := h1
          rw [if_pos ⟨e1, e2, e3⟩, if_pos ⟨by omega, by omega, by omega⟩]
          have hidx : rowOff b.dim b.width (s - off) + (t - s) = rowOff b.dim b.width R + (t - (off + R)) := by
            rw [show s - off = R by omega]; omega
          rw [hidx]
        · rw [if_neg h1]
          by_cases h2 : t = off + R ∧ off + R ≤ s ∧ s < off + R + (min b.dim (R + b.width + 1) - R)
          · exfalso; apply h1; obtain ⟨e1, e2, e3⟩ := h2; exact ⟨by omega, by omega, by omega⟩
          · rw [if_neg h2]
            by_cases h3 : off ≤ s ∧ s - off < R ∧ t - off < min b.dim (s - off + b.width + 1)
            · rw [if_pos h3, if_pos ⟨h3.1, by omega, h3.2.2⟩]
            · rw [if_neg h3, if_neg]
              rintro ⟨e1, e2, e3⟩
              by_cases e4 : s - off < R
              · exact h3 ⟨e1, e4, e3⟩
              · apply h1; refine ⟨by omega, by omega, by omega⟩
      · rw [Nat.min_eq_right hst2, Nat.max_eq_left hst2]
        by_cases h1 : s = off + R ∧ off + R ≤ t ∧ t < off + R + (min b.dim (R + b.width + 1) - R)
        · obtain ⟨e1, e2, e3⟩ := h1
          have : t = s := by omega
          subst this
          rw [if_pos ⟨e1, e2, e3⟩, if_pos ⟨by omega, by omega, by omega⟩]
          have hidx : rowOff b.dim b.width (t - off) + (t - t) = rowOff b.dim b.width R + (t - (off + R)) := by
            rw [show t - off = R by omega]; omega
          rw [hidx]
        · rw [if_neg h1]
          by_cases h2 : t = off + R ∧ off + R ≤ s ∧ s < off + R + (min b.dim (R + b.width + 1) - R)
          · obtain ⟨e1, e2, e3⟩ := h2
            rw [if_pos ⟨e1, e2, e3⟩, if_pos ⟨by omega, by omega, by omega⟩]
            have hidx : rowOff b.dim b.width (t - off) + (s - t) = rowOff b.dim b.width R + (s - (off + R)) := by
              rw [show t - off = R by omega]; omega
            rw [hidx]
          · rw [if_neg h2]
            by_cases h3 : off ≤ t ∧ t - off < R ∧ s - off < min b.dim (t - off + b.width + 1)
            · rw [if_pos h3, if_pos ⟨h3.1, by omega, h3.2.2⟩]
            · rw [if_neg h3, if_neg]
              rintro ⟨e1, e2, e3⟩
              by_cases e4 : t - off < R
              · exact h3 ⟨e1, e4, e3⟩
              · apply h2; refine ⟨by omega, by omega, by omega⟩
  obtain ⟨q, _, hv⟩ := key b.dim (le_refl _)
  exact ⟨q, hv⟩

/-- inside its block, `fillBlock` writes the symmetric band matrix `blockDense` (when the entries
    were zero before) -/
theorem blockDense_entry (b : CovBlock K) (x y : Nat) (hx : x < b.dim) (hy : y < b.dim) (hyx : y ≤ x) :
    mget (blockDense b) x y =
      if x ≤ y + b.width then vget b.v (rowOff b.dim b.width y + (x - y)) else 0 := by
  unfold blockDense
  rw [mget_mmk, if_pos ⟨hx, hy⟩, if_pos hyx]

theorem fillBlock_blockDense (m : Nat) (b : CovBlock K) (off : Nat) (hoff : off + b.dim ≤ m) (C : DMat K)
    (hC : Sq m C) (s t : Nat) (hs : off ≤ s ∧ s < off + b.dim) (ht : off ≤ t ∧ t < off + b.dim)
    (hz : mget C s t = 0) :
    mget (fillBlock b off C) s t = sget (blockDense b) (s - off) (t - off) := by
  rw [(fillBlock_spec m b off hoff C hC).2 s t, hz]
  rcases Nat.le_total s t with h | h
  · rw [Nat.min_eq_left h, Nat.max_eq_right h]
    have hsg : sget (blockDense b) (s - off) (t - off) = mget (blockDense b) (t - off) (s - off) := by
      unfold sget
      by_cases he : t - off ≤ s - off
      · rw [if_pos he]
        have : s - off = t - off := by omega
        rw [this]
      · rw [if_neg he]
    rw [hsg, blockDense_entry b (t - off) (s - off) (by omega) (by omega) (by omega)]
    by_cases hb : t - off ≤ s - off + b.width
    · rw [if_pos hb, if_pos ⟨by omega, by omega, by omega⟩]
      unfold vget
      rw [show t - off - (s - off) = t - s by omega]
    · rw [if_neg hb, if_neg (by omega)]
  · rw [Nat.min_eq_right h, Nat.max_eq_left h]
    have hsg : sget (blockDense b) (s - off) (t - off) = mget (blockDense b) (s - off) (t - off) := by
      unfold sget; rw [if_pos (by omega)]
    rw [hsg, blockDense_entry b (s - off) (t - off) (by omega) (by omega) (by omega)]
    by_cases hb : s - off ≤ t - off + b.width
    · rw [if_pos hb, if_pos ⟨by omega, by omega, by omega⟩]
      unfold vget
      rw [show s - off - (t - off) = s - t by omega]
    · rw [if_neg hb, if_neg (by omega)]

/-- outside its block `fillBlock` changes nothing -/
theorem fillBlock_outside (m : Nat) (b : CovBlock K) (off : Nat) (hoff : off + b.dim ≤ m) (C : DMat K)
    (hC : Sq m C) (s t : Nat) (h : ¬ ((off ≤ s ∧ s < off + b.dim) ∧ (off ≤ t ∧ t < off + b.dim))) :
    mget (fillBlock b off C) s t = mget C s t := by
  rw [(fillBlock_spec m b off hoff C hC).2 s t, if_neg]
  rintro ⟨e1, e2, e3⟩
  apply h
  rcases Nat.le_total s t with h' | h'
  · rw [Nat.min_eq_left h'] at e1 e2 e3; rw [Nat.max_eq_right h'] at e3; omega
  · rw [Nat.min_eq_right h'] at e1 e2 e3; rw [Nat.max_eq_left h'] at e3; omega

theorem sq_zero (m : Nat) : Sq m (Array.replicate m (Array.replicate m (0 : K))) := by
  refine ⟨by simp, fun i hi => ?_⟩
  simp [Array.getD, hi]

theorem mget_zero (m s t : Nat) : mget (Array.replicate m (Array.replicate m (0 : K))) s t = 0 := by
  unfold mget
  by_cases hs : s < m
  · by_cases ht : t < m
    · simp [Array.getD, hs, ht]
    · simp [Array.getD, hs, ht]
  · simp [Array.getD, hs]

/-- all blocks, from offset `off` on a matrix that is still zero there -/
theorem fillBlocks_spec (m : Nat) :
    ∀ (bs : List (CovBlock K)) (C : DMat K) (off : Nat), Sq m C → off + (bs.map (·.dim)).sum ≤ m →
      (∀ s t, off ≤ s → off ≤ t → mget C s t = 0) →
      Sq m (bs.foldl (fun (st : DMat K × Nat) b => (fillBlock b st.2 st.1, st.2 + b.dim)) (C, off)).1 ∧
      ∀ s t, s < m → t < m →
        mget (bs.foldl (fun (st : DMat K × Nat) b => (fillBlock b st.2 st.1, st.2 + b.dim)) (C, off)).1 s t =
          if off ≤ s ∧ off ≤ t then
            (if s < off + (bs.map (·.dim)).sum ∧
                off + (locate (bs.map (·.dim)) (s - off)).2 ≤ t ∧
                t < off + (locate (bs.map (·.dim)) (s - off)).2 +
                  (bs.map (·.dim)).getD (locate (bs.map (·.dim)) (s - off)).1 0 then
              sget (blockDense (bs.getD (locate (bs.map (·.dim)) (s - off)).1 ⟨0, 0, #[]⟩))
                (s - (off + (locate (bs.map (·.dim)) (s - off)).2))
                (t - (off + (locate (bs.map (·.dim)) (s - off)).2))
            else 0)
          else mget C s t := by
  intro bs
  induction bs with
  | nil =>
    intro C off hC _ hz
    refine ⟨hC, fun s t _ _ => ?_⟩
    simp only [List.foldl_nil, List.map_nil, List.sum_nil, Nat.add_zero]
    by_cases h : off ≤ s ∧ off ≤ t
    · rw [if_pos h, if_neg (by omega), hz s t h.1 h.2]
    · rw [if_neg h]
  | cons b bs ih =>
    intro C off hC hle hz
    simp only [List.map_cons, List.sum_cons] at hle
    rw [List.foldl_cons]
    simp only []
    have hoffb : off + b.dim ≤ m := by omega
    obtain ⟨q1, _⟩ := fillBlock_spec m b off hoffb C hC
    have hz1 : ∀ s t, off + b.dim ≤ s → off + b.dim ≤ t → mget (fillBlock b off C) s t = 0 := by
      intro s t h1 h2
      rw [fillBlock_outside m b off hoffb C hC s t (by omega)]
      exact hz s t (by omega) (by omega)
    obtain ⟨q2, hv⟩ := ih (fillBlock b off C) (off + b.dim) q1 (by omega) hz1
    refine ⟨q2, fun s t hs ht => ?_⟩
    rw [hv s t hs ht]
    simp only [List.map_cons, List.sum_cons]
    by_cases h1 : off + b.dim ≤ s ∧ off + b.dim ≤ t
    · have h0 : off ≤ s ∧ off ≤ t := ⟨by omega, by omega⟩
      rw [if_pos h1, if_pos h0]
      have hloc : locate (b.dim :: bs.map (·.dim)) (s - off)
          = ((locate (bs.map (·.dim)) (s - (off + b.dim))).1 + 1, (locate (bs.map (·.dim)) (s - (off + b.dim))).2 + b.dim) := by
        rw [locate_cons, if_neg (by omega), show s - off - b.dim = s - (off + b.dim) by omega]
      rw [hloc]
      simp only [List.getD_cons_succ]
      generalize locate (bs.map (·.dim)) (s - (off + b.dim)) = kr'
      rw [show off + (kr'.2 + b.dim) = off + b.dim + kr'.2 by omega,
        show off + (b.dim + (bs.map (·.dim)).sum) = off + b.dim + (bs.map (·.dim)).sum by omega]
    · rw [if_neg h1]
      by_cases h2 : off ≤ s ∧ off ≤ t
      · rw [if_pos h2]
        by_cases h3 : (off ≤ s ∧ s < off + b.dim) ∧ (off ≤ t ∧ t < off + b.dim)
        · rw [fillBlock_blockDense m b off hoffb C hC s t h3.1 h3.2 (hz s t h2.1 h2.2)]
          have hloc : locate (b.dim :: bs.map (·.dim)) (s - off) = (0, 0) := by
            rw [locate_cons, if_pos (by omega)]
          rw [hloc]
          simp only [List.getD_cons_zero, Nat.add_zero]
          rw [if_pos ⟨by omega, by omega, by omega⟩]
        · rw [fillBlock_outside m b off hoffb C hC s t h3, hz s t h2.1 h2.2]
          by_cases h4 : s < off + b.dim
          · have hloc : locate (b.dim :: bs.map (·.dim)) (s - off) = (0, 0) := by
              rw [locate_cons, if_pos (by omega)]
            rw [hloc]
            simp only [List.getD_cons_zero, Nat.add_zero]
            rw [if_neg (by omega)]
          · have hloc : locate (b.dim :: bs.map (·.dim)) (s - off)
                = ((locate (bs.map (·.dim)) (s - off - b.dim)).1 + 1, (locate (bs.map (·.dim)) (s - off - b.dim)).2 + b.dim) := by
              rw [locate_cons, if_neg (by omega)]
            rw [hloc]
            simp only []
            rw [if_neg (by omega)]
      · rw [if_neg h2, fillBlock_outside m b off hoffb C hC s t (by omega)]

/-- **the specification's covariance matrix is the one `Adj` reads** -/
theorem Cadj_eq_C (p : Problem K) (hdim : (dimsOf p).sum = p.m) : Cadj p = p.C := by
  funext s t
  show covF p s.val t.val = mget p.covDense s.val t.val
  rw [covDense_eq_fold, ← Array.foldl_toList]
  obtain ⟨_, hv⟩ := fillBlocks_spec p.m p.cov.toList (Array.replicate p.m (Array.replicate p.m 0)) 0
    (sq_zero p.m) (by show 0 + (dimsOf p).sum ≤ p.m; omega) (fun s t _ _ => mget_zero p.m s t)
  rw [hv s.val t.val s.isLt t.isLt]
  simp only [Nat.zero_le, and_self, if_true, Nat.zero_add, Nat.sub_zero]
  unfold covF
  simp only []
  have hsm : s.val < (List.map (fun x => x.dim) p.cov.toList).sum := by
    show s.val < (dimsOf p).sum; rw [hdim]; exact s.isLt
  by_cases h : (locate (dimsOf p) s.val).2 ≤ t.val ∧
      t.val < (locate (dimsOf p) s.val).2 + (dimsOf p).getD (locate (dimsOf p) s.val).1 0
  · rw [if_pos h]
    show _ = if s.val < (List.map (fun x => x.dim) p.cov.toList).sum ∧ _ then _ else 0
    rw [if_pos ⟨hsm, h.1, h.2⟩]
    rfl
  · rw [if_neg h]
    show _ = if s.val < (List.map (fun x => x.dim) p.cov.toList).sum ∧ _ then _ else 0
    rw [if_neg (fun h' => h ⟨h'.2.1, h'.2.2⟩)]

end
end Gama.Ls
