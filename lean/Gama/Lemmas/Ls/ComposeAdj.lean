/-
  Glue for `Props/C01/AdjSolvers.lean`: the façade `Adj` composed with the Gram–Schmidt and the svd
  solver models.

  * one scalar instance: over a `Gso.SqrtField K` the models of `Adj` (`scalarOfField`, i.e.
    `fieldScalar SqrtFn.sq`), of the Gram–Schmidt solver (`SqrtField.toScalar`, i.e.
    `fieldScalar SqrtField.sqrt`) and of the svd solver (`fieldScalar sq`, `sq` explicit) all run on
    `Gama.LS.fieldScalar SqrtField.sqrt`: `sqrtFnOfSqrtField` is the `SqrtFn` carrier that makes the
    three coincide definitionally; it is lawful (`lawfulSqrt_of_sqrtField`), so `SqrtExactP p`
    holds for every problem.
  * `Svd.wTol_nonneg`, `Svd.wTol_le`: the tolerance `W_tol` the model of `set_inv_W` computes satisfies
    `0 ≤ W_tol ≤ 1/100` in every ordered field (in exact arithmetic the bisection only halves `10⁻⁵`).
  * `svdSolve_isLS`: `svdSolve` (decomposition by the transliterated Golub–Reinsch iteration, then
    the post-decomposition model) answers with a least-squares solution whenever the factors the
    iteration returned satisfy the certificate `SvdCert` (at the model's own tolerance `wTol`).
-/
import Gama.Lemmas.Ls.AdjFacade
import Gama.Lemmas.Ls.GsoScalar
import Gama.Lemmas.Ls.SvdProps

namespace Gama.Ls
open Gama Gama.LS Matrix

set_option linter.unusedSectionVars false

variable {K : Type} [Field K] [LinearOrder K] [IsStrictOrderedRing K] [Gso.SqrtField K]

/-- the square root of a `SqrtField` as the `SqrtFn` carrier of the Cholesky / `Adj` lemma files
    (use as `attribute [local instance] Gama.Ls.sqrtFnOfSqrtField`) -/
@[reducible] def sqrtFnOfSqrtField : SqrtFn K := ⟨Gso.SqrtField.sqrt⟩

attribute [local instance] sqrtFnOfSqrtField
attribute [local instance 2000] scalarOfField

theorem lawfulSqrt_of_sqrtField : LawfulSqrt K :=
  ⟨fun x hx => (Gso.SqrtField.sqrt_spec x hx).1, fun x hx => (Gso.SqrtField.sqrt_spec x hx).2⟩

/-- a true square root is exact on the pivots of every block -/
theorem sqrtExactP_of_sqrtField (p : Problem K) : SqrtExactP p :=
  @SqrtExactP.of_lawful K _ _ _ _ lawfulSqrt_of_sqrtField p

theorem sqrtLaw_of_sqrtField : Svd.SqrtLaw (Gso.SqrtField.sqrt : K → K) :=
  ⟨fun x hx => (Gso.SqrtField.sqrt_spec x hx).1, fun x hx => (Gso.SqrtField.sqrt_spec x hx).2⟩

namespace Svd

theorem ofSci_nonneg : (0 : K) ≤ (Scalar.ofSci 1 true 5 : K) := by
  show (0 : K) ≤ (OfScientific.ofScientific 1 true 5 : K)
  rw [← Rat.cast_ofScientific]
  exact Rat.cast_nonneg.2 (by decide +kernel)

/-- the bisection of `set_inv_W` stays non-negative -/
theorem epsLoop_nonneg : ∀ (fuel : Nat) (emin emax eps : K), 0 ≤ emin → 0 ≤ emax → 0 ≤ eps →
    0 ≤ epsLoop fuel emin emax eps
  | 0, _, _, _, _, _, h => h
  | fuel + 1, emin, emax, eps1, h1, h2, h3 => by
    have h2' : (0 : K) < (Scalar.ofNat 2 : K) := by
      show (0 : K) < ((2 : Nat) : K)
      norm_num
    have he : (0 : K) ≤ (emin + emax) / Scalar.ofNat 2 := div_nonneg (add_nonneg h1 h2) (le_of_lt h2')
    unfold epsLoop
    simp only []
    split
    · apply epsLoop_nonneg fuel _ _ _ _ _ he
      · split
        · exact he
        · exact h1
      · split
        · exact h2
        · exact he
    · exact he

/-- `W_tol ≥ 0` -/
theorem wTol_nonneg : (0 : K) ≤ (wTol : K) := by
  unfold wTol
  refine mul_nonneg ?_ (epsLoop_nonneg 200 _ _ _ le_rfl ofSci_nonneg ofSci_nonneg)
  show (0 : K) ≤ ((1000 : Nat) : K)
  positivity

theorem epsLoop_le : ∀ (fuel : Nat) (emin emax eps : K), emin ≤ emax → eps ≤ emax →
    epsLoop fuel emin emax eps ≤ emax
  | 0, _, _, _, _, h => h
  | fuel + 1, emin, emax, eps1, h1, _ => by
    have h2' : (0 : K) < (Scalar.ofNat 2 : K) := by
      show (0 : K) < ((2 : Nat) : K)
      norm_num
    have he : (emin + emax) / Scalar.ofNat 2 ≤ emax := by
      rw [div_le_iff₀ h2']
      show emin + emax ≤ emax * ((2 : Nat) : K)
      push_cast; linarith
    have he' : emin ≤ (emin + emax) / Scalar.ofNat 2 := by
      rw [le_div_iff₀ h2']
      show emin * ((2 : Nat) : K) ≤ emin + emax
      push_cast; linarith
    unfold epsLoop
    simp only []
    split
    · split
      · exact epsLoop_le fuel _ _ _ he he
      · exact le_trans (epsLoop_le fuel _ _ _ he' le_rfl) he
    · exact he

theorem ofSci_1e5 : (Scalar.ofSci 1 true 5 : K) = 1 / 100000 := by
  show (OfScientific.ofScientific 1 true 5 : K) = 1 / 100000
  norm_num

/-- `W_tol ≤ 1/100` (in exact arithmetic the bisection only halves `10⁻⁵`) -/
theorem wTol_le : (wTol : K) ≤ 1 / 100 := by
  unfold wTol
  have h := epsLoop_le (K := K) 200 0 (Scalar.ofSci 1 true 5) (Scalar.ofSci 1 true 5) ofSci_nonneg le_rfl
  rw [ofSci_1e5] at h ⊢
  show ((1000 : Nat) : K) * _ ≤ _
  push_cast
  linarith
theorem regOK_regOf {r : Reg} (h : RegOK r) : RegOK (AdjM.regOf r) := by
  cases r with
  | none => trivial
  | all => trivial
  | subset l => exact h

end Svd

/-- **svd solver as it runs** (`svdSolve`: `SVD::svd()` transliterated, then `set_inv_W`,
    `min_subset_x`, `solve`): a least-squares solution whenever the factors returned by the
    iteration on THIS problem satisfy the certificate at the model's tolerance `wTol` -/
theorem svdSolve_isLS (q : Problem K) (hreg : Svd.RegOK q.reg)
    (hc : ∀ d, Svd.decompose q.m q.n q.dense = .ok d →
      Svd.SvdCert (Gso.SqrtField.sqrt : K → K) Svd.wTol q.m q.n q.dense d)
    (s : Answer K) (hs : svdSolve q = .ok s) :
    IsLSSolution q.A q.b 1 q.S (toVec q.n s.x) (toVec q.m s.r) s.rtr := by
  unfold svdSolve svdSolveWith at hs
  cases hd : Svd.decompose q.m q.n q.dense with
  | error e => rw [hd] at hs; cases hs
  | ok d =>
    rw [hd] at hs
    exact Svd.answerOf_isLS sqrtLaw_of_sqrtField true Svd.wTol_nonneg (hc d hd) hreg hs

end Gama.Ls
