/-
  Gram–Schmidt invariant library, part 7: the second criterion and the refusal
  (`error_icgs2_defect`).  If every pivot of the second orthogonalisation is accepted
  (`err = 0`) the kernel columns are S-orthonormal and span ker A, hence a kernel vector that
  vanishes on S is zero: S resolves the defect (`gso_resolves_of_err_zero`).
-/
import Gama.Lemmas.Ls.GsoCof
import Mathlib.Algebra.BigOperators.Group.List.Basic

namespace Gama.Ls.Gso
open Gama Finset Matrix Gama.LS

set_option linter.unusedSectionVars false

variable {K : Type} [Field K] [LinearOrder K] [IsStrictOrderedRing K] [SqrtField K]

/-- masked inner product on functions -/
def ipM (N : Nat) (mask : List Bool) (f h : Fin N → K) : K :=
  ∑ i : Fin N, if mask.getD i false then f i * h i else 0

theorem dotM_eq_ipM {N : Nat} {mask : List Bool} (hm : mask.length = N) {u v : List K}
    (hu : u.length = N) (hv : v.length = N) :
    dotM mask u v = ipM N mask (toFn N u) (toFn N v) := by
  rw [dotM_eq_sum N mask u v hm hu hv, ← Fin.sum_univ_eq_sum_range
    (fun i => if mask.getD i false then u.getD i 0 * v.getD i 0 else 0) N]
  rfl

theorem ipM_add_left (N : Nat) (mask : List Bool) (f g h : Fin N → K) :
    ipM N mask (f + g) h = ipM N mask f h + ipM N mask g h := by
  unfold ipM
  rw [← sum_add_distrib]
  refine sum_congr rfl fun i _ => ?_
  split <;> simp [add_mul]

theorem ipM_smul_left (N : Nat) (mask : List Bool) (c : K) (f h : Fin N → K) :
    ipM N mask (c • f) h = c * ipM N mask f h := by
  unfold ipM
  rw [mul_sum]
  refine sum_congr rfl fun i _ => ?_
  split <;> simp [mul_assoc]

theorem ipM_zero_left (N : Nat) (mask : List Bool) (h : Fin N → K) : ipM N mask 0 h = 0 := by
  unfold ipM
  exact sum_eq_zero fun i _ => by split <;> simp

/-- expansion of `f` along the list `ks` -/
def expandL (N : Nat) (mask : List Bool) (ks : List (List K)) (f : Fin N → K) : Fin N → K :=
  (ks.map fun k => ipM N mask f (toFn N k) • toFn N k).sum

theorem expandL_cons (N : Nat) (mask : List Bool) (k : List K) (ks : List (List K)) (f : Fin N → K) :
    expandL N mask (k :: ks) f = ipM N mask f (toFn N k) • toFn N k + expandL N mask ks f := by
  simp [expandL]

theorem expandL_add (N : Nat) (mask : List Bool) (ks : List (List K)) (f g : Fin N → K) :
    expandL N mask ks (f + g) = expandL N mask ks f + expandL N mask ks g := by
  induction ks with
  | nil => simp [expandL]
  | cons k ks ih => rw [expandL_cons, expandL_cons, expandL_cons, ih, ipM_add_left, add_smul]; abel

theorem expandL_smul (N : Nat) (mask : List Bool) (ks : List (List K)) (c : K) (f : Fin N → K) :
    expandL N mask ks (c • f) = c • expandL N mask ks f := by
  induction ks with
  | nil => simp [expandL]
  | cons k ks ih => rw [expandL_cons, expandL_cons, ih, ipM_smul_left, smul_add, mul_smul]

theorem expandL_eq_zero (N : Nat) (mask : List Bool) (ks : List (List K)) (f : Fin N → K)
    (h : ∀ k ∈ ks, ipM N mask f (toFn N k) = 0) : expandL N mask ks f = 0 := by
  induction ks with
  | nil => simp [expandL]
  | cons k ks ih =>
    rw [expandL_cons, h k (by simp), zero_smul, zero_add]
    exact ih fun k' hk' => h k' (by simp [hk'])

theorem expandL_gen {N : Nat} {mask : List Bool} (hm : mask.length = N) (ks : List (List K))
    (hgs : GSOk N (dotM mask) ks) (hunit : ∀ k ∈ ks, dotM mask k k = 1) (k0 : List K) (hk0 : k0 ∈ ks) :
    expandL N mask ks (toFn N k0) = toFn N k0 := by
  induction ks with
  | nil => simp at hk0
  | cons k ks ih =>
    have hpw := List.pairwise_cons.1 hgs.pw
    have hlen := hgs.len
    rw [expandL_cons]
    by_cases hkk : k0 = k
    · subst hkk
      rw [← dotM_eq_ipM hm (hlen k0 (by simp)) (hlen k0 (by simp)), hunit k0 (by simp), one_smul,
        expandL_eq_zero, add_zero]
      intro k' hk'
      rw [← dotM_eq_ipM hm (hlen k0 (by simp)) (hlen k' (by simp [hk']))]
      exact hpw.1 k' hk'
    · have hk0' : k0 ∈ ks := by
        rcases List.mem_cons.1 hk0 with h | h
        · exact absurd h hkk
        · exact h
      rw [← dotM_eq_ipM hm (hlen k0 hk0) (hlen k (by simp)), dotM_comm, hpw.1 k0 hk0', zero_smul,
        zero_add]
      exact ih hgs.tail (fun k' hk' => hunit k' (by simp [hk'])) hk0'

/-- an element of the span of an S-orthonormal list that is S-orthogonal to the list is zero -/
theorem null_of_span {N : Nat} {mask : List Bool} (hm : mask.length = N) (ks : List (List K))
    (hgs : GSOk N (dotM mask) ks) (hunit : ∀ k ∈ ks, dotM mask k k = 1) (f : Fin N → K)
    (hf : f ∈ Submodule.span K (fnSet N ks)) (hz : ∀ k ∈ ks, ipM N mask f (toFn N k) = 0) :
    f = 0 := by
  have hexp : expandL N mask ks f = f := by
    refine Submodule.span_induction (p := fun x _ => expandL N mask ks x = x) ?_ ?_ ?_ ?_ hf
    · rintro x ⟨k, hk, rfl⟩
      exact expandL_gen hm ks hgs hunit k hk
    · exact expandL_eq_zero N mask ks 0 fun k _ => ipM_zero_left N mask _
    · intro x y _ _ hx hy
      rw [expandL_add, hx, hy]
    · intro c x _ hx
      rw [expandL_smul, hx]
  rw [← hexp]
  exact expandL_eq_zero N mask ks f hz

/-- membership in the regularisation subset ↔ the mask of the second orthogonalisation -/
theorem mask_iff_mem_S (p : Problem K) (i : Fin p.n) :
    (maskOf p.n p.reg).getD i false = true ↔ i ∈ p.S := by
  simp only [Problem.S]
  cases hr : p.reg with
  | none => simp [maskOf, Reg.toFinset, List.getD_eq_getElem?_getD, i.2]
  | all => simp [maskOf, Reg.toFinset, List.getD_eq_getElem?_getD, i.2]
  | subset l => simp [maskOf, Reg.toFinset, List.getD_eq_getElem?_getD, i.2]

/-- no zero pivot in the second orthogonalisation ⇒ the subset resolves the defect -/
theorem gso_resolves_of_err_zero (p : Problem K) (hU : Unambiguous p) (he : (runOf p).err = 0) :
    Resolves p.A p.S := by
  intro g hg hgS
  obtain ⟨I1, F⟩ := gso_final p hU
  set qs := ((colsIn p).foldl (step1 (tolerance : K)) {}).qs with hqs
  have hql : qs.length = p.n := by rw [hqs, I1.len]; exact augmented_length _ _ _ _
  have hsep : ∀ w : Fin p.n → K, (∀ j, ∑ i, matC p.n qs i j * w i = 0) → w = 0 := by
    intro w hw
    have h1 : ∀ q ∈ qs, dot q.bot (List.ofFn w) = 0 := by
      intro q hq
      obtain ⟨j, hj, rfl⟩ := List.getElem_of_mem hq
      rw [dot_ofFn _ (I1.aug _ (List.getElem_mem hj)).lbot]
      have := hw ⟨j, by rw [← hql]; exact hj⟩
      simp only [matC] at this
      have e : colAt qs j = qs[j] := by
        have := colAt_getElem? hj
        rw [List.getElem?_eq_getElem hj] at this
        exact (Option.some.inj this).symm
      rw [e] at this
      exact this
    have h2 := I1.spanBot _ h1
    funext k
    have hc : (colsIn p)[(k : Nat)]? = some
        { top := (List.range p.m).map fun r => aOf p r k,
          bot := (List.range p.n).map fun r => if r = (k : Nat) then 1 else 0 } := by
      simp [colsIn, augmented]
    have h3 := h2 _ (List.mem_of_getElem? hc)
    rw [dot_ofFn _ (by simp)] at h3
    rw [sum_eq_single_of_mem k (mem_univ k)] at h3
    · simpa [getD_map_range, k.2] using h3
    · intro i _ hik
      have : (i : Nat) ≠ (k : Nat) := fun h => hik (Fin.ext h)
      simp [i.2, this]
  have hAC := matAC hql I1.aug
  rw [matA_eq] at hAC
  obtain ⟨c, hc1, hc2⟩ := GsoAlg.ker_span hAC (matTT hql I1.gs) hsep g hg
  have hflagD : ∀ j : Fin p.n, ((j : Nat) + 1 ∈ (runOf p).dep ↔ vecD p.n qs j = 0) := fun j => by
    rw [F.dep]
    exact I1.flag j _ (colAt_getElem? (by rw [hql]; exact j.2))
  have hgsum : g = ∑ j, c j • (fun i => matC p.n qs i j) := by
    rw [hc2]
    funext i
    simp [mulVec, dotProduct, Finset.sum_apply, mul_comm]
  by_cases hd : (runOf p).dep = []
  · -- regular: every column is independent, c = 0
    have hc0 : c = 0 := by
      funext j
      rcases vecD_01 hql I1.gs j with h1 | h0
      · exact hc1 j h1
      · have := (hflagD j).2 h0
        rw [hd] at this
        simp at this
    rw [hc2, hc0, mulVec_zero]
  · obtain ⟨us, s, hks, herr, I2, hmem⟩ := F.second hd
    have hm := length_maskOf p.n p.reg
    have hunit : ∀ k ∈ s.ks, dotM (maskOf p.n p.reg) k k = 1 := I2.err.1 (by rw [herr]; exact he)
    have hspan1 : g ∈ Submodule.span K (fnSet p.n us) := by
      rw [hgsum]
      refine Submodule.sum_mem _ fun j _ => ?_
      rcases vecD_01 hql I1.gs j with h1 | h0
      · rw [hc1 j h1, zero_smul]; exact Submodule.zero_mem _
      · refine Submodule.smul_mem _ _ (Submodule.subset_span ⟨(colAt qs j).bot, ?_, rfl⟩)
        have hjl : (j : Nat) < qs.length := by rw [hql]; exact j.2
        exact hmem _ ((hflagD j).2 h0) (colAt qs j) (by
          show qs[(j : Nat) + 1 - 1]? = some (colAt qs j)
          rw [Nat.add_sub_cancel]; exact colAt_getElem? hjl)
    have hspan2 : g ∈ Submodule.span K (fnSet p.n s.ks) := by
      refine (Submodule.span_le.2 ?_) hspan1
      rintro f ⟨u, hu, rfl⟩
      exact I2.prim u hu
    refine null_of_span hm s.ks I2.gs hunit g hspan2 fun k _ => ?_
    unfold ipM
    refine sum_eq_zero fun i _ => ?_
    split
    · rename_i hmi
      rw [hgS i ((mask_iff_mem_S p i).1 hmi), zero_mul]
    · rfl

/-- a zero pivot in the second orthogonalisation exhibits a non-zero kernel vector that vanishes
    on S: the subset does not resolve the defect -/
theorem gso_not_resolves_of_err (p : Problem K) (hU : Unambiguous p) (he : (runOf p).err ≠ 0) :
    ¬ Resolves p.A p.S := by
  intro hR
  obtain ⟨I1, F⟩ := gso_final p hU
  have hd : (runOf p).dep ≠ [] := fun h => he (F.errReg h)
  obtain ⟨us, s, hks, herr, I2, hmem⟩ := F.second hd
  have hm := length_maskOf p.n p.reg
  have hex : ∃ k ∈ s.ks, dotM (maskOf p.n p.reg) k k = 0 := by
    by_contra hno
    have hall : ∀ k ∈ s.ks, dotM (maskOf p.n p.reg) k k = 1 := by
      intro k hk
      rcases (I2.gs.uz k hk).2 with h1 | h0
      · exact h1
      · exact absurd ⟨k, hk, h0⟩ hno
    exact he (by rw [← herr]; exact I2.err.2 hall)
  obtain ⟨k, hk, hk0⟩ := hex
  have hklen := I2.gs.len k hk
  have hker : p.A *ᵥ toFn p.n k = 0 := by
    funext r
    have := I2.ker k hk r r.2
    rw [← Fin.sum_univ_eq_sum_range (fun j => aOf p r j * k.getD j 0) p.n] at this
    show ∑ j : Fin p.n, p.A r j * toFn p.n k j = 0
    exact this
  have hvan : ∀ i ∈ p.S, toFn p.n k i = 0 := by
    intro i hi
    rw [dotM_eq_ipM hm hklen hklen] at hk0
    unfold ipM at hk0
    have hnn : ∀ j ∈ (univ : Finset (Fin p.n)), 0 ≤ (if (maskOf p.n p.reg).getD j false
        then toFn p.n k j * toFn p.n k j else 0) := by
      intro j _
      split
      · exact mul_self_nonneg _
      · exact le_refl _
    have := (sum_eq_zero_iff_of_nonneg hnn).1 hk0 i (mem_univ i)
    rw [if_pos ((mask_iff_mem_S p i).2 hi)] at this
    exact mul_self_eq_zero.1 this
  exact I2.nz k hk (hR _ hker hvan)

end Gama.Ls.Gso
