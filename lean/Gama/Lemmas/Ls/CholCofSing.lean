/-
  Cofactor queries of the `AdjCholDec` model for any defect: `Q = T Q0 Tᵀ` is symmetric and a
  reflexive generalised inverse of `N = AᵀA`; `q_bb = A Q0 Aᵀ = A Q Aᵀ`.
-/
import Gama.Lemmas.Ls.CholQ0Sing
import Gama.Lemmas.Ls.CholCofactor

namespace Gama.Ls
open Finset Dn Chol Matrix Gama.LS

set_option linter.unusedSectionVars false
set_option linter.unusedVariables false

section
variable {K : Type} [Field K] [LinearOrder K] [IsStrictOrderedRing K] [SqrtFn K]
attribute [local instance 2000] scalarOfField

/-- `Q0` as a matrix -/
def Chol.Solved.Q0m (s : Solved K) (n : Nat) : Matrix (Fin n) (Fin n) K := Matrix.of fun i j => sget s.Q0 i.val j.val
/-- `T` as a matrix -/
def Chol.Solved.Tm (s : Solved K) (n : Nat) : Matrix (Fin n) (Fin n) K :=
  Matrix.of fun i j => tEntry s.S s.G s.nullity i.val j.val

/-- matrix algebra: `Q = T Q0 Tᵀ` with `N T = N`, `Q0` a symmetric reflexive g-inverse -/
theorem tq0t_ginverse {n : Type} [Fintype n] [DecidableEq n] (N Q0 T : Matrix n n K)
    (hNs : Nᵀ = N) (hQs : Q0ᵀ = Q0) (hNT : N * T = N) (h1 : N * Q0 * N = N) (h2 : Q0 * N * Q0 = Q0) :
    (T * Q0 * Tᵀ)ᵀ = T * Q0 * Tᵀ ∧ N * (T * Q0 * Tᵀ) * N = N ∧
      (T * Q0 * Tᵀ) * N * (T * Q0 * Tᵀ) = T * Q0 * Tᵀ := by
  have hTN : Tᵀ * N = N := by
    have := congrArg Matrix.transpose hNT
    rw [Matrix.transpose_mul, hNs] at this
    exact this
  refine ⟨?_, ?_, ?_⟩
  · rw [Matrix.transpose_mul, Matrix.transpose_mul, Matrix.transpose_transpose, hQs, Matrix.mul_assoc]
  · calc N * (T * Q0 * Tᵀ) * N = (N * T) * Q0 * (Tᵀ * N) := by simp only [Matrix.mul_assoc]
      _ = N * Q0 * N := by rw [hNT, hTN]
      _ = N := h1
  · calc (T * Q0 * Tᵀ) * N * (T * Q0 * Tᵀ) = T * Q0 * ((Tᵀ * N) * T) * Q0 * Tᵀ := by
          simp only [Matrix.mul_assoc]
      _ = T * Q0 * N * Q0 * Tᵀ := by rw [hTN, hNT]
      _ = T * (Q0 * N * Q0) * Tᵀ := by simp only [Matrix.mul_assoc]
      _ = T * Q0 * Tᵀ := by rw [h2]

/-- `Q0` as a matrix is a symmetric reflexive g-inverse of `AᵀA` -/
theorem chol_Q0m (p : Problem K) (hU : Chol.UnambiguousF (cholFact p)) (s : Solved K)
    (hs : Chol.solve p = .ok s) :
    (s.Q0m p.n)ᵀ = s.Q0m p.n ∧ (p.Aᵀ * p.A) * s.Q0m p.n * (p.Aᵀ * p.A) = p.Aᵀ * p.A ∧
      s.Q0m p.n * (p.Aᵀ * p.A) * s.Q0m p.n = s.Q0m p.n := by
  obtain ⟨hm, hn, hA, hperm, hinvp, hmat, hnull, hN0, hx0, hr, hQ, hreg, _, _⟩ := solve_shape p s hs
  have hF := cholFact_fin p hU
  have hZ := q0Mat_spec hF.isPerm hF.le (cholFact p).mat
  rw [← hQ] at hZ
  obtain ⟨g1, g2⟩ := q0_ginverse hF s.Q0 hZ
  refine ⟨?_, ?_, ?_⟩
  · funext i j; exact sget_comm s.Q0 _ _
  · funext z w
    rw [Matrix.mul_assoc, Matrix.mul_apply]
    have : ∀ v : Fin p.n, (p.Aᵀ * p.A) z v * (s.Q0m p.n * (p.Aᵀ * p.A)) v w
        = normalF p.m p.dense z.val v.val * ∑ v' ∈ range p.n, sget s.Q0 v.val v' * normalF p.m p.dense v' w.val := by
      intro v
      rw [← normalF_eq, Matrix.mul_apply,
        ← Fin.sum_univ_eq_sum_range (fun v' => sget s.Q0 v.val v' * normalF p.m p.dense v' w.val) p.n]
      congr 1
      exact Finset.sum_congr rfl fun v' _ => by rw [← normalF_eq]; rfl
    rw [Finset.sum_congr rfl (fun v _ => this v),
      Fin.sum_univ_eq_sum_range (fun v => normalF p.m p.dense z.val v *
        ∑ v' ∈ range p.n, sget s.Q0 v v' * normalF p.m p.dense v' w.val) p.n,
      g1 z.val w.val z.isLt w.isLt, normalF_eq]
  · funext u w
    rw [Matrix.mul_apply]
    have : ∀ v : Fin p.n, (s.Q0m p.n * (p.Aᵀ * p.A)) u v * s.Q0m p.n v w
        = (∑ v' ∈ range p.n, sget s.Q0 u.val v' * normalF p.m p.dense v' v.val) * sget s.Q0 v.val w.val := by
      intro v
      rw [Matrix.mul_apply,
        ← Fin.sum_univ_eq_sum_range (fun v' => sget s.Q0 u.val v' * normalF p.m p.dense v' v.val) p.n]
      congr 1
      exact Finset.sum_congr rfl fun v' _ => by rw [← normalF_eq]; rfl
    rw [Finset.sum_congr rfl (fun v _ => this v),
      Fin.sum_univ_eq_sum_range (fun v => (∑ v' ∈ range p.n, sget s.Q0 u.val v' * normalF p.m p.dense v' v) *
        sget s.Q0 v w.val) p.n,
      g2 u.val w.val u.isLt w.isLt]
    rfl

/-- `A T = A`: the columns of `G` are kernel vectors -/
theorem chol_AT (p : Problem K) (hU : Chol.UnambiguousF (cholFact p)) (hsq : Chol.GsSqrtExact p)
    (s : Solved K) (hs : Chol.solve p = .ok s) (hne : s.nullity ≠ 0) : p.A * s.Tm p.n = p.A := by
  obtain ⟨hm, hn, hA, hperm, hinvp, hmat, hnull, hN0, hx0, hr, hQ, hreg, _, hgs⟩ := solve_shape p s hs
  have h0 : (cholFact p).nullity ≠ 0 := by rw [← hnull]; exact hne
  obtain ⟨hloop, hx⟩ := hgs h0
  have hS := regList_lt p.n p.reg s.S hreg
  have hinit := chol_gsInv_init p hU s.S
  rw [← hx0] at hinit
  obtain ⟨gpf, hfin⟩ := gsLoop_inv hS (cholFact p).nullity 0 _ _ s.G hinit (by omega) (by
    have := hsq s.S hreg
    rw [← hx0] at this
    exact this) hloop
  -- kernel property by column index
  have hker : ∀ c, c < s.nullity → ∀ k, k < p.m → ∑ v ∈ range p.n, mget p.dense k v * vget (s.G.getD c #[]) v = 0 := by
    intro c hc k hk
    rw [hnull] at hc
    obtain ⟨l, hl, e⟩ := hfin.perm.surj c (by omega)
    have hl' : l < (cholFact p).nullity := by
      by_contra hcon
      have : l = (cholFact p).nullity := by omega
      rw [this, hfin.last] at e
      omega
    rw [← e]
    exact hfin.ker l hl' k hk
  funext k j
  rw [Matrix.mul_apply]
  show ∑ i : Fin p.n, mget p.dense k.val i.val * tEntry s.S s.G s.nullity i.val j.val = mget p.dense k.val j.val
  rw [Fin.sum_univ_eq_sum_range (fun i => mget p.dense k.val i * tEntry s.S s.G s.nullity i j.val) p.n]
  unfold tEntry
  simp only []
  have hdelta : ∑ i ∈ range p.n, mget p.dense k.val i * (if i = j.val then (Scalar.ofNat 1 : K) else 0)
      = mget p.dense k.val j.val := by
    rw [Finset.sum_eq_single j.val]
    · rw [if_pos rfl]
      show _ * ((1 : ℕ) : K) = _
      rw [Nat.cast_one, mul_one]
    · intro i _ hne'; rw [if_neg hne', mul_zero]
    · intro hnot; exact absurd (Finset.mem_range.2 j.isLt) hnot
  by_cases hc : s.S.contains j.val = true
  · simp only [hc, if_true]
    have : ∀ i ∈ range p.n, mget p.dense k.val i *
        subFrom (if i = j.val then (Scalar.ofNat 1 : K) else 0) 0 s.nullity
          (fun c => vget (s.G.getD c #[]) i * vget (s.G.getD c #[]) j.val)
        = mget p.dense k.val i * (if i = j.val then (Scalar.ofNat 1 : K) else 0)
          - ∑ c ∈ range s.nullity, (mget p.dense k.val i * vget (s.G.getD c #[]) i) * vget (s.G.getD c #[]) j.val := by
      intro i _
      rw [subFrom_eq, ← Finset.range_eq_Ico, mul_sub, Finset.mul_sum]
      congr 1
      exact Finset.sum_congr rfl fun c _ => by ring
    rw [Finset.sum_congr rfl this, Finset.sum_sub_distrib, hdelta, Finset.sum_comm]
    have : ∀ c ∈ range s.nullity, ∑ i ∈ range p.n,
        (mget p.dense k.val i * vget (s.G.getD c #[]) i) * vget (s.G.getD c #[]) j.val = 0 := by
      intro c hc'
      rw [← Finset.sum_mul, hker c (Finset.mem_range.1 hc') k.val k.isLt, zero_mul]
    rw [Finset.sum_eq_zero this, sub_zero]
  · have hc' : s.S.contains j.val = false := by simpa using hc
    simp only [hc', Bool.false_eq_true, if_false]
    rw [hdelta]

/-- **C03 (cholesky, any defect)** in matrix form -/
theorem chol_Q_spec (p : Problem K) (hU : Chol.UnambiguousF (cholFact p)) (hsq : Chol.GsSqrtExact p)
    (s : Solved K) (hs : Chol.solve p = .ok s) :
    (s.Qm p.n)ᵀ = s.Qm p.n ∧ (p.Aᵀ * p.A) * s.Qm p.n * (p.Aᵀ * p.A) = p.Aᵀ * p.A ∧
      s.Qm p.n * (p.Aᵀ * p.A) * s.Qm p.n = s.Qm p.n ∧
      p.A * s.Q0m p.n * p.Aᵀ = p.A * s.Qm p.n * p.Aᵀ := by
  by_cases hn0 : s.nullity = 0
  · obtain ⟨h1, h2, h3⟩ := chol_regular_Q p s hs hn0
    have hQ0 : s.Q0m p.n = s.Qm p.n := by
      funext i j
      show sget s.Q0 i.val j.val = s.qxx0 i.val j.val
      unfold Solved.qxx0; rw [if_pos hn0]
    refine ⟨h1, by rw [h3, Matrix.one_mul], by rw [h2, Matrix.one_mul], by rw [hQ0]⟩
  · obtain ⟨q1, q2, q3⟩ := chol_Q0m p hU s hs
    have hAT := chol_AT p hU hsq s hs hn0
    have hNs : (p.Aᵀ * p.A)ᵀ = p.Aᵀ * p.A := by rw [Matrix.transpose_mul, Matrix.transpose_transpose]
    have hNT : (p.Aᵀ * p.A) * s.Tm p.n = p.Aᵀ * p.A := by rw [Matrix.mul_assoc, hAT]
    obtain ⟨hn, _⟩ := (solve_shape p s hs).2
    have hQ : s.Qm p.n = s.Tm p.n * s.Q0m p.n * (s.Tm p.n)ᵀ := by
      funext i j
      show s.qxx0 i.val j.val = _
      unfold Solved.qxx0
      rw [if_neg hn0, Matrix.mul_apply, sumFrom_eq, ← Finset.range_eq_Ico, hn,
        ← Fin.sum_univ_eq_sum_range (fun k => sumFrom 0 p.n (fun l => tEntry s.S s.G s.nullity i.val l * sget s.Q0 l k)
          * tEntry s.S s.G s.nullity j.val k) p.n]
      refine Finset.sum_congr rfl fun k _ => ?_
      rw [Matrix.mul_apply, sumFrom_eq, ← Finset.range_eq_Ico,
        ← Fin.sum_univ_eq_sum_range (fun l => tEntry s.S s.G s.nullity i.val l * sget s.Q0 l k.val) p.n]
      rfl
    obtain ⟨t1, t2, t3⟩ := tq0t_ginverse (p.Aᵀ * p.A) (s.Q0m p.n) (s.Tm p.n) hNs q1 hNT q2 q3
    rw [hQ]
    refine ⟨t1, t2, t3, ?_⟩
    have hAT' : (s.Tm p.n)ᵀ * p.Aᵀ = p.Aᵀ := by
      rw [← Matrix.transpose_mul, hAT]
    calc p.A * s.Q0m p.n * p.Aᵀ = (p.A * s.Tm p.n) * s.Q0m p.n * ((s.Tm p.n)ᵀ * p.Aᵀ) := by rw [hAT, hAT']
      _ = p.A * (s.Tm p.n * s.Q0m p.n * (s.Tm p.n)ᵀ) * p.Aᵀ := by simp only [Matrix.mul_assoc]

/-- `q_bb(i,j) = (A Q0 Aᵀ)(i,j)` — by definition of the query -/
theorem chol_qbb0_eq (p : Problem K) (s : Solved K) (hs : Chol.solve p = .ok s) (i j : Fin p.m) :
    s.qbb0 i.val j.val = (p.A * s.Q0m p.n * p.Aᵀ) i j := by
  obtain ⟨hm, hnn, hA, _⟩ := solve_shape p s hs
  rw [Matrix.mul_apply]
  unfold Solved.qbb0
  rw [sumFrom_eq, ← Finset.range_eq_Ico, hnn,
    ← Fin.sum_univ_eq_sum_range (fun c => s.aq i.val c * mget s.A j.val c) p.n]
  refine Finset.sum_congr rfl fun c _ => ?_
  rw [Matrix.mul_apply, Matrix.transpose_apply]
  unfold Solved.aq
  rw [sumFrom_eq, ← Finset.range_eq_Ico, hnn,
    ← Fin.sum_univ_eq_sum_range (fun l => mget s.A i.val l * sget s.Q0 l c.val) p.n, hA]
  rfl

end
end Gama.Ls
