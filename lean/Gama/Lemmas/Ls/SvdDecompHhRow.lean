/-
  The RIGHT Householder half-step `i` of the bidiagonalisation of `SVD::svd()` (`hhRow`,
  `SvdDecompStruct.lean`): proof of `HhRowStmt` (`SvdDecompSpec.lean`).

  `hhRow` never throws; `hr_hhRow_eq` writes its value as a composition of pure loops (`rfold`):
    `hr_absSum`   scale = Σ|U[i][k]|                     `hr_divAcc`   x̃ = row i / scale, s = Σ x̃²
    `hr_scratch`  rv1[k] = u_k / h                        `hr_dotRow`, `hr_axpyRow`, `hr_rowsLoop`  rows L..m
    `hr_scaleRow` row i *= scale
  each with its closed form (`hr_*_spec`, `hr_*_eq`).  `hr_alg` is the Householder algebra
  (`u = x̃ − g e_L`, `g² = s`: `u·u = −2h`, `x̃·u = −h`), `hr_final_post`/`hr_tail_post` assemble
  `HhRowPost` for `scale ≠ 0`, `hr_trivial_post` covers the branches where nothing is done.
-/
import Gama.Lemmas.Ls.SvdDecompSpec
import Mathlib.Algebra.BigOperators.Intervals
namespace Gama.Ls.Svd
open Matrix Finset Gama.LS Gama.Ls
set_option linter.unusedSectionVars false
set_option linter.unusedVariables false
set_option linter.unusedSimpArgs false

section generic
variable {K : Type} [Scalar K]

/-- a loop that rewrites row `r`, columns `L..n`: the value written at column `k` may read the
    current array as long as it only depends on what the invariant fixes -/
theorem hr_rfold_row {m n : Nat} (r L : Nat) (hr1 : 1 ≤ r) (hrm : r ≤ m) (hL : 1 ≤ L) (hLn : L ≤ n + 1)
    (φ : Nat → DMat K → K) (G : Nat → K) (U : DMat K) (hU : MWF m n U)
    (hφ : ∀ j U', L ≤ j → j ≤ n → MWF m n U' →
      (∀ a b, mg U' a b = if a = r ∧ L ≤ b ∧ b < j then G b else mg U a b) → φ j U' = G j) :
    MWF m n (rfold (fun k V => ms V r k (φ k V)) L (n + 1 - L) U) ∧
    ∀ a b, mg (rfold (fun k V => ms V r k (φ k V)) L (n + 1 - L) U) a b
      = if a = r ∧ L ≤ b ∧ b ≤ n then G b else mg U a b := by
  have key := rfold_range_inv (fun k V => ms V r k (φ k V))
    (fun j V => MWF m n V ∧ ∀ a b, mg V a b = if a = r ∧ L ≤ b ∧ b < j then G b else mg U a b)
    hLn U ⟨hU, fun a b => by rw [if_neg (by omega)]⟩
    (by
      rintro j V hj1 hj2 ⟨hV, hV2⟩
      refine ⟨hV.ms _ _ _, fun a b => ?_⟩
      rw [mg_ms_in hV hr1 hrm (by omega) (by omega), hφ j V hj1 (by omega) hV hV2, hV2]
      by_cases h1 : a = r ∧ b = j
      · rw [if_pos h1, if_pos (by omega), h1.2]
      · rw [if_neg h1]
        by_cases h2 : a = r ∧ L ≤ b ∧ b < j
        · rw [if_pos h2, if_pos (by omega)]
        · rw [if_neg h2, if_neg (by omega)])
  refine ⟨key.1, fun a b => ?_⟩
  rw [key.2]
  by_cases h2 : a = r ∧ L ≤ b ∧ b ≤ n
  · rw [if_pos h2, if_pos (by omega)]
  · rw [if_neg h2, if_neg (by omega)]

/-- a loop that writes `G k` into positions `L..n` of a vector -/
theorem hr_rfold_vec {n : Nat} (L : Nat) (hL : 1 ≤ L) (hLn : L ≤ n + 1) (G : Nat → K) (v : Array K) (hv : v.size = n) :
    (rfold (fun k w => s1 w k (G k)) L (n + 1 - L) v).size = n ∧
    ∀ c, g1 (rfold (fun k w => s1 w k (G k)) L (n + 1 - L) v) c = if L ≤ c ∧ c ≤ n then G c else g1 v c := by
  have key := rfold_range_inv (fun k w => s1 w k (G k))
    (fun j w => w.size = n ∧ ∀ c, g1 w c = if L ≤ c ∧ c < j then G c else g1 v c)
    hLn v ⟨hv, fun c => by rw [if_neg (by omega)]⟩
    (by
      rintro j w hj1 hj2 ⟨hw, hw2⟩
      refine ⟨s1_size hw _ _, fun c => ?_⟩
      rw [g1_s1_in hw (by omega) (by omega), hw2]
      by_cases h1 : c = j
      · rw [if_pos h1, if_pos (by omega), h1]
      · rw [if_neg h1]
        by_cases h2 : L ≤ c ∧ c < j
        · rw [if_pos h2, if_pos (by omega)]
        · rw [if_neg h2, if_neg (by omega)])
  refine ⟨key.1, fun c => ?_⟩
  rw [key.2]
  by_cases h2 : L ≤ c ∧ c ≤ n
  · rw [if_pos h2, if_pos (by omega)]
  · rw [if_neg h2, if_neg (by omega)]

end generic

theorem hr_ok_bind {ε α β : Type} (a : α) (f : α → Except ε β) : (Except.ok a >>= f) = f a := rfl

section defs
variable {K : Type} [Scalar K]

/-- `scale`: the loop `for k in [L:n+1] do scale := scale + |U[i][k]|` -/
def hr_absSum (U : DMat K) (i n : Nat) : K :=
  rfold (fun k s => s + absC (mg U i k)) (i + 1) (n + 1 - (i + 1)) 0

/-- the loop that divides row `i` by `scale` and accumulates the squares -/
def hr_divAcc (U : DMat K) (i n : Nat) (sc : K) : DMat K × K :=
  rfold (fun k (p : DMat K × K) => (ms p.1 i k (mg p.1 i k / sc), p.2 + mg p.1 i k / sc * (mg p.1 i k / sc)))
    (i + 1) (n + 1 - (i + 1)) (U, 0)

/-- `rv1[k] = U[i][k] / h` -/
def hr_scratch (U : DMat K) (i n : Nat) (h : K) (rv1 : Array K) : Array K :=
  rfold (fun k w => s1 w k (mg U i k / h)) (i + 1) (n + 1 - (i + 1)) rv1

/-- `s = Σ U[j][k]·U[i][k]` -/
def hr_dotRow (U : DMat K) (i j n : Nat) : K :=
  rfold (fun k s => s + mg U j k * mg U i k) (i + 1) (n + 1 - (i + 1)) 0

/-- `U[j][k] += s·rv1[k]` -/
def hr_axpyRow (U : DMat K) (i j n : Nat) (s : K) (rv : Array K) : DMat K :=
  rfold (fun k V => ms V j k (mg V j k + s * g1 rv k)) (i + 1) (n + 1 - (i + 1)) U

/-- the loop over the rows `j = L..m` -/
def hr_rowsLoop (m n i : Nat) (U : DMat K) (s0 : K) (rv : Array K) : DMat K × K :=
  rfold (fun j (p : DMat K × K) => (hr_axpyRow p.1 i j n (hr_dotRow p.1 i j n) rv, hr_dotRow p.1 i j n))
    (i + 1) (m + 1 - (i + 1)) (U, s0)

/-- `U[i][k] *= scale` -/
def hr_scaleRow (U : DMat K) (i n : Nat) (sc : K) : DMat K :=
  rfold (fun k V => ms V i k (mg V i k * sc)) (i + 1) (n + 1 - (i + 1)) U

/-- what `hhRow` does after the choice of the sign of `g` -/
def hr_tailV (m n i : Nat) (U1 : DMat K) (rv1 : Array K) (sc s g : K) : DMat K × Array K × K × K × K × K × K :=
  let f := mg U1 i (i + 1)
  let h := f * g - s
  let U2 := ms U1 i (i + 1) (f - g)
  let rv := hr_scratch U2 i n h rv1
  let p := if i ≠ m then hr_rowsLoop m n i U2 s rv else (U2, s)
  (hr_scaleRow p.1 i n sc, rv, g, sc, p.2, f, h)

/-- `hhRow` never throws: its value -/
def hr_hhRowV (m n i : Nat) (U : DMat K) (rv1 : Array K) (f0 h0 : K) : DMat K × Array K × K × K × K × K × K :=
  if i ≤ m ∧ i ≠ n then
    if nz (hr_absSum U i n) then
      if (0 : K) ≤ mg (hr_divAcc U i n (hr_absSum U i n)).1 i (i + 1) then
        hr_tailV m n i (hr_divAcc U i n (hr_absSum U i n)).1 rv1 (hr_absSum U i n) (hr_divAcc U i n (hr_absSum U i n)).2
          (-Scalar.sqrt (hr_divAcc U i n (hr_absSum U i n)).2)
      else
        hr_tailV m n i (hr_divAcc U i n (hr_absSum U i n)).1 rv1 (hr_absSum U i n) (hr_divAcc U i n (hr_absSum U i n)).2
          (Scalar.sqrt (hr_divAcc U i n (hr_absSum U i n)).2)
    else (U, rv1, 0, hr_absSum U i n, 0, f0, h0)
  else (U, rv1, 0, 0, 0, f0, h0)

theorem hr_hhRow_eq (m n i : Nat) (U : DMat K) (rv1 : Array K) (f0 h0 : K) :
    hhRow m n i (i + 1) U rv1 f0 h0 = .ok (hr_hhRowV m n i U rv1 f0 h0) := by
  unfold hhRow hr_hhRowV
  simp only [forIn_range_pure, hr_ok_bind]
  by_cases h1 : i ≤ m ∧ i ≠ n
  · rw [if_pos h1, if_pos h1]
    by_cases h2 : nz (hr_absSum U i n) = true
    · have h2' := h2
      unfold hr_absSum at h2'
      rw [if_pos h2', if_pos h2]
      by_cases h3 : (0 : K) ≤ mg (hr_divAcc U i n (hr_absSum U i n)).1 i (i + 1)
      · have h3' := h3
        unfold hr_divAcc hr_absSum at h3'
        rw [if_pos h3', if_pos h3]
        by_cases h4 : i ≠ m
        · unfold hr_tailV
          simp only [if_pos h4]
          rfl
        · unfold hr_tailV
          simp only [if_neg h4]
          rfl
      · have h3' := h3
        unfold hr_divAcc hr_absSum at h3'
        rw [if_neg h3', if_neg h3]
        by_cases h4 : i ≠ m
        · unfold hr_tailV
          simp only [if_pos h4]
          rfl
        · unfold hr_tailV
          simp only [if_neg h4]
          rfl
    · have h2' := h2
      unfold hr_absSum at h2'
      rw [if_neg h2', if_neg h2]
      rfl
  · rw [if_neg h1, if_neg h1]
    rfl

end defs

variable {K : Type} [Field K] [LinearOrder K] [IsStrictOrderedRing K] (sq : K → K)
local notation "𝕊" => (Gama.LS.fieldScalar sq)

/-- an accumulation loop is a sum -/
theorem hr_rfold_sum (f : Nat → K) {a b : Nat} (hab : a ≤ b) (init : K) :
    rfold (fun k s => s + f k) a (b - a) init = init + ∑ k ∈ Ico a b, f k := by
  have := rfold_range_inv (fun k s => s + f k) (fun j s => s = init + ∑ k ∈ Ico a j, f k) hab init
    (by simp)
    (by
      intro j s hj1 hj2 hs
      rw [hs, Finset.sum_Ico_succ_top hj1, add_assoc])
  exact this

theorem hr_absSum_eq (U : DMat K) (i n : Nat) (hin : i ≤ n) :
    @hr_absSum K 𝕊 U i n = ∑ k ∈ Icc (i + 1) n, |@mg K 𝕊 U i k| := by
  have := hr_rfold_sum (fun k => |@mg K 𝕊 U i k|) (show i + 1 ≤ n + 1 by omega) 0
  rw [Finset.Ico_add_one_right_eq_Icc, zero_add] at this
  rw [← this]
  unfold hr_absSum
  simp only [absC_eq']

theorem hr_dotRow_eq (V : DMat K) (i j n : Nat) (hin : i ≤ n) :
    @hr_dotRow K 𝕊 V i j n = ∑ k ∈ Icc (i + 1) n, @mg K 𝕊 V j k * @mg K 𝕊 V i k := by
  have := hr_rfold_sum (fun k => @mg K 𝕊 V j k * @mg K 𝕊 V i k) (show i + 1 ≤ n + 1 by omega) 0
  rw [Finset.Ico_add_one_right_eq_Icc, zero_add] at this
  rw [← this]
  rfl

theorem hr_divAcc_spec {m n : Nat} (U : DMat K) (i : Nat) (sc : K) (hU : MWF m n U) (hi1 : 1 ≤ i) (him : i ≤ m)
    (hin : i ≤ n) :
    MWF m n (@hr_divAcc K 𝕊 U i n sc).1 ∧
    (∀ a b, @mg K 𝕊 (@hr_divAcc K 𝕊 U i n sc).1 a b
      = if a = i ∧ i + 1 ≤ b ∧ b ≤ n then @mg K 𝕊 U a b / sc else @mg K 𝕊 U a b) ∧
    (@hr_divAcc K 𝕊 U i n sc).2 = ∑ k ∈ Icc (i + 1) n, (@mg K 𝕊 U i k / sc) * (@mg K 𝕊 U i k / sc) := by
  have key := rfold_range_inv
    (fun k (p : DMat K × K) => (ms p.1 i k (@mg K 𝕊 p.1 i k / sc), p.2 + @mg K 𝕊 p.1 i k / sc * (@mg K 𝕊 p.1 i k / sc)))
    (fun j p => MWF m n p.1 ∧
      (∀ a b, @mg K 𝕊 p.1 a b = if a = i ∧ i + 1 ≤ b ∧ b < j then @mg K 𝕊 U a b / sc else @mg K 𝕊 U a b) ∧
      p.2 = ∑ k ∈ Ico (i + 1) j, (@mg K 𝕊 U i k / sc) * (@mg K 𝕊 U i k / sc))
    (show i + 1 ≤ n + 1 by omega) (U, 0)
    ⟨hU, fun a b => by rw [if_neg (by omega)], by simp⟩
    (by
      rintro j p hj1 hj2 ⟨hV, hV2, hV3⟩
      have hij : @mg K 𝕊 p.1 i j = @mg K 𝕊 U i j := by rw [hV2, if_neg (by omega)]
      refine ⟨@MWF.ms K 𝕊 _ _ _ hV _ _ _, fun a b => ?_, ?_⟩
      · show @mg K 𝕊 (ms p.1 i j _) a b = _
        rw [@mg_ms_in K 𝕊 _ _ _ hV _ _ hi1 him (by omega) (by omega), hij, hV2]
        by_cases h1 : a = i ∧ b = j
        · rw [if_pos h1, if_pos (by omega), h1.1, h1.2]
        · rw [if_neg h1]
          by_cases h2 : a = i ∧ i + 1 ≤ b ∧ b < j
          · rw [if_pos h2, if_pos (by omega)]
          · rw [if_neg h2, if_neg (by omega)]
      · show p.2 + _ = _
        rw [hij, hV3, Finset.sum_Ico_succ_top hj1])
  refine ⟨key.1, fun a b => ?_, ?_⟩
  · refine (key.2.1 a b).trans ?_
    by_cases h2 : a = i ∧ i + 1 ≤ b ∧ b ≤ n
    · rw [if_pos h2, if_pos (by omega)]
    · rw [if_neg h2, if_neg (by omega)]
  · rw [← Finset.Ico_add_one_right_eq_Icc]; exact key.2.2

theorem hr_scratch_spec {n : Nat} (U : DMat K) (i : Nat) (h : K) (rv1 : Array K) (hv : rv1.size = n) (hin : i ≤ n) :
    (@hr_scratch K 𝕊 U i n h rv1).size = n ∧
    ∀ c, @g1 K 𝕊 (@hr_scratch K 𝕊 U i n h rv1) c
      = if i + 1 ≤ c ∧ c ≤ n then @mg K 𝕊 U i c / h else @g1 K 𝕊 rv1 c :=
  @hr_rfold_vec K 𝕊 n (i + 1) (by omega) (by omega) (fun c => @mg K 𝕊 U i c / h) rv1 hv

theorem hr_axpyRow_spec {m n : Nat} (V : DMat K) (i j : Nat) (s : K) (rv : Array K) (hV : MWF m n V)
    (hj1 : 1 ≤ j) (hjm : j ≤ m) (hin : i ≤ n) :
    MWF m n (@hr_axpyRow K 𝕊 V i j n s rv) ∧
    ∀ a b, @mg K 𝕊 (@hr_axpyRow K 𝕊 V i j n s rv) a b
      = if a = j ∧ i + 1 ≤ b ∧ b ≤ n then @mg K 𝕊 V j b + s * @g1 K 𝕊 rv b else @mg K 𝕊 V a b :=
  @hr_rfold_row K 𝕊 m n j (i + 1) hj1 hjm (by omega) (by omega)
    (fun k V' => @mg K 𝕊 V' j k + s * @g1 K 𝕊 rv k) (fun b => @mg K 𝕊 V j b + s * @g1 K 𝕊 rv b) V hV
    (by
      intro k V' hk1 hk2 hV' h
      show @mg K 𝕊 V' j k + _ = _
      rw [h, if_neg (by omega)])

theorem hr_scaleRow_spec {m n : Nat} (V : DMat K) (i : Nat) (sc : K) (hV : MWF m n V)
    (hi1 : 1 ≤ i) (him : i ≤ m) (hin : i ≤ n) :
    MWF m n (@hr_scaleRow K 𝕊 V i n sc) ∧
    ∀ a b, @mg K 𝕊 (@hr_scaleRow K 𝕊 V i n sc) a b
      = if a = i ∧ i + 1 ≤ b ∧ b ≤ n then @mg K 𝕊 V i b * sc else @mg K 𝕊 V a b :=
  @hr_rfold_row K 𝕊 m n i (i + 1) hi1 him (by omega) (by omega)
    (fun k V' => @mg K 𝕊 V' i k * sc) (fun b => @mg K 𝕊 V i b * sc) V hV
    (by
      intro k V' hk1 hk2 hV' h
      show @mg K 𝕊 V' i k * _ = _
      rw [h, if_neg (by omega)])

theorem hr_rowsLoop_spec {m n : Nat} (U : DMat K) (i : Nat) (s0 : K) (rv : Array K) (hU : MWF m n U)
    (hi1 : 1 ≤ i) (him : i ≤ m) (hin : i ≤ n) :
    MWF m n (@hr_rowsLoop K 𝕊 m n i U s0 rv).1 ∧
    ∀ a b, @mg K 𝕊 (@hr_rowsLoop K 𝕊 m n i U s0 rv).1 a b
      = if i + 1 ≤ a ∧ a ≤ m ∧ i + 1 ≤ b ∧ b ≤ n then
          @mg K 𝕊 U a b + (∑ c ∈ Icc (i + 1) n, @mg K 𝕊 U a c * @mg K 𝕊 U i c) * @g1 K 𝕊 rv b
        else @mg K 𝕊 U a b := by
  have key := rfold_range_inv
    (fun j (p : DMat K × K) => (@hr_axpyRow K 𝕊 p.1 i j n (@hr_dotRow K 𝕊 p.1 i j n) rv, @hr_dotRow K 𝕊 p.1 i j n))
    (fun j p => MWF m n p.1 ∧
      ∀ a b, @mg K 𝕊 p.1 a b = if i + 1 ≤ a ∧ a < j ∧ i + 1 ≤ b ∧ b ≤ n then
          @mg K 𝕊 U a b + (∑ c ∈ Icc (i + 1) n, @mg K 𝕊 U a c * @mg K 𝕊 U i c) * @g1 K 𝕊 rv b
        else @mg K 𝕊 U a b)
    (show i + 1 ≤ m + 1 by omega) (U, s0)
    ⟨hU, fun a b => by rw [if_neg (by omega)]⟩
    (by
      rintro j p hj1 hj2 ⟨hV, hV2⟩
      obtain ⟨hA1, hA2⟩ := hr_axpyRow_spec sq p.1 i j (@hr_dotRow K 𝕊 p.1 i j n) rv hV (by omega) (by omega) hin
      refine ⟨hA1, fun a b => ?_⟩
      show @mg K 𝕊 (@hr_axpyRow K 𝕊 p.1 i j n (@hr_dotRow K 𝕊 p.1 i j n) rv) a b = _
      rw [hA2, hr_dotRow_eq sq _ _ _ _ hin]
      have hrj : ∀ c, @mg K 𝕊 p.1 j c = @mg K 𝕊 U j c := fun c => by rw [hV2, if_neg (by omega)]
      have hri : ∀ c, @mg K 𝕊 p.1 i c = @mg K 𝕊 U i c := fun c => by rw [hV2, if_neg (by omega)]
      simp only [hrj, hri]
      by_cases h1 : a = j ∧ i + 1 ≤ b ∧ b ≤ n
      · rw [if_pos h1, if_pos (by omega), h1.1]
      · rw [if_neg h1, hV2]
        by_cases h2 : i + 1 ≤ a ∧ a < j ∧ i + 1 ≤ b ∧ b ≤ n
        · rw [if_pos h2, if_pos (by omega)]
        · rw [if_neg h2, if_neg (by omega)])
  refine ⟨key.1, fun a b => ?_⟩
  refine (key.2 a b).trans ?_
  by_cases h2 : i + 1 ≤ a ∧ a ≤ m ∧ i + 1 ≤ b ∧ b ≤ n
  · rw [if_pos h2, if_pos (by omega)]
  · rw [if_neg h2, if_neg (by omega)]

omit [LinearOrder K] [IsStrictOrderedRing K] in
theorem hr_sum_delta (L n : Nat) (hL : L ≤ n) (g : K) (y : Nat → K) :
    ∑ c ∈ Icc L n, (if c = L then g else 0) * y c = g * y L := by
  simp only [ite_mul, zero_mul]
  rw [Finset.sum_ite_eq', if_pos (Finset.mem_Icc.mpr ⟨le_refl _, hL⟩)]

omit [LinearOrder K] [IsStrictOrderedRing K] in
/-- `u = x̃ − g·e_L` with `g² = x̃·x̃ = s`: `u·u = −2h`, `x̃·u = −h`, `h = x̃_L·g − s` -/
theorem hr_alg (xt : Nat → K) (L n : Nat) (hL : L ≤ n) (g s : K)
    (hs : s = ∑ c ∈ Icc L n, xt c * xt c) (hg : g * g = s) :
    ∑ c ∈ Icc L n, (xt c - if c = L then g else 0) * (xt c - if c = L then g else 0) = -2 * (xt L * g - s) ∧
    ∑ c ∈ Icc L n, xt c * (xt c - if c = L then g else 0) = -(xt L * g - s) := by
  have e1 : ∀ c, (xt c - if c = L then g else 0) * (xt c - if c = L then g else 0)
      = xt c * xt c - 2 * ((if c = L then g else 0) * xt c)
        + (if c = L then g else 0) * (if c = L then g else 0) := by intro c; ring
  have e2 : ∀ c, xt c * (xt c - if c = L then g else 0) = xt c * xt c - (if c = L then g else 0) * xt c := by
    intro c; ring
  constructor
  · simp only [e1, Finset.sum_add_distrib, Finset.sum_sub_distrib, ← Finset.mul_sum, hr_sum_delta _ _ hL]
    rw [← hs, if_true, hg]; ring
  · simp only [e2, Finset.sum_sub_distrib, hr_sum_delta _ _ hL, ← hs]; ring

/-- nothing done: `w = 0` and row `i` already vanishes beyond the diagonal -/
theorem hr_trivial_post {m n i : Nat} (U : DMat K) (rv1 : Array K) (w : K) (hw : w = 0) (hU : MWF m n U)
    (hv : rv1.size = n) (hz : ∀ b, i + 1 ≤ b → b ≤ n → @mg K 𝕊 U i b = 0) :
    HhRowPost sq m n i U U rv1 rv1 w := by
  subst hw
  refine ⟨hU, hv, fun _ _ _ => rfl, fun _ _ => rfl, Or.inl (mul_zero _), ?_, ?_, fun _ => rfl⟩
  · intro a b _ _ _ _
    rw [mul_zero, _root_.inv_zero, zero_mul, zero_mul, add_zero]
  · intro b hb1 hb2
    rw [mul_zero, _root_.inv_zero, zero_mul, zero_mul, add_zero, hz b hb1 hb2]
    split <;> rfl

theorem hr_final_post {m n i : Nat} (U P : DMat K) (rv1 rv : Array K) (sc g h : K) (u xt : Nat → K)
    (hU : MWF m n U) (hP : MWF m n P) (hi1 : 1 ≤ i) (him : i ≤ m) (hin : i < n)
    (hrvs : rv.size = n) (hrv : ∀ c, c ≤ i → @g1 K 𝕊 rv c = @g1 K 𝕊 rv1 c)
    (hPe : ∀ a b, @mg K 𝕊 P a b =
      if a = i ∧ i + 1 ≤ b ∧ b ≤ n then u b
      else if i + 1 ≤ a ∧ a ≤ m ∧ i + 1 ≤ b ∧ b ≤ n then
        @mg K 𝕊 U a b + (∑ c ∈ Icc (i + 1) n, @mg K 𝕊 U a c * u c) * (u b / h)
      else @mg K 𝕊 U a b)
    (hx : ∀ c, i + 1 ≤ c → c ≤ n → @mg K 𝕊 U i c = xt c * sc)
    (hu : ∀ c, i + 1 ≤ c → c ≤ n → u c = xt c - if c = i + 1 then g else 0)
    (S1 : ∑ c ∈ Icc (i + 1) n, u c * u c = -2 * h)
    (S2 : ∑ c ∈ Icc (i + 1) n, xt c * u c = -h)
    (hh : h ≠ 0) (hsc : sc ≠ 0) (hgh : (xt (i + 1) - g) * g = h) :
    HhRowPost sq m n i U (@hr_scaleRow K 𝕊 P i n sc) rv1 rv (sc * g) := by
  obtain ⟨hW1, hW2⟩ := hr_scaleRow_spec sq P i sc hP hi1 him hin.le
  have hrow : ∀ b, i + 1 ≤ b → b ≤ n → @mg K 𝕊 (@hr_scaleRow K 𝕊 P i n sc) i b = u b * sc := by
    intro b hb1 hb2
    rw [hW2, if_pos ⟨rfl, hb1, hb2⟩, hPe, if_pos ⟨rfl, hb1, hb2⟩]
  have hoth : ∀ a b, a ≠ i → @mg K 𝕊 (@hr_scaleRow K 𝕊 P i n sc) a b = @mg K 𝕊 P a b := by
    intro a b ha
    rw [hW2, if_neg (fun hc => ha hc.1)]
  have hβ : @mg K 𝕊 (@hr_scaleRow K 𝕊 P i n sc) i (i + 1) * (sc * g) = sc * sc * h := by
    rw [hrow (i + 1) (le_refl _) (by omega), hu (i + 1) (le_refl _) (by omega), if_pos rfl, ← hgh]; ring
  refine ⟨hW1, hrvs, ?_, hrv, Or.inr ?_, ?_, ?_, fun hc => by omega⟩
  · intro a b hab
    rw [hW2, if_neg (by omega), hPe, if_neg (by omega), if_neg (by omega)]
  · have e : ∀ b ∈ Icc (i + 1) n, @mg K 𝕊 (@hr_scaleRow K 𝕊 P i n sc) i b * @mg K 𝕊 (@hr_scaleRow K 𝕊 P i n sc) i b
        = (sc * sc) * (u b * u b) := by
      intro b hb
      rw [Finset.mem_Icc] at hb
      rw [hrow b hb.1 hb.2]; ring
    rw [Finset.sum_congr rfl e, ← Finset.mul_sum, S1, hβ]; ring
  · intro a b ha1 ha2 hb1 hb2
    have e : ∑ c ∈ Icc (i + 1) n, @mg K 𝕊 U a c * @mg K 𝕊 (@hr_scaleRow K 𝕊 P i n sc) i c
        = (∑ c ∈ Icc (i + 1) n, @mg K 𝕊 U a c * u c) * sc := by
      rw [Finset.sum_mul]
      refine Finset.sum_congr rfl fun c hc => ?_
      rw [Finset.mem_Icc] at hc
      rw [hrow c hc.1 hc.2]; ring
    rw [hoth a b (by omega), hPe, if_neg (by omega), if_pos ⟨ha1, ha2, hb1, hb2⟩, hβ, hrow b hb1 hb2, e]
    field_simp
  · intro b hb1 hb2
    have e : ∑ c ∈ Icc (i + 1) n, @mg K 𝕊 U i c * @mg K 𝕊 (@hr_scaleRow K 𝕊 P i n sc) i c
        = (sc * sc) * ∑ c ∈ Icc (i + 1) n, xt c * u c := by
      rw [Finset.mul_sum]
      refine Finset.sum_congr rfl fun c hc => ?_
      rw [Finset.mem_Icc] at hc
      rw [hrow c hc.1 hc.2, hx c hc.1 hc.2]; ring
    rw [hβ, hrow b hb1 hb2, hx b hb1 hb2, e, S2, hu b hb1 hb2]
    by_cases hbL : b = i + 1
    · rw [if_pos hbL, if_pos hbL]; field_simp; ring
    · rw [if_neg hbL, if_neg hbL]; field_simp; ring

/-- the part of `hhRow` after the choice of the sign of `g` -/
theorem hr_tail_post {m n i : Nat} (U U1 : DMat K) (rv1 : Array K) (sc s g : K)
    (hU : MWF m n U) (hU1 : MWF m n U1) (hv : rv1.size = n) (hi1 : 1 ≤ i) (him : i ≤ m) (hin : i < n)
    (hrel : ∀ a b, @mg K 𝕊 U1 a b
      = if a = i ∧ i + 1 ≤ b ∧ b ≤ n then @mg K 𝕊 U a b / sc else @mg K 𝕊 U a b)
    (hs : s = ∑ c ∈ Icc (i + 1) n, @mg K 𝕊 U1 i c * @mg K 𝕊 U1 i c)
    (hsc : sc ≠ 0) (hg : g * g = s) (hh : @mg K 𝕊 U1 i (i + 1) * g - s ≠ 0) :
    HhRowPost sq m n i U (@hr_tailV K 𝕊 m n i U1 rv1 sc s g).1 rv1 (@hr_tailV K 𝕊 m n i U1 rv1 sc s g).2.1 (sc * g) := by
  have hU2 : MWF m n (ms U1 i (i + 1) (@mg K 𝕊 U1 i (i + 1) - g)) := @MWF.ms K 𝕊 _ _ _ hU1 _ _ _
  have hU2e : ∀ a b, @mg K 𝕊 (ms U1 i (i + 1) (@mg K 𝕊 U1 i (i + 1) - g)) a b
      = if a = i ∧ b = i + 1 then @mg K 𝕊 U1 i (i + 1) - g else @mg K 𝕊 U1 a b :=
    fun a b => @mg_ms_in K 𝕊 _ _ _ hU1 _ _ hi1 him (by omega) (by omega) a b _
  obtain ⟨hr1, hr2⟩ := hr_scratch_spec sq (ms U1 i (i + 1) (@mg K 𝕊 U1 i (i + 1) - g)) i
    (@mg K 𝕊 U1 i (i + 1) * g - s) rv1 hv hin.le
  -- the state after the loop over the rows
  have hp : ∀ p : DMat K × K,
      p = (if i ≠ m then @hr_rowsLoop K 𝕊 m n i (ms U1 i (i + 1) (@mg K 𝕊 U1 i (i + 1) - g)) s
              (@hr_scratch K 𝕊 (ms U1 i (i + 1) (@mg K 𝕊 U1 i (i + 1) - g)) i n (@mg K 𝕊 U1 i (i + 1) * g - s) rv1)
            else (ms U1 i (i + 1) (@mg K 𝕊 U1 i (i + 1) - g), s)) →
      MWF m n p.1 ∧ ∀ a b, @mg K 𝕊 p.1 a b =
        if a = i ∧ i + 1 ≤ b ∧ b ≤ n then @mg K 𝕊 (ms U1 i (i + 1) (@mg K 𝕊 U1 i (i + 1) - g)) i b
        else if i + 1 ≤ a ∧ a ≤ m ∧ i + 1 ≤ b ∧ b ≤ n then
          @mg K 𝕊 U a b + (∑ c ∈ Icc (i + 1) n, @mg K 𝕊 U a c
              * @mg K 𝕊 (ms U1 i (i + 1) (@mg K 𝕊 U1 i (i + 1) - g)) i c)
            * (@mg K 𝕊 (ms U1 i (i + 1) (@mg K 𝕊 U1 i (i + 1) - g)) i b / (@mg K 𝕊 U1 i (i + 1) * g - s))
        else @mg K 𝕊 U a b := by
    intro p hp
    have hnoti : ∀ a b, a ≠ i → @mg K 𝕊 (ms U1 i (i + 1) (@mg K 𝕊 U1 i (i + 1) - g)) a b = @mg K 𝕊 U a b := by
      intro a b ha
      rw [hU2e, if_neg (fun hc => ha hc.1), hrel, if_neg (fun hc => ha hc.1)]
    have hout : ∀ a b, ¬ (a = i ∧ i + 1 ≤ b ∧ b ≤ n) →
        @mg K 𝕊 (ms U1 i (i + 1) (@mg K 𝕊 U1 i (i + 1) - g)) a b = @mg K 𝕊 U a b := by
      intro a b hab
      rw [hU2e, if_neg (by omega), hrel, if_neg hab]
    by_cases hm : i ≠ m
    · rw [if_pos hm] at hp
      obtain ⟨hq1, hq2⟩ := hr_rowsLoop_spec sq (ms U1 i (i + 1) (@mg K 𝕊 U1 i (i + 1) - g)) i s
        (@hr_scratch K 𝕊 (ms U1 i (i + 1) (@mg K 𝕊 U1 i (i + 1) - g)) i n (@mg K 𝕊 U1 i (i + 1) * g - s) rv1)
        hU2 hi1 him hin.le
      rw [← hp] at hq1 hq2
      refine ⟨hq1, fun a b => ?_⟩
      rw [hq2]
      by_cases h1 : a = i ∧ i + 1 ≤ b ∧ b ≤ n
      · rw [if_pos h1, if_neg (by omega), h1.1]
      · rw [if_neg h1]
        by_cases h2 : i + 1 ≤ a ∧ a ≤ m ∧ i + 1 ≤ b ∧ b ≤ n
        · rw [if_pos h2, if_pos h2, hnoti a b (by omega), hr2, if_pos ⟨h2.2.2.1, h2.2.2.2⟩]
          congr 2
          refine Finset.sum_congr rfl fun c _ => ?_
          rw [hnoti a c (by omega)]
        · rw [if_neg h2, if_neg h2, hout a b h1]
    · rw [if_neg hm] at hp
      subst hp
      refine ⟨hU2, fun a b => ?_⟩
      show @mg K 𝕊 (ms U1 i (i + 1) (@mg K 𝕊 U1 i (i + 1) - g)) a b = _
      by_cases h1 : a = i ∧ i + 1 ≤ b ∧ b ≤ n
      · rw [if_pos h1, h1.1]
      · rw [if_neg h1, if_neg (by omega), hout a b h1]
  obtain ⟨hp1, hp2⟩ := hp _ rfl
  obtain ⟨S1, S2⟩ := hr_alg (fun c => @mg K 𝕊 U1 i c) (i + 1) n (by omega) g s hs hg
  have hu : ∀ c, i + 1 ≤ c → c ≤ n → @mg K 𝕊 (ms U1 i (i + 1) (@mg K 𝕊 U1 i (i + 1) - g)) i c
      = @mg K 𝕊 U1 i c - if c = i + 1 then g else 0 := by
    intro c hc1 hc2
    rw [hU2e]
    by_cases hc : c = i + 1
    · rw [if_pos ⟨rfl, hc⟩, if_pos hc, hc]
    · rw [if_neg (fun h => hc h.2), if_neg hc, sub_zero]
  have S1' : ∑ c ∈ Icc (i + 1) n, @mg K 𝕊 (ms U1 i (i + 1) (@mg K 𝕊 U1 i (i + 1) - g)) i c
      * @mg K 𝕊 (ms U1 i (i + 1) (@mg K 𝕊 U1 i (i + 1) - g)) i c = -2 * (@mg K 𝕊 U1 i (i + 1) * g - s) := by
    rw [← S1]
    refine Finset.sum_congr rfl fun c hc => ?_
    rw [Finset.mem_Icc] at hc
    rw [hu c hc.1 hc.2]
  have S2' : ∑ c ∈ Icc (i + 1) n, @mg K 𝕊 U1 i c
      * @mg K 𝕊 (ms U1 i (i + 1) (@mg K 𝕊 U1 i (i + 1) - g)) i c = -(@mg K 𝕊 U1 i (i + 1) * g - s) := by
    rw [← S2]
    refine Finset.sum_congr rfl fun c hc => ?_
    rw [Finset.mem_Icc] at hc
    rw [hu c hc.1 hc.2]
  exact hr_final_post sq U _ rv1 _ sc g (@mg K 𝕊 U1 i (i + 1) * g - s)
    (fun c => @mg K 𝕊 (ms U1 i (i + 1) (@mg K 𝕊 U1 i (i + 1) - g)) i c) (fun c => @mg K 𝕊 U1 i c)
    hU hp1 hi1 him hin hr1 (fun c hc => (hr2 c).trans (if_neg (by omega))) hp2
    (fun c hc1 hc2 => by
      show @mg K 𝕊 U i c = @mg K 𝕊 U1 i c * sc
      rw [hrel, if_pos ⟨rfl, hc1, hc2⟩]; field_simp)
    hu S1' S2' hh hsc (by rw [← hg]; ring)

/-- **right Householder half-step** -/
theorem hhRow_stmt : HhRowStmt sq := by
  intro hsq hsq0 m n i U rv1 f0 h0 r hU hv hi1 hin h
  rw [@hr_hhRow_eq K 𝕊] at h
  have hr := ok_inj h
  subst hr
  unfold hr_hhRowV
  by_cases h1 : i ≤ m ∧ i ≠ n
  · rw [if_pos h1]
    obtain ⟨him, hne⟩ := h1
    have hlt : i < n := by omega
    have hsum := hr_absSum_eq sq U i n hin
    by_cases h2 : @nz K 𝕊 (@hr_absSum K 𝕊 U i n) = true
    · rw [if_pos h2]
      have hsc : @hr_absSum K 𝕊 U i n ≠ 0 := (nz_iff sq _).mp h2
      obtain ⟨hD1, hD2, hD3⟩ := hr_divAcc_spec sq U i (@hr_absSum K 𝕊 U i n) hU hi1 him hin
      have hs : (@hr_divAcc K 𝕊 U i n (@hr_absSum K 𝕊 U i n)).2 = ∑ c ∈ Icc (i + 1) n,
          @mg K 𝕊 (@hr_divAcc K 𝕊 U i n (@hr_absSum K 𝕊 U i n)).1 i c
            * @mg K 𝕊 (@hr_divAcc K 𝕊 U i n (@hr_absSum K 𝕊 U i n)).1 i c := by
        rw [hD3]
        refine Finset.sum_congr rfl fun c hc => ?_
        rw [Finset.mem_Icc] at hc
        rw [hD2, if_pos ⟨rfl, hc.1, hc.2⟩]
      have hspos : 0 < (@hr_divAcc K 𝕊 U i n (@hr_absSum K 𝕊 U i n)).2 := by
        rw [hD3]
        have hex : ∃ k ∈ Icc (i + 1) n, @mg K 𝕊 U i k ≠ 0 := by
          by_contra hcon
          apply hsc
          rw [hsum]
          refine Finset.sum_eq_zero fun k hk => ?_
          have : @mg K 𝕊 U i k = 0 := by
            by_contra h0
            exact hcon ⟨k, hk, h0⟩
          rw [this, abs_zero]
        obtain ⟨k, hk, hk0⟩ := hex
        refine Finset.sum_pos' (fun c _ => mul_self_nonneg _) ⟨k, hk, ?_⟩
        exact mul_self_pos.mpr (div_ne_zero hk0 hsc)
      have hsqs := hsq _ hspos.le
      have hsq0s := hsq0 _ hspos.le
      by_cases h3 : (0 : K) ≤ @mg K 𝕊 (@hr_divAcc K 𝕊 U i n (@hr_absSum K 𝕊 U i n)).1 i (i + 1)
      · rw [if_pos h3]
        exact hr_tail_post sq U _ rv1 _ _ (-sq (@hr_divAcc K 𝕊 U i n (@hr_absSum K 𝕊 U i n)).2) hU hD1 hv hi1 him hlt hD2 hs hsc
          (by rw [neg_mul_neg, hsqs])
          (by
            have : @mg K 𝕊 (@hr_divAcc K 𝕊 U i n (@hr_absSum K 𝕊 U i n)).1 i (i + 1)
                * sq (@hr_divAcc K 𝕊 U i n (@hr_absSum K 𝕊 U i n)).2 ≥ 0 := mul_nonneg h3 hsq0s
            apply ne_of_lt
            rw [mul_neg]
            linarith)
      · rw [if_neg h3]
        exact hr_tail_post sq U _ rv1 _ _ (sq (@hr_divAcc K 𝕊 U i n (@hr_absSum K 𝕊 U i n)).2) hU hD1 hv hi1 him hlt hD2 hs hsc
          hsqs
          (by
            have : @mg K 𝕊 (@hr_divAcc K 𝕊 U i n (@hr_absSum K 𝕊 U i n)).1 i (i + 1)
                * sq (@hr_divAcc K 𝕊 U i n (@hr_absSum K 𝕊 U i n)).2 ≤ 0 :=
              mul_nonpos_of_nonpos_of_nonneg (not_le.mp h3).le hsq0s
            apply ne_of_lt
            linarith)
    · rw [if_neg h2]
      have hsc : @hr_absSum K 𝕊 U i n = 0 := (nz_false_iff sq _).mp (by simpa using h2)
      refine hr_trivial_post sq U rv1 _ ?_ hU hv ?_
      · show @hr_absSum K 𝕊 U i n * 0 = 0
        rw [mul_zero]
      · intro b hb1 hb2
        rw [hsum] at hsc
        have := (Finset.sum_eq_zero_iff_of_nonneg (fun k _ => abs_nonneg _)).mp hsc b
          (Finset.mem_Icc.mpr ⟨hb1, hb2⟩)
        exact abs_eq_zero.mp this
  · rw [if_neg h1]
    refine hr_trivial_post sq U rv1 _ ?_ hU hv ?_
    · show (0 : K) * 0 = 0
      rw [mul_zero]
    · intro b hb1 hb2
      exact @mg_out K 𝕊 _ _ _ hU _ _ (by omega)

end Gama.Ls.Svd
