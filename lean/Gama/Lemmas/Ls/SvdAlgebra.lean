/-
  Algebra of the svd solver's answers from the factorisation CERTIFICATE (pure Mathlib, no model).

  `Cert A U W iw V` : `A = U diag(W) Vᵀ`, `VᵀV = 1`, the columns of `U` that belong to non-null
  singular values are orthonormal, `iw` is the exact pseudo-inverse of `W` (`iw i = 0` when
  `W i = 0`, else `1 / W i`).  Nothing is assumed about the null columns of `U`.

  With `D = diag W`, `D⁺ = diag iw`, `E = D D⁺` (0/1 diagonal) and ANY `V'` whose non-null columns
  differ from those of `V` by kernel vectors (`A V' E = A V E`; `V' = V` for `min_x()`, the
  output of `min_subset_x` for `min_x(n, list)`):
    x' = V' D⁺ Uᵀ b                 solves the normal equations            (`normal_eq`)
    Q' = V' D⁺ D⁺ V'ᵀ               symmetric PSD, N Q' N = N, Q' N Q' = Q' (`Q_*`)
    U E Uᵀ = A Q' Aᵀ                symmetric idempotent                   (`qbb_eq`, …)
    U D⁺ V'ᵀ = A Q'                                                         (`qbx_eq`)
    trace E = rank A                                                        (`rank_eq`)
  and the kernel of `A` is spanned by the null columns of `V` (`ker_span`).
-/
import Gama.Lemmas.LS
import Mathlib.LinearAlgebra.Matrix.NonsingularInverse
import Mathlib.Tactic.Ring
import Mathlib.Tactic.Linarith

namespace Gama.Ls.Svd
open Matrix Finset Gama.LS

set_option linter.unusedSectionVars false
set_option linter.unusedVariables false
set_option linter.unusedSimpArgs false

variable {K : Type} [Field K]
variable {m n : Type} [Fintype m] [Fintype n] [DecidableEq n] [DecidableEq m]

/-- the factorisation certificate -/
structure Cert (A U : Matrix m n K) (W iw : n → K) (V : Matrix n n K) : Prop where
  fact : A = U * diagonal W * Vᵀ
  vtv : Vᵀ * V = 1
  utu : ∀ i j, iw i ≠ 0 → iw j ≠ 0 → (Uᵀ * U) i j = if i = j then 1 else 0
  pinv : ∀ i, (W i = 0 ∧ iw i = 0) ∨ (W i ≠ 0 ∧ iw i = (W i)⁻¹)

/-- the 0/1 indicator of the non-null singular values -/
def ee (W iw : n → K) : n → K := fun i => W i * iw i

section cert
variable {A U : Matrix m n K} {W iw : n → K} {V : Matrix n n K} (hc : Cert A U W iw V)
include hc

theorem ee_null {i : n} (h : iw i = 0) : ee W iw i = 0 := by simp [ee, h]

theorem ee_nonnull {i : n} (h : iw i ≠ 0) : ee W iw i = 1 := by
  rcases hc.pinv i with ⟨_, h0⟩ | ⟨hw, hi⟩
  · exact absurd h0 h
  · simp [ee, hi, hw]

theorem ee_cases (i : n) : (iw i = 0 ∧ ee W iw i = 0) ∨ (iw i ≠ 0 ∧ ee W iw i = 1) := by
  by_cases h : iw i = 0
  · exact Or.inl ⟨h, ee_null hc h⟩
  · exact Or.inr ⟨h, ee_nonnull hc h⟩

theorem W_null {i : n} (h : iw i = 0) : W i = 0 := by
  rcases hc.pinv i with ⟨hw, _⟩ | ⟨hw, hi⟩
  · exact hw
  · rw [hi] at h; exact absurd (inv_eq_zero.mp h) hw

theorem D_Dp : diagonal W * diagonal iw = diagonal (ee W iw) := by
  rw [diagonal_mul_diagonal]; rfl

theorem Dp_D : diagonal iw * diagonal W = diagonal (ee W iw) := by
  rw [diagonal_mul_diagonal]; congr 1; funext i; simp [ee, mul_comm]

theorem E_D : diagonal (ee W iw) * diagonal W = diagonal W := by
  rw [diagonal_mul_diagonal]; congr 1; funext i
  rcases ee_cases hc i with ⟨h, he⟩ | ⟨h, he⟩
  · rw [he, W_null hc h]; simp
  · rw [he]; simp

theorem D_E : diagonal W * diagonal (ee W iw) = diagonal W := by
  rw [diagonal_mul_diagonal]; congr 1; funext i
  rcases ee_cases hc i with ⟨h, he⟩ | ⟨h, he⟩
  · rw [he, W_null hc h]; simp
  · rw [he]; simp

theorem E_Dp : diagonal (ee W iw) * diagonal iw = diagonal iw := by
  rw [diagonal_mul_diagonal]; congr 1; funext i
  rcases ee_cases hc i with ⟨h, he⟩ | ⟨h, he⟩
  · rw [he, h]; simp
  · rw [he]; simp

theorem Dp_E : diagonal iw * diagonal (ee W iw) = diagonal iw := by
  rw [diagonal_mul_diagonal]; congr 1; funext i
  rcases ee_cases hc i with ⟨h, he⟩ | ⟨h, he⟩
  · rw [he, h]; simp
  · rw [he]; simp

theorem E_E : diagonal (ee W iw) * diagonal (ee W iw) = diagonal (ee W iw) := by
  rw [diagonal_mul_diagonal]; congr 1; funext i
  rcases ee_cases hc i with ⟨h, he⟩ | ⟨h, he⟩ <;> rw [he] <;> simp

theorem E_UtU_E : diagonal (ee W iw) * (Uᵀ * U) * diagonal (ee W iw) = diagonal (ee W iw) := by
  ext i j
  rw [mul_diagonal, diagonal_mul]
  rcases ee_cases hc i with ⟨hi, hei⟩ | ⟨hi, hei⟩
  · rw [hei]; by_cases hij : i = j
    · subst hij; simp [hei]
    · simp [hij]
  · rcases ee_cases hc j with ⟨hj, hej⟩ | ⟨hj, hej⟩
    · rw [hej]; by_cases hij : i = j
      · subst hij; simp [hej]
      · simp [diagonal_apply_ne _ hij]
    · rw [hei, hej, hc.utu i j hi hj]
      by_cases hij : i = j
      · subst hij; simp [hei]
      · simp [hij, diagonal_apply_ne _ hij]

theorem vvt : V * Vᵀ = 1 := mul_eq_one_comm.mp hc.vtv

theorem At_eq : Aᵀ = V * diagonal W * Uᵀ := by
  rw [hc.fact, transpose_mul, transpose_mul, transpose_transpose, diagonal_transpose, Matrix.mul_assoc]

/-- `D UᵀU D = D D` -/
theorem D_UtU_D : diagonal W * (Uᵀ * U) * diagonal W = diagonal W * diagonal W := by
  calc diagonal W * (Uᵀ * U) * diagonal W
      = (diagonal W * diagonal (ee W iw)) * (Uᵀ * U) * (diagonal (ee W iw) * diagonal W) := by
        rw [D_E hc, E_D hc]
    _ = diagonal W * (diagonal (ee W iw) * (Uᵀ * U) * diagonal (ee W iw)) * diagonal W := by
        simp only [Matrix.mul_assoc]
    _ = diagonal W * diagonal W := by rw [E_UtU_E hc, D_E hc]

/-- `A V = U D` -/
theorem A_V : A * V = U * diagonal W := by
  rw [hc.fact, Matrix.mul_assoc, hc.vtv, Matrix.mul_one]

theorem A_V_E : A * V * diagonal (ee W iw) = U * diagonal W := by
  rw [A_V hc, Matrix.mul_assoc, D_E hc]

/-- the normal matrix `AᵀA = V D D Vᵀ` -/
theorem N_eq : Aᵀ * A = V * (diagonal W * diagonal W) * Vᵀ := by
  rw [At_eq hc]
  conv_lhs => rw [hc.fact]
  calc V * diagonal W * Uᵀ * (U * diagonal W * Vᵀ)
      = V * (diagonal W * (Uᵀ * U) * diagonal W) * Vᵀ := by simp only [Matrix.mul_assoc]
    _ = V * (diagonal W * diagonal W) * Vᵀ := by rw [D_UtU_D hc]

theorem N_symm : (Aᵀ * A)ᵀ = Aᵀ * A := by
  rw [transpose_mul, transpose_transpose]

/-! ### everything below: `V'` with `A V' E = A V E` -/

variable {V' : Matrix n n K}

/-- `A (V' E) = U D` -/
theorem A_B (h1 : A * V' * diagonal (ee W iw) = A * V * diagonal (ee W iw)) :
    A * (V' * diagonal (ee W iw)) = U * diagonal W := by
  rw [← Matrix.mul_assoc, h1, A_V_E hc]

/-- the adjusted observations `A x' = U E Uᵀ b` -/
theorem A_x (h1 : A * V' * diagonal (ee W iw) = A * V * diagonal (ee W iw)) (b : m → K) :
    A *ᵥ (V' *ᵥ (diagonal iw *ᵥ (Uᵀ *ᵥ b))) = (U * diagonal (ee W iw) * Uᵀ) *ᵥ b := by
  have : diagonal iw = diagonal (ee W iw) * diagonal iw := (E_Dp hc).symm
  rw [this]
  simp only [mulVec_mulVec]
  congr 1
  calc A * (V' * (diagonal (ee W iw) * diagonal iw * Uᵀ))
      = A * (V' * diagonal (ee W iw)) * diagonal iw * Uᵀ := by simp only [Matrix.mul_assoc]
    _ = U * diagonal W * diagonal iw * Uᵀ := by rw [A_B hc h1]
    _ = U * diagonal (ee W iw) * Uᵀ := by rw [Matrix.mul_assoc U, D_Dp hc]

/-- `Aᵀ (U E Uᵀ) = Aᵀ` -/
theorem At_hat : Aᵀ * (U * diagonal (ee W iw) * Uᵀ) = Aᵀ := by
  rw [At_eq hc]
  calc V * diagonal W * Uᵀ * (U * diagonal (ee W iw) * Uᵀ)
      = V * ((diagonal W * diagonal (ee W iw)) * (Uᵀ * U) * diagonal (ee W iw)) * Uᵀ := by
        rw [D_E hc]; simp only [Matrix.mul_assoc]
    _ = V * (diagonal W * (diagonal (ee W iw) * (Uᵀ * U) * diagonal (ee W iw))) * Uᵀ := by
        simp only [Matrix.mul_assoc]
    _ = V * diagonal W * Uᵀ := by rw [E_UtU_E hc, D_E hc]

/-- **normal equations** for `x' = V' D⁺ Uᵀ b` -/
theorem normal_eq (h1 : A * V' * diagonal (ee W iw) = A * V * diagonal (ee W iw)) (b : m → K) :
    (Aᵀ * (1 : Matrix m m K) * A) *ᵥ (V' *ᵥ (diagonal iw *ᵥ (Uᵀ *ᵥ b))) = Aᵀ *ᵥ ((1 : Matrix m m K) *ᵥ b) := by
  rw [Matrix.mul_one, one_mulVec, ← mulVec_mulVec, A_x hc h1, mulVec_mulVec, At_hat hc]

/-- the kernel of `A` is spanned by the null columns of `V` -/
theorem ker_span (g : n → K) (hg : A *ᵥ g = 0) :
    ∃ c : n → K, (∀ j, iw j ≠ 0 → c j = 0) ∧ g = V *ᵥ c := by
  refine ⟨Vᵀ *ᵥ g, ?_, ?_⟩
  · -- E Vᵀ g = D⁺ E Uᵀ (A g) = 0
    have h0 : (diagonal iw * diagonal (ee W iw) * Uᵀ * A) *ᵥ g = 0 := by
      rw [← mulVec_mulVec, hg, mulVec_zero]
    have h2 : diagonal iw * diagonal (ee W iw) * Uᵀ * A = diagonal (ee W iw) * Vᵀ := by
      conv_lhs => rw [hc.fact]
      calc diagonal iw * diagonal (ee W iw) * Uᵀ * (U * diagonal W * Vᵀ)
          = diagonal iw * (diagonal (ee W iw) * (Uᵀ * U) * (diagonal (ee W iw) * diagonal W)) * Vᵀ := by
            rw [E_D hc]; simp only [Matrix.mul_assoc]
        _ = diagonal iw * ((diagonal (ee W iw) * (Uᵀ * U) * diagonal (ee W iw)) * diagonal W) * Vᵀ := by
            simp only [Matrix.mul_assoc]
        _ = diagonal (ee W iw) * Vᵀ := by
            rw [E_UtU_E hc, E_D hc, Dp_D hc]
    rw [h2, ← mulVec_mulVec] at h0
    intro j hj
    have := congrFun h0 j
    rw [mulVec_diagonal, ee_nonnull hc hj, one_mul] at this
    simpa using this
  · rw [mulVec_mulVec, vvt hc, one_mulVec]

/-- the null columns of `V` are in the kernel -/
theorem A_nullcol {k : n} (hk : iw k = 0) : A *ᵥ (fun i => V i k) = 0 := by
  have h : (fun i => V i k) = V *ᵥ (Pi.single k 1) := by
    funext i; simp [mulVec_single_one]
  rw [h, mulVec_mulVec, A_V hc]
  funext i
  simp [mulVec_single_one, W_null hc hk]

/-! ### cofactors -/

/-- `Q' = V' D⁺ D⁺ V'ᵀ` written with `B = V' E` -/
theorem Q_eq_B : V' * (diagonal iw * diagonal iw) * V'ᵀ
    = (V' * diagonal (ee W iw)) * (diagonal iw * diagonal iw) * (V' * diagonal (ee W iw))ᵀ := by
  rw [transpose_mul, diagonal_transpose]
  calc V' * (diagonal iw * diagonal iw) * V'ᵀ
      = V' * ((diagonal (ee W iw) * diagonal iw) * (diagonal iw * diagonal (ee W iw))) * V'ᵀ := by
        rw [E_Dp hc, Dp_E hc]
    _ = _ := by simp only [Matrix.mul_assoc]

theorem N_B (h1 : A * V' * diagonal (ee W iw) = A * V * diagonal (ee W iw)) :
    Aᵀ * A * (V' * diagonal (ee W iw)) = V * (diagonal W * diagonal W) := by
  rw [Matrix.mul_assoc, A_B hc h1, At_eq hc]
  calc V * diagonal W * Uᵀ * (U * diagonal W) = V * (diagonal W * (Uᵀ * U) * diagonal W) := by
        simp only [Matrix.mul_assoc]
    _ = _ := by rw [D_UtU_D hc]

theorem Bt_N (h1 : A * V' * diagonal (ee W iw) = A * V * diagonal (ee W iw)) :
    (V' * diagonal (ee W iw))ᵀ * (Aᵀ * A) = (diagonal W * diagonal W) * Vᵀ := by
  have := congrArg transpose (N_B hc h1)
  rw [transpose_mul, N_symm hc] at this
  rw [this, transpose_mul, transpose_mul, diagonal_transpose]

theorem Bt_N_B (h1 : A * V' * diagonal (ee W iw) = A * V * diagonal (ee W iw)) :
    (V' * diagonal (ee W iw))ᵀ * (Aᵀ * A) * (V' * diagonal (ee W iw)) = diagonal W * diagonal W := by
  have key : ∀ B : Matrix n n K, Bᵀ * (Aᵀ * A) * B = (A * B)ᵀ * (A * B) := by
    intro B; rw [transpose_mul]; simp only [Matrix.mul_assoc]
  rw [key, A_B hc h1, transpose_mul, diagonal_transpose]
  calc diagonal W * Uᵀ * (U * diagonal W) = diagonal W * (Uᵀ * U) * diagonal W := by
        simp only [Matrix.mul_assoc]
    _ = _ := D_UtU_D hc

/-- `D D D⁺ D⁺ D D = D D` -/
theorem DD_PP_DD : (diagonal W * diagonal W) * (diagonal iw * diagonal iw) * (diagonal W * diagonal W)
    = diagonal W * diagonal W := by
  calc (diagonal W * diagonal W) * (diagonal iw * diagonal iw) * (diagonal W * diagonal W)
      = diagonal W * ((diagonal W * diagonal iw) * (diagonal iw * diagonal W)) * diagonal W := by
        simp only [Matrix.mul_assoc]
    _ = diagonal W * diagonal W := by rw [D_Dp hc, Dp_D hc, E_E hc, D_E hc]

/-- `D⁺ D⁺ D D D⁺ D⁺ = D⁺ D⁺` -/
theorem PP_DD_PP : (diagonal iw * diagonal iw) * (diagonal W * diagonal W) * (diagonal iw * diagonal iw)
    = diagonal iw * diagonal iw := by
  calc (diagonal iw * diagonal iw) * (diagonal W * diagonal W) * (diagonal iw * diagonal iw)
      = diagonal iw * ((diagonal iw * diagonal W) * (diagonal W * diagonal iw)) * diagonal iw := by
        simp only [Matrix.mul_assoc]
    _ = diagonal iw * diagonal iw := by rw [D_Dp hc, Dp_D hc, E_E hc, Dp_E hc]

/-- **C03** `N Q' N = N` -/
theorem Q_ginv (h1 : A * V' * diagonal (ee W iw) = A * V * diagonal (ee W iw)) :
    (Aᵀ * A) * (V' * (diagonal iw * diagonal iw) * V'ᵀ) * (Aᵀ * A) = Aᵀ * A := by
  rw [Q_eq_B hc]
  calc Aᵀ * A * (V' * diagonal (ee W iw) * (diagonal iw * diagonal iw) * (V' * diagonal (ee W iw))ᵀ) * (Aᵀ * A)
      = (Aᵀ * A * (V' * diagonal (ee W iw))) * (diagonal iw * diagonal iw)
          * ((V' * diagonal (ee W iw))ᵀ * (Aᵀ * A)) := by simp only [Matrix.mul_assoc]
    _ = V * ((diagonal W * diagonal W) * (diagonal iw * diagonal iw) * (diagonal W * diagonal W)) * Vᵀ := by
        rw [N_B hc h1, Bt_N hc h1]; simp only [Matrix.mul_assoc]
    _ = Aᵀ * A := by rw [DD_PP_DD hc, N_eq hc]

/-- **C03** `Q' N Q' = Q'` -/
theorem Q_refl (h1 : A * V' * diagonal (ee W iw) = A * V * diagonal (ee W iw)) :
    (V' * (diagonal iw * diagonal iw) * V'ᵀ) * (Aᵀ * A) * (V' * (diagonal iw * diagonal iw) * V'ᵀ)
      = V' * (diagonal iw * diagonal iw) * V'ᵀ := by
  rw [Q_eq_B hc]
  calc (V' * diagonal (ee W iw)) * (diagonal iw * diagonal iw) * (V' * diagonal (ee W iw))ᵀ * (Aᵀ * A)
        * ((V' * diagonal (ee W iw)) * (diagonal iw * diagonal iw) * (V' * diagonal (ee W iw))ᵀ)
      = (V' * diagonal (ee W iw)) * ((diagonal iw * diagonal iw)
          * ((V' * diagonal (ee W iw))ᵀ * (Aᵀ * A) * (V' * diagonal (ee W iw)))
          * (diagonal iw * diagonal iw)) * (V' * diagonal (ee W iw))ᵀ := by simp only [Matrix.mul_assoc]
    _ = _ := by rw [Bt_N_B hc h1, PP_DD_PP hc]

omit hc in
/-- **C03** `Q'` symmetric -/
theorem Q_symm (V' : Matrix n n K) (iw : n → K) :
    (V' * (diagonal iw * diagonal iw) * V'ᵀ)ᵀ = V' * (diagonal iw * diagonal iw) * V'ᵀ := by
  simp only [transpose_mul, transpose_transpose, diagonal_transpose, Matrix.mul_assoc]

omit hc in
/-- **C03** `Q'` positive semi-definite -/
theorem Q_psd [LinearOrder K] [IsStrictOrderedRing K] (V' : Matrix n n K) (iw : n → K) (d : n → K) :
    0 ≤ d ⬝ᵥ (V' * (diagonal iw * diagonal iw) * V'ᵀ) *ᵥ d := by
  have : V' * (diagonal iw * diagonal iw) * V'ᵀ = ((V' * diagonal iw)ᵀ)ᵀ * (V' * diagonal iw)ᵀ := by
    rw [transpose_transpose, transpose_mul, diagonal_transpose]; simp only [Matrix.mul_assoc]
  rw [this]; exact gram_psd _ d

/-- **C03** `q_bb`: `U E Uᵀ = A Q' Aᵀ` -/
theorem qbb_eq (h1 : A * V' * diagonal (ee W iw) = A * V * diagonal (ee W iw)) :
    U * diagonal (ee W iw) * Uᵀ = A * (V' * (diagonal iw * diagonal iw) * V'ᵀ) * Aᵀ := by
  rw [Q_eq_B hc]
  symm
  calc A * ((V' * diagonal (ee W iw)) * (diagonal iw * diagonal iw) * (V' * diagonal (ee W iw))ᵀ) * Aᵀ
      = (A * (V' * diagonal (ee W iw))) * (diagonal iw * diagonal iw) * (A * (V' * diagonal (ee W iw)))ᵀ := by
        rw [transpose_mul (A)]; simp only [Matrix.mul_assoc]
    _ = U * ((diagonal W * diagonal iw) * (diagonal iw * diagonal W)) * Uᵀ := by
        rw [A_B hc h1, transpose_mul, diagonal_transpose]; simp only [Matrix.mul_assoc]
    _ = U * diagonal (ee W iw) * Uᵀ := by rw [D_Dp hc, Dp_D hc, E_E hc]

/-- **C03** `q_bb` is a symmetric projector -/
theorem qbb_symm : (U * diagonal (ee W iw) * Uᵀ)ᵀ = U * diagonal (ee W iw) * Uᵀ := by
  rw [transpose_mul, transpose_mul, transpose_transpose, diagonal_transpose, Matrix.mul_assoc]

theorem qbb_idem : (U * diagonal (ee W iw) * Uᵀ) * (U * diagonal (ee W iw) * Uᵀ) = U * diagonal (ee W iw) * Uᵀ := by
  calc (U * diagonal (ee W iw) * Uᵀ) * (U * diagonal (ee W iw) * Uᵀ)
      = U * (diagonal (ee W iw) * (Uᵀ * U) * diagonal (ee W iw)) * Uᵀ := by simp only [Matrix.mul_assoc]
    _ = _ := by rw [E_UtU_E hc]

/-- **C03** `q_bx`: `U D⁺ V'ᵀ = A Q'` -/
theorem qbx_eq (h1 : A * V' * diagonal (ee W iw) = A * V * diagonal (ee W iw)) :
    U * diagonal iw * V'ᵀ = A * (V' * (diagonal iw * diagonal iw) * V'ᵀ) := by
  symm
  calc A * (V' * (diagonal iw * diagonal iw) * V'ᵀ)
      = A * (V' * ((diagonal (ee W iw) * diagonal iw) * diagonal iw) * V'ᵀ) := by rw [E_Dp hc]
    _ = (A * (V' * diagonal (ee W iw))) * diagonal iw * diagonal iw * V'ᵀ := by simp only [Matrix.mul_assoc]
    _ = U * ((diagonal W * diagonal iw) * diagonal iw) * V'ᵀ := by
        rw [A_B hc h1]; simp only [Matrix.mul_assoc]
    _ = U * diagonal iw * V'ᵀ := by rw [D_Dp hc, E_Dp hc]

/-- regular case: `Q₀ N = 1` -/
theorem Q0_N (hreg : ∀ i, iw i ≠ 0) :
    V * (diagonal iw * diagonal iw) * Vᵀ * (Aᵀ * A) = 1 := by
  have hE : diagonal (ee W iw) = (1 : Matrix n n K) := by
    rw [← diagonal_one]; congr 1; funext i; exact ee_nonnull hc (hreg i)
  rw [N_eq hc]
  calc V * (diagonal iw * diagonal iw) * Vᵀ * (V * (diagonal W * diagonal W) * Vᵀ)
      = V * (diagonal iw * ((diagonal iw * diagonal W) * diagonal W)) * (Vᵀ * V) * Vᵀ := by
        rw [hc.vtv]; simp only [Matrix.mul_assoc, Matrix.one_mul]; rw [← Matrix.mul_assoc Vᵀ V, hc.vtv, Matrix.one_mul]
    _ = 1 := by rw [Dp_D hc, E_D hc, Dp_D hc, hE, hc.vtv, Matrix.mul_one, Matrix.mul_one, vvt hc]

/-- regular case: the normal matrix is invertible -/
theorem N_isUnit (hreg : ∀ i, iw i ≠ 0) : IsUnit (Aᵀ * A).det :=
  Matrix.isUnit_det_of_left_inverse (Q0_N hc hreg)

/-- **C03** regular case: `Q = N⁻¹` -/
theorem Q_inv (hreg : ∀ i, iw i ≠ 0) :
    V * (diagonal iw * diagonal iw) * Vᵀ = (Aᵀ * A)⁻¹ :=
  (Matrix.inv_eq_left_inv (Q0_N hc hreg)).symm

/-- **C20** `trace E = rank A` -/
theorem rank_eq [LinearOrder K] [IsStrictOrderedRing K] : ∑ i, ee W iw i = (A.rank : K) := by
  have h1 : A * V * diagonal (ee W iw) = A * V * diagonal (ee W iw) := rfl
  have hQ := Q_ginv hc h1
  rw [← hat_trace_eq_rank hQ, ← qbb_eq hc h1]
  have : U * diagonal (ee W iw) * Uᵀ = (U * diagonal (ee W iw)) * (U * diagonal (ee W iw))ᵀ := by
    rw [transpose_mul, diagonal_transpose]
    calc U * diagonal (ee W iw) * Uᵀ = U * (diagonal (ee W iw) * diagonal (ee W iw)) * Uᵀ := by rw [E_E hc]
      _ = _ := by simp only [Matrix.mul_assoc]
  rw [this, trace_mul_comm, transpose_mul, diagonal_transpose]
  have : diagonal (ee W iw) * Uᵀ * (U * diagonal (ee W iw)) = diagonal (ee W iw) := by
    calc diagonal (ee W iw) * Uᵀ * (U * diagonal (ee W iw))
        = diagonal (ee W iw) * (Uᵀ * U) * diagonal (ee W iw) := by simp only [Matrix.mul_assoc]
      _ = _ := E_UtU_E hc
  rw [this, trace_diagonal]

end cert

end Gama.Ls.Svd
