/-
  `Ex.pR` (Lemmas/Ls/GsoReal.lean; A = [1 1; 0 0], b = (1,1), one diagonal covariance block
  `⟨2, 0, #[1, 1]⟩`, S = {1}) through the WHOLE `envSolve` chain over ℝ with `Real.sqrt`:
  the hypotheses of `C02_same_gso_envsolve` (Props/C02EnvSolve.lean).  Over ℚ the global square-root
  law `IsSqrt` cannot hold, so this is the complete instance of that chain.

  * `BlockDiagonal::cholDec` on the unit block: pivots 1, 1 (`≥ 1e-14`), `√1 = 1`, the block is
    returned unchanged (`pR_bdChol`); the sweep divides by 1 (`pR_sweep`, `pR_homVec`);
    `homogenize pR = .ok ⟨pR.dense, pR.rhs, #[[1,2],[]]⟩` (`pR_homogenize_eq`);
  * reverse Cuthill–McKee on the pattern `#[[1,2],[]]` is the identity ordering (`pR_rcm`, ℕ only,
    kernel evaluation), so the envelope facts of ComposeJointExample.lean (`pR_factUnamb`,
    `pR_env_answers`, `pR_env_defect`) apply: `pR_solveUnamb`, `pR_envSolve`;
  * static input conditions `pR_input`, `pR_regList`; unit covariance `pR_C`.
-/
import Gama.Lemmas.Ls.ComposeJointExample
import Gama.Lemmas.Ls.ComposeEnvSolve
import Gama.Lemmas.Ls.AdjCov

namespace Gama.Ls.Gso.Ex
open Gama Gama.Ls Gama.LS Gama.Ls.Gso Gama.Ls.Env Gama.Ls.AdjM Matrix

set_option linter.unusedSimpArgs false

/-- the square-root carrier of the `envSolve` theorems at ℝ: the `SqrtField` one (`Real.sqrt`) -/
noncomputable local instance sqR2 : SqrtFn ℝ := ⟨SqrtField.sqrt⟩

theorem bdTol_lt_one : (Env.bdTol : ℝ) < 1 := by
  show (OfScientific.ofScientific 1 true 14 : ℝ) < 1
  norm_num
theorem bdTol_pos : (0:ℝ) < (Env.bdTol : ℝ) := by
  show 0 < (OfScientific.ofScientific 1 true 14 : ℝ)
  norm_num

theorem pR_bdChol : Cov.bdCholBlock (Env.bdTol : ℝ) ⟨2, 0, #[1, 1]⟩ = .ok ⟨2, 0, #[1, 1]⟩ := by
  have h1 : ¬ (1:ℝ) < Env.bdTol := not_lt.2 (le_of_lt bdTol_lt_one)
  have hs : SqrtField.sqrt (1 : ℝ) = 1 := Real.sqrt_one
  have hl : List.range' 1 2 = [1, 2] := rfl
  simp [Cov.bdCholBlock, hl, List.foldlM_cons, List.foldlM_nil, Cov.CovMat.raw, Cov.CovMat.rawSet, Cov.CovMat.inBuf,
    Cov.elimPtr, Cov.scalePtr, h1, hs, bind, Except.bind, pure, Except.pure, Except.map, sqrtS]

theorem pR_sweep (a b : ℝ) : Cov.sweep (⟨2, 0, #[1, 1]⟩ : Cov.CovMat ℝ) #[a, b] = #[a, b] := by
  have hl : List.range' 1 2 = [1, 2] := rfl
  simp [Cov.sweep, Cov.upperRows, hl, Cov.CovMat.raw, Cov.CovMat.inBuf]

theorem pR_homVec (v : Nat → ℝ) : homVec [2] [(⟨2, 0, #[1, 1]⟩ : Cov.CovMat ℝ)] 2 v = #[v 0, v 1] := by
  simp [homVec, vecOf2, Env.locate, pR_sweep]

theorem pR_factorsU : factorsU pR.cov.toList = some [(⟨2, 0, #[1, 1]⟩ : Cov.CovMat ℝ)] := by
  show factorsU [(⟨2, 0, #[1, 1]⟩ : CovBlock ℝ)] = _
  unfold factorsU
  have : blockMat (⟨2, 0, #[1, 1]⟩ : CovBlock ℝ) = ⟨2, 0, #[1, 1]⟩ := rfl
  rw [this, pR_bdChol]
  rfl

theorem pR_homogenize : ∃ hh, homogenize pR = .ok hh ∧ hh.At = #[#[1, 1], #[0, 0]] ∧ hh.bt = #[1, 1]
    ∧ hh.pat = #[[1, 2], []] := by
  unfold homogenize
  rw [pR_factorsU]
  refine ⟨_, rfl, ?_, ?_, ?_⟩
  · simp only [pR_dense]
    show (Array.ofFn (n := 2) fun i : Fin 2 => Array.ofFn (n := 2) fun j : Fin 2 =>
      Env.vget ((Array.ofFn (n := 2) fun j : Fin 2 => homVec [2] [(⟨2, 0, #[1, 1]⟩ : Cov.CovMat ℝ)] 2
        (fun i => Env.mget (#[#[1, 1], #[0, 0]] : DMat ℝ) i j.1)).getD j.1 #[]) i.1) = _
    simp [ofFn2, pR_homVec, Env.mget]
  · have hd : (pR.cov.toList.map (·.dim)) = [2] := rfl
    simp only [hd]
    show homVec [2] _ 2 _ = _
    rw [pR_homVec]
    rfl
  · rfl

theorem pR_rcm : rcmOrd 2 #[[1, 2], []] = idOrd 2 := by
  have h1 : (rcmOrd 2 #[[1, 2], []]).perm = #[0, 1] := by decide +kernel
  have h2 : (rcmOrd 2 #[[1, 2], []]).invp = #[0, 1] := by decide +kernel
  have h3 : idOrd 2 = ⟨#[0, 1], #[0, 1]⟩ := rfl
  calc rcmOrd 2 #[[1, 2], []] = ⟨(rcmOrd 2 #[[1, 2], []]).perm, (rcmOrd 2 #[[1, 2], []]).invp⟩ := rfl
    _ = ⟨#[0, 1], #[0, 1]⟩ := by rw [h1, h2]
    _ = idOrd 2 := h3.symm
noncomputable def pRC2 : Matrix (Fin 2) (Fin 2) ℝ := Cadj pR

theorem pRC2_one : pRC2 = 1 := by
  ext i j
  rw [Matrix.one_apply]
  show covF pR i.val j.val = _
  fin_cases i <;> fin_cases j <;>
    simp [covF, dimsOf, pR, AdjM.locate, blockDense, Dn.mmk, mmk22, Dn.sget, Dn.mget, Dn.vget, rowOff]

theorem pR_C : pR.C = 1 := by
  rw [← Cadj_eq_C pR (by decide)]
  exact pRC2_one

theorem pR_homogenize_eq : homogenize pR = .ok ⟨pR.dense, pR.rhs, #[[1, 2], []]⟩ := by
  obtain ⟨hh, h, h1, h2, h3⟩ := pR_homogenize
  rw [h, pR_dense]
  have : pR.rhs = #[1, 1] := rfl
  rw [this, ← h1, ← h2, ← h3]

theorem pR_input : Env.InputOK pR := by
  refine ⟨?_, by decide, ?_⟩
  · intro b hb
    have : b = ⟨2, 0, #[1, 1]⟩ := by simpa [pR] using hb
    subst this
    exact ⟨by decide, by decide⟩
  · intro i hi
    have : i = 0 ∨ i = 1 := by have : i < 2 := hi; omega
    rcases this with rfl | rfl <;> simp [pR, Array.getD]

theorem pR_regList : Env.RegListOK pR := by
  intro l hl
  have : l = [1] := by
    have h : Reg.subset [1] = Reg.subset l := hl
    injection h with h'; exact h'.symm
  subst this
  exact ⟨by decide, by decide⟩

theorem pR_solveUnamb : Env.SolveUnambiguous pR := by
  intro hh h
  rw [pR_homogenize_eq] at h
  have := Except.ok.inj h
  subst this
  show FactUnambiguous (SqrtField.sqrt : ℝ → ℝ) sqrtEps pR.m pR.n pR.dense pR.rhs (rcmOrd 2 #[[1, 2], []])
  rw [pR_rcm]
  exact pR_factUnamb

theorem pR_envAnswer : @envAnswer ℝ (Gama.LS.fieldScalar SqrtField.sqrt) pR
    = .ok (envCore (sqrtEps : ℝ) sqrtEps pR.m pR.n pR.dense pR.rhs pR.dense pR.rhs pR.reg (idOrd 2)) := by
  unfold envAnswer envAnswerOrd
  rw [pR_homogenize_eq]
  show Except.ok (envCore (sqrtEps : ℝ) sqrtEps pR.m pR.n pR.dense pR.rhs pR.dense pR.rhs pR.reg
    (rcmOrd 2 #[[1, 2], []])) = _
  rw [pR_rcm]

theorem pR_envSolve : ∃ a', @envSolve ℝ (Gama.LS.fieldScalar SqrtField.sqrt) pR = .ok a' ∧ a'.xErr = none
    ∧ a'.defect = 1 := by
  obtain ⟨x, hx⟩ := pR_env_answers
  unfold envSolve
  rw [pR_envAnswer]
  simp only [hx]
  exact ⟨_, rfl, rfl, pR_env_defect⟩

end Gama.Ls.Gso.Ex
