/-
  Envelope solver, cofactors in the regular case: `q_xx = q0_xx = (ÃᵀÃ)⁻¹` and
  `q_bb = Ã (ÃᵀÃ)⁻¹ Ãᵀ`, in the numbering of the problem, for every ordering.
-/
import Gama.Lemmas.Ls.EnvAnswer

namespace Gama.Ls.Env
open Finset Matrix Gama.LS

set_option linter.unusedSectionVars false

variable {K : Type} [Field K] [LinearOrder K] [IsStrictOrderedRing K] (sq : K → K)
local notation "𝔽" => fieldScalar sq

variable (tol stol : K) (m n : ℕ) (A : DMat K) (b : Array K) (At : DMat K) (bt : Array K)
  (reg : Reg) (o : EnvOrd)

/-- normal matrix of the homogenised system in the numbering of the problem -/
def NO : Matrix (Fin n) (Fin n) K := (toMatrix m n At)ᵀ * toMatrix m n At

theorem NF_eq_submatrix (hO : OrdOK n o) :
    matOf n n (NF sq tol m n At bt o) = (NO m n At).submatrix hO.equiv hO.equiv := by
  rw [NF_eq, ApM_eq_submatrix sq tol m n At bt o hO, transpose_submatrix, NO]
  exact submatrix_mul_equiv (toMatrix m n At)ᵀ (toMatrix m n At) hO.equiv (Equiv.refl _) hO.equiv

/-- the matrix of `q0_xx` in the new numbering is the permuted inverse -/
theorem Q0_eq_submatrix (hO : OrdOK n o) (hR : FactRegular sq tol m n At bt o) (htol : 0 < tol) :
    Q0 sq (NF sq tol m n At bt o) tol n = ((NO m n At)⁻¹).submatrix hO.equiv hO.equiv := by
  rw [Q0_eq_inv sq hR htol (NF_symm sq tol m n At bt o), NF_eq_submatrix sq tol m n At bt o hO,
    inv_submatrix_equiv]

/-- regular case: the normal matrix is invertible -/
theorem NO_isUnit (hO : OrdOK n o) (hR : FactRegular sq tol m n At bt o) (htol : 0 < tol) :
    IsUnit (NO m n At).det := by
  have h := N_mul_Q0 sq hR htol (NF_symm sq tol m n At bt o)
  rw [NF_eq_submatrix sq tol m n At bt o hO] at h
  have hu : IsUnit ((NO m n At).submatrix hO.equiv hO.equiv).det :=
    isUnit_det_of_right_inverse h
  rwa [det_submatrix_equiv_self] at hu

theorem q0_orig (hO : OrdOK n o) (hR : FactRegular sq tol m n At bt o) (htol : 0 < tol) (i j : Fin n) :
    @q0 K 𝔽 (@factor K 𝔽 tol m n At bt o).rows n (o.invp.getD i 0) (o.invp.getD j 0) = (NO m n At)⁻¹ i j := by
  have h := q0_model sq hR htol (NF_symm sq tol m n At bt o) (hO.equiv.symm i) (hO.equiv.symm j)
  rw [Q0_eq_submatrix sq tol m n At bt o hO hR htol] at h
  rw [submatrix_apply, Equiv.apply_symm_apply, Equiv.apply_symm_apply] at h
  exact h

/-- **C03 regular**: `q_xx(i,j) = q0_xx(i,j) = (ÃᵀÃ)⁻¹ᵢⱼ` (1-based queries) -/
theorem envCore_qxx_regular (hO : OrdOK n o) (htol : 0 < tol)
    (hd : (@envCore K 𝔽 tol stol m n A b At bt reg o).defect = 0) (i j : Fin n) :
    (@envCore K 𝔽 tol stol m n A b At bt reg o).qxx (i + 1) (j + 1) = .ok ((NO m n At)⁻¹ i j)
    ∧ (@envCore K 𝔽 tol stol m n A b At bt reg o).q0xx (i + 1) (j + 1) = .ok ((NO m n At)⁻¹ i j) := by
  have hR : FactRegular sq tol m n At bt o := (defect_zero_iff sq _ tol n).1 hd
  have hd' : @defectOf K (@factor K 𝔽 tol m n At bt o).rows = 0 := hd
  have hi : (decide (1 ≤ i.1 + 1) && decide (i.1 + 1 ≤ n)) = true := by simp
  have hj : (decide (1 ≤ j.1 + 1) && decide (j.1 + 1 ≤ n)) = true := by simp
  have hq := q0_orig sq tol m n At bt o hO hR htol i j
  constructor
  · show (if !((decide (1 ≤ i.1 + 1) && decide (i.1 + 1 ≤ n)) && (decide (1 ≤ j.1 + 1) && decide (j.1 + 1 ≤ n)))
        then Except.error ErrKind.NotModelled
        else if @defectOf K (@factor K 𝔽 tol m n At bt o).rows = 0 then
          Except.ok (@q0 K 𝔽 (@factor K 𝔽 tol m n At bt o).rows n (o.invp.getD (i.1 + 1 - 1) 0) (o.invp.getD (j.1 + 1 - 1) 0))
        else _) = _
    rw [hi, hj, if_pos hd']
    simp only [Nat.add_sub_cancel]
    rw [hq]; rfl
  · show (if ((decide (1 ≤ i.1 + 1) && decide (i.1 + 1 ≤ n)) && (decide (1 ≤ j.1 + 1) && decide (j.1 + 1 ≤ n))) = true
        then Except.ok (@q0 K 𝔽 (@factor K 𝔽 tol m n At bt o).rows n (o.invp.getD (i.1 + 1 - 1) 0) (o.invp.getD (j.1 + 1 - 1) 0))
        else Except.error ErrKind.NotModelled) = _
    rw [hi, hj]
    simp only [Nat.add_sub_cancel]
    rw [hq]; rfl


/-- `Ap Q0 Apᵀ` does not depend on the ordering -/
theorem hat_orig (hO : OrdOK n o) (hR : FactRegular sq tol m n At bt o) (htol : 0 < tol) :
    ApM sq tol m n At bt o * Q0 sq (NF sq tol m n At bt o) tol n * (ApM sq tol m n At bt o)ᵀ
      = toMatrix m n At * (NO m n At)⁻¹ * (toMatrix m n At)ᵀ := by
  rw [Q0_eq_submatrix sq tol m n At bt o hO hR htol, ApM_eq_submatrix sq tol m n At bt o hO,
    transpose_submatrix, submatrix_mul_equiv, submatrix_mul_equiv, submatrix_id_id]

/-- **C03 regular**: `q_bb(i,j) = (Ã (ÃᵀÃ)⁻¹ Ãᵀ)ᵢⱼ` -/
theorem envCore_qbb_regular (hO : OrdOK n o) (htol : 0 < tol)
    (hd : (@envCore K 𝔽 tol stol m n A b At bt reg o).defect = 0) (i j : Fin m) :
    (@envCore K 𝔽 tol stol m n A b At bt reg o).qbb (i + 1) (j + 1)
      = .ok ((toMatrix m n At * (NO m n At)⁻¹ * (toMatrix m n At)ᵀ) i j) := by
  have hR : FactRegular sq tol m n At bt o := (defect_zero_iff sq _ tol n).1 hd
  have hi : (decide (1 ≤ i.1 + 1) && decide (i.1 + 1 ≤ m)) = true := by simp
  have hj : (decide (1 ≤ j.1 + 1) && decide (j.1 + 1 ≤ m)) = true := by simp
  show (if ((decide (1 ≤ i.1 + 1) && decide (i.1 + 1 ≤ m)) && (decide (1 ≤ j.1 + 1) && decide (j.1 + 1 ≤ m))) = true
      then Except.ok (@sumTo K 𝔽 n fun k => (@factor K 𝔽 tol m n At bt o).Ap (i.1 + 1 - 1) k *
        @vget K 𝔽 (@solve K 𝔽 (@factor K 𝔽 tol m n At bt o).rows n
          (fun k => (@factor K 𝔽 tol m n At bt o).Ap (j.1 + 1 - 1) k)) k)
      else Except.error ErrKind.NotModelled) = _
  rw [hi, hj]
  simp only [Nat.add_sub_cancel, Bool.and_self, if_true]
  congr 1
  rw [sumTo_eq, ← hat_orig sq tol m n At bt o hO hR htol]
  have hs := solve_eq_Q0_mulVec sq hR htol (NF_symm sq tol m n At bt o)
    (fun k => (@factor K 𝔽 tol m n At bt o).Ap j k)
  rw [Matrix.mul_assoc, mul_apply, ← Fin.sum_univ_eq_sum_range _ n]
  refine Finset.sum_congr rfl fun k _ => ?_
  congr 1
  have := congrFun hs k
  simp only [vecFn] at this
  rw [show @vget K 𝔽 (@solve K 𝔽 (@factor K 𝔽 tol m n At bt o).rows n
      (fun k => (@factor K 𝔽 tol m n At bt o).Ap j k)) k
      = solvef sq (NF sq tol m n At bt o) tol n (fun k => (@factor K 𝔽 tol m n At bt o).Ap j k) k from rfl, this]
  simp only [mulVec, dotProduct, mul_apply, transpose_apply]
  rfl

end Gama.Ls.Env
