/-
  Envelope solver: `unknowns()` throws `BadRegularization` iff the configured regularisation
  subset does not resolve the defect of the design matrix (numbering of the problem).
-/
import Gama.Lemmas.Ls.EnvRefusal
import Gama.Lemmas.Ls.EnvFinal

namespace Gama.Ls.Env
open Finset Matrix Gama.LS

set_option linter.unusedSectionVars false

variable {K : Type} [Field K] [LinearOrder K] [IsStrictOrderedRing K] (sq : K → K)
local notation "𝔽" => fieldScalar sq

variable (tol stol : K) (m n : ℕ) (A : DMat K) (b : Array K) (At : DMat K) (bt : Array K)
  (reg : Reg) (o : EnvOrd)

/-- kernel of the design matrix ↔ kernel of the normal matrix in the new numbering -/
theorem ker_orig_iff (hO : OrdOK n o) {W : Matrix (Fin m) (Fin m) K} (hWinj : ∀ d, W *ᵥ d = 0 → d = 0)
    (hAt : toMatrix m n At = W * toMatrix m n A) (g : Fin n → K) :
    toMatrix m n A *ᵥ g = 0 ↔ g ∘ hO.equiv ∈ kerV sq tol m n At bt o := by
  constructor
  · intro h
    apply kerV_of_ApM
    rw [← At_mulVec sq tol m n At bt o hO, hAt, ← mulVec_mulVec, h, mulVec_zero]
  · intro h
    have := ApM_of_kerV sq tol m n At bt o _ h
    rw [← At_mulVec sq tol m n At bt o hO, hAt, ← mulVec_mulVec] at this
    exact hWinj _ this

/-- vanishing on the regularisation subset ↔ vanishing on the list in the new numbering -/
theorem vanish_iff (hO : OrdOK n o) {Sorig : Finset (Fin n)} (hreg : RegOK n o reg Sorig) (g : Fin n → K) :
    (∀ i ∈ Sorig, g i = 0) ↔ ∀ k ∈ regList n o reg, ext0 (g ∘ hO.equiv) k = 0 := by
  constructor
  · intro h k hk
    have hkn := hreg.lt k hk
    rw [ext0_lt _ hkn]
    apply h
    rw [hreg.mem]
    have : o.invp.getD (hO.equiv ⟨k, hkn⟩) 0 = k := hO.left k hkn
    rw [this]; exact hk
  · intro h i hi
    have hk := (hreg.mem i).1 hi
    have := h _ hk
    have hkn := hreg.lt _ hk
    rw [ext0_lt _ hkn] at this
    have e : hO.equiv ⟨o.invp.getD i 0, hkn⟩ = i := Fin.ext (hO.right i i.2)
    rw [Function.comp_apply, e] at this
    exact this

/-- **C02_refusal_env**: with unambiguous pivots in the factorisation and in the Gram–Schmidt
    loop, `unknowns()` answers iff the regularisation subset resolves the defect, and the only
    error it can throw is `BadRegularization` -/
theorem envCore_refusal (hsq : IsSqrt sq) (hO : OrdOK n o) (hU : FactUnambiguous sq tol m n At bt o)
    (htol : 0 < tol) (hstol : 0 < stol)
    {W : Matrix (Fin m) (Fin m) K} (hWinj : ∀ d, W *ᵥ d = 0 → d = 0)
    (hAt : toMatrix m n At = W * toMatrix m n A)
    {Sorig : Finset (Fin n)} (hreg : RegOK n o reg Sorig)
    (hGS : GSUnambiguous sq (n := n) tol stol m At bt o (regList n o reg)) :
    ((∃ x, (@envCore K 𝔽 tol stol m n A b At bt reg o).x = .ok x) ↔ Resolves (toMatrix m n A) Sorig)
    ∧ ∀ e, (@envCore K 𝔽 tol stol m n A b At bt reg o).x = .error e → e = .BadRegularization := by
  have hxdef : (@envCore K 𝔽 tol stol m n A b At bt reg o).x
      = (@solveX K 𝔽 (@factor K 𝔽 tol m n At bt o) (regList n o reg) stol).map
        (fun gx => @vecOf K n fun j => @vget K 𝔽 gx.2 (o.invp.getD j 0)) := rfl
  rw [hxdef]
  cases hs : @solveX K 𝔽 (@factor K 𝔽 tol m n At bt o) (regList n o reg) stol with
  | ok gx =>
    obtain ⟨G, xn⟩ := gx
    refine ⟨⟨fun _ => ?_, fun _ => ⟨_, rfl⟩⟩, fun e he => by cases he⟩
    intro g hg hgS
    have h1 := (ker_orig_iff sq tol m n A At bt o hO hWinj hAt g).1 hg
    have h2 := (vanish_iff n reg o hO hreg g).1 hgS
    have := solveX_ok_resolves sq tol stol m At bt o hsq hU htol hstol hreg.lt hs _ h1 h2
    ext j
    have hj := congrFun this (hO.equiv.symm j)
    simpa using hj
  | error e =>
    obtain ⟨he, w, hwV, hw0, hwS⟩ :=
      solveX_error_not_resolves sq tol stol m At bt o hsq hU htol hstol hreg.lt hGS hs
    have hno : ¬ ∃ x, (Except.error e : Except ErrKind (List (Array K) × Array K)).map
        (fun gx => @vecOf K n fun j => @vget K 𝔽 gx.2 (o.invp.getD j 0)) = .ok x := by
      rintro ⟨x, hx⟩; cases hx
    refine ⟨⟨fun hex => absurd hex hno, fun hres => ?_⟩, fun e' he' => ?_⟩
    swap
    · cases he'; exact he
    exfalso
    apply hw0
    have hcomp : (w ∘ hO.equiv.symm) ∘ hO.equiv = w := by ext i; simp
    have h1 : toMatrix m n A *ᵥ (w ∘ hO.equiv.symm) = 0 :=
      (ker_orig_iff sq tol m n A At bt o hO hWinj hAt _).2 (by rw [hcomp]; exact hwV)
    have h2 : ∀ i ∈ Sorig, (w ∘ hO.equiv.symm) i = 0 :=
      (vanish_iff n reg o hO hreg _).2 (by rw [hcomp]; exact hwS)
    have := hres _ h1 h2
    ext i
    have hi := congrFun this (hO.equiv i)
    simpa using hi

end Gama.Ls.Env
