/-
  The column loop `Chol.factor` of `AdjCholDec::solve`: pivot search, and the invariant of
  `Lemmas/Ls/CholLDL.lean` carried to the end of the loop (regular case) or to the first
  rejected pivot (singular case).
-/
import Gama.Lemmas.Ls.CholLDL

namespace Gama.Ls
open Finset Dn Chol

set_option linter.unusedSectionVars false
set_option linter.unusedVariables false

section
variable {K : Type} [Field K] [LinearOrder K] [IsStrictOrderedRing K] [SqrtFn K]
attribute [local instance 2000] scalarOfField

theorem sTol_pos : (0 : K) < (sTol : K) := by
  show (0 : K) < ((1 : ℕ) : K) / ((67108864 : ℕ) : K)
  positivity

theorem diagAt_eq_dd (a : DMat K) (perm : Array Nat) (i : Nat) : diagAt a perm i = dd perm a i := by
  unfold diagAt dd sget; rw [if_pos (le_refl _)]

/-- the pivot search returns the largest diagonal entry among the positions `c..n-1`, and the
    first position where it is attained (`none` = position `c` itself) -/
theorem pivotSearch_spec (n : Nat) (a : DMat K) (perm : Array Nat) (c : Nat) (hc : c < n) :
    ∃ i, c ≤ i ∧ i < n ∧ (pivotSearch n a perm c).1 = dd perm a i ∧
      ((pivotSearch n a perm c).2 = none → i = c) ∧
      (∀ j, (pivotSearch n a perm c).2 = some j → j = i ∧ c < j) ∧
      ∀ j, c ≤ j → j < n → dd perm a j ≤ (pivotSearch n a perm c).1 := by
  unfold pivotSearch
  have key : ∀ len, c + 1 + len ≤ n →
      ∃ i, c ≤ i ∧ i < c + 1 + len ∧
        ((List.range' (c + 1) len).foldl
          (fun (st : K × Option Nat) i => let t := diagAt a perm i; if st.1 < t then (t, some i) else st)
          (diagAt a perm c, none)).1 = dd perm a i ∧
        (((List.range' (c + 1) len).foldl
          (fun (st : K × Option Nat) i => let t := diagAt a perm i; if st.1 < t then (t, some i) else st)
          (diagAt a perm c, none)).2 = none → i = c) ∧
        (∀ j, ((List.range' (c + 1) len).foldl
          (fun (st : K × Option Nat) i => let t := diagAt a perm i; if st.1 < t then (t, some i) else st)
          (diagAt a perm c, none)).2 = some j → j = i ∧ c < j) ∧
        ∀ j, c ≤ j → j < c + 1 + len → dd perm a j ≤
          ((List.range' (c + 1) len).foldl
          (fun (st : K × Option Nat) i => let t := diagAt a perm i; if st.1 < t then (t, some i) else st)
          (diagAt a perm c, none)).1 := by
    intro len
    induction len with
    | zero =>
      intro _
      refine ⟨c, le_refl c, by omega, ?_, fun _ => rfl, ?_, ?_⟩
      · simp [diagAt_eq_dd]
      · intro j hj; simp at hj
      · intro j h1 h2
        have : j = c := by omega
        subst this; simp [diagAt_eq_dd]
    | succ len ih =>
      intro hlen
      obtain ⟨i, hci, hil, h1, h2, h3, h4⟩ := ih (by omega)
      rw [List.range'_concat, List.foldl_append]
      simp only [List.foldl_cons, List.foldl_nil, Nat.one_mul]
      generalize ((List.range' (c + 1) len).foldl
          (fun (st : K × Option Nat) i => let t := diagAt a perm i; if st.1 < t then (t, some i) else st)
          (diagAt a perm c, none)) = st at h1 h2 h3 h4 ⊢
      by_cases hlt : st.1 < diagAt a perm (c + 1 + len)
      · rw [if_pos hlt]
        refine ⟨c + 1 + len, by omega, by omega, diagAt_eq_dd _ _ _, by simp, ?_, ?_⟩
        · intro j hj; simp at hj; omega
        · intro j hj1 hj2
          simp only
          by_cases hj3 : j = c + 1 + len
          · subst hj3; rw [diagAt_eq_dd]
          · exact le_of_lt (lt_of_le_of_lt (h4 j hj1 (by omega)) hlt)
      · rw [if_neg hlt]
        refine ⟨i, hci, by omega, h1, h2, h3, ?_⟩
        intro j hj1 hj2
        by_cases hj3 : j = c + 1 + len
        · subst hj3; rw [← diagAt_eq_dd]; exact not_lt.1 hlt
        · exact h4 j hj1 (by omega)
  have := key (n - (c + 1)) (by omega)
  obtain ⟨i, h0, h1, h2, h3, h4, h5⟩ := this
  exact ⟨i, h0, by omega, h2, h3, h4, fun j hj1 hj2 => h5 j hj1 (by omega)⟩

/-- the ordering after the (possible) swap -/
def permAfter (n : Nat) (a : DMat K) (perm : Array Nat) (c : Nat) : Array Nat :=
  match (pivotSearch n a perm c).2 with
  | some i => swapP n perm c i
  | none => perm

/-- after the swap the chosen pivot sits at position `c`, it is the largest trailing diagonal entry,
    and the invariant still holds -/
theorem pivot_step {n : Nat} {tol : K} {Nf : Nat → Nat → K} {perm : Array Nat} {a : DMat K} {c : Nat}
    (h : LDLInv n tol Nf perm a c) (hc : c < n) :
    LDLInv n tol Nf (permAfter n a perm c) a c ∧
    dd (permAfter n a perm c) a c = (pivotSearch n a perm c).1 ∧
    ∀ j, c ≤ j → j < n → dd (permAfter n a perm c) a j ≤ (pivotSearch n a perm c).1 := by
  obtain ⟨i, hci, hin, hval, hnone, hsome, hmax⟩ := pivotSearch_spec n a perm c hc
  unfold permAfter
  cases hps : (pivotSearch n a perm c).2 with
  | none =>
    have hi := hnone hps
    subst hi
    exact ⟨h, hval.symm, hmax⟩
  | some j =>
    obtain ⟨hji, hcj⟩ := hsome j hps
    subst hji
    refine ⟨h.swap j hc (le_of_lt hcj) hin, ?_, ?_⟩
    · unfold dd; rw [pget_swapP n perm c j c hc, if_pos rfl]; exact hval.symm
    · intro l hl1 hl2
      unfold dd
      rw [pget_swapP' n perm c j l hl2]
      have : swp c j l < n := swp_lt hc hin hl2
      have h2 : c ≤ swp c j l := by unfold swp; split_ifs <;> omega
      exact hmax _ h2 this

/-- regular case: the loop runs to the end and `N = L D Lᵀ` with all pivots above the tolerance -/
theorem factor_regular {n : Nat} {Nf : Nat → Nat → K} :
    ∀ (fuel c : Nat) (perm : Array Nat) (a : DMat K), LDLInv n (sTol : K) Nf perm a c → fuel = n - c →
      (factor n fuel c perm a).nullity = 0 →
      LDLInv n (sTol : K) Nf (factor n fuel c perm a).perm (factor n fuel c perm a).mat n := by
  intro fuel
  induction fuel with
  | zero =>
    intro c perm a h hf _
    have : c = n := by have := h.le; omega
    subst this
    exact h
  | succ fuel ih =>
    intro c perm a h hf hnull
    have hc : c < n := by omega
    obtain ⟨h1, h2, _⟩ := pivot_step h hc
    unfold factor at hnull ⊢
    simp only [] at hnull ⊢
    change (if (pivotSearch n a perm c).1 ≤ (sTol : K) then _ else _ : Fact K).nullity = 0 at hnull
    change LDLInv n (sTol : K) Nf (if (pivotSearch n a perm c).1 ≤ (sTol : K) then _ else _ : Fact K).perm
      (if (pivotSearch n a perm c).1 ≤ (sTol : K) then _ else _ : Fact K).mat n
    by_cases hp : (pivotSearch n a perm c).1 ≤ (sTol : K)
    · rw [if_pos hp] at hnull
      simp only at hnull
      omega
    · rw [if_neg hp] at hnull ⊢
      have hpiv : (sTol : K) < dd (permAfter n a perm c) a c := by rw [h2]; exact not_le.1 hp
      have hstep := h1.step hc (le_of_lt sTol_pos) hpiv
      rw [h2] at hstep
      exact ih (c + 1) _ _ hstep (by omega) hnull

/-- "remove junk" zeroes exactly the stored trailing block -/
theorem sget_junk (n : Nat) (perm : Array Nat) (c : Nat) (a : DMat K) (u v : Nat) (hu : u < n) (hv : v < n) :
    sget (junk n perm c a) u v = if c ≤ qq n perm u ∧ c ≤ qq n perm v then 0 else sget a u v := by
  have key : ∀ u v, u < n → v < n → v ≤ u →
      mget (junk n perm c a) u v = if c ≤ qq n perm u ∧ c ≤ qq n perm v then 0 else mget a u v := by
    intro u v hu hv hvu
    unfold junk
    simp only []
    rw [mget_mmk]
    simp only [hu, hv, and_self, if_true, hvu]
    rfl
  by_cases hvu : v ≤ u
  · unfold sget; rw [if_pos hvu, if_pos hvu, key u v hu hv hvu]
  · unfold sget; rw [if_neg hvu, if_neg hvu, key v u hv hu (by omega)]
    by_cases h1 : c ≤ qq n perm u ∧ c ≤ qq n perm v
    · rw [if_pos h1, if_pos ⟨h1.2, h1.1⟩]
    · rw [if_neg h1, if_neg (fun h => h1 ⟨h.2, h.1⟩)]

theorem ell_junk {n : Nat} {perm : Array Nat} (hP : IsPerm n perm) (c : Nat) (a : DMat K) (k u : Nat)
    (hk : k < c) (hkn : k < n) (hu : u < n) : ell n perm (junk n perm c a) k u = ell n perm a k u := by
  have h1 : sget (junk n perm c a) u (pget perm k) = sget a u (pget perm k) := by
    rw [sget_junk n perm c a u _ hu (hP.lt k hkn), qq_perm hP k hkn]
    have : ¬ (c ≤ qq n perm u ∧ c ≤ k) := fun h => by omega
    rw [if_neg this]
  unfold ell
  rw [h1]

theorem dd_junk {n : Nat} {perm : Array Nat} (hP : IsPerm n perm) (c : Nat) (a : DMat K) (k : Nat)
    (hk : k < c) (hkn : k < n) : dd perm (junk n perm c a) k = dd perm a k := by
  unfold dd
  rw [sget_junk n perm c a _ _ (hP.lt k hkn) (hP.lt k hkn), qq_perm hP k hkn]
  have : ¬ (c ≤ k ∧ c ≤ k) := fun h => by omega
  rw [if_neg this]

/-- state of the factorisation when the loop ends: `N0` accepted pivots, and — if `N0 < n` — the
    largest remaining diagonal entry `≤ s_tol`, the trailing block zeroed -/
structure FactEnd (n : Nat) (Nf : Nat → Nat → K) (f : Fact K) (aPre : DMat K) (N0 : Nat) : Prop where
  inv : LDLInv n (sTol : K) Nf f.perm aPre N0
  nullity : f.nullity = n - N0
  reg : N0 = n → f.mat = aPre
  sing : N0 < n → f.mat = junk n f.perm N0 aPre ∧ dd f.perm aPre N0 ≤ (sTol : K) ∧
    (∀ j, N0 ≤ j → j < n → dd f.perm aPre j ≤ dd f.perm aPre N0) ∧ f.rej = some (dd f.perm aPre N0)

theorem factor_end {n : Nat} {Nf : Nat → Nat → K} :
    ∀ (fuel c : Nat) (perm : Array Nat) (a : DMat K), LDLInv n (sTol : K) Nf perm a c → fuel = n - c →
      ∃ aPre N0, FactEnd n Nf (factor n fuel c perm a) aPre N0 := by
  intro fuel
  induction fuel with
  | zero =>
    intro c perm a h hf
    have : c = n := by have := h.le; omega
    subst this
    exact ⟨a, c, h, by simp [factor], fun _ => rfl, fun hlt => absurd hlt (lt_irrefl _)⟩
  | succ fuel ih =>
    intro c perm a h hf
    have hc : c < n := by omega
    obtain ⟨h1, h2, h3⟩ := pivot_step h hc
    unfold factor
    simp only []
    change ∃ aPre N0, FactEnd n Nf (if (pivotSearch n a perm c).1 ≤ (sTol : K) then _ else _ : Fact K) aPre N0
    by_cases hp : (pivotSearch n a perm c).1 ≤ (sTol : K)
    · rw [if_pos hp]
      refine ⟨a, c, h1, rfl, fun e => by omega, fun _ => ⟨rfl, ?_, ?_, ?_⟩⟩
      · show dd (permAfter n a perm c) a c ≤ _
        rw [h2]; exact hp
      · intro j hj1 hj2
        show dd (permAfter n a perm c) a j ≤ dd (permAfter n a perm c) a c
        rw [h2]; exact h3 j hj1 hj2
      · show some (pivotSearch n a perm c).1 = some (dd (permAfter n a perm c) a c)
        rw [h2]
    · rw [if_neg hp]
      have hpiv : (sTol : K) < dd (permAfter n a perm c) a c := by rw [h2]; exact not_le.1 hp
      have hstep := h1.step hc (le_of_lt sTol_pos) hpiv
      rw [h2] at hstep
      exact ih (c + 1) _ _ hstep (by omega)

end
end Gama.Ls
