/-
  Envelope solver, loop refinement: the tables of `Model/Ls/Env/Core.lean` (written with
  `build`, `sumTo`, `vecOf`) satisfy the textbook recursion equations, stated with
  `Finset` sums over an ordered field (`fieldScalar sq`, see `ScalarLaws.lean`).
-/
import Gama.Model.Ls.Env.Core
import Gama.Lemmas.Ls.ScalarLaws
import Mathlib.Algebra.BigOperators.Intervals
import Mathlib.Algebra.BigOperators.Ring.Finset
import Mathlib.Algebra.Order.BigOperators.Ring.Finset

namespace Gama.Ls.Env
open Finset

set_option linter.unusedSectionVars false

/-! ### `build` -/

section build
variable {α : Type}

theorem build_size (f : Nat → Array α → α) (k : Nat) : (build f k).size = k := by
  induction k with
  | zero => rfl
  | succ k ih => simp [build, ih]

theorem build_getD (f : Nat → Array α → α) (d : α) {k i : Nat} (h : i < k) :
    (build f k).getD i d = f i (build f i) := by
  induction k with
  | zero => omega
  | succ k ih =>
    have hs := build_size f k
    by_cases hik : i < k
    · have := ih hik
      simp only [build, Array.getD_eq_getD_getElem?] at this ⊢
      rw [Array.getElem?_push]
      have : i ≠ (build f k).size := by omega
      simp_all
    · have hik' : i = k := by omega
      subst hik'
      simp only [build, Array.getD_eq_getD_getElem?]
      rw [Array.getElem?_push]
      simp [hs]

/-- cells of a shorter table are cells of the longer one -/
theorem build_getD_prefix (f : Nat → Array α → α) (d : α) {k k' i : Nat} (h : i < k) (h' : i < k') :
    (build f k).getD i d = (build f k').getD i d := by
  rw [build_getD f d h, build_getD f d h']

end build

variable {K : Type} [Field K] [LinearOrder K] [IsStrictOrderedRing K] (sq : K → K)

local notation "𝔽" => fieldScalar sq

/-! ### `sumTo`, `vecOf`, `vget` -/

theorem sumTo_eq (n : Nat) (f : Nat → K) : @sumTo K 𝔽 n f = ∑ i ∈ range n, f i := by
  induction n with
  | zero => simp [sumTo]
  | succ n ih => simp only [sumTo, fs_add, ih, sum_range_succ]

theorem vget_vecOf (n : Nat) (f : Nat → K) {i : Nat} (h : i < n) : @vget K 𝔽 (@vecOf K n f) i = f i := by
  simp [vget, vecOf, Array.getD_eq_getD_getElem?, h]

theorem vget_vecOf_ge (n : Nat) (f : Nat → K) {i : Nat} (h : n ≤ i) : @vget K 𝔽 (@vecOf K n f) i = 0 := by
  simp [vget, vecOf, Array.getD_eq_getD_getElem?, Nat.not_lt.2 h]

theorem vecOf_size (n : Nat) (f : Nat → K) : (@vecOf K n f).size = n := by simp [vecOf]

theorem vget_build {f : Nat → Array K → K} {k i : Nat} (h : i < k) :
    @vget K 𝔽 (build f k) i = f i (build f i) := build_getD f _ h

end Gama.Ls.Env
