/-
  `SqrtField K` — the "lawful scalar" bundle used by the theorems about the Gram–Schmidt
  model: a linearly ordered field with a chosen square-root function obeying
  `0 ≤ x → sqrt x * sqrt x = x ∧ 0 ≤ sqrt x`.  The `Scalar K` signature the model runs on is
  `Gama.LS.fieldScalar SqrtField.sqrt` (Lemmas/LS/Bridge.lean): every operation IS the field's
  (definitional equalities), so no separate lawfulness statements about `+ - * /` are needed.
  ℝ with `Real.sqrt` is an instance (`Lemmas/Ls/GsoReal.lean`).
  (Lemmas/Ls/ScalarLaws.lean of the envelope/cholesky builders offers `LawfulScalar`/`IsSqrt`
  for the same purpose; this file is kept separate so that the two do not interfere.)
-/
import Gama.Lemmas.LS.Bridge

namespace Gama.Ls.Gso

class SqrtField (K : Type) [Field K] [LinearOrder K] where
  sqrt : K → K
  sqrt_spec : ∀ x : K, 0 ≤ x → sqrt x * sqrt x = x ∧ 0 ≤ sqrt x

namespace SqrtField
variable {K : Type} [Field K] [LinearOrder K] [SqrtField K]

/-- the signature the models are instantiated at in proofs -/
@[reducible] instance (priority := 50) toScalar : Scalar K := LS.fieldScalar (SqrtField.sqrt : K → K)

theorem scalar_sqrt (x : K) : Scalar.sqrt x = SqrtField.sqrt x := rfl
theorem scalar_ofNat (n : Nat) : (Scalar.ofNat n : K) = (n : K) := rfl

theorem sqrt_mul_self {x : K} (h : 0 ≤ x) : Scalar.sqrt x * Scalar.sqrt x = x := (sqrt_spec x h).1
theorem sqrt_nonneg {x : K} (h : 0 ≤ x) : 0 ≤ Scalar.sqrt x := (sqrt_spec x h).2

end SqrtField
end Gama.Ls.Gso
