/-
  Property-level consequences for the svd model (C01, C03, C20), assembled from
  `answerOf_spec` (SvdSolve.lean) and the certificate algebra (SvdAlgebra.lean, SvdSubset.lean).
-/
import Gama.Lemmas.Ls.SvdSolve

namespace Gama.Ls.Svd
open Matrix Finset Gama.LS Gama.Ls

set_option linter.unusedSectionVars false
set_option linter.unusedVariables false
set_option linter.unusedSimpArgs false

variable {K : Type} [Field K] [LinearOrder K] [IsStrictOrderedRing K] (sq : K → K)

local notation "𝕊" => (Gama.LS.fieldScalar sq)

/-- square-root law of the scalar signature -/
structure SqrtLaw : Prop where
  mul_self : ∀ x : K, 0 ≤ x → sq x * sq x = x
  nonneg : ∀ x : K, 0 ≤ x → 0 ≤ sq x

variable {sq}

/-- **C01**: the model's answers are a least-squares solution regularised over `S` -/
theorem answerOf_isLS (hs : SqrtLaw sq) (fixed : Bool) {tol : K} (htol : 0 ≤ tol) {m n : Nat} {A : DMat K}
    {b : Array K} {reg : Reg} {d : Dec K} (hc : SvdCert sq tol m n A d) (hreg : RegOK reg) {a : Answer K}
    (h : @answerOf K 𝕊 fixed tol m n A b reg d = .ok a) :
    IsLSSolution (toMatrix m n A) (toVec m b) 1 (reg.toFinset n) (toVec n a.x) (toVec m a.r) a.rtr := by
  obtain ⟨V', hfin, hx, hr, hrtr, -⟩ :=
    answerOf_spec sq hs.mul_self hs.nonneg fixed tol htol m n A b reg d hc hreg a h
  have hcert := cert_of sq htol hc
  have h1 := hfin.h1 hcert
  have hN := normal_eq hcert h1 (toVec m b)
  rw [← hx] at hN
  have horth : ∀ g, toMatrix m n A *ᵥ g = 0 → ∑ i ∈ reg.toFinset n, toVec n a.x i * g i = 0 := by
    rw [hx]
    refine orth_of_inv hfin.span hfin.orth _ (fun j hj => ?_)
    rw [mulVec_diagonal, hj, zero_mul]
  have H := IsLSSolution.of_normal_matrix (S := reg.toFinset n) hN horth
  refine ⟨hr, ?_, ?_, horth⟩
  · rw [hr]; exact H.normal
  · rw [hrtr, one_mulVec]

/-- **C03**: the cofactors the model reports, as matrices -/
theorem answerOf_cofactors (hs : SqrtLaw sq) (fixed : Bool) {tol : K} (htol : 0 ≤ tol) {m n : Nat} {A : DMat K}
    {b : Array K} {reg : Reg} {d : Dec K} (hc : SvdCert sq tol m n A d) (hreg : RegOK reg) {a : Answer K}
    (h : @answerOf K 𝕊 fixed tol m n A b reg d = .ok a) :
    ∃ (Q : Matrix (Fin n) (Fin n) K) (B : Matrix (Fin m) (Fin m) K) (X : Matrix (Fin m) (Fin n) K),
      (∀ i j : Fin n, a.qxx (i.val + 1) (j.val + 1) = .ok (Q i j)) ∧
      (∀ i j : Fin n, a.q0xx (i.val + 1) (j.val + 1) = .ok (Q i j)) ∧
      (∀ i j : Fin m, a.qbb (i.val + 1) (j.val + 1) = .ok (B i j)) ∧
      (∀ (i : Fin m) (j : Fin n), a.qbx (i.val + 1) (j.val + 1) = .ok (X i j)) ∧
      Qᵀ = Q ∧ (∀ y, 0 ≤ y ⬝ᵥ Q *ᵥ y) ∧
      ((toMatrix m n A)ᵀ * toMatrix m n A) * Q * ((toMatrix m n A)ᵀ * toMatrix m n A)
          = (toMatrix m n A)ᵀ * toMatrix m n A ∧
      Q * ((toMatrix m n A)ᵀ * toMatrix m n A) * Q = Q ∧
      (a.defect = 0 → Q = ((toMatrix m n A)ᵀ * toMatrix m n A)⁻¹) ∧
      (∀ y g, toMatrix m n A *ᵥ g = 0 → ∑ i ∈ reg.toFinset n, (Q *ᵥ y) i * g i = 0) ∧
      B = toMatrix m n A * Q * (toMatrix m n A)ᵀ ∧ Bᵀ = B ∧ B * B = B ∧
      X = toMatrix m n A * Q := by
  obtain ⟨V', hfin, hx, hr, hrtr, hdef, hqxx, hq0, hqbb, hqbx, -⟩ :=
    answerOf_spec sq hs.mul_self hs.nonneg fixed tol htol m n A b reg d hc hreg a h
  have hcert := cert_of sq htol hc
  have h1 := hfin.h1 hcert
  refine ⟨_, _, _, hqxx, fun i j => (hq0 i j).trans (hqxx i j), hqbb, hqbx, Q_symm _ _, Q_psd _ _,
    Q_ginv hcert h1, Q_refl hcert h1, ?_, ?_, qbb_eq hcert h1, qbb_symm hcert, qbb_idem hcert, qbx_eq hcert h1⟩
  · intro hd0
    rw [hdef, Finset.card_eq_zero] at hd0
    have hregular : ∀ i, iwF sq tol n d i ≠ 0 := by
      intro i hi
      have : i ∈ (univ.filter fun i : Fin n => iwF sq tol n d i = 0) := by simp [hi]
      rw [hd0] at this; exact absurd this (Finset.notMem_empty i)
    exact ginv_eq_inv_of_regular (N_isUnit hcert hregular) (Q_ginv hcert h1)
  · intro y g hg
    have : (toMatrix n n V' * (diagonal (iwF sq tol n d) * diagonal (iwF sq tol n d)) * (toMatrix n n V')ᵀ) *ᵥ y
        = toMatrix n n V' *ᵥ ((diagonal (iwF sq tol n d) * diagonal (iwF sq tol n d)) *ᵥ ((toMatrix n n V')ᵀ *ᵥ y)) := by
      simp only [mulVec_mulVec, Matrix.mul_assoc]
    rw [this]
    refine orth_of_inv hfin.span hfin.orth _ (fun j hj => ?_) g hg
    rw [diagonal_mul_diagonal, mulVec_diagonal, hj]; ring

/-- **C20**: the number of null singular values is `n − rank A` -/
theorem answerOf_defect (hs : SqrtLaw sq) (fixed : Bool) {tol : K} (htol : 0 ≤ tol) {m n : Nat} {A : DMat K}
    {b : Array K} {reg : Reg} {d : Dec K} (hc : SvdCert sq tol m n A d) (hreg : RegOK reg) {a : Answer K}
    (h : @answerOf K 𝕊 fixed tol m n A b reg d = .ok a) :
    a.defect + (toMatrix m n A).rank = n
      ∧ a.defect = (univ.filter fun i : Fin n => toVec n d.W i = 0).card
      ∧ ∀ i : Fin n, a.lindep (i.val + 1) = .ok (decide (toVec n d.W i = 0)) := by
  obtain ⟨V', hfin, hx, hr, hrtr, hdef, hqxx, hq0, hqbb, hqbx, hlin⟩ :=
    answerOf_spec sq hs.mul_self hs.nonneg fixed tol htol m n A b reg d hc hreg a h
  have hcert := cert_of sq htol hc
  have hiff : ∀ i : Fin n, iwF sq tol n d i = 0 ↔ toVec n d.W i = 0 := by
    intro i
    rcases hcert.pinv i with ⟨hw, hi⟩ | ⟨hw, hi⟩
    · exact ⟨fun _ => hw, fun _ => hi⟩
    · refine ⟨fun h0 => ?_, fun h0 => absurd h0 hw⟩
      rw [hi] at h0; exact absurd (inv_eq_zero.mp h0) hw
  have hrank := rank_eq hcert
  have hsum : ∑ i, ee (toVec n d.W) (iwF sq tol n d) i
      = ((univ.filter fun i : Fin n => ¬ iwF sq tol n d i = 0).card : K) := by
    rw [Finset.card_filter, Nat.cast_sum]
    refine Finset.sum_congr rfl fun i _ => ?_
    rcases ee_cases hcert i with ⟨hi, he⟩ | ⟨hi, he⟩
    · rw [he]; simp [hi]
    · rw [he]; simp [hi]
  have hcard := Finset.card_filter_add_card_filter_not (s := (univ : Finset (Fin n))) (fun i : Fin n => iwF sq tol n d i = 0)
  have hr2 : (univ.filter fun i : Fin n => ¬ iwF sq tol n d i = 0).card = (toMatrix m n A).rank := by
    have : ((univ.filter fun i : Fin n => ¬ iwF sq tol n d i = 0).card : K) = ((toMatrix m n A).rank : K) := by
      rw [← hsum, hrank]
    exact_mod_cast this
  refine ⟨?_, ?_, ?_⟩
  · rw [hdef, ← hr2, hcard]; simp
  · rw [hdef]; congr 1; ext i; simp [hiff i]
  · intro i; rw [hlin i]; congr 1; exact decide_eq_decide.mpr (hiff i)

end Gama.Ls.Svd
