/-
  Envelope solver, `q_bb` for every unambiguous system (regular or singular):
  `Envelope::solve` is multiplication by `Q0 = Lu⁻ᵀ D⁺ Lu⁻¹`, so
  `q_bb(i,j) = (Ã Q0' Ãᵀ)(i,j)` where `Q0'` is `Q0` in the numbering of the problem — a
  g-inverse of `N = ÃᵀÃ`; by LS8 (`aqat_invariant`) this is `Ã Q Ãᵀ` for EVERY g-inverse `Q`,
  a symmetric projector with diagonal in `[0,1]` and `Σ(1 − Π_ii) = m − rank Ã`.
-/
import Gama.Lemmas.Ls.EnvQfinal
import Gama.Lemmas.Ls.EnvRank

namespace Gama.Ls.Env
open Finset Matrix Gama.LS

set_option linter.unusedSectionVars false

variable {K : Type} [Field K] [LinearOrder K] [IsStrictOrderedRing K] (sq : K → K)
local notation "𝔽" => fieldScalar sq

section solve
variable (N : ℕ → ℕ → K) (tol : K) (n : ℕ)

theorem upper_eq_MiMt (w : ℕ → K) : vecFn n (xf sq N tol n w) = (MiM sq N tol n)ᵀ *ᵥ vecFn n w := by
  have h1 : (LuM sq N tol n)ᵀ *ᵥ vecFn n (xf sq N tol n w) = vecFn n w := by
    ext k
    simp only [mulVec, dotProduct, transpose_apply, LuM, matOf, vecFn]
    rw [Fin.sum_univ_eq_sum_range (fun j => Lu (Lf sq N tol) j k * xf sq N tol n w j) n]
    exact (isUpper_model sq w).mul k.2
  have h2 : (MiM sq N tol n)ᵀ * (LuM sq N tol n)ᵀ = 1 := by
    rw [← transpose_mul, LuM_mul_MiM, transpose_one]
  calc vecFn n (xf sq N tol n w) = ((MiM sq N tol n)ᵀ * (LuM sq N tol n)ᵀ) *ᵥ vecFn n (xf sq N tol n w) := by
        rw [h2, one_mulVec]
    _ = (MiM sq N tol n)ᵀ *ᵥ vecFn n w := by rw [← mulVec_mulVec, h1]

theorem diag_eq_pinv (z : ℕ → K) :
    vecFn n (wf sq N tol n z) = diagonal (pinvDiag (dV sq N tol n)) *ᵥ vecFn n z := by
  ext k
  rw [mulVec_diagonal]
  simp only [vecFn, pinvDiag, dV]
  rw [wf_eq sq N tol n z k.2]
  by_cases h0 : Df sq N tol k = 0
  · simp [h0]
  · simp only [h0, if_false]; rw [div_eq_inv_mul]

/-- `Envelope::solve` is multiplication by `Q0` -/
theorem solve_eq_Q0M (c : ℕ → K) : vecFn n (solvef sq N tol n c) = Q0M sq N tol n *ᵥ vecFn n c := by
  unfold solvef Q0M q0Mat
  rw [upper_eq_MiMt, diag_eq_pinv, lower_eq_MiM, mulVec_mulVec, mulVec_mulVec, Matrix.mul_assoc]

end solve

variable (tol stol : K) (m n : ℕ) (A : DMat K) (b : Array K) (At : DMat K) (bt : Array K)
  (reg : Reg) (o : EnvOrd)

/-- `Q0` in the numbering of the problem -/
def Q0O (hO : OrdOK n o) : Matrix (Fin n) (Fin n) K :=
  (Q0M sq (NF sq tol m n At bt o) tol n).submatrix hO.equiv.symm hO.equiv.symm

theorem Q0O_ginv (hO : OrdOK n o) (hU : FactUnambiguous sq tol m n At bt o) :
    NO m n At * Q0O sq tol m n At bt o hO * NO m n At = NO m n At := by
  obtain ⟨-, q2, -⟩ := Q0M_props sq hU (NF_gram sq tol m n At bt o)
  have hN : NO m n At = (matOf n n (NF sq tol m n At bt o)).submatrix hO.equiv.symm hO.equiv.symm := by
    rw [NF_eq_submatrix sq tol m n At bt o hO]
    ext i j; simp
  unfold Q0O
  rw [hN, submatrix_mul_equiv, submatrix_mul_equiv, q2]

/-- **`q_bb(i,j) = (Ã Q0 Ãᵀ)(i,j)`**, regular or singular -/
theorem envCore_qbb (hO : OrdOK n o) (i j : Fin m) :
    (@envCore K 𝔽 tol stol m n A b At bt reg o).qbb (i + 1) (j + 1)
      = .ok ((toMatrix m n At * Q0O sq tol m n At bt o hO * (toMatrix m n At)ᵀ) i j) := by
  have hi : (decide (1 ≤ i.1 + 1) && decide (i.1 + 1 ≤ m)) = true := by simp
  have hj : (decide (1 ≤ j.1 + 1) && decide (j.1 + 1 ≤ m)) = true := by simp
  show (if ((decide (1 ≤ i.1 + 1) && decide (i.1 + 1 ≤ m)) && (decide (1 ≤ j.1 + 1) && decide (j.1 + 1 ≤ m))) = true
      then Except.ok (@sumTo K 𝔽 n fun k => (@factor K 𝔽 tol m n At bt o).Ap (i.1 + 1 - 1) k *
        @vget K 𝔽 (@solve K 𝔽 (@factor K 𝔽 tol m n At bt o).rows n
          (fun k => (@factor K 𝔽 tol m n At bt o).Ap (j.1 + 1 - 1) k)) k)
      else Except.error ErrKind.NotModelled) = _
  rw [hi, hj]
  simp only [Nat.add_sub_cancel, Bool.and_self, if_true]
  congr 1
  have hperm : toMatrix m n At * Q0O sq tol m n At bt o hO * (toMatrix m n At)ᵀ
      = ApM sq tol m n At bt o * Q0M sq (NF sq tol m n At bt o) tol n * (ApM sq tol m n At bt o)ᵀ := by
    have e1 : toMatrix m n At = (ApM sq tol m n At bt o).submatrix id hO.equiv.symm := by
      rw [ApM_eq_submatrix sq tol m n At bt o hO]; ext r c; simp
    unfold Q0O
    conv_lhs => rw [e1]
    rw [transpose_submatrix, submatrix_mul_equiv, submatrix_mul_equiv, submatrix_id_id]
  rw [hperm, sumTo_eq]
  have hs := solve_eq_Q0M sq (NF sq tol m n At bt o) tol n (fun k => (@factor K 𝔽 tol m n At bt o).Ap j k)
  rw [Matrix.mul_assoc, mul_apply, ← Fin.sum_univ_eq_sum_range _ n]
  refine Finset.sum_congr rfl fun k _ => ?_
  congr 1
  have := congrFun hs k
  simp only [vecFn] at this
  rw [show @vget K 𝔽 (@solve K 𝔽 (@factor K 𝔽 tol m n At bt o).rows n
      (fun k => (@factor K 𝔽 tol m n At bt o).Ap j k)) k
      = solvef sq (NF sq tol m n At bt o) tol n (fun k => (@factor K 𝔽 tol m n At bt o).Ap j k) k from rfl, this]
  simp only [mulVec, dotProduct, mul_apply, transpose_apply]
  rfl


theorem Q0O_props (hO : OrdOK n o) (hU : FactUnambiguous sq tol m n At bt o) :
    (Q0O sq tol m n At bt o hO)ᵀ = Q0O sq tol m n At bt o hO
    ∧ NO m n At * Q0O sq tol m n At bt o hO * NO m n At = NO m n At
    ∧ Q0O sq tol m n At bt o hO * NO m n At * Q0O sq tol m n At bt o hO = Q0O sq tol m n At bt o hO := by
  obtain ⟨q1, -, q3⟩ := Q0M_props sq hU (NF_gram sq tol m n At bt o)
  have hN : NO m n At = (matOf n n (NF sq tol m n At bt o)).submatrix hO.equiv.symm hO.equiv.symm := by
    rw [NF_eq_submatrix sq tol m n At bt o hO]
    ext i j; simp
  refine ⟨?_, Q0O_ginv sq tol m n At bt o hO hU, ?_⟩
  · unfold Q0O; rw [transpose_submatrix, q1]
  · unfold Q0O; rw [hN, submatrix_mul_equiv, submatrix_mul_equiv, q3]

/-- **`q0_xx(i,j) = Q0(i,j)`**, regular or singular, for all index pairs -/
theorem envCore_q0xx (hO : OrdOK n o) (i j : Fin n) :
    (@envCore K 𝔽 tol stol m n A b At bt reg o).q0xx (i + 1) (j + 1) = .ok (Q0O sq tol m n At bt o hO i j) := by
  have hi : (decide (1 ≤ i.1 + 1) && decide (i.1 + 1 ≤ n)) = true := by simp
  have hj : (decide (1 ≤ j.1 + 1) && decide (j.1 + 1 ≤ n)) = true := by simp
  show (if ((decide (1 ≤ i.1 + 1) && decide (i.1 + 1 ≤ n)) && (decide (1 ≤ j.1 + 1) && decide (j.1 + 1 ≤ n))) = true
      then Except.ok (@q0 K 𝔽 (@factor K 𝔽 tol m n At bt o).rows n (o.invp.getD (i.1 + 1 - 1) 0) (o.invp.getD (j.1 + 1 - 1) 0))
      else Except.error ErrKind.NotModelled) = _
  rw [hi, hj]
  simp only [Nat.add_sub_cancel, Bool.and_self, if_true]
  congr 1
  -- component `min` of `solve(e_max)` is the `(min, max)` entry of the symmetric `Q0`
  have hcol : ∀ a c : Fin n, solvef sq (NF sq tol m n At bt o) tol n (@unit K 𝔽 c) a
      = Q0M sq (NF sq tol m n At bt o) tol n a c := by
    intro a c
    have := congrFun (solve_eq_Q0M sq (NF sq tol m n At bt o) tol n (@unit K 𝔽 c)) a
    simp only [vecFn] at this
    rw [this]
    simp only [mulVec, dotProduct]
    rw [Finset.sum_eq_single c]
    · show _ * @unit K 𝔽 c c = _
      rw [unit_apply, if_pos rfl, mul_one]
    · intro k _ hk
      have : (k : ℕ) ≠ c := fun h => hk (Fin.ext h)
      show _ * @unit K 𝔽 c k = 0
      rw [unit_apply, if_neg this, mul_zero]
    · intro h; exact absurd (Finset.mem_univ c) h
  have hsym : ∀ a c : Fin n, Q0M sq (NF sq tol m n At bt o) tol n a c = Q0M sq (NF sq tol m n At bt o) tol n c a := by
    intro a c
    have := congrFun (congrFun (q0Mat_symm (MiM sq (NF sq tol m n At bt o) tol n) (dV sq (NF sq tol m n At bt o) tol n)) c) a
    rw [transpose_apply] at this
    exact this
  set a := hO.equiv.symm i with ha
  set c := hO.equiv.symm j with hc
  show @q0 K 𝔽 (@ldl K 𝔽 (NF sq tol m n At bt o) tol n) n a.1 c.1 = Q0M sq (NF sq tol m n At bt o) tol n a c
  unfold q0
  rw [vget_solve]
  rcases le_total a.1 c.1 with h | h
  · rw [max_eq_right h, min_eq_left h]; exact hcol a c
  · rw [max_eq_left h, min_eq_right h, hsym a c]; exact hcol c a

end Gama.Ls.Env
