/-
  Gram–Schmidt solver, SECOND orthogonalisation (`icgs2`): the premise "rank numerically
  unambiguous" for the norms it compares with the tolerance, derived from an EXACT hypothesis on
  the problem `(A, S)`:

      "S resolves the defect with margin τ":
        ∀ g ≠ 0, A g = 0 →  τ² · ‖g‖² < Σ_{i∈S} g_i²          (τ ≥ tolerance).

  Mathematics.  The k-th norm tested by `icgs2` is `norm2 mask p = sqrt (Σ_{i∈S} p_i²)` with
  `p = orth2 mask ks u`, `u` the bottom of the k-th flagged column of the first phase.  `u` is a
  kernel vector of `A` with coordinate 1 at position `dep[k]−1` (`Inv1.diag`), every EARLIER flagged
  bottom vanishes there (`Inv1.tri`), and `u − p` is a combination of the earlier bottoms
  (`orth2_sub_mem`, `Inv2.rprim`).  Hence `p` has coordinate 1 there: `p ≠ 0`, `‖p‖² ≥ 1`,
  `A p = 0` (`KerA.orth2`), and the margin gives `Σ_{i∈S} p_i² > τ²‖p‖² ≥ τ²`, i.e. the tested norm
  is `> τ ≥ tolerance`.  The induction along the loop carries `Inv2` and "every norm tested so far
  is > τ" together (`inv2_foldl_of_margin`): the dichotomy `inv2_step` needs for the current
  column is PROVED from the margin before the step.

  With `GapCols p` (first orthogonalisation, `GsoGap.lean`) or `GapAll p.A τ²` (`ComposeGap.lean`)
  this gives `Unambiguous p` from hypotheses on `(A, S)` only.
-/
import Gama.Lemmas.Ls.ComposeGapGso
import Gama.Lemmas.Ls.ComposeGapExample

namespace Gama.Ls.Gso
open Gama Finset Matrix Gama.LS Gama.Ls

set_option linter.unusedSectionVars false

variable {K : Type} [Field K] [LinearOrder K] [IsStrictOrderedRing K] [SqrtField K]

-- ------------------------------------------------------------------ one step

/-- a coordinate that vanishes on the generators vanishes on their span -/
theorem span_coord_zero {N : Nat} (ws : List (List K)) (j : Fin N)
    (h : ∀ w ∈ ws, toFn N w j = 0) : ∀ f ∈ Submodule.span K (fnSet N ws), f j = 0 := by
  intro f hf
  refine Submodule.span_induction (p := fun x _ => x j = 0) ?_ rfl ?_ ?_ hf
  · rintro x ⟨w, hw, rfl⟩
    exact h w hw
  · intro x y _ _ hx hy
    simp only [Pi.add_apply, hx, hy, add_zero]
  · intro c x _ hx
    simp only [Pi.smul_apply, hx, smul_zero]

/-- one column of the second orthogonalisation under the margin hypothesis: a kernel column with a
    pivot coordinate (1 on it, 0 on every processed column) is new, and the norm tested for it
    is greater than `τ` -/
theorem norm2_gt_of_margin {a : Nat → Nat → K} {M N : Nat} {mask : List Bool} {τ : K} (hτ0 : 0 ≤ τ)
    (hM : ∀ v : List K, v.length = N → KerA a M N v → toFn N v ≠ 0 →
      τ * τ * (∑ i : Fin N, toFn N v i * toFn N v i) < dotM mask v v)
    {us : List (List K)} {s : S2 K} (h : Inv2 a M N mask us s) (u : List K) (hu : u.length = N)
    (huk : KerA a M N u) (j : Fin N) (hj1 : toFn N u j = 1) (hj0 : ∀ w ∈ us, toFn N w j = 0) :
    toFn N u ∉ Submodule.span K (fnSet N us) ∧ τ < norm2 mask (orth2 mask s.ks u) := by
  have hz := span_coord_zero us j hj0
  have hnew : toFn N u ∉ Submodule.span K (fnSet N us) := fun hmem => by
    have := hz _ hmem
    rw [hj1] at this
    exact one_ne_zero this
  refine ⟨hnew, ?_⟩
  set p := orth2 mask s.ks u with hpdef
  have hdiff : toFn N u - toFn N p ∈ Submodule.span K (fnSet N us) :=
    (Submodule.span_le.2 (by rintro f ⟨k, hk, rfl⟩; exact h.rprim k hk))
      (orth2_sub_mem mask s.ks u hu h.gs.len)
  have hpj : toFn N p j = 1 := by
    have := hz _ hdiff
    simp only [Pi.sub_apply, hj1] at this
    exact (sub_eq_zero.1 this).symm
  have hplen : p.length = N := length_orth2 mask s.ks u hu h.gs.len
  have hpker : KerA a M N p := fun r hr => by
    rw [hpdef, KerA.orth2 mask s.ks u hu (fun k hk => ⟨h.gs.len k hk, h.ker k hk⟩) r hr]
    exact huk r hr
  have hpnz : toFn N p ≠ 0 := fun h0 => by
    rw [h0] at hpj
    exact zero_ne_one hpj
  have hmarg := hM p hplen hpker hpnz
  have hsum : (1 : K) ≤ ∑ i : Fin N, toFn N p i * toFn N p i := by
    have := Finset.single_le_sum (f := fun i : Fin N => toFn N p i * toFn N p i)
      (fun i _ => mul_self_nonneg _) (Finset.mem_univ j)
    simpa [hpj] using this
  have hlt : τ * τ < dotM mask p p :=
    calc τ * τ = τ * τ * 1 := (mul_one _).symm
      _ ≤ τ * τ * ∑ i : Fin N, toFn N p i * toFn N p i :=
          mul_le_mul_of_nonneg_left hsum (mul_self_nonneg τ)
      _ < dotM mask p p := hmarg
  have hsq := SqrtField.sqrt_mul_self (dotM_self_nonneg mask p)
  have hnn := SqrtField.sqrt_nonneg (dotM_self_nonneg mask p)
  show τ < Scalar.sqrt (dotM mask p p)
  by_contra hle
  have hle' := not_lt.1 hle
  have := mul_le_mul hle' hle' hnn hτ0
  rw [hsq] at this
  exact absurd hlt (not_lt.2 this)

-- ------------------------------------------------------------------ the loop

/-- **the loop of `icgs2` under the margin hypothesis** (strengthened `inv2_foldl`): instead of
    the dichotomy on the trace, every column has a pivot coordinate (1 on it, 0 on all earlier
    columns) and the kernel of `A` has S-margin `τ ≥ tol`; conclusion: the invariant AND every
    tested norm is `> τ` (hence `> tol`) -/
theorem inv2_foldl_of_margin {a : Nat → Nat → K} {M N : Nat} {mask : List Bool} {tol τ : K}
    (htol : 0 ≤ tol) (hτ0 : 0 ≤ τ) (hτ : tol ≤ τ)
    (us : List (List K)) (hus : ∀ u ∈ us, u.length = N ∧ KerA a M N u)
    (hpiv : ∀ pre u post, us = pre ++ u :: post →
      ∃ j : Fin N, toFn N u j = 1 ∧ ∀ w ∈ pre, toFn N w j = 0)
    (hM : ∀ v : List K, v.length = N → KerA a M N v → toFn N v ≠ 0 →
      τ * τ * (∑ i : Fin N, toFn N v i * toFn N v i) < dotM mask v v) :
    Inv2 a M N mask us (us.foldl (step2 tol mask) {}) ∧
      (∀ r ∈ (us.foldl (step2 tol mask) {}).tested, τ < r) ∧
      (∀ r ∈ (us.foldl (step2 tol mask) {}).tested, tol < r) := by
  induction us using List.reverseRecOn with
  | nil =>
    refine ⟨inv2_nil a M N mask, ?_, ?_⟩ <;>
    · intro r hr
      simp at hr
  | append_singleton us u ih =>
    rw [List.foldl_append, List.foldl_cons, List.foldl_nil]
    obtain ⟨I, hT, hT'⟩ := ih (fun v hv => hus v (by simp [hv]))
      (fun pre u0 post h => hpiv pre u0 (post ++ [u]) (by rw [h]; simp))
    obtain ⟨j, hj1, hj0⟩ := hpiv us u [] rfl
    obtain ⟨hnew, hgt⟩ := norm2_gt_of_margin hτ0 hM I u (hus u (by simp)).1 (hus u (by simp)).2 j hj1 hj0
    have hgt' := lt_of_le_of_lt hτ hgt
    refine ⟨inv2_step htol I u (hus u (by simp)).1 (hus u (by simp)).2 hnew (Or.inr hgt'), ?_, ?_⟩
    · rw [step2_tested]
      intro r hr
      rcases List.mem_append.1 hr with hr | hr
      · exact hT r hr
      · rw [List.mem_singleton.1 hr]; exact hgt
    · rw [step2_tested]
      intro r hr
      rcases List.mem_append.1 hr with hr | hr
      · exact hT' r hr
      · rw [List.mem_singleton.1 hr]; exact hgt'

-- ------------------------------------------------------------------ icgs1(); icgs2()

/-- the trace of `icgs1(); icgs2();` under the first-phase dichotomy and the margin hypothesis:
    the norms of the first phase, then norms that are all `> τ` -/
theorem icgs2_tested_of_margin {a : Nat → Nat → K} {M N : Nat} {mask : List Bool} {tol τ : K}
    (htol : 0 ≤ tol) (hτ0 : 0 ≤ τ) (hτ : tol ≤ τ)
    (cs : List (Col K)) (rhs : Col K) (hcs : InCols a M N cs) (hN : cs.length = N)
    (hU1 : ∀ r ∈ (cs.foldl (step1 tol) {}).tested, r = 0 ∨ tol < r)
    (hM : ∀ v : List K, v.length = N → KerA a M N v → toFn N v ≠ 0 →
      τ * τ * (∑ i : Fin N, toFn N v i * toFn N v i) < dotM mask v v) :
    ∃ t2, (icgs2 tol mask (icgs1 tol cs rhs)).tested = (cs.foldl (step1 tol) {}).tested ++ t2 ∧
      ∀ r ∈ t2, τ < r := by
  have I1 := inv1_foldl htol cs hcs hU1
  set s1 := cs.foldl (step1 tol) {} with hs1
  set rhs1 := orth1 s1.qs rhs with hrhs1
  have hP : icgs1 tol cs rhs = ⟨s1.qs, rhs1, s1.dep, s1.tested⟩ := rfl
  rw [hP]
  by_cases hd : s1.dep = []
  · refine ⟨[], ?_, by simp⟩
    simp [icgs2, hd]
  · -- singular system (set-up as in `final_icgs`)
    set idx := (List.range s1.qs.length).zip s1.qs with hidx
    have hidxlen : idx.length = s1.qs.length := by simp [hidx]
    obtain ⟨hperm, hget⟩ := movePtrs_spec idx s1.dep I1.depSorted (by rw [hidxlen]; exact I1.depLe)
    set ord := movePtrs idx s1.dep with hord
    set d := s1.dep.length with hdd
    have hne : s1.dep.isEmpty = false := by
      cases h : s1.dep with
      | nil => exact absurd h hd
      | cons _ _ => rfl
    have hidxmem : ∀ x ∈ idx, x.2 ∈ s1.qs := fun x hx => (List.of_mem_zip (a := x.1) (b := x.2) hx).2
    have hordlen : ord.length = s1.qs.length := by rw [hperm.length_eq, hidxlen]
    have hdle : d ≤ ord.length := by
      rw [hordlen]
      have hnd : s1.dep.Nodup := I1.depSorted.imp (fun h => Nat.ne_of_lt h)
      have hsub : s1.dep ⊆ (List.range (s1.qs.length + 1)) := fun z hz => by
        have := I1.depLe z hz; simp; omega
      have h0 : (0 : Nat) ∉ s1.dep := fun h => by have := (I1.depLe 0 h).1; omega
      have hsub' : s1.dep ⊆ (List.range (s1.qs.length + 1)).tail := fun z hz => by
        have h1 := hsub hz
        rw [List.range_succ_eq_map, List.tail_cons]
        rw [List.range_succ_eq_map] at h1
        rcases List.mem_cons.1 h1 with h1 | h1
        · subst h1; exact absurd hz h0
        · exact h1
      have := (List.subperm_of_subset hnd hsub').length_le
      simpa using this
    -- the pointer columns 1..d are the flagged columns
    have htake : ∀ x ∈ ord.take d, ∃ z ∈ s1.dep, 1 ≤ z ∧ x.1 = z - 1 ∧ s1.qs[z - 1]? = some x.2 := by
      intro x hx
      obtain ⟨k, hk⟩ := List.mem_iff_getElem?.1 hx
      rw [List.getElem?_take] at hk
      split at hk
      · rename_i hkd
        obtain ⟨z, hz⟩ : ∃ z, s1.dep[k]? = some z := ⟨s1.dep[k], List.getElem?_eq_getElem hkd⟩
        have hzmem : z ∈ s1.dep := List.mem_of_getElem? hz
        rw [hget k z hz] at hk
        have := (getElem?_zip_range s1.qs (z - 1) x).1 hk
        exact ⟨z, hzmem, (I1.depLe z hzmem).1, this.1, this.2⟩
      · exact absurd hk (by simp)
    have H1 : ∀ x ∈ ord, Aug a M N x.2 := fun x hx => I1.aug _ (hidxmem x (hperm.mem_iff.1 hx))
    have H2 : ∀ x ∈ ord.take d, dot x.2.top x.2.top = 0 := by
      intro x hx
      obtain ⟨z, hz, hz1, _, hq⟩ := htake x hx
      have := (I1.flag (z - 1) x.2 hq).1 (by rw [Nat.sub_add_cancel hz1]; exact hz)
      exact this
    have hNq : s1.qs.length = N := by rw [I1.len, hN]
    have husk : ∀ u ∈ (ord.take d).map (·.2.bot), u.length = N ∧ KerA a M N u := by
      intro u hu
      obtain ⟨x, hx, rfl⟩ := List.mem_map.1 hu
      have hx1 := H1 x (List.mem_of_mem_take hx)
      exact ⟨hx1.lbot, KerA.of_zero_top hx1 (H2 x hx)⟩
    -- the pivot coordinate of the k-th flagged bottom: position `dep[k] − 1`
    have hpiv : ∀ pre u post, (ord.take d).map (·.2.bot) = pre ++ u :: post →
        ∃ j : Fin N, toFn N u j = 1 ∧ ∀ w ∈ pre, toFn N w j = 0 := by
      intro pre u post hdec
      have hus : ∀ (k : Nat) (hk : k < s1.dep.length), ∃ q : Col K,
          s1.qs[s1.dep[k] - 1]? = some q ∧ ((ord.take d).map (·.2.bot))[k]? = some q.bot := by
        intro k hk
        have hz : s1.dep[k]? = some s1.dep[k] := List.getElem?_eq_getElem hk
        have hzle := I1.depLe _ (List.getElem_mem hk)
        have hzl : s1.dep[k] - 1 < s1.qs.length := by omega
        refine ⟨s1.qs[s1.dep[k] - 1], List.getElem?_eq_getElem hzl, ?_⟩
        rw [List.getElem?_map, List.getElem?_take, if_pos (by rw [hdd]; exact hk), hget k _ hz,
          (getElem?_zip_range s1.qs (s1.dep[k] - 1) (s1.dep[k] - 1, s1.qs[s1.dep[k] - 1])).2
            ⟨rfl, List.getElem?_eq_getElem hzl⟩]
        rfl
      have hlenus : ((ord.take d).map (·.2.bot)).length = d := by simp [hdle]
      have htd : pre.length < s1.dep.length := by
        have := congrArg List.length hdec
        rw [hlenus] at this
        simp at this
        omega
      obtain ⟨qt, hqt, hut⟩ := hus pre.length htd
      have hu_eq : u = qt.bot := by
        rw [hdec] at hut
        simpa using hut
      have hztmem : s1.dep[pre.length] ∈ s1.dep := List.getElem_mem htd
      have hztle := I1.depLe _ hztmem
      refine ⟨⟨s1.dep[pre.length] - 1, by omega⟩, ?_, ?_⟩
      · rw [hu_eq]
        exact I1.diag (s1.dep[pre.length] - 1) qt hqt (by rw [Nat.sub_add_cancel hztle.1]; exact hztmem)
      · intro w hw
        obtain ⟨sidx, hs⟩ := List.mem_iff_getElem?.1 hw
        have hslt : sidx < pre.length := (List.getElem?_eq_some_iff.1 hs).1
        have hsd : sidx < s1.dep.length := by omega
        obtain ⟨qs', hqs', hus'⟩ := hus sidx hsd
        have hw_eq : w = qs'.bot := by
          rw [hdec, List.getElem?_append_left hslt, hs] at hus'
          exact Option.some.inj hus'
        have hlt : s1.dep[sidx] < s1.dep[pre.length] :=
          List.pairwise_iff_getElem.1 I1.depSorted sidx pre.length hsd htd hslt
        have h1 := (I1.depLe _ (List.getElem_mem hsd)).1
        show (toFn N w) ⟨s1.dep[pre.length] - 1, _⟩ = 0
        rw [hw_eq]
        exact I1.tri (s1.dep[sidx] - 1) qs' hqs' (s1.dep[pre.length] - 1) (by omega)
    have hR : (icgs2 tol mask ⟨s1.qs, rhs1, s1.dep, s1.tested⟩).tested
        = s1.tested ++ (phase2 tol mask d ord rhs1).1.tested := by
      simp only [icgs2, hne, Bool.false_eq_true, if_false]
      rfl
    refine ⟨_, hR, ?_⟩
    have hfold : (phase2 tol mask d ord rhs1).1
        = ((ord.take d).map (·.2.bot)).foldl (step2 tol mask) {} := by
      simp only [phase2]
      rw [List.foldl_map]
    rw [hfold]
    exact (inv2_foldl_of_margin htol hτ0 hτ _ husk hpiv hM).2.1

-- ------------------------------------------------------------------ in terms of the problem

/-- the margin hypothesis on `(A, S)` in the list form the loop uses -/
theorem margin_list (p : Problem K) (τ : K)
    (hM : ∀ g : Fin p.n → K, p.A *ᵥ g = 0 → g ≠ 0 → τ * τ * (g ⬝ᵥ g) < ∑ i ∈ p.S, g i * g i) :
    ∀ v : List K, v.length = p.n → KerA (aOf p) p.m p.n v → toFn p.n v ≠ 0 →
      τ * τ * (∑ i : Fin p.n, toFn p.n v i * toFn p.n v i) < dotM (maskOf p.n p.reg) v v := by
  intro v hv hk hnz
  have hker : p.A *ᵥ toFn p.n v = 0 := by
    funext r
    have := hk r r.2
    rw [← Fin.sum_univ_eq_sum_range (fun j => aOf p r j * v.getD j 0) p.n] at this
    show ∑ j : Fin p.n, p.A r j * toFn p.n v j = 0
    exact this
  have := hM _ hker hnz
  rw [dotM_eq_sum p.n _ _ _ (length_maskOf _ _) hv hv, sum_mask p (fun i => v.getD i 0 * v.getD i 0)]
  exact this

/-- **second orthogonalisation**: under `GapCols p` (first phase) and "S resolves the defect with
    margin `τ ≥ tolerance`", every norm the second orthogonalisation of `runOf p` compares with the
    tolerance is greater than `τ` -/
theorem gso_phase2_gt_of_margin (p : Problem K) (τ : K) (hτ0 : 0 ≤ τ) (hτ : (tolerance : K) ≤ τ)
    (hG : GapCols p)
    (hM : ∀ g : Fin p.n → K, p.A *ᵥ g = 0 → g ≠ 0 → τ * τ * (g ⬝ᵥ g) < ∑ i ∈ p.S, g i * g i) :
    ∀ r ∈ (runOf p).tested.drop p.n, τ < r := by
  have h1 := unamb1_of_gap tolerance_nonneg (colsIn p) (augmented_inCols _ _ _ _) (gap1_of_gapCols p hG)
  obtain ⟨t2, ht, h2⟩ := icgs2_tested_of_margin (mask := maskOf p.n p.reg) tolerance_nonneg hτ0 hτ
    (colsIn p) (augmented p.m p.n (aOf p) (bOf p)).2 (augmented_inCols _ _ _ _)
    (augmented_length _ _ _ _) h1 (margin_list p τ hM)
  have hlen : ((colsIn p).foldl (step1 (tolerance : K)) {}).tested.length = p.n := by
    rw [step1_tested_length]; exact augmented_length _ _ _ _
  intro r hr
  have ht' : (runOf p).tested = ((colsIn p).foldl (step1 (tolerance : K)) {}).tested ++ t2 := by
    rw [runOf_eq]; exact ht
  rw [ht', List.drop_append_of_le_length (le_of_eq hlen.symm), ← hlen, List.drop_length] at hr
  exact h2 r (by simpa using hr)

/-- the hypothesis `h2` of `gso_unambiguous_of_gap`, derived (right disjunct) -/
theorem gso_phase2_of_margin (p : Problem K) (τ : K) (hτ0 : 0 ≤ τ) (hτ : (tolerance : K) ≤ τ)
    (hG : GapCols p)
    (hM : ∀ g : Fin p.n → K, p.A *ᵥ g = 0 → g ≠ 0 → τ * τ * (g ⬝ᵥ g) < ∑ i ∈ p.S, g i * g i) :
    ∀ r ∈ (runOf p).tested.drop p.n, r = 0 ∨ (tolerance : K) < r := fun r hr =>
  Or.inr (lt_of_le_of_lt hτ (gso_phase2_gt_of_margin p τ hτ0 hτ hG hM r hr))

/-- **`Unambiguous p` from hypotheses on `(A, S)` only**: the exact Gram–Schmidt vectors of `A`
    have norm 0 or > tolerance, and S resolves the defect with margin `τ ≥ tolerance` -/
theorem gso_unambiguous_of_gap_margin (p : Problem K) (τ : K) (hτ0 : 0 ≤ τ)
    (hτ : (tolerance : K) ≤ τ) (hG : GapCols p)
    (hM : ∀ g : Fin p.n → K, p.A *ᵥ g = 0 → g ≠ 0 → τ * τ * (g ⬝ᵥ g) < ∑ i ∈ p.S, g i * g i) :
    Unambiguous p :=
  gso_unambiguous_of_gap p hG (gso_phase2_of_margin p τ hτ0 hτ hG hM)

/-- the same with the order-independent gap hypothesis of `ComposeGap.lean` at threshold `τ²` -/
theorem gso_unambiguous_of_gapAll_margin (p : Problem K) (τ : K) (hτ0 : 0 ≤ τ)
    (hτ : (tolerance : K) ≤ τ) (hG : GapAll p.A (τ * τ))
    (hM : ∀ g : Fin p.n → K, p.A *ᵥ g = 0 → g ≠ 0 → τ * τ * (g ⬝ᵥ g) < ∑ i ∈ p.S, g i * g i) :
    Unambiguous p :=
  gso_unambiguous_of_gap_margin p τ hτ0 hτ
    (gapCols_of_gapAll p (hG.mono (mul_le_mul hτ hτ tolerance_nonneg hτ0))) hM

-- ------------------------------------------------------------------ non-vacuity

/-- `tolerance ≤ 1/2` over ℝ -/
theorem Ex.tol_le_half : (tolerance : ℝ) ≤ 1 / 2 := by
  show 1 / ((2 ^ 52 : Nat) : ℝ) * ((100000 : Nat) : ℝ) ≤ 1 / 2
  norm_num

/-- `Ex.pR` (`A = [1 1; 0 0]`, `S = {1}`): the kernel is `{(t, −t)}`, `Σ_{i∈S} g_i² = t²`,
    `‖g‖² = 2t²`: margin `τ = 1/2` (`¼ · 2t² < t²`) -/
theorem Ex.pR_margin : ∀ g : Fin Ex.pR.n → ℝ, Ex.pR.A *ᵥ g = 0 → g ≠ 0 →
    (1 / 2 : ℝ) * (1 / 2) * (g ⬝ᵥ g) < ∑ i ∈ Ex.pR.S, g i * g i := by
  rw [GapEx.pR_A]
  intro (g : Fin 2 → ℝ) hg hnz
  have h1 : g 0 + g 1 = 0 := by
    have : ((!![1, 1; 0, 0] : Matrix (Fin 2) (Fin 2) ℝ) *ᵥ g) 0 = (0 : Fin 2 → ℝ) 0 :=
      congrFun hg (0 : Fin 2)
    simpa [Matrix.mulVec, dotProduct, Fin.sum_univ_two] using this
  have hmem : ∀ i : Fin 2, i ∈ Reg.toFinset 2 (.subset [1]) ↔ i = 0 := by
    intro i
    fin_cases i <;> simp
  have hS : (Reg.toFinset 2 (.subset [1]) : Finset (Fin 2)) = {0} := by
    ext i
    rw [hmem, Finset.mem_singleton]
  have hg0 : g 0 ≠ 0 := by
    intro h0
    apply hnz
    ext i
    fin_cases i
    · exact h0
    · show g 1 = 0
      rw [h0, zero_add] at h1
      exact h1
  have hpos : 0 < g 0 * g 0 := mul_self_pos.2 hg0
  have e1 : g 1 = - g 0 := by linarith
  show (1 / 2 : ℝ) * (1 / 2) * (∑ i : Fin 2, g i * g i)
    < ∑ i ∈ (Reg.toFinset 2 (.subset [1]) : Finset (Fin 2)), g i * g i
  rw [hS, Fin.sum_univ_two, Finset.sum_singleton, e1]
  nlinarith

/-- non-vacuity: over ℝ (`Real.sqrt`) the singular problem `Ex.pR` meets every hypothesis of
    `gso_unambiguous_of_gapAll_margin` with `τ = 1/2` — `tolerance ≤ 1/2`, `GapAll A ¼`, margin —
    and the theorem gives `Unambiguous Ex.pR` (also obtained by running the model: `Ex.pR_unambiguous`) -/
example : (0 : ℝ) ≤ 1 / 2 ∧ (tolerance : ℝ) ≤ 1 / 2 ∧ GapAll Ex.pR.A ((1 / 2 : ℝ) * (1 / 2))
    ∧ (∀ g : Fin Ex.pR.n → ℝ, Ex.pR.A *ᵥ g = 0 → g ≠ 0 →
        (1 / 2 : ℝ) * (1 / 2) * (g ⬝ᵥ g) < ∑ i ∈ Ex.pR.S, g i * g i)
    ∧ Unambiguous Ex.pR :=
  ⟨by norm_num, Ex.tol_le_half, GapEx.pR_gap.mono (by norm_num), Ex.pR_margin,
    gso_unambiguous_of_gapAll_margin Ex.pR (1 / 2) (by norm_num) Ex.tol_le_half
      (GapEx.pR_gap.mono (by norm_num)) Ex.pR_margin⟩

end Gama.Ls.Gso
