/-
  `Svd.decompose` (the transliteration of `SVD::svd()`, Golub–Reinsch) returns a factorisation:
  the ALGEBRAIC part of the certificate `SvdCert`, for every input on which the run returns.

  Setting: `K` a linearly ordered field, the model at `fieldScalar sq`, `sq` a square root on the
  non-negative elements.  In this reading every `==` of the code is an equality of field elements,
  so "the element tested as negligible" is exactly zero — the exact-arithmetic convention that the
  theorems about the other solvers use too.  What is NOT proved is that the run returns (it throws
  `NoConvergence` after 30 sweeps for one singular value; in exact arithmetic the QR iteration
  reaches an exact zero only for special inputs) nor anything about rounding: for `double` the
  factors of the real code are still checked numerically on every run (tools/props/svd_cert.py).

    `phase1`, `phase2`, `phase3`, `search_stmt`, `cancel_stmt`, `flip_stmt`, `sweep_stmt`
                         the statements of `SvdDecompSpec.lean`, proved in `SvdDecompHhCol/HhRow/
                         Bidiag/AccV/AccU/Cancel/Sweep.lean`
    `decompose_cert`     `decompose m n A = .ok d` ⇒ `A = U diag(W) Vᵀ`, `VᵀV = 1`, the columns of `U`
                         with `W ≠ 0` orthonormal, `W ≥ 0`  (`DecompPost`)
    `decompose_svdCert`  … ⇒ `SvdCert sq tol m n A d` once the singular values are unambiguous
                         w.r.t. the tolerance (a property of `W` alone)
-/
import Gama.Lemmas.Ls.SvdDecompPass
import Gama.Lemmas.Ls.SvdDecompHhCol
import Gama.Lemmas.Ls.SvdDecompHhRow
import Gama.Lemmas.Ls.SvdDecompBidiag
import Gama.Lemmas.Ls.SvdDecompAccV
import Gama.Lemmas.Ls.SvdDecompAccU
import Gama.Lemmas.Ls.SvdDecompCancel
import Gama.Lemmas.Ls.SvdDecompSweep
import Gama.Lemmas.Ls.SvdSolve

namespace Gama.Ls.Svd
open Matrix Finset Gama.LS Gama.Ls

set_option linter.unusedSectionVars false
set_option linter.unusedVariables false

variable {K : Type} [Field K] [LinearOrder K] [IsStrictOrderedRing K] (sq : K → K)

local notation "𝕊" => (Gama.LS.fieldScalar sq)

/-- the Householder loop (statement `Phase1Stmt`) -/
theorem phase1 : Phase1Stmt sq := phase1_of sq (hhCol_stmt sq) (hhRow_stmt sq)

/-- **`decompose` returns a factorisation** -/
theorem decompose_cert (hsq : ∀ x : K, 0 ≤ x → sq x * sq x = x) (hsq0 : ∀ x : K, 0 ≤ x → 0 ≤ sq x)
    (m n : Nat) (A : DMat K) (d : Dec K) (h : @decompose K 𝕊 m n A = .ok d) :
    DecompPost m n A d :=
  decompose_cert_of sq (phase1 sq) (phase2_stmt sq) (phase3_stmt sq) (search_stmt sq) (cancel_stmt sq)
    (flip_stmt sq) (sweep_stmt sq) hsq hsq0 m n A d h

/-- the factorisation certificate of the svd theorems, for the factors `decompose` returns: only
    the unambiguity of the singular values w.r.t. the tolerance remains a hypothesis -/
theorem decompose_svdCert (hsq : ∀ x : K, 0 ≤ x → sq x * sq x = x) (hsq0 : ∀ x : K, 0 ≤ x → 0 ≤ sq x)
    (tol : K) (m n : Nat) (A : DMat K) (d : Dec K) (h : @decompose K 𝕊 m n A = .ok d)
    (hun : Unambiguous sq tol n (@vget K 𝕊 d.W)) : SvdCert sq tol m n A d := by
  have hp := decompose_cert sq hsq hsq0 m n A d h
  exact ⟨hp.fact, hp.vtv, fun i j hi _ => hp.utu i j hi, hun⟩

end Gama.Ls.Svd
