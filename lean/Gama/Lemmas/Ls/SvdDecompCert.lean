/-
  `Svd.decompose` (the transliteration of `SVD::svd()`, Golub–Reinsch) returns a factorisation:
  the ALGEBRAIC part of the certificate `SvdCert`, for every input on which the run returns.

  Setting: `K` a linearly ordered field, the model at `fieldScalar sq`, `sq` a square root on the
  non-negative elements.  In this reading every `==` of the code is an equality of field elements,
  so "the element tested as negligible" is exactly zero — the exact-arithmetic convention that the
  theorems about the other solvers use too.  What is NOT proved is that the run returns (it throws
  `NoConvergence` after 30 sweeps for one singular value; in exact arithmetic the QR iteration
  reaches an exact zero only for special inputs) nor anything about rounding: for `double` the
  factors of the real code are still checked numerically on every run (tools/props/svd_cert.py).

    `phase1`, `phase2`, `phase3`, `search_stmt`, `cancel_stmt`, `flip_stmt`, `sweep_stmt`
                         the statements of `SvdDecompSpec.lean`, proved in `SvdDecompHhCol/HhRow/
                         Bidiag/AccV/AccU/Cancel/Sweep.lean`
    `decompose_cert`     `decompose m n A = .ok d` ⇒ `A = U diag(W) Vᵀ`, `VᵀV = 1`, the columns of `U`
                         with `W ≠ 0` orthonormal, `W ≥ 0`  (`DecompPost`)
    `decompose_svdCert`  … ⇒ `SvdCert sq tol m n A d` once the singular values are unambiguous
                         w.r.t. the tolerance (a property of `W` alone)
-/
import Gama.Lemmas.Ls.SvdDecompPass
import Gama.Lemmas.Ls.SvdDecompHhCol
import Gama.Lemmas.Ls.SvdDecompHhRow
import Gama.Lemmas.Ls.SvdDecompBidiag
import Gama.Lemmas.Ls.SvdDecompAccV
import Gama.Lemmas.Ls.SvdDecompAccU
import Gama.Lemmas.Ls.SvdDecompCancel
import Gama.Lemmas.Ls.SvdDecompSweep
import Gama.Lemmas.Ls.SvdSolve

namespace Gama.Ls.Svd
open Matrix Finset Gama.LS Gama.Ls

set_option linter.unusedSectionVars false
set_option linter.unusedVariables false

variable {K : Type} [Field K] [LinearOrder K] [IsStrictOrderedRing K] (sq : K → K)

local notation "𝕊" => (Gama.LS.fieldScalar sq)

/-- the Householder loop (statement `Phase1Stmt`) -/
theorem phase1 : Phase1Stmt sq := phase1_of sq (hhCol_stmt sq) (hhRow_stmt sq)

/-- **`decompose` returns a factorisation** -/
theorem decompose_cert (hsq : ∀ x : K, 0 ≤ x → sq x * sq x = x) (hsq0 : ∀ x : K, 0 ≤ x → 0 ≤ sq x)
    (m n : Nat) (A : DMat K) (d : Dec K) (h : @decompose K 𝕊 m n A = .ok d) :
    DecompPost m n A d :=
  decompose_cert_of sq (phase1 sq) (phase2_stmt sq) (phase3_stmt sq) (search_stmt sq) (cancel_stmt sq)
    (flip_stmt sq) (sweep_stmt sq) hsq hsq0 m n A d h

/-- the factorisation certificate of the svd theorems, for the factors `decompose` returns: only
    the unambiguity of the singular values w.r.t. the tolerance remains a hypothesis -/
theorem decompose_svdCert (hsq : ∀ x : K, 0 ≤ x → sq x * sq x = x) (hsq0 : ∀ x : K, 0 ≤ x → 0 ≤ sq x)
    (tol : K) (m n : Nat) (A : DMat K) (d : Dec K) (h : @decompose K 𝕊 m n A = .ok d)
    (hun : Unambiguous sq tol n (@vget K 𝕊 d.W)) : SvdCert sq tol m n A d := by
  have hp := decompose_cert sq hsq hsq0 m n A d h
  exact ⟨hp.fact, hp.vtv, fun i j hi _ => hp.utu i j hi, hun⟩

/-- **the invariant at every point of `decompose`** (all loops, all iterations):
    1. after every Householder step `i` of the bidiagonalisation (`Inv1St`: `A = (P₁⋯Pᵢ)·Workᵢ·(Q₁⋯Qᵢ)ᵀ`
       with the reflectors read off the stored vectors, each an involution);
    2. after every step of the accumulation of the right-hand transformations: the trailing block of
       `V` is the product `Q_{n-t+1}⋯Qₙ`;
    3. after every step of the accumulation of the left-hand transformations: the trailing block of
       `U` is `P_{mn-t+1}⋯P_mn·[I;0]`, the Householder vectors still to be used are intact;
    4. after every Givens rotation pair of a QR sweep (`sw_Inv`: `A = U·M·Vᵀ`, `VᵀV = 1`,
       `UᵀU + ZᵀZ = 1`, `Z·M = 0` with `M` the bidiagonal matrix plus the bulge held in the scalars);
    5. after every pass for the singular value `k` (`PInv`: `A = U·bidiag(W, rv1)·Vᵀ`, orthogonality,
       `rv1[j] = 0 ∧ 0 ≤ W[j]` beyond `k`, and beyond `k-1` once `done` is set). -/
theorem decompose_invariant (hsq : ∀ x : K, 0 ≤ x → sq x * sq x = x) (hsq0 : ∀ x : K, 0 ≤ x → 0 ≤ sq x)
    (m n : Nat) (A : DMat K) :
    (∀ i, i ≤ n → ∀ st : St1 K,
      forIn [1:i+1] (init1 sq m n A) (@bidiagBody K 𝕊 m n) = .ok st → Inv1St sq m n A i st) ∧
    (∀ (U : DMat K) (rv1 : Array K) (g0 s0 : K) (L0 t : Nat), t ≤ n → ∀ st : DMat K × K × K × Nat,
      forIn [0:t] ((Array.replicate n (Array.replicate n (0 : K)), g0, s0, L0) : DMat K × K × K × Nat)
        (@accVBody K 𝕊 n U rv1) = .ok st →
      MWF n n st.1 ∧ ∀ a b : Fin n, n - t ≤ a.val → n - t ≤ b.val →
        @mg K 𝕊 st.1 (a.val + 1) (b.val + 1) = prodFrom (QRm sq n U (@g1 K 𝕊 rv1)) (n - t + 1) t a b) ∧
    (∀ (U0 : DMat K) (W : Array K), MWF m n U0 →
      (∀ i, 1 ≤ i → i ≤ n → @g1 K 𝕊 W i ≠ 0 → @mg K 𝕊 U0 i i ≠ 0) →
      ∀ (g0 s0 f0 : K) (L0 t : Nat), t ≤ (if m < n then m else n) → ∀ st : DMat K × K × K × K × Nat,
      forIn [0:t] ((U0, g0, s0, f0, L0) : DMat K × K × K × K × Nat)
        (@accUBody K 𝕊 m n (if m < n then m else n) W) = .ok st →
      accU_Inv sq m n (if m < n then m else n) U0 W t st.1) ∧
    (∀ (W0 rv10 : Array K) (L k i1 : Nat), 1 ≤ L → L ≤ i1 → i1 < k → k ≤ n →
      (∀ j, L < j → j ≤ k → @g1 K 𝕊 rv10 j ≠ 0 ∧ @g1 K 𝕊 W0 (j - 1) ≠ 0) →
      ∀ st st' : StQ K, sw_Inv sq m n A W0 rv10 L k i1 st →
      @sweepBody K 𝕊 m n i1 st = .ok (.yield st') → sw_Inv sq m n A W0 rv10 L k (i1 + 1) st') ∧
    (∀ (k : Nat), 1 ≤ k → k ≤ n → ∀ (sOne : K) (st : StP K), PInv sq m n A k st →
      ∀ r : ForInStep (StP K), @passBody K 𝕊 m n k (k - 1) sOne st = .ok r →
      r = .done st ∨ ∃ st', r = .yield st' ∧ PInv sq m n A k st') := by
  refine ⟨fun i hi st h => bidiag_invariant sq (hhCol_stmt sq) (hhRow_stmt sq) hsq hsq0 m n A i hi st h,
    fun U rv1 g0 s0 L0 t ht st h => ?_, fun U0 W hU0 hnz g0 s0 f0 L0 t ht st h => ?_,
    fun W0 rv10 L k i1 h1 h2 h3 h4 hnz st st' hI hb =>
      sweep_invariant sq hsq hsq0 m n A W0 rv10 L k i1 h1 h2 h3 h4 hnz st st' hI hb,
    fun k hk1 hkn sOne st hI r hr =>
      passBody_spec sq (search_stmt sq) (cancel_stmt sq) (flip_stmt sq) (sweep_stmt sq) hsq hsq0 m n k A hk1 hkn
        sOne st hI r hr⟩
  · obtain ⟨h1, -, h3⟩ := accV_invariant sq n U rv1 g0 s0 L0 t ht st h
    exact ⟨h1, h3⟩
  · have hmn1 : (if m < n then m else n) ≤ m := by split <;> omega
    have hmn2 : (if m < n then m else n) ≤ n := by split <;> omega
    have hmn3 : (if m < n then m else n) = m ∨ (if m < n then m else n) = n := by split <;> simp
    exact accU_invariant sq hmn1 hmn2 hmn3 hU0 hnz g0 s0 f0 L0 ht st h

end Gama.Ls.Svd
